import Dino.Util
/-!
# Units — model of `dinosaur/scales.py` and of the time conversions

Core Lean only (compiled into the driver).  Mirrors

* `scales.Scale.__init__`, `_scaling_factor`, `nondimensionalize`, `dimensionalize`
  (generic scalar `K`; a dimension vector is a `List Int` of exponents of the base dimensions,
  a scale is a `List (Option K)` of base-unit magnitudes, a unit is its conversion factor to
  base units together with its dimension vector — pint's table is an *input* of the model);
  offset units (`degC`, `degF`) are affine units `AffUnit` (conversion factor, offset, dimension vector)
  with `nondimAff` / `dimensionalizeAff` / `convertAff` mirroring pint's order of operations;
* `PrimitiveEquationsSpecs.nondimensionalize_timedelta64 / dimensionalize_timedelta64`
  (as repaired in commit 35952ac: round to microseconds, then truncate; scalar and array path),
  `xarray_utils.datetime64_to_nondim_time / nondim_time_to_datetime64 /
  nondim_time_delta_from_time_axis`, `radiation.datetime_to_time`.
  Doubles are rational numbers, so this part of the model lives on `Rat`, and every floating
  point operation of the code is an exact operation followed by an explicit rounding function
  `fl : Rat → Rat` (a parameter; the driver runs it with `fl53`, round-to-nearest-even to 53
  significant bits, or with `id` for exact arithmetic);
* `radiation.SolarRadiation.time_to_orbital_time`, `datetime_to_orbital_time`, `days_in_year`
  (generic scalar, the floor function is a parameter).
-/
namespace Dino.Units

section Generic
variable {K : Type} [Add K] [Sub K] [Mul K] [Div K] [Neg K] [Zero K] [One K]

/-! ## integer powers -/

/-- `x ^ n` by repeated multiplication (`npow x 1 = 1 * x`) -/
def npow (x : K) : Nat → K
  | 0 => 1
  | n + 1 => npow x n * x

/-- `x ^ e` for an integer exponent -/
def zpow (x : K) : Int → K
  | Int.ofNat n => npow x n
  | Int.negSucc n => 1 / npow x (n + 1)

/-! ## dimension vectors (exponents of the base dimensions; missing entries are 0) -/

def dget (d : List Int) (i : Nat) : Int := d.getD i 0

def dadd : List Int → List Int → List Int
  | [], b => b
  | a, [] => a
  | x :: a, y :: b => (x + y) :: dadd a b

def dsmul (n : Int) (d : List Int) : List Int := d.map (n * ·)

def dneg (d : List Int) : List Int := dsmul (-1) d

/-! ## `Scale._scaling_factor` -/

/-- does the scale have an entry for every base dimension that occurs in `d`? -/
def covers : List (Option K) → List Int → Bool
  | _, [] => true
  | [], e :: d => e == 0 && covers [] d
  | s :: sc, e :: d => (e == 0 || s.isSome) && covers sc d

/-- `Scale._scaling_factor`: product of the base scales raised to the exponents of the
dimensionality; `none` (`ValueError`) when a dimension that occurs has no scale. -/
def factor : List (Option K) → List Int → Option K
  | _, [] => some 1
  | [], e :: d => if e = 0 then factor [] d else none
  | s :: sc, e :: d =>
      if e = 0 then factor sc d else
      match s with
      | none => none
      | some q => (factor sc d).map (fun f => zpow q e * f)

/-! ## units and quantities -/

/-- a (multiplicative) unit: conversion factor to base units and dimension vector -/
structure UnitV (K : Type) where
  conv : K
  dim : List Int

def UnitV.one : UnitV K := ⟨1, []⟩
def UnitV.mul (a b : UnitV K) : UnitV K := ⟨a.conv * b.conv, dadd a.dim b.dim⟩
def UnitV.pow (a : UnitV K) (n : Int) : UnitV K := ⟨zpow a.conv n, dsmul n a.dim⟩
def UnitV.div (a b : UnitV K) : UnitV K := ⟨a.conv / b.conv, dadd a.dim (dneg b.dim)⟩

/-- a compound unit `∏ atomᵢ ^ eᵢ` -/
def compound : List (UnitV K × Int) → UnitV K
  | [] => UnitV.one
  | (a, e) :: rest => (a.pow e).mul (compound rest)

/-- `Scale.nondimensionalize` of the quantity `m · u` -/
def nondim (sc : List (Option K)) (u : UnitV K) (m : K) : Option K :=
  (factor sc u.dim).map (fun f => m * u.conv / f)

/-- magnitude of `Scale.dimensionalize(v, u)` -/
def dimensionalize (sc : List (Option K)) (u : UnitV K) (v : K) : Option K :=
  (factor sc u.dim).map (fun f => v * f / u.conv)

def nondimVec (sc : List (Option K)) (u : UnitV K) (ms : List K) : Option (List K) :=
  (factor sc u.dim).map (fun f => ms.map (fun m => m * u.conv / f))

def dimensionalizeVec (sc : List (Option K)) (u : UnitV K) (vs : List K) : Option (List K) :=
  (factor sc u.dim).map (fun f => vs.map (fun v => v * f / u.conv))

/-! ## affine (offset) units: degree Celsius, degree Fahrenheit

The registry of `scales.py` is created with `autoconvert_offset_to_baseunit=True`, so a quantity in an
offset unit is admissible: pint converts it to base units before it is divided by the scaling factor
(`OffsetConverter.to_reference`: `value * scale + offset`), and `Quantity.to(unit)` finishes with
`OffsetConverter.from_reference`: `(value - offset) / scale`.  An affine unit is its conversion factor
and offset to the base unit together with its dimension vector (again an *input* of the model).
Only *plain* offset units are in the domain (`degC`, `degF`, exponent 1, no other factor): for a compound
unit built from an offset unit (`units.degC / units.m`) the code raises (`OffsetUnitCalculusError` /
`DimensionalityError`), and pint's parser turns the string `'degC/m'` into the multiplicative
`delta_degC / m`, which is a `UnitV`. -/

/-- an affine unit: `value_base = value * conv + off` -/
structure AffUnit (K : Type) where
  conv : K
  off : K
  dim : List Int

/-- a multiplicative unit is the affine unit with offset 0 -/
def AffUnit.ofUnit (u : UnitV K) : AffUnit K := ⟨u.conv, 0, u.dim⟩

/-- `OffsetConverter.to_reference`: magnitude in base units -/
def AffUnit.toBase (u : AffUnit K) (m : K) : K := m * u.conv + u.off

/-- `OffsetConverter.from_reference`: magnitude of a base-unit value in the unit -/
def AffUnit.fromBase (u : AffUnit K) (b : K) : K := (b - u.off) / u.conv

/-- magnitude of `Quantity(m, u).to(u')` for two affine units of the same dimension -/
def convertAff (u u' : AffUnit K) (m : K) : K := u'.fromBase (u.toBase m)

/-- `Scale.nondimensionalize` of `Quantity(m, u)`: pint converts to base units first (autoconvert), then
divides by the scaling factor -/
def nondimAff (sc : List (Option K)) (u : AffUnit K) (m : K) : Option K :=
  (factor sc u.dim).map (fun f => u.toBase m / f)

/-- magnitude of `Scale.dimensionalize(v, u)`: `(v * factor)` in base units, then `.to(u)` -/
def dimensionalizeAff (sc : List (Option K)) (u : AffUnit K) (v : K) : Option K :=
  (factor sc u.dim).map (fun f => u.fromBase (v * f))

def nondimAffVec (sc : List (Option K)) (u : AffUnit K) (ms : List K) : Option (List K) :=
  (factor sc u.dim).map (fun f => ms.map (fun m => u.toBase m / f))

def dimensionalizeAffVec (sc : List (Option K)) (u : AffUnit K) (vs : List K) : Option (List K) :=
  (factor sc u.dim).map (fun f => vs.map (fun v => u.fromBase (v * f)))

/-- NOT the code: the variant that expresses the scaling factor in the requested unit once and multiplies
the value by its magnitude (`value * factor.to(unit).magnitude`).  It agrees with `dimensionalizeAff`
on every unit with offset 0 and is wrong on every other one (negative witness of C18). -/
def dimensionalizeLinearised (sc : List (Option K)) (u : AffUnit K) (v : K) : Option K :=
  (factor sc u.dim).map (fun f => v * u.fromBase f)

/-! ## `Scale.__init__` -/

/-- `_get_dimension`: index of the base dimension of a vector that has exactly one non-zero
exponent, equal to 1; `none` (`ValueError`) otherwise -/
def singleDim : List Int → Option Nat
  | [] => none
  | e :: d =>
      if e = 0 then (singleDim d).map (· + 1)
      else if e = 1 ∧ d.all (· == 0) then some 0 else none

/-- put `m` at position `i` of a scale; `none` when out of range or occupied (duplicate) -/
def setAt : Nat → K → List (Option K) → Option (List (Option K))
  | _, _, [] => none
  | 0, m, s :: sc => match s with
      | none => some (some m :: sc)
      | some _ => none
  | i + 1, m, s :: sc => (setAt i m sc).map (s :: ·)

/-- `Scale(*quantities)` over `n` base dimensions; a quantity is its magnitude in base units and
its dimension vector -/
def mkScale (n : Nat) : List (K × List Int) → Option (List (Option K))
  | [] => some (List.replicate n none)
  | (m, d) :: qs =>
      match mkScale n qs, singleDim d with
      | some sc, some i => setAt i m sc
      | _, _ => none

/-! ## orbital phases -/

/-- `x - x // p * p` -/
def reduce (floorK : K → K) (p x : K) : K := x - floorK (x / p) * p

/-- `SolarRadiation.time_to_orbital_time` for one of the two phases -/
def timeToOrbital (floorK : K → K) (twoPi ref rate t : K) : K :=
  reduce floorK twoPi (ref + rate * t)

/-- a natural number as a scalar -/
def natK : Nat → K
  | 0 => 0
  | n + 1 => natK n + 1

end Generic

/-! ## calendar (proleptic Gregorian, as `datetime.datetime`) -/

def isLeap (y : Nat) : Bool := y % 4 == 0 && (y % 100 != 0 || y % 400 == 0)

def daysInMonth (y m : Nat) : Nat :=
  if m = 2 then (if isLeap y then 29 else 28)
  else if m = 4 ∨ m = 6 ∨ m = 9 ∨ m = 11 then 30 else 31

/-- days before the first of month `m` (1-based), as `datetime._days_before_month`: the table of a
common year plus one after February of a leap year -/
def daysBeforeMonth (y m : Nat) : Nat :=
  [0, 31, 59, 90, 120, 151, 181, 212, 243, 273, 304, 334].getD (m - 1) 0
    + (if 2 < m ∧ isLeap y then 1 else 0)

/-- `timetuple().tm_yday` -/
def dayOfYear (y m d : Nat) : Nat := daysBeforeMonth y m + d

/-- `radiation.days_in_year`: day of the year of December 31st -/
def daysInYear (y : Nat) : Nat := dayOfYear y 12 31

/-- does `datetime.datetime(y, m, d, h, mi)` exist? -/
def validDateTime (y m d h mi : Nat) : Bool :=
  1 ≤ y && y ≤ 9999 && 1 ≤ m && m ≤ 12 && 1 ≤ d && d ≤ daysInMonth y m && h < 24 && mi < 60

section Generic2
variable {K : Type} [Add K] [Sub K] [Mul K] [Div K] [Neg K] [Zero K] [One K]

/-- `radiation.datetime_to_orbital_time`: (orbital phase, synodic phase) -/
def datetimeToOrbital (twoPi : K) (y m d h mi : Nat) : K × K :=
  let fractionOfDay : K := natK (60 * h + mi) / natK 1440
  let fractionOfYear : K := (natK (dayOfYear y m d - 1) + fractionOfDay) / natK (daysInYear y)
  (twoPi * fractionOfYear, twoPi * fractionOfDay)

end Generic2

/-! ## rounding of rationals (doubles are rationals) -/

/-- round to the nearest integer, ties to even (`rint`, Python's `round`) -/
def roundHalfEven (x : Rat) : Int :=
  let f := x.floor
  let r := x - (f : Rat)
  if r < 1 / 2 then f
  else if 1 / 2 < r then f + 1
  else if f % 2 = 0 then f else f + 1

/-- truncation toward zero (`int(·)`, the C cast of `astype`) -/
def truncRat (x : Rat) : Int := if 0 ≤ x then x.floor else -((-x).floor)

/-- `2 ^ e` -/
def pow2 (e : Int) : Rat :=
  match e with
  | Int.ofNat n => ((2 ^ n : Nat) : Rat)
  | Int.negSucc n => 1 / ((2 ^ (n + 1) : Nat) : Rat)

def absRat (x : Rat) : Rat := if x < 0 then -x else x

/-- round with `2 ^ (-sh)` as the unit in the last place -/
def roundAt (sh : Int) (x : Rat) : Rat := (roundHalfEven (x * pow2 sh) : Rat) / pow2 sh

/-- IEEE-754 binary64 round-to-nearest-even of a rational (no overflow / underflow): the
binary exponent `e` with `2^e ≤ |x| < 2^(e+1)` is one of the two candidates given by the bit
lengths of numerator and denominator, and the result has 53 significant bits. -/
def fl53 (x : Rat) : Rat :=
  if x = 0 then 0 else
  let a := absRat x
  let e0 : Int := (Nat.log2 x.num.natAbs : Int) - (Nat.log2 x.den : Int)
  if pow2 e0 ≤ a then roundAt (52 - e0) x
  else if pow2 (e0 - 1) ≤ a then roundAt (53 - e0) x
  else x   -- not reachable: 2^(e0-1) < |x| always

/-! ## timedelta64 -/

def micro : Rat := 1000000

/-- `nondimensionalize_timedelta64` of `s` whole seconds under the time scale `T` -/
def tdNondim (fl : Rat → Rat) (T : Rat) (s : Int) : Rat := fl (fl (s : Rat) / T)

/-- seconds before rounding: `scale.dimensionalize(v, 's').m` -/
def tdSeconds (fl : Rat → Rat) (T v : Rat) : Rat := fl (v * T)

/-- scalar path of `dimensionalize_timedelta64`: `int(round(float(dt), 6))` — Python's `round`
is correctly rounded (half-even on the exact value, then the nearest double) -/
def tdScalar (fl : Rat → Rat) (dt : Rat) : Int :=
  truncRat (fl ((roundHalfEven (dt * micro) : Rat) / micro))

/-- array path: `np.round(dt, 6).astype('timedelta64[s]')` — numpy multiplies by `1e6`, applies
`rint`, divides by `1e6`; the cast truncates toward zero -/
def tdArray (fl : Rat → Rat) (dt : Rat) : Int :=
  truncRat (fl ((roundHalfEven (fl (dt * micro)) : Rat) / micro))

/-- the code before commit 35952ac: plain truncation -/
def tdOld (dt : Rat) : Int := truncRat dt

/-! ## datetime64 ↔ model time -/

/-- `datetime64_to_nondim_time`: `dl` is the difference of the integer counts of the stamps in a
unit with `uph` units per hour; `((time - ref) / timedelta64(1,'h')) * hour` non-dimensionalised
(pint divides by the scale, then converts with the factor 3600) -/
def dtNondim (fl : Rat → Rat) (T : Rat) (uph : Nat) (dl : Int) : Rat :=
  fl (fl (fl (fl (dl : Rat) / (uph : Rat)) / T) * 3600)

/-- `nondim_time_to_datetime64`: whole minutes, `np.round(dimensionalize(t, minute))`
(pint multiplies by the scale, then by the double nearest to 1/60) -/
def dtMinutes (fl : Rat → Rat) (T v : Rat) : Int :=
  roundHalfEven (fl (fl (v * T) * fl (1 / 60)))

/-- both conversions in a row on the integer count `cnt` of a stamp in a unit with `upm` units
per minute, reference count `refc` -/
def dtRoundtrip (fl : Rat → Rat) (T : Rat) (upm : Nat) (refc cnt : Int) : Int :=
  refc + dtMinutes fl T (dtNondim fl T (60 * upm) (cnt - refc)) * (upm : Int)

/-- `nondim_time_delta_from_time_axis` on an integer time axis with `ups` units per second
(the cast to `timedelta64[s]` is a floor division) -/
def axisDelta (fl : Rat → Rat) (T : Rat) (ups : Nat) (c0 c1 : Int) : Rat :=
  fl (fl (((c1 - c0) / (ups : Int) : Int) : Rat) / T)

/-- `radiation.datetime_to_time`: `days + seconds / 86400` days non-dimensionalised -/
def radTime (fl : Rat → Rat) (T : Rat) (days seconds : Int) : Rat :=
  let dd := fl (fl (days : Rat) + fl (fl (seconds : Rat) / 86400))
  fl (fl (dd / T) * 86400)

/-! ## orbital phase in double arithmetic

`SolarRadiation.time_to_orbital_time` executed operation by operation on doubles (eager execution;
under `jit` XLA may contract `x - q * p` into one fused operation, which removes the inner rounding):
`orbital_time = ref + rate * time` (two roundings), `q = orbital_time // (2π)` is the *exact* floor of
the quotient of the two doubles (`jnp.floor_divide` derives it from the exact `fmod`), then
`orbital_time - q * (2π)` (two roundings). -/

/-- `x - x // p * p` on doubles: exact floor, rounded product, rounded difference -/
def reduceFl (fl : Rat → Rat) (p x : Rat) : Rat := fl (x - fl (((x / p).floor : Rat) * p))

/-- `SolarRadiation.time_to_orbital_time` for one of the two phases, on doubles -/
def timeToOrbitalFl (fl : Rat → Rat) (twoPi ref rate t : Rat) : Rat :=
  reduceFl fl twoPi (fl (ref + fl (rate * t)))

end Dino.Units
