import Dino.Imex
/-!
# Stepping and scan combinators — executable model (core Lean only)

Mirrors the second half of `dinosaur/time_integration.py`:
`step_with_filters`, `repeated`, `trajectory_from_step`, `nested_checkpoint_scan`,
`_inner_nested_scan`, `accumulate_repeated`, `_dfi_lanczos_weights`,
`digital_filter_initialization` (`TimeReversedImExODE` and `ImplicitExplicitODE` are
`Dino.Imex.timeReversed` / `Dino.Imex.ImEx`, shared with C06).

Modelling decisions (all on the trusted side, see DESIGN.md section 5):
* `jax.lax.scan(f, init, xs)` is the sequential loop `scan` below (final carry and the list of
  outputs); `xs = None, length = n` is a list of `n` units; a Python exception raised inside the
  body aborts the scan (`scanE`).
* `jax.checkpoint` is the identity on values.
* Arrays are flat row-major lists of rows (`List X`, `X` = everything behind the leading axis);
  `x.reshape((l, l', …) + rest)` followed by a scan over the leading axis hands out the `l`
  consecutive chunks of `l'·…` rows (`chunks`); a pytree of arrays is the list of its leaves.
* Python exceptions are values of `Err`.
* The per-iteration output of a scan body is a value of an arbitrary type `Y` standing for the
  whole output pytree; `nOut` is the number of array leaves of that pytree (`0` for a body
  returning `None` / `()` as output, then `Y` carries no information, e.g. `Y = Unit`).
  `tree_map(jnp.concatenate, out)` calls `jnp.concatenate` once per output leaf, so with `nOut = 0`
  it is never called.  `innerNestedScan` / `nestedCheckpointScan` (no `nOut` argument) are the
  instance "at least one output leaf" (`…Out_succ` in `DinoProofs/Properties/C14.lean`).
State, carry, input and output types are arbitrary; step functions, filters, scan bodies are
parameters.
-/
namespace Dino.Comb
open Dino.Imex (ImEx timeReversed)

/-- kinds of Python exceptions the combinators can raise -/
inductive Err where
  | valueError | typeError | indexError | zeroDivision
  deriving DecidableEq, Repr

def Err.toString : Err → String
  | .valueError => "value-error"
  | .typeError => "type-error"
  | .indexError => "index-error"
  | .zeroDivision => "zero-division"

section scans
variable {C X Y S : Type}

/-- `jax.lax.scan(f, init, xs)`: the sequential loop -/
def scan (f : C → X → C × Y) : C → List X → C × List Y
  | c, [] => (c, [])
  | c, x :: xs =>
    let r := f c x
    let rest := scan f r.1 xs
    (rest.1, r.2 :: rest.2)

/-- a scan whose body may raise: the first exception aborts the loop -/
def scanE (g : C → X → Except Err (C × Y)) : C → List X → Except Err (C × List Y)
  | c, [] => .ok (c, [])
  | c, x :: xs =>
    match g c x with
    | .error e => .error e
    | .ok r =>
      match scanE g r.1 xs with
      | .error e => .error e
      | .ok rest => .ok (rest.1, r.2 :: rest.2)

/-! ## `step_with_filters`, `repeated`, `trajectory_from_step` -/

/-- the loop `for filter_fn in filters: u_next = filter_fn(u, u_next)` -/
def applyFilters (u : S) : List (S → S → S) → S → S
  | [], uNext => uNext
  | flt :: rest, uNext => applyFilters u rest (flt u uNext)

/-- `step_with_filters(step_fn, filters)` -/
def stepWithFilters (stepFn : S → S) (filters : List (S → S → S)) (u : S) : S :=
  applyFilters u filters (stepFn u)

/-- `repeated(fn, steps)`: `fn` itself when `steps == 1`, otherwise a scan of length `steps`
 over `xs = None` that throws the outputs away -/
def repeated (fn : S → S) (steps : Nat) : S → S :=
  if steps = 1 then fn
  else fun xInitial => (scan (fun x (_ : Unit) => (fn x, ())) xInitial (List.replicate steps ())).1

/-- `trajectory_from_step(step_fn, outer_steps, inner_steps, start_with_input=…,
 post_process_fn=…)`: returns (final carry, stacked frames) -/
def trajectoryFromStep (stepFn : S → S) (outerSteps innerSteps : Nat) (startWithInput : Bool)
    (postProcess : S → Y) (x : S) : S × List Y :=
  let stepFn' := if innerSteps ≠ 1 then repeated stepFn innerSteps else stepFn
  let step := fun (carryIn : S) (_ : Unit) =>
    let carryOut := stepFn' carryIn
    let frame := if startWithInput then carryIn else carryOut
    (carryOut, postProcess frame)
  scan step x (List.replicate outerSteps ())

/-! ## `nested_checkpoint_scan` -/

/-- `math.prod` -/
def prod : List Nat → Nat
  | [] => 1
  | l :: ls => l * prod ls

/-- the slices `x[0], …, x[n-1]` along the leading axis of a row-major array of leading shape
 `(n, sz)`: consecutive chunks of `sz` rows -/
def chunks (sz : Nat) : Nat → List X → List (List X)
  | 0, _ => []
  | n + 1, xs => xs.take sz :: chunks sz n (xs.drop sz)

/-- `_inner_nested_scan(f, init, xs, lengths, scan_fn, checkpoint_fn)` for a single array `xs`
 (already reshaped: flat, row-major) and a body whose output pytree has at least one array leaf
 (for the general case, including bodies returning `None` as output, see `innerNestedScanOut`).
 * `lengths = []`: `lengths[0]` raises `IndexError`;
 * one length: `scan_fn(f, init, xs, lengths[0])` (`lax.scan` raises `ValueError` when `length`
   disagrees with the leading axis);
 * otherwise a scan of the checkpointed `sub_scans` over the `lengths[0]` slices, then
   `jnp.concatenate` of every stacked output leaf, which raises `ValueError` for an empty
   sequence. -/
def innerNestedScan (f : C → X → C × Y) : List Nat → C → List X → Except Err (C × List Y)
  | [], _, _ => .error .indexError
  | [l], c, xs => if xs.length = l then .ok (scan f c xs) else .error .valueError
  | l :: l' :: ls, c, xs =>
    match scanE (fun carry sub => innerNestedScan f (l' :: ls) carry sub) c
        (chunks (prod (l' :: ls)) l xs) with
    | .error e => .error e
    | .ok r => if r.2.isEmpty then .error .valueError else .ok (r.1, r.2.flatten)

/-- `_inner_nested_scan` for a body whose output pytree has `nOut` array leaves:
 `tree_map(jnp.concatenate, out)` calls `jnp.concatenate` once per leaf, so the `ValueError` for an
 empty sequence (outer length `0`) arises only when there is at least one output leaf; a body
 returning `None` as output (`nOut = 0`) gives `(carry, None)` for every outer length. -/
def innerNestedScanOut (nOut : Nat) (f : C → X → C × Y) :
    List Nat → C → List X → Except Err (C × List Y)
  | [], _, _ => .error .indexError
  | [l], c, xs => if xs.length = l then .ok (scan f c xs) else .error .valueError
  | l :: l' :: ls, c, xs =>
    match scanE (fun carry sub => innerNestedScanOut nOut f (l' :: ls) carry sub) c
        (chunks (prod (l' :: ls)) l xs) with
    | .error e => .error e
    | .ok r => if nOut ≠ 0 ∧ r.2.isEmpty then .error .valueError else .ok (r.1, r.2.flatten)

/-- `length is not None and length != math.prod(nested_lengths)` -/
def lengthMismatch (length : Option Nat) (nestedLengths : List Nat) : Bool :=
  match length with
  | some n => n != prod nestedLengths
  | none => false

/-- `nested_checkpoint_scan(f, init, xs, length, nested_lengths=…)` for a single array `xs`:
 the `length` check (`ValueError`), `reshape` (`TypeError` when the leading length is not
 `prod nested_lengths`), then the recursion.  This is the instance "the trailing shape
 `x.shape[1:]` has positive size" of `nestedCheckpointScanSized` below
 (`Dino.C14.nestedCheckpointScanSized_pos`): `reshape` compares TOTAL sizes, so an array whose
 trailing shape has size `0` passes it with every leading length. -/
def nestedCheckpointScan (f : C → X → C × Y) (init : C) (xs : List X) (length : Option Nat)
    (nestedLengths : List Nat) : Except Err (C × List Y) :=
  if lengthMismatch length nestedLengths then .error .valueError
  else if xs.length ≠ prod nestedLengths then .error .typeError
  else innerNestedScan f nestedLengths init xs

/-- `nested_checkpoint_scan` for a single array `xs` and a body with `nOut` output leaves -/
def nestedCheckpointScanOut (nOut : Nat) (f : C → X → C × Y) (init : C) (xs : List X)
    (length : Option Nat) (nestedLengths : List Nat) : Except Err (C × List Y) :=
  if lengthMismatch length nestedLengths then .error .valueError
  else if xs.length ≠ prod nestedLengths then .error .typeError
  else innerNestedScanOut nOut f nestedLengths init xs

/-- what the body receives at iteration `i` of a scan over a pytree: `tree_map(lambda a: a[i], xs)` -/
def rowAt (leaves : List (List X)) (i : Nat) : List X := leaves.filterMap (·[i]?)

/-- the sequence of inputs of a scan of length `n` over a pytree (`xs = None`: no leaves, `n`
 empty rows) -/
def rows (n : Nat) (leaves : List (List X)) : List (List X) := (List.range n).map (rowAt leaves)

/-- slices along the leading axis, leaf by leaf -/
def chunksTree (sz : Nat) : Nat → List (List X) → List (List (List X))
  | 0, _ => []
  | n + 1, leaves => leaves.map (·.take sz) :: chunksTree sz n (leaves.map (·.drop sz))

/-- `_inner_nested_scan` for a pytree `xs` (list of leaves, each already reshaped) -/
def innerNestedScanTree (f : C → List X → C × Y) :
    List Nat → C → List (List X) → Except Err (C × List Y)
  | [], _, _ => .error .indexError
  | [l], c, leaves =>
    if leaves.all (fun a => a.length == l) then .ok (scan f c (rows l leaves))
    else .error .valueError
  | l :: l' :: ls, c, leaves =>
    match scanE (fun carry sub => innerNestedScanTree f (l' :: ls) carry sub) c
        (chunksTree (prod (l' :: ls)) l leaves) with
    | .error e => .error e
    | .ok r => if r.2.isEmpty then .error .valueError else .ok (r.1, r.2.flatten)

/-- `nested_checkpoint_scan` for a pytree `xs`; `reshape` is applied leaf by leaf (`tree_map`),
 the first leaf of the wrong size raises `TypeError` -/
def nestedCheckpointScanTree (f : C → List X → C × Y) (init : C) (leaves : List (List X))
    (length : Option Nat) (nestedLengths : List Nat) : Except Err (C × List Y) :=
  if lengthMismatch length nestedLengths then .error .valueError
  else if leaves.any (fun a => a.length != prod nestedLengths) then .error .typeError
  else innerNestedScanTree f nestedLengths init leaves

/-- `_inner_nested_scan` for a pytree `xs` and a body with `nOut` output leaves -/
def innerNestedScanTreeOut (nOut : Nat) (f : C → List X → C × Y) :
    List Nat → C → List (List X) → Except Err (C × List Y)
  | [], _, _ => .error .indexError
  | [l], c, leaves =>
    if leaves.all (fun a => a.length == l) then .ok (scan f c (rows l leaves))
    else .error .valueError
  | l :: l' :: ls, c, leaves =>
    match scanE (fun carry sub => innerNestedScanTreeOut nOut f (l' :: ls) carry sub) c
        (chunksTree (prod (l' :: ls)) l leaves) with
    | .error e => .error e
    | .ok r => if nOut ≠ 0 ∧ r.2.isEmpty then .error .valueError else .ok (r.1, r.2.flatten)

/-- `nested_checkpoint_scan` for a pytree `xs` and a body with `nOut` output leaves -/
def nestedCheckpointScanTreeOut (nOut : Nat) (f : C → List X → C × Y) (init : C)
    (leaves : List (List X)) (length : Option Nat) (nestedLengths : List Nat) :
    Except Err (C × List Y) :=
  if lengthMismatch length nestedLengths then .error .valueError
  else if leaves.any (fun a => a.length != prod nestedLengths) then .error .typeError
  else innerNestedScanTreeOut nOut f nestedLengths init leaves

/-! ### `reshape` compares total sizes: arrays whose trailing shape has size `0` -/

/-- `x.reshape(tuple(nested_lengths) + x.shape[1:])` raises (`TypeError`) iff the TOTAL sizes
 differ; `n` = leading length of `x`, `rowSize = prod x.shape[1:]` -/
def reshapeRejects (rowSize n : Nat) (nestedLengths : List Nat) : Bool :=
  n * rowSize != prod nestedLengths * rowSize

/-- the rows of the reshaped array (flat, row-major): the rows of `x` when the trailing shape has
 positive size (then `reshape` only succeeds with `prod nested_lengths` rows); when it has size `0`
 every leading length is accepted and the result has `prod nested_lengths` rows, all equal to the
 empty row -/
def reshaped (rowSize : Nat) (emptyRow : X) (xs : List X) (nestedLengths : List Nat) : List X :=
  if rowSize = 0 then List.replicate (prod nestedLengths) emptyRow else xs

/-- `nested_checkpoint_scan` for a single array `xs` whose rows have `rowSize` entries
 (`rowSize = prod xs.shape[1:]`, possibly `0`), a body with `nOut` output leaves -/
def nestedCheckpointScanSized (rowSize : Nat) (emptyRow : X) (nOut : Nat) (f : C → X → C × Y)
    (init : C) (xs : List X) (length : Option Nat) (nestedLengths : List Nat) :
    Except Err (C × List Y) :=
  if lengthMismatch length nestedLengths then .error .valueError
  else if reshapeRejects rowSize xs.length nestedLengths then .error .typeError
  else innerNestedScanOut nOut f nestedLengths init (reshaped rowSize emptyRow xs nestedLengths)

/-- `nested_checkpoint_scan` for a pytree `xs`, every leaf given with the size of its trailing
 shape (`(rowSize, rows)`) -/
def nestedCheckpointScanTreeSized (emptyRow : X) (nOut : Nat) (f : C → List X → C × Y) (init : C)
    (leaves : List (Nat × List X)) (length : Option Nat) (nestedLengths : List Nat) :
    Except Err (C × List Y) :=
  if lengthMismatch length nestedLengths then .error .valueError
  else if leaves.any (fun a => reshapeRejects a.1 a.2.length nestedLengths) then .error .typeError
  else innerNestedScanTreeOut nOut f nestedLengths init
    (leaves.map fun a => reshaped a.1 emptyRow a.2 nestedLengths)

end scans

/-! ## `accumulate_repeated`, digital filter initialisation -/
section dfi
variable {K V : Type}

/-- `accumulate_repeated(step_fn, weights, state)`: carry `(state, averaged)`, body
 `state = step_fn(state); averaged = averaged + weight * state`, start from `zeros_like(state)` -/
def accumulateRepeated [Add V] [Zero V] [SMul K V] (stepFn : V → V) (weights : List K)
    (state : V) : V :=
  (scan (fun (carry : V × V) (weight : K) =>
      let state' := stepFn carry.1
      ((state', carry.2 + weight • state'), ())) (state, 0) weights).1.2

/-- Python's `round(x)` of a float (nearest integer, ties to even) from `floor`; `ofInt` is the
 conversion back, `lt` the order -/
def roundHalfEven [Sub K] [Div K] [Add K] [One K] (floor : K → Int) (ofInt : Int → K)
    (lt : K → K → Bool) (x : K) : Int :=
  let fl := floor x
  let r := x - ofInt fl
  let half : K := 1 / (1 + 1)
  if lt r half then fl
  else if lt half r then fl + 1
  else if fl % 2 = 0 then fl else fl + 1

/-- `N = round(time_span / (2 * dt))`; Python float division raises `ZeroDivisionError` -/
def dfiSteps [Sub K] [Div K] [Add K] [Mul K] [One K] (isZero : K → Bool) (floor : K → Int)
    (ofInt : Int → K) (lt : K → K → Bool) (timeSpan dt : K) : Except Err Int :=
  if isZero ((1 + 1) * dt) then .error .zeroDivision
  else .ok (roundHalfEven floor ofInt lt (timeSpan / ((1 + 1) * dt)))

/-- `_dfi_lanczos_weights` after `N` is known: `n = arange(1, N + 1)`,
 `w = sinc(n / (N + 1)) * sinc(n * time_span / (cutoff_period * N))`; `np.sinc` is external -/
def lanczosWeights [Mul K] [Div K] [NatCast K] (sinc : K → K) (N : Nat) (timeSpan cutoff : K) :
    List K :=
  (List.range N).map fun i =>
    let n : K := ((i + 1 : Nat) : K)
    sinc (n / ((N + 1 : Nat) : K)) * sinc (n * timeSpan / (cutoff * (N : K)))

/-- `weights.sum()` -/
def weightSum [Add K] [Zero K] (w : List K) : K := w.foldl (· + ·) 0

/-- `total_weight = init_weight + 2 * weights.sum()` with `init_weight = 1.0` -/
def dfiTotal [Add K] [Mul K] [Zero K] [One K] (w : List K) : K := 1 + (1 + 1) * weightSum w

/-- the body of `digital_filter_initialization(...)(state)` once the (unnormalised) weights are
 known: forward and backward filtered steps, normalisation, `sum([init, forward, backward])`
 (Python's `sum` starts from `0`) -/
def dfiWith [Add K] [Mul K] [Div K] [Neg K] [Zero K] [One K] [Add V] [Zero V] [Neg V] [SMul K V]
    (solver : ImEx K V → K → V → V) (eq : ImEx K V) (filters : List (V → V → V))
    (weights : List K) (dt : K) (state : V) : V :=
  let forwardStep := stepWithFilters (solver eq dt) filters
  let backwardStep := stepWithFilters (solver (timeReversed eq) dt) filters
  let total := dfiTotal weights
  let initWeight : K := 1 / total
  let ws := weights.map (· / total)
  let initTerm := initWeight • state
  let forwardTerm := accumulateRepeated forwardStep ws state
  let backwardTerm := accumulateRepeated backwardStep ws state
  0 + initTerm + forwardTerm + backwardTerm

/-- `digital_filter_initialization(equation, ode_solver, filters, time_span, cutoff_period, dt)` -/
def digitalFilterInitialization [Add K] [Sub K] [Mul K] [Div K] [Neg K] [Zero K] [One K]
    [NatCast K] [Add V] [Zero V] [Neg V] [SMul K V]
    (isZero : K → Bool) (floor : K → Int) (ofInt : Int → K) (lt : K → K → Bool) (sinc : K → K)
    (solver : ImEx K V → K → V → V) (eq : ImEx K V) (filters : List (V → V → V))
    (timeSpan cutoff dt : K) (state : V) : Except Err V :=
  match dfiSteps isZero floor ofInt lt timeSpan dt with
  | .error e => .error e
  | .ok N =>
    .ok (dfiWith solver eq filters (lanczosWeights sinc N.toNat timeSpan cutoff) dt state)

end dfi

end Dino.Comb
