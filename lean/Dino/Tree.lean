import Dino.Util
/-!
# Trees, nested dictionaries, resampling, dimension names — executable model (core Lean only)

Mirrors, as the code is now,

* `dinosaur/pytree_utils.py`: `flatten_dict`, `unflatten_dict`, `replace_with_matching_or_default`,
  `pack_pytree` / `unpack_to_pytree`, `stack_pytree` / `unstack_to_pytree`, `slice_along_axis`,
  `split_along_axis`, `split_axis`, `concat_along_axis`;
* `dinosaur/coordinate_systems.py`: `get_spectral_downsample_fn`, `get_spectral_upsample_fn`,
  `get_spectral_interpolate_fn`;
* `dinosaur/xarray_utils.py`: `_maybe_update_shape_and_dim_with_realization_time_sample`,
  `_infer_dims_shape_and_coords` and the name lookup of `data_to_xarray`.

Conventions

* a key is a list of characters (`List α`, any type of characters with decidable equality; the
  driver uses code points), the separator is **one character** (`sep : α`, a single symbol).  The API
  takes `sep: str`; separators of two or more characters are outside this model and outside every
  theorem about `splitOn` / `joinSep` / `flatten` / `unflatten`: there the real code does not
  round-trip keys that end / start with a part of the separator although no key contains it
  (`flatten_dict({'a:': {'b': 1}}, sep='::')` = `{'a:::b': 1}`, read back as `{'a': {':b': 1}}`;
  known finding `multichar-separator-overlap`, measured on the real code by `harness/props/C19.py`);
* a Python dictionary is the list of its `(key, value)` pairs in insertion order (`Dict`); `d[k] = v`
  is `Dict.insert` (in place when the key exists, appended otherwise); a `.items()` that repeats a
  key (a `dict` subclass) is a `Dict` with a repeated key;
* errors are values (`Except Err`): the exception classes the code raises;
* an array is seen in the *axis-major view* (`Leaf`): its shape with the working axis removed
  (`off`, what `jnp.concatenate` / `jnp.stack` validate) and the list of its slices along the working
  axis, every slice flattened (`List (List K)`); arrays of rank 0 have no such view and are outside
  the model (`jnp.concatenate` refuses them); a pytree is the list of its leaves in `jax.tree_util` order
  (`tree_flatten` / `tree_unflatten` themselves are executed, not modelled: a wrong number of
  leaves is `Err.tree`).
-/
namespace Dino.Tree

/-- the exception classes that the modelled functions raise -/
inductive Err where
  | sep      -- ValueError: key contains the separator
  | dup      -- ValueError: duplicate keys
  | index    -- IndexError
  | type     -- TypeError (int used as a dictionary)
  | unused   -- ValueError: replace keys not present
  | tree     -- ValueError: tree structure / number of leaves
  | shape    -- shapes do not agree (concatenate / stack)
  | value    -- any other ValueError
  | zerodiv  -- ZeroDivisionError
  | notrees  -- TypeError: tree_map() missing argument
  deriving DecidableEq, Repr

def Err.render : Err → String
  | .sep => "err:sep" | .dup => "err:dup" | .index => "err:index" | .type => "err:type"
  | .unused => "err:unused" | .tree => "err:tree" | .shape => "err:shape" | .value => "err:value"
  | .zerodiv => "err:zerodiv" | .notrees => "err:notrees"

/-! ## keys: `str.split(sep)` and `sep.join` for a one-character separator -/
section Keys
variable {α : Type} [DecidableEq α]

/-- `s.split(sep)` -/
def splitOn (sep : α) : List α → List (List α)
  | [] => [[]]
  | c :: cs =>
    if c = sep then [] :: splitOn sep cs
    else match splitOn sep cs with
      | h :: t => (c :: h) :: t
      | [] => [[c]]

/-- `sep.join(ks)` -/
def joinSep (sep : α) : List (List α) → List α
  | [] => []
  | [k] => k
  | k :: k' :: ks => k ++ sep :: joinSep sep (k' :: ks)

/-- `new_key = k if prefix is None else prefix + sep + k` -/
def newKey (sep : α) (pre : Option (List α)) (k : List α) : List α :=
  match pre with
  | none => k
  | some p => p ++ sep :: k

/-- the key before commit 97b3b0b: `prefix + sep + k if prefix else k` (prefix default `''`) -/
def newKeyOld (sep : α) (pre : List α) (k : List α) : List α :=
  if pre.isEmpty then k else pre ++ sep :: k

end Keys

/-! ## nested dictionaries -/

mutual
/-- a Python value: a leaf or a dictionary -/
inductive Val (α β : Type) where
  | leaf : β → Val α β
  | dict : Dict α β → Val α β
/-- a Python dictionary: `(key, value)` pairs in insertion order -/
inductive Dict (α β : Type) where
  | nil : Dict α β
  | cons : List α → Val α β → Dict α β → Dict α β
end

section Dicts
variable {α : Type} [DecidableEq α] {β : Type}

def Dict.isNil : Dict α β → Bool
  | .nil => true
  | .cons _ _ _ => false

def Dict.length : Dict α β → Nat
  | .nil => 0
  | .cons _ _ r => r.length + 1

def Dict.keys : Dict α β → List (List α)
  | .nil => []
  | .cons k _ r => k :: r.keys

/-- `d.get(k)` (first entry with that key) -/
def Dict.lookup (k : List α) : Dict α β → Option (Val α β)
  | .nil => none
  | .cons k' v r => if k' = k then some v else r.lookup k

/-- `d[k] = v`: in place when `k` is present, appended otherwise -/
def Dict.insert (k : List α) (v : Val α β) : Dict α β → Dict α β
  | .nil => .cons k v .nil
  | .cons k' v' r => if k' = k then .cons k' v r else .cons k' v' (r.insert k v)

abbrev Flat (α β : Type) := List (List α × β) × List (List α)

/-- the two duplicate checks at the end of `flatten_dict` (`collections.Counter` over the Python
 strings: keys are compared exactly, character by character, trailing NUL characters included; before
 the repair 0ddc902 a numpy unicode array dropped trailing NULs, so `'a'` and `'a\x00'` looked equal) -/
def dupCheck (r : Flat α β) : Except Err (Flat α β) :=
  if ¬ (r.1.map Prod.fst).Nodup then .error .dup
  else if ¬ r.2.Nodup then .error .dup
  else .ok r

/-- the loop of `flatten_dict` (current code); the recursive call runs its own duplicate checks -/
def flattenLoop (sep : α) (pre : Option (List α)) : Dict α β → Except Err (Flat α β)
  | .nil => .ok ([], [])
  | .cons k v rest =>
    if sep ∈ k then .error .sep else
    match v with
    | .leaf b =>
      match flattenLoop sep pre rest with
      | .ok r => .ok ((newKey sep pre k, b) :: r.1, r.2)
      | .error x => .error x
    | .dict d =>
      if d.isNil then
        match flattenLoop sep pre rest with
        | .ok r => .ok (r.1, newKey sep pre k :: r.2)
        | .error x => .error x
      else
        match (flattenLoop sep (some (newKey sep pre k)) d).bind dupCheck with
        | .error x => .error x
        | .ok r1 =>
          match flattenLoop sep pre rest with
          | .ok r2 => .ok (r1.1 ++ r2.1, r1.2 ++ r2.2)
          | .error x => .error x

/-- `flatten_dict(d, prefix, sep)` -/
def flattenFrom (sep : α) (pre : Option (List α)) (d : Dict α β) : Except Err (Flat α β) :=
  (flattenLoop sep pre d).bind dupCheck

/-- `flatten_dict(d, sep=sep)` -/
def flatten (sep : α) (d : Dict α β) : Except Err (Flat α β) := flattenFrom sep none d

/-- the checks before commits dea0f39: the empty keys are compared by `x[0]`, their first
 character (`IndexError` on the empty key) -/
def dupCheckOld (r : Flat α β) : Except Err (Flat α β) :=
  if ¬ (r.1.map Prod.fst).Nodup then .error .dup
  else if r.2.any List.isEmpty then .error .index
  else if ¬ (r.2.map List.head?).Nodup then .error .dup
  else .ok r

/-- `flatten_dict` before commits dea0f39 and 97b3b0b -/
def flattenLoopOld (sep : α) (pre : List α) : Dict α β → Except Err (Flat α β)
  | .nil => .ok ([], [])
  | .cons k v rest =>
    if sep ∈ k then .error .sep else
    match v with
    | .leaf b =>
      match flattenLoopOld sep pre rest with
      | .ok r => .ok ((newKeyOld sep pre k, b) :: r.1, r.2)
      | .error x => .error x
    | .dict d =>
      if d.isNil then
        match flattenLoopOld sep pre rest with
        | .ok r => .ok (r.1, newKeyOld sep pre k :: r.2)
        | .error x => .error x
      else
        match (flattenLoopOld sep (newKeyOld sep pre k) d).bind dupCheckOld with
        | .error x => .error x
        | .ok r1 =>
          match flattenLoopOld sep pre rest with
          | .ok r2 => .ok (r1.1 ++ r2.1, r1.2 ++ r2.2)
          | .error x => .error x

def flattenOld (sep : α) (d : Dict α β) : Except Err (Flat α β) :=
  (flattenLoopOld sep [] d).bind dupCheckOld

/-- `flat_dict | {k: {} for k in empty_keys}` -/
def merged (flat : List (List α × β)) (empties : List (List α)) : Dict α β :=
  empties.foldl (fun d k => d.insert k (.dict .nil))
    (flat.foldl (fun d kv => d.insert kv.1 (.leaf kv.2)) .nil)

/-- the inner loop of `unflatten_dict` for one `(key, value)`: walk `sub_keys[:-1]` creating
 dictionaries, then `sub_dict[sub_keys[-1]] = value`.  Walking into a leaf is a `TypeError`. -/
def setPath : Dict α β → List (List α) → Val α β → Except Err (Dict α β)
  | _, [], _ => .error .index          -- `sub_keys[-1]` of an empty list (`str.split` never returns it)
  | d, [k], v => .ok (d.insert k v)
  | d, k :: k' :: ks, v =>
    match d.lookup k with
    | some (.dict s) =>
      match setPath s (k' :: ks) v with
      | .ok s' => .ok (d.insert k (.dict s'))
      | .error e => .error e
    | some (.leaf _) => .error .type
    | none =>
      match setPath .nil (k' :: ks) v with
      | .ok s' => .ok (d.insert k (.dict s'))
      | .error e => .error e

/-- the outer loop of `unflatten_dict` over the merged dictionary -/
def unflattenLoop (sep : α) : Dict α β → Dict α β → Except Err (Dict α β)
  | .nil, r => .ok r
  | .cons key value rest, r =>
    match setPath r (splitOn sep key) value with
    | .ok r' => unflattenLoop sep rest r'
    | .error e => .error e

/-- `unflatten_dict(flat, empty_keys, sep)` -/
def unflatten (sep : α) (flat : List (List α × β)) (empties : List (List α)) : Except Err (Dict α β) :=
  unflattenLoop sep (merged flat empties) .nil

/-- `dict.get` on a list of items -/
def alookup {γ : Type} (k : List α) : List (List α × γ) → Option γ
  | [] => none
  | (k', v) :: r => if k' = k then some v else alookup k r

/-- `replace_with_matching_or_default(x, replace, default, check_used_all_replace_keys)` -/
def replace (sep : α) (x repl : Dict α β) (dflt : β) (check : Bool) : Except Err (Dict α β) :=
  match flatten sep x with
  | .error e => .error e
  | .ok fx =>
    match flatten sep repl with
    | .error e => .error e
    | .ok fr =>
      if check && fr.1.any (fun kv => !(fx.1.any (fun kv' => kv'.1 == kv.1))) then .error .unused
      else unflatten sep (fx.1.map (fun kv => (kv.1, (alookup kv.1 fr.1).getD dflt))) fx.2

/-! ### Python `==` on dictionaries, path lookup -/

mutual
/-- Python `==` on values -/
def Val.pyEq [DecidableEq β] : Val α β → Val α β → Bool
  | .leaf a, w => match w with
    | .leaf b => decide (a = b)
    | .dict _ => false
  | .dict d, w => match w with
    | .leaf _ => false
    | .dict e => d.length == e.length && d.pySub e
/-- every entry of the first dictionary is in the second one with an equal value -/
def Dict.pySub [DecidableEq β] : Dict α β → Dict α β → Bool
  | .nil, _ => true
  | .cons k v r, e =>
    (match e.lookup k with
      | some w => v.pyEq w
      | none => false) && r.pySub e
end

/-- Python `d == e` -/
def Dict.pyEq [DecidableEq β] (d e : Dict α β) : Bool := (Val.dict d).pyEq (Val.dict e)

/-- what a value is when it ends a path: a leaf `some b`, an empty dictionary `none`;
 a non-empty dictionary does not end a path -/
def Val.term : Val α β → Option (Option β)
  | .leaf b => some (some b)
  | .dict d => if d.isNil then some none else none

/-- terminal lookup: `look d p = some (some b)` when the path `p` leads to the leaf `b`,
 `some none` when it leads to an empty dictionary, `none` otherwise -/
def look : Dict α β → List (List α) → Option (Option β)
  | _, [] => none
  | d, [k] => (d.lookup k).bind Val.term
  | d, k :: k' :: ks =>
    match d.lookup k with
    | some (.dict s) => look s (k' :: ks)
    | _ => none

mutual
def Val.map {γ : Type} (f : β → γ) : Val α β → Val α γ
  | .leaf b => .leaf (f b)
  | .dict d => .dict (d.map f)
def Dict.map {γ : Type} (f : β → γ) : Dict α β → Dict α γ
  | .nil => .nil
  | .cons k v r => .cons k (v.map f) (r.map f)
end

end Dicts

/-! ## pytrees of arrays in the axis-major view -/
section Arrays
variable {K : Type}

/-- a leaf array seen along the working axis `axis`: `off` is its shape with the working axis removed
 (`shape[:axis] + shape[axis+1:]`: the sizes that `jnp.concatenate` compares one by one, the rank
 included), `slices` are its slices along the axis, every slice flattened (`off.prod` entries each,
 see `Leaf.WF`).  The shape of the array is `off` with `slices.length` inserted at the axis. -/
structure Leaf (K : Type) where
  off : List Nat
  slices : List (List K)
  deriving DecidableEq, Repr

/-- a whole array: its shape and its entries in row-major order (a leaf given to `stack_pytree`) -/
structure Arr (K : Type) where
  shape : List Nat
  data : List K
  deriving DecidableEq, Repr

/-- `pack_pytree`: `none` for a tree without leaves, `jnp.concatenate(leaves, axis)` otherwise.
 `lax.concatenate` raises `TypeError` unless all leaves have the rank and the off-axis sizes of the
 first one (a leaf without slices is compared like any other) -/
def pack (leaves : List (Leaf K)) : Except Err (Option (Leaf K)) :=
  match leaves with
  | [] => .ok none
  | l :: ls =>
    if ls.all (fun m => decide (m.off = l.off)) then
      .ok (some ⟨l.off, l.slices ++ (ls.map Leaf.slices).flatten⟩)
    else .error .shape

/-- `np.cumsum` -/
def cumsumFrom (acc : Nat) : List Nat → List Nat
  | [] => []
  | a :: as => (acc + a) :: cumsumFrom (acc + a) as

def cumsum (l : List Nat) : List Nat := cumsumFrom 0 l

/-- `arr[a:b]` -/
def slice (arr : List (List K)) (a b : Nat) : List (List K) := (arr.take b).drop a

/-- `jnp.split(arr, indices, axis)`: the pieces `arr[0:i₁], arr[i₁:i₂], …, arr[iₙ:]` -/
def splitIdxFrom (arr : List (List K)) (start : Nat) : List Nat → List (List (List K))
  | [] => [slice arr start arr.length]
  | i :: is => slice arr start i :: splitIdxFrom arr i is

def splitIdx (arr : List (List K)) (idx : List Nat) : List (List (List K)) := splitIdxFrom arr 0 idx

/-- `unpack_to_pytree(arr, shapes, axis)`, `sizes = [s[axis] for s in shapes]`:
 `jnp.split(arr, cumsum(sizes)[:-1])` (every piece keeps the off-axis shape of `arr`); without shapes
 the single piece does not fit the empty tree -/
def unpack (arr : Leaf K) (sizes : List Nat) : Except Err (List (Leaf K)) :=
  if sizes.isEmpty then .error .tree
  else .ok ((splitIdx arr.slices (cumsum sizes).dropLast).map (fun s => ⟨arr.off, s⟩))

/-- `stack_pytree`: `jnp.stack` raises unless all leaves have the shape of the first one (ranks
 included); in the view along the new axis the slices are the flattened leaves and the off-axis shape
 is their common shape -/
def stack (leaves : List (Arr K)) : Except Err (Option (Leaf K)) :=
  match leaves with
  | [] => .ok none
  | l :: ls =>
    if ls.all (fun m => decide (m.shape = l.shape)) then .ok (some ⟨l.shape, l.data :: ls.map Arr.data⟩)
    else .error .shape

/-- `jnp.split(arr, n, axis)` into `n` equal sections (`n` divides the size; here section size 1) -/
def sections (arr : List (List K)) : List (List (List K)) :=
  (List.range arr.length).map (fun i => slice arr i (i + 1))

/-- `unstack_to_pytree(arr, shapes, axis)` with a template of `n` leaves: every section is squeezed
 to the off-axis shape of `arr` -/
def unstack (arr : Leaf K) (n : Nat) : Except Err (List (Arr K)) :=
  if arr.slices.length = 0 then .error .zerodiv
  else if arr.slices.length ≠ n then .error .tree
  else .ok ((sections arr.slices).map (fun s => ⟨arr.off, s.flatten⟩))

/-- `slice(0, idx)` / `slice(idx, None)` on an axis of size `n`: the cut position -/
def pyIndex (n : Nat) (idx : Int) : Nat :=
  if idx < 0 then (idx + n).toNat else min idx.toNat n

/-- `split_along_axis(tree, idx, axis)` (guards: `sliceGuard`) -/
def splitAlong (leaves : List (Leaf K)) (idx : Int) : List (Leaf K) × List (Leaf K) :=
  (leaves.map (fun l => ⟨l.off, l.slices.take (pyIndex l.slices.length idx)⟩),
   leaves.map (fun l => ⟨l.off, l.slices.drop (pyIndex l.slices.length idx)⟩))

/-- the guards of `slice_along_axis` on the ranks of the leaves -/
def sliceGuard (ndims : List Nat) (axis : Int) (expectSame : Bool) : Except Err Unit :=
  if expectSame && ndims.eraseDups.length != 1 then .error .value
  else if axis < 0 then .error .value
  else if ndims.any (fun nd => !(decide (-(nd : Int) ≤ axis) && decide (axis < (nd : Int)))) then .error .value
  else .ok ()

/-- leaf-wise `jnp.concatenate((a, b), axis)` of two trees whose leaves agree off the axis -/
def catLeaves (t u : List (Leaf K)) : List (Leaf K) :=
  List.zipWith (fun a b => ⟨a.off, a.slices ++ b.slices⟩) t u

/-- the leaves of `u` have, position by position, the off-axis shapes of the leaves of `t` -/
def offsAgree (t u : List (Leaf K)) : Bool :=
  (List.zipWith (fun a b => decide (b.off = a.off)) t u).all id

/-- `concat_along_axis(trees, axis)` = `tree_map(lambda *xs: jnp.concatenate(xs, axis), *trees)`:
 `tree_map` needs a first tree and equal structures; then, leaf position by leaf position,
 `jnp.concatenate` needs the rank and the off-axis sizes of the first tree's leaf -/
def concat (trees : List (List (Leaf K))) : Except Err (List (Leaf K)) :=
  match trees with
  | [] => .error .notrees
  | t :: ts =>
    if ts.any (fun u => u.length != t.length) then .error .tree
    else if ts.all (offsAgree t) then .ok (ts.foldl catLeaves t)
    else .error .shape

/-- `split_axis(tree, axis, keep_dims=True)`: one tree per index along the axis.
 `len(set(a.shape[axis] for a in arrays)) != 1` = no leaf, or two leaves of different size -/
def splitAxis (leaves : List (Leaf K)) : Except Err (List (List (Leaf K))) :=
  match leaves.map (fun l => l.slices.length) with
  | [] => .error .value
  | n :: rest =>
    if rest.all (· == n) then
      if n = 0 then .error .zerodiv
      else .ok ((List.range n).map (fun i => leaves.map (fun l => ⟨l.off, slice l.slices i (i + 1)⟩)))
    else .error .value

/-- `split_axis(tree, axis, keep_dims=False)`: the singleton axis squeezed away -/
def splitAxisSqueeze (leaves : List (Leaf K)) : Except Err (List (List (Arr K))) :=
  (splitAxis leaves).map (fun ts => ts.map (fun t => t.map (fun l => ⟨l.off, l.slices.flatten⟩)))

end Arrays

/-! ## spectral resampling of one `(longitude wavenumber, total wavenumber)` block -/
section Spectral
variable {K : Type}

/-- what the resampling functions read from a horizontal grid -/
structure Horiz where
  M : Nat       -- longitude_wavenumbers
  L : Nat       -- total_wavenumbers
  m0 : Nat      -- modal_shape[0]
  m1 : Nat      -- modal_shape[1]
  deriving Repr, DecidableEq

/-- `x[..., 0:m0, 0:m1]` -/
def downsample (m0 m1 : Nat) (x : List (List K)) : List (List K) := (x.take m0).map (·.take m1)

/-- `jnp.pad(x, ((0, d0), (0, d1)))`; `w` = width of `x` when it has no row -/
def pad [Zero K] (w d0 d1 : Nat) (x : List (List K)) : List (List K) :=
  x.map (· ++ List.replicate d1 0)
    ++ List.replicate d0 (List.replicate (((x.head?).map List.length).getD w + d1) 0)

/-- `get_spectral_downsample_fn(c1, c2, expect_same_vertical)(x)` -/
def downsampleFn (c1 c2 : Horiz) (sameVertical expectSame : Bool) (x : List (List K)) :
    Except Err (List (List K)) :=
  if expectSame && !sameVertical then .error .value
  else if c1.L < c2.L ∨ c1.M < c2.M then .error .value
  else .ok (downsample c2.m0 c2.m1 x)

/-- `get_spectral_upsample_fn(c1, c2, expect_same_vertical)(x)` -/
def upsampleFn [Zero K] (c1 c2 : Horiz) (sameVertical expectSame : Bool) (x : List (List K)) :
    Except Err (List (List K)) :=
  if expectSame && !sameVertical then .error .value
  else if c2.m0 < c1.m0 ∨ c2.m1 < c1.m1 then .error .value
  else .ok (pad c1.m1 (c2.m0 - c1.m0) (c2.m1 - c1.m1) x)

/-- `get_spectral_interpolate_fn`: which function is taken (`true` = upsample) -/
def interpolateFn [Zero K] (c1 c2 : Horiz) (sameVertical expectSame : Bool) (x : List (List K)) :
    Except Err (Bool × List (List K)) :=
  if c1.L < c2.L ∧ c1.M < c2.M then (upsampleFn c1 c2 sameVertical expectSame x).map (true, ·)
  else if c1.L ≥ c2.L ∧ c1.M ≥ c2.M then (downsampleFn c1 c2 sameVertical expectSame x).map (false, ·)
  else .error .value

/-- one row of the series: `Σ_j r[j] * b i j` -/
def rowSum [Add K] [Mul K] [Zero K] (b : Nat → Nat → K) (i : Nat) (r : List K) : K :=
  (r.zipIdx.map (fun cj => cj.1 * b i cj.2)).foldr (· + ·) 0

/-- the value `Σ_i Σ_j x[i][j] * b i j` of a series with coefficients `x` in a family of basis
 functions `b i j` that does not depend on the truncation (prefix stability) -/
def series [Add K] [Mul K] [Zero K] (b : Nat → Nat → K) (x : List (List K)) : K :=
  (x.zipIdx.map (fun ri => rowSum b ri.2 ri.1)).foldr (· + ·) 0

end Spectral

/-! ## shape → dimension names -/
section Dims

/-- a Python `dict` keyed by shapes: assignment `t[k] = v` -/
def tinsert {γ : Type} (k : List Nat) (v : γ) : List (List Nat × γ) → List (List Nat × γ)
  | [] => [(k, v)]
  | (k', v') :: r => if k' = k then (k', v) :: r else (k', v') :: tinsert k v r

def tlookup {γ : Type} (k : List Nat) : List (List Nat × γ) → Option γ
  | [] => none
  | (k', v) :: r => if k' = k then some v else tlookup k r

def modalNames : List String := ["longitudinal_mode", "total_wavenumber"]
def nodalNames : List String := ["lon", "lat"]

/-- the configuration that `_infer_dims_shape_and_coords` reads -/
structure DimCfg where
  layers : Nat
  modal : List Nat                   -- coords.horizontal.modal_shape
  nodal : List Nat                   -- coords.horizontal.nodal_shape
  addl : List (String × Nat)         -- additional_coords: name, length (1-d vectors)
  times : Option Nat                 -- len(times) or None
  samples : Option Nat               -- len(sample_ids) or None

/-- `_maybe_update_shape_and_dim_with_realization_time_sample` -/
def withPrefix (times samples : Option Nat) (realization : Bool) (e : List Nat × List String) :
    List Nat × List String :=
  let notScalar := !e.1.isEmpty
  let e := match times with
    | some t => (t :: e.1, "time" :: e.2)
    | none => e
  let e := match samples with
    | some s => (s :: e.1, "sample" :: e.2)
    | none => e
  if notScalar && realization then (1 :: e.1, "realization" :: e.2) else e

/-- the loop over `additional_coords` that extends `basic_shape_to_dims` -/
def addlEntries (layers : Nat) (modal nodal : List Nat) :
    List (String × Nat) → List (List Nat × List String) → Except Err (List (List Nat × List String))
  | [], t => .ok t
  | (dim, n) :: rest, t =>
    if dim = "realization" then addlEntries layers modal nodal rest t
    else if n = layers then .error .value
    else addlEntries layers modal nodal rest
      (tinsert [n] [dim] (tinsert (n :: nodal) (dim :: nodalNames) (tinsert (n :: modal) (dim :: modalNames) t)))

/-- `basic_shape_to_dims` -/
def basicTable (c : DimCfg) : Except Err (List (List Nat × List String)) :=
  let t : List (List Nat × List String) := tinsert [] [] []
  let t := tinsert (c.layers :: c.modal) ("level" :: modalNames) t
  let t := tinsert (c.layers :: c.nodal) ("level" :: nodalNames) t
  let t := tinsert c.nodal nodalNames t
  let t := tinsert c.modal modalNames t
  let t := tinsert (1 :: c.nodal) nodalNames t        -- coords.surface_nodal_shape
  addlEntries c.layers c.modal c.nodal c.addl t

/-- `shape_to_dims` of `_infer_dims_shape_and_coords` -/
def shapeTable (c : DimCfg) : Except Err (List (List Nat × List String)) :=
  (basicTable c).map (fun t =>
    t.foldl (fun acc e =>
      let f := withPrefix c.times c.samples (c.addl.any (fun a => a.1 == "realization")) e
      tinsert f.1 f.2 acc) [])

/-- `data_to_xarray` adds the default `surface` coordinate when `layers != 1` -/
def withSurface (c : DimCfg) : DimCfg :=
  if c.layers != 1 && !(c.addl.any (fun a => a.1 == "surface")) then
    { c with addl := c.addl ++ [("surface", 1)] }
  else c

/-- the dimension names `data_to_xarray` gives an array of shape `shape`:
 `ok none` = "shape is not in shape_to_dims" (`ValueError`) -/
def inferDims (c : DimCfg) (shape : List Nat) : Except Err (Option (List String)) :=
  (shapeTable (withSurface c)).map (tlookup shape)

end Dims

end Dino.Tree
