import Dino.Util
/-!
# Unnormalised binary fixed point numbers `m / 2^e`

Used to evaluate the model *exactly* on IEEE doubles inside the kernel (`decide +kernel`):
every double is `m·2^(-e)` or `m·2^k`; sums and products of such numbers are again of this form.
No normalisation is performed, so the operations are plain big-integer arithmetic.
-/
namespace Dino

structure Fx where
  m : Int
  e : Nat
deriving Repr, DecidableEq

namespace Fx

/-- `2^k` through the kernel-accelerated `Nat.pow` -/
def pow2 (k : Nat) : Int := Int.ofNat (2 ^ k)

def add (a b : Fx) : Fx :=
  if a.e ≤ b.e then ⟨a.m * pow2 (b.e - a.e) + b.m, b.e⟩
  else ⟨a.m + b.m * pow2 (a.e - b.e), a.e⟩

def mul (a b : Fx) : Fx := ⟨a.m * b.m, a.e + b.e⟩
def neg (a : Fx) : Fx := ⟨-a.m, a.e⟩
def sub (a b : Fx) : Fx := add a (neg b)

instance : Add Fx := ⟨add⟩
instance : Mul Fx := ⟨mul⟩
instance : Neg Fx := ⟨neg⟩
instance : Sub Fx := ⟨sub⟩
instance : Zero Fx := ⟨⟨0, 0⟩⟩
instance : One Fx := ⟨⟨1, 0⟩⟩
instance : NatCast Fx := ⟨fun n => ⟨n, 0⟩⟩

/-- `a ≤ b` by cross multiplication -/
def le (a b : Fx) : Bool := decide (a.m * pow2 b.e ≤ b.m * pow2 a.e)

def abs (a : Fx) : Fx := ⟨a.m.natAbs, a.e⟩

/-- `k·2^s` as an `Fx` (`s` may be negative) -/
def ofScaled (k : Int) (s : Int) : Fx :=
  if 0 ≤ s then ⟨k * pow2 s.toNat, 0⟩ else ⟨k, (-s).toNat⟩

end Fx
end Dino
