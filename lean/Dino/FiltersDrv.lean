import Dino.Filters
/-! Line-protocol operations for the filter model: `filters <F|Q> <op> args…`
 (shapes as comma separated naturals, `_` = scalar shape `()`; `exp` is `Num.exp`, so the
 exponential ops are meaningful at `F` only). -/
namespace Dino.Filters
open Dino

variable (K : Type) [Num K]

local instance numLT : LT K := ⟨fun a b => Num.ltb a b = true⟩
local instance numDecLT : DecidableLT K := fun a b => inferInstanceAs (Decidable (Num.ltb a b = true))

def renderOptVec (r : Option (List K)) : String :=
  match r with
  | some v => renderVec v
  | none => "value-error"

def renderOptMat (r : Option (List (List K))) : String :=
  match r with
  | some v => renderMat v
  | none => "value-error"

def runShape : List String → Option String
  | ["bshape", a, b] => do
      let a ← parseNatVec? a; let b ← parseNatVec? b
      match broadcastShapes a b with
      | some s => pure (renderNatVec s)
      | none => pure "value-error"
  | ["pshape", t, s] => do
      let t ← parseNatVec? t; let s ← parseNatVec? s
      pure (renderBool (preservesShape t s))
  | ["pshape_old", t, s] => do
      let t ← parseNatVec? t; let s ← parseNatVec? s
      match preservesShapeOld t s with
      | some b => pure (renderBool b)
      | none => pure "value-error"
  | ["bidx", ss, ts, i] => do
      let ss ← parseNatVec? ss; let ts ← parseNatVec? ts; let i ← i.toNat?
      pure (toString (bidx ss ts i))
  | _ => none

def runK : List String → Option String
  | ["bmul", ss, s, ts, x] => do
      let ss ← parseNatVec? ss; let s ← parseVec? (K := K) s
      let ts ← parseNatVec? ts; let x ← parseVec? (K := K) x
      pure (renderVec (bmul ss s ts x))
  | ["leaf", ss, s, ts, x] => do
      let ss ← parseNatVec? ss; let s ← parseVec? (K := K) s
      let ts ← parseNatVec? ts; let x ← parseVec? (K := K) x
      pure (renderVec (filterLeaf ss s (ts, x)).2)
  | ["leaf_old", ss, s, ts, x] => do
      let ss ← parseNatVec? ss; let s ← parseVec? (K := K) s
      let ts ← parseNatVec? ts; let x ← parseVec? (K := K) x
      match filterTreeOld ss s [(ts, x)] with
      | some [l] => pure (renderVec l.2)
      | _ => pure "value-error"
  | ["expscal", a, p, c, ls] => do
      let a ← Num.parse? (K := K) a; let p ← p.toNat?; let c ← Num.parse? (K := K) c
      let ls ← parseVec? (K := K) ls
      pure (renderOptVec K (expScaling Num.exp a p c ls))
  | ["expscal_arr", as, ps, c, ls] => do
      let as ← parseVec? (K := K) as; let ps ← parseNatVec? ps; let c ← Num.parse? (K := K) c
      let ls ← parseVec? (K := K) ls
      if as.length ≠ ps.length then pure "value-error" else
      pure (renderOptMat K (expScalingArr Num.exp as ps c ls))
  | ["eigs", r, ls] => do
      let r ← Num.parse? (K := K) r; let ls ← parseVec? (K := K) ls
      pure (renderVec (eigenvalues r ls))
  | ["diffscal", sc, o, r, ls] => do
      let sc ← Num.parse? (K := K) sc; let o ← o.toNat?; let r ← Num.parse? (K := K) r
      let ls ← parseVec? (K := K) ls
      pure (renderVec (diffScaling Num.exp sc o (eigenvalues r ls)))
  | ["diffscal_arr", scs, o, r, ls] => do
      let scs ← parseVec? (K := K) scs; let o ← o.toNat?; let r ← Num.parse? (K := K) r
      let ls ← parseVec? (K := K) ls
      pure (renderMat (diffScalingArr Num.exp scs o (eigenvalues r ls)))
  | ["expstep", dt, tau, p, c, ls] => do
      let dt ← Num.parse? (K := K) dt; let tau ← Num.parse? (K := K) tau; let p ← p.toNat?
      let c ← Num.parse? (K := K) c; let ls ← parseVec? (K := K) ls
      pure (renderOptVec K (expStepScaling Num.exp dt tau p c ls))
  | ["diffstep", dt, tau, o, r, ls] => do
      let dt ← Num.parse? (K := K) dt; let tau ← Num.parse? (K := K) tau; let o ← o.toNat?
      let r ← Num.parse? (K := K) r; let ls ← parseVec? (K := K) ls
      pure (renderOptVec K (diffStepScaling Num.exp dt tau o (eigenvalues r ls)))
  | ["diffstep_old", dt, tau, o, r, ls] => do
      let dt ← Num.parse? (K := K) dt; let tau ← Num.parse? (K := K) tau; let o ← o.toNat?
      let r ← Num.parse? (K := K) r; let ls ← parseVec? (K := K) ls
      pure (renderOptVec K (diffStepScaleOld dt tau o (eigenvalues r ls) |>.map fun sc =>
        diffScaling Num.exp sc o (eigenvalues r ls)))
  | ["expfilter", a, p, c, ls, ts, x] => do
      let a ← Num.parse? (K := K) a; let p ← p.toNat?; let c ← Num.parse? (K := K) c
      let ls ← parseVec? (K := K) ls; let ts ← parseNatVec? ts; let x ← parseVec? (K := K) x
      match exponentialFilter Num.exp a p c ls [(ts, x)] with
      | some [l] => pure (renderVec l.2)
      | _ => pure "value-error"
  | ["difffilter", sc, o, r, ls, ts, x] => do
      let sc ← Num.parse? (K := K) sc; let o ← o.toNat?; let r ← Num.parse? (K := K) r
      let ls ← parseVec? (K := K) ls; let ts ← parseNatVec? ts; let x ← parseVec? (K := K) x
      match horizontalDiffusionFilter Num.exp sc o r ls [(ts, x)] with
      | [l] => pure (renderVec l.2)
      | _ => pure "value-error"
  | ["expfilter_arr", as, ps, c, ls, n, ts, x] => do
      let as ← parseVec? (K := K) as; let ps ← parseNatVec? ps; let c ← Num.parse? (K := K) c
      let ls ← parseVec? (K := K) ls; let n ← n.toNat?; let ts ← parseNatVec? ts
      let x ← parseVec? (K := K) x
      if as.length ≠ ps.length then pure "value-error" else
      match expScalingArr Num.exp as ps c ls with
      | some table =>
        pure (renderVec (filterLeaf (as.length :: (List.replicate n 1 ++ [ls.length]))
          table.flatten (ts, x)).2)
      | none => pure "value-error"
  | ["difffilter_arr", scs, o, r, ls, n, ts, x] => do
      let scs ← parseVec? (K := K) scs; let o ← o.toNat?; let r ← Num.parse? (K := K) r
      let ls ← parseVec? (K := K) ls; let n ← n.toNat?; let ts ← parseNatVec? ts
      let x ← parseVec? (K := K) x
      pure (renderVec (filterLeaf (scs.length :: (List.replicate n 1 ++ [ls.length]))
        (diffScalingArr Num.exp scs o (eigenvalues r ls)).flatten (ts, x)).2)
  | ["expstepf", dt, tau, p, c, ls, ts, u, un] => do
      let dt ← Num.parse? (K := K) dt; let tau ← Num.parse? (K := K) tau; let p ← p.toNat?
      let c ← Num.parse? (K := K) c; let ls ← parseVec? (K := K) ls; let ts ← parseNatVec? ts
      let u ← parseVec? (K := K) u; let un ← parseVec? (K := K) un
      match exponentialStepFilter Num.exp dt tau p c ls [(ts, u)] [(ts, un)] with
      | some [l] => pure (renderVec l.2)
      | _ => pure "value-error"
  | ["explff", dt, tau, p, c, ls, ts, u0, u1, n0, n1] => do
      let dt ← Num.parse? (K := K) dt; let tau ← Num.parse? (K := K) tau; let p ← p.toNat?
      let c ← Num.parse? (K := K) c; let ls ← parseVec? (K := K) ls; let ts ← parseNatVec? ts
      let u0 ← parseVec? (K := K) u0; let u1 ← parseVec? (K := K) u1
      let n0 ← parseVec? (K := K) n0; let n1 ← parseVec? (K := K) n1
      match exponentialLeapfrogStepFilter Num.exp dt tau p c ls ([(ts, u0)], [(ts, u1)])
          ([(ts, n0)], [(ts, n1)]) with
      | some ([a], [b]) => pure (renderMat [a.2, b.2])
      | _ => pure "value-error"
  | ["diffstepf", dt, tau, o, r, ls, ts, u, un] => do
      let dt ← Num.parse? (K := K) dt; let tau ← Num.parse? (K := K) tau; let o ← o.toNat?
      let r ← Num.parse? (K := K) r; let ls ← parseVec? (K := K) ls; let ts ← parseNatVec? ts
      let u ← parseVec? (K := K) u; let un ← parseVec? (K := K) un
      match horizontalDiffusionStepFilter Num.exp dt tau o r ls [(ts, u)] [(ts, un)] with
      | some [l] => pure (renderVec l.2)
      | _ => pure "value-error"
  | ["ra", r, p0, p1, n0, n1] => do
      let r ← Num.parse? (K := K) r
      let p0 ← parseVec? (K := K) p0; let p1 ← parseVec? (K := K) p1
      let n0 ← parseVec? (K := K) n0; let n1 ← parseVec? (K := K) n1
      let out := robertAsselin r (p0, p1) (n0, n1)
      pure (renderMat [out.1, out.2])
  | rest => runShape rest

def run : List String → Option String
  | "F" :: rest => runK Float rest
  | "Q" :: rest => runK Rat rest
  | _ => none

end Dino.Filters
