import Dino.Invariants
import Dino.DynamicsDrv
/-!
# Line protocol of the C11 model: `inv <F|Q> <op> args…`

* `lsadv αs βs γs`, `tabadv aEx aIm bEx bIm` — clock advances of the two integrator factories;
* `check keep x` — the structural predicate and the `(0,0)` coefficient of one flattened leaf;
* `swexplicit | swimplicit | swinverse` — the shallow-water equation set `Dino.DynamicsSW` over the
  operator matrices of a real `Grid` (the 19 configuration tokens of `dyn`, of which only the
  horizontal record is used), followed by `densities Ω orography|_ refPotential`
  (protocol marker: sw-densities);
* `traj` — a model trajectory: `k` steps of an integrator of `Dino.Imex` applied to a
  primitive-equation class of `Dino.Dynamics`, each followed by the step filters of
  `Dino.Filters`, with the invariant evaluated after every step;
* `swtraj` — the same for the shallow-water leapfrog.
-/
namespace Dino.Invariants
open Dino Dino.Imex Dino.Dynamics

variable (K : Type) [Num K]

local instance numLT : LT K := ⟨fun a b => Num.ltb a b = true⟩
local instance numDecLT : DecidableLT K := fun a b => inferInstanceAs (Decidable (Num.ltb a b = true))
local instance numBEq' : BEq K := ⟨fun a b => !(Num.ltb a b) && !(Num.ltb b a)⟩

/-- Python truthiness of a number -/
def nzK (a : K) : Bool := Num.ltb a 0 || Num.ltb 0 a

/-- exactly `+0` or `-0` (compared through the bit pattern, so that a NaN is not a zero) -/
def isZeroK (a : K) : Bool :=
  let r := Num.render a
  r == Num.render (0 : K) || r == Num.render (-(0 : K))

def parseBools? (s : String) : Option (List Bool) :=
  if s = "_" then some [] else (s.toList.mapM fun c => if c = '1' then some true else if c = '0' then some false else none)

def splitOn1 (s : String) (sep : String) : List String := s.splitOn sep

/-! ### schemes -/

/-- `bfe` | `cnrk2` | `ls:α:β:γ` | `tab:aEx:aIm:bEx:bIm` -/
def parseScheme? (s : String) : Option (Scheme K) :=
  match s.splitOn ":" with
  | ["bfe"] => some .bfe
  | ["cnrk2"] => some .cnrk2
  | ["ls", a, b, c] => do
      let a ← parseVec? (K := K) a; let b ← parseVec? (K := K) b; let c ← parseVec? (K := K) c
      pure (.lsrk a b c)
  | ["tab", aex, aim, bex, bim] => do
      let aex ← parseMat? (K := K) aex; let aim ← parseMat? (K := K) aim
      let bex ← parseVec? (K := K) bex; let bim ← parseVec? (K := K) bim
      pure (.tableau (nzK K) ⟨aex, aim, bex, bim⟩)
  | _ => none

/-! ### filters on states: `Invariants.filterPE` / `Invariants.filterSW` (the objects of the theorems) -/

/-- a step filter: the scaling of `exponential_step_filter` / `horizontal_diffusion_step_filter`,
 or the Robert–Asselin strength -/
inductive FilterSpec (K : Type) where
  | scaling (s : List K)
  | ra (r : K)

/-- `exp:tau:order:cutoff` | `diff:tau:order` | `ra:r`, joined by `+`; `_` = no filter -/
def parseFilters? (dt radius : K) (ls : List K) (s : String) : Option (List (FilterSpec K)) :=
  if s = "_" then some [] else
  (s.splitOn "+").mapM fun f =>
    match f.splitOn ":" with
    | ["exp", tau, p, c] => do
        let tau ← Num.parse? (K := K) tau; let p ← p.toNat?; let c ← Num.parse? (K := K) c
        (Filters.expStepScaling Num.exp dt tau p c ls).map .scaling
    | ["diff", tau, o] => do
        let tau ← Num.parse? (K := K) tau; let o ← o.toNat?
        (Filters.diffStepScaling Num.exp dt tau o (Filters.eigenvalues radius ls)).map .scaling
    | ["ra", r] => do
        let r ← Num.parse? (K := K) r
        pure (.ra r)
    | _ => none

/-! ### the table of matrix inverses (one entry per step size `η` the integrator uses) -/

def parseInvTable? (s : String) : Option (List (K × List (List (List K)))) :=
  if s = "_" then some [] else
  (s.splitOn "&").mapM fun ent =>
    match ent.splitOn "@" with
    | [eta, mats] => do
        let eta ← Num.parse? (K := K) eta
        let mats ← parseMats? K mats
        pure (eta, mats)
    | _ => none

/-- the entry whose `η` is nearest to the requested one -/
def lookupInv (tab : List (K × List (List (List K)))) (eta : K) (l : Nat) : List (List K) :=
  match tab with
  | [] => []
  | e0 :: rest =>
    let best := rest.foldl (fun b e => if Num.ltb (absK (e.1 - eta)) (absK (b.1 - eta)) then e else b) e0
    best.2.getD l []

/-! ### invariant report of one state -/

def leafOk {nm : Nat} (keep : List Bool) (x : List (Vec nm K)) : Bool :=
  x.all fun v => zeroOff (isZeroK K) keep v.data

def stateOk {nm : Nat} (keep : List Bool) (s : State (Vec nm K)) : Bool :=
  leafOk K keep s.vorticity && leafOk K keep s.divergence && leafOk K keep s.temperatureVariation
    && leafOk K keep [s.logSurfacePressure] && s.tracers.all fun kv => leafOk K keep kv.2

/-- `ok@sim_time@ζ₀₀ per level@δ₀₀ per level` -/
def report {nm : Nat} (keep : List Bool) (s : StateWithTime K (Vec nm K)) : String :=
  "@".intercalate [renderBool (stateOk K keep s.state), Num.render s.simTime,
    renderVec (s.state.vorticity.map fun v => coef00 v.data),
    renderVec (s.state.divergence.map fun v => coef00 v.data)]

def reportTM {nm : Nat} (keep : List Bool) : TM (StateWithTime K (Vec nm K)) → String
  | .val s => report K keep s
  | _ => "value-error"

def swOk {nm : Nat} (keep : List Bool) (s : DynamicsSW.State (Vec nm K)) : Bool :=
  leafOk K keep s.vorticity && leafOk K keep s.divergence && leafOk K keep s.potential

def parseSW? {n : Nat} (s : String) : Option (DynamicsSW.State (Vec n K)) :=
  match s.splitOn "|" with
  | [z, d, p] => do
      let z ← parseCol? K z; let d ← parseCol? K d; let p ← parseCol? K p
      pure { vorticity := z, divergence := d, potential := p }
  | _ => none

def renderSW {n : Nat} (s : DynamicsSW.State (Vec n K)) : String :=
  "|".intercalate [renderCol K s.vorticity, renderCol K s.divergence, renderCol K s.potential]

/-- `ok@ζ₀₀@δ₀₀@φ₀₀` -/
def reportSW {nm : Nat} (keep : List Bool) : TM (DynamicsSW.State (Vec nm K)) → String
  | .val s => "@".intercalate [renderBool (swOk K keep s),
      renderVec (s.vorticity.map fun v => coef00 v.data),
      renderVec (s.divergence.map fun v => coef00 v.data),
      renderVec (s.potential.map fun v => coef00 v.data)]
  | _ => "value-error"

def parseCls? : String → Option Cls
  | "dry" => some .dry
  | "time" => some .time
  | "moist" => some .moist
  | "cloud" => some .cloud
  | _ => none

/-! ### trajectories -/

/-- iterate `step` `k` times, collecting the report of every visited state -/
def iterate {U : Type} (step : U → U) (rep : U → String) : Nat → U → List String → U × List String
  | 0, u, acc => (u, acc.reverse)
  | k + 1, u, acc => let u' := step u; iterate step rep k u' (rep u' :: acc)

def liftFilter {V : Type} (g : V → V) : TM V → TM V := TM.lift g

def swEqs? {nm nn : Nat} (h : HOps K (MV K nm) (NV K nn)) :
    List String → Option (DynamicsSW.ShallowWaterEquations K (MV K nm) (NV K nn) × List String)
  | dens :: omega :: oro :: refp :: rest => do
      let dens ← parseVec? (K := K) dens
      let omega ← Num.parse? (K := K) omega
      let oro ← if oro = "_" then pure none else (parseVecV? K oro).map some
      let refp ← parseVec? (K := K) refp
      pure ({ ops := h
              specs := { densities := dens, radius := h.radius, angularVelocity := omega,
                         gravityAcceleration := 1 }
              orography := oro, referencePotential := refp }, rest)
  | _ => none

def runOps {nm nn : Nat} (eq : PrimitiveEquations K (MV K nm) (NV K nn)) :
    List String → Option String
  -- shallow water, single operations
  | "swexplicit" :: rest => do
      let (e, args) ← swEqs? K eq.ops rest
      match args with
      | [st] => do
          let s ← parseSW? K st
          pure (renderSW K (e.explicitTerms s))
      | _ => none
  | "swimplicit" :: rest => do
      let (e, args) ← swEqs? K eq.ops rest
      match args with
      | [st] => do
          let s ← parseSW? K st
          pure (renderSW K (e.implicitTerms s))
      | _ => none
  | "swinverse" :: rest => do
      let (e, args) ← swEqs? K eq.ops rest
      match args with
      | [eta, st] => do
          let eta ← Num.parse? (K := K) eta
          let s ← parseSW? K st
          pure (renderSW K (e.implicitInverse eta s))
      | _ => none
  -- primitive equations: `traj cls scheme dt k filters ms0,ms1 ls keep invtable state [state2]`
  | ["traj", cls, sch, dt, k, flt, ms, ls, keep, invs, st] => do
      let cls ← parseCls? cls
      let dt ← Num.parse? (K := K) dt; let k ← k.toNat?
      let ms ← parseNatVec? ms; let ls ← parseVec? (K := K) ls
      let keep ← parseBools? keep
      let invs ← parseInvTable? K invs
      let s ← parseState? K st
      let specs ← parseFilters? K dt eq.ops.radius ls flt
      let e := peImEx cls eq (lookupInv K invs)
      match ms with
      | [_, _] =>
        let filters : List (TM (StateWithTime K (MV K nm)) → TM (StateWithTime K (MV K nm))) :=
          specs.filterMap fun f => match f with
            | .scaling sc => some (liftFilter (filterPE eq.ops sc))
            | .ra _ => none
        let sch ← parseScheme? K sch
        match sch.step e dt with
        | none => pure "value-error"
        | some f =>
          let step := stepWithFilters f (filters.map Filters.rkStepFilter)
          let (fin, reps) := iterate step (reportTM K keep) k (.val s) []
          match fin with
          | .val r => pure (renderState K r ++ "#" ++ ";".intercalate reps)
          | _ => pure "value-error"
      | _ => none
  | ["lftraj", cls, alpha, dt, k, flt, ms, ls, keep, invs, st0, st1] => do
      let cls ← parseCls? cls
      let alpha ← Num.parse? (K := K) alpha
      let dt ← Num.parse? (K := K) dt; let k ← k.toNat?
      let ms ← parseNatVec? ms; let ls ← parseVec? (K := K) ls
      let keep ← parseBools? keep
      let invs ← parseInvTable? K invs
      let s0 ← parseState? K st0; let s1 ← parseState? K st1
      let specs ← parseFilters? K dt eq.ops.radius ls flt
      let e := peImEx cls eq (lookupInv K invs)
      match ms with
      | [_, _] =>
        let filters : List (LfFilter K (TM (StateWithTime K (MV K nm)))) :=
          specs.map fun f => match f with
            | .scaling sc => .state (liftFilter (filterPE eq.ops sc))
            | .ra r => .ra r
        let step := stepWithFilters (Imex.leapfrog e dt alpha) (filters.map LfFilter.fn)
        let rep := fun (u : TM (StateWithTime K (MV K nm)) × TM (StateWithTime K (MV K nm))) =>
          reportTM K keep u.1 ++ "&" ++ reportTM K keep u.2
        let (fin, reps) := iterate step rep k (.val s0, .val s1) []
        match fin with
        | (.val a, .val b) => pure (renderState K a ++ "!" ++ renderState K b ++ "#" ++ ";".intercalate reps)
        | _ => pure "value-error"
      | _ => none
  | "swtraj" :: rest => do
      let (e, args) ← swEqs? K eq.ops rest
      match args with
      | [alpha, dt, k, flt, ms, ls, keep, st0, st1] => do
          let alpha ← Num.parse? (K := K) alpha
          let dt ← Num.parse? (K := K) dt; let k ← k.toNat?
          let ms ← parseNatVec? ms; let ls ← parseVec? (K := K) ls
          let keep ← parseBools? keep
          let s0 ← parseSW? K st0; let s1 ← parseSW? K st1
          let specs ← parseFilters? K dt eq.ops.radius ls flt
          match ms with
          | [_, _] =>
            let filters : List (LfFilter K (TM (DynamicsSW.State (MV K nm)))) :=
              specs.map fun f => match f with
                | .scaling sc => .state (liftFilter (filterSW eq.ops sc))
                | .ra r => .ra r
            let step := stepWithFilters (Imex.leapfrog (SW.imex e) dt alpha) (filters.map LfFilter.fn)
            let rep := fun (u : TM (DynamicsSW.State (MV K nm)) × TM (DynamicsSW.State (MV K nm))) =>
              reportSW K keep u.1 ++ "&" ++ reportSW K keep u.2
            let (fin, reps) := iterate step rep k (.val s0, .val s1) []
            match fin with
            | (.val a, .val b) => pure (renderSW K a ++ "!" ++ renderSW K b ++ "#" ++ ";".intercalate reps)
            | _ => pure "value-error"
          | _ => none
      | _ => none
  | _ => none

def runK : List String → Option String
  | ["lsadv", a, b, c] => do
      let a ← parseVec? (K := K) a; let b ← parseVec? (K := K) b; let c ← parseVec? (K := K) c
      pure (Num.render (lsrkAdv a b c))
  | ["tabadv", aex, aim, bex, bim] => do
      let aex ← parseMat? (K := K) aex; let aim ← parseMat? (K := K) aim
      let bex ← parseVec? (K := K) bex; let bim ← parseVec? (K := K) bim
      let t : Tableau K := ⟨aex, aim, bex, bim⟩
      pure (Num.render (tabAdv (nzK K) t) ++ " " ++ toString (tabStages t))
  | ["check", keep, x] => do
      let keep ← parseBools? keep; let x ← parseVec? (K := K) x
      pure (renderBool (zeroOff (isZeroK K) keep x) ++ " " ++ Num.render (coef00 x))
  | op :: sizes :: rest => do
      let sz ← parseNatVec? sizes
      match sz with
      | [nm, nn, nL] =>
        let (eq, args) ← parseCfg? K nm nn nL rest
        runOps K eq (op :: args)
      | _ => none
  | _ => none

def run : List String → Option String
  | "F" :: rest => runK Float rest
  | "Q" :: rest => runK Rat rest
  | _ => none

end Dino.Invariants
