import Dino.Units
/-! Line-protocol operations for the units model: `units <F|Q> <op> args…`

Scale operations run at the scalar of the mode (`Float` or `Rat`); the operations on affine (offset)
units are `anondim`, `adim`, `aconv` (and `alin`, the linearised variant that is NOT the code).  The time conversions run on
`Rat` in both modes (and so does `orbfl`, the orbital phase operation by operation): at `F` every double is converted to the rational it denotes, the model is
run with `fl := fl53`, and results are sent back as doubles (exact, since every result of `fl53`
is a double); at `Q` the model is run with `fl := id`. -/
namespace Dino.Units
open Dino

/-! ### doubles as rationals -/

/-- the rational denoted by a finite double -/
def floatToRat? (x : Float) : Option Rat :=
  let b : Nat := x.toBits.toNat
  let sign : Int := if b / 2 ^ 63 = 1 then -1 else 1
  let e : Nat := (b / 2 ^ 52) % 2048
  let m : Nat := b % 2 ^ 52
  if e = 2047 then none
  else if e = 0 then some (((sign * Int.ofNat m : Int) : Rat) * pow2 (-1074))
  else some (((sign * Int.ofNat (m + 2 ^ 52) : Int) : Rat) * pow2 (Int.ofNat e - 1075))

/-- the double denoted by a rational with a power of two as denominator and at most 53
significant bits (exact); any other rational is rounded by a division -/
def ratToDouble (r : Rat) : Float :=
  let k := Nat.log2 r.den
  if 2 ^ k = r.den then Float.scaleB (Float.ofInt r.num) (-(k : Int))
  else Float.ofInt r.num / Float.ofNat r.den

/-! ### parsing -/

section
variable (K : Type) [Num K]

def parseScale? (s : String) : Option (List (Option K)) :=
  if s = "_" then some [] else
  (s.splitOn ",").mapM (fun t => if t = "-" then some none else (Num.parse? t).map some)

def renderScale (sc : List (Option K)) : String :=
  if sc.isEmpty then "_" else
  ",".intercalate (sc.map fun | none => "-" | some q => Num.render q)

/-- `c:d1,d2,…:e;…` -/
def parseAtoms? (s : String) : Option (List (UnitV K × Int)) :=
  if s = "_" then some [] else
  (s.splitOn ";").mapM fun t =>
    match t.splitOn ":" with
    | [c, d, e] => do
        let c ← Num.parse? (K := K) c; let d ← parseIntVec? d; let e ← e.toInt?
        pure (⟨c, d⟩, e)
    | _ => none

/-- `m:d1,d2,…;…` -/
def parseQuantities? (s : String) : Option (List (K × List Int)) :=
  if s = "_" then some [] else
  (s.splitOn ";").mapM fun t =>
    match t.splitOn ":" with
    | [m, d] => do
        let m ← Num.parse? (K := K) m; let d ← parseIntVec? d
        pure (m, d)
    | _ => none

/-- an affine unit `conv:off:d1,d2,…` -/
def parseAff? (s : String) : Option (AffUnit K) :=
  match s.splitOn ":" with
  | [c, o, d] => do
      let c ← Num.parse? (K := K) c; let o ← Num.parse? (K := K) o; let d ← parseIntVec? d
      pure ⟨c, o, d⟩
  | _ => none

def orErr (r : Option String) : String := r.getD "value-error"

def runK (floorK : K → K) : List String → Option String
  | ["compound", ut] => do
      let a ← parseAtoms? K ut
      let u := compound a
      pure s!"{Num.render u.conv} {renderIntVec u.dim}"
  | ["factor", st, d] => do
      let sc ← parseScale? K st; let d ← parseIntVec? d
      pure (orErr ((factor sc d).map Num.render))
  | ["nondim", st, ut, ms] => do
      let sc ← parseScale? K st; let a ← parseAtoms? K ut; let ms ← parseVec? (K := K) ms
      pure (orErr ((nondimVec sc (compound a) ms).map renderVec))
  | ["dim", st, ut, vs] => do
      let sc ← parseScale? K st; let a ← parseAtoms? K ut; let vs ← parseVec? (K := K) vs
      pure (orErr ((dimensionalizeVec sc (compound a) vs).map renderVec))
  | ["anondim", st, ut, ms] => do
      let sc ← parseScale? K st; let u ← parseAff? K ut; let ms ← parseVec? (K := K) ms
      pure (orErr ((nondimAffVec sc u ms).map renderVec))
  | ["adim", st, ut, vs] => do
      let sc ← parseScale? K st; let u ← parseAff? K ut; let vs ← parseVec? (K := K) vs
      pure (orErr ((dimensionalizeAffVec sc u vs).map renderVec))
  | ["aconv", ut, ut', ms] => do
      let u ← parseAff? K ut; let u' ← parseAff? K ut'; let ms ← parseVec? (K := K) ms
      pure (renderVec (ms.map (convertAff u u')))
  | ["alin", st, ut, vs] => do
      let sc ← parseScale? K st; let u ← parseAff? K ut; let vs ← parseVec? (K := K) vs
      pure (orErr ((vs.mapM (dimensionalizeLinearised sc u)).map renderVec))
  | ["mkscale", n, qs] => do
      let n ← n.toNat?; let qs ← parseQuantities? K qs
      pure (orErr ((mkScale n qs).map (renderScale K)))
  | ["orb", twoPi, ref, rate, ts] => do
      let twoPi ← Num.parse? (K := K) twoPi; let ref ← Num.parse? ref; let rate ← Num.parse? rate
      let ts ← parseVec? (K := K) ts
      pure (renderVec (ts.map (timeToOrbital floorK twoPi ref rate)))
  | ["cal", y, m, d, h, mi] => do
      let y ← y.toNat?; let m ← m.toNat?; let d ← d.toNat?; let h ← h.toNat?; let mi ← mi.toNat?
      if validDateTime y m d h mi then pure s!"1 {daysInYear y} {dayOfYear y m d}" else pure "0"
  | ["dorb", twoPi, y, m, d, h, mi] => do
      let twoPi ← Num.parse? (K := K) twoPi
      let y ← y.toNat?; let m ← m.toNat?; let d ← d.toNat?; let h ← h.toNat?; let mi ← mi.toNat?
      if !validDateTime y m d h mi then pure "value-error" else
      let (po, ps) := datetimeToOrbital twoPi y m d h mi
      pure s!"{Num.render po} {Num.render ps}"
  | _ => none

end

/-! ### time conversions (on `Rat`, explicit rounding) -/

structure TimeMode where
  fl : Rat → Rat
  parse? : String → Option Rat
  render : Rat → String

def modeF : TimeMode :=
  ⟨fl53, fun s => (parseFloatBits? s).bind floatToRat?, fun r => showFloatBits (ratToDouble r)⟩

def modeQ : TimeMode := ⟨id, parseRat?, showRat⟩

def TimeMode.parseScale? (M : TimeMode) (s : String) : Option (List (Option Rat)) :=
  if s = "_" then some [] else
  (s.splitOn ",").mapM (fun t => if t = "-" then some none else (M.parse? t).map some)

def TimeMode.parseVec? (M : TimeMode) (s : String) : Option (List Rat) :=
  if s = "_" then some [] else (s.splitOn ",").mapM M.parse?

def TimeMode.renderVec (M : TimeMode) (v : List Rat) : String :=
  if v.isEmpty then "_" else ",".intercalate (v.map M.render)

/-- the time scale: scaling factor of the dimension vector sent with the request -/
def TimeMode.scaleOf (M : TimeMode) (st d : String) : Option (Option Rat) := do
  let sc ← M.parseScale? st; let d ← parseIntVec? d
  pure (factor sc d)

def runT (M : TimeMode) : List String → Option String
  | ["td", st, d, secs] => do
      let T ← M.scaleOf st d; let secs ← parseIntVec? secs
      match T with
      | none => pure "value-error"
      | some T =>
        let nd := secs.map (tdNondim M.fl T)
        let dt := nd.map (tdSeconds M.fl T)
        pure (" ".intercalate [M.renderVec nd, M.renderVec dt,
          renderIntVec (dt.map (tdScalar M.fl)), renderIntVec (dt.map (tdArray M.fl)),
          renderIntVec (dt.map tdOld)])
  | ["tddim", st, d, vals] => do
      let T ← M.scaleOf st d; let vals ← M.parseVec? vals
      match T with
      | none => pure "value-error"
      | some T =>
        let dt := vals.map (tdSeconds M.fl T)
        pure (" ".intercalate [renderIntVec (dt.map (tdScalar M.fl)),
          renderIntVec (dt.map (tdArray M.fl)), renderIntVec (dt.map tdOld)])
  | ["dt", st, d, uph, dls] => do
      let T ← M.scaleOf st d; let uph ← uph.toNat?; let dls ← parseIntVec? dls
      match T with
      | none => pure "value-error"
      | some T => pure (M.renderVec (dls.map (dtNondim M.fl T uph)))
  | ["dtmin", st, d, vs] => do
      let T ← M.scaleOf st d; let vs ← M.parseVec? vs
      match T with
      | none => pure "value-error"
      | some T => pure (renderIntVec (vs.map (dtMinutes M.fl T)))
  | ["dtrt", st, d, upm, refc, cnts] => do
      let T ← M.scaleOf st d; let upm ← upm.toNat?; let refc ← refc.toInt?
      let cnts ← parseIntVec? cnts
      match T with
      | none => pure "value-error"
      | some T => pure (renderIntVec (cnts.map (dtRoundtrip M.fl T upm refc)))
  | ["axis", st, d, ups, c0, c1] => do
      let T ← M.scaleOf st d; let ups ← ups.toNat?; let c0 ← c0.toInt?; let c1 ← c1.toInt?
      match T with
      | none => pure "value-error"
      | some T => pure (M.render (axisDelta M.fl T ups c0 c1))
  | ["rad", st, d, days, secs] => do
      let T ← M.scaleOf st d; let days ← days.toInt?; let secs ← secs.toInt?
      match T with
      | none => pure "value-error"
      | some T => pure (M.render (radTime M.fl T days secs))
  | ["orbfl", twoPi, ref, rate, ts] => do
      let twoPi ← M.parse? twoPi; let ref ← M.parse? ref; let rate ← M.parse? rate
      let ts ← M.parseVec? ts
      pure (M.renderVec (ts.map (timeToOrbitalFl M.fl twoPi ref rate)))
  | _ => none

def run : List String → Option String
  | "F" :: rest => (runK Float Float.floor rest).orElse fun _ => runT modeF rest
  | "Q" :: rest => (runK Rat (fun x => (x.floor : Rat)) rest).orElse fun _ => runT modeQ rest
  | _ => none

end Dino.Units
