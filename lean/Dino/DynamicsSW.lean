import Dino.Dynamics
/-!
# `DynamicsSW` — the layered shallow-water equations over `Dynamics.HOps` (core Lean only)

Mirrors, term by term,

* `dinosaur/shallow_water.py`: `get_density_ratios`, `get_coriolis`,
  `ShallowWaterEquations.coriolis_parameter`, `explicit_terms`, `implicit_terms`,
  `implicit_inverse`, `state_to_nodal`;
* `dinosaur/shallow_water_states.py`: `one_layer`, `multi_layer`.

Carriers are those of `Dino.Dynamics`: `K` scalars, `M` one level of a field in the modal basis,
`N` one level on the nodal grid (pointwise ring), `HOps K M N` the horizontal operations as data
without laws.  A layered field is a `List` of levels (index 0 = top layer).

Two things that `HOps` does not carry are parameters of the functions that need them:

* `zeroMean : M → M` mirrors `x.at[0, 0].set(0)` (used by `one_layer`);
* `solve : List (List K) → List M → List M` mirrors `jnp.linalg.solve` (used by `multi_layer`);
  its contract `matvec A (solve A b) = b` is a hypothesis of the theorems that need it.

Laws live in the proof files (`DinoProofs/Lemmas/Balance.lean`).

Index conventions of `get_density_ratios`: `density / density[..., np.newaxis]` has entry
`[i, j] = density[j] / density[i]`; after `np.minimum(·, 1)` and `fill_diagonal(·, 0)`:
`D[i, j] = min(ρ_j / ρ_i, 1)` for `i ≠ j` (so for non-decreasing densities `D[i, j] = 1` above the
diagonal and `ρ_j / ρ_i` below it — the transpose of what the docstring of `get_density_ratios`
says, and what `multi_layer`'s docstring says).
-/
namespace Dino.DynamicsSW
open Dino Dino.Dynamics

/-- `shallow_water.State` with a leading layer axis -/
structure State (M : Type) where
  vorticity : List M
  divergence : List M
  potential : List M

/-- `shallow_water.State` without a layer axis (what `one_layer` returns) -/
structure LayerState (M : Type) where
  vorticity : M
  divergence : M
  potential : M

/-- `ShallowWaterSpecs` (the non-dimensional numbers only) -/
structure Specs (K : Type) where
  densities : List K
  radius : K
  angularVelocity : K
  gravityAcceleration : K

/-! ## `get_density_ratios` -/
section Ratios
variable {K : Type} [Div K] [Zero K] [One K] [LT K] [DecidableLT K]

/-- `np.minimum(a, 1)` -/
def minOne (a : K) : K := if 1 < a then 1 else a

/-- `get_density_ratios(density)`:
 `ratios = np.minimum(density / density[..., np.newaxis], 1); np.fill_diagonal(ratios, 0)` -/
def getDensityRatios (density : List K) : List (List K) :=
  (List.range density.length).map fun i =>
    (List.range density.length).map fun j =>
      if i = j then 0 else minOne (density.getD j 0 / density.getD i 0)

end Ratios

/-- `a + np.eye(n)` for a square matrix given as a list of rows -/
def addEye {K : Type} [Add K] [Zero K] [One K] (a : List (List K)) : List (List K) :=
  (List.range a.length).map fun i =>
    let row := a.getD i []
    (List.range row.length).map fun j => row.getD j 0 + (if i = j then 1 else 0)

/-- The data of a `ShallowWaterEquations` object; `coords.horizontal` is the record `ops`,
 `orography = None` is `none`. -/
structure ShallowWaterEquations (K M N : Type) where
  ops : HOps K M N
  specs : Specs K
  orography : Option M
  referencePotential : List K

section Equations
variable {K M N : Type}
  [Add K] [Sub K] [Mul K] [Div K] [Neg K] [Zero K] [One K]
  [Add M] [Sub M] [Neg M] [Zero M] [SMul K M]
  [Add N] [Sub N] [Neg N] [Zero N] [Mul N] [One N] [SMul K N]

/-- `get_coriolis(grid)`: `sin_lat` of the nodal mesh — the Coriolis parameter **for 2Ω = 1** -/
def getCoriolis (h : HOps K M N) : N := h.sinLat

/-- `state_to_nodal` on one leaf: `grid.to_nodal(grid.clip_wavenumbers(x))` -/
def stateToNodal (h : HOps K M N) (x : M) : N := h.toNodal (h.clip x)

/-- multiplication of a modal field by a function of the total wavenumber
 (`x * c[l]` broadcast along the last modal axis) -/
def lmul (h : HOps K M N) (c : Nat → K) (x : M) : M :=
  ((List.range h.nL).map fun l => c l • h.lproj l x).foldl (· + ·) 0

namespace ShallowWaterEquations
variable (eq : ShallowWaterEquations K M N)

/-- `coriolis_parameter = 2 * angular_velocity * sin_lat` -/
def coriolisParameter : N := ((1 + 1) * eq.specs.angularVelocity) • eq.ops.sinLat

/-- `density_ratios` -/
def densityRatios [LT K] [DecidableLT K] : List (List K) := getDensityRatios eq.specs.densities

/-- the pressure `p` of `explicit_terms`:
 `einsum('ab,...bml->...aml', density_ratios, potential)`, `+ orography` when it is not `None` -/
def layeredPressure [LT K] [DecidableLT K] (potential : List M) : List M :=
  let p := Col.matvec eq.densityRatios potential
  match eq.orography with
  | some o => Col.addLevel p o
  | none => p

/-- one layer of `explicit_terms` (the code is vectorised over the layer axis; `p` is this
 layer's row of the layered pressure): `(vorticity, divergence, potential)` tendencies -/
def explicitLayer (vorticity divergence potential p : M) : M × M × M :=
  let h := eq.ops
  let u := h.cosLatVector true vorticity divergence
  let nodalU : N × N := (h.toNodal u.1, h.toNodal u.2)
  let nodalVorticity := stateToNodal h vorticity
  let nodalPotential := stateToNodal h potential
  let totalVorticity := nodalVorticity + eq.coriolisParameter
  let sec2 := h.sec2Lat
  let b : M × M := (h.toModal (nodalU.1 * totalVorticity * sec2), h.toModal (nodalU.2 * totalVorticity * sec2))
  let g : M × M := (h.toModal (nodalU.1 * nodalPotential * sec2), h.toModal (nodalU.2 * nodalPotential * sec2))
  let e : M := h.toModal (((1 / (1 + 1)) : K) • ((nodalU.1 * nodalU.1 + nodalU.2 * nodalU.2) * sec2))
  ( h.clip (-(h.divCosLat true b)),
    h.clip (-(h.laplacian (p + e)) + h.curlCosLat true b),
    h.clip (-(h.divCosLat true g)) )

/-- `ShallowWaterEquations.explicit_terms` -/
def explicitTerms [LT K] [DecidableLT K] (s : State M) : State M :=
  let p := eq.layeredPressure s.potential
  let rows := List.zipWith
    (fun (zd : M × M) (fp : M × M) => eq.explicitLayer zd.1 zd.2 fp.1 fp.2)
    (List.zip s.vorticity s.divergence) (List.zip s.potential p)
  { vorticity := rows.map fun r => r.1
    divergence := rows.map fun r => r.2.1
    potential := rows.map fun r => r.2.2 }

/-- `ShallowWaterEquations.implicit_terms` -/
def implicitTerms (s : State M) : State M :=
  { vorticity := Col.zerosLike s.vorticity
    divergence := s.potential.map fun x => -(eq.ops.laplacian x)
    potential := List.zipWith (fun (r : K) d => (-r) • d) eq.referencePotential s.divergence }

/-- `inverse_schur_complement[layer][l] = 1 / (1 - step_size² · ref_potential · eigenvalue[l])` -/
def inverseSchurComplement (stepSize refPotential : K) (l : Nat) : K :=
  1 / (1 - stepSize * stepSize * refPotential * eq.ops.lapEig l)

/-- `ShallowWaterEquations.implicit_inverse(state, step_size)` -/
def implicitInverse (stepSize : K) (s : State M) : State M :=
  let h := eq.ops
  let rows := List.zipWith
    (fun (r : K) (dp : M × M) =>
      let isc := eq.inverseSchurComplement stepSize r
      ( lmul h isc (dp.1 - stepSize • h.laplacian dp.2),
        lmul h isc (((-stepSize) * r) • dp.1 + dp.2) ))
    eq.referencePotential (List.zip s.divergence s.potential)
  { vorticity := s.vorticity
    divergence := rows.map fun r => r.1
    potential := rows.map fun r => r.2 }

end ShallowWaterEquations

/-! ## state arithmetic (`tree_math`) -/
namespace State
def add (a b : State M) : State M :=
  { vorticity := Col.add a.vorticity b.vorticity
    divergence := Col.add a.divergence b.divergence
    potential := Col.add a.potential b.potential }

/-- the zero state with `n` layers -/
def zero (n : Nat) : State M :=
  { vorticity := Col.zeros n, divergence := Col.zeros n, potential := Col.zeros n }

/-- apply a map of modal level-fields to every leaf (lift of a symmetry / scaling) -/
def mapLevels {M' : Type} (f : M → M') (s : State M) : State M' :=
  { vorticity := s.vorticity.map f, divergence := s.divergence.map f, potential := s.potential.map f }

/-- stack `LayerState`s along a new leading layer axis (`jax.vmap` output / `expand_dims`) -/
def ofLayers (l : List (LayerState M)) : State M :=
  { vorticity := l.map fun s => s.vorticity
    divergence := l.map fun s => s.divergence
    potential := l.map fun s => s.potential }
end State

/-! ## `shallow_water_states` -/
section Factories
variable [Div N]

/-- `one_layer(u, grid)`; `u` is the nodal field `ones_like(lon)[..., newaxis] * u` (the zonal
 velocity broadcast along longitude).  Note what the code does **not** use: `grid.radius` (except
 through `inverse_laplacian`) and the angular velocity (`get_coriolis` is `sin_lat`). -/
def oneLayer (h : HOps K M N) (zeroMean : M → M) (u : N) : LayerState M :=
  let secLat : N := 1 / h.cosLat
  let secLatU := u * secLat
  let vorticity := -(h.secLatDDlatCos2 (h.toModal secLatU))
  let f := getCoriolis h
  let totalVorticity := h.toNodal vorticity + f
  let potentialPlusEnergy :=
    -(h.inverseLaplacian (h.secLatDDlatCos2 (h.toModal (secLatU * totalVorticity))))
  let potential := potentialPlusEnergy - h.toModal (((1 / (1 + 1)) : K) • (u * u))
  let potential := zeroMean potential
  { vorticity := vorticity, divergence := 0, potential := potential }

/-- `multi_layer(u, density, coords)` with `coords.vertical.layers = u.length` (= `density.length`
 on the admissible domain); `solve` is `jnp.linalg.solve`. -/
def multiLayer [LT K] [DecidableLT K] (h : HOps K M N) (zeroMean : M → M)
    (solve : List (List K) → List M → List M) (u : List N) (density : List K) : State M :=
  let s := State.ofLayers (u.map (oneLayer h zeroMean))
  let nLayers := u.length
  let densityRatios := addEye (getDensityRatios density)
  let potential := if nLayers > 1 then solve densityRatios s.potential else s.potential
  { vorticity := s.vorticity, divergence := s.divergence, potential := potential }

end Factories
end Equations

/-!
## extension points

* symmetries / scalings (C10, C12): `State.mapLevels`, exactly as for `Dynamics.State`;
* invariants along trajectories (C11): unfold `explicitLayer`; the layers interact only through
  `layeredPressure`;
* the executable instance (`Dino/DynamicsSWDrv.lean`, token `sw`) takes the linear operators as
  matrices extracted from the real `Grid` (harness helper `harness/props/c05_sw.py`).
-/
end Dino.DynamicsSW
