import Dino.Sigma
import Dino.SH
import Dino.Filters
/-!
# Sharded (model-parallel) execution — executable model (core Lean only)

Mirrors the *hand-written* part of dinosaur's model parallelism:

* `jax_numpy_utils._allgather_matmul_twoway`, `_matmul_reducescatter_twoway` (the collective
  schedules inside `shard_map`), `_parallel_dot_cumsum`;
* `spherical_harmonic._round_to_multiple`, `FastSphericalHarmonics.nodal_shape/modal_shape/
  nodal_padding/modal_padding/modal_axes/basis` (zero padding), `_unstack_m/_stack_m` and
  `_fourier_derivative_for_real_basis_with_zero_imag` on one `x`-shard,
  `_vertical_pad/_vertical_crop/_with_vertical_padding`, `Grid.clip_wavenumbers`,
  `Grid.inverse_laplacian` on padded layouts.

A *device-indexed value* is a `List` whose entry `a` is what device `a` (`lax.axis_index`) holds.
`lax.ppermute` is re-indexing of such a list, `lax.fori_loop` is a fold over the index range.
XLA's SPMD partitioner, `shard_map`, `with_sharding_constraint` and the collectives themselves are
executed by the correspondence check, not modelled.
-/
namespace Dino.Shard

/-! ## collectives -/

/-- `lax.ppermute(x, axis_name, perm)`; `perm` is a list of `(source, destination)` pairs.
 Device `d` receives the value of the pair whose destination is `d`; a device that is nobody's
 destination receives zeros (`z`). -/
def ppermute {X : Type} (z : X) (perm : List (Nat × Nat)) (xs : List X) : List X :=
  (List.range xs.length).map fun d =>
    match perm.find? (fun p => p.2 == d) with
    | some p => xs.getD p.1 z
    | none => z

/-- `perm_fwd = [(j, (j + 1) % axis_size) for j in range(axis_size)]` -/
def permFwd (n : Nat) : List (Nat × Nat) := (List.range n).map fun j => (j, (j + 1) % n)

/-- `perm_bwd = [(j, (j - 1) % axis_size) for j in range(axis_size)]` (Python `%`: result `≥ 0`) -/
def permBwd (n : Nat) : List (Nat × Nat) :=
  (List.range n).map fun j => (j, (((j : Int) - 1) % (n : Int)).toNat)

/-- `lax.fori_loop(lo, hi, body, init)` -/
def foriLoop {σ : Type} (lo hi : Nat) (body : Nat → σ → σ) (init : σ) : σ :=
  (List.range' lo (hi - lo)).foldl (fun s i => body i s) init

/-- `(axis_index + i) % axis_size` for a possibly negative `i` (Python `%`) -/
def chunkIndex (n a : Nat) (i : Int) : Nat := (((a : Int) + i) % (n : Int)).toNat

section schedules
variable {L X M : Type} [Add M]

/-- elementwise `+` of two device-indexed values (`accum += …` on every device) -/
def vaddM (a b : List M) : List M := List.zipWith (· + ·) a b

/-- `indexed_computation(i, rhs_fwd, rhs_bwd)` of `_allgather_matmul_twoway` on every device `a`:
 `matmul(lhs_chunk[(a - i) % n], rhs_fwd) + matmul(lhs_chunk[(a + i + 1) % n], rhs_bwd)`.
 `lhs a c` is chunk `c` (along `split_axis`) of the `lhs` block held by device `a`. -/
def agIndexed (mm : L → X → M) (z : X) (n : Nat) (lhs : Nat → Nat → L) (i : Nat)
    (rf rb : List X) : List M :=
  (List.range n).map fun a =>
    mm (lhs a (chunkIndex n a (-(i : Int)))) (rf.getD a z)
      + mm (lhs a (chunkIndex n a ((i : Int) + 1))) (rb.getD a z)

/-- `_allgather_matmul_twoway`; `rhs` is the device-indexed list of input shards, `n = len(rhs)`
 is `axis_size`; `none` = `ValueError('axis_size must be 1 or even')`. -/
def allgatherMatmul (mm : L → X → M) (z : X) (lhs : Nat → Nat → L) (rhs : List X) :
    Option (List M) :=
  let n := rhs.length
  if n = 1 then some ((List.range n).map fun a => mm (lhs a 0) (rhs.getD a z))
  else if n % 2 = 1 then none
  else
    let rf0 := rhs
    let rb0 := ppermute z (permBwd n) rhs
    let acc0 := agIndexed mm z n lhs 0 rf0 rb0
    let r := foriLoop 1 (n / 2) (fun i (s : List M × List X × List X) =>
        let rf := ppermute z (permFwd n) s.2.1
        let rb := ppermute z (permBwd n) s.2.2
        (vaddM s.1 (agIndexed mm z n lhs i rf rb), rf, rb)) (acc0, rf0, rb0)
    some r.1

variable [Zero M]

/-- `indexed_computation(i)` of `_matmul_reducescatter_twoway` on every device `a`:
 `matmul(lhs_chunk[(a + n/2 + i) % n], rhs)` with the device's own `lhs` block and input shard -/
def rsIndexed (mm : L → X → M) (z : X) (n : Nat) (lhs : Nat → Nat → L) (rhs : List X) (i : Int) :
    List M :=
  (List.range n).map fun a => mm (lhs a (chunkIndex n a (((n / 2 : Nat) : Int) + i))) (rhs.getD a z)

/-- `_matmul_reducescatter_twoway` -/
def matmulReducescatter (mm : L → X → M) (z : X) (lhs : Nat → Nat → L) (rhs : List X) :
    Option (List M) :=
  let n := rhs.length
  if n = 1 then some ((List.range n).map fun a => mm (lhs a 0) (rhs.getD a z))
  else if n % 2 = 1 then none
  else
    let af0 := rsIndexed mm z n lhs rhs 0
    let ab0 := rsIndexed mm z n lhs rhs 1
    let r := foriLoop 1 (n / 2) (fun i (s : List M × List M) =>
        let af := ppermute 0 (permFwd n) s.1
        let ab := ppermute 0 (permBwd n) s.2
        (vaddM af (rsIndexed mm z n lhs rhs (-(i : Int))),
         vaddM ab (rsIndexed mm z n lhs rhs ((i : Int) + 1)))) (af0, ab0)
    some (vaddM (ppermute 0 (permFwd n) r.1) r.2)

end schedules

/-! ### the operands of the two collectives as blocks of unsharded matrices

`lax.dynamic_slice_in_dim(lhs, chunk_index * chunk_size, chunk_size, axis)` on a 2-D coefficient array
(a list of rows): along the columns (`split_axis = 1`, the contracted axis of the all-gather matmul) and
along the rows (`scatter_axis = 0`, the output axis of the reduce-scatter matmul).  The input shards of
`rhs` (`shard_map` in-spec along its leading axis) are `splitEvery k rhs`, i.e. `rowChunk rhs s k`. -/

/-- rows `c·k … c·k + k − 1` of a matrix -/
def rowChunk {α : Type} (a : List α) (c k : Nat) : List α := (a.drop (c * k)).take k

/-- columns `c·k … c·k + k − 1` of a matrix -/
def colChunk {α : Type} (a : List (List α)) (c k : Nat) : List (List α) := a.map fun row => rowChunk row c k

/-! ### the schedules with symbolic chunk ids

`lhs a c` is the symbol `(a, c)`, the input shard of device `s` is the symbol `s`, a product is the
singleton trace `[(a, c, s)]` (“the block of device `a`, chunk `c`, met the shard of device `s`”)
and `+` concatenates traces, so the result lists, per device, every product it accumulated, in
accumulation order. -/

structure Trace where
  items : List (Nat × Nat × Nat)
deriving DecidableEq, Repr

instance : Add Trace := ⟨fun a b => ⟨a.items ++ b.items⟩⟩
instance : Zero Trace := ⟨⟨[]⟩⟩

def symMM (l : Nat × Nat) (s : Nat) : Trace := ⟨[(l.1, l.2, s)]⟩
def symLhs (a c : Nat) : Nat × Nat := (a, c)

/-- the all-gather schedule on `n` devices; a shard that was never received shows up as source `n` -/
def allgatherSym (n : Nat) : Option (List Trace) :=
  allgatherMatmul symMM n symLhs (List.range n)

def reducescatterSym (n : Nat) : Option (List Trace) :=
  matmulReducescatter symMM n symLhs (List.range n)

/-- device `a` of the all-gather matmul must have multiplied, exactly once each, chunk `c` of its own
 `lhs` block with the shard of device `c` -/
def allgatherExpected (n a : Nat) : List (Nat × Nat × Nat) := (List.range n).map fun c => (a, c, c)

/-- device `a` of the reduce-scatter matmul must hold, exactly once each, the product of chunk `a`
 of the `lhs` block of device `s` with the shard of device `s` -/
def reducescatterExpected (n a : Nat) : List (Nat × Nat × Nat) :=
  (List.range n).map fun s => (s, a, s)

def checkSym (r : Option (List Trace)) (expected : Nat → List (Nat × Nat × Nat)) (n : Nat) : Bool :=
  match r with
  | none => false
  | some ts => ts.length == n && (ts.zipIdx.all fun (t, a) => t.items.isPerm (expected a))

def allgatherOK (n : Nat) : Bool := checkSym (allgatherSym n) (allgatherExpected n) n
def reducescatterOK (n : Nat) : Bool := checkSym (reducescatterSym n) (reducescatterExpected n) n

/-! ## parallel prefix sums -/

section cumsum
variable {K : Type} [Add K] [Sub K] [Mul K] [Div K] [Neg K] [Zero K] [One K]

/-- a boolean entering a product (`op(i, axis_index) * term`) -/
def ind (b : Bool) : K := if b then 1 else 0

/-- `lax.all_gather(last_partial)`: per shard, the last (first when `reverse`) entry of its own
 `_single_device_dot_cumsum` -/
def shardTotals (reverse : Bool) (shards : List (List K)) : List K :=
  shards.map fun x =>
    let p := Sigma.dotCumsum reverse x
    if reverse then p.headD 0 else p.getLastD 0

/-- `_parallel_dot_cumsum` on device `a` (`axis_index`), `sums` being the all-gathered totals:
 `for i, term in enumerate(terms, start): total += op(i, axis_index) * term` with
 `terms = sums[:-1], start = 0, op = <` (forward) or `sums[1:], 1, >` (reverse). -/
def parallelDotCumsumDev (reverse : Bool) (sums : List K) (a : Nat) (x : List K) : List K :=
  let partials := Sigma.dotCumsum reverse x
  let terms := if reverse then sums.drop 1 else sums.dropLast
  let start := if reverse then 1 else 0
  (terms.zipIdx start).foldl
    (fun total ti => total.map fun v =>
      v + ind (if reverse then decide (ti.2 > a) else decide (ti.2 < a)) * ti.1) partials

/-- `_parallel_dot_cumsum` on every device (the arithmetic, for shards of any lengths) -/
def parallelDotCumsumCore (reverse : Bool) (shards : List (List K)) : List (List K) :=
  let sums := shardTotals reverse shards
  shards.zipIdx.map fun xa => parallelDotCumsumDev reverse sums xa.2 xa.1

/-- `_dot_cumsum` with a sharded axis: `shard_map` needs equal shard lengths and
 `lax.index_in_dim(partials, -1)` a non-empty shard; `none` = the call raises -/
def parallelDotCumsum (reverse : Bool) (shards : List (List K)) : Option (List (List K)) :=
  match shards with
  | [] => none
  | s0 :: _ =>
    if s0.length = 0 ∨ shards.any (fun s => s.length != s0.length) then none
    else some (parallelDotCumsumCore reverse shards)

/-- variant with the *inclusive* prefix of the shard totals (a plausible wrong implementation, kept
 as negative witness) -/
def parallelDotCumsumInclusive (shards : List (List K)) : List (List K) :=
  let sums := shardTotals false shards
  shards.zipIdx.map fun xa =>
    (sums.zipIdx).foldl (fun total ti => total.map fun v => v + ind (decide (ti.2 ≤ xa.2)) * ti.1)
      (Sigma.dotCumsum false xa.1)

/-- split a list into consecutive shards of length `s` (`shard_map` in-spec along the axis) -/
def splitEvery {α : Type} (s : Nat) (x : List α) : List (List α) :=
  if s = 0 then [] else (List.range (x.length / s)).map fun a => (x.drop (a * s)).take s

end cumsum

/-! ## shapes and padding -/

/-- `_round_to_multiple(x, multiple) = multiple * math.ceil(x / multiple)`;
 `none` = `ZeroDivisionError`.
 SIDE CONDITION: Python evaluates `x / multiple` in binary64 and `math.ceil` on that float; the exact
 integer ceiling used here agrees with it for `x < 2^53` (`Dino.C07.roundToMultiple_float_agrees`:
 any quotient that is exact when `multiple ∣ x` and has relative error `≤ 2^-53` otherwise has the same
 ceiling).  Array shapes are far below that bound; beyond it the code's result can differ
 (`_round_to_multiple(2**53 + 1, 1) = 2**53`). -/
def roundToMultiple (x multiple : Nat) : Option Nat :=
  if multiple = 0 then none else some (multiple * ((x + multiple - 1) / multiple))

/-- `base = self.base_shape_multiple or 1` -/
def baseOr1 (base : Nat) : Nat := if base = 0 then 1 else base

/-- default of `base_shape_multiple`: `8 if model_parallelism else 1`,
 `model_parallelism = mesh is not None and any(mesh.shape[d] > 1 for d in 'zxy')` -/
def defaultBase (mesh : Option (Nat × Nat × Nat)) : Nat :=
  match mesh with
  | some (z, x, y) => if z > 1 ∨ x > 1 ∨ y > 1 then 8 else 1
  | none => 1

/-- `_mesh_shape()` -/
def meshXY (mesh : Option (Nat × Nat × Nat)) : Nat × Nat :=
  match mesh with
  | some (_, x, y) => (x, y)
  | none => (1, 1)

/-- `FastSphericalHarmonics.nodal_shape` -/
def nodalShape (base : Nat) (mesh : Option (Nat × Nat × Nat)) (nlon nlat : Nat) : Option (Nat × Nat) := do
  let b := baseOr1 base
  let (xs, ys) := meshXY mesh
  let a ← roundToMultiple nlon (b * xs)
  let c ← roundToMultiple nlat (b * ys)
  pure (a, c)

/-- `FastSphericalHarmonics.modal_shape` (`modal_limits = (2 M, L)`) -/
def modalShape (base : Nat) (mesh : Option (Nat × Nat × Nat)) (M L : Nat) : Option (Nat × Nat) := do
  let b := baseOr1 base
  let (xs, ys) := meshXY mesh
  let a ← roundToMultiple (2 * M) (2 * b * xs)
  let c ← roundToMultiple L (b * ys)
  pure (a, c)

/-- `nodal_padding` / `modal_padding`: shape minus limits -/
def padding2 (shape limits : Nat × Nat) : Nat × Nat := (shape.1 - limits.1, shape.2 - limits.2)

section pad
variable {α : Type}

/-- `np.pad(v, [(0, k)])` / `jnp.pad` along the leading axis with a given zero slice -/
def padTo (zero : α) (k : Nat) (v : List α) : List α := v ++ List.replicate k zero

/-- `_vertical_pad(field, mesh)`: levels are the entries of the list; `zmesh = none` is `mesh is None`
 (and the `ndim < 3` case); one-level fields are not padded.  Returns `(field, padding)`. -/
def verticalPad (zero : α) (zmesh : Option Nat) (field : List α) : Option (List α × Option Nat) :=
  match zmesh with
  | none => some (field, none)
  | some zm =>
    if field.length = 1 then some (field, none)
    else (roundToMultiple field.length zm).map fun r =>
      (padTo zero (r - field.length) field, some (r - field.length))

/-- `_vertical_crop(field, padding)`: `if not padding: return field`, else `field[0:-padding]` -/
def verticalCrop (field : List α) (padding : Option Nat) : List α :=
  match padding with
  | none => field
  | some 0 => field
  | some p => field.take (field.length - p)

/-- `_with_vertical_padding(f, mesh)(x)` -/
def withVerticalPadding {β : Type} (zero : α) (zmesh : Option Nat) (f : List α → List β)
    (x : List α) : Option (List β) :=
  (verticalPad zero zmesh x).map fun xp => verticalCrop (f xp.1) xp.2

end pad

/-! ## the modal row axis on one `x`-shard -/

section rows
variable {K : Type} [Add K] [Sub K] [Mul K] [Div K] [Neg K] [Zero K] [One K] [NatCast K]

/-- `frequency_offset = u.shape[axis] // 2 * lax.axis_index('x')` -/
def frequencyOffset (shardRows a : Nat) : Nat := shardRows / 2 * a

/-- `_fourier_derivative_for_real_basis_with_zero_imag` under a mesh: every `x`-shard of the modal
 rows is differentiated on its own with its frequency offset (no communication) -/
def shardedDerivative (shards : List (List (List K))) (width : Nat) : List (List (List K)) :=
  shards.zipIdx.map fun ua => Fourier.zeroImagDerivative ua.1 width (frequencyOffset ua.1.length ua.2)

/-- `fourier.real_basis_derivative_with_zero_imag(u, axis=-2, frequency_offset)` with its validation:
 `if u.shape[axis] % 2: raise ValueError` (`none`) -/
def zeroImagDerivativeChecked (x : List (List K)) (width offset : Nat) : Option (List (List K)) :=
  if x.length % 2 = 1 then none else some (Fourier.zeroImagDerivative x width offset)

/-- `_fourier_derivative_for_real_basis_with_zero_imag` under a mesh with the validation of the callee:
 a shard with an odd number of rows makes the whole call raise -/
def shardedDerivativeChecked (shards : List (List (List K))) (width : Nat) :
    Option (List (List (List K))) :=
  shards.zipIdx.mapM fun ua => zeroImagDerivativeChecked ua.1 width (frequencyOffset ua.1.length ua.2)

/-- the same with `size` instead of `size // 2` (negative witness for the offset) -/
def shardedDerivativeWrongOffset (shards : List (List (List K))) (width : Nat) :
    List (List (List K)) :=
  shards.zipIdx.map fun ua => Fourier.zeroImagDerivative ua.1 width (ua.1.length * ua.2)

end rows

/-- `_unstack_m` under a mesh: each `x`-shard of the rows is unstacked on its own; the two outputs
 are sharded along the `m` axis (`out_spec = P(z, None, 'x', 'y')`), i.e. globally concatenated. -/
def shardedUnstackM {α : Type} (shards : List (List α)) : List (List α) :=
  [(shards.map SH.evens).flatten, (shards.map SH.odds).flatten]

/-- `_stack_m` under a mesh, on the per-shard pieces of the two sign planes -/
def shardedStackM {α : Type} (plus minus : List (List α)) : List α :=
  (List.zipWith SH.stackM plus minus).flatten

/-! ## zero-padded bases and operators on padded layouts -/

section basis
variable {K : Type} [Add K] [Sub K] [Mul K] [Div K] [Neg K] [Zero K] [One K] [NatCast K]
open Dino.Lin

/-- `np.pad(a, [(0, pr), (0, pc)])` of a matrix with `c` columns -/
def padMat (a : List (List K)) (c pr pc : Nat) : List (List K) :=
  a.map (· ++ zerosN pc) ++ List.replicate pr (zerosN (c + pc))

/-- `np.pad(p, [(0, pm), (0, pj), (0, pl)])` of a `? × J × L` table -/
def padTable (p : List (List (List K))) (J L pm pj pl : Nat) : List (List (List K)) :=
  p.map (fun pmat => padMat pmat L pj pl) ++ List.replicate pm (List.replicate (J + pj) (zerosN (L + pl)))

/-- `FastSphericalHarmonics.basis` from the unpadded `(f, p, w)`:
 `f = pad(f, [(0, nodal_pad_x), (0, modal_pad_x)])`, `w = pad(w, [(0, nodal_pad_y)])`,
 `p = pad(p, [(0, modal_pad_x // 2), (0, nodal_pad_y), (0, modal_pad_y)])`.
 `R, J, L` are the unpadded sizes (modal rows, latitude nodes, total wavenumbers). -/
def padBasis (b : SH.Basis K) (R J L npx npy mpx mpy : Nat) : SH.Basis K :=
  { f := padMat b.f R npx mpx
    p := padTable b.p J L (mpx / 2) npy mpy
    w := b.w ++ zerosN npy }

/-- restriction of a 2-D array to its leading `r × c` block (`trim_state`) -/
def cropMat {α : Type} (a : List (List α)) (r c : Nat) : List (List α) := (a.take r).map (·.take c)

/-- `Grid.clip_wavenumbers` mask along the total-wavenumber axis:
 `ones(modal_shape[-1]).at[-(n + modal_padding[-1]):].set(0)` -/
def clipMask (width n padL : Nat) : List K :=
  (List.range width).map fun j => if j + (n + padL) < width then 1 else 0

/-- `inverse_laplacian` factors: `1 / eigenvalues`, entry `0` and entries `total_wavenumbers:` set to 0 -/
def invEigen (eigs : List K) (L : Nat) : List K :=
  eigs.zipIdx.map fun ej => if ej.2 = 0 ∨ L ≤ ej.2 then 0 else 1 / ej.1

end basis

end Dino.Shard
