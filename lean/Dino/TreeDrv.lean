import Dino.Tree
/-!
Line-protocol operations for the tree model: `tree <op> args…` (see `harness/props/C19.py`).

* characters are code points (`Nat`), leaves of dictionaries and array entries are integers;
* a key is `K` followed by its code points joined with `.`; a dictionary is written in prefix
  notation `D<n> key value … `, a leaf `L<int>`;
* an array in the axis-major view is `off:row;row;…` with `off = d1xd2x…` its shape without the working
  axis (`_` = rank 1) and `row = v,v,…` one flattened slice (`e` = no slice; the empty string = a slice
  without entries), a whole array is `shape:v,v,…`; the leaves of a tree are joined with `|` (`E` = no
  leaf), trees with `/` (`N` = no tree); the blocks of `resample` are plain `row;row;…`.
-/
namespace Dino.Tree
open Dino

abbrev DV := Val Nat Int
abbrev DD := Dict Nat Int

/-! ### keys and dictionaries -/

def parseKey? (s : String) : Option (List Nat) :=
  if s.startsWith "K" then
    let r := (s.drop 1).toString
    if r = "" then some [] else (r.splitOn ".").mapM String.toNat?
  else none

def renderKey (k : List Nat) : String := "K" ++ ".".intercalate (k.map toString)

def renderKeys (ks : List (List Nat)) : String :=
  if ks.isEmpty then "_" else ",".intercalate (ks.map renderKey)

def parseKeys? (s : String) : Option (List (List Nat)) :=
  if s = "_" then some [] else (s.splitOn ",").mapM parseKey?

def renderItems (l : List (List Nat × Int)) : String :=
  if l.isEmpty then "_" else ",".intercalate (l.map (fun kv => renderKey kv.1 ++ "=" ++ toString kv.2))

def parseItems? (s : String) : Option (List (List Nat × Int)) :=
  if s = "_" then some [] else
    (s.splitOn ",").mapM (fun t => match t.splitOn "=" with
      | [k, v] => do let k ← parseKey? k; let v ← v.toInt?; pure (k, v)
      | _ => none)

mutual
/-- one value in prefix notation; returns the remaining tokens (`fuel` bounds the recursion) -/
def parseVal? : Nat → List String → Option (DV × List String)
  | 0, _ => none
  | _ + 1, [] => none
  | fuel + 1, t :: ts =>
    if t.startsWith "L" then (((t.drop 1).toString).toInt?).map (fun i => (Val.leaf i, ts))
    else if t.startsWith "D" then do
      let n ← ((t.drop 1).toString).toNat?
      let (d, rest) ← parseEntries? fuel n ts
      pure (Val.dict d, rest)
    else none
def parseEntries? : Nat → Nat → List String → Option (DD × List String)
  | 0, _, _ => none
  | _ + 1, 0, ts => some (Dict.nil, ts)
  | _ + 1, _ + 1, [] => none
  | fuel + 1, n + 1, k :: ts => do
    let k ← parseKey? k
    let (v, rest) ← parseVal? fuel ts
    let (d, rest') ← parseEntries? fuel n rest
    pure (Dict.cons k v d, rest')
end

def parseDict? (ts : List String) : Option (DD × List String) :=
  match parseVal? (2 * ts.length + 2) ts with
  | some (Val.dict d, rest) => some (d, rest)
  | _ => none

mutual
def renderValToks : DV → List String
  | .leaf i => ["L" ++ toString i]
  | .dict d => ("D" ++ toString d.length) :: renderDictToks d
def renderDictToks : DD → List String
  | .nil => []
  | .cons k v r => renderKey k :: (renderValToks v ++ renderDictToks r)
end

def renderDict (d : DD) : String := " ".intercalate (renderValToks (.dict d))

def renderFlat (r : Except Err (Flat Nat Int)) : String :=
  match r with
  | .ok (i, e) => "ok " ++ renderItems i ++ " " ++ renderKeys e
  | .error x => x.render

def renderDictE (r : Except Err DD) : String :=
  match r with
  | .ok d => "ok " ++ renderDict d
  | .error x => x.render

/-! ### arrays -/

/-- one flattened slice `v,v,…` (the empty string: a slice without entries) -/
def parseRow? (s : String) : Option (List Int) :=
  if s = "" then some [] else (s.splitOn ",").mapM String.toInt?

/-- a plain block of rows `row;row;…` (`e` = no row) -/
def parseRows? (s : String) : Option (List (List Int)) :=
  if s = "e" then some [] else (s.splitOn ";").mapM parseRow?

/-- a shape `d1xd2x…` (`_` = the empty shape) -/
def parseShape? (s : String) : Option (List Nat) :=
  if s = "_" then some [] else (s.splitOn "x").mapM String.toNat?

/-- a leaf in the axis-major view: `off:row;row;…` -/
def parseLeaf? (s : String) : Option (Leaf Int) :=
  match s.splitOn ":" with
  | [o, r] => do let off ← parseShape? o; let rows ← parseRows? r; pure ⟨off, rows⟩
  | _ => none

def parseLeaves? (s : String) : Option (List (Leaf Int)) :=
  if s = "E" then some [] else (s.splitOn "|").mapM parseLeaf?

def parseTrees? (s : String) : Option (List (List (Leaf Int))) :=
  if s = "N" then some [] else (s.splitOn "/").mapM parseLeaves?

/-- a whole array `shape:v,v,…` -/
def parseArr? (s : String) : Option (Arr Int) :=
  match s.splitOn ":" with
  | [o, r] => do let shape ← parseShape? o; let data ← parseRow? r; pure ⟨shape, data⟩
  | _ => none

def parseArrs? (s : String) : Option (List (Arr Int)) :=
  if s = "E" then some [] else (s.splitOn "|").mapM parseArr?

def renderRow (r : List Int) : String := ",".intercalate (r.map toString)

def renderRows (l : List (List Int)) : String :=
  if l.isEmpty then "e" else ";".intercalate (l.map renderRow)

def renderShape (l : List Nat) : String :=
  if l.isEmpty then "_" else "x".intercalate (l.map toString)

def renderLeaf (l : Leaf Int) : String := renderShape l.off ++ ":" ++ renderRows l.slices

def renderLeaves (ls : List (Leaf Int)) : String :=
  if ls.isEmpty then "E" else "|".intercalate (ls.map renderLeaf)

def renderTrees (ts : List (List (Leaf Int))) : String :=
  if ts.isEmpty then "N" else "/".intercalate (ts.map renderLeaves)

def renderArr (a : Arr Int) : String := renderShape a.shape ++ ":" ++ renderRow a.data

def renderArrs (ls : List (Arr Int)) : String :=
  if ls.isEmpty then "E" else "|".intercalate (ls.map renderArr)

/-! ### spectral, dims -/

def parseHoriz? (s : String) : Option Horiz :=
  match parseNatVec? s with
  | some [a, b, c, d] => some ⟨a, b, c, d⟩
  | _ => none

def parseOptNat? (s : String) : Option (Option Nat) :=
  if s = "_" then some none else s.toNat?.map some

def parseAddl? (s : String) : Option (List (String × Nat)) :=
  if s = "_" then some [] else
    (s.splitOn ",").mapM (fun t => match t.splitOn ":" with
      | [k, v] => v.toNat?.map (fun n => (k, n))
      | _ => none)

def parseCfg? (layers modal nodal addl times samples : String) : Option DimCfg := do
  let layers ← layers.toNat?
  let modal ← parseNatVec? modal
  let nodal ← parseNatVec? nodal
  let addl ← parseAddl? addl
  let times ← parseOptNat? times
  let samples ← parseOptNat? samples
  pure ⟨layers, modal, nodal, addl, times, samples⟩

def renderNames (l : List String) : String := if l.isEmpty then "_" else ",".intercalate l

def renderResample (tag : String) (r : Except Err (List (List Int))) : String :=
  match r with
  | .ok x => tag ++ " " ++ renderRows x
  | .error e => e.render

/-! ### dispatch -/

def run : List String → Option String
  | "flatten" :: sep :: toks => do
      let sep ← sep.toNat?; let (d, _) ← parseDict? toks
      pure (renderFlat (flatten sep d))
  | "flattenold" :: sep :: toks => do
      let sep ← sep.toNat?; let (d, _) ← parseDict? toks
      pure (renderFlat (flattenOld sep d))
  | ["unflatten", sep, items, keys] => do
      let sep ← sep.toNat?; let items ← parseItems? items; let keys ← parseKeys? keys
      pure (renderDictE (unflatten sep items keys))
  | "roundtrip" :: sep :: toks => do
      let sep ← sep.toNat?; let (d, _) ← parseDict? toks
      match flatten sep d with
      | .error x => pure x.render
      | .ok (i, e) =>
        match unflatten sep i e with
        | .error x => pure x.render
        | .ok r => pure ("ok " ++ renderBool (r.pyEq d) ++ " " ++ renderDict r)
  | ["split", sep, s] => do
      let sep ← sep.toNat?; let s ← parseKey? s
      pure (renderKeys (splitOn sep s))
  | "replace" :: check :: dflt :: toks => do
      let check ← parseBool? check; let dflt ← dflt.toInt?
      let (x, rest) ← parseDict? toks
      let (r, _) ← parseDict? rest
      pure (renderDictE (replace 38 x r dflt check))
  | ["pack", leaves] => do
      let leaves ← parseLeaves? leaves
      match pack leaves with
      | .ok none => pure "none"
      | .ok (some a) => pure ("ok " ++ renderLeaf a)
      | .error e => pure e.render
  | ["unpack", arr, sizes] => do
      let arr ← parseLeaf? arr; let sizes ← parseNatVec? sizes
      match unpack arr sizes with
      | .ok ls => pure ("ok " ++ renderLeaves ls)
      | .error e => pure e.render
  | ["stack", arrs] => do
      let arrs ← parseArrs? arrs
      match stack arrs with
      | .ok none => pure "none"
      | .ok (some a) => pure ("ok " ++ renderLeaf a)
      | .error e => pure e.render
  | ["unstack", arr, n] => do
      let arr ← parseLeaf? arr; let n ← n.toNat?
      match unstack arr n with
      | .ok ls => pure ("ok " ++ renderArrs ls)
      | .error e => pure e.render
  | ["splitalong", leaves, idx] => do
      let leaves ← parseLeaves? leaves; let idx ← idx.toInt?
      let (a, b) := splitAlong leaves idx
      pure ("ok " ++ renderLeaves a ++ " " ++ renderLeaves b)
  | ["concat", trees] => do
      let trees ← parseTrees? trees
      match concat trees with
      | .ok ls => pure ("ok " ++ renderLeaves ls)
      | .error e => pure e.render
  | ["sliceguard", ndims, axis, exp] => do
      let ndims ← parseNatVec? ndims; let axis ← axis.toInt?; let exp ← parseBool? exp
      match sliceGuard ndims axis exp with
      | .ok _ => pure "ok"
      | .error e => pure e.render
  | ["splitaxis", keep, leaves] => do
      let keep ← parseBool? keep; let leaves ← parseLeaves? leaves
      if keep then
        match splitAxis leaves with
        | .ok ts => pure ("ok " ++ renderTrees ts)
        | .error e => pure e.render
      else
        match splitAxisSqueeze leaves with
        | .ok ts => pure ("ok " ++ (if ts.isEmpty then "N" else "/".intercalate (ts.map renderArrs)))
        | .error e => pure e.render
  | ["resample", kind, c1, c2, sameV, es, x] => do
      let c1 ← parseHoriz? c1; let c2 ← parseHoriz? c2
      let sameV ← parseBool? sameV; let es ← parseBool? es; let x ← parseRows? x
      if kind = "up" then pure (renderResample "up" (upsampleFn c1 c2 sameV es x))
      else if kind = "down" then pure (renderResample "down" (downsampleFn c1 c2 sameV es x))
      else if kind = "interp" then
        match interpolateFn c1 c2 sameV es x with
        | .ok (true, y) => pure ("up " ++ renderRows y)
        | .ok (false, y) => pure ("down " ++ renderRows y)
        | .error e => pure e.render
      else none
  | ["dimstable", "0", layers, modal, nodal, addl, times, samples] => do
      let c ← parseCfg? layers modal nodal addl times samples
      match shapeTable c with
      | .ok t => pure ("ok " ++ ";".intercalate (t.map (fun e => renderNatVec e.1 ++ "=" ++ renderNames e.2)))
      | .error e => pure e.render
  | ["dims", layers, modal, nodal, addl, times, samples, shape] => do
      let c ← parseCfg? layers modal nodal addl times samples
      let shape ← parseNatVec? shape
      match inferDims c shape with
      | .ok none => pure "none"
      | .ok (some names) => pure ("ok " ++ renderNames names)
      | .error e => pure e.render
  | _ => none

end Dino.Tree
