import Dino.Util
/-!
# Vertical (sigma) calculus — executable model (core Lean only)

Mirrors `dinosaur/sigma_coordinates.py`, the cumulative sums of
`dinosaur/jax_numpy_utils.py` and `get_sigma_ratios`, `get_geopotential_weights`,
`get_geopotential_diff` of `dinosaur/primitive_equations.py`, acting on one column
(`List K`, index 0 = top layer).  The scalar type is generic; it is run at `Rat` and
`Float` by the driver and instantiated at an arbitrary field in `DinoProofs`.
`log` is external: functions that need `log σ` take the list `lc = log(centers)`.
-/
namespace Dino.Sigma

variable {K : Type} [Add K] [Sub K] [Mul K] [Div K] [Neg K] [Zero K] [One K]

/-- `np.diff` -/
def diffs : List K → List K
  | a :: b :: t => (b - a) :: diffs (b :: t)
  | _ => []

/-- `boundaries[1:] + boundaries[:-1]) / 2` -/
def centers : List K → List K
  | a :: b :: t => ((b + a) / (1 + 1)) :: centers (b :: t)
  | _ => []

def thickness (b : List K) : List K := diffs b
def centerToCenter (b : List K) : List K := diffs (centers b)

/-- elementwise product (`einsum` of a column with a per-level vector) -/
def mulv (x y : List K) : List K := List.zipWith (· * ·) x y
def addv (x y : List K) : List K := List.zipWith (· + ·) x y
def subv (x y : List K) : List K := List.zipWith (· - ·) x y
def smul (c : K) (x : List K) : List K := x.map (c * ·)

/-- reference cumulative sum (`jnp.cumsum`) -/
def cumsumFrom (acc : K) : List K → List K
  | [] => []
  | a :: t => (acc + a) :: cumsumFrom (acc + a) t
def cumsum (x : List K) : List K := cumsumFrom 0 x

/-- reverse cumulative sum: out[i] = Σ_{j ≥ i} x[j] -/
def rcumsum : List K → List K
  | [] => []
  | a :: t => (a + (rcumsum t).headD 0) :: rcumsum t

/-- `jnp.flip(jnp.cumsum(jnp.flip(x)))` -/
def rcumsumFlip (x : List K) : List K := (cumsum x.reverse).reverse

/-- `_single_device_dot_cumsum`: product with the 0/1 matrix `w[i,j] = (i ≤ j)` (resp. `≥`),
 `out[j] = Σ_i w[i,j]·x[i]`. -/
def dotCumsum (reverse : Bool) (x : List K) : List K :=
  (List.range x.length).map fun j =>
    ((List.range x.length).map fun i =>
      (if (if reverse then decide (i ≥ j) else decide (i ≤ j)) then (1 : K) else 0) * x.getD i 0).sum

/-- `jax_numpy_utils.cumsum(method=…)` and `reverse_cumsum(method=…)` on one device -/
def cumsumM (method : String) (x : List K) : Option (List K) :=
  if method = "dot" then some (dotCumsum false x)
  else if method = "jax" then some (cumsum x) else none
def rcumsumM (method : String) (x : List K) : Option (List K) :=
  if method = "dot" then some (dotCumsum true x)
  else if method = "jax" then some (rcumsumFlip x) else none

/-- `cumulative_sigma_integral` (midpoint rule) -/
def cumSigmaIntegral (b x : List K) (downward : Bool) : List K :=
  if downward then cumsum (mulv x (thickness b)) else rcumsum (mulv x (thickness b))

/-- `sigma_integral` -/
def sigmaIntegral (b x : List K) : K := (mulv x (thickness b)).sum

/-- `centered_difference`: `diff(x) * (1 / center_to_center)` -/
def centeredDifference (b x : List K) : List K :=
  List.zipWith (fun d c => d * (1 / c)) (diffs x) (centerToCenter b)

/-- `(x[1:] + x[:-1]) / 2` followed by `x[-1]` -/
def logIntegrand : List K → List K
  | [] => []
  | [a] => [a]
  | a :: b :: t => ((b + a) / (1 + 1)) :: logIntegrand (b :: t)

/-- `jnp.diff(lc, append=0)` -/
def diffsAppend0 (lc : List K) : List K := diffs (lc ++ [0])

/-- `cumulative_log_sigma_integral` with `lc = log(centers)` (trapezoid rule) -/
def cumLogSigmaIntegral (lc x : List K) (downward : Bool) : List K :=
  let xd := mulv (logIntegrand x) (diffsAppend0 lc)
  if downward then cumsum xd else rcumsum xd

/-- `centered_vertical_advection` with the default (zero) boundary values:
  `w` lives on the internal boundaries. -/
def centeredAdvection (b w x : List K) : List K :=
  let wp := (0 : K) :: (w ++ [0])
  let xd := (0 : K) :: (centeredDifference b x ++ [0])
  let f := mulv wp xd
  List.zipWith (fun hi lo => -(1 / (1 + 1)) * (hi + lo)) f.tail f

/-- `upwind_vertical_advection`; `maxZ`/`minZ` are `max(·,0)` and `min(·,0)` -/
def upwindAdvection (maxZ minZ : K → K) (b w x : List K) : List K :=
  let xd := centeredDifference b x
  let wUp := (0 : K) :: w
  let wDown := w ++ [0]
  let xdUp := (0 : K) :: xd
  let xdDown := xd ++ [0]
  List.zipWith (fun a c => -(a + c)) (mulv (wUp.map maxZ) xdUp) (mulv (wDown.map minZ) xdDown)

/-- `get_sigma_ratios` from `lc = log(centers)`: `diff(lc, append=0)/2` with the last entry
 overwritten by `-lc[-1]`, written as a structural recursion. -/
def sigmaRatios : List K → List K
  | [] => []
  | [l] => [-l]
  | l0 :: l1 :: r => ((l1 - l0) / (1 + 1)) :: sigmaRatios (l1 :: r)

/-- entries right of the diagonal of one row of `G`: `R·(α[k] + α[k-1])`, `prev = α[k-1]` -/
def geoOffDiag (R prev : K) : List K → List K
  | [] => []
  | c :: r => (R * (c + prev)) :: geoOffDiag R c r

/-- `get_geopotential_weights`: the double loop
 `weights[j,j] = α[j]; weights[j,k] = α[k] + α[k-1] (k > j)`, zeros below the diagonal,
 times `R`; written as a recursion over the rows. -/
def geopotentialWeights (R : K) : List K → List (List K)
  | [] => []
  | a :: al => ((R * a) :: geoOffDiag R a al) :: (geopotentialWeights R al).map ((R * 0) :: ·)

/-- `_vertical_matvec` on one column -/
def matvec (a : List (List K)) (x : List K) : List K := a.map fun row => (mulv row x).sum

/-- `get_geopotential_diff(method='dense')` -/
def geopotentialDiffDense (R : K) (alpha t : List K) : List K :=
  matvec (geopotentialWeights R alpha) t

/-- `get_geopotential_diff(method='sparse')` -/
def geopotentialDiffSparse (R : K) (alpha t : List K) : List K :=
  let a := smul R alpha
  let a2 := (0 : K) :: addv a.tail a.dropLast
  addv (rcumsum (mulv a2 t)) (mulv (subv a a2) t)

/-- `SigmaCoordinates.__init__` validation.  `close0 x` is `np.isclose(x, 0)`,
 `close1 x` is `np.isclose(x, 1)`; the order relation is a parameter so that the same
 definition runs on `Float`/`Rat` and is reasoned about over an ordered field. -/
def accepts (close0 close1 : K → Bool) (pos : K → Bool) (b : List K) : Bool :=
  match b.head?, b.getLast? with
  | some f, some l => close0 f && close1 l && (diffs b).all pos
  | _, _ => false

end Dino.Sigma
