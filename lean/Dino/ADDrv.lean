import Dino.AD
import Dino.SigmaDrv
import Dino.InterpDrv
import Dino.FiltersDrv
import Dino.ImplicitDrv
import Dino.ForcingDrv
/-!
# Line protocol of the forward-mode model: `ad <F|Q> <op> args…`

* `ad <F|Q> sigma|interp|filters|implicit <op> args…` runs the **existing** driver of that model
  (`Sigma.runK`, `Interp.runK`, `Filters.runK`, `Implicit.runK`) at the scalar `Dual K`:
  every scalar token may be written `value:tangent` (a bare scalar is a constant) and every scalar
  of the answer is rendered `value:tangent`.
* `ad F teq pvec sigma lat ps` — Held–Suarez `equilibrium_temperature` (duals in `ps`);
  `ad F temptend pvec ka ks sigma_b sigma tref lat lsp tv` — the nodal temperature tendency
  (duals in `lsp`, `tv`).
* `ad <F|Q> tomega boundaries logCenters T G V` — `_t_omega_over_sigma_sp` of `Dino.Dynamics` on
  one column of dual numbers; `ad <F|Q> adiabatic dry|moist boundaries logCenters R,Rv,CpV,kappa
  tref div temp udg q` — `nodal_temperature_adiabatic_tendency` of the dry / moist class.
* `ad <F|Q> kernel var|hum g h t q` — the two pointwise rational kernels of the moist class.
* `ad <F|Q> pairing J₁/J₂/… v w` — `⟨J v, w⟩` and `⟨v, Jᵀ w⟩` through a chain of matrices.
-/
namespace Dino.AD
open Dino Dino.Dynamics

variable (K : Type) [Num K]

local instance numLT : LT K := ⟨fun a b => Num.ltb a b = true⟩
local instance numDecLT : DecidableLT K := fun a b => inferInstanceAs (Decidable (Num.ltb a b = true))

def parseD? (s : String) : Option (Dual K) := Num.parse? (K := Dual K) s
def parseDV? (s : String) : Option (List (Dual K)) := parseVec? (K := Dual K) s
def renderDV (v : List (Dual K)) : String := renderVec (K := Dual K) v

def parseMats? (s : String) : Option (List (List (List K))) :=
  (s.splitOn "/").mapM (parseMat? (K := K))

def runK : List String → Option String
  | "sigma" :: rest => Sigma.runK (Dual K) rest
  | "interp" :: rest => Interp.runK (Dual K) rest
  | "filters" :: rest => Filters.runK (Dual K) rest
  | "implicit" :: rest => Implicit.runK (Dual K) rest
  | ["tomega", b, lc, t, g, v] => do
      let b ← parseVec? (K := K) b; let lc ← parseVec? (K := K) lc
      let t ← parseDV? K t; let g ← parseDV? K g; let v ← parseDV? K v
      let eq : PrimitiveEquations K (Dual K) (Dual K) := pointEq ⟨b, lc⟩ ⟨0, 0, 0, 0, 0, 0⟩ []
      pure (renderDV K (eq.tOmegaOverSigmaSp t g v))
  | ["adiabatic", cls, b, lc, ph, tref, div, temp, udg, q] => do
      let b ← parseVec? (K := K) b; let lc ← parseVec? (K := K) lc
      let tref ← parseVec? (K := K) tref
      let div ← parseDV? K div; let temp ← parseDV? K temp; let udg ← parseDV? K udg
      let q ← parseDV? K q
      match ← parseVec? (K := K) ph with
      | [r, rv, cpv, kappa] =>
        let eq : PrimitiveEquations K (Dual K) (Dual K) := pointEq ⟨b, lc⟩ ⟨0, 0, r, rv, cpv, kappa⟩ tref
        if cls = "dry" then
          pure (renderDV K (eq.nodalTemperatureAdiabaticTendency (pointDiag div temp udg [])))
        else if cls = "moist" then
          match MoistPrimitiveEquations.nodalTemperatureAdiabaticTendency eq
              (pointDiag div temp udg [(specificHumidityKey, q)]) with
          | some r => pure (renderDV K r)
          | none => pure "value-error"
        else none
      | _ => none
  | ["kernel", which, g, h, t, q] => do
      let g ← Num.parse? (K := K) g; let h ← Num.parse? (K := K) h
      let t ← parseD? K t; let q ← parseD? K q
      if which = "var" then pure (Num.render (variationKernel g h t q))
      else if which = "hum" then pure (Num.render (humidityKernel g h t q))
      else none
  | ["pairing", js, v, w] => do
      let js ← parseMats? K js; let v ← parseVec? (K := K) v; let w ← parseVec? (K := K) w
      pure (renderVec [Lin.dotv (jvpChain js v) w, Lin.dotv v (vjpChain js v.length w)])
  | _ => none

open Forcing in
def runF : List String → Option String
  | ["teq", p, sig, lat, ps] => do
      let p ← parseVec? (K := Float) p; let sig ← Num.parse? (K := Float) sig
      let lat ← parseVec? (K := Float) lat; let ps ← parseDV? Float ps
      match p with
      | [p0, kappa, minT, maxT, dTy, dThz] =>
        let P : EqParams (Dual Float) := ⟨.const p0, .const kappa, .const minT, .const maxT,
          .const dTy, .const dThz⟩
        if lat.length = ps.length then
          pure (renderDV Float (equilibriumTemperatureVec P (.const sig) (constL lat) ps))
        else pure "value-error"
      | _ => none
  | ["temptend", p, ka, ks, sb, sig, tref, lat, lsp, tv] => do
      let p ← parseVec? (K := Float) p
      let ka ← Num.parse? (K := Float) ka; let ks ← Num.parse? (K := Float) ks
      let sb ← Num.parse? (K := Float) sb; let sig ← Num.parse? (K := Float) sig
      let tref ← Num.parse? (K := Float) tref
      let lat ← parseVec? (K := Float) lat; let lsp ← parseDV? Float lsp; let tv ← parseDV? Float tv
      match p with
      | [p0, kappa, minT, maxT, dTy, dThz] =>
        let P : EqParams (Dual Float) := ⟨.const p0, .const kappa, .const minT, .const maxT,
          .const dTy, .const dThz⟩
        if lat.length = lsp.length ∧ lsp.length = tv.length then
          pure (renderDV Float (tempTendency P (.const ka) (.const ks) (.const sb) (.const sig)
            (.const tref) (constL lat) lsp tv))
        else pure "value-error"
      | _ => none
  | rest => runK Float rest

def run : List String → Option String
  | "F" :: rest => runF rest
  | "Q" :: rest => runK Rat rest
  | _ => none

end Dino.AD
