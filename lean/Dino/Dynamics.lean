import Dino.Sigma
import Dino.Implicit
/-!
# `Dynamics` — the abstract spectral model of the primitive equations (core Lean only)

Mirrors `dinosaur/primitive_equations.py` term by term, over **abstract carriers**:

* `K` scalars, `M` one horizontal level of a field in the spectral (modal) basis,
  `N` one horizontal level of a field on the nodal grid (pointwise ring: `+ - * /`, `1`),
  with scalar actions `K` on `M` and on `N`.  Nothing is assumed about them here: the
  classes are the bare core operation classes, no laws.
* a column is a `List` of levels (index 0 = top layer), as in `Dino.Sigma` / `Dino.Implicit`.
* `HOps K M N` is a record of horizontal operations **as data, without laws** (`to_nodal`,
  `to_modal`, `d_dlon`, `cos_lat_d_dlat`, `sec_lat_d_dlat_cos2`, `laplacian`,
  `inverse_laplacian`, `clip_wavenumbers`, the nodal tables and the radius).  The derived grid
  operations (`cos_lat_grad`, `k_cross`, `div_cos_lat`, `curl_cos_lat`, `get_cos_lat_vector`,
  `div_sec_lat`) are written over the record exactly as `spherical_harmonic.Grid` writes them.

Laws (linearity, `toModal ∘ toNodal = id` on clipped fields, `div ∘ grad = lap`, …) live in the
proof files as `Prop` structures and are theorem hypotheses (`DinoProofs/Lemmas/Dynamics.lean`).

The scalar parts of the vertical discretisation are the existing models: `Sigma.thickness`,
`Sigma.centerToCenter`, `Sigma.sigmaRatios`, `Sigma.cumsum`, `Sigma.geopotentialWeights`,
`Implicit.hMatrix`, `Implicit.implicitMatrix`.  The routines that act on *fields* (cumulative
integral, centred difference/advection, vertical mat-vec) are restated here for a column of
values in a `K`-module `V` (`Col.*`); at `V = K` they are the `Dino.Sigma` definitions
(`DinoProofs/Lemmas/Dynamics.lean`, `Col.*_eq_sigma`).

How to build on this file without editing it: see the section "extension points" at the end.
-/
namespace Dino.Dynamics
open Dino

/-! ## columns of values in a `K`-module `V` -/
namespace Col
section
variable {K V : Type}

def add [Add V] (x y : List V) : List V := List.zipWith (· + ·) x y
def sub [Sub V] (x y : List V) : List V := List.zipWith (· - ·) x y
def neg [Neg V] (x : List V) : List V := x.map fun a => -a
def mul [Mul V] (x y : List V) : List V := List.zipWith (· * ·) x y
/-- one scalar for the whole column -/
def smul [SMul K V] (c : K) (x : List V) : List V := x.map fun a => c • a
/-- one scalar per level (`einsum` of a column with a per-level vector) -/
def wmul [SMul K V] (w : List K) (x : List V) : List V := List.zipWith (· • ·) w x
/-- the same level-field added to every level (broadcast of a `[1, …]` array) -/
def addLevel [Add V] (x : List V) (a : V) : List V := x.map fun v => v + a
def zeros [Zero V] (n : Nat) : List V := List.replicate n 0
def zerosLike {W : Type} [Zero V] (x : List W) : List V := x.map fun _ => 0

/-- `jnp.cumsum` along the vertical -/
def cumsumFrom [Add V] (acc : V) : List V → List V
  | [] => []
  | a :: t => (acc + a) :: cumsumFrom (acc + a) t
def cumsum [Add V] [Zero V] (x : List V) : List V := cumsumFrom 0 x

/-- `np.diff` along the vertical -/
def diffs [Sub V] : List V → List V
  | a :: b :: t => (b - a) :: diffs (b :: t)
  | _ => []

/-- `cumulative_sigma_integral(downward=True)`; `ds = layer_thickness` -/
def cumSigmaIntegral [Add V] [Zero V] [SMul K V] (ds : List K) (x : List V) : List V :=
  cumsum (wmul ds x)

/-- `sigma_integral` -/
def sigmaIntegral [Add V] [Zero V] [SMul K V] (ds : List K) (x : List V) : V := (wmul ds x).sum

/-- `centered_difference`: `diff(x) * (1 / center_to_center)` -/
def centeredDifference [Sub V] [SMul K V] [Div K] [One K] (ctc : List K) (x : List V) : List V :=
  List.zipWith (fun d c => (1 / c) • d) (diffs x) ctc

/-- `_vertical_matvec`: `einsum('gh,...hml->...gml', a, x)` -/
def matvec [Add V] [Zero V] [SMul K V] (a : List (List K)) (x : List V) : List V :=
  a.map fun row => (wmul row x).sum

end

/-- `centered_vertical_advection` with the default (zero) boundary values; `w` lives on the
 internal boundaries, `x` on the layer centres, both are nodal fields (`w * ∂x/∂σ` pointwise). -/
def centeredAdvection {K N : Type} [Add N] [Sub N] [Mul N] [Zero N] [SMul K N]
    [Add K] [Div K] [Neg K] [One K] (ctc : List K) (w x : List N) : List N :=
  let wp := (0 : N) :: (w ++ [0])
  let xd := (0 : N) :: (centeredDifference ctc x ++ [0])
  let f := mul wp xd
  List.zipWith (fun hi lo => (-(1 / (1 + 1)) : K) • (hi + lo)) f.tail f

end Col

/-! ## horizontal operations as data -/

/-- Horizontal operations of one `spherical_harmonic.Grid`, acting on one level; no laws. -/
structure HOps (K M N : Type) where
  /-- `Grid.to_nodal` -/
  toNodal : M → N
  /-- `Grid.to_modal` -/
  toModal : N → M
  /-- `Grid.d_dlon` -/
  dDlon : M → M
  /-- `Grid.cos_lat_d_dlat` -/
  cosLatDDlat : M → M
  /-- `Grid.sec_lat_d_dlat_cos2` -/
  secLatDDlatCos2 : M → M
  /-- `Grid.laplacian` -/
  laplacian : M → M
  /-- `Grid.inverse_laplacian` -/
  inverseLaplacian : M → M
  /-- `Grid.clip_wavenumbers(·, n=1)` -/
  clip : M → M
  /-- projection on total wavenumber `l` (the axis `_vertical_matvec_per_wavenumber` maps over) -/
  lproj : Nat → M → M
  /-- number of total wavenumbers, `modal_shape[1]` -/
  nL : Nat
  /-- `Grid.laplacian_eigenvalues[l]` -/
  lapEig : Nat → K
  /-- `Grid.cos_lat`, `Grid.sec2_lat`, `sin_lat` of `Grid.nodal_mesh`, broadcast to the nodal shape -/
  cosLat : N
  sec2Lat : N
  sinLat : N
  /-- the spectral coefficients of the constant field one (`_CONSTANT_NORMALIZATION_FACTOR` at [0,0]) -/
  oneModal : M
  /-- `Grid.radius` -/
  radius : K

/-- `PrimitiveEquationsSpecs` (the non-dimensional numbers only) -/
structure Phys (K : Type) where
  angularVelocity : K
  g : K
  R : K
  Rvapor : K
  CpVapor : K
  kappa : K

/-- `SigmaCoordinates`: the boundaries, and `log(centers)` (the logarithm is external) -/
structure Vert (K : Type) where
  boundaries : List K
  logCenters : List K

/-- `primitive_equations.State` -/
structure State (M : Type) where
  vorticity : List M
  divergence : List M
  temperatureVariation : List M
  logSurfacePressure : M
  tracers : List (String × List M) := []

/-- `primitive_equations.StateWithTime` -/
structure StateWithTime (K M : Type) where
  state : State M
  simTime : K

/-- `primitive_equations.DiagnosticState` -/
structure Diag (N : Type) where
  vorticity : List N
  divergence : List N
  temperatureVariation : List N
  cosLatU : List N × List N
  sigmaDotExplicit : List N
  sigmaDotFull : List N
  cosLatGradLogSp : N × N
  uDotGradLogSp : List N
  tracers : List (String × List N)

/-- dictionary lookup (`tracers[name]`) -/
def lookup {α : Type} (name : String) : List (String × α) → Option α
  | [] => none
  | (k, v) :: t => if k = name then some v else lookup name t

/-- `tree_map` over a tracer dictionary -/
def mapTracers {α β : Type} (f : α → β) (t : List (String × α)) : List (String × β) :=
  t.map fun kv => (kv.1, f kv.2)

namespace Vert
variable {K : Type} [Add K] [Sub K] [Mul K] [Div K] [Neg K] [Zero K] [One K]
/-- `layer_thickness` -/
def ds (v : Vert K) : List K := Sigma.thickness v.boundaries
/-- `center_to_center` -/
def ctc (v : Vert K) : List K := Sigma.centerToCenter v.boundaries
/-- `get_sigma_ratios` -/
def alpha (v : Vert K) : List K := Sigma.sigmaRatios v.logCenters
/-- `layers` -/
def layers (v : Vert K) : Nat := v.ds.length
end Vert

/-! ## grid operations derived from the record, as `spherical_harmonic.Grid` derives them -/
namespace HOps
section
variable {K M N : Type} [Div K] [One K] [Add M] [Sub M] [Neg M] [SMul K M] [Mul N]

/-- `Grid.cos_lat_grad(x, clip)` -/
def cosLatGrad (h : HOps K M N) (clip : Bool) (x : M) : M × M :=
  let raw := ((1 / h.radius) • h.dDlon x, (1 / h.radius) • h.cosLatDDlat x)
  if clip then (h.clip raw.1, h.clip raw.2) else raw

/-- `Grid.k_cross` -/
def kCross (_h : HOps K M N) (v : M × M) : M × M := (-v.2, v.1)

/-- `Grid.div_cos_lat(v, clip)` -/
def divCosLat (h : HOps K M N) (clip : Bool) (v : M × M) : M :=
  let raw := (1 / h.radius) • (h.dDlon v.1 + h.secLatDDlatCos2 v.2)
  if clip then h.clip raw else raw

/-- `Grid.curl_cos_lat(v, clip)` -/
def curlCosLat (h : HOps K M N) (clip : Bool) (v : M × M) : M :=
  let raw := (1 / h.radius) • (h.dDlon v.2 - h.secLatDDlatCos2 v.1)
  if clip then h.clip raw else raw

/-- `spherical_harmonic.get_cos_lat_vector(vorticity, divergence, grid, clip)` -/
def cosLatVector (h : HOps K M N) (clip : Bool) (vorticity divergence : M) : M × M :=
  let streamFunction := h.inverseLaplacian vorticity
  let velocityPotential := h.inverseLaplacian divergence
  let a := h.cosLatGrad clip velocityPotential
  let b := h.kCross (h.cosLatGrad clip streamFunction)
  (a.1 + b.1, a.2 + b.2)

/-- `primitive_equations.div_sec_lat(m_component, n_component, grid)` -/
def divSecLat (h : HOps K M N) (m n : N) : M :=
  h.divCosLat false (h.toModal (m * h.sec2Lat), h.toModal (n * h.sec2Lat))

/-- `_add_constant(x, c)`: adds the constant `c` to a field in the spectral basis -/
def addConstant (h : HOps K M N) (x : M) (c : K) : M := x + c • h.oneModal

end
end HOps

/-! ## the equation classes -/

/-- The data of a `PrimitiveEquations` object (and of its subclasses): `coords` is split into the
 horizontal record `ops` and the vertical `vert`.  `vertical_advection` is the default
 `centered_vertical_advection`, `vertical_matmul_method` the default `'dense'`
 (sparse ≡ dense is C03/C13). -/
structure PrimitiveEquations (K M N : Type) where
  ops : HOps K M N
  vert : Vert K
  phys : Phys K
  referenceTemperature : List K
  orography : M
  includeVerticalAdvection : Bool := true

section Dry
variable {K M N : Type}
  [Add K] [Sub K] [Mul K] [Div K] [Neg K] [Zero K] [One K]
  [Add M] [Sub M] [Neg M] [Zero M] [SMul K M]
  [Add N] [Sub N] [Neg N] [Zero N] [Mul N] [One N] [SMul K N]

/-- a per-layer scalar as a nodal field (`reference_temperature[..., newaxis, newaxis]`) -/
def constN (c : K) : N := c • (1 : N)

/-- `σ̇` on the internal boundaries from a cumulative integral `f`:
 `slice(sum_σ * f[-1:] - f, 0, -1)` with `sum_σ = cumsum(layer_thickness)` -/
def sigmaDotOf (ds : List K) (f : List N) : List N :=
  (List.zipWith (fun (s : K) (fi : N) => s • f.getLastD 0 - fi) (Sigma.cumsum ds) f).dropLast

/-- `compute_diagnostic_state(state, coords)` -/
def computeDiagnosticState (h : HOps K M N) (v : Vert K) (s : State M) : Diag N :=
  let toN := h.toNodal
  let nodalVorticity := s.vorticity.map toN
  let nodalDivergence := s.divergence.map toN
  let nodalTemperatureVariation := s.temperatureVariation.map toN
  let tracers := mapTracers (fun x => x.map toN) s.tracers
  let clv := List.zipWith (fun z d => h.cosLatVector false z d) s.vorticity s.divergence
  let nodalCosLatU : List N × List N := (clv.map fun p => toN p.1, clv.map fun p => toN p.2)
  let cosLatGradLogSp := h.cosLatGrad false s.logSurfacePressure
  let nodalCosLatGradLogSp : N × N := (toN cosLatGradLogSp.1, toN cosLatGradLogSp.2)
  let nodalUDotGradLogSp := List.zipWith
    (fun u w => u * nodalCosLatGradLogSp.1 * h.sec2Lat + w * nodalCosLatGradLogSp.2 * h.sec2Lat)
    nodalCosLatU.1 nodalCosLatU.2
  let fExplicit := Col.cumSigmaIntegral v.ds nodalUDotGradLogSp
  let fFull := Col.cumSigmaIntegral v.ds (Col.add nodalDivergence nodalUDotGradLogSp)
  { vorticity := nodalVorticity
    divergence := nodalDivergence
    temperatureVariation := nodalTemperatureVariation
    cosLatU := nodalCosLatU
    sigmaDotExplicit := sigmaDotOf v.ds fExplicit
    sigmaDotFull := sigmaDotOf v.ds fFull
    cosLatGradLogSp := nodalCosLatGradLogSp
    uDotGradLogSp := nodalUDotGradLogSp
    tracers := tracers }

/-- `compute_vertical_velocity`: `σ̇` at the layer centres -/
def computeVerticalVelocity (h : HOps K M N) (v : Vert K) (s : State M) : List N :=
  let b := (computeDiagnosticState h v s).sigmaDotFull
  let padded := (0 : N) :: (b ++ [0])
  List.zipWith (fun hi lo => ((1 / (1 + 1)) : K) • (hi + lo)) padded.tail padded

namespace PrimitiveEquations
variable (eq : PrimitiveEquations K M N)

/-- `coriolis_parameter = 2 Ω sin θ` -/
def coriolisParameter : N := ((1 + 1) * eq.phys.angularVelocity) • eq.ops.sinLat

/-- `T_ref` as a column of nodal fields -/
def tRef : List N := eq.referenceTemperature.map constN

/-- `_vertical_tendency(w, x)` -/
def verticalTendency (w x : List N) : List N := Col.centeredAdvection eq.vert.ctc w x

/-- `_t_omega_over_sigma_sp(temperature_field, g_term, v_dot_grad_log_sp)` -/
def tOmegaOverSigmaSp (temperatureField gTerm vDotGradLogSp : List N) : List N :=
  let f := Col.cumSigmaIntegral eq.vert.ds gTerm
  let alphaF := Col.wmul eq.vert.alpha f
  let padded := ((0 : N) :: alphaF).dropLast
  let gPart := List.zipWith (fun (d : K) (x : N) => (1 / d) • x) eq.vert.ds (Col.add alphaF padded)
  Col.mul temperatureField (Col.sub vDotGradLogSp gPart)

/-- `kinetic_energy_tendency` -/
def kineticEnergyTendency (aux : Diag N) : List M :=
  let kinetic := List.zipWith
    (fun u w => ((1 / (1 + 1)) : K) • ((u * u + w * w) * eq.ops.sec2Lat)) aux.cosLatU.1 aux.cosLatU.2
  kinetic.map fun k => -(eq.ops.laplacian (eq.ops.toModal k))

/-- `orography_tendency` (one level; broadcasts over the layers) -/
def orographyTendency : M := (-eq.phys.g) • eq.ops.laplacian eq.orography

/-- the part of `curl_and_div_tendencies` shared by the dry and the moist classes; `rT` is
 `R·T'` (dry) or the value of `_virtual_temperature` (moist classes) -/
def curlAndDivTendenciesWith (aux : Diag N) (rT : List N) : List M × List M :=
  let sec2 := eq.ops.sec2Lat
  let u := aux.cosLatU.1
  let v := aux.cosLatU.2
  let totalVorticity := aux.vorticity.map fun z => z + eq.coriolisParameter
  let nodalVorticityU := List.zipWith (fun vv tv => -vv * tv * sec2) v totalVorticity
  let nodalVorticityV := List.zipWith (fun uu tv => uu * tv * sec2) u totalVorticity
  let sigmaDot := aux.sigmaDotFull
  let sigmaDotU := if eq.includeVerticalAdvection then Col.neg (eq.verticalTendency sigmaDot u)
                   else Col.zerosLike u
  let sigmaDotV := if eq.includeVerticalAdvection then Col.neg (eq.verticalTendency sigmaDot v)
                   else Col.zerosLike v
  let verticalTermU := List.zipWith (fun sd r => (sd + r * aux.cosLatGradLogSp.1) * sec2) sigmaDotU rT
  let verticalTermV := List.zipWith (fun sd r => (sd + r * aux.cosLatGradLogSp.2) * sec2) sigmaDotV rT
  let combinedU := (Col.add nodalVorticityU verticalTermU).map eq.ops.toModal
  let combinedV := (Col.add nodalVorticityV verticalTermV).map eq.ops.toModal
  let dZeta := List.zipWith (fun cu cv => -(eq.ops.curlCosLat false (cu, cv))) combinedU combinedV
  let dDelta := List.zipWith (fun cu cv => -(eq.ops.divCosLat false (cu, cv))) combinedU combinedV
  (dZeta, dDelta)

/-- `PrimitiveEquations.curl_and_div_tendencies` -/
def curlAndDivTendencies (aux : Diag N) : List M × List M :=
  eq.curlAndDivTendenciesWith aux (Col.smul eq.phys.R aux.temperatureVariation)

/-- `np.unique(T_ref.ravel()).size > 1` -/
def tRefVaries [BEq K] : Bool :=
  match eq.referenceTemperature with
  | [] => false
  | a :: t => t.any fun b => !(b == a)

/-- `nodal_temperature_vertical_tendency` -/
def nodalTemperatureVerticalTendency [BEq K] (aux : Diag N) : List N :=
  let tendency := if eq.includeVerticalAdvection
    then eq.verticalTendency aux.sigmaDotFull aux.temperatureVariation
    else Col.zerosLike aux.temperatureVariation
  if eq.tRefVaries then Col.add tendency (eq.verticalTendency aux.sigmaDotExplicit eq.tRef) else tendency

/-- `horizontal_scalar_advection(scalar, aux_state)`: (nodal terms, modal terms) -/
def horizontalScalarAdvection (scalar : List N) (aux : Diag N) : List N × List M :=
  let nodalTerms := Col.mul scalar aux.divergence
  let us := Col.mul aux.cosLatU.1 scalar
  let vs := Col.mul aux.cosLatU.2 scalar
  (nodalTerms, List.zipWith (fun a b => -(eq.ops.divSecLat a b)) us vs)

/-- `PrimitiveEquations.nodal_temperature_adiabatic_tendency` -/
def nodalTemperatureAdiabaticTendency (aux : Diag N) : List N :=
  let gExplicit := aux.uDotGradLogSp
  let gFull := Col.add gExplicit aux.divergence
  let meanTPart := eq.tOmegaOverSigmaSp eq.tRef gExplicit aux.uDotGradLogSp
  let variationTPart := eq.tOmegaOverSigmaSp aux.temperatureVariation gFull aux.uDotGradLogSp
  Col.smul eq.phys.kappa (Col.add meanTPart variationTPart)

/-- `nodal_log_pressure_tendency` -/
def nodalLogPressureTendency (aux : Diag N) : N :=
  -(Col.sigmaIntegral eq.vert.ds aux.uDotGradLogSp)

/-- tendency of one tracer: `to_modal(vertical + horizontal_nodal) + horizontal_modal` -/
def tracerTendency (aux : Diag N) (x : List N) : List M :=
  let vertical := if eq.includeVerticalAdvection then eq.verticalTendency aux.sigmaDotFull x
                  else Col.zerosLike x
  let hz := eq.horizontalScalarAdvection x aux
  Col.add ((Col.add vertical hz.1).map eq.ops.toModal) hz.2

/-- `Grid.clip_wavenumbers` on a `State` pytree -/
def clipState (s : State M) : State M :=
  { vorticity := s.vorticity.map eq.ops.clip
    divergence := s.divergence.map eq.ops.clip
    temperatureVariation := s.temperatureVariation.map eq.ops.clip
    logSurfacePressure := eq.ops.clip s.logSurfacePressure
    tracers := mapTracers (fun x => x.map eq.ops.clip) s.tracers }

/-- the temperature, surface-pressure and tracer tendencies, common to all classes
 (`dT_dt_adiabatic` differs between the dry and the moist classes) -/
def thermoTendencies [BEq K] (aux : Diag N) (dTdtAdiabatic : List N) :
    List M × M × List (String × List M) :=
  let hzT := eq.horizontalScalarAdvection aux.temperatureVariation aux
  let dTdtVertical := eq.nodalTemperatureVerticalTendency aux
  let temperatureTendency :=
    Col.add ((Col.add (Col.add hzT.1 dTdtVertical) dTdtAdiabatic).map eq.ops.toModal) hzT.2
  let logSpTendency := eq.ops.toModal (eq.nodalLogPressureTendency aux)
  (temperatureTendency, logSpTendency, mapTracers (eq.tracerTendency aux) aux.tracers)

/-- `PrimitiveEquations.explicit_terms` -/
def explicitTerms [BEq K] (s : State M) : State M :=
  let aux := computeDiagnosticState eq.ops eq.vert s
  let cd := eq.curlAndDivTendencies aux
  let kineticEnergyTendency := eq.kineticEnergyTendency aux
  let divergenceTendency := Col.addLevel (Col.add cd.2 kineticEnergyTendency) eq.orographyTendency
  let th := eq.thermoTendencies aux (eq.nodalTemperatureAdiabaticTendency aux)
  eq.clipState
    { vorticity := cd.1
      divergence := divergenceTendency
      temperatureVariation := th.1
      logSurfacePressure := th.2.1
      tracers := th.2.2 }

/-- `get_geopotential_diff(method='dense')` on a column of modal (or nodal) fields -/
def geopotentialDiff {V : Type} [Add V] [Zero V] [SMul K V] (x : List V) : List V :=
  Col.matvec (Sigma.geopotentialWeights eq.phys.R eq.vert.alpha) x

/-- `get_temperature_implicit_weights` (Durran's `H`) for this object -/
def temperatureImplicitWeights : List (List K) :=
  Implicit.hMatrix eq.vert.ds eq.referenceTemperature eq.vert.alpha eq.phys.kappa

/-- `get_temperature_implicit(method='dense')`: `(-H)·divergence` -/
def temperatureImplicit (d : List M) : List M :=
  Col.matvec (Implicit.negMat eq.temperatureImplicitWeights) d

/-- `PrimitiveEquations.implicit_terms` -/
def implicitTerms (s : State M) : State M :=
  let geopotentialDiff := eq.geopotentialDiff s.temperatureVariation
  let rtLogP := eq.referenceTemperature.map fun t => (eq.phys.R * t) • s.logSurfacePressure
  { vorticity := Col.zerosLike s.vorticity
    divergence := (Col.add geopotentialDiff rtLogP).map fun x => -(eq.ops.laplacian x)
    temperatureVariation := eq.temperatureImplicit s.divergence
    logSurfacePressure := -(Col.sigmaIntegral eq.vert.ds s.divergence)
    tracers := mapTracers Col.zerosLike s.tracers }

/-- `_vertical_matvec_per_wavenumber`: `einsum('lgh,...hml->...gml', a, x)`, `a l` the matrix of
 total wavenumber `l` -/
def matvecPerWavenumber (a : Nat → List (List K)) (rows : Nat) (x : List M) : List M :=
  ((List.range eq.ops.nL).map fun l => Col.matvec (a l) (x.map (eq.ops.lproj l))).foldl Col.add
    (Col.zeros rows)

/-- `_get_implicit_term_matrix(eta, …)[l]` -/
def implicitTermMatrix (eta : K) (l : Nat) : List (List K) :=
  Implicit.implicitMatrix eta (eq.ops.lapEig l) eq.phys.R eq.vert.ds eq.referenceTemperature
    (Sigma.geopotentialWeights eq.phys.R eq.vert.alpha) eq.temperatureImplicitWeights

/-- `PrimitiveEquations.implicit_inverse(state, step_size, method='split')`.
 `numpy.linalg.inv` is external: `inv l` is the inverse it returned for total wavenumber `l`
 (contract `inv l · implicitTermMatrix eta l = 1`, checked by C03). -/
def implicitInverse (inv : Nat → List (List K)) (s : State M) : State M :=
  let n := eq.vert.layers
  let blk := fun r0 nr c0 nc l => Implicit.block (inv l) r0 nr c0 nc
  let mv := eq.matvecPerWavenumber
  let p := [s.logSurfacePressure]
  { vorticity := s.vorticity
    divergence := Col.add (Col.add (mv (blk 0 n 0 n) n s.divergence)
        (mv (blk 0 n n n) n s.temperatureVariation)) (mv (blk 0 n (2 * n) 1) n p)
    temperatureVariation := Col.add (Col.add (mv (blk n n 0 n) n s.divergence)
        (mv (blk n n n n) n s.temperatureVariation)) (mv (blk n n (2 * n) 1) n p)
    logSurfacePressure := (Col.add (Col.add (mv (blk (2 * n) 1 0 n) 1 s.divergence)
        (mv (blk (2 * n) 1 n n) 1 s.temperatureVariation)) (mv (blk (2 * n) 1 (2 * n) 1) 1 p)).headD 0
    tracers := s.tracers }

end PrimitiveEquations

/-! ### `PrimitiveEquationsWithTime` -/
namespace PrimitiveEquationsWithTime
variable (eq : PrimitiveEquations K M N)

/-- `PrimitiveEquationsWithTime.explicit_terms` -/
def explicitTerms [BEq K] (s : StateWithTime K M) : StateWithTime K M :=
  { state := eq.explicitTerms s.state, simTime := 1 }

/-- `PrimitiveEquationsWithTime.implicit_terms` -/
def implicitTerms (s : StateWithTime K M) : StateWithTime K M :=
  { state := eq.implicitTerms s.state, simTime := 0 }

/-- `PrimitiveEquationsWithTime.implicit_inverse` -/
def implicitInverse (inv : Nat → List (List K)) (s : StateWithTime K M) : StateWithTime K M :=
  { state := eq.implicitInverse inv s.state, simTime := s.simTime }

end PrimitiveEquationsWithTime
end Dry

/-! ### `MoistPrimitiveEquations` and `MoistPrimitiveEquationsWithCloudMoisture` -/
section Moist
variable {K M N : Type}
  [Add K] [Sub K] [Mul K] [Div K] [Neg K] [Zero K] [One K]
  [Add M] [Sub M] [Neg M] [Zero M] [SMul K M]
  [Add N] [Sub N] [Neg N] [Zero N] [Mul N] [One N] [SMul K N] [Div N]

def specificHumidityKey : String := "specific_humidity"
def cloudWaterKey : String := "specific_cloud_liquid_water_content"
def cloudIceKey : String := "specific_cloud_ice_water_content"

namespace MoistPrimitiveEquations
variable (eq : PrimitiveEquations K M N)

/-- `_get_specific_humidity` (`none` = the `ValueError` of a missing tracer) -/
def getSpecificHumidity {α : Type} (tracers : List (String × α)) : Option α :=
  lookup specificHumidityKey tracers

/-- `MoistPrimitiveEquations._virtual_temperature`: `R · T' · (1 + moisture_contribution)` -/
def virtualTemperature (aux : Diag N) (moistureContribution : List N) : Option (List N) :=
  some (List.zipWith (fun t mc => (eq.phys.R • t) * ((1 : N) + mc)) aux.temperatureVariation
    moistureContribution)

/-- `MoistPrimitiveEquationsWithCloudMoisture._virtual_temperature`:
 `R · T' · (1 + moisture_contribution − q_l − q_i)` -/
def virtualTemperatureWithClouds (aux : Diag N) (moistureContribution : List N) :
    Option (List N) := do
  let ql ← lookup cloudWaterKey aux.tracers
  let qi ← lookup cloudIceKey aux.tracers
  let factor := Col.sub (Col.sub (moistureContribution.map fun mc => (1 : N) + mc) ql) qi
  pure (List.zipWith (fun t f => (eq.phys.R • t) * f) aux.temperatureVariation factor)

/-- `MoistPrimitiveEquations.curl_and_div_tendencies`; `vt` is the `_virtual_temperature` method
 of the class -/
def curlAndDivTendencies (vt : Diag N → List N → Option (List N)) (aux : Diag N) :
    Option (List M × List M) := do
  let gasConstRatio := eq.phys.Rvapor / eq.phys.R
  let q ← getSpecificHumidity aux.tracers
  let moistureContribution := Col.smul (gasConstRatio - 1) q
  let rTv ← vt aux moistureContribution
  pure (eq.curlAndDivTendenciesWith aux rTv)

/-- `MoistPrimitiveEquations.nodal_temperature_adiabatic_tendency` -/
def nodalTemperatureAdiabaticTendency (aux : Diag N) : Option (List N) := do
  let gasConstRatio := eq.phys.Rvapor / eq.phys.R
  let cp := eq.phys.R / eq.phys.kappa
  let heatCapacityRatio := eq.phys.CpVapor / cp
  let gExplicit := aux.uDotGradLogSp
  let gFull := Col.add gExplicit aux.divergence
  let q ← getSpecificHumidity aux.tracers
  let meanTPart := eq.tOmegaOverSigmaSp eq.tRef gExplicit aux.uDotGradLogSp
  let variationTemperatureComponent := List.zipWith
    (fun t qq => t * (((1 : N) + (gasConstRatio - 1) • qq) / ((1 : N) + (heatCapacityRatio - 1) • qq)))
    aux.temperatureVariation q
  let humidityReferenceComponent := List.zipWith
    (fun (tr : N) qq => tr * (((gasConstRatio - heatCapacityRatio) • qq)
        / ((1 : N) + (heatCapacityRatio - 1) • qq)))
    eq.tRef q
  let variationAndHumidityTerms := Col.add variationTemperatureComponent humidityReferenceComponent
  let variationAndTvPart := eq.tOmegaOverSigmaSp variationAndHumidityTerms gFull aux.uDotGradLogSp
  pure (Col.smul eq.phys.kappa (Col.add meanTPart variationAndTvPart))

/-- `cos_lat_grad(q_modal, clip=False)` of every level, in nodal space -/
def nodalCosLatGradQ (qModal : List M) : List (N × N) :=
  qModal.map fun qm =>
    let g := eq.ops.cosLatGrad false qm
    (eq.ops.toNodal g.1, eq.ops.toNodal g.2)

/-- `divergence_tendency_due_to_humidity` -/
def divergenceTendencyDueToHumidity (s : State M) (aux : Diag N) : Option (List M) := do
  let q ← getSpecificHumidity aux.tracers
  let ph := eq.phys
  let nodalLaplacianLsp := eq.ops.toNodal (eq.ops.laplacian s.logSurfacePressure)
  let nodalLaplacianCorrectionTerm := List.zipWith
    (fun qq (tr : N) => qq * nodalLaplacianLsp * tr * constN (ph.Rvapor - ph.R)) q eq.tRef
  let qModal ← getSpecificHumidity s.tracers
  let gq := nodalCosLatGradQ eq qModal
  let nodalDotTerm := List.zipWith
    (fun (tr : N) (g : N × N) => tr * constN (ph.Rvapor - ph.R) * eq.ops.sec2Lat
        * (g.1 * aux.cosLatGradLogSp.1 + g.2 * aux.cosLatGradLogSp.2))
    eq.tRef gq
  let temperature := Col.add aux.temperatureVariation eq.tRef
  let temperatureDiff := List.zipWith (fun qq t => (ph.Rvapor / ph.R - 1) • (qq * t)) q temperature
  let geopotentialDiff := eq.geopotentialDiff temperatureDiff
  pure (List.zipWith
    (fun gd tm => -(eq.ops.laplacian (eq.ops.toModal gd)) - eq.ops.toModal tm)
    geopotentialDiff (Col.add nodalDotTerm nodalLaplacianCorrectionTerm))

/-- `vorticity_tendency_due_to_humidity` -/
def vorticityTendencyDueToHumidity (s : State M) (aux : Diag N) : Option (List M) := do
  let ph := eq.phys
  let qModal ← getSpecificHumidity s.tracers
  let gq := nodalCosLatGradQ eq qModal
  let nodalCurlTerm := List.zipWith
    (fun (tr : N) (g : N × N) => tr * constN (ph.Rvapor - ph.R) * eq.ops.sec2Lat
        * (aux.cosLatGradLogSp.1 * g.2 - aux.cosLatGradLogSp.2 * g.1))
    eq.tRef gq
  pure (nodalCurlTerm.map eq.ops.toModal)

/-- `MoistPrimitiveEquations.explicit_terms` with the `_virtual_temperature` method `vt` -/
def explicitTermsWith [BEq K] (vt : Diag N → List N → Option (List N)) (s : StateWithTime K M) :
    Option (StateWithTime K M) := do
  let st := s.state
  let aux := computeDiagnosticState eq.ops eq.vert st
  let cd ← curlAndDivTendencies eq vt aux
  let humidityVortCorrectionTendency ← vorticityTendencyDueToHumidity eq st aux
  let kineticEnergyTendency := eq.kineticEnergyTendency aux
  let humidityDivCorrectionTendency ← divergenceTendencyDueToHumidity eq st aux
  let adiabatic ← nodalTemperatureAdiabaticTendency eq aux
  let th := eq.thermoTendencies aux adiabatic
  let vorticityTendency := Col.add cd.1 humidityVortCorrectionTendency
  let divergenceTendency := Col.add
    (Col.addLevel (Col.add cd.2 kineticEnergyTendency) eq.orographyTendency)
    humidityDivCorrectionTendency
  pure
    { state := eq.clipState
        { vorticity := vorticityTendency
          divergence := divergenceTendency
          temperatureVariation := th.1
          logSurfacePressure := th.2.1
          tracers := th.2.2 }
      simTime := 1 }

/-- `MoistPrimitiveEquations.explicit_terms` -/
def explicitTerms [BEq K] (s : StateWithTime K M) : Option (StateWithTime K M) :=
  explicitTermsWith eq (virtualTemperature eq) s

/-- inherited from `PrimitiveEquationsWithTime` -/
def implicitTerms (s : StateWithTime K M) : StateWithTime K M :=
  PrimitiveEquationsWithTime.implicitTerms eq s

def implicitInverse (inv : Nat → List (List K)) (s : StateWithTime K M) : StateWithTime K M :=
  PrimitiveEquationsWithTime.implicitInverse eq inv s

end MoistPrimitiveEquations

namespace MoistPrimitiveEquationsWithCloudMoisture
variable (eq : PrimitiveEquations K M N)

/-- `MoistPrimitiveEquationsWithCloudMoisture.explicit_terms` (inherited body, overridden
 `_virtual_temperature`) -/
def explicitTerms [BEq K] (s : StateWithTime K M) : Option (StateWithTime K M) :=
  MoistPrimitiveEquations.explicitTermsWith eq
    (MoistPrimitiveEquations.virtualTemperatureWithClouds eq) s

def implicitTerms (s : StateWithTime K M) : StateWithTime K M :=
  PrimitiveEquationsWithTime.implicitTerms eq s

def implicitInverse (inv : Nat → List (List K)) (s : StateWithTime K M) : StateWithTime K M :=
  PrimitiveEquationsWithTime.implicitInverse eq inv s

end MoistPrimitiveEquationsWithCloudMoisture
end Moist

/-! ## state arithmetic (`tree_math`): what "explicit + implicit" means -/
namespace State
variable {M : Type}

def zipTracers (f : List M → List M → List M) (a b : List (String × List M)) :
    List (String × List M) :=
  List.zipWith (fun x y => (x.1, f x.2 y.2)) a b

/-- `a + b` on states with the same tracer keys in the same order -/
def add [Add M] (a b : State M) : State M :=
  { vorticity := Col.add a.vorticity b.vorticity
    divergence := Col.add a.divergence b.divergence
    temperatureVariation := Col.add a.temperatureVariation b.temperatureVariation
    logSurfacePressure := a.logSurfacePressure + b.logSurfacePressure
    tracers := zipTracers Col.add a.tracers b.tracers }

/-- apply a map of modal level-fields to every leaf (the lift of a symmetry / scaling) -/
def mapLevels {M' : Type} (f : M → M') (s : State M) : State M' :=
  { vorticity := s.vorticity.map f
    divergence := s.divergence.map f
    temperatureVariation := s.temperatureVariation.map f
    logSurfacePressure := f s.logSurfacePressure
    tracers := mapTracers (fun x => x.map f) s.tracers }

end State

/-!
## extension points (for C05, C10, C11, C12, C20)

* **another equation set** (shallow water): a new structure holding an `HOps K M N` and its own
  parameters, written with `HOps.cosLatGrad/divCosLat/curlCosLat/cosLatVector/divSecLat` and the
  `Col.*` routines; nothing here needs to change.
* **a symmetry** `ρ` is a pair of maps `ρM : M → M`, `ρN : N → N`; its lift to states is
  `State.mapLevels ρM`; equivariance statements are hypotheses of the form
  `h.toNodal (ρM x) = ρN (h.toNodal x)` for each field of `HOps` (a `Prop` structure in the proof
  file), and the theorem is `explicitTerms (mapLevels ρM s) = mapLevels ρM (explicitTerms s)`.
* **a scaling action** (C12): a second `PrimitiveEquations` value whose `HOps`/`Phys` fields are the
  rescaled ones, plus `State.mapLevels (c • ·)` per field.
* **an invariant submodule** (C11): a predicate `P : M → Prop` with closure hypotheses for each
  operation of `HOps`; the theorem is by unfolding `explicitTerms` / `implicitTerms`.
* laws are never fields of `HOps`; see `Dino.Dynamics.Laws` in `DinoProofs/Lemmas/Dynamics.lean`.
-/
end Dino.Dynamics
