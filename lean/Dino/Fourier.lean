import Dino.Lin
/-!
# Real Fourier basis — executable model of `dinosaur/fourier.py`

`cos`, `sin`, `π` are external: the basis is built from tables `cs k = cos(2πk/N)`,
`sn k = sin(2πk/N)` (`k < N`) and the two norms `s2p = √(2π)`, `sp = √π`.
-/
namespace Dino.Fourier
open Dino.Lin
variable {K : Type} [Add K] [Sub K] [Mul K] [Div K] [Neg K] [Zero K] [One K] [NatCast K]

/-- the pairs `cos(j xᵢ)/√π, sin(j xᵢ)/√π` for `1 ≤ j < M` at node `i` -/
def pairs (cs sn : Nat → K) (sp : K) (M N i : Nat) : List K :=
  (List.range (M - 1)).flatMap fun jm =>
    [cs ((i * (jm + 1)) % N) / sp, sn ((i * (jm + 1)) % N) / sp]

/-- `real_basis(wavenumbers = M, nodes = N)`: `N × (2M-1)` -/
def realBasis (cs sn : Nat → K) (s2p sp : K) (M N : Nat) : List (List K) :=
  (List.range N).map fun i => (1 / s2p) :: pairs cs sn sp M N i

/-- `real_basis_with_zero_imag`: `N × 2M`, zero column at index 1 -/
def realBasisZeroImag (cs sn : Nat → K) (s2p sp : K) (M N : Nat) : List (List K) :=
  (List.range N).map fun i => (1 / s2p) :: 0 :: pairs cs sn sp M N i

/-- `real_basis_derivative` along the row axis of a modal array (rows `0, +1, -1, +2, -2, …`) -/
def realDerivative (x : List (List K)) (width : Nat) : List (List K) :=
  (List.range x.length).map fun i =>
    let j : K := (((i + 1) / 2 : Nat) : K)
    if i % 2 = 1 then scale j (x.getD (i + 1) (zerosN width))
    else if i = 0 then scale j (zerosN width)
    else scale j ((x.getD (i - 1) (zerosN width)).map fun v => -v)

/-- `real_basis_derivative_with_zero_imag` (rows `0, -0, +1, -1, …`), `offset` = `frequency_offset` -/
def zeroImagDerivative (x : List (List K)) (width : Nat) (offset : Nat := 0) : List (List K) :=
  (List.range x.length).map fun i =>
    let j : K := ((offset + i / 2 : Nat) : K)
    if (i + 1) % 2 = 1 then scale j (x.getD (i + 1) (zerosN width))
    else scale j ((x.getD (i - 1) (zerosN width)).map fun v => -v)

end Dino.Fourier
