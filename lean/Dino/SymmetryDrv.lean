import Dino.Symmetry
/-! Line-protocol operations for the symmetry model: `sym <F|Q> <op> args…` -/
namespace Dino.Symmetry
open Dino

variable (K : Type) [Num K] [NatCast K]

def tab (v : List K) : Nat → K := fun j => v.getD j 0

def runK : List String → Option String
  | ["rotreal", n, k, cs, sn, x] => do
      let n ← n.toNat?; let k ← k.toNat?
      let cs ← parseVec? (K := K) cs; let sn ← parseVec? (K := K) sn; let x ← parseMat? (K := K) x
      pure (renderMat (rotReal (tab K cs) (tab K sn) n k x))
  | ["rotfast", m, n, k, cs, sn, x] => do
      let m ← m.toNat?; let n ← n.toNat?; let k ← k.toNat?
      let cs ← parseVec? (K := K) cs; let sn ← parseVec? (K := K) sn; let x ← parseMat? (K := K) x
      pure (renderMat (rotFast (tab K cs) (tab K sn) m n k x))
  | ["roll", k, z] => do
      let k ← k.toNat?; let z ← parseMat? (K := K) z
      pure (renderMat (roll k z))
  | ["flip", z] => do
      let z ← parseMat? (K := K) z
      pure (renderMat (flipLat z))
  | ["mirror", ms, ls, x] => do
      let ms ← parseNatVec? ms; let ls ← parseNatVec? ls; let x ← parseMat? (K := K) x
      pure (renderMat (mirrorModal (fun r => ms.getD r 0) (fun l => ls.getD l 0) x))
  | ["d1", a, b, x] => do
      let a ← parseMat? (K := K) a; let b ← parseMat? (K := K) b; let x ← parseMat? (K := K) x
      pure (renderMat (cosLatDDlat a b x))
  | ["d2", a, b, x] => do
      let a ← parseMat? (K := K) a; let b ← parseMat? (K := K) b; let x ← parseMat? (K := K) x
      pure (renderMat (secLatDDlatCos2 a b x))
  | ["lmul", c, x] => do
      let c ← parseVec? (K := K) c; let x ← parseMat? (K := K) x
      pure (renderMat (lMul c x))
  | ["legrow", nl, m, x] => do
      let nl ← nl.toNat?; let m ← m.toNat?; let x ← Num.parse? (K := K) x
      pure (renderVec (Legendre.row Num.sqrt nl x m))
  | ["realderiv", w, x] => do
      let w ← w.toNat?; let x ← parseMat? (K := K) x
      pure (renderMat (Fourier.realDerivative x w))
  | ["fastderiv", w, x] => do
      let w ← w.toNat?; let x ← parseMat? (K := K) x
      pure (renderMat (Fourier.zeroImagDerivative x w))
  | _ => none

def run : List String → Option String
  | "F" :: rest => runK Float rest
  | "Q" :: rest => runK Rat rest
  | _ => none

end Dino.Symmetry
