import Dino.SH
/-!
# The re-indexing `ι` between the two spherical-harmonic layouts — model of the layout-dependent
parts of `dinosaur/spherical_harmonic.py`

`RealSphericalHarmonics` stores modal arrays with rows `m = 0, +1, -1, …` (`2M-1` rows, `L`
columns); `FastSphericalHarmonics` uses rows `+0, -0, +1, -1, …` (`2M` rows), padded with zero rows
and columns to `modal_shape`, and pads nodal arrays to `nodal_shape`.

* `roundToMultiple`, `fastModalShape`, `fastNodalShape`, paddings, `defaultStacked`
  mirror `_round_to_multiple`, `modal_shape`, `nodal_shape`, `modal_padding`, `nodal_padding` and
  the defaults chosen by `FastSphericalHarmonics.__post_init__`;
* `iota` / `unIota` (modal) and `padNodal` / `unpadNodal` (nodal) are the re-indexings;
* `realBasisOf` / `fastBasisOf` mirror the two `basis` properties (`np.repeat(p,2)[1:]` resp.
  the three `np.pad` calls);
* `laplacian`, `inverseLaplacian`, `clipWavenumbers` mirror the `Grid` methods; they are index-wise
  operations parameterised by the layout (`L`, column padding);
* `recurrenceWeights`, `cosLatDDlat`, `secLatDDlatCos2` mirror `_derivative_recurrence_weights`
  (including `a[:, 0] = 0`, `b[:, -1] = 0` — the *last column of the layout*), and the two
  latitude-derivative methods built on `jax_numpy_utils.shift`;
* `realWeights` / `fastWeights`, `real…` / `fast…` `CosLatDDlat`, `SecLatDDlatCos2`, `CosLatGrad`,
  `DivCosLat`, `CurlCosLat`, `kCross` mirror the `Grid` methods over the respective implementation
  (`clip` = the `clip` argument; `clip1` = `clip_wavenumbers` with its default `n = 1`).
-/
namespace Dino.SHEquiv
open Dino.Lin Dino.SH
variable {K : Type} [Add K] [Sub K] [Mul K] [Div K] [Neg K] [Zero K] [One K] [NatCast K]

/-! ### shapes -/

/-- `_round_to_multiple(x, multiple) = multiple * ceil(x / multiple)` (for `multiple ≥ 1`) -/
def roundToMultiple (x m : Nat) : Nat := m * ((x + m - 1) / m)

/-- `self.base_shape_multiple or 1` -/
def baseOf (base : Nat) : Nat := if base = 0 then 1 else base

/-- `FastSphericalHarmonics.modal_shape` (`xs`, `ys` are the mesh sizes, `1` without a mesh) -/
def fastModalShape (M L base : Nat) (xs : Nat := 1) (ys : Nat := 1) : Nat × Nat :=
  (roundToMultiple (2 * M) (2 * baseOf base * xs), roundToMultiple L (baseOf base * ys))

/-- `FastSphericalHarmonics.nodal_shape` -/
def fastNodalShape (N J base : Nat) (xs : Nat := 1) (ys : Nat := 1) : Nat × Nat :=
  (roundToMultiple N (baseOf base * xs), roundToMultiple J (baseOf base * ys))

/-- `modal_padding = modal_shape - modal_limits` -/
def fastModalPadding (M L base : Nat) (xs : Nat := 1) (ys : Nat := 1) : Nat × Nat :=
  ((fastModalShape M L base xs ys).1 - 2 * M, (fastModalShape M L base xs ys).2 - L)

def fastNodalPadding (N J base : Nat) (xs : Nat := 1) (ys : Nat := 1) : Nat × Nat :=
  ((fastNodalShape N J base xs ys).1 - N, (fastNodalShape N J base xs ys).2 - J)

/-- `math.ceil(a / b)` for positive `b` -/
def ceilDiv (a b : Nat) : Nat := (a + b - 1) / b

/-- default of `stacked_fourier_transforms` in `__post_init__` -/
def defaultStacked (M : Nat) : Bool := decide (2 * ceilDiv M 256 ≤ ceilDiv M 128)

/-- `RealSphericalHarmonics.modal_shape` (as the code computes it, `2M - 1` in ℤ) -/
def realModalShape (M L : Nat) : Int × Nat := (2 * (M : Int) - 1, L)

/-! ### the re-indexing -/

/-- `np.pad(v, [(0, n)])` -/
def padRight (n : Nat) (v : List K) : List K := v ++ zerosN n

/-- real layout → fast layout: zero row inserted at index 1, `padRows` zero rows appended, every
 row padded by `padCols` zeros.  `L` is the width of the rows of `x`. -/
def iota (L padRows padCols : Nat) (x : List (List K)) : List (List K) :=
  match x with
  | [] => []
  | r0 :: rest =>
    (padRight padCols r0 :: zerosN (L + padCols) :: rest.map (padRight padCols))
      ++ List.replicate padRows (zerosN (L + padCols))

/-- remove the entry at index 1 -/
def dropRow1 {α : Type} : List α → List α
  | a :: _ :: t => a :: t
  | l => l

/-- fast layout → real layout: `y[:2M, :L]` with row 1 removed (`twoM = 2M`) -/
def unIota {α : Type} (twoM L : Nat) (y : List (List α)) : List (List α) :=
  (dropRow1 (y.take twoM)).map (List.take L)

/-- the same re-indexing for arrays of any entry type with an explicit filler (masks: `false`) -/
def iotaWith {α : Type} (fill : α) (L padRows padCols : Nat) (x : List (List α)) : List (List α) :=
  match x with
  | [] => []
  | r0 :: rest =>
    ((r0 ++ List.replicate padCols fill) :: List.replicate (L + padCols) fill
        :: rest.map (· ++ List.replicate padCols fill))
      ++ List.replicate padRows (List.replicate (L + padCols) fill)

/-- the re-indexing of the row axis alone (`modal_axes[0]`) -/
def iotaAxis {α : Type} (fill : α) (padRows : Nat) : List α → List α
  | [] => []
  | a :: t => a :: fill :: t ++ List.replicate padRows fill

/-- nodal arrays: `padLon` zero rows, `padLat` zero columns (`J` = width of the rows of `z`) -/
def padNodal (padLon padLat J : Nat) (z : List (List K)) : List (List K) :=
  z.map (padRight padLat) ++ List.replicate padLon (zerosN (J + padLat))

def unpadNodal {α : Type} (N J : Nat) (z : List (List α)) : List (List α) :=
  (z.take N).map (List.take J)

/-! ### the two `basis` properties -/

/-- `RealSphericalHarmonics.basis`: `p = np.repeat(p, 2, axis=0)[1:]` -/
def realBasisOf (f : List (List K)) (P : List (List (List K))) (w : List K) : Basis K :=
  ⟨f, (dup P).tail, w⟩

/-- `FastSphericalHarmonics.basis` (unstacked `f`; the stacked one is its Fortran-order reshape,
 i.e. `f.map evens`, `f.map odds`): `f` padded by `(padLon, padRows)`, `p` by
 `(padRows / 2, padLat, padCols)`, `w` by `padLat`.  `twoM, J, L` are the unpadded widths. -/
def fastBasisOf (fz : List (List K)) (P : List (List (List K))) (w : List K)
    (padLon padRows padLat padCols twoM J L : Nat) : Basis K :=
  ⟨fz.map (padRight padRows) ++ List.replicate padLon (zerosN (twoM + padRows)),
   P.map (fun pm => pm.map (padRight padCols) ++ List.replicate padLat (zerosN (L + padCols)))
     ++ List.replicate (padRows / 2) (List.replicate (J + padLat) (zerosN (L + padCols))),
   padRight padLat w⟩

/-! ### index-wise `Grid` operations, parameterised by the layout -/

/-- `laplacian_eigenvalues = -l * (l + 1) / radius**2` over `modal_axes[1]` -/
def lapEig (r2 : K) (ls : List Nat) : List K :=
  ls.map fun (l : Nat) => -((l : K) * ((l : K) + 1)) / r2

/-- multiplication of every row by a vector along the last axis: `x * v` -/
def mulLast (x : List (List K)) (v : List K) : List (List K) :=
  x.map fun row => List.zipWith (· * ·) row v

/-- `Grid.laplacian` -/
def laplacian (r2 : K) (L padCols : Nat) (x : List (List K)) : List (List K) :=
  mulLast x (lapEig r2 (lvals L padCols))

/-- `1 / eigenvalues` with `[0] = 0` and `[total_wavenumbers:] = 0` -/
def invEig (r2 : K) (L padCols : Nat) : List K :=
  (List.zipIdx (lapEig r2 (lvals L padCols))).map fun (e, j) =>
    if j = 0 ∨ L ≤ j then 0 else 1 / e

/-- `Grid.inverse_laplacian` -/
def inverseLaplacian (r2 : K) (L padCols : Nat) (x : List (List K)) : List (List K) :=
  mulLast x (invEig r2 L padCols)

/-- `jnp.ones(width).at[-num_zeros:].set(0)` -/
def clipMask (width numZeros : Nat) : List K :=
  (List.range width).map fun j => if j < width - numZeros then 1 else 0

/-- `Grid.clip_wavenumbers(x, n)`; `none` is the `ValueError` for `n ≤ 0` -/
def clipWavenumbers (L padCols : Nat) (n : Int) (x : List (List K)) : Option (List (List K)) :=
  if n ≤ 0 then none else some (mulLast x (clipMask (L + padCols) (n.toNat + padCols)))

/-! ### the tuning options of `FastSphericalHarmonics`

`reverse_einsum_arg_order` makes every contraction call `einsum(…, rhs, lhs)`: in exact arithmetic
every product is taken with its operands swapped (`…R` variants below).
`stacked_fourier_transforms` selects the `'ism,…smj->…ij'` contraction against the reshaped `f`.
`transform_precision` is a hint to XLA and does not occur in exact arithmetic; it is carried along
so that statements can quantify over the whole option record. -/

def scaleR (c : K) (v : List K) : List K := v.map (· * c)

def vecMatR : List K → List (List K) → Nat → List K
  | c :: cs, r :: rs, n => vadd (scaleR c r) (vecMatR cs rs n)
  | _, _, n => zerosN n

def matMulR (a b : List (List K)) (n : Nat) : List (List K) := a.map fun row => vecMatR row b n

def invLegendreR (prow : List (List (List K))) (x : List (List K)) : List (List K) :=
  List.zipWith (fun pm xm => pm.map fun pj => dotv xm pj) prow x

def fwdFourierR (f wx : List (List K)) (nrows nlat : Nat) : List (List K) :=
  (transposeM f nrows).map fun c => vecMatR c wx nlat

def fwdLegendreR (prow : List (List (List K))) (fwx : List (List K)) (nl : Nat) : List (List K) :=
  List.zipWith (fun pm vm => vecMatR vm pm nl) prow fwx

structure Opts where
  stacked : Bool
  reverse : Bool
  precision : String := "tensorfloat32"

/-- `FastSphericalHarmonics.inverse_transform` under an option record -/
def fastSynthOpt (o : Opts) (b : Basis K) (nlat : Nat) (x : List (List K)) : List (List K) :=
  let il := if o.reverse then invLegendreR else invLegendre
  let mm := if o.reverse then matMulR else matMul
  let px0 := il b.p (evens x)
  let px1 := il b.p (odds x)
  if o.stacked then
    List.zipWith vadd (mm (b.f.map evens) px0 nlat) (mm (b.f.map odds) px1 nlat)
  else mm b.f (stackM px0 px1) nlat

/-- `FastSphericalHarmonics.transform` under an option record -/
def fastAnalysisOpt (o : Opts) (b : Basis K) (nrows nlat nl : Nat) (z : List (List K)) :
    List (List K) :=
  let ff := if o.reverse then fwdFourierR else fwdFourier
  let fl := if o.reverse then fwdLegendreR else fwdLegendre
  let wx := weight b.w z
  if o.stacked then
    let h := nrows / 2
    stackM (fl b.p (ff (b.f.map evens) wx h nlat) nl) (fl b.p (ff (b.f.map odds) wx h nlat) nl)
  else
    let fwx := ff b.f wx nrows nlat
    stackM (fl b.p (evens fwx) nl) (fl b.p (odds fwx) nl)

/-! ### latitude derivatives (`sqrt` external) -/

/-- `jax_numpy_utils.shift(v, -1)`: `out[l] = v[l+1]`, zero at the end -/
def shiftLeft (v : List K) : List K :=
  match v with
  | [] => []
  | _ :: t => t ++ [0]

/-- `jax_numpy_utils.shift(v, +1)`: `out[l] = v[l-1]`, zero at the start -/
def shiftRight (v : List K) : List K :=
  match v with
  | [] => []
  | _ :: _ => 0 :: v.dropLast

def boolK (b : Bool) : K := if b then 1 else 0

/-- `_derivative_recurrence_weights`: the tables `a`, `b` for a layout given by its `m` values,
 `l` values and mask.  `a[:, 0] = 0`; `b[:, -1] = 0` (last column *of the layout*). -/
def recurrenceWeights (sqrt : K → K) (ms : List Int) (ls : List Nat) (mask : List (List Bool)) :
    List (List K) × List (List K) :=
  let width := ls.length
  let a := List.zipWith (fun (m : Int) (mrow : List Bool) =>
      (List.zipIdx (List.zip ls mrow)).map fun ((l, mk), j) =>
        if j = 0 then 0 else
        sqrt (boolK mk * (((l : K) * (l : K)) - ((m.natAbs : K) * (m.natAbs : K)))
          / ((1 + 1) * (1 + 1) * ((l : K) * (l : K)) - 1))) ms mask
  let b := List.zipWith (fun (m : Int) (mrow : List Bool) =>
      (List.zipIdx (List.zip ls mrow)).map fun ((l, mk), j) =>
        if j + 1 = width then 0 else
        sqrt (boolK mk * ((((l : K) + 1) * ((l : K) + 1)) - ((m.natAbs : K) * (m.natAbs : K)))
          / ((1 + 1) * (1 + 1) * (((l : K) + 1) * ((l : K) + 1)) - 1))) ms mask
  (a, b)

/-- the shared shape of `cos_lat_d_dlat` / `sec_lat_d_dlat_cos2`:
 `shift((cl ⊙ a) ⊙ x, -1) + shift((cr ⊙ b) ⊙ x, +1)` with per-column factors `cl`, `cr` -/
def dDlatWith (cl cr : List K) (a b x : List (List K)) : List (List K) :=
  List.zipWith (fun (ab : List K × List K) (row : List K) =>
      vadd (shiftLeft (List.zipWith (· * ·) (List.zipWith (· * ·) cl ab.1) row))
           (shiftRight (List.zipWith (· * ·) (List.zipWith (· * ·) cr ab.2) row)))
    (List.zip a b) x

/-- `Grid.cos_lat_d_dlat`: factors `(l + 1)` and `-l` -/
def cosLatDDlat (ls : List Nat) (a b x : List (List K)) : List (List K) :=
  dDlatWith (ls.map fun (l : Nat) => (l : K) + 1) (ls.map fun (l : Nat) => -(l : K)) a b x

/-- `Grid.sec_lat_d_dlat_cos2`: factors `(l - 1)` and `-(l + 2)` -/
def secLatDDlatCos2 (ls : List Nat) (a b x : List (List K)) : List (List K) :=
  dDlatWith (ls.map fun (l : Nat) => (l : K) - 1) (ls.map fun (l : Nat) => -((l : K) + (1 + 1))) a b x

/-! ### the `Grid` methods built on the latitude derivatives, per layout

`realWeights` / `fastWeights` are `_derivative_recurrence_weights` of a `Grid` over the respective
implementation (`modal_mesh` and `mask` of that layout).  The composites follow the code line by line:
`raw = …/radius`, then `clip_wavenumbers(raw)` (`n = 1`, which never raises) when `clip`. -/

def realWeights (sqrt : K → K) (M L : Nat) : List (List K) × List (List K) :=
  recurrenceWeights sqrt (realMvals M) (lvals L 0) (realMask M L)

def fastWeights (sqrt : K → K) (M L pr pc : Nat) : List (List K) × List (List K) :=
  recurrenceWeights sqrt (fastMvals M pr) (lvals L pc) (fastMask M L pr pc)

def realCosLatDDlat (sqrt : K → K) (M L : Nat) (x : List (List K)) : List (List K) :=
  cosLatDDlat (lvals L 0) (realWeights sqrt M L).1 (realWeights sqrt M L).2 x

def fastCosLatDDlat (sqrt : K → K) (M L pr pc : Nat) (x : List (List K)) : List (List K) :=
  cosLatDDlat (lvals L pc) (fastWeights sqrt M L pr pc).1 (fastWeights sqrt M L pr pc).2 x

def realSecLatDDlatCos2 (sqrt : K → K) (M L : Nat) (x : List (List K)) : List (List K) :=
  secLatDDlatCos2 (lvals L 0) (realWeights sqrt M L).1 (realWeights sqrt M L).2 x

def fastSecLatDDlatCos2 (sqrt : K → K) (M L pr pc : Nat) (x : List (List K)) : List (List K) :=
  secLatDDlatCos2 (lvals L pc) (fastWeights sqrt M L pr pc).1 (fastWeights sqrt M L pr pc).2 x

/-- `x / radius` -/
def divAll (x : List (List K)) (r : K) : List (List K) := x.map fun row => row.map (· / r)

def madd (a b : List (List K)) : List (List K) := List.zipWith vadd a b

def msub (a b : List (List K)) : List (List K) := List.zipWith (List.zipWith (· - ·)) a b

def mneg (a : List (List K)) : List (List K) := a.map fun row => row.map fun v => -v

/-- `clip_wavenumbers(x)` with the default `n = 1` -/
def clip1 (L padCols : Nat) (x : List (List K)) : List (List K) :=
  mulLast x (clipMask (L + padCols) (1 + padCols))

def clipIf (clip : Bool) (L padCols : Nat) (x : List (List K)) : List (List K) :=
  if clip then clip1 L padCols x else x

/-- `Grid.cos_lat_grad` over `RealSphericalHarmonics` -/
def realCosLatGrad (sqrt : K → K) (M L : Nat) (r : K) (clip : Bool) (x : List (List K)) :
    List (List K) × List (List K) :=
  (clipIf clip L 0 (divAll (Fourier.realDerivative x L) r),
   clipIf clip L 0 (divAll (realCosLatDDlat sqrt M L x) r))

/-- `Grid.cos_lat_grad` over `FastSphericalHarmonics` -/
def fastCosLatGrad (sqrt : K → K) (M L pr pc : Nat) (r : K) (clip : Bool) (x : List (List K)) :
    List (List K) × List (List K) :=
  (clipIf clip L pc (divAll (Fourier.zeroImagDerivative x (L + pc) 0) r),
   clipIf clip L pc (divAll (fastCosLatDDlat sqrt M L pr pc x) r))

/-- `Grid.div_cos_lat((u, v))`: `(d_dlon(u) + sec_lat_d_dlat_cos2(v)) / radius` -/
def realDivCosLat (sqrt : K → K) (M L : Nat) (r : K) (clip : Bool) (u v : List (List K)) :
    List (List K) :=
  clipIf clip L 0 (divAll (madd (Fourier.realDerivative u L) (realSecLatDDlatCos2 sqrt M L v)) r)

def fastDivCosLat (sqrt : K → K) (M L pr pc : Nat) (r : K) (clip : Bool) (u v : List (List K)) :
    List (List K) :=
  clipIf clip L pc
    (divAll (madd (Fourier.zeroImagDerivative u (L + pc) 0) (fastSecLatDDlatCos2 sqrt M L pr pc v)) r)

/-- `Grid.curl_cos_lat((u, v))`: `(d_dlon(v) - sec_lat_d_dlat_cos2(u)) / radius` -/
def realCurlCosLat (sqrt : K → K) (M L : Nat) (r : K) (clip : Bool) (u v : List (List K)) :
    List (List K) :=
  clipIf clip L 0 (divAll (msub (Fourier.realDerivative v L) (realSecLatDDlatCos2 sqrt M L u)) r)

def fastCurlCosLat (sqrt : K → K) (M L pr pc : Nat) (r : K) (clip : Bool) (u v : List (List K)) :
    List (List K) :=
  clipIf clip L pc
    (divAll (msub (Fourier.zeroImagDerivative v (L + pc) 0) (fastSecLatDDlatCos2 sqrt M L pr pc u)) r)

/-- `Grid.k_cross((u, v)) = (-v, u)` (layout independent) -/
def kCross (u v : List (List K)) : List (List K) × List (List K) := (mneg v, u)

/-! `Grid.integrate` is `Dino.SH.integrate` (layout independent: `einsum('y,…xy->…', w·r², z)`). -/

end Dino.SHEquiv
