import Dino.Grid
/-!
# Certificates for Hyp-A / Hyp-B of the wind round trip on live grids (C02, T2.6)

A `GCert` carries every array that enters `vor_div_to_uv_nodal` / `uv_nodal_to_vor_div_modal` of one live
`spherical_harmonic.Grid` — radius, the derivative recurrence weights `a`, `b`
(`Grid._derivative_recurrence_weights`), the basis arrays `f`, `p`, `w` of its transform implementation and
`cos_lat` — as **integers with one common binary exponent per array** (every IEEE double is `k·2^-e`).
They are generated on every run by `harness/props/c02_gridcert.py` into `DinoGen/GridCert.lean`.

`hypOk cl δ` evaluates, in exact rational arithmetic, the model's own operators (`cosLatGradW`, `shTransforms`,
`divCols`, `divCosLatW`, `curlCosLatW`, `laplacian`) on **every unit field of `Dino.C02.Dom ly (topEmpty cl)`** and
tests that below the top wavenumber the Hyp-A residual `div(S(grad E)) − ∇²E` and the Hyp-B residual
`curl(S(grad E))` are bounded entry-wise by `δ·max|∇²E|`.  What `hypOk … = true` means for *all* fields of
`Dom` is proved in `DinoProofs/Properties/C02.lean` (`roundtrip_of_gcert`).
-/
namespace Dino.Grid
open Dino.Lin Dino.SH

/-- `n · 2^-e` -/
def dy (e : Nat) (n : Int) : Rat := (n : Rat) / ((2 ^ e : Nat) : Rat)

structure GCert where
  ly : Layout
  /-- nodal shape -/
  N : Nat
  J : Nat
  /-- radius -/
  rn : Int
  re : Nat
  /-- `Grid._derivative_recurrence_weights` -/
  a : List (List Int)
  ea : Nat
  b : List (List Int)
  eb : Nat
  /-- `basis.f` (unstacked), `basis.p`, `basis.w` -/
  f : List (List Int)
  ef : Nat
  p : List (List (List Int))
  ep : Nat
  w : List Int
  ew : Nat
  /-- `Grid.cos_lat` -/
  cosl : List Int
  ec : Nat

namespace GCert

def r (c : GCert) : Rat := dy c.re c.rn
def aQ (c : GCert) : List (List Rat) := c.a.map fun row => row.map (dy c.ea)
def bQ (c : GCert) : List (List Rat) := c.b.map fun row => row.map (dy c.eb)
def basis (c : GCert) : Basis Rat :=
  ⟨c.f.map fun row => row.map (dy c.ef), c.p.map fun t => t.map fun row => row.map (dy c.ep), c.w.map (dy c.ew)⟩
def coslQ (c : GCert) : List Rat := c.cosl.map (dy c.ec)
/-- `to_nodal` / `to_modal` of the grid: the model's transforms on the live basis arrays -/
def T (c : GCert) : Transforms Rat := shTransforms c.ly c.basis

/-- `to_modal((to_nodal(X) / cos θ) / cos θ)` (= `Dino.C02.sandwich c.T c.coslQ`) -/
def sand (c : GCert) (X : List (List Rat)) : List (List Rat) :=
  c.T.toModal (divCols (divCols (c.T.toNodal X) c.coslQ) c.coslQ)

/-- `div(S(cos_lat_grad ψ))` (= `Dino.C02.divSGrad`) -/
def divS (c : GCert) (cl : Bool) (ψ : List (List Rat)) : List (List Rat) :=
  divCosLatW c.ly c.r c.aQ c.bQ (c.sand (cosLatGradW c.ly c.r c.aQ c.bQ ψ cl).1,
    c.sand (cosLatGradW c.ly c.r c.aQ c.bQ ψ cl).2) cl

/-- `curl(S(cos_lat_grad ψ))` (= `Dino.C02.curlSGrad`) -/
def curlS (c : GCert) (cl : Bool) (ψ : List (List Rat)) : List (List Rat) :=
  curlCosLatW c.ly c.r c.aQ c.bQ (c.sand (cosLatGradW c.ly c.r c.aQ c.bQ ψ cl).1,
    c.sand (cosLatGradW c.ly c.r c.aQ c.bQ ψ cl).2) cl

/-- the unit array `E_{ij}` (= `Dino.Grid.unitM` at `ℚ`) -/
def unitQ (R C i j : Nat) : List (List Rat) :=
  (List.range R).map fun a => (List.range C).map fun b => if a = i ∧ b = j then 1 else 0

/-- entry `(i, j)` (= `Dino.Lin.ent2`) -/
def at2 (x : List (List Rat)) (i j : Nat) : Rat := (x.getD i []).getD j 0

def absQ (x : Rat) : Rat := if x < 0 then -x else x

/-- `−t ≤ v ≤ t` -/
def within (t v : Rat) : Bool := decide (-t ≤ v) && decide (v ≤ t)

/-- shapes of every array, radius and `cos θ_j` non-zero -/
def shapeOk (c : GCert) : Bool :=
  decide (c.rn ≠ 0)
    && decide (c.a.length = c.ly.rows) && c.a.all (fun row => decide (row.length = c.ly.cols))
    && decide (c.b.length = c.ly.rows) && c.b.all (fun row => decide (row.length = c.ly.cols))
    && decide (c.f.length = c.N) && c.f.all (fun row => decide (row.length = c.ly.rows))
    && decide (c.p.length = if c.ly.fast then c.ly.rows / 2 else c.ly.rows)
    && (!c.ly.fast || decide (c.ly.rows % 2 = 0))
    && c.p.all (fun t => decide (t.length = c.J) && t.all fun row => decide (row.length = c.ly.cols))
    && decide (c.w.length = c.J) && decide (c.cosl.length = c.J) && c.cosl.all (fun n => decide (n ≠ 0))

/-- the unit fields of `Dom ly k`: masked entries with `1 ≤ l < L − k` -/
def inDom (ly : Layout) (k i j : Nat) : Bool := decide (0 < j) && decide (j + k < ly.L) && ly.maskAt i j

/-- Hyp-A and Hyp-B residuals of the unit field `E_{ij}` below the top wavenumber, relative to
 `|∇²E_{ij}|[i][j]` (the only non-zero entry of `∇²E_{ij}`) -/
def unitOk (c : GCert) (cl : Bool) (δ : Rat) (i j : Nat) : Bool :=
  let E := unitQ c.ly.rows c.ly.cols i j
  let lap := laplacian c.ly c.r E
  let t := δ * absQ (at2 lap i j)
  let A := msub (c.divS cl E) lap
  let B := c.curlS cl E
  (List.range c.ly.rows).all fun p => (List.range (c.ly.L - 1)).all fun q =>
    within t (at2 A p q) && within t (at2 B p q)

/-- the unit fields of modal row `i` -/
def rowOk (c : GCert) (cl : Bool) (δ : Rat) (i : Nat) : Bool :=
  (List.range c.ly.cols).all fun j => !(inDom c.ly (if cl then 2 else 1) i j) || c.unitOk cl δ i j

/-- all unit fields of `Dom ly (if cl then 2 else 1)` -/
def hypOk (c : GCert) (cl : Bool) (δ : Rat) : Bool :=
  (List.range c.ly.rows).all fun i => c.rowOk cl δ i

/-- `hypOk` from one certificate per modal row (the generated modules check the rows separately) -/
theorem hypOk_of_rows (c : GCert) (cl : Bool) (δ : Rat) (n : Nat) (hn : c.ly.rows = n)
    (h : ∀ i, i < n → c.rowOk cl δ i = true) : c.hypOk cl δ = true := by
  unfold hypOk
  rw [List.all_eq_true]
  intro i hi
  exact h i (by rw [← hn]; exact List.mem_range.mp hi)

/-- number of unit fields of the domain (non-vacuity of `hypOk`) -/
def domCount (c : GCert) (cl : Bool) : Nat :=
  ((List.range c.ly.rows).map fun i =>
    ((List.range c.ly.cols).filter fun j => inDom c.ly (if cl then 2 else 1) i j).length).sum

/-- largest relative residual over the unit fields (diagnostic, used by `#eval` only) -/
def maxRes (c : GCert) (cl : Bool) : Rat :=
  ((List.range c.ly.rows).flatMap fun i => (List.range c.ly.cols).flatMap fun j =>
    if inDom c.ly (if cl then 2 else 1) i j then
      let E := unitQ c.ly.rows c.ly.cols i j
      let lap := laplacian c.ly c.r E
      let s := absQ (at2 lap i j)
      let A := msub (c.divS cl E) lap
      let B := c.curlS cl E
      (List.range c.ly.rows).flatMap fun p => (List.range (c.ly.L - 1)).flatMap fun q =>
        [absQ (at2 A p q) / s, absQ (at2 B p q) / s]
    else []).foldl (fun m v => if m < v then v else m) 0

end GCert
end Dino.Grid
