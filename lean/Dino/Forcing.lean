/-!
# Physical forcings — executable model (core Lean only)

Mirrors `dinosaur/radiation.py` (`get_direct_solar_irradiance`, `get_declination`,
`equation_of_time`, `get_hour_angle`, `get_solar_sin_altitude`, `get_radiation_flux`,
`get_normalized_radiation_flux`, `SolarRadiation.time_to_orbital_time`,
`SolarRadiation.radiation_flux`, `SolarRadiation.normalized`) and `dinosaur/held_suarez.py`
(`HeldSuarezForcing.kv`, `kt`, `equilibrium_temperature`, `explicit_terms`).

* The scalar `K` is constrained by core classes only; `sin`, `cos`, `exp`, `log`, `pow`, `floor`
  and `pi` are external (`Transc K`): `Float.sin … Float.floor` in the driver, the real functions
  of Mathlib in the proofs.  The order is a core `LT` instance with decidable `<`.
* Every formula is a scalar kernel (one longitude/latitude/level); the array functions of the
  source are `List.map` / `List.zipWith` of the kernels (numpy broadcasting over points).
* The module constants `MINUTES_PER_DAY`, `PERIHELION`, `SPRING_EQUINOX`,
  `EARTH_AXIS_INCLINATION` and the three literals of `equation_of_time` are inputs
  (`OrbitConsts`); the harmonics `2*b`, `b`, `b` inside `equation_of_time` are written as in the
  source.
* Horizontal transforms (`to_modal`, `to_nodal`, `curl_cos_lat`, `div_cos_lat` and the
  vorticity/divergence → wind part of `compute_diagnostic_state`) are external: a record of
  operations `Horiz K` without laws (laws are hypotheses of the theorems that need them).
-/
namespace Dino.Forcing

/-- external scalar functions (`jnp.sin`, `jnp.cos`, `jnp.exp`, `jnp.log`, `**`, `//`'s floor,
 `jnp.pi`) -/
class Transc (K : Type) where
  sin : K → K
  cos : K → K
  exp : K → K
  log : K → K
  pow : K → K → K
  floor : K → K
  pi : K

variable {K : Type} [Add K] [Sub K] [Mul K] [Div K] [Neg K] [Zero K] [One K]

/-- the literal `2` -/
def two : K := 1 + 1

/-- `x ** n` for an integer literal `n ≥ 0` -/
def powN (x : K) : Nat → K
  | 0 => 1
  | n + 1 => powN x n * x

/-- a boolean array entering a product (`flux * is_daytime * …`) -/
def ind (b : Bool) : K := if b then 1 else 0

/-- module constants of `radiation.py` and the literals of `equation_of_time` -/
structure OrbitConsts (K : Type) where
  minutesPerDay : K
  perihelion : K
  springEquinox : K
  axisInclination : K
  eotA : K
  eotB : K
  eotC : K

/-! ## radiation -/

section radiation
variable [Transc K]

/-- `get_direct_solar_irradiance`: `mean_irradiance + variation * cos(orbital_phase - perihelion)` -/
def irradiance (o mean var peri : K) : K := mean + var * Transc.cos (o - peri)

/-- `get_declination`: `EARTH_AXIS_INCLINATION * sin(orbital_phase - SPRING_EQUINOX)` -/
def declination (c : OrbitConsts K) (o : K) : K :=
  c.axisInclination * Transc.sin (o - c.springEquinox)

/-- `equation_of_time`:
 `b = orbital_phase - SPRING_EQUINOX`,
 `added_minutes = 9.87 * sin(2 * b) - 7.53 * cos(b) - 1.5 * sin(b)`,
 `2 * pi * added_minutes / MINUTES_PER_DAY` -/
def equationOfTime (c : OrbitConsts K) (o : K) : K :=
  let b := o - c.springEquinox
  let addedMinutes := c.eotA * Transc.sin (two * b) - c.eotB * Transc.cos b - c.eotC * Transc.sin b
  two * Transc.pi * addedMinutes / c.minutesPerDay

/-- `get_hour_angle`: `synodic_phase + equation_of_time(orbital_phase) + longitude - pi` -/
def hourAngle (c : OrbitConsts K) (o s lon : K) : K :=
  s + equationOfTime c o + lon - Transc.pi

/-- the formula of `get_solar_sin_altitude` in terms of latitude, declination and hour angle:
 `cos(lat) * cos(decl) * cos(h) + sin(lat) * sin(decl)` -/
def sinAltitudeOf (lat decl h : K) : K :=
  Transc.cos lat * Transc.cos decl * Transc.cos h + Transc.sin lat * Transc.sin decl

/-- `get_solar_sin_altitude` -/
def solarSinAltitude (c : OrbitConsts K) (o s lon lat : K) : K :=
  sinAltitudeOf lat (declination c o) (hourAngle c o s lon)

variable [LT K] [DecidableLT K]

/-- `get_radiation_flux` at one point: `flux * is_daytime * sin_altitude` with
 `is_daytime = sin_altitude > 0` and the irradiance at the module's `PERIHELION` -/
def flux (c : OrbitConsts K) (o s mean var lon lat : K) : K :=
  let sinAltitude := solarSinAltitude c o s lon lat
  irradiance o mean var c.perihelion * ind (decide (0 < sinAltitude)) * sinAltitude

/-- `get_normalized_radiation_flux` (and `SolarRadiation.normalized`): the flux with
 `mean / scale`, `variation / scale`, `scale = mean + variation` -/
def normalizedFlux (c : OrbitConsts K) (o s mean var lon lat : K) : K :=
  let scale := mean + var
  flux c o s (mean / scale) (var / scale) lon lat

/-- one component of `SolarRadiation.time_to_orbital_time`:
 `x -= x // (2 * pi) * (2 * pi)` -/
def wrapPhase (x : K) : K :=
  x - Transc.floor (x / (two * Transc.pi)) * (two * Transc.pi)

/-- `SolarRadiation.time_to_orbital_time`: `reference_orbital_time + orbital_rate * time`, wrapped;
 result `(orbital_phase, synodic_phase)` -/
def timeToOrbital (refO refS rateO rateS t : K) : K × K :=
  (wrapPhase (refO + rateO * t), wrapPhase (refS + rateS * t))

/-- `SolarRadiation.radiation_flux(time)` at one grid point -/
def fluxAtTime (c : OrbitConsts K) (refO refS rateO rateS t mean var lon lat : K) : K :=
  let now := timeToOrbital refO refS rateO rateS t
  flux c now.1 now.2 mean var lon lat

/-! array forms (broadcast over phases / over points) -/

def irradianceVec (phases : List K) (mean var peri : K) : List K :=
  phases.map fun o => irradiance o mean var peri

def declinationVec (c : OrbitConsts K) (phases : List K) : List K := phases.map (declination c)

def equationOfTimeVec (c : OrbitConsts K) (phases : List K) : List K :=
  phases.map (equationOfTime c)

def hourAngleVec (c : OrbitConsts K) (o s : K) (lons : List K) : List K :=
  lons.map (hourAngle c o s)

def solarSinAltitudeVec (c : OrbitConsts K) (o s : K) (lons lats : List K) : List K :=
  List.zipWith (solarSinAltitude c o s) lons lats

def fluxVec (c : OrbitConsts K) (o s mean var : K) (lons lats : List K) : List K :=
  List.zipWith (flux c o s mean var) lons lats

def normalizedFluxVec (c : OrbitConsts K) (o s mean var : K) (lons lats : List K) : List K :=
  List.zipWith (normalizedFlux c o s mean var) lons lats

def fluxAtTimeVec (c : OrbitConsts K) (refO refS rateO rateS t mean var : K)
    (lons lats : List K) : List K :=
  List.zipWith (fluxAtTime c refO refS rateO rateS t mean var) lons lats

end radiation

/-! ## Held–Suarez -/

section heldSuarez
variable [LT K] [DecidableLT K]

/-- `np.maximum(0, x)` -/
def max0 (x : K) : K := if 0 < x then x else 0

/-- `jnp.maximum(a, b)` -/
def maxK (a b : K) : K := if a < b then b else a

/-- `np.maximum(0, (sigma - sigma_b) / (1 - sigma_b))` -/
def cutoff (sigma sigmaB : K) : K := max0 ((sigma - sigmaB) / (1 - sigmaB))

/-- `HeldSuarezForcing.kv` on one level -/
def kv (kf sigmaB sigma : K) : K := kf * cutoff sigma sigmaB

/-- `ka + (ks - ka) * (cutoff * cos(lat)**4)` with the two factors given -/
def ktCoeff (ka ks cut cos4 : K) : K := ka + (ks - ka) * (cut * cos4)

variable [Transc K]

/-- `HeldSuarezForcing.kt` on one level at one latitude -/
def kt (ka ks sigmaB sigma lat : K) : K :=
  ktCoeff ka ks (cutoff sigma sigmaB) (powN (Transc.cos lat) 4)

/-- the parameters entering `equilibrium_temperature` (`kappa` from `physics_specs`) -/
structure EqParams (K : Type) where
  p0 : K
  kappa : K
  minT : K
  maxT : K
  dTy : K
  dThz : K

/-- all (non-dimensionalised) parameters of `HeldSuarezForcing` -/
structure HSParams (K : Type) extends EqParams K where
  sigmaB : K
  kf : K
  ka : K
  ks : K

/-- `HeldSuarezForcing.equilibrium_temperature` on one level at one point:
 `p_over_p0 = sigma * ps / p0`,
 `maximum(minT, p_over_p0**kappa * (maxT - dTy*sin(lat)**2 - dThz*log(p_over_p0)*cos(lat)**2))` -/
def equilibriumTemperature (P : EqParams K) (sigma lat ps : K) : K :=
  let pOverP0 := sigma * ps / P.p0
  let temperature := Transc.pow pOverP0 P.kappa *
    (P.maxT - P.dTy * powN (Transc.sin lat) 2 - P.dThz * Transc.log pOverP0 * powN (Transc.cos lat) 2)
  maxK P.minT temperature

/-- `-self.kv() * x / cos_lat**2` at one point of one level -/
def velTend1 (kf sigmaB sigma cosLat x : K) : K :=
  -(kv kf sigmaB sigma) * x / powN cosLat 2

/-- `-self.kt() * (nodal_temperature - Teq)` at one point of one level, with
 `nodal_temperature = reference_temperature + temperature_variation` and
 `Teq = equilibrium_temperature(exp(nodal_log_surface_pressure))` -/
def tempTend1 (P : EqParams K) (ka ks sigmaB sigma tref lat lsp tv : K) : K :=
  -(kt ka ks sigmaB sigma lat) * ((tref + tv) - equilibriumTemperature P sigma lat (Transc.exp lsp))

/-! array forms (one level, all horizontal points, row-major) -/

def kvVec (kf sigmaB : K) (sigmas : List K) : List K := sigmas.map (kv kf sigmaB)

/-- `kt()`: one row per level -/
def ktMat (ka ks sigmaB : K) (sigmas lats : List K) : List (List K) :=
  sigmas.map fun sigma => lats.map (kt ka ks sigmaB sigma)

def equilibriumTemperatureVec (P : EqParams K) (sigma : K) (lats pss : List K) : List K :=
  List.zipWith (equilibriumTemperature P sigma) lats pss

/-- nodal velocity tendency of one wind component on one level -/
def velTendency (kf sigmaB sigma : K) (cosLats xs : List K) : List K :=
  List.zipWith (velTend1 kf sigmaB sigma) cosLats xs

/-- nodal temperature tendency on one level -/
def tempTendency (P : EqParams K) (ka ks sigmaB sigma tref : K) (lats lsps tvs : List K) : List K :=
  List.zipWith (fun lat (q : K × K) => tempTend1 P ka ks sigmaB sigma tref lat q.1 q.2)
    lats (List.zip lsps tvs)

/-- horizontal operations used by `explicit_terms` (external; no laws) -/
structure Horiz (K : Type) where
  /-- `grid.to_modal` on one horizontal slice -/
  toModal : List K → List K
  /-- `grid.to_nodal` on one horizontal slice -/
  toNodal : List K → List K
  /-- `grid.curl_cos_lat((u, v))` on one level -/
  curlCosLat : List K → List K → List K
  /-- `grid.div_cos_lat((u, v))` on one level -/
  divCosLat : List K → List K → List K
  /-- `compute_diagnostic_state(...).cos_lat_u` on one level: (vorticity, divergence) ↦ nodal
   `(cos(lat) u, cos(lat) v)` -/
  cosLatU : List K → List K → List K × List K
  /-- `grid.cos_lat` broadcast to the nodal shape -/
  cosLat : List K
  /-- `self.lat` (nodal mesh) -/
  lat : List K

/-- the tendencies of one level -/
structure LevelTendency (K : Type) where
  vorticity : List K
  divergence : List K
  temperature : List K

/-- `HeldSuarezForcing.explicit_terms` on one level (`sigma`, `tref` its centre and reference
 temperature; `lsp`, `vor`, `div`, `tvar` modal) -/
def explicitTermsLevel (H : Horiz K) (P : HSParams K) (sigma tref : K)
    (lsp vor div tvar : List K) : LevelTendency K :=
  let cosLatU := H.cosLatU vor div
  let ut := H.toModal (velTendency P.kf P.sigmaB sigma H.cosLat cosLatU.1)
  let vt := H.toModal (velTendency P.kf P.sigmaB sigma H.cosLat cosLatU.2)
  let nodalTemperatureTendency := tempTendency P.toEqParams P.ka P.ks P.sigmaB sigma tref H.lat
    (H.toNodal lsp) (H.toNodal tvar)
  ⟨H.curlCosLat ut vt, H.divCosLat ut vt, H.toModal nodalTemperatureTendency⟩

/-- `jnp.zeros_like(state.log_surface_pressure)` -/
def logSurfacePressureTendency (lsp : List K) : List K := lsp.map fun _ => 0

/-- `HeldSuarezForcing.explicit_terms`: all levels (`levels[k] = (vor, div, tvar)` of level `k`)
 and the surface-pressure tendency -/
def explicitTerms (H : Horiz K) (P : HSParams K) (sigmas trefs : List K) (lsp : List K)
    (levels : List (List K × List K × List K)) : List (LevelTendency K) × List K :=
  (List.zipWith (fun (st : K × K) (l : List K × List K × List K) =>
      explicitTermsLevel H P st.1 st.2 lsp l.1 l.2.1 l.2.2) (List.zip sigmas trefs) levels,
   logSurfacePressureTendency lsp)

end heldSuarez

end Dino.Forcing
