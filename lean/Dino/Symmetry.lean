import Dino.SH
/-!
# Symmetries of the rotating sphere — executable model of the concrete actions (core Lean only)

The two symmetries of C10, as they act on the arrays of `dinosaur/spherical_harmonic.py`
(modal arrays `[modal row][l]`, nodal arrays `[lon node][lat node]`, as in `Dino.SH`):

* **rotation about the polar axis by `k` longitude grid steps**: on nodal arrays `np.roll(z, k, axis=-2)`
  (`roll`), on modal arrays the 2×2 rotation of every `(cos, sin)` coefficient pair of zonal
  wavenumber `m` by the angle `2π m k / N` (`rotReal` for the row order `0, +1, −1, +2, −2, …` of
  `RealSphericalHarmonics`, `rotFast` for `+0, −0, +1, −1, …` (+ padding rows) of
  `FastSphericalHarmonics`).  As in `Dino.Fourier`, `cos`/`sin` are external: `cs j = cos(2πj/N)`,
  `sn j = sin(2πj/N)` are tables.
* **the equatorial mirror**: on nodal arrays the flip of the latitude axis (`flipLat`), on modal arrays
  the sign `(−1)^(l+m)` (`mirrorModal`, with the wavenumber of a row / column given by
  `mOf`/`lOf`; for the real layout `mOf r = (r+1)/2`, for the fast layout `r/2`).

Also here: the two-term latitude-derivative stencil of `Grid.cos_lat_d_dlat` /
`Grid.sec_lat_d_dlat_cos2` (`shift(ca(l)·a·x, −1) + shift(cb(l)·b·x, +1)`) with the weight arrays as
parameters, so that "the derivatives shift `l` by one, hence anticommute with the mirror" is a
statement about the code's stencil.
-/
namespace Dino.Symmetry
open Dino.Lin

section generic
variable {α : Type}

/-- `np.roll(z, k, axis=0)` on a list of rows: `out[i] = z[(i − k) mod n]` -/
def roll (k : Nat) (z : List (List α)) : List (List α) :=
  (List.range z.length).map fun i => z.getD ((i + (z.length - k % z.length)) % z.length) []

/-- `z[..., ::-1]`: reverse the latitude axis of a nodal array `[lon][lat]` -/
def flipLat (z : List (List α)) : List (List α) := z.map List.reverse

end generic

variable {K : Type} [Add K] [Sub K] [Mul K] [Div K] [Neg K] [Zero K] [One K] [NatCast K]

/-- rotation of the coefficient pairs, row order `0, +1, −1, +2, −2, …` -/
def rotReal (cs sn : Nat → K) (N k : Nat) (x : List (List K)) : List (List K) :=
  (List.range x.length).map fun r =>
    if r = 0 then x.getD 0 [] else
    let m := (r + 1) / 2
    let c := cs ((m * k) % N)
    let s := sn ((m * k) % N)
    if r % 2 = 1 then List.zipWith (fun a b => c * a - s * b) (x.getD r []) (x.getD (r + 1) [])
    else List.zipWith (fun a b => s * a + c * b) (x.getD (r - 1) []) (x.getD r [])

/-- rotation of the coefficient pairs, row order `+0, −0, +1, −1, …`; rows `≥ 2M` (padding) are
 left alone -/
def rotFast (cs sn : Nat → K) (M N k : Nat) (x : List (List K)) : List (List K) :=
  (List.range x.length).map fun r =>
    if 2 * M ≤ r then x.getD r [] else
    let m := r / 2
    let c := cs ((m * k) % N)
    let s := sn ((m * k) % N)
    if r % 2 = 0 then List.zipWith (fun a b => c * a - s * b) (x.getD r []) (x.getD (r + 1) [])
    else List.zipWith (fun a b => s * a + c * b) (x.getD (r - 1) []) (x.getD r [])

/-- `(−1)^n` -/
def sgn (n : Nat) : K := if n % 2 = 0 then 1 else -1

/-- multiplication by `(−1)^(m + l)`, `m = mOf row`, `l = lOf column` -/
def mirrorModal (mOf lOf : Nat → Nat) (x : List (List K)) : List (List K) :=
  x.mapIdx fun r row => row.mapIdx fun l v => sgn (mOf r + lOf l) * v

/-- wavenumber of a row of the real layout -/
def mReal (r : Nat) : Nat := (r + 1) / 2
/-- wavenumber of a row of the fast layout (padding rows carry zeros, their sign is immaterial) -/
def mFast (r : Nat) : Nat := r / 2

/-- `jax_numpy_utils.shift(v, −1)`: `out[l] = v[l+1]`, zero at the end -/
def shiftDown : List K → List K
  | [] => []
  | _ :: t => t ++ [0]

/-- `jax_numpy_utils.shift(v, +1)`: `out[l] = v[l−1]`, zero at the start -/
def shiftUp : List K → List K
  | [] => []
  | a :: t => 0 :: (a :: t).dropLast

/-- one row of `shift((ca(l)·a)·x, −1) + shift((cb(l)·b)·x, +1)` -/
def twoTermRow (ca cb : Nat → K) (a b x : List K) : List K :=
  vadd (shiftDown (x.mapIdx fun l v => (ca l * a.getD l 0) * v))
       (shiftUp (x.mapIdx fun l v => (cb l * b.getD l 0) * v))

/-- the stencil of both latitude derivatives; `a`, `b` = `Grid._derivative_recurrence_weights` -/
def twoTerm (ca cb : Nat → K) (a b x : List (List K)) : List (List K) :=
  x.mapIdx fun r row => twoTermRow ca cb (a.getD r []) (b.getD r []) row

/-- `Grid.cos_lat_d_dlat`: factors `(l+1)` and `−l` -/
def cosLatDDlat (a b x : List (List K)) : List (List K) :=
  twoTerm (fun l => ((l + 1 : Nat) : K)) (fun l => -((l : Nat) : K)) a b x

/-- `Grid.sec_lat_d_dlat_cos2`: factors `(l−1)` and `−(l+2)` -/
def secLatDDlatCos2 (a b x : List (List K)) : List (List K) :=
  twoTerm (fun l => ((l : Nat) : K) - 1) (fun l => -((l + 2 : Nat) : K)) a b x

/-- a modal operator that multiplies by a function of `l` only (`laplacian`, `inverse_laplacian`,
 `clip_wavenumbers`, the spectral filters): `x * c[l]` -/
def lMul (c : List K) (x : List (List K)) : List (List K) :=
  x.map fun row => List.zipWith (· * ·) row c

/-- the Legendre table of `RealSphericalHarmonics.basis`: `np.repeat(p, 2, axis=0)[1:]` -/
def realP (P : List (List (List K))) : List (List (List K)) := (SH.dup P).tail

end Dino.Symmetry
