import Dino.SH
import Dino.Fx
/-! Exact-arithmetic checks used by the generated certificates (`DinoGen/SHCert_*.lean`). -/
namespace Dino.SH
open Dino.Lin

/-- unit modal array with a one at `(r, l)` -/
def unitModal (nrows nl r l : Nat) : List (List Fx) :=
  (List.range nrows).map fun i => (List.range nl).map fun j => if i = r ∧ j = l then 1 else 0


/-- largest deviation of `y` from the unit array at `(r,l)` is at most `eps` -/
def nearUnit (y : List (List Fx)) (nrows nl r l : Nat) (eps : Fx) : Bool :=
  (List.range nrows).all fun i => (List.range nl).all fun j =>
    Fx.le (Fx.abs ((y.getD i []).getD j 0 - (if i = r ∧ j = l then 1 else 0))) eps

/-- every unit coefficient inside `mask` comes back from `analysis ∘ synth` within `eps`
 (all entries of the result are checked, also those outside the mask) -/
def roundtripCheck (synth : List (List Fx) → List (List Fx))
    (analysis : List (List Fx) → List (List Fx))
    (mask : List (List Bool)) (nrows nl : Nat) (eps : Fx) : Bool :=
  (List.range nrows).all fun r => (List.range nl).all fun l =>
    if (mask.getD r []).getD l false then nearUnit (analysis (synth (unitModal nrows nl r l))) nrows nl r l eps
    else true

end Dino.SH

namespace Dino.SH
open Dino.Lin

/-- `Σ_i f[i][r]·f[i][r']` -/
def fourierGram (f : List (List Fx)) (r r' : Nat) : Fx :=
  (f.map fun fi => fi.getD r 0 * fi.getD r' 0).sum

/-- `Σ_j w[j]·p[r][j][l]·p[r'][j][l']` -/
def legendreGram (p : List (List (List Fx))) (w : List Fx) (r r' l l' : Nat) : Fx :=
  (List.zipWith (fun wj (pp : List Fx × List Fx) => wj * pp.1.getD l 0 * pp.2.getD l' 0) w
    (List.zip (p.getD r []) (p.getD r' []))).sum

/-- every entry of the separable Gram tensor `FG[r][r']·LG[r,r'][l][l']` is within `eps` of the
 identity, for all `(r,l)` and all `(r',l')` inside `mask` -/
def gramCheck (f : List (List Fx)) (p : List (List (List Fx))) (w : List Fx)
    (mask : List (List Bool)) (nrows nl : Nat) (eps : Fx) : Bool :=
  (List.range nrows).all fun r' => (List.range nl).all fun l' =>
    if (mask.getD r' []).getD l' false then
      (List.range nrows).all fun r => (List.range nl).all fun l =>
        Fx.le (Fx.abs (fourierGram f r r' * legendreGram p w r r' l l'
          - (if r = r' ∧ l = l' then 1 else 0))) eps
    else true

end Dino.SH
