import Dino.Util
import Dino.Lin
import Dino.Comb
import Dino.Forcing
import Dino.Dynamics
/-!
# Forward-mode differentiation by evaluation — executable model (core Lean only)

`Dual K` is the ring of dual numbers `a + b ε` (`ε² = 0`) over a generic scalar `K`, with the core
arithmetic classes (`Add`, `Sub`, `Mul`, `Div`, `Neg`, `Zero`, `One`, `NatCast`, `LT`), the
external scalar functions of the forcing model (`Forcing.Transc`) and the driver interface `Num`.
Every *existing* generic model function (`Dino.Interp.interp`, `Dino.Filters.filterTree`,
`Dino.Sigma.*`, `Dino.Implicit.*`, `Dino.Forcing.equilibriumTemperature`, the column physics of
`Dino.Dynamics`, …) can therefore be **run at `Dual K`**: the value component is the primal
result, the `ε` component is the directional derivative (`jax.jvp`) along the tangent that was put
into the `ε` components of the inputs.  Nothing is re-modelled: the definitions that C03, C13, C15,
C17, C20 and C04 reason about are the ones that are differentiated.

The rules are those of JAX's JVPs of the corresponding primitives:
`add`, `sub`, `neg`, `mul` (`ȧ b + a ḃ`), `div` (`(ȧ b − a ḃ) / b²`), `sin`, `cos`, `exp`,
`log` (`ȧ / a`), `pow` (`b a^(b−1) ȧ + log a · a^b ḃ`), `sqrt` (`ȧ / (2 √a)`); `floor` and every
comparison have zero derivative / look at the value only (`jnp.where`, `jnp.maximum`,
`searchsorted`, `clip` select a branch by the primal values, the tangent is that of the selected
branch).  At an exact tie `jnp.maximum` averages the two tangents; the model's `if a < b` takes
the tangent of `a`: ties are excluded from the statements and from the correspondence.

Also here: `jax.checkpoint` as an explicit parameter of the recursive checkpointed scan
(`innerNestedScanCk`, mirror of `_inner_nested_scan(…, checkpoint_fn)`), and the one-point
instance of `Dino.Dynamics` used to differentiate its column physics.
-/
namespace Dino.AD
open Dino

/-- a dual number: value and tangent -/
structure Dual (K : Type) where
  v : K
  d : K

namespace Dual
variable {K : Type}

/-- a constant (zero tangent) -/
def const [Zero K] (a : K) : Dual K := ⟨a, 0⟩
/-- the independent variable (unit tangent) -/
def var [One K] (a : K) : Dual K := ⟨a, 1⟩

instance [Add K] : Add (Dual K) := ⟨fun a b => ⟨a.v + b.v, a.d + b.d⟩⟩
instance [Sub K] : Sub (Dual K) := ⟨fun a b => ⟨a.v - b.v, a.d - b.d⟩⟩
instance [Neg K] : Neg (Dual K) := ⟨fun a => ⟨-a.v, -a.d⟩⟩
instance [Zero K] : Zero (Dual K) := ⟨⟨0, 0⟩⟩
instance [Zero K] [One K] : One (Dual K) := ⟨⟨1, 0⟩⟩
instance [Add K] [Mul K] : Mul (Dual K) := ⟨fun a b => ⟨a.v * b.v, a.d * b.v + a.v * b.d⟩⟩
instance [Sub K] [Mul K] [Div K] : Div (Dual K) :=
  ⟨fun a b => ⟨a.v / b.v, (a.d * b.v - a.v * b.d) / (b.v * b.v)⟩⟩
instance [Zero K] [NatCast K] : NatCast (Dual K) := ⟨fun n => ⟨(n : K), 0⟩⟩
/-- comparisons look at the value only -/
instance [LT K] : LT (Dual K) := ⟨fun a b => a.v < b.v⟩
instance [LT K] [DecidableLT K] : DecidableLT (Dual K) :=
  fun a b => inferInstanceAs (Decidable (a.v < b.v))
/-- a `K`-scalar acting on a dual number (`K`-module structure) -/
instance [Mul K] : SMul K (Dual K) := ⟨fun c a => ⟨c * a.v, c * a.d⟩⟩

end Dual

open Dual

/-! ## vectors of dual numbers -/
section vectors
variable {K : Type}

/-- a constant vector -/
def constL [Zero K] (x : List K) : List (Dual K) := x.map Dual.const
def constM [Zero K] (a : List (List K)) : List (List (Dual K)) := a.map constL
/-- values `x` with tangents `dx` (same length) -/
def mkL (x dx : List K) : List (Dual K) := List.zipWith Dual.mk x dx
def mkM (x dx : List (List K)) : List (List (Dual K)) := List.zipWith mkL x dx
def vals (x : List (Dual K)) : List K := x.map (·.v)
def tans (x : List (Dual K)) : List K := x.map (·.d)
def valsM (x : List (List (Dual K))) : List (List K) := x.map vals
def tansM (x : List (List (Dual K))) : List (List K) := x.map tans

end vectors

/-! ## the external scalar functions at `Dual K` -/
section transc
variable {K : Type} [Add K] [Sub K] [Mul K] [Div K] [Neg K] [Zero K] [One K]

open Forcing in
instance [Transc K] : Transc (Dual K) where
  sin a := ⟨Transc.sin a.v, Transc.cos a.v * a.d⟩
  cos a := ⟨Transc.cos a.v, -(Transc.sin a.v * a.d)⟩
  exp a := ⟨Transc.exp a.v, Transc.exp a.v * a.d⟩
  log a := ⟨Transc.log a.v, a.d / a.v⟩
  pow a b := ⟨Transc.pow a.v b.v,
    b.v * Transc.pow a.v (b.v - 1) * a.d + Transc.log a.v * Transc.pow a.v b.v * b.d⟩
  floor a := ⟨Transc.floor a.v, 0⟩
  pi := ⟨Transc.pi, 0⟩

end transc

/-- the driver interface at `Dual K`: a dual number travels as `value:tangent` (a bare scalar is a
 constant), comparisons look at the value -/
instance {K : Type} [Num K] : Num (Dual K) where
  parse? s :=
    match s.splitOn ":" with
    | [a] => (Num.parse? a).map Dual.const
    | [a, b] => do
        let a ← Num.parse? a
        let b ← Num.parse? b
        pure ⟨a, b⟩
    | _ => none
  render a := Num.render a.v ++ ":" ++ Num.render a.d
  ltb a b := Num.ltb a.v b.v
  ofRat r := Dual.const (Num.ofRat r)
  sqrt a := ⟨Num.sqrt a.v, a.d / ((1 + 1) * Num.sqrt a.v)⟩
  exp a := ⟨Num.exp a.v, Num.exp a.v * a.d⟩
  log a := ⟨Num.log a.v, a.d / a.v⟩
  sin a := ⟨Num.sin a.v, Num.cos a.v * a.d⟩
  cos a := ⟨Num.cos a.v, -(Num.sin a.v * a.d)⟩

/-! ## `jax.checkpoint` as a parameter of the recursive scan -/
section checkpoint
open Comb
variable {C X Y : Type}

/-- `jax.checkpoint(f)`: the same function (rematerialisation changes the schedule of the reverse
 pass, not any value) -/
def checkpoint {α β : Type} (f : α → β) : α → β := f

/-- `_inner_nested_scan(f, init, xs, lengths, scan_fn, checkpoint_fn)` with `checkpoint_fn` as an
 explicit parameter `ck` wrapped around `sub_scans` -/
def innerNestedScanCk
    (ck : (C → List X → Except Err (C × List Y)) → (C → List X → Except Err (C × List Y)))
    (f : C → X → C × Y) : List Nat → C → List X → Except Err (C × List Y)
  | [], _, _ => .error .indexError
  | [l], c, xs => if xs.length = l then .ok (scan f c xs) else .error .valueError
  | l :: l' :: ls, c, xs =>
    match scanE (ck (fun carry sub => innerNestedScanCk ck f (l' :: ls) carry sub)) c
        (chunks (prod (l' :: ls)) l xs) with
    | .error e => .error e
    | .ok r => if r.2.isEmpty then .error .valueError else .ok (r.1, r.2.flatten)

/-- `nested_checkpoint_scan(f, init, xs, length, nested_lengths=…, checkpoint_fn=ck)` -/
def nestedCheckpointScanCk
    (ck : (C → List X → Except Err (C × List Y)) → (C → List X → Except Err (C × List Y)))
    (f : C → X → C × Y) (init : C) (xs : List X) (length : Option Nat)
    (nestedLengths : List Nat) : Except Err (C × List Y) :=
  if lengthMismatch length nestedLengths then .error .valueError
  else if xs.length ≠ prod nestedLengths then .error .typeError
  else innerNestedScanCk ck f nestedLengths init xs

end checkpoint

/-! ## linear maps given by matrices, their transposes, and chains of them (JVP / VJP) -/
section linear
variable {K : Type} [Add K] [Mul K] [Zero K]

/-- `J v` for a Jacobian given as a matrix (rows = outputs) -/
def jvp (J : List (List K)) (v : List K) : List K := J.map fun row => Lin.dotv row v

/-- `Jᵀ w` for a Jacobian with `n` inputs -/
def vjp (J : List (List K)) (n : Nat) (w : List K) : List K := jvp (Lin.transposeM J n) w

/-- forward mode through a chain of steps `J₁, J₂, …` (applied in this order): `… J₂ (J₁ v)` -/
def jvpChain : List (List (List K)) → List K → List K
  | [], v => v
  | J :: Js, v => jvpChain Js (jvp J v)

/-- reverse mode through the same chain, `n` = number of inputs of the first step:
 `J₁ᵀ (J₂ᵀ (… w))` -/
def vjpChain : List (List (List K)) → Nat → List K → List K
  | [], _, w => w
  | J :: Js, n, w => vjp J n (vjpChain Js J.length w)

end linear

/-! ## pointwise kernels of the moist column physics
 (`MoistPrimitiveEquations.nodal_temperature_adiabatic_tendency`, the two `zipWith` bodies of
 `Dino.Dynamics.MoistPrimitiveEquations.nodalTemperatureAdiabaticTendency`) -/
section kernels
variable {K N : Type} [Sub K] [One K] [Add N] [Mul N] [Div N] [One N] [SMul K N]

/-- `T' * (1 + (R_v/R − 1) q) / (1 + (Cp_v/Cp − 1) q)` -/
def variationKernel (g h : K) (t q : N) : N := t * (((1 : N) + (g - 1) • q) / ((1 : N) + (h - 1) • q))

/-- `T_ref * ((R_v/R − Cp_v/Cp) q) / (1 + (Cp_v/Cp − 1) q)` -/
def humidityKernel (g h : K) (tr q : N) : N := tr * (((g - h) • q) / ((1 : N) + (h - 1) • q))

end kernels

/-! ## the column physics of `Dino.Dynamics` at one nodal point -/
section column
open Dynamics
variable {K N : Type} [Zero K] [One K] [Zero N] [One N]

/-- a record of horizontal operations for a single nodal point (identity maps): only the vertical
 (column) routines of `Dino.Dynamics` are used with it -/
def pointOps : HOps K N N where
  toNodal := id
  toModal := id
  dDlon := id
  cosLatDDlat := id
  secLatDDlatCos2 := id
  laplacian := id
  inverseLaplacian := id
  clip := id
  lproj := fun _ => id
  nL := 1
  lapEig := fun _ => 0
  cosLat := 1
  sec2Lat := 1
  sinLat := 0
  oneModal := 1
  radius := 1

/-- the equation object of one column -/
def pointEq (vert : Vert K) (phys : Phys K) (tref : List K) : PrimitiveEquations K N N :=
  { ops := pointOps, vert := vert, phys := phys, referenceTemperature := tref, orography := 0 }

/-- a `DiagnosticState` holding the fields the adiabatic temperature tendency reads -/
def pointDiag (div temp udg : List N) (tracers : List (String × List N)) : Diag N :=
  { vorticity := [], divergence := div, temperatureVariation := temp, cosLatU := ([], []),
    sigmaDotExplicit := [], sigmaDotFull := [], cosLatGradLogSp := (0, 0), uDotGradLogSp := udg,
    tracers := tracers }

end column

end Dino.AD
