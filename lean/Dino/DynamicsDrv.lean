import Dino.Dynamics
import Dino.Lin
/-!
# Executable instance of `Dynamics` and its line protocol: `dyn <F|Q> <op> <cfg…> <args…>`

The executable instance takes every horizontal *linear* operator **as a matrix supplied by the
caller** (the harness extracts them from the real `spherical_harmonic.Grid` by applying each
operator to unit vectors), so that what is compared with `primitive_equations.py` is exactly what
`Dynamics` is about: the nonlinear arrangement of the terms and the column physics.  (The
operators themselves are the subject of C01/C02.)

Carriers: `M = Vec nm K` (flattened modal coefficients), `N = Vec nn K` (flattened nodal values,
pointwise ring).  The size is a phantom type index, used only by `0` and `1`.

`cfg` = 19 tokens:
 `nm,nn,nL  toNodal toModal dDlon cosLatDDlat secLatDDlatCos2 laplacian inverseLaplacian clip
  lidx  cosLat;sec2Lat;sinLat  oneModal  radius,Ω,g,R,Rvapor,CpVapor,kappa  lapEig
  boundaries logCenters tref orography includeVerticalAdvection`
-/
namespace Dino.Dynamics
open Dino

/-- a vector of `n` scalars (the length is not enforced; it only fixes `0` and `1`) -/
structure Vec (n : Nat) (K : Type) where
  data : List K

namespace Vec
variable {n : Nat} {K : Type}
instance [Add K] : Add (Vec n K) := ⟨fun a b => ⟨List.zipWith (· + ·) a.data b.data⟩⟩
instance [Sub K] : Sub (Vec n K) := ⟨fun a b => ⟨List.zipWith (· - ·) a.data b.data⟩⟩
instance [Mul K] : Mul (Vec n K) := ⟨fun a b => ⟨List.zipWith (· * ·) a.data b.data⟩⟩
instance [Div K] : Div (Vec n K) := ⟨fun a b => ⟨List.zipWith (· / ·) a.data b.data⟩⟩
instance [Neg K] : Neg (Vec n K) := ⟨fun a => ⟨a.data.map fun x => -x⟩⟩
instance [Zero K] : Zero (Vec n K) := ⟨⟨List.replicate n 0⟩⟩
instance [One K] : One (Vec n K) := ⟨⟨List.replicate n 1⟩⟩
instance [Mul K] : SMul K (Vec n K) := ⟨fun c a => ⟨a.data.map fun x => c * x⟩⟩
end Vec

section
variable {K : Type} [Add K] [Mul K] [Zero K]

/-- a linear operator given by its matrix (rows = output entries) -/
def matOp {a b : Nat} (A : List (List K)) (x : Vec a K) : Vec b K :=
  ⟨A.map fun row => Lin.dotv row x.data⟩

/-- projection on the coefficients whose total wavenumber index is `l` -/
def lprojOf {a : Nat} (lidx : List Nat) (l : Nat) (x : Vec a K) : Vec a K :=
  ⟨List.zipWith (fun li v => if li = l then v else 0) lidx x.data⟩
end

variable (K : Type) [Num K]

local instance numBEq : BEq K := ⟨fun a b => !(Num.ltb a b) && !(Num.ltb b a)⟩

abbrev MV (nm : Nat) := Vec nm K
abbrev NV (nn : Nat) := Vec nn K

/-! ### parsing / rendering -/

def toCol {n : Nat} (m : List (List K)) : List (Vec n K) := m.map fun r => ⟨r⟩
def ofCol {n : Nat} (c : List (Vec n K)) : List (List K) := c.map fun v => v.data

def parseCol? {n : Nat} (s : String) : Option (List (Vec n K)) := (parseMat? (K := K) s).map (toCol K)
def parseVecV? {n : Nat} (s : String) : Option (Vec n K) := (parseVec? (K := K) s).map fun d => ⟨d⟩
def renderCol {n : Nat} (c : List (Vec n K)) : String := renderMat (ofCol K c)
def renderV {n : Nat} (v : Vec n K) : String := renderVec v.data

/-- tracers: `_` or `name=matrix&name=matrix…` -/
def parseTracers? {n : Nat} (s : String) : Option (List (String × List (Vec n K))) :=
  if s = "_" then some [] else
  (s.splitOn "&").mapM fun kv =>
    match kv.splitOn "=" with
    | [k, v] => (parseCol? K v).map fun c => (k, c)
    | _ => none

def renderTracers {n : Nat} (t : List (String × List (Vec n K))) : String :=
  if t.isEmpty then "_" else "&".intercalate (t.map fun kv => kv.1 ++ "=" ++ renderCol K kv.2)

/-- state: `vort|div|temp|lnps|simtime|tracers` -/
def parseState? {n : Nat} (s : String) : Option (StateWithTime K (Vec n K)) :=
  match s.splitOn "|" with
  | [z, d, t, p, tm, tr] => do
      let z ← parseCol? K z; let d ← parseCol? K d; let t ← parseCol? K t
      let p ← parseVecV? K p; let tm ← Num.parse? (K := K) tm; let tr ← parseTracers? K tr
      pure { state := { vorticity := z, divergence := d, temperatureVariation := t,
                        logSurfacePressure := p, tracers := tr }, simTime := tm }
  | _ => none

def renderState {n : Nat} (s : StateWithTime K (Vec n K)) : String :=
  "|".intercalate [renderCol K s.state.vorticity, renderCol K s.state.divergence,
    renderCol K s.state.temperatureVariation, renderV K s.state.logSurfacePressure,
    Num.render s.simTime, renderTracers K s.state.tracers]

/-- diagnostic state: `vort|div|temp|u|v|sde|sdf|glspU|glspV|udg|tracers` -/
def parseDiag? {n : Nat} (s : String) : Option (Diag (Vec n K)) :=
  match s.splitOn "|" with
  | [z, d, t, u, v, sde, sdf, gu, gv, udg, tr] => do
      let z ← parseCol? K z; let d ← parseCol? K d; let t ← parseCol? K t
      let u ← parseCol? K u; let v ← parseCol? K v
      let sde ← parseCol? K sde; let sdf ← parseCol? K sdf
      let gu ← parseVecV? K gu; let gv ← parseVecV? K gv
      let udg ← parseCol? K udg; let tr ← parseTracers? K tr
      pure { vorticity := z, divergence := d, temperatureVariation := t, cosLatU := (u, v),
             sigmaDotExplicit := sde, sigmaDotFull := sdf, cosLatGradLogSp := (gu, gv),
             uDotGradLogSp := udg, tracers := tr }
  | _ => none

def renderDiag {n : Nat} (a : Diag (Vec n K)) : String :=
  "|".intercalate [renderCol K a.vorticity, renderCol K a.divergence, renderCol K a.temperatureVariation,
    renderCol K a.cosLatU.1, renderCol K a.cosLatU.2, renderCol K a.sigmaDotExplicit,
    renderCol K a.sigmaDotFull, renderV K a.cosLatGradLogSp.1, renderV K a.cosLatGradLogSp.2,
    renderCol K a.uDotGradLogSp, renderTracers K a.tracers]

/-- list of matrices separated by `/` -/
def parseMats? (s : String) : Option (List (List (List K))) := (s.splitOn "/").mapM (parseMat? (K := K))

/-! ### the configuration -/

def parseCfg? (nm nn nL : Nat) : List String → Option (PrimitiveEquations K (MV K nm) (NV K nn) × List String)
  | toNodal :: toModal :: dDlon :: cosLatDDlat :: secLatDDlatCos2 :: laplacian :: inverseLaplacian
      :: clip :: lidx :: tables :: oneModal :: consts :: lapEig :: boundaries :: logCenters :: tref
      :: orography :: flags :: rest => do
      let toNodal ← parseMat? (K := K) toNodal; let toModal ← parseMat? (K := K) toModal
      let dDlon ← parseMat? (K := K) dDlon; let cosLatDDlat ← parseMat? (K := K) cosLatDDlat
      let secLatDDlatCos2 ← parseMat? (K := K) secLatDDlatCos2
      let laplacian ← parseMat? (K := K) laplacian
      let inverseLaplacian ← parseMat? (K := K) inverseLaplacian
      let clip ← parseMat? (K := K) clip
      let lidx ← parseNatVec? lidx
      let tables ← parseMat? (K := K) tables
      let oneModal ← parseVecV? K oneModal
      let consts ← parseVec? (K := K) consts
      let lapEig ← parseVec? (K := K) lapEig
      let boundaries ← parseVec? (K := K) boundaries
      let logCenters ← parseVec? (K := K) logCenters
      let tref ← parseVec? (K := K) tref
      let orography ← parseVecV? K orography
      let flags ← parseBool? flags
      match tables, consts with
      | [cosLat, sec2Lat, sinLat], [radius, omega, g, r, rv, cpv, kappa] =>
        let ops : HOps K (MV K nm) (NV K nn) :=
          { toNodal := matOp toNodal, toModal := matOp toModal, dDlon := matOp dDlon
            cosLatDDlat := matOp cosLatDDlat, secLatDDlatCos2 := matOp secLatDDlatCos2
            laplacian := matOp laplacian, inverseLaplacian := matOp inverseLaplacian
            clip := matOp clip, lproj := lprojOf lidx, nL := nL
            lapEig := fun l => lapEig.getD l 0
            cosLat := ⟨cosLat⟩, sec2Lat := ⟨sec2Lat⟩, sinLat := ⟨sinLat⟩
            oneModal := oneModal, radius := radius }
        pure ({ ops := ops
                vert := { boundaries := boundaries, logCenters := logCenters }
                phys := { angularVelocity := omega, g := g, R := r, Rvapor := rv, CpVapor := cpv,
                          kappa := kappa }
                referenceTemperature := tref
                orography := orography
                includeVerticalAdvection := flags }, rest)
      | _, _ => none
  | _ => none

def renderPair {n : Nat} (p : List (Vec n K) × List (Vec n K)) : String :=
  renderCol K p.1 ++ "|" ++ renderCol K p.2

def optOut (o : Option String) : Option String := some (o.getD "value-error")

def vtOf {nm nn : Nat} (eq : PrimitiveEquations K (MV K nm) (NV K nn)) (cls : String) :
    Diag (NV K nn) → List (NV K nn) → Option (List (NV K nn)) :=
  if cls = "cloud" then MoistPrimitiveEquations.virtualTemperatureWithClouds eq
  else MoistPrimitiveEquations.virtualTemperature eq

def runOps {nm nn : Nat} (eq : PrimitiveEquations K (MV K nm) (NV K nn)) : List String → Option String
  | ["explicit", cls, st] => do
      let s ← parseState? K st
      if cls = "dry" then
        pure (renderState K { state := eq.explicitTerms s.state, simTime := s.simTime })
      else if cls = "time" then pure (renderState K (PrimitiveEquationsWithTime.explicitTerms eq s))
      else if cls = "moist" then
        optOut ((MoistPrimitiveEquations.explicitTerms eq s).map (renderState K))
      else if cls = "cloud" then
        optOut ((MoistPrimitiveEquationsWithCloudMoisture.explicitTerms eq s).map (renderState K))
      else none
  | ["implicit", cls, st] => do
      let s ← parseState? K st
      if cls = "dry" then
        pure (renderState K { state := eq.implicitTerms s.state, simTime := s.simTime })
      else if cls = "time" then pure (renderState K (PrimitiveEquationsWithTime.implicitTerms eq s))
      else if cls = "moist" then pure (renderState K (MoistPrimitiveEquations.implicitTerms eq s))
      else if cls = "cloud" then
        pure (renderState K (MoistPrimitiveEquationsWithCloudMoisture.implicitTerms eq s))
      else none
  | ["inverse", invs, st] => do
      let s ← parseState? K st
      let invs ← parseMats? K invs
      pure (renderState K (PrimitiveEquationsWithTime.implicitInverse eq (fun l => invs.getD l []) s))
  | ["implmat", eta, l] => do
      let eta ← Num.parse? (K := K) eta; let l ← l.toNat?
      pure (renderMat (eq.implicitTermMatrix eta l))
  | ["diag", st] => do
      let s ← parseState? K st
      pure (renderDiag K (computeDiagnosticState eq.ops eq.vert s.state))
  | ["vvel", st] => do
      let s ← parseState? K st
      pure (renderCol K (computeVerticalVelocity eq.ops eq.vert s.state))
  | ["tomega", t, g, v] => do
      let t ← parseCol? K t; let g ← parseCol? K g; let v ← parseCol? K v
      pure (renderCol K (eq.tOmegaOverSigmaSp t g v))
  | ["vtend", w, x] => do
      let w ← parseCol? K w; let x ← parseCol? K x
      pure (renderCol K (eq.verticalTendency w x))
  | ["cdt", cls, aux] => do
      let aux ← parseDiag? K aux
      if cls = "dry" then pure (renderPair K (eq.curlAndDivTendencies aux))
      else optOut ((MoistPrimitiveEquations.curlAndDivTendencies eq (vtOf K eq cls) aux).map (renderPair K))
  | ["ke", aux] => do
      let aux ← parseDiag? K aux
      pure (renderCol K (eq.kineticEnergyTendency aux))
  | ["oro"] => pure (renderV K eq.orographyTendency)
  | ["hsa", sc, aux] => do
      let sc ← parseCol? K sc; let aux ← parseDiag? K aux
      let r := eq.horizontalScalarAdvection sc aux
      pure (renderCol K r.1 ++ "|" ++ renderCol K r.2)
  | ["tvert", aux] => do
      let aux ← parseDiag? K aux
      pure (renderCol K (eq.nodalTemperatureVerticalTendency aux))
  | ["tadiab", cls, aux] => do
      let aux ← parseDiag? K aux
      if cls = "dry" then pure (renderCol K (eq.nodalTemperatureAdiabaticTendency aux))
      else optOut ((MoistPrimitiveEquations.nodalTemperatureAdiabaticTendency eq aux).map (renderCol K))
  | ["lsp", aux] => do
      let aux ← parseDiag? K aux
      pure (renderV K (eq.nodalLogPressureTendency aux))
  | ["humdiv", st, aux] => do
      let s ← parseState? K st; let aux ← parseDiag? K aux
      optOut ((MoistPrimitiveEquations.divergenceTendencyDueToHumidity eq s.state aux).map (renderCol K))
  | ["humvort", st, aux] => do
      let s ← parseState? K st; let aux ← parseDiag? K aux
      optOut ((MoistPrimitiveEquations.vorticityTendencyDueToHumidity eq s.state aux).map (renderCol K))
  | ["gdiff", x] => do
      let x ← parseCol? (n := nm) K x
      pure (renderCol K (eq.geopotentialDiff x))
  | ["timpl", x] => do
      let x ← parseCol? (n := nm) K x
      pure (renderCol K (eq.temperatureImplicit x))
  | _ => none

def runK : List String → Option String
  | op :: sizes :: rest => do
      let sz ← parseNatVec? sizes
      match sz with
      | [nm, nn, nL] =>
        let (eq, args) ← parseCfg? K nm nn nL rest
        runOps K eq (op :: args)
      | _ => none
  | _ => none

def run : List String → Option String
  | "F" :: rest => runK Float rest
  | "Q" :: rest => runK Rat rest
  | _ => none

end Dino.Dynamics
