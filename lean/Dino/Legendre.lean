import Dino.Lin
/-!
# Associated Legendre functions — executable model of `dinosaur/associated_legendre.py`

`sqrt` is external (a parameter); numbers `m`, `k` enter through `NatCast K`.
For one node `x` and one order `m` the code's triangle-truncated rhombus recurrence is
  q₀ = p[0,m],   q_k = a_k·(x·q_{k-1} − b_k·q_{k-2}),
  a_k = √((4(m+k)²−1)/((m+k)²−m²)),  b_k = √(((m+k−1)²−m²)/(4(m+k−1)²−1)),
with `p[0,0] = 1/√2`, `p[0,m] = −√(1+1/(2m))·√(1−x²)·p[0,m−1]`, and `evaluate` places `q_k`
at total wavenumber `l = m+k`, zeros for `l < m`.
-/
namespace Dino.Legendre
variable {K : Type} [Add K] [Sub K] [Mul K] [Div K] [Neg K] [Zero K] [One K] [NatCast K]

/-- `p[0, m]` at node `x` -/
def sectoral (sqrt : K → K) (x : K) : Nat → K
  | 0 => 1 / sqrt (1 + 1)
  | m + 1 => -(sqrt (1 + 1 / ((1 + 1) * ((m + 1 : Nat) : K)))) * sqrt (1 - x * x) * sectoral sqrt x m

def coefA (sqrt : K → K) (m k : Nat) : K :=
  sqrt (((1 + 1) * (1 + 1) * (((m + k : Nat) : K) * ((m + k : Nat) : K)) - 1)
    / ((((m + k : Nat) : K) * ((m + k : Nat) : K)) - ((m : K) * (m : K))))

def coefB (sqrt : K → K) (m k : Nat) : K :=
  sqrt (((((m + k - 1 : Nat) : K) * ((m + k - 1 : Nat) : K)) - ((m : K) * (m : K)))
    / ((1 + 1) * (1 + 1) * (((m + k - 1 : Nat) : K) * ((m + k - 1 : Nat) : K)) - 1))

/-- `count` further values of the recurrence for order `m`, given the two previous ones
 (`prev1 = q_{k-1}`, `prev2 = q_{k-2}`), starting at index `k` -/
def recur (sqrt : K → K) (x : K) (m : Nat) : Nat → Nat → K → K → List K
  | 0, _, _, _ => []
  | count + 1, k, prev1, prev2 =>
    let q := coefA sqrt m k * (x * prev1 - coefB sqrt m k * prev2)
    q :: recur sqrt x m count (k + 1) q prev1

/-- the row `p[m, node, :]` of `evaluate(n_m, n_l, x)`: `m` zeros, then `q_0 … q_{n_l-m-1}` -/
def row (sqrt : K → K) (nl : Nat) (x : K) (m : Nat) : List K :=
  if nl ≤ m then List.replicate nl 0 else
  let q0 := sectoral sqrt x m
  List.replicate m 0 ++ q0 :: recur sqrt x m (nl - m - 1) 1 q0 0

/-- `evaluate(n_m, n_l, x)` as `[m][node][l]` -/
def evaluate (sqrt : K → K) (nm nl : Nat) (xs : List K) : List (List (List K)) :=
  (List.range nm).map fun m => xs.map fun x => row sqrt nl x m

end Dino.Legendre
