import Dino.Fourier
import Dino.Legendre
/-!
# Spherical-harmonic transforms — executable model of `dinosaur/spherical_harmonic.py`

A basis is the triple `(f, p, w)` of `_SphericalHarmonicBasis`: `f : [lon node][modal row]`,
`p : [p-index][lat node][l]`, `w : [lat node]`.  Modal arrays are `[modal row][l]`, nodal arrays
`[lon node][lat node]`.
-/
namespace Dino.SH
open Dino.Lin
variable {K : Type} [Add K] [Sub K] [Mul K] [Div K] [Neg K] [Zero K] [One K] [NatCast K]

structure Basis (K : Type) where
  f : List (List K)
  p : List (List (List K))
  w : List K

/-- `np.repeat(p, 2, axis=0)` -/
def dup {α : Type} : List α → List α
  | [] => []
  | a :: t => a :: a :: dup t

/-- `einsum('mjl,...ml->...mj', p, x)` with one Legendre table per modal row -/
def invLegendre (prow : List (List (List K))) (x : List (List K)) : List (List K) :=
  List.zipWith (fun pm xm => pm.map fun pj => dotv pj xm) prow x

/-- `einsum('im,...mj->...ij', f, px)` -/
def invFourier (f px : List (List K)) (nlat : Nat) : List (List K) := matMul f px nlat

/-- `einsum('im,...ij->...mj', f, wx)` -/
def fwdFourier (f wx : List (List K)) (nrows nlat : Nat) : List (List K) :=
  (transposeM f nrows).map fun c => vecMat c wx nlat

/-- `einsum('mjl,...mj->...ml', p, fwx)` -/
def fwdLegendre (prow : List (List (List K))) (fwx : List (List K)) (nl : Nat) : List (List K) :=
  List.zipWith (fun pm vm => vecMat vm pm nl) prow fwx

/-- `w * x` (weights along the latitude axis) -/
def weight (w : List K) (z : List (List K)) : List (List K) := z.map fun zi => List.zipWith (· * ·) w zi

/-! ### `RealSphericalHarmonics`: rows `m = 0, +1, -1, …`; `basis.p` is already `repeat(p,2)[1:]` -/

def realSynth (b : Basis K) (nlat : Nat) (x : List (List K)) : List (List K) :=
  invFourier b.f (invLegendre b.p x) nlat

def realAnalysis (b : Basis K) (nrows nlat nl : Nat) (z : List (List K)) : List (List K) :=
  fwdLegendre b.p (fwdFourier b.f (weight b.w z) nrows nlat) nl

/-! ### `FastSphericalHarmonics`: rows `(+0, -0, +1, -1, …)` plus padding; `basis.p` is indexed by
 `row / 2` (`_unstack_m` / `_stack_m` are the Fortran-order reshapes `row = s + 2m`). -/

def evens {α : Type} : List α → List α
  | [] => []
  | [a] => [a]
  | a :: _ :: t => a :: evens t

def odds {α : Type} : List α → List α
  | [] => []
  | [_] => []
  | _ :: b :: t => b :: odds t

/-- `_unstack_m`: `[2][rows/2]` -/
def unstackM {α : Type} (x : List α) : List (List α) := [evens x, odds x]

/-- `_stack_m`: interleave back -/
def stackM {α : Type} : List α → List α → List α
  | a :: as, b :: bs => a :: b :: stackM as bs
  | _, _ => []

/-- unstacked Fourier step of the fast implementation -/
def fastSynth (b : Basis K) (nlat : Nat) (x : List (List K)) : List (List K) :=
  let px0 := invLegendre b.p (evens x)
  let px1 := invLegendre b.p (odds x)
  invFourier b.f (stackM px0 px1) nlat

/-- stacked Fourier step: `einsum('ism,...smj->...ij')`, a sum over `s` of two contractions with
 the de-interleaved columns of `f` -/
def fastSynthStacked (b : Basis K) (nlat : Nat) (x : List (List K)) : List (List K) :=
  let px0 := invLegendre b.p (evens x)
  let px1 := invLegendre b.p (odds x)
  let f0 := b.f.map evens
  let f1 := b.f.map odds
  List.zipWith vadd (matMul f0 px0 nlat) (matMul f1 px1 nlat)

def fastAnalysis (b : Basis K) (nrows nlat nl : Nat) (z : List (List K)) : List (List K) :=
  let fwx := fwdFourier b.f (weight b.w z) nrows nlat
  stackM (fwdLegendre b.p (evens fwx) nl) (fwdLegendre b.p (odds fwx) nl)

def fastAnalysisStacked (b : Basis K) (nrows nlat nl : Nat) (z : List (List K)) : List (List K) :=
  let wx := weight b.w z
  let f0 := b.f.map evens
  let f1 := b.f.map odds
  let h := nrows / 2
  stackM (fwdLegendre b.p (fwdFourier f0 wx h nlat) nl) (fwdLegendre b.p (fwdFourier f1 wx h nlat) nl)

/-- `Grid.integrate`: `einsum('y,...xy->...', w·r², z)` -/
def integrate (w : List K) (r2 : K) (z : List (List K)) : K :=
  (z.map fun zi => dotv (w.map (· * r2)) zi).sum

/-! ### modal axes and masks -/

/-- `RealSphericalHarmonics.modal_axes[0]`: `[0, 1, -1, 2, -2, …]` -/
def realMvals (M : Nat) : List Int :=
  0 :: (List.range (M - 1)).flatMap fun j => [((j + 1 : Nat) : Int), -((j + 1 : Nat) : Int)]

/-- `FastSphericalHarmonics.modal_axes[0]`: `[0, 0, 1, -1, …]` padded with zeros -/
def fastMvals (M padRows : Nat) : List Int :=
  (0 :: 0 :: (List.range (M - 1)).flatMap fun j => [((j + 1 : Nat) : Int), -((j + 1 : Nat) : Int)])
    ++ List.replicate padRows 0

def lvals (L padCols : Nat) : List Nat := List.range L ++ List.replicate padCols 0

def realMask (M L : Nat) : List (List Bool) :=
  (realMvals M).map fun m => (lvals L 0).map fun l => decide (m.natAbs ≤ l)

/-- `(abs(m) <= l) & (i != 1) & (i < i_lim) & (j < j_lim)` -/
def fastMask (M L padRows padCols : Nat) : List (List Bool) :=
  (List.zipIdx (fastMvals M padRows)).map fun (m, i) =>
    (List.zipIdx (lvals L padCols)).map fun (l, j) =>
      decide (m.natAbs ≤ l) && decide (i ≠ 1) && decide (i < 2 * M) && decide (j < L)

end Dino.SH
