import Dino.Util
/-!
# Spectral filters — executable model (core Lean only)

Mirrors `dinosaur/filtering.py` (`_preserves_shape`, `_make_filter_fn`, `exponential_filter`,
`horizontal_diffusion_filter`) and the step filters of `dinosaur/time_integration.py`
(`robert_asselin_leapfrog_filter`, `runge_kutta_step_filter`, `leapfrog_step_filter`,
`exponential_step_filter`, `exponential_leapfrog_step_filter`,
`horizontal_diffusion_step_filter`).

* Shapes are `List Nat`; an array is a shape together with its row-major data (`List K`); a pytree
  is the list of its leaves (`jax.tree_util.tree_map` = `List.map` over the leaves).
* The total-wavenumber axis `grid.modal_axes[1]` is an input (`ls`, zero padding included), so both
  spherical-harmonics layouts are covered by the same definitions.
* `exp` is external (`ex : K → K`): `Num.exp` in the driver, `Real.exp` in the proofs.
* The order relation is a core `LT` instance with decidable `<` (`Float`, `Rat`, `ℝ`).
-/
namespace Dino.Filters

/-! ## numpy broadcasting on shapes -/

/-- one pair of aligned dimensions: equal, or one of them is 1; `none` = numpy raises -/
def bdim (a b : Nat) : Option Nat :=
  if a = 1 then some b else if b = 1 then some a else if a = b then some a else none

/-- `np.broadcast_shapes` on reversed shapes (last axis first) -/
def broadcastRev : List Nat → List Nat → Option (List Nat)
  | [], bs => some bs
  | a :: as, [] => some (a :: as)
  | a :: as, b :: bs =>
    match bdim a b, broadcastRev as bs with
    | some d, some r => some (d :: r)
    | _, _ => none

/-- `np.broadcast_shapes(a, b)`; `none` = `ValueError` -/
def broadcastShapes (a b : List Nat) : Option (List Nat) :=
  (broadcastRev a.reverse b.reverse).map List.reverse

/-- `_preserves_shape(target, scaling)` on the shapes (current code: `except ValueError: False`) -/
def preservesShape (target scaling : List Nat) : Bool :=
  match broadcastShapes target scaling with
  | some b => b == target
  | none => false

/-- `_preserves_shape` before commit 90e14fe: `none` = the `ValueError` of
 `np.broadcast_shapes` escapes and the whole filter raises -/
def preservesShapeOld (target scaling : List Nat) : Option Bool :=
  (broadcastShapes target scaling).map (· == target)

/-- flat (row-major) index into an array of reversed shape `ss` that numpy broadcasting pairs
 with flat index `i` of an array of reversed shape `ts` -/
def bidxRev : List Nat → List Nat → Nat → Nat
  | d :: ss, t :: ts, i => (if d = 1 then 0 else i % t) + d * bidxRev ss ts (i / t)
  | _, _, _ => 0

def bidx (ss ts : List Nat) (i : Nat) : Nat := bidxRev ss.reverse ts.reverse i

variable {K : Type} [Add K] [Sub K] [Mul K] [Div K] [Neg K] [Zero K] [One K]

/-- `scaling * x` for a scaling of shape `ss` (data `s`) and a leaf of shape `ts` (data `x`)
 whose shape is preserved by the broadcast -/
def bmul (ss : List Nat) (s : List K) (ts : List Nat) (x : List K) : List K :=
  x.mapIdx fun i v => s.getD (bidx ss ts i) 0 * v

/-- `rescale = lambda x: scaling * x if _preserves_shape(x, scaling) else x` on one leaf -/
def filterLeaf (ss : List Nat) (s : List K) (leaf : List Nat × List K) : List Nat × List K :=
  if preservesShape leaf.1 ss then (leaf.1, bmul ss s leaf.1 leaf.2) else leaf

/-- `_make_filter_fn(scaling)`: `tree_map(rescale, ·)` -/
def filterTree (ss : List Nat) (s : List K) (tree : List (List Nat × List K)) :
    List (List Nat × List K) :=
  tree.map (filterLeaf ss s)

/-- `_make_filter_fn` before commit 90e14fe (`none` = raises) -/
def filterTreeOld (ss : List Nat) (s : List K) (tree : List (List Nat × List K)) :
    Option (List (List Nat × List K)) :=
  tree.mapM fun leaf =>
    (preservesShapeOld leaf.1 ss).map fun b => if b then (leaf.1, bmul ss s leaf.1 leaf.2) else leaf

/-! ## scalings -/

/-- `x ** n` for an integer `n ≥ 0` -/
def powN (x : K) : Nat → K
  | 0 => 1
  | n + 1 => powN x n * x

/-- a boolean array entering a product (`(k > c) * …`) -/
def ind (b : Bool) : K := if b then 1 else 0

section order
variable [LT K] [DecidableLT K]

def absV (x : K) : K := if x < 0 then -x else x

/-- `np.max` of a non-empty array (`none`: numpy raises on a zero-size array) -/
def maxL : List K → Option K
  | [] => none
  | a :: t => some (t.foldl (fun m x => if m < x then x else m) a)

/-- factor of `exponential_filter` at total wavenumber `l`:
 `exp((k > c) * (-a * (((k - c) / (1 - c)) ** (2 * p))))`, `k = l / lmax` -/
def expFactor (ex : K → K) (a : K) (p : Nat) (c lmax l : K) : K :=
  ex (ind (decide (c < l / lmax)) * (-a * powN ((l / lmax - c) / (1 - c)) (2 * p)))

/-- the 1-D scaling of `exponential_filter` (shape `(len ls,)`) -/
def expScaling (ex : K → K) (a : K) (p : Nat) (c : K) (ls : List K) : Option (List K) :=
  (maxL ls).map fun lmax => ls.map (expFactor ex a p c lmax)

/-- array-valued attenuation / order, one value per leading slice: the scaling has shape
 `(T, 1, …, 1, len ls)`; row `t` of the table is the 1-D scaling with `(as[t], ps[t])` -/
def expScalingArr (ex : K → K) (as : List K) (ps : List Nat) (c : K) (ls : List K) :
    Option (List (List K)) :=
  (maxL ls).map fun lmax => List.zipWith (fun a p => ls.map (expFactor ex a p c lmax)) as ps

end order

/-- `grid.laplacian_eigenvalues`: `-l * (l + 1) / radius**2` -/
def eigenvalue (radius l : K) : K := -l * (l + 1) / (radius * radius)

def eigenvalues (radius : K) (ls : List K) : List K := ls.map (eigenvalue radius)

/-- factor of `horizontal_diffusion_filter`: `exp(-scale * (-eigenvalue) ** order)` -/
def diffFactor (ex : K → K) (scale : K) (order : Nat) (eig : K) : K :=
  ex (-scale * powN (-eig) order)

def diffScaling (ex : K → K) (scale : K) (order : Nat) (eigs : List K) : List K :=
  eigs.map (diffFactor ex scale order)

/-- array-valued `scale` (one value per leading slice), shape `(T, 1, …, 1, len eigs)` -/
def diffScalingArr (ex : K → K) (scales : List K) (order : Nat) (eigs : List K) : List (List K) :=
  scales.map fun sc => diffScaling ex sc order eigs

/-- `exponential_filter(grid, a, p, c)` applied to a pytree -/
def exponentialFilter [LT K] [DecidableLT K] (ex : K → K) (a : K) (p : Nat) (c : K) (ls : List K)
    (tree : List (List Nat × List K)) : Option (List (List Nat × List K)) :=
  (expScaling ex a p c ls).map fun s => filterTree [ls.length] s tree

/-- `horizontal_diffusion_filter(grid, scale, order)` applied to a pytree -/
def horizontalDiffusionFilter (ex : K → K) (scale : K) (order : Nat) (radius : K) (ls : List K)
    (tree : List (List Nat × List K)) : List (List Nat × List K) :=
  filterTree [ls.length] (diffScaling ex scale order (eigenvalues radius ls)) tree

/-! ## step filters (`time_integration.py`) -/

/-- `runge_kutta_step_filter(f)(u, u_next) = f(u_next)` -/
def rkStepFilter {S : Type} (f : S → S) (_u uNext : S) : S := f uNext

/-- `leapfrog_step_filter(f)(u, (current, future)) = (current, f(future))` -/
def leapfrogStepFilter {S : Type} (f : S → S) (_u uNext : S × S) : S × S := (uNext.1, f uNext.2)

/-- attenuation used by `exponential_step_filter` / `exponential_leapfrog_step_filter` -/
def expStepAttenuation (dt tau : K) : K := dt / tau

section order
variable [LT K] [DecidableLT K]

/-- `np.abs(eigenvalues).max()` -/
def maxAbs (eigs : List K) : Option K := maxL (eigs.map absV)

/-- `scale = dt / (tau * np.abs(eigenvalues).max() ** order)` (current code) -/
def diffStepScale (dt tau : K) (order : Nat) (eigs : List K) : Option K :=
  (maxAbs eigs).map fun m => dt / (tau * powN m order)

/-- `scale = dt / (tau * abs(eigenvalues[-1]) ** order)` (before commit 3d38ca0) -/
def diffStepScaleOld (dt tau : K) (order : Nat) (eigs : List K) : Option K :=
  eigs.getLast?.map fun e => dt / (tau * powN (absV e) order)

/-- scaling of `exponential_step_filter(grid, dt, tau, order, cutoff)` -/
def expStepScaling (ex : K → K) (dt tau : K) (p : Nat) (c : K) (ls : List K) : Option (List K) :=
  expScaling ex (expStepAttenuation dt tau) p c ls

/-- scaling of `horizontal_diffusion_step_filter(grid, dt, tau, order)` -/
def diffStepScaling (ex : K → K) (dt tau : K) (order : Nat) (eigs : List K) : Option (List K) :=
  (diffStepScale dt tau order eigs).map fun sc => diffScaling ex sc order eigs

def diffStepScalingOld (ex : K → K) (dt tau : K) (order : Nat) (eigs : List K) : Option (List K) :=
  (diffStepScaleOld dt tau order eigs).map fun sc => diffScaling ex sc order eigs

/-- `exponential_step_filter(...)(u, u_next)` -/
def exponentialStepFilter (ex : K → K) (dt tau : K) (p : Nat) (c : K) (ls : List K)
    (u uNext : List (List Nat × List K)) : Option (List (List Nat × List K)) :=
  (expStepScaling ex dt tau p c ls).map fun s => rkStepFilter (filterTree [ls.length] s) u uNext

/-- `exponential_leapfrog_step_filter(...)(u, u_next)` -/
def exponentialLeapfrogStepFilter (ex : K → K) (dt tau : K) (p : Nat) (c : K) (ls : List K)
    (u uNext : List (List Nat × List K) × List (List Nat × List K)) :
    Option (List (List Nat × List K) × List (List Nat × List K)) :=
  (expStepScaling ex dt tau p c ls).map fun s => leapfrogStepFilter (filterTree [ls.length] s) u uNext

/-- `horizontal_diffusion_step_filter(...)(u, u_next)` -/
def horizontalDiffusionStepFilter (ex : K → K) (dt tau : K) (order : Nat) (radius : K) (ls : List K)
    (u uNext : List (List Nat × List K)) : Option (List (List Nat × List K)) :=
  (diffStepScaling ex dt tau order (eigenvalues radius ls)).map fun s =>
    rkStepFilter (filterTree [ls.length] s) u uNext

end order

/-- three-argument `tree_map` on the data of one leaf -/
def map3 {α β γ δ : Type} (f : α → β → γ → δ) : List α → List β → List γ → List δ
  | a :: as, b :: bs, c :: cs => f a b c :: map3 f as bs cs
  | _, _, _ => []

/-- `lambda p, c, f: (1 - 2 * r) * c + r * (p + f)` -/
def raPoint (r p c f : K) : K := (1 - (1 + 1) * r) * c + r * (p + f)

/-- `robert_asselin_leapfrog_filter(r)((previous, current), (_, future))`, states as flat data -/
def robertAsselin (r : K) (u uNext : List K × List K) : List K × List K :=
  (map3 (raPoint r) u.1 u.2 uNext.2, uNext.2)

end Dino.Filters
