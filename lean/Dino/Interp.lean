/-!
# Vertical interpolation and bilinear / nearest horizontal regridding — executable model
(core Lean only, no Mathlib)

Mirrors `dinosaur/vertical_interpolation.py` (`interp`, `_dot_interp`,
`linear_interp_with_linear_extrap`, `_extrapolate_both`, `_linear_interp_with_safe_extrap`,
`interp_sigma_to_pressure`, `interp_pressure_to_sigma`, `HybridCoordinates.get_sigma_centers`,
`interp_hybrid_to_sigma`, `get_surface_pressure`, `PressureCoordinates.__init__`), the semantics of
`jnp.interp` / `jnp.searchsorted(side='right')` / `jnp.clip` / out-of-range indexing that these
routines rely on, `primitive_equations._vertical_interp` (one column = `interp`), and
`BilinearRegridder` / `NearestRegridder` of `dinosaur/horizontal_interpolation.py`.

One column is a `List K` (index 0 = first node).  NaN is `Option.none`.  The scalar type is generic;
the driver runs the model at `Float`, the proofs instantiate it at an arbitrary ordered field.
`a ≤ b` is written `¬ b < a` (the two agree except on NaN, which is outside the model).
-/
namespace Dino.Interp

/-- the exception classes the implementation raises on malformed input -/
inductive Err
  | value | index | type
  deriving DecidableEq, Repr

section scalar
variable {K : Type} [Add K] [Sub K] [Mul K] [Div K] [Neg K] [Zero K] [One K] [LT K] [DecidableLT K]

/-- a boolean array entering an arithmetic expression (`w * (i == u)`) -/
def ind (b : Bool) : K := if b then 1 else 0

def absK (a : K) : K := if a < 0 then -a else a

/-- `jnp.searchsorted(xp, x, side='right')` on a sorted array: the number of nodes `≤ x`.
 (`method='compare_all'` computes literally this count; the default binary search agrees with it on
 sorted input — that contract is checked by the correspondence.) -/
def ssr (xp : List K) (x : K) : Nat := xp.countP fun a => decide (¬ x < a)

/-- `jnp.clip(u, 1, n - 1) = minimum(maximum(u, 1), n - 1)`.  For `n = 1` this is `0` and the
 implementation then reads index `i - 1 = -1`, which wraps to the only node `0` (as does the
 truncated subtraction used here); for `n = 0` no index is ever read. -/
def clipIdx (u n : Nat) : Nat := min (max u 1) (n - 1)

/-- index of the right node of the cell used for `x` -/
def cellIdx (xp : List K) (x : K) : Nat := clipIdx (ssr xp x) xp.length

/-- body of `jnp.interp` before the `left`/`right` replacement; `eps = np.spacing(finfo.eps)` -/
def interpCore (eps : K) (xp fp : List K) (x : K) : K :=
  let i := cellIdx xp x
  let df := fp.getD i 0 - fp.getD (i - 1) 0
  let dx := xp.getD i 0 - xp.getD (i - 1) 0
  let delta := x - xp.getD (i - 1) 0
  let dx0 : Bool := decide (¬ eps < absK dx)
  if dx0 then fp.getD (i - 1) 0 else fp.getD (i - 1) 0 + (delta / (if dx0 then 1 else dx)) * df

/-- `jnp.interp(x, xp, fp)` = `vertical_interpolation.interp` on CPU/GPU: constant beyond the ends -/
def interp (eps : K) (xp fp : List K) (x : K) : K :=
  let f := interpCore eps xp fp x
  let f := if x < xp.headD 0 then fp.headD 0 else f
  if xp.getLastD 0 < x then fp.getLastD 0 else f

/-- `jnp.interp(x, xp, fp, left=nan, right=nan)` -/
def interpNan (eps : K) (xp fp : List K) (x : K) : Option K :=
  let f := some (interpCore eps xp fp x)
  let f := if x < xp.headD 0 then none else f
  if xp.getLastD 0 < x then none else f

/-- `w = (x - xp[:-1]) / (xp[1:] - xp[:-1])` -/
def cellWeights (xp : List K) (x : K) : List K :=
  List.zipWith (fun a b => (x - a) / (b - a)) xp xp.tail

/-- the weight vector of `linear_interp_with_linear_extrap` (and of `_dot_interp` before its two
 `where`s): `pad(1 - w, (0,1)) * (i == u-1) + pad(w, (1,0)) * (i == u)`, `u = clip(ssr, 1, n-1)`.
 The comparison `i == u - 1` is made in `Int` (for one node `u = 0` and `u - 1 = -1` matches no `i`). -/
def linWeights (xp : List K) (x : K) : List K :=
  let w := cellWeights xp x
  let wl := w.map (fun t => 1 - t) ++ [0]
  let wr := (0 : K) :: w
  let u : Int := (cellIdx xp x : Nat)
  (List.range xp.length).map fun (i : Nat) =>
    wl.getD i 0 * ind (decide ((i : Int) = u - 1)) + wr.getD i 0 * ind (decide ((i : Int) = u))

/-- `jnp.dot` of two vectors of equal length -/
def dot (w fp : List K) : K := (List.zipWith (fun a b => a * b) w fp).sum

/-- `linear_interp_with_linear_extrap(x, xp, fp)` -/
def linearExtrap (xp fp : List K) (x : K) : K := dot (linWeights xp x) fp

/-- weights of `_dot_interp`: one-hot on the first node at and below it
 (`jnp.where(x <= xp[0], i == 0, weights)`), then one-hot on the last node above it
 (`jnp.where(x > xp[-1], i == (n - 1), weights)`) -/
def dotWeights (xp : List K) (x : K) : List K :=
  let n := xp.length
  let w := linWeights xp x
  let w := if ¬ xp.headD 0 < x then (List.range n).map (fun i => ind (decide (i = 0))) else w
  if xp.getLastD 0 < x then (List.range n).map (fun i => ind (decide (i + 1 = n))) else w

/-- `_dot_interp(x, xp, fp)`: the accelerator path of `interp` -/
def dotInterp (xp fp : List K) (x : K) : K := dot (dotWeights xp x) fp

/-- weights of `_dot_interp` BEFORE the repair of finding `dot-interp-one-node`: the first override
 was `jnp.where(x < xp[0], i == 0, weights)`, which with one node leaves the all-zero weights of
 `linWeights` in place when the query equals the node.  Kept as the regression witness. -/
def dotWeightsOld (xp : List K) (x : K) : List K :=
  let n := xp.length
  let w := linWeights xp x
  let w := if x < xp.headD 0 then (List.range n).map (fun i => ind (decide (i = 0))) else w
  if xp.getLastD 0 < x then (List.range n).map (fun i => ind (decide (i + 1 = n))) else w

/-- `_dot_interp` before the repair (not what the code does any more) -/
def dotInterpOld (xp fp : List K) (x : K) : K := dot (dotWeightsOld xp x) fp

/-- `_extrapolate_left`; `y[1]` of a one-element array is clamped to `y[0]` by JAX -/
def extrapLeft (y : List K) : List K :=
  (y.headD 0 - (y.getD 1 (y.headD 0) - y.headD 0)) :: y

/-- `_extrapolate_right`; `y[-2]` of a one-element array is clamped to `y[0]` by JAX -/
def extrapRight (y : List K) : List K :=
  y ++ [y.getLastD 0 + (y.getLastD 0 - y.getD (y.length - 2) 0)]

def extrapBoth (y : List K) : List K := extrapLeft (extrapRight y)

def padN : Nat → List K → List K
  | 0, y => y
  | k + 1, y => padN k (extrapBoth y)

/-- `_linear_interp_with_safe_extrap(x, xp, fp, n=k)` -/
def safeInterp (eps : K) (k : Nat) (xp fp : List K) (x : K) : Option K :=
  interpNan eps (padN k xp) (padN k fp) x

/-! ### the same routines with the validation / failure modes of the implementation -/

def interpChecked (eps : K) (xp fp xs : List K) : Except Err (List K) :=
  if xp.length ≠ fp.length then .error .value       -- jnp.interp: shapes differ
  else if xp.length = 0 then .error .index           -- fp[i] of an empty array
  else .ok (xs.map (interp eps xp fp))

def dotChecked (xp fp xs : List K) : Except Err (List K) :=
  if xp.length = 0 then .error .index                -- xp[0]
  else if xp.length ≠ fp.length then .error .type    -- jnp.dot: contracting dimensions differ
  else .ok (xs.map (dotInterp xp fp))

/-- the pre-repair `_dot_interp` (replayed against the model only) -/
def dotOldChecked (xp fp xs : List K) : Except Err (List K) :=
  if xp.length = 0 then .error .index
  else if xp.length ≠ fp.length then .error .type
  else .ok (xs.map (dotInterpOld xp fp))

def linextChecked (xp fp xs : List K) : Except Err (List K) :=
  if xp.length ≠ fp.length then .error .type
  else .ok (xs.map (linearExtrap xp fp))

def safeChecked (eps : K) (k : Nat) (xp fp xs : List K) : Except Err (List (Option K)) :=
  if k = 0 then
    if xp.length ≠ fp.length then .error .value
    else if xp.length = 0 then .error .index
    else .ok (xs.map (safeInterp eps k xp fp))
  else if xp.length = 0 then .error .index           -- y[-1] in _extrapolate_right(xp)
  else if fp.length = 0 then .error .index           -- y[-1] in _extrapolate_right(fp)
  else if xp.length ≠ fp.length then .error .value
  else .ok (xs.map (safeInterp eps k xp fp))

/-! ### pressure / sigma / hybrid coordinates (one column) -/

/-- `interp_sigma_to_pressure`: `interpolate_fn(pressure / surface_pressure, sigma.centers, f)` -/
def sigmaToPressure (fn : List K → List K → K → Option K) (sigmaC pC : List K) (sp : K)
    (f : List K) : List (Option K) :=
  pC.map fun p => fn sigmaC f (p / sp)

/-- `interp_pressure_to_sigma`: `interpolate_fn(sigma.centers * surface_pressure, pressure, f)` -/
def pressureToSigma (fn : List K → List K → K → Option K) (pC sigmaC : List K) (sp : K)
    (f : List K) : List (Option K) :=
  sigmaC.map fun s => fn pC f (s * sp)

/-- `HybridCoordinates.get_sigma_boundaries`: `a / sp + b` -/
def hybridBoundaries (a b : List K) (sp : K) : List K :=
  List.zipWith (fun a b => a / sp + b) a b

/-- `(boundaries[1:] + boundaries[:-1]) / 2` -/
def mids : List K → List K
  | a :: b :: t => ((b + a) / (1 + 1)) :: mids (b :: t)
  | _ => []

/-- `HybridCoordinates.get_sigma_centers` -/
def hybridCenters (a b : List K) (sp : K) : List K := mids (hybridBoundaries a b sp)

/-- `interp_hybrid_to_sigma` (safe extrapolation by one cell, source nodes depend on `sp`) -/
def hybridToSigma (eps : K) (a b sigmaC : List K) (sp : K) (f : List K) : List (Option K) :=
  sigmaC.map fun s => safeInterp eps 1 (hybridCenters a b sp) f s

/-- `get_surface_pressure`: the pressure at which `orography * g - geopotential` (as a function of
 the level, linearly extrapolated) vanishes -/
def surfacePressure (levels geo : List K) (oro g : K) : K :=
  linearExtrap (geo.map fun z => oro * g - z) levels 0

/-- `PressureCoordinates.__init__`: `all(np.diff(centers) > 0)` -/
def increasing : List K → Bool
  | a :: b :: t => decide (0 < b - a) && increasing (b :: t)
  | _ => true

/-! ### horizontal regridders -/

/-- `BilinearRegridder.__call__` on one 2-D field `field[lon][lat]`: `jnp.interp` along latitude,
 then along longitude (constant beyond the end nodes, no periodic wrap). -/
def bilinear (eps : K) (lonS latS lonT latT : List K) (field : List (List K)) : List (List K) :=
  let f1 := field.map fun row => latT.map (interp eps latS row)
  lonT.map fun lo =>
    (List.range latT.length).map fun j => interp eps lonS (f1.map fun row => row.getD j 0) lo

def argminAux (best : K) (bi i : Nat) : List K → Nat
  | [] => bi
  | a :: t => if a < best then argminAux a i (i + 1) t else argminAux best bi (i + 1) t

/-- index of the first minimum (`np.argmin`) -/
def argminFirst : List K → Nat
  | [] => 0
  | a :: t => argminAux a 0 1 t

/-- `sin²(Δlat/2) + cos(lat₁) cos(lat₂) sin²(Δlon/2)`; the haversine distance of sklearn's BallTree is
 `2·arcsin(√·)` of it (monotone), `sin`, `cos` are external -/
def haversine (sin cos : K → K) (lat1 lon1 lat2 lon2 : K) : K :=
  let s1 := sin ((lat2 - lat1) / (1 + 1))
  let s2 := sin ((lon2 - lon1) / (1 + 1))
  s1 * s1 + cos lat1 * cos lat2 * (s2 * s2)

/-- `nearest_neighbor_indices` by brute force: for every target point the first source point at
 minimal distance -/
def nearest {P : Type} (d : P → P → K) (src tgt : List P) : List Nat :=
  tgt.map fun t => argminFirst (src.map (d t))

end scalar

/-- `array.ravel().take(indices)` (out-of-range indices are filled with NaN) -/
def takeIdx {K : Type} (field : List K) (idx : List Nat) : List (Option K) :=
  idx.map fun i => field[i]?

end Dino.Interp
