import Dino.Util
/-!
# `jax_numpy_utils.sharded_einsum` — the hand-written string / index logic (core Lean only)

Mirrors, as far as it is pure string and index logic:

* `_parse_einsum_subscripts` (the regular expression `(\w+),(\w+)->(\w+)`, ASCII word characters),
* `_determine_reduce_subscript`, `_determine_transfer_subscript`,
* `_reversed_arg_order_einsum` (the construction of the new subscripts),
* the part of `sharded_einsum` that chooses between the all-gather and the reduce-scatter matmul and builds
  `lhs_spec`, `split_axis` / `scatter_axis` and the name of the mesh axis that is reduced over.

Subscripts are `List Char`; a `PartitionSpec` is a `List (Option String)` (`None` or an axis name; a tuple
of axis names travels as the names joined with `+`).  Python exceptions are `Except.error` with the tags
`value-error` (`ValueError`) and `index-error` (`IndexError`, a spec shorter than the subscripts).
`jnp.einsum` itself, `jax.eval_shape`, `shard_map` and the collectives are executed by the check, not
modelled; `einsum2` below is the *denotation* of a two-operand einsum used to state that the reversed
argument order computes the same contraction.
-/
namespace Dino.ShardEinsum

abbrev Res (α : Type) := Except String α

def valueError {α : Type} : Res α := .error "value-error"
def indexError {α : Type} : Res α := .error "index-error"

/-- `\w` restricted to ASCII: letters, digits, underscore -/
def isWord (c : Char) : Bool := c.isAlphanum || c == '_'

/-- `'...' in s` -/
def hasEllipsis : List Char → Bool
  | '.' :: '.' :: '.' :: _ => true
  | _ :: t => hasEllipsis t
  | [] => false

/-- `_parse_einsum_subscripts`: `re.fullmatch(r'(\w+)\,(\w+)\-\>(\w+)', subscripts)` after rejecting an
 ellipsis.  (The three groups cannot contain `,`, `-`, `>`, so the match is unique.) -/
def parseSubscripts (s : List Char) : Res (List Char × List Char × List Char) :=
  if hasEllipsis s then valueError else
  match s.dropWhile isWord with
  | ',' :: rest =>
    match rest.dropWhile isWord with
    | '-' :: '>' :: o =>
      if (s.takeWhile isWord).isEmpty || (rest.takeWhile isWord).isEmpty || o.isEmpty || !o.all isWord
      then valueError else .ok (s.takeWhile isWord, rest.takeWhile isWord, o)
    | _ => valueError
  | _ => valueError

/-- `spec[i]` of a `PartitionSpec` (`IndexError` beyond its length) -/
def specAt (spec : List (Option String)) (i : Nat) : Res (Option String) :=
  match spec[i]? with
  | some v => .ok v
  | none => indexError

/-- the `for subscript in lhs_subscripts: if …: subscripts.append(subscript)` loops (an exception raised by
 the condition at the first offending letter propagates) -/
def candidates (keep : Char → Res Bool) : List Char → Res (List Char)
  | [] => .ok []
  | c :: cs => do
    let b ← keep c
    let rest ← candidates keep cs
    pure (if b then c :: rest else rest)

/-- `len(subscripts) != 1 → ValueError`, else the single element -/
def single (cs : List Char) : Res Char :=
  match cs with
  | [c] => .ok c
  | _ => valueError

/-- condition of `_determine_reduce_subscript`:
 `subscript not in out and subscript in rhs and rhs_spec[rhs.index(subscript)] is not None` -/
def keepReduce (r o : List Char) (rhsSpec : List (Option String)) (c : Char) : Res Bool :=
  if !o.contains c && r.contains c then do
    let a ← specAt rhsSpec (r.idxOf c)
    pure a.isSome
  else pure false

/-- condition of `_determine_transfer_subscript`:
 `subscript not in rhs and subscript in out and out_spec[out.index(subscript)] is not None` -/
def keepTransfer (r o : List Char) (outSpec : List (Option String)) (c : Char) : Res Bool :=
  if !r.contains c && o.contains c then do
    let a ← specAt outSpec (o.idxOf c)
    pure a.isSome
  else pure false

/-- `_determine_reduce_subscript(lhs, rhs, out, rhs_spec)` -/
def determineReduce (l r o : List Char) (rhsSpec : List (Option String)) : Res Char := do
  let cs ← candidates (keepReduce r o rhsSpec) l
  single cs

/-- `_determine_transfer_subscript(lhs, rhs, out, out_spec)` -/
def determineTransfer (l r o : List Char) (outSpec : List (Option String)) : Res Char := do
  let cs ← candidates (keepTransfer r o outSpec) l
  single cs

/-! ## `_reversed_arg_order_einsum`: `str.split` and the new subscripts -/

/-- `s.split('->')` -/
def splitArrow : List Char → List (List Char)
  | [] => [[]]
  | '-' :: '>' :: t => [] :: splitArrow t
  | c :: t =>
    match splitArrow t with
    | h :: rest => (c :: h) :: rest
    | [] => [[c]]

/-- `s.split(',')` -/
def splitComma : List Char → List (List Char)
  | [] => [[]]
  | ',' :: t => [] :: splitComma t
  | c :: t =>
    match splitComma t with
    | h :: rest => (c :: h) :: rest
    | [] => [[c]]

/-- `f'{rhs},{lhs}->{out}'` -/
def joinSubscripts (a b o : List Char) : List Char := a ++ ',' :: b ++ '-' :: '>' :: o

/-- the subscripts handed to `jnp.einsum(new_subscripts, y, x)` by `_reversed_arg_order_einsum`; the two
 tuple unpackings raise `ValueError` unless there are exactly two parts -/
def reversedSubscripts (s : List Char) : Res (List Char) :=
  match splitArrow s with
  | [ins, o] =>
    match splitComma ins with
    | [l, r] => .ok (joinSubscripts r l o)
    | _ => valueError
  | _ => valueError

/-! ## the strategy chosen by `sharded_einsum` -/

/-- `math.prod(shape)` -/
def prodL (s : List Nat) : Nat := s.foldl (· * ·) 1

/-- shape of `jnp.einsum(subscripts, lhs, rhs)` for consistent operand shapes: every output letter takes
 its extent from `lhs` when it occurs there, else from `rhs` -/
def outShape (l r o : List Char) (lhsShape rhsShape : List Nat) : List Nat :=
  o.map fun c => if l.contains c then lhsShape.getD (l.idxOf c) 1 else rhsShape.getD (r.idxOf c) 1

/-- `[spec[subs.index(i)] if i in subs else None for i in lhs_subscripts]` -/
def lhsPartitions (l subs : List Char) (spec : List (Option String)) : Res (List (Option String)) :=
  l.mapM fun c => if subs.contains c then specAt spec (subs.idxOf c) else pure none

/-- `if gather_inputs is None: gather_inputs = math.prod(out_shape) > math.prod(rhs.shape)` -/
def chooseGather (gatherInputs : Option Bool) (outVolume rhsVolume : Nat) : Bool :=
  match gatherInputs with
  | some g => g
  | none => decide (outVolume > rhsVolume)

structure Plan where
  /-- `True`: `_allgather_matmul_twoway`, `False`: `_matmul_reducescatter_twoway` -/
  gather : Bool
  /-- `lhs_spec` -/
  lhsSpec : List (Option String)
  /-- `split_axis` (gather) or `scatter_axis` -/
  axis : Nat
  /-- `axis_name = rhs_spec[rhs.index(reduce_subscript)]` -/
  axisName : Option String
  reduce : Char
  transfer : Char
deriving Repr, DecidableEq

/-- the decisions of `sharded_einsum` on a mesh (`mesh is not None`), from the subscripts string, the
 operand shapes, the two specs and the `gather_inputs` option (`none` = choose by data volume) -/
def plan (subscripts : List Char) (lhsShape rhsShape : List Nat) (gatherInputs : Option Bool)
    (rhsSpec outSpec : List (Option String)) : Res Plan := do
  let (l, r, o) ← parseSubscripts subscripts
  let red ← determineReduce l r o rhsSpec
  let tr ← determineTransfer l r o outSpec
  let name ← specAt rhsSpec (r.idxOf red)
  if chooseGather gatherInputs (prodL (outShape l r o lhsShape rhsShape)) (prodL rhsShape) then do
    let parts ← lhsPartitions l o outSpec
    pure { gather := true, lhsSpec := parts, axis := l.idxOf red, axisName := name, reduce := red, transfer := tr }
  else do
    let parts ← lhsPartitions l r rhsSpec
    pure { gather := false, lhsSpec := parts, axis := l.idxOf tr, axisName := name, reduce := red, transfer := tr }

/-! ## denotation of a two-operand einsum -/

section denotation
variable {K : Type} [Add K] [Mul K] [Zero K]

/-- the ASCII letters (in code order) that are contracted: they occur in an operand and not in the output -/
def summedLetters (l r o : List Char) : List Char :=
  ((List.range 128).map Char.ofNat).filter fun c => (l.contains c || r.contains c) && !o.contains c

/-- `Σ` over the index values of the letters `cs` of `A[l-indices] * B[r-indices]`; `env` gives the values
 of the remaining (output) letters, `dims c` the extent of letter `c` -/
def einsumAt (dims : Char → Nat) (A B : List Nat → K) (l r : List Char) :
    List Char → (Char → Nat) → K
  | [], env => A (l.map env) * B (r.map env)
  | c :: cs, env =>
    ((List.range (dims c)).map fun v => einsumAt dims A B l r cs (fun x => if x = c then v else env x)).sum

/-- entry `env` (values of the output letters) of `einsum('l,r->o', A, B)` -/
def einsum2 (dims : Char → Nat) (l r o : List Char) (A B : List Nat → K) (env : Char → Nat) : K :=
  einsumAt dims A B l r (summedLetters l r o) env

end denotation

end Dino.ShardEinsum
