import Dino.Dynamics
import Dino.DynamicsSW
import Dino.Forcing
import Dino.Units
/-!
# `Scaling` — change of the non-dimensionalisation as a group action (core Lean only)

`dinosaur/scales.py` turns a quantity of dimension `L^a T^b M^c Θ^d` into the number
`value_SI / (L₀^a T₀^b M₀^c Θ₀^d)` (`Scale.nondimensionalize`, modelled in `Dino.Units`).  If the
*same* SI problem is set up under a second scale, every number is multiplied by
`l^a t^b m^c θ^d`, where `l, t, m, θ` are the ratios (first unit / second unit) of the base
units.  This file writes that action down for everything the equation classes consume:

| quantity | dimension | factor |
|---|---|---|
| radius, orography (primitive equations) | L | `l` |
| Ω, vorticity, divergence, `σ̇`, `u·∇ ln p_s`, Held–Suarez `k_f, k_a, k_s` | T⁻¹ | `wF = t⁻¹` |
| `cos θ · u` | L T⁻¹ | `wV` |
| g | L T⁻² | `wA` |
| geopotential, `R·T`, shallow-water potential / orography / reference potential | L² T⁻² | `wE` |
| R, R_v, c_p,v | L² T⁻² Θ⁻¹ | `wR` |
| κ, σ, tracers | 1 | 1 |
| T_ref, T', Held–Suarez `minT, maxT, ΔT_y, Δθ_z` | Θ | `θ` |
| laplacian, its eigenvalues | L⁻² | `wL2` |
| horizontal gradient | L⁻¹ | `wIL` |
| pressure, `p0` | M L⁻¹ T⁻² | `wP`; `ln p_s` gets the additive constant `c = log wP` in the constant mode |
| density | M L⁻³ | `wRho` |
| sim_time, time step `dt`, `η` | T | `t` |

The logarithm is external to the model, so the constant `c` is a parameter everywhere.

`Scale.w g d` is the factor of an arbitrary exponent vector `d = [a, b, c, d]`; the named factors
above are instances of it (`DinoProofs/Properties/C12.lean`, `w_*`), and `Scale.w (ofUnits a b) d` is
the ratio of the two `Units.factor`s (`nondim_change_of_scale`).

The driver (`Dino/ScalingDrv.lean`, token `scl`) evaluates these definitions on the numbers that
`PrimitiveEquationsSpecs.from_si`, `ShallowWaterSpecs.from_si`, `HeldSuarezForcing.__init__`,
`Scale.nondimensionalize` and `Grid(radius=…)` produce under two scales.
-/
namespace Dino.Scaling
open Dino Dino.Dynamics

/-- ratios of the base units of two non-dimensionalisations (old unit / new unit) -/
structure Scale (K : Type) where
  l : K
  t : K
  m : K
  θ : K

namespace Scale
section
variable {K : Type} [Mul K] [Div K] [One K] (g : Scale K)
/-- frequency `T⁻¹` -/
def wF : K := 1 / g.t
/-- velocity `L T⁻¹` -/
def wV : K := g.l * (1 / g.t)
/-- acceleration `L T⁻²` -/
def wA : K := g.l * ((1 / g.t) * (1 / g.t))
/-- specific energy `L² T⁻²` (geopotential, `R·T`) -/
def wE : K := g.l * g.l * ((1 / g.t) * (1 / g.t))
/-- gas constants / heat capacities `L² T⁻² Θ⁻¹` -/
def wR : K := g.l * g.l * ((1 / g.t) * (1 / g.t)) * (1 / g.θ)
/-- inverse length `L⁻¹` -/
def wIL : K := 1 / g.l
/-- inverse area `L⁻²` -/
def wL2 : K := (1 / g.l) * (1 / g.l)
/-- area `L²` -/
def wAr : K := g.l * g.l
/-- pressure `M L⁻¹ T⁻²` (its logarithm is the constant added to `ln p_s`) -/
def wP : K := g.m * (1 / g.l) * ((1 / g.t) * (1 / g.t))
/-- density `M L⁻³` -/
def wRho : K := g.m * ((1 / g.l) * (1 / g.l) * (1 / g.l))

/-- the factor of an arbitrary dimension vector `[length, time, mass, temperature]` -/
def w (d : List Int) : K :=
  Units.zpow g.l (Units.dget d 0) * Units.zpow g.t (Units.dget d 1)
    * Units.zpow g.m (Units.dget d 2) * Units.zpow g.θ (Units.dget d 3)

/-- the ratios of the base units of scale `a` to those of scale `b`: a number under `a` becomes a
 number under `b` by the action of `ofUnits a b` -/
def ofUnits (a b : Scale K) : Scale K := ⟨a.l / b.l, a.t / b.t, a.m / b.m, a.θ / b.θ⟩

/-- the base units as a `scales.Scale` in the sense of `Dino.Units` -/
def asUnits : List (Option K) := [some g.l, some g.t, some g.m, some g.θ]
end
end Scale

/-! ## parameters -/
section params
variable {K M N : Type} [Mul K] [Div K] [One K] [SMul K M]

/-- the horizontal operations of a grid whose radius is `l` times larger
 (`spherical_harmonic.Grid`: `laplacian_eigenvalues = -n(n+1)/radius²`, `cos_lat_grad`,
 `div_cos_lat`, `curl_cos_lat` divide by `radius`; nothing else depends on it) -/
def actOps (g : Scale K) (h : HOps K M N) : HOps K M N :=
  { h with
    laplacian := fun x => g.wL2 • h.laplacian x
    inverseLaplacian := fun x => g.wAr • h.inverseLaplacian x
    lapEig := fun n => g.wL2 * h.lapEig n
    radius := g.l * h.radius }

/-- `PrimitiveEquationsSpecs.from_si` under the other scale -/
def actPhys (g : Scale K) (ph : Phys K) : Phys K :=
  { angularVelocity := g.wF * ph.angularVelocity
    g := g.wA * ph.g
    R := g.wR * ph.R
    Rvapor := g.wR * ph.Rvapor
    CpVapor := g.wR * ph.CpVapor
    kappa := ph.kappa }

/-- the same physical problem under the other scale -/
def actEq (g : Scale K) (p : PrimitiveEquations K M N) : PrimitiveEquations K M N :=
  { ops := actOps g p.ops
    vert := p.vert
    phys := actPhys g p.phys
    referenceTemperature := p.referenceTemperature.map (g.θ * ·)
    orography := g.l • p.orography
    includeVerticalAdvection := p.includeVerticalAdvection }

/-- `ShallowWaterSpecs.from_si` under the other scale -/
def actSpecs (g : Scale K) (s : DynamicsSW.Specs K) : DynamicsSW.Specs K :=
  { densities := s.densities.map (g.wRho * ·)
    radius := g.l * s.radius
    angularVelocity := g.wF * s.angularVelocity
    gravityAcceleration := g.wA * s.gravityAcceleration }

/-- the same shallow-water problem under the other scale (orography and reference potential are
 geopotentials `g·h`) -/
def actSW (g : Scale K) (p : DynamicsSW.ShallowWaterEquations K M N) :
    DynamicsSW.ShallowWaterEquations K M N :=
  { ops := actOps g p.ops
    specs := actSpecs g p.specs
    orography := p.orography.map (g.wE • ·)
    referencePotential := p.referencePotential.map (g.wE * ·) }

/-- `HeldSuarezForcing.__init__` under the other scale (`sigma_b`, `kappa` are pure numbers) -/
def actHS (g : Scale K) (P : Forcing.HSParams K) : Forcing.HSParams K :=
  { p0 := g.wP * P.p0
    kappa := P.kappa
    minT := g.θ * P.minT
    maxT := g.θ * P.maxT
    dTy := g.θ * P.dTy
    dThz := g.θ * P.dThz
    sigmaB := P.sigmaB
    kf := g.wF * P.kf
    ka := g.wF * P.ka
    ks := g.wF * P.ks }

end params

/-! ## states and tendencies -/
section states
variable {K M N : Type} [Mul K] [Div K] [One K] [Add M] [SMul K M] [SMul K N]

/-- the state under the other scale: every component multiplied by the factor of its dimension,
 the constant `c` added to the constant mode of `ln p_s`, tracers unchanged -/
def actState (g : Scale K) (c : K) (one : M) (s : State M) : State M :=
  { vorticity := Col.smul g.wF s.vorticity
    divergence := Col.smul g.wF s.divergence
    temperatureVariation := Col.smul g.θ s.temperatureVariation
    logSurfacePressure := s.logSurfacePressure + c • one
    tracers := s.tracers }

/-- a tendency under the other scale: one more inverse-time factor, no additive constant -/
def actTend (g : Scale K) (s : State M) : State M :=
  { vorticity := Col.smul (g.wF * g.wF) s.vorticity
    divergence := Col.smul (g.wF * g.wF) s.divergence
    temperatureVariation := Col.smul (g.θ * g.wF) s.temperatureVariation
    logSurfacePressure := g.wF • s.logSurfacePressure
    tracers := mapTracers (Col.smul g.wF) s.tracers }

def actStateT (g : Scale K) (c : K) (one : M) (s : StateWithTime K M) : StateWithTime K M :=
  { state := actState g c one s.state, simTime := g.t * s.simTime }

/-- `d(sim_time)/dt` is a pure number -/
def actTendT (g : Scale K) (s : StateWithTime K M) : StateWithTime K M :=
  { state := actTend g s.state, simTime := s.simTime }

/-- the diagnostic state under the other scale -/
def actDiag (g : Scale K) (a : Diag N) : Diag N :=
  { vorticity := Col.smul g.wF a.vorticity
    divergence := Col.smul g.wF a.divergence
    temperatureVariation := Col.smul g.θ a.temperatureVariation
    cosLatU := (Col.smul g.wV a.cosLatU.1, Col.smul g.wV a.cosLatU.2)
    sigmaDotExplicit := Col.smul g.wF a.sigmaDotExplicit
    sigmaDotFull := Col.smul g.wF a.sigmaDotFull
    cosLatGradLogSp := (g.wIL • a.cosLatGradLogSp.1, g.wIL • a.cosLatGradLogSp.2)
    uDotGradLogSp := Col.smul g.wF a.uDotGradLogSp
    tracers := a.tracers }

/-- shallow-water state under the other scale -/
def actStateSW (g : Scale K) (s : DynamicsSW.State M) : DynamicsSW.State M :=
  { vorticity := Col.smul g.wF s.vorticity
    divergence := Col.smul g.wF s.divergence
    potential := Col.smul g.wE s.potential }

/-- shallow-water tendency under the other scale -/
def actTendSW (g : Scale K) (s : DynamicsSW.State M) : DynamicsSW.State M :=
  { vorticity := Col.smul (g.wF * g.wF) s.vorticity
    divergence := Col.smul (g.wF * g.wF) s.divergence
    potential := Col.smul (g.wE * g.wF) s.potential }

end states

/-! ## the inverse of the implicit matrix -/
section inverse
variable {K : Type} [Mul K] [Div K] [One K]

/-- multiply every entry of a matrix by `k` -/
def scaleMat (k : K) (m : List (List K)) : List (List K) := m.map fun row => row.map (k * ·)

/-- factor of state component `i` of the stacked vector `(δ[0..n), T'[0..n), ln p_s)` -/
def stackWeight (g : Scale K) (n i : Nat) : K :=
  if i < n then g.wF else if i < 2 * n then g.θ else 1

/-- `S · A · S⁻¹` for the diagonal matrix `S = diag (stackWeight g n)`: what the inverse of the
 implicit matrix becomes under the other scale (`η' = t·η`) -/
def actInverse (g : Scale K) (n : Nat) (a : List (List K)) : List (List K) :=
  (List.range a.length).map fun i =>
    let row := a.getD i []
    (List.range row.length).map fun j => stackWeight g n i * row.getD j 1 / stackWeight g n j

end inverse

end Dino.Scaling
