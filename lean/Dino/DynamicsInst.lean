import Dino.Dynamics
import Dino.Grid
/-!
# `DynamicsInst` — the CONCRETE instance of the abstract spectral model (core Lean only)

`Dino.Dynamics.HOps K M N` is a record of horizontal operations over abstract carriers.  Here the
carriers are instantiated with arrays of the shape of one `spherical_harmonic.Grid`:

* `Mat R C K = Fin R → Fin C → K` — modal arrays `[modal row][l]` of shape `rows × cols`, nodal
  arrays `[lon node][lat node]` of shape `nlon × nlat`.  (Functions, so that the module / pointwise
  commutative-ring structure is the `Pi` one; `toL` / `ofL` convert to and from the list model.)
* every operation of `gridOps g` is **literally the list-model function of `Dino.Grid` / `Dino.SH`**
  conjugated by the conversion: `op x = ofL (Grid.op (toL x))`.  Nothing is re-implemented, so the
  instance cannot deviate from the model that C01/C02/C09 are about and that the harness diffs
  against the real `Grid`.

`GridData` holds what a `Grid` holds: the layout, the transform pair, the two recurrence-weight arrays,
the radius, the nodal tables and the normalisation of the constant mode.  `GridData.ofGrid` builds it from a basis
`(f, p, w)`, `sin(lat)`, `sqrt` and the radius exactly as `Dino.Grid` does (`shTransforms`, `weightA`,
`weightB`, `cosLat`, `sec2Lat`).  The transform pair is a field (not the basis) so that the rational
instance of C02 (`lyT`: a monic-Legendre pair with *different* synthesis / analysis tables and rational
recurrence weights) is an instance too.
-/
namespace Dino.DynamicsInst
open Dino Dino.Dynamics Dino.Grid Dino.SH

/-- `R × C` arrays as functions -/
abbrev Mat (R C : Nat) (K : Type) := Fin R → Fin C → K

section conv
variable {K : Type} [Zero K]

/-- zero extension of an array to all index pairs -/
def ext0 {R C : Nat} (x : Mat R C K) (a b : Nat) : K :=
  if h : a < R ∧ b < C then x ⟨a, h.1⟩ ⟨b, h.2⟩ else 0

/-- the list-model array (`[row][column]`) of a function array -/
def toL {R C : Nat} (x : Mat R C K) : List (List K) :=
  (List.range R).map fun a => (List.range C).map fun b => ext0 x a b

/-- the function array read off a list-model array (missing entries read as 0) -/
def ofL {R C : Nat} (l : List (List K)) : Mat R C K := fun i j => (l.getD i.val []).getD j.val 0

end conv

variable {K : Type} [Add K] [Sub K] [Mul K] [Div K] [Neg K] [Zero K] [One K] [NatCast K]

/-- the data of one `spherical_harmonic.Grid` -/
structure GridData (K : Type) where
  /-- modal layout (`RealSphericalHarmonics` / `FastSphericalHarmonics`, sizes, padding) -/
  ly : Layout
  /-- `nodal_shape` -/
  nlon : Nat
  nlat : Nat
  /-- `to_nodal` / `to_modal` (list model) -/
  T : Transforms K
  /-- `_derivative_recurrence_weights` -/
  a : List (List K)
  b : List (List K)
  radius : K
  /-- `cos_lat`, `sec2_lat`, `sin_lat` along the latitude axis -/
  cosLat : List K
  sec2Lat : List K
  sinLat : List K
  /-- `_CONSTANT_NORMALIZATION_FACTOR`: the `(0,0)` coefficient of the constant field one -/
  c00 : K

/-- the data as `Dino.Grid` / `Dino.SH` build them from a basis `(f, p, w)`, `sin(lat)`, an external `sqrt`
 and the radius -/
def GridData.ofGrid (sqrt : K → K) (ly : Layout) (bs : Basis K) (nlon : Nat) (sinLat : List K) (r c00 : K) :
    GridData K :=
  { ly := ly, nlon := nlon, nlat := bs.w.length
    T := shTransforms ly bs
    a := weightA sqrt ly, b := weightB sqrt ly
    radius := r
    cosLat := Grid.cosLat sqrt sinLat, sec2Lat := Grid.sec2Lat sinLat, sinLat := sinLat
    c00 := c00 }

/-- modal carrier of a grid -/
abbrev GridData.Modal (g : GridData K) : Type := Mat g.ly.rows g.ly.cols K
/-- nodal carrier of a grid -/
abbrev GridData.Nodal (g : GridData K) : Type := Mat g.nlon g.nlat K

/-- **the concrete instance**: every operation is the list-model function conjugated by `toL` / `ofL` -/
def gridOps (g : GridData K) : HOps K g.Modal g.Nodal where
  toNodal x := ofL (g.T.toNodal (toL x))
  toModal z := ofL (g.T.toModal (toL z))
  dDlon x := ofL (Grid.dDlon g.ly (toL x))
  cosLatDDlat x := ofL (cosLatDDlatW g.ly g.a g.b (toL x))
  secLatDDlatCos2 x := ofL (secLatDDlatCos2W g.ly g.a g.b (toL x))
  laplacian x := ofL (Grid.laplacian g.ly g.radius (toL x))
  inverseLaplacian x := ofL (Grid.inverseLaplacian g.ly g.radius (toL x))
  clip x := ofL (Grid.clip g.ly 1 (toL x))
  lproj l x := fun i j => if j.val = l then x i j else 0
  nL := g.ly.cols
  lapEig l := (eigenvalues g.ly g.radius).getD l 0
  cosLat := fun _ j => g.cosLat.getD j.val 0
  sec2Lat := fun _ j => g.sec2Lat.getD j.val 0
  sinLat := fun _ j => g.sinLat.getD j.val 0
  oneModal := fun i j => if i.val = 0 ∧ j.val = 0 then g.c00 else 0
  radius := g.radius

end Dino.DynamicsInst
