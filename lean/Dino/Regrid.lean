/-!
# Conservative regridding — executable model (core Lean only)

Mirrors `dinosaur/horizontal_interpolation.py` (`_assert_increasing`, `_latitude_cell_bounds`,
`_latitude_overlap`, `conservative_latitude_weights`, `_align_phase_with`,
`_periodic_upper_bounds`, `_periodic_lower_bounds`, `_periodic_overlap`, `_longitude_overlap`,
`conservative_longitude_weights`, `ConservativeRegridder._mean`, `ConservativeRegridder.__call__`)
and the conservative part of `dinosaur/vertical_interpolation.py`
(`HybridCoordinates.get_sigma_boundaries`, `_interval_overlap`, `conservative_regrid_weights`,
`regrid_hybrid_to_sigma`).

Conventions.
* generic scalar `K` with core classes only; the order is `[LT K] [DecidableLT K]`
  (`Float`/`Rat` in the driver, a linearly ordered field in the proofs);
* external functions are parameters: `g` is `jnp.sin`, `md x p` is Python's `x % p`;
* `hp` is `np.pi / 2`, `P` the period (`2 * np.pi` by default);
* a weight matrix is a list of rows (`[target][source]`), a 2-D field is `[lon][lat]`;
* a NaN *in the field* is `none` (`Option K`); the NaN produced by `0/0` in
  `mean / not_null_fraction` is made explicit in `cellValue`.  NaN produced by arithmetic on
  coordinates is outside the model;
* `ValueError` is `none` in `latWeights`, `lonWeights`, `regridHybridToSigma`, `regrid`.
  `_assert_increasing` only looks at `np.ndarray` arguments (that is what `Grid.latitudes`,
  `Grid.longitudes` are); the model always checks.
-/
namespace Dino.Regrid

variable {K : Type} [Add K] [Sub K] [Mul K] [Div K] [Neg K] [Zero K] [One K]

/-! ## small array helpers -/

/-- `np.diff` -/
def diffs : List K → List K
  | a :: b :: t => (b - a) :: diffs (b :: t)
  | _ => []

/-- `(x[:-1] + x[1:]) / 2` -/
def mids : List K → List K
  | a :: b :: t => ((a + b) / (1 + 1)) :: mids (b :: t)
  | _ => []

/-- the cells `(bounds[i], bounds[i+1])` of a vector of bounds:
 `bounds[:-1]` paired with `bounds[1:]` -/
def cells : List K → List (K × K)
  | a :: b :: t => (a, b) :: cells (b :: t)
  | _ => []

/-- a boolean entering a product (`(upper > lower) * …`, `period * shift_up`) -/
def ind (b : Bool) : K := if b then 1 else 0

/-- `jnp.sum(r * x)` -/
def dot (r x : List K) : K := (List.zipWith (· * ·) r x).sum

/-- `einsum('ab,b->a', w, x)` -/
def matvec (w : List (List K)) (x : List K) : List K := w.map fun r => dot r x

/-- `weights /= jnp.sum(weights, axis=1, keepdims=True)` -/
def normRows (o : List (List K)) : List (List K) := o.map fun r => r.map (· / r.sum)

/-- the matrix `ov(t, s)` for `t` in `T` (rows) and `s` in `S` (columns): what the broadcast
 `f(target[:, newaxis], source[newaxis, :])` builds -/
def kmat {C : Type} (ov : C → C → K) (T S : List C) : List (List K) :=
  T.map fun t => S.map fun s => ov t s

/-- `jnp.roll(x, -1)` -/
def rollL : List K → List K
  | [] => []
  | a :: t => t ++ [a]

/-- `jnp.roll(x, +1)` -/
def rollR (x : List K) : List K :=
  match x.getLast? with
  | none => []
  | some l => l :: x.dropLast

section order
variable [LT K] [DecidableLT K]

/-- `jnp.maximum` -/
def mx (a b : K) : K := if a < b then b else a
/-- `jnp.minimum` -/
def mn (a b : K) : K := if b < a then b else a
/-- `jnp.abs` -/
def av (a : K) : K := if a < 0 then -a else a
/-- `x == 0` expressed with `<` only -/
def isZero (a : K) : Bool := !(decide (a < 0)) && !(decide (0 < a))

/-- `_assert_increasing`: `(np.diff(x) > 0).all()` -/
def increasing (x : List K) : Bool := (diffs x).all fun d => decide (0 < d)

/-! ## latitude -/

/-- `_latitude_cell_bounds`: `concatenate([-pi/2, (x[:-1] + x[1:]) / 2, pi/2])` -/
def latBounds (hp : K) (x : List K) : List K := (-hp) :: (mids x ++ [hp])

/-- one entry of `_latitude_overlap`: `(upper > lower) * (sin(upper) - sin(lower))` with
 `upper = minimum(t_hi, s_hi)`, `lower = maximum(t_lo, s_lo)` -/
def latOv (g : K → K) (t s : K × K) : K :=
  ind (decide (mx t.1 s.1 < mn t.2 s.2)) * (g (mn t.2 s.2) - g (mx t.1 s.1))

/-- overlaps of the cells of two vectors of bounds (rows: `tb`) -/
def boundsOverlap (g : K → K) (sb tb : List K) : List (List K) :=
  kmat (latOv g) (cells tb) (cells sb)

/-- `_latitude_overlap(source_points, target_points)`, shape `(target, source)` -/
def latOverlap (g : K → K) (hp : K) (src tgt : List K) : List (List K) :=
  boundsOverlap g (latBounds hp src) (latBounds hp tgt)

/-- `conservative_latitude_weights`; `none` = `ValueError` of `_assert_increasing` -/
def latWeights (g : K → K) (hp : K) (src tgt : List K) : Option (List (List K)) :=
  if increasing src && increasing tgt then some (normRows (latOverlap g hp src tgt)) else none

/-! ## longitude -/

/-- `_align_phase_with`: `x + period * shift_up - period * shift_down` -/
def alignPhase (x target period : K) : K :=
  x + period * ind (decide (x < target - period / (1 + 1)))
    - period * ind (decide (target + period / (1 + 1) < x))

/-- `_periodic_upper_bounds`: `(x + align(roll(x, -1), x)) / 2` -/
def upperBounds (P : K) (x : List K) : List K :=
  List.zipWith (fun xi xp => (xi + alignPhase xp xi P) / (1 + 1)) x (rollL x)

/-- `_periodic_lower_bounds`: `(align(roll(x, +1), x) + x) / 2` -/
def lowerBounds (P : K) (x : List K) : List K :=
  List.zipWith (fun xm xi => (alignPhase xm xi P + xi) / (1 + 1)) (rollR x) x

/-- `_periodic_overlap(x0, x1, y0, y1, period)` -/
def periodicOv (P : K) (x y : K × K) : K :=
  mx (mn x.2 (alignPhase y.2 x.1 P) - mx x.1 (alignPhase y.1 x.1 P)) 0

/-- the cells `(lower, upper)` that `_longitude_overlap` computes from `points % period` -/
def lonCells (md : K → K → K) (P : K) (pts : List K) : List (K × K) :=
  (lowerBounds P (pts.map (md · P))).zip (upperBounds P (pts.map (md · P)))

/-- `_longitude_overlap(first_points, second_points, period)`, shape `(first, second)` -/
def lonOverlap (md : K → K → K) (P : K) (first second : List K) : List (List K) :=
  kmat (periodicOv P) (lonCells md P first) (lonCells md P second)

/-- `conservative_longitude_weights(source_points, target_points)`, shape `(target, source)`;
 `none` = `ValueError` -/
def lonWeights (md : K → K → K) (P : K) (src tgt : List K) : Option (List (List K)) :=
  if increasing src && increasing tgt then some (normRows (lonOverlap md P tgt src)) else none

/-! ## vertical -/

/-- one entry of `_interval_overlap`: `maximum(upper - lower, 0)` -/
def intervalOv (t s : K × K) : K := mx (mn t.2 s.2 - mx t.1 s.1) 0

/-- `_interval_overlap(source_bounds, target_bounds)`, shape `(target, source)` -/
def intervalOverlap (sb tb : List K) : List (List K) := kmat intervalOv (cells tb) (cells sb)

/-- `conservative_regrid_weights(source_bounds, target_bounds)` (no validation in the code) -/
def verticalWeights (sb tb : List K) : List (List K) := normRows (intervalOverlap sb tb)

/-- `HybridCoordinates.get_sigma_boundaries`: `a / surface_pressure + b` -/
def hybridSigmaBounds (a b : List K) (sp : K) : List K :=
  List.zipWith (fun ai bi => ai / sp + bi) a b

/-- `regrid_hybrid_to_sigma` on one column; `none` = `ValueError` (wrong number of layers) -/
def regridHybridToSigma (a b : List K) (sp : K) (sigmaBounds f : List K) : Option (List K) :=
  if f.length + 1 ≠ a.length then none
  else some (matvec (verticalWeights (hybridSigmaBounds a b sp) sigmaBounds) f)

end order

/-! ## `ConservativeRegridder` -/

/-- `jnp.where(not_nulls, field, 0)` -/
def fill0 : Option K → K
  | some v => v
  | none => 0

/-- `not_nulls` entering the einsum as 0/1 -/
def notNull : Option K → K
  | some _ => 1
  | none => 0

/-- `_mean`: `einsum('ab,cd,bd->ac', lon_weights, lat_weights, field)`; `f` is `[lon][lat]` -/
def mean2 (lw tw : List (List K)) (f : List (List K)) : List (List K) :=
  lw.map fun ra => tw.map fun rc => dot ra (f.map fun fb => dot rc fb)

section order
variable [LT K] [DecidableLT K]

/-- `jnp.isclose(a, b, rtol, atol)` on finite numbers: `|a - b| <= atol + rtol * |b|` -/
def isClose (rtol atol a b : K) : Bool := !(decide (atol + rtol * av b < av (a - b)))

/-- one output cell of `__call__` from `mean` and `not_null_fraction` (`none` = NaN):
 `skipna`: `mean / fraction` (NaN exactly when this is `0/0`);
 otherwise `where(isclose(fraction, 1, rtol=1e-3), mean / fraction, nan)` -/
def cellValue (rtol atol : K) (skipna : Bool) (mean frac : K) : Option K :=
  if skipna then (if isZero frac && isZero mean then none else some (mean / frac))
  else if isClose rtol atol frac 1 then some (mean / frac) else none

/-- `ConservativeRegridder.__call__` for given weight matrices -/
def regridWith (rtol atol : K) (skipna : Bool) (lw tw : List (List K))
    (f : List (List (Option K))) : List (List (Option K)) :=
  List.zipWith (List.zipWith (cellValue rtol atol skipna))
    (mean2 lw tw (f.map (·.map fill0))) (mean2 lw tw (f.map (·.map notNull)))

/-- `ConservativeRegridder(source, target, skipna)(field)` from the coordinate vectors of the
 two grids -/
def regrid (md : K → K → K) (g : K → K) (hp P rtol atol : K) (skipna : Bool)
    (lonS lonT latS latT : List K) (f : List (List (Option K))) :
    Option (List (List (Option K))) :=
  match lonWeights md P lonS lonT, latWeights g hp latS latT with
  | some lw, some tw => some (regridWith rtol atol skipna lw tw f)
  | _, _ => none

end order

end Dino.Regrid
