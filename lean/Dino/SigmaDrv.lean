import Dino.Sigma
/-! Line-protocol operations for the sigma model: `sigma <F|Q> <op> args…` -/
namespace Dino.Sigma
open Dino

variable (K : Type) [Num K]

def isClose0 (x : K) : Bool := leb (absK x) (Num.ofRat (1 / 100000000 : Rat))
def isClose1 (x : K) : Bool :=
  leb (absK (x - 1)) (Num.ofRat (1 / 100000000 : Rat) + Num.ofRat (1 / 100000 : Rat) * absK (1 : K))

def runK : List String → Option String
  | ["centers", b] => do let b ← parseVec? (K := K) b; pure (renderVec (centers b))
  | ["thickness", b] => do let b ← parseVec? (K := K) b; pure (renderVec (thickness b))
  | ["ctc", b] => do let b ← parseVec? (K := K) b; pure (renderVec (centerToCenter b))
  | ["cumsum", m, x] => do
      let x ← parseVec? (K := K) x
      match cumsumM m x with
      | some r => pure (renderVec r)
      | none => pure "value-error"
  | ["rcumsum", m, x] => do
      let x ← parseVec? (K := K) x
      match rcumsumM m x with
      | some r => pure (renderVec r)
      | none => pure "value-error"
  | ["cumint", b, x, d] => do
      let b ← parseVec? (K := K) b; let x ← parseVec? x; let d ← parseBool? d
      if x.length + 1 ≠ b.length then pure "value-error" else
      pure (renderVec (cumSigmaIntegral b x d))
  | ["sigint", b, x] => do
      let b ← parseVec? (K := K) b; let x ← parseVec? x
      if x.length + 1 ≠ b.length then pure "value-error" else
      pure (Num.render (sigmaIntegral b x))
  | ["cdiff", b, x] => do
      let b ← parseVec? (K := K) b; let x ← parseVec? x
      if x.length + 1 ≠ b.length then pure "value-error" else
      pure (renderVec (centeredDifference b x))
  | ["logint", lc, x, d] => do
      let lc ← parseVec? (K := K) lc; let x ← parseVec? x; let d ← parseBool? d
      if x.length ≠ lc.length then pure "value-error" else
      pure (renderVec (cumLogSigmaIntegral lc x d))
  | ["adv", b, w, x] => do
      let b ← parseVec? (K := K) b; let w ← parseVec? w; let x ← parseVec? x
      pure (renderVec (centeredAdvection b w x))
  | ["upwind", b, w, x] => do
      let b ← parseVec? (K := K) b; let w ← parseVec? w; let x ← parseVec? x
      pure (renderVec (upwindAdvection (fun a => maxK a 0) (fun a => minK a 0) b w x))
  | ["ratios", lc] => do let lc ← parseVec? (K := K) lc; pure (renderVec (sigmaRatios lc))
  | ["gweights", r, al] => do
      let r ← Num.parse? (K := K) r; let al ← parseVec? al
      pure (renderMat (geopotentialWeights r al))
  | ["gdiff", m, r, al, t] => do
      let r ← Num.parse? (K := K) r; let al ← parseVec? al; let t ← parseVec? t
      if m = "dense" then pure (renderVec (geopotentialDiffDense r al t))
      else if m = "sparse" then pure (renderVec (geopotentialDiffSparse r al t))
      else pure "value-error"
  | ["accepts", b] => do
      let b ← parseVec? (K := K) b
      pure (renderBool (accepts (isClose0 K) (isClose1 K) (fun d => Num.ltb 0 d) b))
  | _ => none

def run : List String → Option String
  | "F" :: rest => runK Float rest
  | "Q" :: rest => runK Rat rest
  | _ => none

end Dino.Sigma
