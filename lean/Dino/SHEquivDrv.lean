import Dino.SHEquiv
/-! Line-protocol operations for the layout model: `sh9 <F|Q> <op> args…`.
 Matrices `r;r;…`, 3-D arrays as matrices separated by `|`, Booleans as `0/1` entries. -/
namespace Dino.SHEquiv
open Dino Dino.Lin Dino.SH

def parseTen? {K : Type} [Num K] (s : String) : Option (List (List (List K))) :=
  if s = "_" then some [] else (s.splitOn "|").mapM parseMat?

def renderTen {K : Type} [Num K] (t : List (List (List K))) : String :=
  if t.isEmpty then "_" else "|".intercalate (t.map renderMat)

def renderBoolMat (m : List (List Bool)) : String :=
  if m.isEmpty then "_" else ";".intercalate (m.map fun r =>
    if r.isEmpty then "_" else ",".intercalate (r.map renderBool))

def width {α : Type} (x : List (List α)) : Nat := (x.head?.map List.length).getD 0

/-- the constant π as the nearest double (only used at `Float`) -/
def piRat : Rat := 3141592653589793 / 1000000000000000

/-- layout-only operations (no scalars) -/
def runShape : List String → Option String
  | ["roundto", x, m] => do
      let x ← x.toNat?; let m ← m.toNat?
      if m = 0 then pure "zero-division" else pure (toString (roundToMultiple x m))
  | ["shape", M, L, N, J, base, xs, ys] => do
      let M ← M.toNat?; let L ← L.toNat?; let N ← N.toNat?; let J ← J.toNat?
      let base ← base.toNat?; let xs ← xs.toNat?; let ys ← ys.toNat?
      let ms := fastModalShape M L base xs ys
      let ns := fastNodalShape N J base xs ys
      let mp := fastModalPadding M L base xs ys
      let np := fastNodalPadding N J base xs ys
      pure (renderNatVec [ms.1, ms.2, ns.1, ns.2, mp.1, mp.2, np.1, np.2])
  | ["realshape", M, L] => do
      let M ← M.toNat?; let L ← L.toNat?
      pure (renderIntVec [(realModalShape M L).1, ((realModalShape M L).2 : Int)])
  | ["stackdefault", M] => do let M ← M.toNat?; pure (renderBool (defaultStacked M))
  | ["maskR", M, L] => do
      let M ← M.toNat?; let L ← L.toNat?; pure (renderBoolMat (realMask M L))
  | ["maskF", M, L, pr, pc] => do
      let M ← M.toNat?; let L ← L.toNat?; let pr ← pr.toNat?; let pc ← pc.toNat?
      pure (renderBoolMat (fastMask M L pr pc))
  | ["maskIota", M, L, pr, pc] => do
      let M ← M.toNat?; let L ← L.toNat?; let pr ← pr.toNat?; let pc ← pc.toNat?
      pure (renderBoolMat (iotaWith false L pr pc (realMask M L)))
  | ["mvalsR", M] => do let M ← M.toNat?; pure (renderIntVec (realMvals M))
  | ["mvalsF", M, pr] => do
      let M ← M.toNat?; let pr ← pr.toNat?; pure (renderIntVec (fastMvals M pr))
  | ["lvals", L, pc] => do
      let L ← L.toNat?; let pc ← pc.toNat?; pure (renderNatVec (lvals L pc))
  | _ => none

variable (K : Type) [Num K] [NatCast K]

def csTab (N : Nat) (k : Nat) : K :=
  Num.cos ((1 + 1) * Num.ofRat piRat * (k : K) / (N : K))
def snTab (N : Nat) (k : Nat) : K :=
  Num.sin ((1 + 1) * Num.ofRat piRat * (k : K) / (N : K))

def layoutOf (kind : String) (M L pr pc : Nat) : Option (List Int × List Nat × List (List Bool)) :=
  if kind = "R" then some (realMvals M, lvals L 0, realMask M L)
  else if kind = "F" then some (fastMvals M pr, lvals L pc, fastMask M L pr pc)
  else none

def runK : List String → Option String
  | ["iota", L, pr, pc, x] => do
      let L ← L.toNat?; let pr ← pr.toNat?; let pc ← pc.toNat?; let x ← parseMat? (K := K) x
      pure (renderMat (iota L pr pc x))
  | ["uniota", twoM, L, y] => do
      let twoM ← twoM.toNat?; let L ← L.toNat?; let y ← parseMat? (K := K) y
      pure (renderMat (unIota twoM L y))
  | ["padn", pn, pj, J, z] => do
      let pn ← pn.toNat?; let pj ← pj.toNat?; let J ← J.toNat?; let z ← parseMat? (K := K) z
      pure (renderMat (padNodal pn pj J z))
  | ["unpadn", N, J, z] => do
      let N ← N.toNat?; let J ← J.toNat?; let z ← parseMat? (K := K) z
      pure (renderMat (unpadNodal N J z))
  -- basis components
  | ["fbasisR", M, N] => do
      let M ← M.toNat?; let N ← N.toNat?
      let sp : K := Num.sqrt (Num.ofRat piRat)
      let s2p : K := Num.sqrt ((1 + 1) * Num.ofRat piRat)
      pure (renderMat (Fourier.realBasis (csTab K N) (snTab K N) s2p sp M N))
  | ["fbasisF", M, N, pn, pr, sel] => do
      let M ← M.toNat?; let N ← N.toNat?; let pn ← pn.toNat?; let pr ← pr.toNat?
      let sp : K := Num.sqrt (Num.ofRat piRat)
      let s2p : K := Num.sqrt ((1 + 1) * Num.ofRat piRat)
      let fz := Fourier.realBasisZeroImag (csTab K N) (snTab K N) s2p sp M N
      let f := (fastBasisOf fz [] [] pn pr 0 0 (2 * M) 0 0).f
      if sel = "all" then pure (renderMat f)
      else if sel = "s0" then pure (renderMat (f.map evens))
      else if sel = "s1" then pure (renderMat (f.map odds))
      else none
  | ["pbasisR", P] => do
      let P ← parseTen? (K := K) P
      pure (renderTen (realBasisOf [] P []).p)
  | ["pbasisF", pr, pj, pc, J, L, P] => do
      let pr ← pr.toNat?; let pj ← pj.toNat?; let pc ← pc.toNat?; let J ← J.toNat?; let L ← L.toNat?
      let P ← parseTen? (K := K) P
      pure (renderTen (fastBasisOf [] P [] 0 pr pj pc 0 J L).p)
  | ["wbasisF", pj, w] => do
      let pj ← pj.toNat?; let w ← parseVec? (K := K) w
      pure (renderVec (fastBasisOf [] [] w 0 0 pj 0 0 0 0).w)
  -- transforms (basis arrays as data)
  | ["synth", kind, f, p, w, x] => do
      let f ← parseMat? (K := K) f; let p ← parseTen? p; let w ← parseVec? w; let x ← parseMat? x
      let b : Basis K := ⟨f, p, w⟩
      let nlat := w.length
      if kind = "R" then pure (renderMat (realSynth b nlat x))
      else if kind = "F" then pure (renderMat (fastSynth b nlat x))
      else if kind = "FS" then pure (renderMat (fastSynthStacked b nlat x))
      else if kind = "FR" then pure (renderMat (fastSynthOpt ⟨false, true, "highest"⟩ b nlat x))
      else if kind = "FSR" then pure (renderMat (fastSynthOpt ⟨true, true, "float32"⟩ b nlat x))
      else none
  | ["ana", kind, nl, f, p, w, z] => do
      let nl ← nl.toNat?
      let f ← parseMat? (K := K) f; let p ← parseTen? p; let w ← parseVec? w; let z ← parseMat? z
      let b : Basis K := ⟨f, p, w⟩
      let nlat := w.length
      let nrows := width f
      if kind = "R" then pure (renderMat (realAnalysis b nrows nlat nl z))
      else if kind = "F" then pure (renderMat (fastAnalysis b nrows nlat nl z))
      else if kind = "FS" then pure (renderMat (fastAnalysisStacked b nrows nlat nl z))
      else if kind = "FR" then pure (renderMat (fastAnalysisOpt ⟨false, true, "highest"⟩ b nrows nlat nl z))
      else if kind = "FSR" then pure (renderMat (fastAnalysisOpt ⟨true, true, "float32"⟩ b nrows nlat nl z))
      else none
  -- longitude derivative
  | ["ddlon", kind, x] => do
      let x ← parseMat? (K := K) x
      if kind = "R" then
        if x.length % 2 ≠ 1 then pure "value-error" else pure (renderMat (Fourier.realDerivative x (width x)))
      else if kind = "F" then
        if x.length % 2 ≠ 0 then pure "value-error" else pure (renderMat (Fourier.zeroImagDerivative x (width x)))
      else none
  -- index-wise Grid operations
  | ["eig", r2, L, pc] => do
      let r2 ← Num.parse? (K := K) r2; let L ← L.toNat?; let pc ← pc.toNat?
      pure (renderVec (lapEig r2 (lvals L pc)))
  | ["inveig", r2, L, pc] => do
      let r2 ← Num.parse? (K := K) r2; let L ← L.toNat?; let pc ← pc.toNat?
      pure (renderVec (invEig r2 L pc))
  | ["lap", r2, L, pc, x] => do
      let r2 ← Num.parse? (K := K) r2; let L ← L.toNat?; let pc ← pc.toNat?; let x ← parseMat? x
      pure (renderMat (laplacian r2 L pc x))
  | ["invlap", r2, L, pc, x] => do
      let r2 ← Num.parse? (K := K) r2; let L ← L.toNat?; let pc ← pc.toNat?; let x ← parseMat? x
      pure (renderMat (inverseLaplacian r2 L pc x))
  | ["clip", L, pc, n, x] => do
      let L ← L.toNat?; let pc ← pc.toNat?; let n ← n.toInt?; let x ← parseMat? (K := K) x
      match clipWavenumbers L pc n x with
      | some y => pure (renderMat y)
      | none => pure "value-error"
  -- latitude derivatives
  | ["weights", kind, sel, M, L, pr, pc] => do
      let M ← M.toNat?; let L ← L.toNat?; let pr ← pr.toNat?; let pc ← pc.toNat?
      let (ms, ls, mask) ← layoutOf kind M L pr pc
      let ab := recurrenceWeights (K := K) Num.sqrt ms ls mask
      if sel = "a" then pure (renderMat ab.1) else if sel = "b" then pure (renderMat ab.2) else none
  | ["dlat", kind, op, M, L, pr, pc, x] => do
      let M ← M.toNat?; let L ← L.toNat?; let pr ← pr.toNat?; let pc ← pc.toNat?
      let x ← parseMat? (K := K) x
      if kind = "R" then
        if op = "cos" then pure (renderMat (realCosLatDDlat Num.sqrt M L x))
        else if op = "sec" then pure (renderMat (realSecLatDDlatCos2 Num.sqrt M L x))
        else none
      else if kind = "F" then
        if op = "cos" then pure (renderMat (fastCosLatDDlat Num.sqrt M L pr pc x))
        else if op = "sec" then pure (renderMat (fastSecLatDDlatCos2 Num.sqrt M L pr pc x))
        else none
      else none
  -- grad / div / curl / k_cross / integrate (`clip` is `0` or `1`); two results are joined by `|`
  | ["grad", kind, M, L, pr, pc, r, clip, x] => do
      let M ← M.toNat?; let L ← L.toNat?; let pr ← pr.toNat?; let pc ← pc.toNat?
      let r ← Num.parse? (K := K) r; let x ← parseMat? (K := K) x
      let g ← if kind = "R" then some (realCosLatGrad Num.sqrt M L r (clip = "1") x)
              else if kind = "F" then some (fastCosLatGrad Num.sqrt M L pr pc r (clip = "1") x) else none
      pure (renderTen [g.1, g.2])
  | ["div", kind, M, L, pr, pc, r, clip, u, v] => do
      let M ← M.toNat?; let L ← L.toNat?; let pr ← pr.toNat?; let pc ← pc.toNat?
      let r ← Num.parse? (K := K) r; let u ← parseMat? (K := K) u; let v ← parseMat? (K := K) v
      if kind = "R" then pure (renderMat (realDivCosLat Num.sqrt M L r (clip = "1") u v))
      else if kind = "F" then pure (renderMat (fastDivCosLat Num.sqrt M L pr pc r (clip = "1") u v))
      else none
  | ["curl", kind, M, L, pr, pc, r, clip, u, v] => do
      let M ← M.toNat?; let L ← L.toNat?; let pr ← pr.toNat?; let pc ← pc.toNat?
      let r ← Num.parse? (K := K) r; let u ← parseMat? (K := K) u; let v ← parseMat? (K := K) v
      if kind = "R" then pure (renderMat (realCurlCosLat Num.sqrt M L r (clip = "1") u v))
      else if kind = "F" then pure (renderMat (fastCurlCosLat Num.sqrt M L pr pc r (clip = "1") u v))
      else none
  | ["kcross", u, v] => do
      let u ← parseMat? (K := K) u; let v ← parseMat? (K := K) v
      let g := kCross u v
      pure (renderTen [g.1, g.2])
  | ["integrate", r2, w, z] => do
      let r2 ← Num.parse? (K := K) r2; let w ← parseVec? (K := K) w; let z ← parseMat? (K := K) z
      pure (Num.render (integrate w r2 z))
  | _ => none

def run : List String → Option String
  | "S" :: rest => runShape rest
  | "F" :: rest => runK Float rest
  | "Q" :: rest => runK Rat rest
  | _ => none

end Dino.SHEquiv
