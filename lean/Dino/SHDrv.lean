import Dino.SHCheck2
/-!
# Line-protocol operations for the spherical-harmonic model: `sh <F|Q> <op> args…`

Besides the operations on basis arrays sent by the harness (`synth`, `analysis`, `integrate`) the
driver *rebuilds* the basis from the latitude nodes and weights alone (`buildReal`, `buildFast`:
`fourier.real_basis*`, `associated_legendre.evaluate`, the padding and the weight product), so that the
transforms of the real code are compared with a model that shares nothing with it but the nodes
(`scipy.special.roots_legendre` / `numpy.linalg.solve` are parameters of the model, DESIGN §3).
-/
namespace Dino.SH
open Dino Dino.Lin

section build
variable {K : Type} [Add K] [Sub K] [Mul K] [Div K] [Neg K] [Zero K] [One K] [NatCast K]

/-- `np.pad(·, [(0, n)])` -/
def padTo {α : Type} (n : Nat) (z : α) (l : List α) : List α := l ++ List.replicate n z

/-- `fourier.real_basis` with its guard -/
def realBasis? (cos sin sqrt : K → K) (pi : K) (M N : Nat) : Option (List (List K)) :=
  if N < M then none else
  let twoPi := (1 + 1) * pi
  some (Fourier.realBasis (fun k => cos (twoPi * (k : K) / (N : K))) (fun k => sin (twoPi * (k : K) / (N : K)))
    (sqrt twoPi) (sqrt pi) M N)

/-- `fourier.real_basis_with_zero_imag` with its guard -/
def realBasisZeroImag? (cos sin sqrt : K → K) (pi : K) (M N : Nat) : Option (List (List K)) :=
  if N < M then none else
  let twoPi := (1 + 1) * pi
  some (Fourier.realBasisZeroImag (fun k => cos (twoPi * (k : K) / (N : K)))
    (fun k => sin (twoPi * (k : K) / (N : K))) (sqrt twoPi) (sqrt pi) M N)

/-- `associated_legendre.evaluate` with its guard `n_m ≤ n_l` -/
def evaluate? (sqrt : K → K) (nm nl : Nat) (xs : List K) : Option (List (List (List K))) :=
  if nl < nm then none else some (Legendre.evaluate sqrt nm nl xs)

/-- `_evaluate_rhombus(n_l, n_m, x, truncation)` as `[k][m][i]`: entry `(k, m)` is `q_k` of order `m`
 (the `k`-th value of the recurrence); with `triangle` the code restricts rows `k ≥ 1` to
 `m < min(n_m, n_l - k)`, i.e. entry `(k, m)` is zero iff `1 ≤ k` and `n_l ≤ m + k` (row `k = 0`, the
 sectoral values, is never truncated, also when `n_m > n_l`) -/
def rhombus (sqrt : K → K) (nl nm : Nat) (xs : List K) (triangle : Bool) : List (List (List K)) :=
  (List.range nl).map fun k => (List.range nm).map fun m => xs.map fun x =>
    if triangle && decide (1 ≤ k) && decide (nl ≤ m + k) then 0 else (Legendre.row sqrt (m + nl) x m).getD (m + k) 0

/-- `RealSphericalHarmonics.basis` from the latitude nodes `xs` and weights `wlat` -/
def buildReal (cos sin sqrt : K → K) (pi : K) (M L N : Nat) (xs wlat : List K) : Option (Basis K) := do
  let f ← realBasis? cos sin sqrt pi M N
  let p ← evaluate? sqrt M L xs
  let wf := (1 + 1) * pi / (N : K)
  pure ⟨f, realTables p, wlat.map (wf * ·)⟩

/-- `FastSphericalHarmonics.basis` (flat `f`): padded by `padN` longitude nodes, `padR` modal rows,
 `padJ` latitude nodes, `padL` total wavenumbers -/
def buildFast (cos sin sqrt : K → K) (pi : K) (M L N : Nat) (xs wlat : List K)
    (padN padR padJ padL : Nat) : Option (Basis K) := do
  let f ← realBasisZeroImag? cos sin sqrt pi M N
  let p ← evaluate? sqrt M L xs
  let wf := (1 + 1) * pi / (N : K)
  let fpad := padTo padN (zerosN (2 * M + padR)) (f.map (padTo padR 0))
  let J := xs.length
  let ppad := padTo (padR / 2) (List.replicate (J + padJ) (zerosN (L + padL)))
    (p.map fun pm => padTo padJ (zerosN (L + padL)) (pm.map (padTo padL 0)))
  pure ⟨fpad, ppad, padTo padJ 0 (wlat.map (wf * ·))⟩

end build

/-! ### shapes (`FastSphericalHarmonics.nodal_shape / modal_shape / paddings`) -/

/-- `_round_to_multiple` -/
def roundToMultiple (x m : Nat) : Nat := m * ((x + m - 1) / m)

/-- `(modal_shape, nodal_shape)` of `FastSphericalHarmonics` with `base_shape_multiple = base` on an
 `xs × ys` mesh -/
def fastShapes (M L N J base xs ys : Nat) : (Nat × Nat) × (Nat × Nat) :=
  ((roundToMultiple (2 * M) (2 * base * xs), roundToMultiple L (base * ys)),
   (roundToMultiple N (base * xs), roundToMultiple J (base * ys)))

/-! ### the driver -/

variable (K : Type) [Num K] [NatCast K]

/-- 3-tensors travel as matrices separated by `|` -/
def parseTen? (s : String) : Option (List (List (List K))) :=
  if s = "_" then some [] else (s.splitOn "|").mapM parseMat?

def renderTen (t : List (List (List K))) : String :=
  if t.isEmpty then "_" else "|".intercalate (t.map renderMat)

def renderBoolMat (m : List (List Bool)) : String :=
  if m.isEmpty then "_" else ";".intercalate (m.map fun r => if r.isEmpty then "_" else
    ",".intercalate (r.map renderBool))

/-- float π as the exact rational value of the double -/
def piK : K := Num.ofRat (884279719003555 / 281474976710656 : Rat)

def synthOf (impl : String) (b : Basis K) (J : Nat) (x : List (List K)) : Option (List (List K)) :=
  if impl = "real" then some (realSynth b J x)
  else if impl = "fast" then some (fastSynth b J x)
  else if impl = "faststacked" then some (fastSynthStacked b J x) else none

def analysisOf (impl : String) (b : Basis K) (R J L : Nat) (z : List (List K)) : Option (List (List K)) :=
  if impl = "real" then some (realAnalysis b R J L z)
  else if impl = "fast" then some (fastAnalysis b R J L z)
  else if impl = "faststacked" then some (fastAnalysisStacked b R J L z) else none

/-- rebuild the basis of a grid from its nodes: `impl M L N padN padR padJ padL xs wlat` -/
def buildOf (impl : String) (M L N padN padR padJ padL : Nat) (xs wlat : List K) : Option (Basis K) :=
  if impl = "real" then buildReal Num.cos Num.sin Num.sqrt (piK K) M L N xs wlat
  else buildFast Num.cos Num.sin Num.sqrt (piK K) M L N xs wlat padN padR padJ padL

def runK : List String → Option String
  | ["sectoral", x, m] => do
      let x ← Num.parse? (K := K) x; let m ← m.toNat?
      pure (Num.render (Legendre.sectoral Num.sqrt x m))
  | ["row", nl, x, m] => do
      let nl ← nl.toNat?; let x ← Num.parse? (K := K) x; let m ← m.toNat?
      pure (renderVec (Legendre.row Num.sqrt nl x m))
  | ["rhombus", nl, nm, xs, tri] => do
      let nl ← nl.toNat?; let nm ← nm.toNat?; let xs ← parseVec? (K := K) xs; let tri ← parseBool? tri
      pure (renderTen K (rhombus Num.sqrt nl nm xs tri))
  | ["evaluate", nm, nl, xs] => do
      let nm ← nm.toNat?; let nl ← nl.toNat?; let xs ← parseVec? (K := K) xs
      match evaluate? Num.sqrt nm nl xs with
      | some p => pure (renderTen K p)
      | none => pure "value-error"
  | ["real_basis", M, N] => do
      let M ← M.toNat?; let N ← N.toNat?
      match realBasis? (K := K) Num.cos Num.sin Num.sqrt (piK K) M N with
      | some f => pure (renderMat f)
      | none => pure "value-error"
  | ["real_basis_zi", M, N] => do
      let M ← M.toNat?; let N ← N.toNat?
      match realBasisZeroImag? (K := K) Num.cos Num.sin Num.sqrt (piK K) M N with
      | some f => pure (renderMat f)
      | none => pure "value-error"
  | ["basis", impl, M, L, N, padN, padR, padJ, padL, xs, wlat] => do
      let M ← M.toNat?; let L ← L.toNat?; let N ← N.toNat?
      let padN ← padN.toNat?; let padR ← padR.toNat?; let padJ ← padJ.toNat?; let padL ← padL.toNat?
      let xs ← parseVec? (K := K) xs; let wlat ← parseVec? wlat
      match buildOf K impl M L N padN padR padJ padL xs wlat with
      | some b => pure (renderMat b.f ++ "#" ++ renderTen K b.p ++ "#" ++ renderVec b.w)
      | none => pure "value-error"
  | ["synth", impl, f, p, w, x] => do
      let f ← parseMat? (K := K) f; let p ← parseTen? K p; let w ← parseVec? w; let x ← parseMat? x
      match synthOf K impl ⟨f, p, w⟩ w.length x with
      | some z => pure (renderMat z)
      | none => pure "value-error"
  | ["analysis", impl, R, L, f, p, w, z] => do
      let R ← R.toNat?; let L ← L.toNat?
      let f ← parseMat? (K := K) f; let p ← parseTen? K p; let w ← parseVec? w; let z ← parseMat? z
      match analysisOf K impl ⟨f, p, w⟩ R w.length L z with
      | some y => pure (renderMat y)
      | none => pure "value-error"
  | ["nsynth", impl, M, L, N, padN, padR, padJ, padL, xs, wlat, x] => do
      let M ← M.toNat?; let L ← L.toNat?; let N ← N.toNat?
      let padN ← padN.toNat?; let padR ← padR.toNat?; let padJ ← padJ.toNat?; let padL ← padL.toNat?
      let xs ← parseVec? (K := K) xs; let wlat ← parseVec? wlat; let x ← parseMat? x
      match buildOf K (if impl = "real" then "real" else "fast") M L N padN padR padJ padL xs wlat with
      | some b =>
        match synthOf K impl b b.w.length x with
        | some z => pure (renderMat z)
        | none => pure "value-error"
      | none => pure "value-error"
  | ["nanalysis", impl, M, L, N, padN, padR, padJ, padL, xs, wlat, z] => do
      let M ← M.toNat?; let L ← L.toNat?; let N ← N.toNat?
      let padN ← padN.toNat?; let padR ← padR.toNat?; let padJ ← padJ.toNat?; let padL ← padL.toNat?
      let xs ← parseVec? (K := K) xs; let wlat ← parseVec? wlat; let z ← parseMat? z
      let R := if impl = "real" then 2 * M - 1 else 2 * M + padR
      match buildOf K (if impl = "real" then "real" else "fast") M L N padN padR padJ padL xs wlat with
      | some b =>
        match analysisOf K impl b R b.w.length (L + (if impl = "real" then 0 else padL)) z with
        | some y => pure (renderMat y)
        | none => pure "value-error"
      | none => pure "value-error"
  | ["integrate", w, radius, z] => do
      let w ← parseVec? (K := K) w; let r ← Num.parse? radius; let z ← parseMat? z
      pure (Num.render (integrate w (r * r) z))
  | ["nintegrate", N, padJ, wlat, radius, z] => do
      let N ← N.toNat?; let padJ ← padJ.toNat?
      let wlat ← parseVec? (K := K) wlat; let r ← Num.parse? radius; let z ← parseMat? z
      let wf : K := (1 + 1) * piK K / (N : K)
      pure (Num.render (integrate (padTo padJ 0 (wlat.map (wf * ·))) (r * r) z))
  | _ => none

/-- operations without scalars -/
def runN : List String → Option String
  | ["mask", "real", M, L] => do
      let M ← M.toNat?; let L ← L.toNat?
      pure (renderBoolMat (realMask M L))
  | ["mask", "fast", M, L, padR, padL] => do
      let M ← M.toNat?; let L ← L.toNat?; let padR ← padR.toNat?; let padL ← padL.toNat?
      pure (renderBoolMat (fastMask M L padR padL))
  | ["resmask", "real", M, L, N, sp, J] => do
      let M ← M.toNat?; let L ← L.toNat?; let N ← N.toNat?; let J ← J.toNat?
      pure (renderBoolMat (resolvedRealMask M L N (quadDegree sp J)))
  | ["resmask", "fast", M, L, padR, padL, N, sp, J] => do
      let M ← M.toNat?; let L ← L.toNat?; let padR ← padR.toNat?; let padL ← padL.toNat?
      let N ← N.toNat?; let J ← J.toNat?
      pure (renderBoolMat (resolvedFastMask M L padR padL N (quadDegree sp J)))
  | ["axes", "real", M, L] => do
      let M ← M.toNat?; let L ← L.toNat?
      pure (renderIntVec (realMvals M) ++ "#" ++ renderNatVec (lvals L 0))
  | ["axes", "fast", M, L, padR, padL] => do
      let M ← M.toNat?; let L ← L.toNat?; let padR ← padR.toNat?; let padL ← padL.toNat?
      pure (renderIntVec (fastMvals M padR) ++ "#" ++ renderNatVec (lvals L padL))
  | ["shapes", "real", M, L, N, J] => do
      let M ← M.toNat?; let L ← L.toNat?; let N ← N.toNat?; let J ← J.toNat?
      pure (renderNatVec [2 * M - 1, L, N, J, 0, 0, 0, 0])
  | ["shapes", "fast", M, L, N, J, base, xs, ys] => do
      let M ← M.toNat?; let L ← L.toNat?; let N ← N.toNat?; let J ← J.toNat?
      let base ← base.toNat?; let xs ← xs.toNat?; let ys ← ys.toNat?
      let ((r, l), (n, j)) := fastShapes M L N J base xs ys
      pure (renderNatVec [r, l, n, j, r - 2 * M, l - L, n - N, j - J])
  | ["quaddeg", sp, J] => do
      let J ← J.toNat?
      pure (toString (quadDegree sp J))
  | _ => none

def run : List String → Option String
  | "F" :: rest => runK Float rest
  | "Q" :: rest => runK Rat rest
  | "N" :: rest => runN rest
  | _ => none

end Dino.SH
