import Dino.Util
import Dino.Scaling
/-!
# Line protocol of the scaling action: `scl <F|Q> <op> args…`

`a`, `b` are the base units `length,time,mass,temperature` (in SI) of two `scales.Scale` objects;
every op applies the action of `g = Scale.ofUnits a b` to numbers obtained under scale `a` and
returns what the model predicts under scale `b`.

* `w a b d` — `Scale.w g d`, `d` an integer exponent vector `[L, T, M, Θ]`;
* `named a b` — `wF, wV, wA, wE, wR, wIL, wL2, wAr, wP, wRho`;
* `phys a b Ω,g,R,Rv,Cpv,κ` — `actPhys`;
* `sw a b densities radius,Ω,g refpot` — `actSpecs` and the reference potentials of `actSW`:
  `densities' ; radius',Ω',g' ; refpot'`;
* `hs a b p0,κ,minT,maxT,dTy,dThz,σb,kf,ka,ks` — `actHS`;
* `grid a b radius lapEig` — radius and Laplacian eigenvalues of `actOps`: `radius' ; lapEig'`;
* `state a b c vor div T lnps tracer simtime` — `actStateT` on one horizontal coefficient per level
  (`M = K`, the constant mode: `one = 1`): `vor' ; div' ; T' ; lnps',simtime' ; tracer'`;
* `tend a b vor div T lnps tracer simtime` — `actTendT`, same layout;
* `swstate a b vor div pot` / `swtend a b vor div pot` — `actStateSW` / `actTendSW`;
* `oro a b x` — primitive-equation orography (`l • ·`) and shallow-water orography (`wE • ·`);
* `inv a b n A` — `actInverse g n A`.
-/
namespace Dino.Scaling
open Dino Dino.Dynamics

section
variable (K : Type) [Num K]

local instance smulSelf : SMul K K := ⟨fun a b => a * b⟩

private def scale? (s : String) : Option (Scale K) := do
  match ← parseVec? (K := K) s with
  | [l, t, m, θ] => some ⟨l, t, m, θ⟩
  | _ => none

private def ratio? (a b : String) : Option (Scale K) := do
  let a ← scale? K a; let b ← scale? K b
  pure (Scale.ofUnits a b)

/-- a record of horizontal operations that only carries a radius and eigenvalues -/
private def dummyOps (radius : K) (eig : List K) : HOps K K K :=
  { toNodal := id, toModal := id, dDlon := id, cosLatDDlat := id, secLatDDlatCos2 := id,
    laplacian := id, inverseLaplacian := id, clip := id, lproj := fun _ x => x, nL := eig.length,
    lapEig := fun n => eig.getD n 0, cosLat := 1, sec2Lat := 1, sinLat := 1, oneModal := 1,
    radius := radius }

private def mkState (vor div tv : List K) (lnps : K) (tr : List K) (tm : K) : StateWithTime K K :=
  { state := { vorticity := vor, divergence := div, temperatureVariation := tv,
               logSurfacePressure := lnps, tracers := [("q", tr)] }, simTime := tm }

private def renderStateT (s : StateWithTime K K) : String :=
  ";".intercalate [renderVec s.state.vorticity, renderVec s.state.divergence,
    renderVec s.state.temperatureVariation, renderVec [s.state.logSurfacePressure, s.simTime],
    renderVec ((lookup "q" s.state.tracers).getD [])]

private def renderSW (s : DynamicsSW.State K) : String :=
  ";".intercalate [renderVec s.vorticity, renderVec s.divergence, renderVec s.potential]

def runK : List String → Option String
  | ["w", a, b, d] => do
      let g ← ratio? K a b; let d ← parseIntVec? d
      pure (Num.render (g.w d))
  | ["named", a, b] => do
      let g ← ratio? K a b
      pure (renderVec [g.wF, g.wV, g.wA, g.wE, g.wR, g.wIL, g.wL2, g.wAr, g.wP, g.wRho])
  | ["phys", a, b, p] => do
      let g ← ratio? K a b
      match ← parseVec? (K := K) p with
      | [om, gr, r, rv, cpv, kap] =>
        let q := actPhys g ⟨om, gr, r, rv, cpv, kap⟩
        pure (renderVec [q.angularVelocity, q.g, q.R, q.Rvapor, q.CpVapor, q.kappa])
      | _ => none
  | ["sw", a, b, dens, p, refpot] => do
      let g ← ratio? K a b; let dens ← parseVec? (K := K) dens; let refpot ← parseVec? (K := K) refpot
      match ← parseVec? (K := K) p with
      | [radius, om, gr] =>
        let eq : DynamicsSW.ShallowWaterEquations K K K :=
          { ops := dummyOps K radius [], specs := ⟨dens, radius, om, gr⟩, orography := none,
            referencePotential := refpot }
        let q := actSW g eq
        pure (";".intercalate [renderVec q.specs.densities,
          renderVec [q.specs.radius, q.specs.angularVelocity, q.specs.gravityAcceleration],
          renderVec q.referencePotential])
      | _ => none
  | ["hs", a, b, p] => do
      let g ← ratio? K a b
      match ← parseVec? (K := K) p with
      | [p0, kap, minT, maxT, dTy, dThz, sb, kf, ka, ks] =>
        let q := actHS g { p0 := p0, kappa := kap, minT := minT, maxT := maxT, dTy := dTy, dThz := dThz,
                           sigmaB := sb, kf := kf, ka := ka, ks := ks }
        pure (renderVec [q.p0, q.kappa, q.minT, q.maxT, q.dTy, q.dThz, q.sigmaB, q.kf, q.ka, q.ks])
      | _ => none
  | ["grid", a, b, radius, eig] => do
      let g ← ratio? K a b; let radius ← Num.parse? (K := K) radius; let eig ← parseVec? (K := K) eig
      let h := actOps g (dummyOps K radius eig)
      pure (";".intercalate [renderVec [h.radius], renderVec ((List.range h.nL).map h.lapEig)])
  | ["state", a, b, c, vor, div, tv, lnps, tr, tm] => do
      let g ← ratio? K a b; let c ← Num.parse? (K := K) c
      let vor ← parseVec? (K := K) vor; let div ← parseVec? (K := K) div; let tv ← parseVec? (K := K) tv
      let lnps ← Num.parse? (K := K) lnps; let tr ← parseVec? (K := K) tr; let tm ← Num.parse? (K := K) tm
      pure (renderStateT K (actStateT g c (1 : K) (mkState K vor div tv lnps tr tm)))
  | ["tend", a, b, vor, div, tv, lnps, tr, tm] => do
      let g ← ratio? K a b
      let vor ← parseVec? (K := K) vor; let div ← parseVec? (K := K) div; let tv ← parseVec? (K := K) tv
      let lnps ← Num.parse? (K := K) lnps; let tr ← parseVec? (K := K) tr; let tm ← Num.parse? (K := K) tm
      pure (renderStateT K (actTendT g (mkState K vor div tv lnps tr tm)))
  | ["swstate", a, b, vor, div, pot] => do
      let g ← ratio? K a b
      let vor ← parseVec? (K := K) vor; let div ← parseVec? (K := K) div; let pot ← parseVec? (K := K) pot
      pure (renderSW K (actStateSW g ⟨vor, div, pot⟩))
  | ["swtend", a, b, vor, div, pot] => do
      let g ← ratio? K a b
      let vor ← parseVec? (K := K) vor; let div ← parseVec? (K := K) div; let pot ← parseVec? (K := K) pot
      pure (renderSW K (actTendSW g ⟨vor, div, pot⟩))
  | ["oro", a, b, x] => do
      let g ← ratio? K a b; let x ← parseVec? (K := K) x
      let pe : PrimitiveEquations K K K :=
        { ops := dummyOps K 1 [], vert := ⟨[], []⟩, phys := ⟨1, 1, 1, 1, 1, 1⟩, referenceTemperature := [],
          orography := 0 }
      let sw : DynamicsSW.ShallowWaterEquations K K K :=
        { ops := dummyOps K 1 [], specs := ⟨[], 1, 1, 1⟩, orography := none, referencePotential := [] }
      pure (";".intercalate [
        renderVec (x.map fun v => (actEq g { pe with orography := v }).orography),
        renderVec (x.map fun v => ((actSW g { sw with orography := some v }).orography).getD 0)])
  | ["inv", a, b, n, m] => do
      let g ← ratio? K a b; let n ← n.toNat?; let m ← parseMat? (K := K) m
      pure (renderMat (actInverse g n m))
  | _ => none

end

def run : List String → Option String
  | "F" :: rest => runK Float rest
  | "Q" :: rest => runK Rat rest
  | _ => none

end Dino.Scaling
