import Dino
open Dino

/-- one request line → one response line; `bad-op` for anything not understood -/
def step (line : String) : String :=
  let toks := (line.trimAscii.toString.splitOn " ").filter (· ≠ "")
  let r := match toks with
    | "sigma" :: rest => Sigma.run rest
    | "implicit" :: rest => Implicit.run rest
    | "imex" :: rest => Imex.run rest
    | "filters" :: rest => Filters.run rest
    | "forcing" :: rest => Forcing.run rest
    | "units" :: rest => Units.run rest
    | "comb" :: rest => Comb.run rest
    | "interp" :: rest => Interp.run rest
    | "regrid" :: rest => Regrid.run rest
    | "tree" :: rest => Tree.run rest
    | "sh9" :: rest => SHEquiv.run rest
    | "sh" :: rest => SH.run rest
    | "grid" :: rest => Grid.run rest
    | "shard" :: rest => Shard.run rest
    | "dyn" :: rest => Dynamics.run rest
    | "sw" :: rest => DynamicsSW.run rest
    | "inv" :: rest => Invariants.run rest
    | "sym" :: rest => Symmetry.run rest
    | "scl" :: rest => Scaling.run rest
    | "ad" :: rest => AD.run rest
    | _ => none
  r.getD "bad-op"

partial def loop (h : IO.FS.Stream) (out : IO.FS.Stream) : IO Unit := do
  let line ← h.getLine
  if line.isEmpty then return ()
  out.putStrLn (step line)
  loop h out

def main : IO Unit := do
  let out ← IO.getStdout
  loop (← IO.getStdin) out
  out.flush
