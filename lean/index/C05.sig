# statement hashes of the property theorems of C05 (harness/pinsigs.py); compared on every run
Dino.C05.rest_total_dry 1109157394
Dino.C05.rest_steady_dry 2424579113
Dino.C05.rest_steady_withTime 3611532741
Dino.C05.rest_steady_moistWith 2520745267
Dino.C05.rest_steady_moist 1141184811
Dino.C05.rest_steady_cloud 481220131
Dino.C05.one_layer_total 3922930403
Dino.C05.one_layer_steady 817309222
Dino.C05.one_layer_not_steady_radius 3159859085
Dino.C05.one_layer_not_steady_omega 2378779549
Dino.C05.sigma_dot_all_boundaries 3252830206
Dino.C05.surface_pressure_tendency 1483755489
Dino.C05.multi_layer_total 3308075182
Dino.C05.multi_layer_steady 2292423392
Dino.C05.zonal_flow_total 487896100
Dino.C05.zonal_flow_steady 802859753
