import DinoProofs.Lemmas.SymmetrySH

/-!
# Lemmas for C10, part 10: entries of the modal operators of `Dino.Symmetry`

Entry formulas for the latitude-derivative stencil `twoTerm` (`Grid.cos_lat_d_dlat`,
`Grid.sec_lat_d_dlat_cos2`), for `lMul` (operators that multiply by a function of `l`) and for
`mirrorModal`; and the two structural facts used for both symmetries:
* the stencil commutes with every coefficient rotation in local form whose paired rows carry the
  same recurrence weights (`twoTermEnt_app`);
* the stencil shifts `l` by one, hence anticommutes with the sign `(−1)^(m+l)` (`twoTermEnt_sgn`).
-/
namespace Dino.Symmetry
open Finset Dino.Lin Dino.SH Dino.SHEquiv

set_option linter.unusedSectionVars false

variable {K : Type} [CommRing K]

/-! ## shifts -/

theorem ent_shiftDown (u : List K) (l : ℕ) : ent (shiftDown u) l = ent u (l + 1) := by
  cases u with
  | nil => simp [shiftDown]
  | cons a t =>
    simp only [shiftDown, ent_cons_succ]
    rw [ent_append]
    split
    · rfl
    · rename_i h
      rw [ent_of_length_le t l (by omega)]
      rcases Nat.eq_or_lt_of_le (Nat.le_of_not_lt h) with h1 | h1
      · rw [← h1]; simp
      · exact ent_of_length_le _ _ (by simp; omega)

theorem shiftDown_length (u : List K) : (shiftDown u).length = u.length := by
  cases u <;> simp [shiftDown]

theorem ent_dropLast (u : List K) (l : ℕ) : ent u.dropLast l = if l + 1 < u.length then ent u l else 0 := by
  unfold ent
  simp only [List.getD_eq_getElem?_getD]
  split
  · rename_i h
    rw [List.getElem?_dropLast, if_pos (by omega)]
  · rename_i h
    rw [List.getElem?_eq_none (by simp; omega)]
    rfl

theorem ent_shiftUp_zero (u : List K) : ent (shiftUp u) 0 = 0 := by
  cases u <;> simp [shiftUp]

theorem ent_shiftUp_succ (u : List K) (l : ℕ) :
    ent (shiftUp u) (l + 1) = if l + 1 < u.length then ent u l else 0 := by
  cases u with
  | nil => simp [shiftUp]
  | cons a t => simp only [shiftUp, ent_cons_succ, ent_dropLast]

theorem shiftUp_length (u : List K) : (shiftUp u).length = u.length := by
  cases u with
  | nil => simp [shiftUp]
  | cons a t => simp [shiftUp]

theorem ent_mapIdx_mul (c : ℕ → K) (x : List K) (l : ℕ) :
    ent (x.mapIdx fun l v => c l * v) l = c l * ent x l := by
  unfold ent
  simp only [List.getD_eq_getElem?_getD, List.getElem?_mapIdx]
  cases x[l]? <;> simp

/-! ## the two-term stencil, entrywise -/

/-- the stencil on entry functions: `g` the field, `A`, `B` the recurrence weights, `L` the width -/
def twoTermEnt (ca cb : ℕ → K) (A B g : ℕ → ℕ → K) (L : ℕ) (r l : ℕ) : K :=
  ca (l + 1) * A r (l + 1) * g r (l + 1)
    + (if l = 0 then 0 else if l < L then cb (l - 1) * B r (l - 1) * g r (l - 1) else 0)

theorem ent_twoTermRow (ca cb : ℕ → K) (a b x : List K) (l : ℕ) :
    ent (twoTermRow ca cb a b x) l
      = ca (l + 1) * ent a (l + 1) * ent x (l + 1)
        + (if l = 0 then 0 else if l < x.length then cb (l - 1) * ent b (l - 1) * ent x (l - 1) else 0) := by
  unfold twoTermRow
  rw [ent_vadd _ _ _ (by rw [shiftDown_length, shiftUp_length]; simp), ent_shiftDown,
    ent_mapIdx_mul (fun l => ca l * a.getD l 0)]
  congr 1
  cases l with
  | zero => rw [ent_shiftUp_zero]; simp
  | succ l =>
    rw [ent_shiftUp_succ, ent_mapIdx_mul (fun l => cb l * b.getD l 0)]
    simp [ent]

theorem twoTermRow_length (ca cb : ℕ → K) (a b x : List K) : (twoTermRow ca cb a b x).length = x.length := by
  unfold twoTermRow vadd
  rw [List.length_zipWith, shiftDown_length, shiftUp_length]
  simp

theorem twoTerm_length (ca cb : ℕ → K) (a b x : List (List K)) : (twoTerm ca cb a b x).length = x.length := by
  simp [twoTerm]

theorem twoTerm_rows (ca cb : ℕ → K) (a b x : List (List K)) (L : ℕ) (hx : ∀ row ∈ x, row.length = L) :
    ∀ row ∈ twoTerm ca cb a b x, row.length = L := by
  intro row hrow
  simp only [twoTerm, List.mem_mapIdx] at hrow
  obtain ⟨i, hi, rfl⟩ := hrow
  rw [twoTermRow_length]
  exact hx _ (List.getElem_mem _)

theorem ent2_twoTerm (ca cb : ℕ → K) (a b x : List (List K)) (L : ℕ) (hx : ∀ row ∈ x, row.length = L)
    (r l : ℕ) (hr : r < x.length) :
    ent2 (twoTerm ca cb a b x) r l = twoTermEnt ca cb (ent2 a) (ent2 b) (ent2 x) L r l := by
  unfold twoTerm twoTermEnt
  rw [ent2_eq_ent, List.getD_eq_getElem?_getD, List.getElem?_mapIdx, List.getElem?_eq_getElem hr]
  simp only [Option.map_some, Option.getD_some]
  rw [ent_twoTermRow, hx _ (List.getElem_mem hr)]
  simp only [ent2_eq_ent, getD_eq_getElem_nil x r hr]

/-- the stencil commutes with a coefficient rotation whose paired rows carry the same weights -/
theorem twoTermEnt_app (T : RowMap K) (ca cb : ℕ → K) (A B g : ℕ → ℕ → K) (L r l : ℕ)
    (hA : ∀ l, A (T.nb r) l = A r l) (hB : ∀ l, B (T.nb r) l = B r l) :
    twoTermEnt ca cb A B (fun r l => T.app (fun r => g r l) r) L r l
      = T.app (fun r => twoTermEnt ca cb A B g L r l) r := by
  simp only [twoTermEnt, RowMap.app, hA, hB]
  split
  · ring
  · split <;> ring

/-- the same when the row is not mixed with its partner (`β r = 0`): no condition on the weights -/
theorem twoTermEnt_app_of_beta (T : RowMap K) (ca cb : ℕ → K) (A B g : ℕ → ℕ → K) (L r l : ℕ)
    (hβ : T.β r = 0) :
    twoTermEnt ca cb A B (fun r l => T.app (fun r => g r l) r) L r l
      = T.app (fun r => twoTermEnt ca cb A B g L r l) r := by
  simp only [twoTermEnt, RowMap.app, hβ]
  split
  · ring
  · split <;> ring

/-! ## `lMul` -/

theorem lMul_eq_mulLast (c : List K) (x : List (List K)) : lMul c x = mulLast x c := rfl

theorem ent2_lMul (c : List K) (x : List (List K)) (r l : ℕ) : ent2 (lMul c x) r l = ent2 x r l * ent c l :=
  ent2_mulLast x c r l

theorem lMul_length (c : List K) (x : List (List K)) : (lMul c x).length = x.length := by simp [lMul]

theorem lMul_rows (c : List K) (x : List (List K)) (L : ℕ) (hx : ∀ row ∈ x, row.length = L)
    (hc : c.length = L) : ∀ row ∈ lMul c x, row.length = L :=
  mulLast_rows x c L hx hc

/-! ## the sign `(−1)^(m+l)` -/

theorem sgn_mul_self (n : ℕ) : (sgn n : K) * sgn n = 1 := by
  unfold sgn; split <;> simp

theorem sgn_succ (n : ℕ) : (sgn (n + 1) : K) = -sgn n := by
  unfold sgn
  rcases Nat.mod_two_eq_zero_or_one n with h | h
  · rw [if_neg (by omega), if_pos h]
  · rw [if_pos (by omega), if_neg (by omega)]; simp

theorem sgn_eq_pow (n : ℕ) : (sgn n : K) = (-1) ^ n := by
  induction n with
  | zero => simp [sgn]
  | succ n ih => rw [sgn_succ, ih, pow_succ]; ring

theorem sgn_pred (n : ℕ) (h : 0 < n) : (sgn (n - 1) : K) = -sgn n := by
  obtain ⟨m, rfl⟩ : ∃ m, n = m + 1 := ⟨n - 1, by omega⟩
  rw [Nat.add_sub_cancel, sgn_succ, neg_neg]

theorem ent2_mirrorModal (mOf lOf : ℕ → ℕ) (x : List (List K)) (r l : ℕ) :
    ent2 (mirrorModal mOf lOf x) r l = sgn (mOf r + lOf l) * ent2 x r l := by
  unfold mirrorModal ent2
  simp only [List.getD_eq_getElem?_getD, List.getElem?_mapIdx]
  cases x[r]? with
  | none => simp
  | some row =>
    simp only [Option.map_some, Option.getD_some, List.getElem?_mapIdx]
    cases row[l]? <;> simp

theorem mirrorModal_length (mOf lOf : ℕ → ℕ) (x : List (List K)) :
    (mirrorModal mOf lOf x).length = x.length := by simp [mirrorModal]

theorem mirrorModal_rows (mOf lOf : ℕ → ℕ) (x : List (List K)) (L : ℕ) (hx : ∀ row ∈ x, row.length = L) :
    ∀ row ∈ mirrorModal mOf lOf x, row.length = L := by
  intro row hrow
  simp only [mirrorModal, List.mem_mapIdx] at hrow
  obtain ⟨i, hi, rfl⟩ := hrow
  rw [List.length_mapIdx]
  exact hx _ (List.getElem_mem _)

/-- the stencil shifts `l` by one: it anticommutes with the sign `(−1)^(m+l)` -/
theorem twoTermEnt_sgn (mOf : ℕ → ℕ) (ca cb : ℕ → K) (A B g : ℕ → ℕ → K) (L r l : ℕ) :
    twoTermEnt ca cb A B (fun r l => sgn (mOf r + l) * g r l) L r l
      = -(sgn (mOf r + l) * twoTermEnt ca cb A B g L r l) := by
  simp only [twoTermEnt]
  have h1 : (sgn (mOf r + (l + 1)) : K) = -sgn (mOf r + l) := by rw [← Nat.add_assoc, sgn_succ]
  rw [h1]
  split
  · ring
  · rename_i h0
    have h2 : (sgn (mOf r + (l - 1)) : K) = -sgn (mOf r + l) := by
      have : mOf r + (l - 1) = mOf r + l - 1 := by omega
      rw [this, sgn_pred _ (by omega)]
    rw [h2]
    split <;> ring

end Dino.Symmetry
