import DinoProofs.Lemmas.ScalingMoist
import DinoProofs.Lemmas.ScalingInv
import DinoProofs.Lemmas.ScalingStep
import Dino.Invariants

/-!
# T12.2 for the equation classes of the model: schemes, histories, `tree_math` vectors

* every one-state scheme of `Dino.Invariants.Scheme` (`backward_forward_euler`, `crank_nicolson_rk2`,
  the low-storage family, `imex_runge_kutta`) and every *history* (`runHistory`: any list of
  (scheme, step size, filters)) commutes with the action when every `dt` is scaled by `t`;
* the four primitive-equation classes as `ImplicitExplicitODE`s on `tree_math` vectors
  (`Dino.Invariants.peImEx`) are intertwined by the action `tmMap actStateT` / `tmMap actTendT`; the proper
  states are all vectors except the Python scalar `0`.
-/
namespace Dino.Scaling
open Dino Dino.Dynamics Dino.Imex Dino.Invariants
set_option linter.unusedSectionVars false
set_option linter.unusedSimpArgs false

/-! ## schemes and histories (generic) -/
section hist
variable {K V : Type} [Field K] [Add V] [Zero V] [SMul K V]
variable {St : V → Prop} {t : K} {A T : V → V} {e e' : ImEx K V}

/-- one step of any scheme -/
theorem scheme_step_actOn (L : ActionLawsOn St t A T) (I : IntertwinedOn St t A T e e') (sch : Scheme K) (dt : K) :
    (∀ f, sch.step e dt = some f →
        ∃ f', sch.step e' (t * dt) = some f' ∧ ∀ u, St u → f' (A u) = A (f u) ∧ St (f u))
      ∧ (sch.step e dt = none → sch.step e' (t * dt) = none) := by
  cases sch with
  | bfe =>
    refine ⟨fun f hf => ⟨_, rfl, fun u hu => ?_⟩, fun h => by simp [Scheme.step] at h⟩
    simp only [Scheme.step, Option.some.injEq] at hf
    subst hf
    exact bfe_actOn L I dt u hu
  | cnrk2 =>
    refine ⟨fun f hf => ⟨_, rfl, fun u hu => ?_⟩, fun h => by simp [Scheme.step] at h⟩
    simp only [Scheme.step, Option.some.injEq] at hf
    subst hf
    exact cnrk2_actOn L I dt u hu
  | lsrk αs βs γs =>
    simp only [Scheme.step, lsrk]
    split
    · refine ⟨fun f hf => ⟨_, rfl, fun u hu => ?_⟩, fun h => by simp at h⟩
      simp only [Option.some.injEq] at hf
      subst hf
      have := lsrkLoop_actOn L I dt αs βs γs u 0 hu
      rwa [L.T_zero] at this
    · exact ⟨fun f hf => by simp at hf, fun _ => rfl⟩
  | tableau nz tab =>
    simp only [Scheme.step, imexRK]
    split
    · refine ⟨fun f hf => ⟨_, rfl, fun u hu => ?_⟩, fun h => by simp at h⟩
      simp only [Option.some.injEq] at hf
      subst hf
      exact imexRKStep_actOn L I nz dt tab u hu
    · exact ⟨fun f hf => by simp at hf, fun _ => rfl⟩

/-- a state filter and its counterpart under the other scale -/
def FilterScaled (St : V → Prop) (A : V → V) (φ φ' : V → V) : Prop :=
  ∀ u, St u → φ' (A u) = A (φ u) ∧ St (φ u)

/-- the same history under the other scale: same schemes, every `dt` times `t`, filters related -/
def HistScaled (St : V → Prop) (t : K) (A : V → V) (h h' : List (Entry K V)) : Prop :=
  List.Forall₂ (fun en en' => en'.sch = en.sch ∧ en'.dt = t * en.dt
    ∧ List.Forall₂ (FilterScaled St A) en.filters en'.filters) h h'

theorem filters_actOn {φs φs' : List (V → V)} (h : List.Forall₂ (FilterScaled St A) φs φs') (u0 u0' x : V)
    (hx : St x) :
    (φs'.map Filters.rkStepFilter).foldl (fun uNext flt => flt u0' uNext) (A x)
      = A ((φs.map Filters.rkStepFilter).foldl (fun uNext flt => flt u0 uNext) x)
      ∧ St ((φs.map Filters.rkStepFilter).foldl (fun uNext flt => flt u0 uNext) x) := by
  induction h generalizing x with
  | nil => exact ⟨rfl, hx⟩
  | cons hφ _ ih =>
    simp only [List.map_cons, List.foldl_cons, Filters.rkStepFilter]
    rw [(hφ x hx).1]
    exact ih _ (hφ x hx).2

/-- **histories**: any sequence of (scheme, step size, filters) -/
theorem runHistory_actOn (L : ActionLawsOn St t A T) (I : IntertwinedOn St t A T e e')
    {h h' : List (Entry K V)} (hh : HistScaled St t A h h') (u : V) (hu : St u) :
    runHistory e' h' (A u) = (runHistory e h u).map A ∧ ∀ r, runHistory e h u = some r → St r := by
  induction hh generalizing u with
  | nil => exact ⟨rfl, fun r hr => by simp only [runHistory, Option.some.injEq] at hr; exact hr ▸ hu⟩
  | @cons en en' rest rest' hen _ ih =>
    obtain ⟨hs, hd, hf⟩ := hen
    have S := scheme_step_actOn L I en.sch en.dt
    simp only [runHistory, hs, hd]
    cases hstep : en.sch.step e en.dt with
    | none => rw [S.2 hstep]; exact ⟨rfl, fun r hr => by simp at hr⟩
    | some f =>
      obtain ⟨f', hf', hcomm⟩ := S.1 f hstep
      rw [hf']
      simp only [stepWithFilters]
      have h1 := hcomm u hu
      have h2 := filters_actOn hf u (A u) (f u) h1.2
      rw [h1.1, h2.1]
      exact ih _ h2.2

end hist

/-! ## `tree_math` vectors -/
section tm
variable {V : Type}

/-- a map of states applied to a vector; the Python scalar `0` and an error are left alone -/
def tmMap (f : V → V) : TM V → TM V
  | .zero => .zero
  | .val x => .val (f x)
  | .err => .err

/-- everything except the Python scalar `0` -/
def Proper : TM V → Prop
  | .zero => False
  | _ => True

@[simp] theorem tm_val_add [Add V] (a b : V) : (TM.val a + TM.val b : TM V) = TM.val (a + b) := rfl
@[simp] theorem tm_smul_val {K : Type} [SMul K V] (c : K) (a : V) : (c • TM.val a : TM V) = TM.val (c • a) := rfl
@[simp] theorem tm_smul_zero {K : Type} [SMul K V] (c : K) : (c • (TM.zero : TM V)) = TM.zero := rfl
@[simp] theorem tm_smul_err {K : Type} [SMul K V] (c : K) : (c • (TM.err : TM V)) = TM.err := rfl
@[simp] theorem tm_zero_eq : (0 : TM V) = TM.zero := rfl

end tm

/-! ## the state arithmetic of `StateWithTime` under the action -/
section arith
variable {K M : Type} [Field K] [AddCommGroup M] [Module K M]
variable {g : Scale K}

theorem t_mul_wF (hg : g.Valid) : g.t * g.wF = 1 := by scal_eq hg

theorem mapTracers_comp {α β γ : Type} (f : β → γ) (h : α → β) (t : List (String × α)) :
    mapTracers f (mapTracers h t) = mapTracers (f ∘ h) t := by
  simp [mapTracers, List.map_map, Function.comp_def]

theorem mapTracers_congr {α β : Type} (f h : α → β) (t : List (String × α)) (hfh : ∀ x, f x = h x) :
    mapTracers f t = mapTracers h t := by
  simp [mapTracers, hfh]

theorem mapTracers_zip (k : K) (a b : List (String × List M)) :
    mapTracers (Col.smul k) (State.zipTracers Col.add a b)
      = State.zipTracers Col.add (mapTracers (Col.smul k) a) (mapTracers (Col.smul k) b) := by
  simp only [mapTracers, State.zipTracers, List.map_zipWith, List.zipWith_map_left, List.zipWith_map_right,
    add_smul_col]

/-- the affine law: a state weight is `t` times the tendency weight -/
theorem actStateT_add_smul (hg : g.Valid) (c : K) (one : M) (η : K) (x y : StateWithTime K M) :
    actStateT g c one (x + η • y) = actStateT g c one x + (g.t * η) • actTendT g y := by
  have ht := t_mul_wF hg
  have e1 : g.t * η * (g.wF * g.wF) = g.wF * η := by
    calc g.t * η * (g.wF * g.wF) = (g.t * g.wF) * (g.wF * η) := by ring
      _ = g.wF * η := by rw [ht, one_mul]
  have e2 : g.t * η * (g.θ * g.wF) = g.θ * η := by
    calc g.t * η * (g.θ * g.wF) = (g.t * g.wF) * (g.θ * η) := by ring
      _ = g.θ * η := by rw [ht, one_mul]
  have e3 : g.t * η * g.wF = η := by
    calc g.t * η * g.wF = (g.t * g.wF) * η := by ring
      _ = η := by rw [ht, one_mul]
  show ({ state := actState g c one (State.add x.state (State.mapLevels (fun u => η • u) y.state)),
          simTime := g.t * (x.simTime + η * y.simTime) } : StateWithTime K M)
      = { state := State.add (actState g c one x.state)
            (State.mapLevels (fun u => (g.t * η) • u) (actTend g y.state)),
          simTime := g.t * x.simTime + g.t * η * y.simTime }
  congr 1
  · simp only [actState, actTend, State.add, State.mapLevels, State.mk.injEq]
    have hm : ∀ (k : K) (l : List M), l.map (fun u => k • u) = Col.smul k l := fun _ _ => rfl
    simp only [hm, ← add_smul_col, smul_smul_col, e1, e2]
    refine ⟨trivial, trivial, trivial, ?_, ?_⟩
    · rw [smul_smul, e3, add_right_comm]
    · rw [mapTracers_comp]
      congr 1
      apply mapTracers_congr
      intro l
      show Col.smul η l = (fun x => List.map (fun u => (g.t * η) • u) x) (Col.smul g.wF l)
      show Col.smul η l = Col.smul (g.t * η) (Col.smul g.wF l)
      rw [smul_smul_col, e3]
  · ring

theorem actTendT_add (x y : StateWithTime K M) : actTendT g (x + y) = actTendT g x + actTendT g y := by
  show ({ state := actTend g (State.add x.state y.state), simTime := x.simTime + y.simTime } : StateWithTime K M)
      = { state := State.add (actTend g x.state) (actTend g y.state), simTime := x.simTime + y.simTime }
  congr 1
  simp only [actTend, State.add, State.mk.injEq, add_smul_col, smul_add, mapTracers_zip, and_self]

theorem actTendT_smul (k : K) (x : StateWithTime K M) : actTendT g (k • x) = k • actTendT g x := by
  show ({ state := actTend g (State.mapLevels (fun u => k • u) x.state), simTime := k * x.simTime }
      : StateWithTime K M)
      = { state := State.mapLevels (fun u => k • u) (actTend g x.state), simTime := k * x.simTime }
  congr 1
  have hm : ∀ (a : K) (l : List M), l.map (fun u => a • u) = Col.smul a l := fun _ _ => rfl
  simp only [actTend, State.mapLevels, State.mk.injEq, hm, smul_smul_col, smul_smul, mapTracers_comp]
  refine ⟨by rw [mul_comm], by rw [mul_comm], by rw [mul_comm], by rw [mul_comm], ?_⟩
  apply mapTracers_congr
  intro l
  show Col.smul g.wF (Col.smul k l) = Col.smul k (Col.smul g.wF l)
  rw [smul_smul_col, smul_smul_col, mul_comm]

/-- the action on `tree_math` vectors satisfies the laws of T12.2 on the proper vectors -/
theorem tm_actionLaws (hg : g.Valid) (c : K) (one : M) :
    ActionLawsOn (Proper (V := StateWithTime K M)) g.t (tmMap (actStateT g c one)) (tmMap (actTendT g)) where
  A_add_smul := fun x η y hx => by
    cases x with
    | zero => exact hx.elim
    | err => cases y <;> rfl
    | val xs =>
      cases y with
      | zero => rfl
      | err => rfl
      | val ys =>
        show TM.val (actStateT g c one (xs + η • ys)) = TM.val (actStateT g c one xs + (g.t * η) • actTendT g ys)
        rw [actStateT_add_smul hg]
  St_add := fun x η y hx => by
    cases x with
    | zero => exact hx.elim
    | err => cases y <;> trivial
    | val xs => cases y <;> trivial
  T_add := fun x y => by
    cases x <;> cases y <;> try rfl
    show TM.val (actTendT g (_ + _)) = TM.val (actTendT g _ + actTendT g _)
    rw [actTendT_add]
  T_smul := fun k x => by
    cases x <;> try rfl
    show TM.val (actTendT g (k • _)) = TM.val (k • actTendT g _)
    rw [actTendT_smul]
  T_zero := rfl

end arith

/-! ## the four classes as intertwined `ImplicitExplicitODE`s -/
section classes
variable {K M N : Type} [Field K] [AddCommGroup M] [Module K M] [CommRing N] [Algebra K N] [Div N]
variable [BEq K] [LawfulBEq K]
variable {g : Scale K} (p : PrimitiveEquations K M N)

theorem explicitOf_act (hg : g.Valid) (hl : OpsLaws p.ops) (cls : Cls) (c : K) (s : StateWithTime K M) :
    explicitOf cls (actEq g p) (actStateT g c p.ops.oneModal s) = (explicitOf cls p s).map (actTendT g) := by
  cases cls with
  | dry =>
    simp only [explicitOf, Option.map_some, Option.some.injEq]
    have hs : (actStateT g c p.ops.oneModal s).state = actState g c p.ops.oneModal s.state := rfl
    rw [hs, explicitTerms_act p hg hl]
    rfl
  | time =>
    simp only [explicitOf, Option.map_some, Option.some.injEq]
    exact timeExplicitTerms_act p hg hl c s
  | moist => exact moistExplicitTerms_act p hg hl c s
  | cloud => exact cloudExplicitTerms_act p hg hl c s

/-- the class under the two scales; `invOf η` / `invOf' η'` are the inverses `numpy.linalg.inv` returned -/
theorem pe_intertwined (hg : g.Valid) (hl : OpsLaws p.ops) (hp : ProjLaws p.ops) (cls : Cls) (c : K)
    (n : ℕ) (hn : p.vert.layers = n) (invOf invOf' : K → ℕ → List (List K))
    (hs : ∀ η, InvScaled g n (invOf η) (invOf' (g.t * η))) (hc : ∀ η, ConstMode p n (invOf η))
    (hsq : ∀ η l, (invOf η l).length = 2 * n + 1) :
    IntertwinedOn (Proper (V := StateWithTime K M)) g.t (tmMap (actStateT g c p.ops.oneModal))
      (tmMap (actTendT g)) (peImEx cls p invOf) (peImEx cls (actEq g p) invOf') where
  F := fun x hx => by
    cases x with
    | zero => exact hx.elim
    | err => rfl
    | val s =>
      show TM.liftO (explicitOf cls (actEq g p)) (TM.val (actStateT g c p.ops.oneModal s))
          = tmMap (actTendT g) (TM.liftO (explicitOf cls p) (TM.val s))
      simp only [TM.liftO, explicitOf_act p hg hl]
      cases explicitOf cls p s <;> rfl
  G := fun x hx => by
    cases x with
    | zero => exact hx.elim
    | err => rfl
    | val s =>
      show TM.val (implicitOf (actEq g p) (actStateT g c p.ops.oneModal s))
          = TM.val (actTendT g (implicitOf p s))
      rw [implicitOf, implicitOf, timeImplicitTerms_act p hg hl]
  Ginv := fun x η hx => by
    cases x with
    | zero => exact hx.elim
    | err => rfl
    | val s =>
      show TM.val (inverseOf (actEq g p) invOf' (actStateT g c p.ops.oneModal s) (g.t * η))
          = TM.val (actStateT g c p.ops.oneModal (inverseOf p invOf s η))
      simp only [inverseOf, PrimitiveEquationsWithTime.implicitInverse, actStateT]
      rw [implicitInverse_act p hg hp n hn (invOf η) (invOf' (g.t * η)) (hs η) (hc η) c s.state
        (invShaped_of_square p n (invOf η) s.state (hsq η))]
  St_Ginv := fun x η _ => by
    cases x <;> trivial

end classes

end Dino.Scaling
