import Dino.Implicit
import DinoProofs.Lemmas.Sigma

namespace Dino.Implicit
open Dino.Sigma
variable {K : Type} [Field K]

/-- dot product of a matrix row with a vector, as `_vertical_matvec` computes it -/
def dot (r x : List K) : K := (mulv r x).sum

theorem matvec_eq_map_dot (a : List (List K)) (x : List K) : matvec a x = a.map fun r => dot r x := rfl

@[simp] theorem matvec_length (a : List (List K)) (x : List K) : (matvec a x).length = a.length := by
  simp [matvec]

theorem dot_append (r1 r2 x1 x2 : List K) (h : r1.length = x1.length) :
    dot (r1 ++ r2) (x1 ++ x2) = dot r1 x1 + dot r2 x2 := by
  simp [dot, mulv, List.zipWith_append h]

theorem dot_map_mul (c : K) (r x : List K) : dot (r.map (c * ·)) x = c * dot r x := by
  unfold dot mulv
  induction r generalizing x with
  | nil => simp
  | cons a t ih =>
    cases x with
    | nil => simp
    | cons b u => simp only [List.map_cons, List.zipWith_cons_cons, List.sum_cons, ih]; ring

theorem dot_map_mul2 (a b : K) (r x : List K) :
    dot (r.map (fun v => a * (b * v))) x = a * (b * dot r x) := by
  have h : (r.map fun v => a * (b * v)) = r.map ((a * b) * ·) := by
    apply List.map_congr_left; intro v _; ring
  rw [h, dot_map_mul]; ring

theorem dot_singleton (a b : K) : dot [a] [b] = a * b := by simp [dot, mulv]

theorem dot_zeros (n : Nat) (x : List K) : dot (zeros n) x = 0 := by
  unfold dot mulv zeros
  induction n generalizing x with
  | zero => simp
  | succ n ih =>
    cases x with
    | nil => simp
    | cons b u =>
      rw [List.range_succ_eq_map, List.map_cons, List.map_map, List.zipWith_cons_cons, List.sum_cons]
      have := ih u
      simp only [Function.comp_def] at this ⊢
      rw [this]; ring

theorem dot_eyeRow (n j : Nat) (x : List K) (hn : x.length = n) (hj : j < n) :
    dot (eyeRow n j) x = x.getD j 0 := by
  unfold dot mulv eyeRow
  induction n generalizing x j with
  | zero => omega
  | succ n ih =>
    match x, hn with
    | b :: u, hn =>
      rw [List.range_succ_eq_map, List.map_cons, List.map_map, List.zipWith_cons_cons, List.sum_cons]
      cases j with
      | zero =>
        have hz : List.map ((fun k => if k = 0 then (1 : K) else 0) ∘ Nat.succ) (List.range n)
            = zeros n := by
          unfold zeros; apply List.map_congr_left; intro k _; simp
        rw [hz]
        have := dot_zeros n u
        unfold dot mulv at this
        rw [this]; simp
      | succ j =>
        have hz : List.map ((fun k => if k = j + 1 then (1 : K) else 0) ∘ Nat.succ) (List.range n)
            = List.map (fun k => if k = j then (1 : K) else 0) (List.range n) := by
          apply List.map_congr_left; intro k _; simp
        rw [hz, ih j u (by simpa using hn) (by omega)]
        simp

theorem dot_add_right (r x y : List K) (h : x.length = y.length) :
    dot r (addv x y) = dot r x + dot r y := by
  unfold dot mulv addv
  induction r generalizing x y with
  | nil => simp
  | cons a t ih =>
    match x, y, h with
    | [], [], _ => simp
    | b :: u, c :: v, h =>
      simp only [List.zipWith_cons_cons, List.sum_cons]
      rw [ih u v (by simpa using h)]; ring

theorem dot_sub_right (r x y : List K) (h : x.length = y.length) :
    dot r (subv x y) = dot r x - dot r y := by
  unfold dot mulv subv
  induction r generalizing x y with
  | nil => simp
  | cons a t ih =>
    match x, y, h with
    | [], [], _ => simp
    | b :: u, c :: v, h =>
      simp only [List.zipWith_cons_cons, List.sum_cons]
      rw [ih u v (by simpa using h)]; ring

theorem dot_smul_right (c : K) (r x : List K) : dot r (smul c x) = c * dot r x := by
  unfold dot mulv smul
  induction r generalizing x with
  | nil => simp
  | cons a t ih =>
    cases x with
    | nil => simp
    | cons b u => simp only [List.map_cons, List.zipWith_cons_cons, List.sum_cons, ih]; ring

theorem dot_neg_left (r x : List K) : dot (r.map fun v => -v) x = -dot r x := by
  have := dot_map_mul (-1 : K) r x
  simpa using this


/-! ### slicing a row of a `(2n+1)`-wide matrix -/

theorem dot_split3 (n : Nat) (r d t : List K) (p : K) (hd : d.length = n) (ht : t.length = n)
    (hr : r.length = 2 * n + 1) :
    dot r (d ++ t ++ [p])
      = dot ((r.drop 0).take n) d + dot ((r.drop n).take n) t + dot ((r.drop (2 * n)).take 1) [p] := by
  have h1 : r = r.take n ++ ((r.drop n).take n ++ (r.drop (2 * n)).take 1) := by
    conv_lhs => rw [← List.take_append_drop n r]
    congr 1
    conv_lhs => rw [← List.take_append_drop n (r.drop n)]
    congr 1
    rw [List.drop_drop]
    have : n + n = 2 * n := by omega
    rw [this, List.take_of_length_le]
    simp; omega
  conv_lhs => rw [h1]
  rw [List.append_assoc, dot_append _ _ _ _ (by simp; omega), dot_append _ _ _ _ (by simp; omega)]
  simp [add_assoc]

theorem stack_length (x : Col K) : (stack x).length = x.d.length + x.t.length + 1 := by
  simp [stack]; omega

theorem unstack_stack (x : Col K) (h : x.t.length = x.d.length) : unstack x.d.length (stack x) = x := by
  cases x with
  | mk d t p =>
    simp only [unstack, stack] at h ⊢
    congr
    · simp
    · rw [List.append_assoc, List.drop_left, ← h, List.take_left]
    · have : 2 * d.length = (d ++ t).length := by simp [h]; omega
      rw [this, List.drop_left]; rfl

theorem stack_unstack (n : Nat) (v : List K) (h : v.length = 2 * n + 1) :
    stack (unstack n v) = v := by
  simp only [stack, unstack]
  have h2 : (v.drop (2 * n)) = [(v.drop (2 * n)).headD 0] := by
    have hl : (v.drop (2 * n)).length = 1 := by simp; omega
    match hv : v.drop (2 * n), hl with
    | [a], _ => simp
  conv_rhs => rw [← List.take_append_drop n v, ← List.take_append_drop n (v.drop n)]
  rw [List.drop_drop, show n + n = 2 * n by omega, ← h2, List.append_assoc]


/-! ### vector arithmetic on lists of equal length -/

theorem subv_addv_cancel (d a c : List K) (h1 : a.length = d.length) (h2 : c.length = d.length) :
    subv (addv d a) (addv a c) = subv d c := by
  apply List.ext_getElem
  · simp [subv, addv, h1, h2]
  · intro i h3 h4
    simp only [subv, addv, List.getElem_zipWith]
    ring

theorem subv_subv (d a b : List K) : subv (subv d a) b = subv d (addv a b) := by
  unfold subv addv
  induction d generalizing a b with
  | nil => simp
  | cons x t ih =>
    cases a with
    | nil => simp
    | cons y u =>
      cases b with
      | nil => simp
      | cons z v => simp only [List.zipWith_cons_cons, ih]; congr 1; ring

end Dino.Implicit
