import DinoProofs.Lemmas.BalanceSW
import DinoProofs.Lemmas.Dynamics

/-!
# Lemmas for C05: column identities (T5.2) and the layered pressure of `multi_layer` (T5.3)

1. `σ̇` on **all** `n + 1` boundaries: the code's interior values padded with the two zeros that
   `centered_vertical_advection` assumes are the continuous formula `σ·F(1) − F(σ)` evaluated at
   every boundary; it vanishes at `σ = 0` and (when the thicknesses sum to one) at `σ = 1`;
2. the surface-pressure tendency is the `σ = 1` value of the same cumulative integral;
3. `(D + I)·Φ = D·Φ + Φ` for the matrix `D + np.eye(n)` of `multi_layer`.
-/
set_option linter.unusedSectionVars false

namespace Dino.Balance
open Dino Dino.Dynamics

section column
variable {K V : Type} [Field K] [AddCommGroup V] [Module K V]

/-- `sigma_integral` is the last value of `cumulative_sigma_integral` -/
theorem sigmaIntegral_eq_last (ds : List K) (x : List V) :
    Col.sigmaIntegral ds x = (Col.cumSigmaIntegral ds x).getLastD 0 := by
  unfold Col.sigmaIntegral Col.cumSigmaIntegral
  rw [lv_getLastD, lv_cumsum, cumsum_length]
  by_cases h : (Col.wmul ds x).length = 0
  · have : Col.wmul ds x = [] := List.eq_nil_of_length_eq_zero h
    simp [this]
  · rw [if_pos (by omega), sum_eq_range]
    congr 2
    omega

/-- `sigma_integral` is additive -/
theorem sigmaIntegral_add (ds : List K) (x y : List V) (h : x.length = y.length) :
    Col.sigmaIntegral ds (Col.add x y) = Col.sigmaIntegral ds x + Col.sigmaIntegral ds y := by
  unfold Col.sigmaIntegral
  rw [sum_eq_range, sum_eq_range, sum_eq_range]
  have l1 : (Col.wmul ds (Col.add x y)).length = (Col.wmul ds x).length := by
    simp [Col.add, h]
  have l2 : (Col.wmul ds y).length = (Col.wmul ds x).length := by simp [h]
  rw [l1, l2, ← Finset.sum_add_distrib]
  apply Finset.sum_congr rfl
  intro i _
  rw [lv_wmul, lv_wmul, lv_wmul, lv_add x y h, smul_add]

/-- the continuous formula `σ̇(σ) = σ·F(1) − F(σ)` at boundary number `k` (`k = 0` is `σ = 0`,
 `k = n` is `σ = 1`): `σ_k = Σ_{j<k} Δσ_j`, `F(σ_k) = Σ_{j<k} Δσ_j g_j` -/
def sigmaDotAt (ds : List K) (g : List V) (k : ℕ) : V :=
  (ds.take k).sum • Col.sigmaIntegral ds g - ((Col.wmul ds g).take k).sum

theorem sigmaDotAt_zero (ds : List K) (g : List V) : sigmaDotAt ds g 0 = 0 := by
  simp [sigmaDotAt]

/-- `σ̇` vanishes at the surface when the thicknesses sum to one -/
theorem sigmaDotAt_bottom (ds : List K) (g : List V) (n : ℕ) (hds : ds.length = n) (hg : g.length = n)
    (h1 : ds.sum = 1) : sigmaDotAt ds g n = 0 := by
  unfold sigmaDotAt Col.sigmaIntegral
  rw [← hds, List.take_length, h1, one_smul, List.take_of_length_le (by simp [hds, hg]), sub_self]

/-- **σ̇ on all boundaries.**  What `centered_vertical_advection` sees (the interior values of
 `compute_diagnostic_state` between the two default boundary zeros) is `σ·F(1) − F(σ)` at every
 one of the `n + 1` boundaries. -/
theorem sigmaDot_padded (ds : List K) (g : List V) (n : ℕ) (hn : 0 < n) (hds : ds.length = n)
    (hg : g.length = n) (h1 : ds.sum = 1) :
    (0 : V) :: (sigmaDotOf ds (Col.cumSigmaIntegral ds g) ++ [0])
      = (List.range (n + 1)).map (sigmaDotAt ds g) := by
  have hF : (Col.cumSigmaIntegral ds g).length = n := by simp [hds, hg]
  have hl : (sigmaDotOf ds (Col.cumSigmaIntegral ds g)).length = n - 1 :=
    sigmaDotOf_length ds _ n hds hF
  apply ext_lv (n := n + 1) (by simp [hl]; omega) (by simp)
  intro i hi
  rw [lv_range_map _ _ hi]
  cases i with
  | zero => simp [sigmaDotAt_zero]
  | succ i =>
    rw [lv_cons_succ, lv_append_zero, lv_sigmaDotOf ds _ n hds hF]
    by_cases h : i + 1 < n
    · rw [if_pos h, lv_cumSigmaIntegral ds g n hds hg, if_pos (by omega),
        lv_cumSigmaIntegral ds g n hds hg, if_pos (by omega)]
      unfold sigmaDotAt cumF Col.sigmaIntegral
      rw [sum_eq_range (Col.wmul ds g)]
      simp only [sum_take_eq, lv_wmul, wmul_length, hds, hg, Nat.min_self]
      have : n - 1 + 1 = n := by omega
      rw [this]
    · rw [if_neg h]
      have : i + 1 = n := by omega
      rw [this, sigmaDotAt_bottom ds g n hds hg h1]

/-- a linear map commutes with `sigma_integral` -/
theorem map_sigmaIntegral {W : Type} [AddCommGroup W] [Module K W] (f : V → W) (hf : IsLinearMap K f)
    (ds : List K) (x : List V) : f (Col.sigmaIntegral ds x) = Col.sigmaIntegral ds (x.map f) := by
  unfold Col.sigmaIntegral Col.wmul
  induction ds generalizing x with
  | nil => simp [hf.map_zero]
  | cons a t ih =>
    cases x with
    | nil => simp [hf.map_zero]
    | cons b r => simp [hf.map_add, hf.map_smul, ih]

/-- `sigma_integral` of the negated column -/
theorem sigmaIntegral_neg_add (ds : List K) (x y : List V) (h : x.length = y.length) :
    -(Col.sigmaIntegral ds (Col.add x y)) = -(Col.sigmaIntegral ds x) + -(Col.sigmaIntegral ds y) := by
  rw [sigmaIntegral_add ds x y h, neg_add]

/-- the thicknesses of a level set telescope: `Σ Δσ = boundaries[-1] − boundaries[0]` -/
theorem thickness_sum (a : K) (t : List K) :
    (Sigma.thickness (a :: t)).sum = (a :: t).getLast (List.cons_ne_nil a t) - a := by
  unfold Sigma.thickness
  induction t generalizing a with
  | nil => simp [Sigma.diffs]
  | cons b r ih =>
    rw [Sigma.diffs, List.sum_cons, ih b, List.getLast_cons (List.cons_ne_nil b r)]
    ring

/-- admissible level sets (`boundaries[0] = 0`, `boundaries[-1] = 1`) have `Σ Δσ = 1` -/
theorem thickness_sum_one (b : List K) (hb : b ≠ []) (h0 : b.head hb = 0) (h1 : b.getLast hb = 1) :
    (Sigma.thickness b).sum = 1 := by
  cases b with
  | nil => exact absurd rfl hb
  | cons a t =>
    rw [thickness_sum]
    simp only [List.head_cons] at h0
    rw [h1, h0, sub_zero]

end column

/-! ## `D + np.eye(n)` -/
section eye
variable {K V : Type} [Field K] [AddCommGroup V] [Module K V]

/-- the dot product with the `i`-th unit vector picks the `i`-th level -/
theorem wmul_unit_sum (x : List V) (i : ℕ) :
    (Col.wmul ((List.range x.length).map fun j => if i = j then (1 : K) else 0) x).sum = lv x i := by
  rw [sum_eq_range]
  have hl : (Col.wmul ((List.range x.length).map fun j => if i = j then (1 : K) else 0) x).length
      = x.length := by simp
  rw [hl]
  by_cases hi : i < x.length
  · rw [Finset.sum_eq_single i]
    · rw [lv_wmul, lv_range_map _ _ hi]; simp
    · intro j hj hji
      rw [lv_wmul, lv_range_map _ _ (by simpa using hj), if_neg (by omega), zero_smul]
    · intro h; exact absurd (by simpa using hi) h
  · rw [lv_of_ge (by omega)]
    apply Finset.sum_eq_zero
    intro j hj
    have : j < x.length := by simpa using hj
    rw [lv_wmul, lv_range_map _ _ this, if_neg (by omega), zero_smul]

/-- one row of `D + I` applied to a column -/
theorem wmul_addEye_row (row : List K) (x : List V) (i : ℕ) (h : row.length = x.length) :
    (Col.wmul ((List.range row.length).map fun j => row.getD j 0 + (if i = j then (1 : K) else 0)) x).sum
      = (Col.wmul row x).sum + lv x i := by
  rw [← wmul_unit_sum (K := K) x i, sum_eq_range, sum_eq_range, sum_eq_range]
  simp only [wmul_length, List.length_map, List.length_range, h, Nat.min_self]
  rw [← Finset.sum_add_distrib]
  apply Finset.sum_congr rfl
  intro j hj
  have hj' : j < x.length := by simpa using hj
  rw [lv_wmul, lv_wmul, lv_wmul, lv_range_map _ _ hj', lv_range_map _ _ hj', add_smul]
  rfl

/-- **`(D + I)·Φ = D·Φ + Φ`** for a square matrix `D` whose size is the number of layers -/
theorem matvec_addEye (a : List (List K)) (x : List V) (ha : a.length = x.length)
    (hrow : ∀ r ∈ a, r.length = x.length) :
    Col.matvec (DynamicsSW.addEye a) x = Col.add (Col.matvec a x) x := by
  apply List.ext_getElem
  · simp [Col.matvec, DynamicsSW.addEye, Col.add, ha]
  · intro i h1 h2
    have hi : i < x.length := by simpa [Col.matvec, DynamicsSW.addEye, ha] using h1
    have hia : i < a.length := by omega
    have hr : (a.getD i []) = a[i] := by simp [List.getD_eq_getElem?_getD, List.getElem?_eq_getElem hia]
    have hx : lv x i = x[i] := by simp [lv_def, List.getElem?_eq_getElem hi]
    simp only [Col.matvec, DynamicsSW.addEye, Col.add, List.getElem_map, List.getElem_range,
      List.getElem_zipWith, hr]
    rw [wmul_addEye_row a[i] x i (hrow _ (List.getElem_mem hia)), hx]

end eye

end Dino.Balance

namespace Dino.Balance
open Dino Dino.DynamicsSW
open Dino.Dynamics hiding State

section multilayer
variable {K M N : Type} [Field K] [AddCommGroup M] [Module K M] [CommRing N] [Algebra K N] [Div N]
variable [LT K] [DecidableLT K]
variable (eq : ShallowWaterEquations K M N) (zeroMean : M → M)

theorem getDensityRatios_length (d : List K) : (getDensityRatios d).length = d.length := by
  simp [getDensityRatios]

theorem getDensityRatios_row_length (d : List K) : ∀ r ∈ getDensityRatios d, r.length = d.length := by
  intro r hr
  unfold getDensityRatios at hr
  obtain ⟨i, -, rfl⟩ := List.mem_map.mp hr
  simp

/-- the potentials `one_layer` builds, one per layer -/
def onePotentials (h : HOps K M N) (us : List N) : List M :=
  (State.ofLayers (us.map (oneLayer h zeroMean))).potential

theorem onePotentials_eq (h : HOps K M N) (us : List N) :
    onePotentials zeroMean h us = us.map fun u => (oneLayer h zeroMean u).potential := by
  simp [onePotentials, State.ofLayers]

/-- **the layered pressure of `multi_layer`**: with the contract of `jnp.linalg.solve`
 (`(D + I)·Φ = Ψ`, used only when there are at least two layers, as in the code) the pressure
 `D·Φ` that `explicit_terms` computes plus the layer's own potential is the one-layer potential. -/
theorem multiLayer_pressure (us : List N) (solve : List (List K) → List M → List M)
    (hd : eq.specs.densities.length = us.length) (ho : eq.orography = none)
    (hsolve : 1 < us.length →
      (solve (addEye (getDensityRatios eq.specs.densities)) (onePotentials zeroMean eq.ops us)).length
          = us.length ∧
        Col.matvec (addEye (getDensityRatios eq.specs.densities))
            (solve (addEye (getDensityRatios eq.specs.densities)) (onePotentials zeroMean eq.ops us))
          = onePotentials zeroMean eq.ops us) :
    let Φ := (multiLayer eq.ops zeroMean solve us eq.specs.densities).potential
    Φ.length = us.length ∧ Col.add (eq.layeredPressure Φ) Φ = onePotentials zeroMean eq.ops us := by
  intro Φ
  have hΦ : Φ = if us.length > 1
      then solve (addEye (getDensityRatios eq.specs.densities)) (onePotentials zeroMean eq.ops us)
      else onePotentials zeroMean eq.ops us := rfl
  have hlp : ∀ x : List M, eq.layeredPressure x = Col.matvec (getDensityRatios eq.specs.densities) x := by
    intro x
    unfold ShallowWaterEquations.layeredPressure ShallowWaterEquations.densityRatios
    rw [ho]
  rw [hlp]
  by_cases h : 1 < us.length
  · obtain ⟨h1, h2⟩ := hsolve h
    rw [hΦ, if_pos h]
    refine ⟨h1, ?_⟩
    rw [← matvec_addEye _ _ (by rw [getDensityRatios_length, hd, h1])
      (fun r hr => by rw [getDensityRatios_row_length _ r hr, hd, h1]), h2]
  · rw [hΦ, if_neg h]
    refine ⟨by simp [onePotentials_eq], ?_⟩
    match us, hd, h with
    | [], hd, _ =>
      have : eq.specs.densities = [] := List.eq_nil_of_length_eq_zero hd
      simp [onePotentials_eq, this, getDensityRatios, Col.matvec, Col.add]
    | [u], hd, _ =>
      obtain ⟨ρ, hρ⟩ := List.length_eq_one_iff.mp hd
      simp [onePotentials_eq, hρ, getDensityRatios, Col.matvec, Col.add, Col.wmul]
    | _ :: _ :: _, _, h => exact absurd (by simp) h

end multilayer
end Dino.Balance
