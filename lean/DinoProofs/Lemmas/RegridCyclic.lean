import DinoProofs.Lemmas.Regrid
import Mathlib.Data.List.Rotate
import Mathlib.Data.List.Chain
import Mathlib.Algebra.Order.Ring.Cast
import Mathlib.Tactic.Push

/-!
# Offset longitude grids: `% period` rotates the coordinate vector

`_longitude_overlap` reduces the points with `% period` before it builds the cells.  For a grid
with a negative `longitude_offset`, or an offset of at least one cell, the reduced vector is not
increasing any more: it is a cyclic rotation of an increasing vector inside `[0, P)`.

* `upperBounds_rotate`, `lowerBounds_rotate`, `cellsOf_rotate`: the cell construction commutes
  with cyclic rotation (it only uses `roll` and the element-wise `_align_phase_with`);
* `map_mod_eq_rotate`: for increasing points spanning less than a period, `points % P` is the
  rotation of an increasing vector inside `[0, P)` with the same circular gaps;
* `kmat_rotate`, `normRows_rotate`: the overlap / weight matrix of rotated cells is the row and
  column rotation of the matrix of the sorted cells.
-/

set_option linter.unusedSectionVars false
set_option linter.unusedSimpArgs false
set_option linter.unusedVariables false

namespace Dino.Regrid

section rot
variable {K : Type} [Field K] [LinearOrder K] [IsStrictOrderedRing K]

/-! ## `roll` is `rotate` -/

theorem rollL_eq_rotate (x : List K) : rollL x = x.rotate 1 := by
  cases x with
  | nil => rfl
  | cons a t => simp [rollL]

theorem rollR_eq_rotate (x : List K) : rollR x = x.rotate (x.length - 1) := by
  unfold rollR
  rcases h : x.getLast? with _ | l
  · have : x = [] := List.getLast?_eq_none_iff.mp h
    subst this; rfl
  · obtain ⟨d, rfl⟩ : ∃ d, x = d ++ [l] :=
      ⟨x.dropLast, (List.dropLast_append_getLast? l (by simp [h])).symm⟩
    have hl : (d ++ [l]).length - 1 = d.length := by simp
    rw [hl, List.rotate_append_length_eq]
    simp

theorem length_rollL (x : List K) : (rollL x).length = x.length := by
  rw [rollL_eq_rotate, List.length_rotate]

theorem length_rollR (x : List K) : (rollR x).length = x.length := by
  rw [rollR_eq_rotate, List.length_rotate]

theorem length_upperBounds (P : K) (x : List K) : (upperBounds P x).length = x.length := by
  simp [upperBounds, length_rollL]

theorem length_lowerBounds (P : K) (x : List K) : (lowerBounds P x).length = x.length := by
  simp [lowerBounds, length_rollR]

/-! ## the cell construction commutes with rotation -/

theorem upperBounds_rotate (P : K) (x : List K) (k : ℕ) :
    upperBounds P (x.rotate k) = (upperBounds P x).rotate k := by
  unfold upperBounds
  rw [rollL_eq_rotate, rollL_eq_rotate, List.rotate_rotate, Nat.add_comm, ← List.rotate_rotate,
    ← List.zipWith_rotate_distrib _ _ _ _ (by simp)]

theorem lowerBounds_rotate (P : K) (x : List K) (k : ℕ) :
    lowerBounds P (x.rotate k) = (lowerBounds P x).rotate k := by
  unfold lowerBounds
  rw [rollR_eq_rotate, rollR_eq_rotate, List.length_rotate, List.rotate_rotate, Nat.add_comm,
    ← List.rotate_rotate, ← List.zipWith_rotate_distrib _ _ _ _ (by simp)]

/-- the cells `(lower, upper)` of a vector of points already reduced modulo the period -/
def cellsOf (P : K) (q : List K) : List (K × K) := (lowerBounds P q).zip (upperBounds P q)

theorem lonCells_eq_cellsOf (md : K → K → K) (P : K) (pts : List K) :
    lonCells md P pts = cellsOf P (pts.map (md · P)) := rfl

theorem cellsOf_rotate (P : K) (x : List K) (k : ℕ) :
    cellsOf P (x.rotate k) = (cellsOf P x).rotate k := by
  unfold cellsOf
  rw [upperBounds_rotate, lowerBounds_rotate, List.zip_eq_zipWith, List.zip_eq_zipWith,
    ← List.zipWith_rotate_distrib _ _ _ _ (by rw [length_lowerBounds, length_upperBounds])]

/-! ## `% period` on increasing points spanning less than a period -/

/-- the integer in `v % P = v − n·P` is determined by `0 ≤ v % P < P` -/
theorem mod_eq_sub {md : K → K → K} {P : K} (hP : 0 < P)
    (hmd : ∀ v, ∃ n : ℤ, md v P = v - n * P ∧ 0 ≤ md v P ∧ md v P < P)
    (v : K) (m : ℤ) (h0 : 0 ≤ v - m * P) (h1 : v - m * P < P) : md v P = v - m * P := by
  obtain ⟨n, e, a, b⟩ := hmd v
  rw [e] at a b
  have h3 : ((m - n : ℤ) : K) < ((1 : ℤ) : K) := by
    push_cast
    apply lt_of_mul_lt_mul_right _ hP.le
    linarith
  have h4 : ((n - m : ℤ) : K) < ((1 : ℤ) : K) := by
    push_cast
    apply lt_of_mul_lt_mul_right _ hP.le
    linarith
  have h5 := Int.cast_lt.mp h3
  have h6 := Int.cast_lt.mp h4
  have : n = m := by omega
  rw [e, this]

/-- an increasing list splits at any threshold -/
theorem split_at (c : K) (l : List K) (h : l.Pairwise (· < ·)) :
    ∃ A B, l = A ++ B ∧ (∀ v ∈ A, v < c) ∧ (∀ v ∈ B, c ≤ v) := by
  induction l with
  | nil => exact ⟨[], [], rfl, by simp, by simp⟩
  | cons a t ih =>
    obtain ⟨h1, h2⟩ := List.pairwise_cons.mp h
    by_cases hc : a < c
    · obtain ⟨A, B, e, hA, hB⟩ := ih h2
      refine ⟨a :: A, B, by rw [e]; rfl, ?_, hB⟩
      intro v hv
      rcases List.mem_cons.mp hv with rfl | hv
      · exact hc
      · exact hA v hv
    · refine ⟨[], a :: t, rfl, by simp, ?_⟩
      intro v hv
      rcases List.mem_cons.mp hv with rfl | hv
      · exact not_lt.mp hc
      · exact le_trans (not_lt.mp hc) (h1 v hv).le

theorem diffs_le_iff_isChain (g : K) (l : List K) :
    (∀ d ∈ diffs l, d ≤ g) ↔ l.IsChain (fun a b => b - a ≤ g) := by
  induction l with
  | nil => simp [diffs]
  | cons a t ih =>
    cases t with
    | nil => simp [diffs]
    | cons b u =>
      rw [diffs_cons_cons, List.isChain_cons_cons, ← ih]
      simp

/-- **`% period` rotates.**  For strictly increasing points spanning less than a period,
 `points % P` is a cyclic rotation of a strictly increasing vector `q` inside `[0, P)` with the
 same circular gaps (every gap of `q`, including its wrap-around gap, is bounded by whatever bounds
 the gaps of the points and their wrap-around gap). -/
theorem map_mod_eq_rotate (md : K → K → K) {P : K} (hP : 0 < P)
    (hmd : ∀ v, ∃ n : ℤ, md v P = v - n * P ∧ 0 ≤ md v P ∧ md v P < P)
    (p0 : K) (t : List K) (hinc : (p0 :: t).Pairwise (· < ·))
    (hper : t.getLastD p0 < p0 + P) (g : K)
    (hchain : (p0 :: t).IsChain (fun a b => b - a ≤ g)) (hwrap : p0 + P - t.getLastD p0 ≤ g) :
    ∃ (q : List K) (k : ℕ), (p0 :: t).map (md · P) = q.rotate k ∧ q.length = t.length + 1 ∧
      q.Pairwise (· < ·) ∧ (∀ v ∈ q, 0 ≤ v ∧ v < P) ∧ q.IsChain (fun a b => b - a ≤ g) ∧
      (∀ a ∈ q.head?, ∀ b ∈ q.getLast?, a + P - b ≤ g) := by
  obtain ⟨n0, e0, h00, h01⟩ := hmd p0
  set s : K := (n0 : K) * P with hs
  rw [e0] at h00 h01
  have hmax : ∀ v ∈ p0 :: t, v ≤ t.getLastD p0 :=
    le_getLastD_of_pairwise p0 t (pairwise_le_of_lt hinc)
  have hmin : ∀ v ∈ p0 :: t, p0 ≤ v := by
    intro v hv
    rcases List.mem_cons.mp hv with rfl | hv
    · exact le_refl _
    · exact ((List.pairwise_cons.mp hinc).1 v hv).le
  obtain ⟨A, B, hAB, hA, hB⟩ := split_at (s + P) (p0 :: t) hinc
  have hmemA : ∀ v ∈ A, v ∈ p0 :: t := fun v hv => by rw [hAB]; exact List.mem_append_left _ hv
  have hmemB : ∀ v ∈ B, v ∈ p0 :: t := fun v hv => by rw [hAB]; exact List.mem_append_right _ hv
  -- `A` starts with `p0`
  obtain ⟨A1, rfl⟩ : ∃ A1, A = p0 :: A1 := by
    cases A with
    | nil =>
      have : p0 ∈ B := by
        rw [List.nil_append] at hAB; rw [← hAB]; simp
      have := hB p0 this
      linarith
    | cons a A1 =>
      rw [List.cons_append] at hAB
      exact ⟨A1, by rw [(List.cons.inj hAB).1]⟩
  have hmdA : ∀ v ∈ p0 :: A1, md v P = v - s := by
    intro v hv
    have := mod_eq_sub hP hmd v n0 (by linarith [hmin v (hmemA v hv)]) (by linarith [hA v hv])
    rw [this]
  have hmdB : ∀ v ∈ B, md v P = v - (s + P) := by
    intro v hv
    have := mod_eq_sub hP hmd v (n0 + 1) (by push_cast; linarith [hB v hv])
      (by push_cast; linarith [hmax v (hmemB v hv)])
    rw [this]; push_cast; ring
  have hmap : (p0 :: t).map (md · P)
      = (p0 :: A1).map (· - s) ++ B.map (· - (s + P)) := by
    rw [hAB, List.map_append, List.map_congr_left hmdA, List.map_congr_left hmdB]
  rw [hAB] at hinc hchain
  obtain ⟨incA, incB, incAB⟩ := List.pairwise_append.mp hinc
  obtain ⟨chA, chB, chAB⟩ := List.isChain_append.mp hchain
  -- the last point
  have hlast : (p0 :: t).getLast? = some (t.getLastD p0) := by
    rw [List.getLast?_cons, List.getLastD_eq_getLast?]
  rw [hAB, List.getLast?_append] at hlast
  refine ⟨B.map (· - (s + P)) ++ (p0 :: A1).map (· - s), (B.map (· - (s + P))).length, ?_, ?_,
    ?_, ?_, ?_, ?_⟩
  · rw [hmap, List.rotate_append_length_eq]
  · have := congrArg List.length hAB
    simp only [List.length_append, List.length_cons, List.length_map] at this ⊢
    omega
  · rw [List.pairwise_append]
    refine ⟨?_, ?_, ?_⟩
    · rw [List.pairwise_map]; exact incB.imp (by intro a b h; linarith)
    · rw [List.pairwise_map]; exact incA.imp (by intro a b h; linarith)
    · intro x hx y hy
      obtain ⟨b, hb, rfl⟩ := List.mem_map.mp hx
      obtain ⟨a, ha, rfl⟩ := List.mem_map.mp hy
      linarith [hmax b (hmemB b hb), hmin a (hmemA a ha)]
  · intro v hv
    rcases List.mem_append.mp hv with hv | hv
    · obtain ⟨b, hb, rfl⟩ := List.mem_map.mp hv
      constructor <;> linarith [hB b hb, hmax b (hmemB b hb)]
    · obtain ⟨a, ha, rfl⟩ := List.mem_map.mp hv
      constructor <;> linarith [hA a ha, hmin a (hmemA a ha)]
  · rw [List.isChain_append]
    refine ⟨?_, ?_, ?_⟩
    · rw [List.isChain_map]; exact chB.imp (by intro a b h; linarith)
    · rw [List.isChain_map]; exact chA.imp (by intro a b h; linarith)
    · intro x hx y hy
      rw [List.getLast?_map] at hx
      rw [List.map_cons, List.head?_cons] at hy
      obtain ⟨bl, hbl, rfl⟩ := Option.mem_map.mp hx
      have hy' : y = p0 - s := (Option.some.inj hy).symm
      rw [hy']
      have : bl = t.getLastD p0 := by
        have h1 : B.getLast? = some bl := hbl
        rw [h1] at hlast
        simpa using hlast
      rw [this]
      linarith
  · intro a ha b hb
    rw [List.getLast?_append, List.map_cons, List.getLast?_cons] at hb
    have hb' : b = ((A1.map (· - s)).getLast?.getD (p0 - s)) := by simpa using hb.symm
    -- the last element of `p0 :: A1`, shifted
    have hb'' : b = (A1.getLast?.getD p0) - s := by
      rw [hb', List.getLast?_map]
      cases A1.getLast? <;> simp
    cases B with
    | nil =>
      rw [List.map_nil, List.nil_append, List.map_cons, List.head?_cons] at ha
      have ha' : a = p0 - s := (Option.some.inj ha).symm
      have : A1.getLast?.getD p0 = t.getLastD p0 := by
        rw [List.getLast?_nil, Option.or_eq_right_of_none rfl, List.getLast?_cons] at hlast
        simpa using hlast
      rw [ha', hb'', this]
      linarith
    | cons b0 B1 =>
      rw [List.map_cons, List.cons_append, List.head?_cons] at ha
      have ha' : a = b0 - (s + P) := (Option.some.inj ha).symm
      have := chAB (A1.getLast?.getD p0) (by rw [List.getLast?_cons]; simp) b0 (by simp)
      rw [ha', hb'']
      linarith

/-! ## matrices of rotated cells -/

theorem kmat_rotate {C : Type} (ov : C → C → K) (T S : List C) (k j : ℕ) :
    kmat ov (T.rotate k) (S.rotate j) = ((kmat ov T S).map (·.rotate j)).rotate k := by
  unfold kmat
  simp only [← List.map_rotate, List.map_map]
  apply List.map_congr_left
  intro t _
  simp [List.map_rotate]

theorem normRows_rotate (M : List (List K)) (k j : ℕ) :
    normRows ((M.map (·.rotate j)).rotate k) = ((normRows M).map (·.rotate j)).rotate k := by
  unfold normRows
  simp only [← List.map_rotate, List.map_map]
  apply List.map_congr_left
  intro r _
  simp only [Function.comp_def]
  rw [(List.rotate_perm r j).sum_eq, List.map_rotate]

end rot

end Dino.Regrid
