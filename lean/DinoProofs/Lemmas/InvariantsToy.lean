import DinoProofs.Lemmas.InvariantsMean
import DinoProofs.Lemmas.DynamicsToy

/-!
# A concrete horizontal record with a PROPER structural submodule (non-vacuity of C11)

Carrier: the 2-jets `J` of `DinoProofs/Lemmas/DynamicsToy.lean` over `ℚ`
(`a + b·x + c·y + d·x² + e·xy + f·y²`).  The "total wavenumber" is the degree (0, 1, 2),
`lproj l` projects on degree `l`, `clip` kills degree 2 (the top wavenumber), `to_modal` kills the
`xy` coefficient (a coefficient outside the modal mask).  So

* `Mk = {e = 0}` (masked fields) is a proper submodule,
* `S = {d = e = f = 0}` (masked and clipped) is a proper submodule of `Mk`,
* `ℓ = ` the constant coefficient is the `(0,0)` coefficient: killed by the two Euler derivations
  and by the "Laplacian", seen only by `lproj 0`, kept by `clip`.
-/
namespace Dino.Invariants.Toy
open Dino Dino.Dynamics Dino.Dynamics.Toy Dino.Dynamics.Toy.J

/-- projection on degree `l` -/
def degProj (l : ℕ) (a : J) : J :=
  if l = 0 then ⟨a.c0, 0, 0, 0, 0, 0⟩
  else if l = 1 then ⟨0, a.cx, a.cy, 0, 0, 0⟩
  else if l = 2 then ⟨0, 0, 0, a.cxx, a.cxy, a.cyy⟩
  else 0

/-- `to_modal` of the toy grid: the `xy` coefficient is outside the mask -/
def mask (a : J) : J := ⟨a.c0, a.cx, a.cy, a.cxx, 0, a.cyy⟩

/-- the toy grid of C11: three total wavenumbers, a mask, a clipped top wavenumber -/
def toy3 : HOps ℚ J J :=
  { toy with toModal := mask, lproj := degProj, nL := 3, lapEig := fun l => -((l : ℚ) * (l + 1)) }

/-- masked fields -/
def MkJ : Submodule ℚ J where
  carrier := {a | a.cxy = 0}
  add_mem' := by
    intro a b (ha : a.cxy = 0) (hb : b.cxy = 0)
    show (a + b).cxy = 0
    simp [add_def, ha, hb]
  zero_mem' := rfl
  smul_mem' := by
    intro c a (ha : a.cxy = 0)
    show (c • a).cxy = 0
    simp [smul_def, ha]

/-- masked and clipped fields -/
def SJ : Submodule ℚ J where
  carrier := {a | a.cxx = 0 ∧ a.cxy = 0 ∧ a.cyy = 0}
  add_mem' := by
    intro a b (ha : a.cxx = 0 ∧ a.cxy = 0 ∧ a.cyy = 0) (hb : b.cxx = 0 ∧ b.cxy = 0 ∧ b.cyy = 0)
    show (a + b).cxx = 0 ∧ (a + b).cxy = 0 ∧ (a + b).cyy = 0
    simp [add_def, ha.1, ha.2.1, ha.2.2, hb.1, hb.2.1, hb.2.2]
  zero_mem' := ⟨rfl, rfl, rfl⟩
  smul_mem' := by
    intro c a (ha : a.cxx = 0 ∧ a.cxy = 0 ∧ a.cyy = 0)
    show (c • a).cxx = 0 ∧ (c • a).cxy = 0 ∧ (c • a).cyy = 0
    simp [smul_def, ha.1, ha.2.1, ha.2.2]

theorem mem_MkJ (a : J) : a ∈ MkJ ↔ a.cxy = 0 := Iff.rfl
theorem mem_SJ (a : J) : a ∈ SJ ↔ a.cxx = 0 ∧ a.cxy = 0 ∧ a.cyy = 0 := Iff.rfl

/-- both submodules are proper: `x²` is masked but not clipped, `xy` is not masked -/
theorem SJ_proper : (⟨0, 0, 0, 1, 0, 0⟩ : J) ∈ MkJ ∧ (⟨0, 0, 0, 1, 0, 0⟩ : J) ∉ SJ ∧
    (⟨0, 0, 0, 0, 1, 0⟩ : J) ∉ MkJ := by
  refine ⟨rfl, ?_, ?_⟩
  · rw [mem_SJ]; simp
  · rw [mem_MkJ]; simp

/-- the `(0,0)` coefficient -/
def c0ℓ : J →ₗ[ℚ] ℚ where
  toFun := J.c0
  map_add' := fun _ _ => rfl
  map_smul' := fun _ _ => rfl

@[simp] theorem c0ℓ_apply (a : J) : c0ℓ a = a.c0 := rfl

theorem toy3_closed : OpsClosed toy3 MkJ SJ where
  S_le := fun x hx => hx.2.1
  toModal_mem := fun _ => rfl
  dDlon_mem := fun x (hx : x.cxy = 0) => by show (dx x).cxy = 0; simp [dx, hx]
  secLat_mem := fun x (hx : x.cxy = 0) => by show (dy x).cxy = 0; simp [dy, hx]
  laplacian_mem := fun x (hx : x.cxy = 0) => by show (lap x).cxy = 0; simp [lap, hx]
  clip_mem := fun x _ => ⟨rfl, rfl, rfl⟩
  laplacian_S := fun x hx => by
    show (lap x).cxx = 0 ∧ (lap x).cxy = 0 ∧ (lap x).cyy = 0
    simp [lap, hx.1, hx.2.1, hx.2.2]
  lproj_S := fun l x hx => by
    show (degProj l x).cxx = 0 ∧ (degProj l x).cxy = 0 ∧ (degProj l x).cyy = 0
    unfold degProj
    split_ifs <;> simp [hx.1, hx.2.1, hx.2.2, zero_def]

theorem toy3_mode0 : Mode0 toy3 c0ℓ where
  nL_pos := by decide
  lproj_zero := fun _ => rfl
  lproj_pos := fun l h0 h3 x => by
    show (degProj l x).c0 = 0
    unfold degProj
    have : l ≠ 0 := by omega
    simp only [this, if_false]
    split_ifs <;> rfl
  lapEig_zero := by simp [toy3]
  dDlon := fun _ => rfl
  secLat := fun _ => rfl
  laplacian := fun _ => rfl
  clip := fun _ hx => hx

theorem toy3_linear : IsLinearMap ℚ toy3.toModal ∧ IsLinearMap ℚ toy3.dDlon ∧
    IsLinearMap ℚ toy3.secLatDDlatCos2 ∧ IsLinearMap ℚ toy3.clip := by
  refine ⟨lin_of _ ?_ ?_, toy_laws.dDlon_lin, toy_laws.secLatDDlatCos2_lin, toy_laws.clip_lin⟩
  · intro a b; ext <;> simp [toy3, mask, add_def]
  · intro r a; ext <;> simp [toy3, mask, smul_def]

end Dino.Invariants.Toy
