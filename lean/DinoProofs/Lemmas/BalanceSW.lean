import DinoProofs.Lemmas.Balance
import Mathlib.Tactic.Abel

/-!
# Lemmas for C05, shallow-water part (`Dino.DynamicsSW`)

1. one layer of `explicit_terms` for a zonal non-divergent flow;
2. the laws (`FactoryLaws`) and input hypotheses (`ZonalJet`) of the factory theorems, and what
   `one_layer` builds.
-/
set_option linter.unusedSectionVars false

namespace Dino.Balance
open Dino Dino.DynamicsSW
open Dino.Dynamics hiding State

section sw
variable {K M N : Type} [Field K] [AddCommGroup M] [Module K M] [CommRing N] [Algebra K N]
variable (eq : ShallowWaterEquations K M N)

/-- One layer of the shallow-water `explicit_terms` for a **zonal, non-divergent** flow: if the
 velocity recovered from `(ζ, 0)` is `(w, 0)` on the nodal grid and the two flux fields are zonal
 (`d_dlon = 0`), the vorticity and potential tendencies vanish and the divergence tendency is
 `clip(−∇²(p + ½w²sec²) − clip(S(B)/r))`, `B = to_modal(w (ζ + f) sec²)`. -/
theorem explicitLayer_zonal (L : LinLaws eq.ops) (vort pot p : M) (w : N)
    (hU : eq.ops.toNodal (eq.ops.cosLatVector true vort 0).1 = w)
    (hV : (eq.ops.cosLatVector true vort 0).2 = 0)
    (hZb : eq.ops.dDlon (eq.ops.toModal
      (w * (stateToNodal eq.ops vort + eq.coriolisParameter) * eq.ops.sec2Lat)) = 0)
    (hZg : eq.ops.dDlon (eq.ops.toModal (w * stateToNodal eq.ops pot * eq.ops.sec2Lat)) = 0) :
    eq.explicitLayer vort 0 pot p =
      (0,
       eq.ops.clip (-(eq.ops.laplacian (p + eq.ops.toModal (((1 / (1 + 1)) : K) • (w * w * eq.ops.sec2Lat))))
         + eq.ops.clip ((1 / eq.ops.radius) • -(eq.ops.secLatDDlatCos2 (eq.ops.toModal
             (w * (stateToNodal eq.ops vort + eq.coriolisParameter) * eq.ops.sec2Lat))))),
       0) := by
  unfold ShallowWaterEquations.explicitLayer
  simp only [hU, hV, L.toNodal.map_zero, zero_mul, L.toModal.map_zero, HOps.divCosLat, HOps.curlCosLat,
    if_true, hZb, hZg, L.secLatDDlatCos2.map_zero, L.dDlon.map_zero, add_zero, smul_zero,
    L.clip.map_zero, neg_zero, zero_sub, mul_zero]

end sw

section swfactory
variable {K M N : Type} [Field K] [AddCommGroup M] [Module K M] [CommRing N] [Algebra K N] [Div N]

/-- laws of the operations used by the shallow-water factory theorems; `zeroMean` is
 `x.at[0, 0].set(0)` -/
structure FactoryLaws (h : HOps K M N) (zeroMean : M → M) : Prop where
  lin : LinLaws h
  /-- the Laplacian does not see the `(0, 0)` coefficient -/
  lap_zeroMean : ∀ x, h.laplacian (zeroMean x) = h.laplacian x
  /-- `∇² ∘ ∇⁻² = id` on fields without a `(0, 0)` coefficient -/
  lap_invlap : ∀ y, zeroMean y = y → h.laplacian (h.inverseLaplacian y) = y
  /-- `sec θ ∂_θ cos²θ ·` produces no `(0, 0)` coefficient -/
  S_zeroMean : ∀ x, zeroMean (h.secLatDDlatCos2 x) = h.secLatDDlatCos2 x
  /-- the nodal tables are consistent: `cos θ · (1 / cos θ) = 1`, `sec²θ = (1 / cos θ)²` -/
  cos_sec : h.cosLat * (1 / h.cosLat) = 1
  sec2 : h.sec2Lat = (1 / h.cosLat) * (1 / h.cosLat)

variable (h : HOps K M N) (zeroMean : M → M)

/-- modal `u / cos θ` -/
def jetU (u : N) : M := h.toModal (u * (1 / h.cosLat))
/-- the vorticity `one_layer` builds: `−sec θ ∂_θ(cos²θ · u / cos θ)` = `radius ×` the vorticity of `u` -/
def jetVorticity (u : N) : M := -(h.secLatDDlatCos2 (jetU h u))
/-- `S(to_modal(u/cosθ · to_nodal ζ))`: the relative-vorticity part of `(ζ + f) u` -/
def jetX1 (u : N) : M := h.secLatDDlatCos2 (h.toModal (u * (1 / h.cosLat) * h.toNodal (jetVorticity h u)))
/-- `S(to_modal(u/cosθ · sinθ))`: the Coriolis part of `(ζ + f) u` for `2Ω = 1` -/
def jetX2 (u : N) : M := h.secLatDDlatCos2 (h.toModal (u * (1 / h.cosLat) * h.sinLat))
/-- `∇²(u²/2)`: the kinetic-energy part for unit radius -/
def jetX3 (u : N) : M := h.laplacian (h.toModal (((1 / (1 + 1)) : K) • (u * u)))

theorem oneLayer_vorticity (u : N) : (oneLayer h zeroMean u).vorticity = jetVorticity h u := rfl
theorem oneLayer_divergence (u : N) : (oneLayer h zeroMean u).divergence = 0 := rfl

theorem oneLayer_potential (F : FactoryLaws h zeroMean) (u : N) :
    h.laplacian (oneLayer h zeroMean u).potential = -(jetX1 h u + jetX2 h u + jetX3 h u) := by
  have L := F.lin
  unfold oneLayer
  simp only [getCoriolis]
  rw [F.lap_zeroMean, L.laplacian.map_sub, L.laplacian.map_neg, F.lap_invlap _ (F.S_zeroMean _)]
  unfold jetX1 jetX2 jetX3 jetVorticity jetU
  rw [mul_add, L.toModal.map_add, L.secLatDDlatCos2.map_add]
  abel

theorem cosLatVector_smul (L : LinLaws h) (c : Bool) (a : K) (z : M) :
    h.cosLatVector c (a • z) 0 = (a • (h.cosLatVector c z 0).1, a • (h.cosLatVector c z 0).2) := by
  unfold HOps.cosLatVector HOps.cosLatGrad HOps.kCross
  cases c <;>
  simp only [L.inverseLaplacian.map_smul, L.inverseLaplacian.map_zero, L.dDlon.map_smul,
    L.dDlon.map_zero, L.cosLatDDlat.map_smul, L.cosLatDDlat.map_zero, L.clip.map_smul,
    L.clip.map_zero, smul_zero, zero_add, smul_neg, if_true, if_false, Bool.false_eq_true,
    smul_comm a (1 / h.radius)]

/-- what is assumed of the input wind `u` (a nodal field): it is zonal, band-limited, and the grid's
 Helmholtz round trip recovers it -/
structure ZonalJet (u : N) : Prop where
  /-- `get_cos_lat_vector ∘ curl_cos_lat` returns `u cos θ` (zonal component) -/
  helmholtz : h.toNodal (h.cosLatVector true (h.curlCosLat false (jetU h u, 0)) 0).1 = u * h.cosLat
  /-- zonal: `d_dlon` of the stream function and of the three flux fields vanishes -/
  zonal_psi : h.dDlon (h.inverseLaplacian (jetVorticity h u)) = 0
  zonal_b1 : h.dDlon (h.toModal (u * (1 / h.cosLat) * h.toNodal (jetVorticity h u))) = 0
  zonal_b2 : h.dDlon (h.toModal (u * (1 / h.cosLat) * h.sinLat)) = 0
  zonal_g : h.dDlon (h.toModal (u * (1 / h.cosLat)
      * h.toNodal (h.clip (oneLayer h zeroMean u).potential))) = 0
  /-- resolved: `clip_wavenumbers` does not touch the fields involved -/
  clip_vorticity : h.clip (jetVorticity h u) = jetVorticity h u
  clip_X1 : h.clip (jetX1 h u) = jetX1 h u
  clip_X2 : h.clip (jetX2 h u) = jetX2 h u
  clip_X3 : h.clip (jetX3 h u) = jetX3 h u

end swfactory

section swfactory
variable {K M N : Type} [Field K] [AddCommGroup M] [Module K M] [CommRing N] [Algebra K N] [Div N]
variable (h : HOps K M N) (zeroMean : M → M)

/-- the velocity the equations recover from the factory's vorticity is `radius × u` -/
theorem jet_velocity (F : FactoryLaws h zeroMean) (u : N) (J : ZonalJet h zeroMean u)
    (hr : h.radius ≠ 0) :
    h.toNodal (h.cosLatVector true (jetVorticity h u) 0).1 = h.radius • (u * h.cosLat) := by
  have L := F.lin
  have hcurl : h.curlCosLat false (jetU h u, 0) = (1 / h.radius) • jetVorticity h u := by
    simp [HOps.curlCosLat, L.dDlon.map_zero, jetVorticity]
  have hz : jetVorticity h u = h.radius • h.curlCosLat false (jetU h u, 0) := by
    rw [hcurl, smul_smul, mul_one_div_cancel hr, one_smul]
  rw [hz, cosLatVector_smul h L]
  simp only [L.toNodal.map_smul, J.helmholtz]

theorem jet_velocity_meridional (F : FactoryLaws h zeroMean) (u : N) (J : ZonalJet h zeroMean u) :
    (h.cosLatVector true (jetVorticity h u) 0).2 = 0 := by
  have L := F.lin
  unfold HOps.cosLatVector HOps.cosLatGrad HOps.kCross
  simp [L.inverseLaplacian.map_zero, L.cosLatDDlat.map_zero, L.clip.map_zero, J.zonal_psi]

theorem jet_nodal_b (F : FactoryLaws h zeroMean) (u A : N) (r c : K) :
    (r • (u * h.cosLat)) * (A + c • h.sinLat) * h.sec2Lat
      = r • (u * (1 / h.cosLat) * A) + (r * c) • (u * (1 / h.cosLat) * h.sinLat) := by
  rw [F.sec2]
  have e : ∀ B : N, u * h.cosLat * B * (1 / h.cosLat * (1 / h.cosLat)) = u * (1 / h.cosLat) * B := by
    intro B
    calc u * h.cosLat * B * (1 / h.cosLat * (1 / h.cosLat))
        = u * (1 / h.cosLat) * B * (h.cosLat * (1 / h.cosLat)) := by ring
      _ = u * (1 / h.cosLat) * B := by rw [F.cos_sec, mul_one]
  simp only [smul_mul_assoc, mul_add, add_mul, mul_smul_comm, e, smul_smul, mul_comm c r]

theorem jet_nodal_g (F : FactoryLaws h zeroMean) (u P : N) (r : K) :
    (r • (u * h.cosLat)) * P * h.sec2Lat = r • (u * (1 / h.cosLat) * P) := by
  have := jet_nodal_b h zeroMean F u P r 0
  simpa using this

theorem jet_nodal_e (F : FactoryLaws h zeroMean) (u : N) (r : K) :
    (r • (u * h.cosLat)) * (r • (u * h.cosLat)) * h.sec2Lat = (r * r) • (u * u) := by
  rw [F.sec2]
  simp only [smul_mul_assoc, mul_smul_comm, smul_smul]
  congr 1
  calc u * h.cosLat * (u * h.cosLat) * (1 / h.cosLat * (1 / h.cosLat))
      = u * u * ((h.cosLat * (1 / h.cosLat)) * (h.cosLat * (1 / h.cosLat))) := by ring
    _ = u * u := by rw [F.cos_sec, mul_one, mul_one]

end swfactory

section swfactory
variable {K M N : Type} [Field K] [AddCommGroup M] [Module K M] [CommRing N] [Algebra K N] [Div N]
variable (eq : ShallowWaterEquations K M N) (zeroMean : M → M)

/-- one layer of `explicit_terms` on the state built by `one_layer`, with the layer's pressure `p`
 left free (it is `0` for one layer and `(D·Φ)ₖ` for several) -/
theorem explicitLayer_jet (F : FactoryLaws eq.ops zeroMean) (u : N) (J : ZonalJet eq.ops zeroMean u)
    (hr : eq.ops.radius ≠ 0) (pot p : M)
    (hg : eq.ops.dDlon (eq.ops.toModal (u * (1 / eq.ops.cosLat) * eq.ops.toNodal (eq.ops.clip pot))) = 0) :
    eq.explicitLayer (jetVorticity eq.ops u) 0 pot p =
      (0,
       eq.ops.clip (-(eq.ops.laplacian p))
         - (eq.ops.radius * eq.ops.radius) • jetX3 eq.ops u - jetX1 eq.ops u
         - ((1 + 1) * eq.specs.angularVelocity) • jetX2 eq.ops u,
       0) := by
  have L := F.lin
  have hb := jet_nodal_b eq.ops zeroMean F u (eq.ops.toNodal (jetVorticity eq.ops u)) eq.ops.radius
    ((1 + 1) * eq.specs.angularVelocity)
  rw [explicitLayer_zonal eq L _ _ _ (eq.ops.radius • (u * eq.ops.cosLat))
    (jet_velocity eq.ops zeroMean F u J hr) (jet_velocity_meridional eq.ops zeroMean F u J)]
  · simp only [stateToNodal, J.clip_vorticity, ShallowWaterEquations.coriolisParameter, hb,
      jet_nodal_e eq.ops zeroMean F, L.toModal.map_add, L.toModal.map_smul,
      L.secLatDDlatCos2.map_add, L.secLatDDlatCos2.map_smul, L.laplacian.map_add,
      L.laplacian.map_smul, smul_comm (1 / (1 + 1) : K) (eq.ops.radius * eq.ops.radius)]
    have e1 : eq.ops.secLatDDlatCos2 (eq.ops.toModal
        (u * (1 / eq.ops.cosLat) * eq.ops.toNodal (jetVorticity eq.ops u))) = jetX1 eq.ops u := rfl
    have e2 : eq.ops.secLatDDlatCos2 (eq.ops.toModal (u * (1 / eq.ops.cosLat) * eq.ops.sinLat))
        = jetX2 eq.ops u := rfl
    have e3 : ((1 / (1 + 1)) : K) • eq.ops.laplacian (eq.ops.toModal (u * u)) = jetX3 eq.ops u := by
      unfold jetX3; rw [L.toModal.map_smul, L.laplacian.map_smul]
    rw [e1, e2, e3]
    simp only [neg_add, smul_add, smul_neg, smul_smul, L.clip.map_add, L.clip.map_neg,
      L.clip.map_smul, J.clip_X1, J.clip_X2, J.clip_X3]
    have hrr : 1 / eq.ops.radius * eq.ops.radius = 1 := by field_simp
    have hrc : 1 / eq.ops.radius * (eq.ops.radius * ((1 + 1) * eq.specs.angularVelocity))
        = (1 + 1) * eq.specs.angularVelocity := by field_simp
    rw [hrr, hrc, one_smul]
    refine Prod.ext rfl (Prod.ext ?_ rfl)
    show _ = _
    module
  · simp only [stateToNodal, J.clip_vorticity, ShallowWaterEquations.coriolisParameter, hb,
      L.toModal.map_add, L.toModal.map_smul, L.dDlon.map_add, L.dDlon.map_smul, J.zonal_b1,
      J.zonal_b2, smul_zero, add_zero]
  · simp only [stateToNodal, jet_nodal_g eq.ops zeroMean F, L.toModal.map_smul, L.dDlon.map_smul, hg,
      smul_zero]

end swfactory

end Dino.Balance
