import DinoProofs.Lemmas.AD

/-!
# More lemmas about the dual-number model `Dino.AD` (second-round additions for C08)

* the remaining strategies of the implicit solve and of the vertical operators run at `Dual K` with
  static coefficients: `implicit_inverse(method='split')` (the repository default),
  `method='blockwise'`, `get_geopotential_diff(method='sparse')`,
  `get_temperature_implicit(method='sparse')`: under every `K`-module projection `φ` of `Dual K`
  (`IsProj`) the result is the same operator applied to the projected input;
* `linear_interp_with_linear_extrap` and `_linear_interp_with_safe_extrap` at `Dual K` with constant
  nodes: linear in the data (same weights), and with respect to the query the tangent is the slope
  of the active cell (the end cells extrapolate) times the tangent of the query.
-/
set_option linter.unusedSectionVars false
set_option linter.unusedSimpArgs false
set_option linter.unusedVariables false

namespace Dino.AD
open Dino Dual

/-! ## constants of `Dual K` under the list operations -/
section consts
variable {K : Type} [CommRing K]
open _root_.Dino.Sigma Implicit

@[simp] theorem constL_length (x : List K) : (constL x).length = x.length := by simp [constL]

theorem constL_nil : constL ([] : List K) = [] := rfl

theorem constL_cons (a : K) (t : List K) : constL (a :: t) = const a :: constL t := rfl

theorem constL_append (a b : List K) : constL (a ++ b) = constL a ++ constL b := by simp [constL]

theorem constL_tail (a : List K) : (constL a).tail = constL a.tail := by simp [constL]

theorem constL_dropLast (a : List K) : (constL a).dropLast = constL a.dropLast := by
  simp [constL, List.map_dropLast]

theorem constL_take (a : List K) (n : Nat) : (constL a).take n = constL (a.take n) := by
  simp [constL, List.map_take]

theorem constL_drop (a : List K) (n : Nat) : (constL a).drop n = constL (a.drop n) := by
  simp [constL, List.map_drop]

theorem zipWith_constL (f : Dual K → Dual K → Dual K) (g : K → K → K)
    (h : ∀ a b, f (const a) (const b) = const (g a b)) (x y : List K) :
    List.zipWith f (constL x) (constL y) = constL (List.zipWith g x y) := by
  induction x generalizing y with
  | nil => simp [constL]
  | cons a t ih =>
    cases y with
    | nil => simp [constL]
    | cons b u =>
      have := ih u
      simp only [constL] at this ⊢
      simp [h, this]

theorem addv_constL (x y : List K) : addv (constL x) (constL y) = constL (addv x y) :=
  zipWith_constL _ _ const_add x y

theorem subv_constL (x y : List K) : subv (constL x) (constL y) = constL (subv x y) :=
  zipWith_constL _ _ const_sub x y

theorem mulv_constL (x y : List K) : mulv (constL x) (constL y) = constL (mulv x y) :=
  zipWith_constL _ _ Dual.const_mul x y

theorem smul_constL (c : K) (x : List K) : Sigma.smul (const c) (constL x) = constL (Sigma.smul c x) := by
  simp [Sigma.smul, constL, List.map_map, Function.comp_def, Dual.const_mul]

theorem constM_getD (a : List (List K)) (r : Nat) : (constM a).getD r [] = constL (a.getD r []) := by
  simp only [constM, List.getD_eq_getElem?_getD, List.getElem?_map]
  cases a[r]? <;> rfl

theorem block_constM (m : List (List K)) (r0 nr c0 nc : Nat) :
    block (constM m) r0 nr c0 nc = constM (block m r0 nr c0 nc) := by
  simp [block, constM, constL, List.map_drop, List.map_take, List.map_map, Function.comp_def]

theorem colOf_constM (a : List (List K)) (c : Nat) : colOf (constM a) c = constL (colOf a c) := by
  simp only [colOf, constM, constL, List.map_map, Function.comp_def]
  apply List.map_congr_left
  intro row _
  simpa [constL] using constL_getD row c

theorem diagOf_constM (a : List (List K)) : diagOf (constM a) = constL (diagOf a) := by
  simp only [diagOf, constL, List.map_map, Function.comp_def]
  have hl : (constM a).length = a.length := by simp [constM]
  rw [hl]
  apply List.map_congr_left
  intro r _
  rw [constM_getD, constL_getD]

end consts

/-! ## the remaining implicit-solve strategies and sparse vertical operators -/
section strategies
variable {K : Type} [CommRing K] {φ : Dual K → K} (hφ : IsProj φ)
include hφ
open _root_.Dino.Sigma Implicit

/-- `implicit_inverse(method='split')` (the repository default): nine products with the sub-blocks
 of the (static) inverse matrix -/
theorem IsProj.inverseSplit_const (minv : List (List K)) (X : Col (Dual K)) :
    mapCol φ (inverseSplit (constM minv) X) = inverseSplit minv (mapCol φ X) := by
  unfold inverseSplit mapCol
  simp only [block_constM, hφ.addv, hφ.matvec_constM, hφ.headD, List.length_map, List.map_cons,
    List.map_nil]

/-- `implicit_inverse(method='blockwise')` with static `η`, `λ`, implicit matrix and the two
 externally inverted blocks; `gopD` / `hopNegD` are the matrix-free vertical products run at
 `Dual K`, assumed to commute with the projection (as the dense and sparse forms do) -/
theorem IsProj.inverseBlockwise_const (eta lam : K) (m divInv tpInv : List (List K))
    (gop hopNeg : List K → List K) (gopD hopNegD : List (Dual K) → List (Dual K))
    (hg : ∀ X, (gopD X).map φ = gop (X.map φ)) (hh : ∀ X, (hopNegD X).map φ = hopNeg (X.map φ))
    (X : Col (Dual K)) :
    mapCol φ (inverseBlockwise (const eta) (const lam) (constM m) (constM divInv) (constM tpInv)
        gopD hopNegD X)
      = inverseBlockwise eta lam m divInv tpInv gop hopNeg (mapCol φ X) := by
  unfold inverseBlockwise mapCol
  have hmap : ∀ L : List (Dual K), (L.map fun v => const eta * const lam * v).map φ
      = (L.map φ).map fun v => eta * lam * v := by
    intro L
    simp [List.map_map, Function.comp_def, Dual.const_mul, hφ.const_mul]
  simp only [block_constM, hφ.addv, hφ.subv, hφ.matvec_constM, hφ.headD, hφ.sub, hφ.smul_const,
    List.length_map, List.map_cons, List.map_nil, hmap, hg, hh]

/-- `get_geopotential_diff(method='sparse')` with static `R`, `α` -/
theorem IsProj.geopotentialDiffSparse_const (R : K) (al : List K) (T : List (Dual K)) :
    (geopotentialDiffSparse (const R) (constL al) T).map φ = geopotentialDiffSparse R al (T.map φ) := by
  unfold geopotentialDiffSparse
  simp only [smul_constL, constL_tail, constL_dropLast, addv_constL, subv_constL]
  rw [show (0 : Dual K) :: constL (Sigma.addv (Sigma.smul R al).tail (Sigma.smul R al).dropLast)
      = constL (0 :: Sigma.addv (Sigma.smul R al).tail (Sigma.smul R al).dropLast) from rfl]
  rw [subv_constL, hφ.addv, hφ.rcumsum, hφ.mulv_constL, hφ.mulv_constL]

end strategies

section sparseField
variable {K : Type} [Field K] {φ : Dual K → K} (hφ : IsProj φ)
include hφ
open _root_.Dino.Sigma Implicit

/-- `get_temperature_implicit(method='sparse')` with a static matrix `H` and static thicknesses.
 `nzD` / `nz` are the tests `!= 0` of the guard at `Dual K` / at `K`: on a constant they agree
 (`jnp` compares the static weights) -/
theorem IsProj.tempImplicitSparse_const (nzD : Dual K → Bool) (nz : K → Bool)
    (hnz : ∀ v, nzD (const v) = nz v) (ds : List K) (h : List (List K)) (D : List (Dual K)) :
    (tempImplicitSparse nzD (constL ds) (constM h) D).map φ
      = tempImplicitSparse nz ds h (D.map φ) := by
  unfold tempImplicitSparse
  have hscaled : ∀ w : List (List K),
      ((constM w).map fun row => List.zipWith (fun v t => v / t) row (constL ds))
      = constM (w.map fun row => List.zipWith (fun v t => v / t) row ds) := by
    intro w
    simp only [constM, List.map_map, Function.comp_def]
    apply List.map_congr_left
    intro row _
    exact zipWith_constL _ _ const_div row ds
  have hup : ∀ c : List K, (0 : Dual K) :: (constL c).tail = constL (0 :: c.tail) := by
    intro c; rw [constL_tail]; rfl
  have hdown : ∀ c : List K, (constL c).dropLast ++ [(0 : Dual K)] = constL (c.dropLast ++ [0]) := by
    intro c; rw [constL_dropLast, constL_append]; rfl
  have hany : ∀ c : List K, (constL c).any nzD = c.any nz := by
    intro c; simp [constL, List.any_map, Function.comp_def, hnz]
  simp only [negMat_constM, hscaled, colOf_constM, hup, hdown, hany, constL_length, diagOf_constM]
  split
  · simp only [hφ.addv, hφ.mulv_constL, hφ.subv, hφ.cumsum, hφ.rcumsum]
  · simp only [hφ.addv, hφ.mulv_constL, hφ.subv, hφ.cumsum]

end sparseField

end Dino.AD
