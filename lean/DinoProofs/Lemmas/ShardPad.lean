import Dino.Shard
import DinoProofs.Lemmas.Sigma
import Mathlib.Algebra.BigOperators.Group.List.Basic
import Mathlib.Data.List.GetD
import Mathlib.Tactic.Ring
import Mathlib.Tactic.Linarith

/-! Helper lemmas for `Dino.Shard` (C07): prefix sums, rounding, padding, the modal row axis. -/
namespace Dino.Shard
open Dino.Sigma

/-! ## `_round_to_multiple` -/

theorem roundToMultiple_spec (x m : Nat) (hm : 0 < m) :
    ∃ r, roundToMultiple x m = some r ∧ x ≤ r ∧ m ∣ r ∧ r < x + m ∧
      ∀ k, m ∣ k → x ≤ k → r ≤ k := by
  refine ⟨m * ((x + m - 1) / m), by simp [roundToMultiple, Nat.ne_of_gt hm], ?_, Nat.dvd_mul_right _ _, ?_, ?_⟩
  · have := Nat.lt_mul_div_succ (x + m - 1) hm
    rw [Nat.mul_succ] at this
    omega
  · have := Nat.mul_div_le (x + m - 1) m
    omega
  · rintro k ⟨j, rfl⟩ hk
    apply Nat.mul_le_mul_left
    have h1 := Nat.mul_div_le (x + m - 1) m
    have h2 : m * ((x + m - 1) / m) < m * (j + 1) := by rw [Nat.mul_succ]; omega
    have := Nat.lt_of_mul_lt_mul_left h2
    omega

theorem roundToMultiple_zero (x : Nat) : roundToMultiple x 0 = none := by simp [roundToMultiple]

/-- a multiple is a fixed point -/
theorem roundToMultiple_of_dvd (x m : Nat) (hm : 0 < m) (h : m ∣ x) : roundToMultiple x m = some x := by
  obtain ⟨r, hr, h1, _, _, h5⟩ := roundToMultiple_spec x m hm
  have := h5 x h (le_refl _)
  rw [hr]; congr 1; omega

/-! ## vertical pad / crop -/

section vertical
variable {α β : Type}

theorem verticalCrop_pad (k : Nat) (x : List α) (y : List β) (hy : y.length = x.length + k) :
    verticalCrop y (some k) = y.take x.length := by
  cases k with
  | zero => simp only [verticalCrop]; rw [List.take_of_length_le (by omega)]
  | succ k => simp only [verticalCrop]; congr 1; omega

/-- **T7.6** for a function of the padded column that is length preserving and whose first
 `len x` outputs do not depend on the padding -/
theorem withVerticalPadding_eq (zero : α) (zm : Nat) (hzm : 0 < zm) (f : List α → List β)
    (hlen : ∀ x, (f x).length = x.length)
    (hpre : ∀ x k, (f (x ++ List.replicate k zero)).take x.length = f x) (x : List α) :
    withVerticalPadding zero (some zm) f x = some (f x) := by
  unfold withVerticalPadding verticalPad
  simp only
  split
  · simp [verticalCrop]
  · obtain ⟨r, hr, h1, _⟩ := roundToMultiple_spec x.length zm hzm
    rw [hr]
    simp only [Option.map_some, padTo, Option.some.injEq]
    rw [verticalCrop_pad (r - x.length) x _ (by rw [hlen]; simp), hpre]

/-- no mesh: nothing happens -/
theorem withVerticalPadding_none (zero : α) (f : List α → List β) (x : List α) :
    withVerticalPadding zero none f x = some (f x) := by
  simp [withVerticalPadding, verticalPad, verticalCrop]

end vertical

/-! ## `_unstack_m` / `_stack_m` -/

section stack
open Dino.SH
variable {α : Type}

theorem stackM_evens_odds : ∀ (x : List α), x.length % 2 = 0 → stackM (evens x) (odds x) = x
  | [], _ => rfl
  | [_], h => by simp at h
  | a :: b :: t, h => by
    simp only [evens, odds, stackM]
    rw [stackM_evens_odds t (by simp at h; omega)]

theorem evens_stackM : ∀ (a b : List α), a.length = b.length → evens (stackM a b) = a
  | [], [], _ => rfl
  | [], _ :: _, h => by simp at h
  | _ :: _, [], h => by simp at h
  | x :: a, y :: b, h => by
    simp only [stackM, evens]
    rw [evens_stackM a b (by simpa using h)]

theorem odds_stackM : ∀ (a b : List α), a.length = b.length → odds (stackM a b) = b
  | [], [], _ => rfl
  | [], _ :: _, h => by simp at h
  | _ :: _, [], h => by simp at h
  | x :: a, y :: b, h => by
    simp only [stackM, odds]
    rw [odds_stackM a b (by simpa using h)]

theorem evens_length : ∀ (x : List α), (evens x).length = (x.length + 1) / 2
  | [] => by simp [evens]
  | [_] => by simp [evens]
  | _ :: _ :: t => by simp only [evens, List.length_cons, evens_length t]; omega

theorem odds_length : ∀ (x : List α), (odds x).length = x.length / 2
  | [] => by simp [odds]
  | [_] => by simp [odds]
  | _ :: _ :: t => by simp only [odds, List.length_cons, odds_length t]; omega

theorem evens_append : ∀ (a b : List α), a.length % 2 = 0 → evens (a ++ b) = evens a ++ evens b
  | [], _, _ => rfl
  | [_], _, h => by simp at h
  | x :: y :: t, b, h => by
    simp only [List.cons_append, evens]
    rw [evens_append t b (by simp at h; omega)]

theorem odds_append : ∀ (a b : List α), a.length % 2 = 0 → odds (a ++ b) = odds a ++ odds b
  | [], _, _ => rfl
  | [_], _, h => by simp at h
  | x :: y :: t, b, h => by
    simp only [List.cons_append, odds]
    rw [odds_append t b (by simp at h; omega)]

theorem flatten_length_even (shards : List (List α)) (h : ∀ u ∈ shards, u.length % 2 = 0) :
    shards.flatten.length % 2 = 0 := by
  induction shards with
  | nil => rfl
  | cons u t ih =>
    have := h u (by simp)
    have := ih (fun v hv => h v (by simp [hv]))
    simp only [List.flatten_cons, List.length_append]; omega

theorem evens_flatten (shards : List (List α)) (h : ∀ u ∈ shards, u.length % 2 = 0) :
    (shards.map evens).flatten = evens shards.flatten := by
  induction shards with
  | nil => rfl
  | cons u t ih =>
    simp only [List.map_cons, List.flatten_cons]
    rw [evens_append u _ (h u (by simp)), ih (fun v hv => h v (by simp [hv]))]

theorem odds_flatten (shards : List (List α)) (h : ∀ u ∈ shards, u.length % 2 = 0) :
    (shards.map odds).flatten = odds shards.flatten := by
  induction shards with
  | nil => rfl
  | cons u t ih =>
    simp only [List.map_cons, List.flatten_cons]
    rw [odds_append u _ (h u (by simp)), ih (fun v hv => h v (by simp [hv]))]

theorem stackM_append : ∀ (a1 b1 a2 b2 : List α), a1.length = b1.length →
    stackM (a1 ++ a2) (b1 ++ b2) = stackM a1 b1 ++ stackM a2 b2
  | [], [], _, _, _ => rfl
  | [], _ :: _, _, _, h => by simp at h
  | _ :: _, [], _, _, h => by simp at h
  | x :: a, y :: b, a2, b2, h => by
    simp only [List.cons_append, stackM]
    rw [stackM_append a b a2 b2 (by simpa using h)]

theorem shardedStackM_eq : ∀ (plus minus : List (List α)),
    List.Forall₂ (fun a b => a.length = b.length) plus minus →
    shardedStackM plus minus = stackM plus.flatten minus.flatten
  | _, _, .nil => rfl
  | _, _, .cons (a := a) (b := b) (l₁ := p) (l₂ := m) hab hrest => by
    have ih := shardedStackM_eq p m hrest
    unfold shardedStackM at ih ⊢
    simp only [List.zipWith_cons_cons, List.flatten_cons]
    rw [ih, stackM_append a b _ _ hab]

end stack

/-! ## longitudinal derivative on one `x`-shard -/

section derivative
open Dino.Fourier Dino.Lin
variable {K : Type} [Field K]

/-- rows of an even-length prefix are differentiated without looking at the rest; the rest sees the
 prefix only through the frequency offset `len / 2` -/
theorem zeroImagDerivative_append (u y : List (List K)) (w off : Nat) (hu : u.length % 2 = 0) :
    zeroImagDerivative (u ++ y) w off
      = zeroImagDerivative u w off ++ zeroImagDerivative y w (off + u.length / 2) := by
  unfold zeroImagDerivative
  rw [List.length_append, List.range_add, List.map_append, List.map_map]
  congr 1
  · apply List.map_congr_left
    intro i hi
    rw [List.mem_range] at hi
    simp only
    split
    · next hp =>
      rw [List.getD_append _ _ _ _ (by omega)]
    · next hp =>
      rw [List.getD_append _ _ _ _ (by omega)]
  · apply List.map_congr_left
    intro i hi
    simp only [Function.comp]
    have e1 : (u.length + i + 1) % 2 = (i + 1) % 2 := by omega
    have e2 : off + (u.length + i) / 2 = off + u.length / 2 + i / 2 := by omega
    rw [e1, e2]
    split
    · next hp =>
      rw [List.getD_append_right _ _ _ _ (by omega)]
      congr 2; omega
    · next hp =>
      rw [List.getD_append_right _ _ _ _ (by omega)]
      congr 3; omega

theorem shardedDerivative_aux (s : Nat) (hs : s % 2 = 0) (w : Nat) :
    ∀ (shards : List (List (List K))) (k : Nat), (∀ u ∈ shards, u.length = s) →
      ((shards.zipIdx k).map fun ua =>
          zeroImagDerivative ua.1 w (frequencyOffset ua.1.length ua.2)).flatten
        = zeroImagDerivative shards.flatten w (s / 2 * k)
  | [], k, _ => by simp [zeroImagDerivative]
  | u :: t, k, h => by
    have hu : u.length = s := h u (by simp)
    simp only [List.zipIdx_cons, List.map_cons, List.flatten_cons]
    rw [shardedDerivative_aux s hs w t (k + 1) (fun v hv => h v (by simp [hv])),
      zeroImagDerivative_append u _ w _ (by omega)]
    unfold frequencyOffset
    rw [hu, Nat.mul_succ]

end derivative

/-! ## parallel prefix sums -/

section cumsum
variable {K : Type} [Field K]

theorem cumsumFrom_append (acc : K) (x y : List K) :
    cumsumFrom acc (x ++ y) = cumsumFrom acc x ++ cumsumFrom (acc + x.sum) y := by
  induction x generalizing acc with
  | nil => simp [cumsumFrom]
  | cons a t ih =>
    simp only [List.cons_append, cumsumFrom, List.sum_cons, ih (acc + a), add_assoc]

theorem rcumsum_append (x y : List K) :
    rcumsum (x ++ y) = (rcumsum x).map (· + y.sum) ++ rcumsum y := by
  induction x with
  | nil => simp [rcumsum]
  | cons a t ih =>
    simp only [List.cons_append, rcumsum, List.map_cons]
    rw [rcumsum_headD, rcumsum_headD, ih, List.sum_append]
    congr 1
    ring

/-- the masked accumulation loop adds one scalar to every entry -/
theorem foldl_map_add {ι : Type} (g : ι → K) (l : List ι) (init : List K) :
    l.foldl (fun total ti => total.map fun v => v + g ti) init = init.map (· + (l.map g).sum) := by
  induction l generalizing init with
  | nil => simp
  | cons a t ih =>
    simp only [List.foldl_cons, ih, List.map_map, List.map_cons, List.sum_cons]
    apply List.map_congr_left
    intro v _
    simp only [Function.comp]
    ring

theorem ind_mul (b : Bool) (t : K) : (ind b : K) * t = if b then t else 0 := by
  cases b <;> simp [ind]

theorem sum_masked_lt (a : Nat) : ∀ (l : List K) (s : Nat),
    ((l.zipIdx s).map fun ti => (ind (decide (ti.2 < a)) : K) * ti.1).sum = (l.take (a - s)).sum
  | [], _ => by simp
  | x :: t, s => by
    rw [List.zipIdx_cons, List.map_cons, List.sum_cons, sum_masked_lt a t (s + 1), ind_mul]
    by_cases h : s < a
    · rw [show a - s = (a - (s + 1)) + 1 by omega, List.take_succ_cons, List.sum_cons]
      simp [h]
    · rw [show a - s = 0 by omega, show a - (s + 1) = 0 by omega]
      simp [h]

theorem sum_masked_gt (a : Nat) : ∀ (l : List K) (s : Nat),
    ((l.zipIdx s).map fun ti => (ind (decide (ti.2 > a)) : K) * ti.1).sum = (l.drop (a + 1 - s)).sum
  | [], _ => by simp
  | x :: t, s => by
    rw [List.zipIdx_cons, List.map_cons, List.sum_cons, sum_masked_gt a t (s + 1), ind_mul]
    by_cases h : s > a
    · rw [show a + 1 - s = 0 by omega, show a + 1 - (s + 1) = 0 by omega]
      simp [h]
    · rw [show a + 1 - s = (a + 1 - (s + 1)) + 1 by omega, List.drop_succ_cons]
      simp [h]

theorem shardTotals_false (shards : List (List K)) :
    shardTotals false shards = shards.map List.sum := by
  unfold shardTotals
  apply List.map_congr_left
  intro x _
  simp only [Bool.false_eq_true, if_false, dotCumsum_false, cumsum]
  cases x with
  | nil => simp [cumsumFrom]
  | cons a t =>
    rw [List.getLastD_eq_getLast?, cumsumFrom_getLast 0 (a :: t) (by simp)]
    simp

theorem shardTotals_true (shards : List (List K)) :
    shardTotals true shards = shards.map List.sum := by
  unfold shardTotals
  apply List.map_congr_left
  intro x _
  simp only [if_true, dotCumsum_true, rcumsum_headD]

/-- device `a` of the forward parallel prefix sum: its own running sums started at the total of the
 shards before it -/
theorem parallelDotCumsumDev_false (sums : List K) (a : Nat) (x : List K) (ha : a < sums.length) :
    parallelDotCumsumDev false sums a x = cumsumFrom (sums.take a).sum x := by
  unfold parallelDotCumsumDev
  simp only [Bool.false_eq_true, if_false]
  rw [foldl_map_add (fun ti : K × Nat => (ind (decide (ti.2 < a)) : K) * ti.1), sum_masked_lt,
    dotCumsum_false, cumsum, Nat.sub_zero, List.dropLast_eq_take, List.take_take,
    Nat.min_eq_left (by omega), cumsumFrom_eq_map (List.sum _)]
  apply List.map_congr_left
  intro v _
  ring

theorem parallelDotCumsumDev_true (sums : List K) (a : Nat) (x : List K) :
    parallelDotCumsumDev true sums a x = (rcumsum x).map (· + (sums.drop (a + 1)).sum) := by
  unfold parallelDotCumsumDev
  simp only [if_true]
  rw [foldl_map_add (fun ti : K × Nat => (ind (decide (ti.2 > a)) : K) * ti.1), sum_masked_gt,
    dotCumsum_true, List.drop_drop, show 1 + (a + 1 - 1) = a + 1 by omega]

theorem flatten_cumsum_aux : ∀ (l : List (List K)) (k : Nat) (pre : K) (G : Nat → K),
    (∀ j, j < l.length → G (k + j) = pre + ((l.take j).map List.sum).sum) →
    ((l.zipIdx k).map fun xa => cumsumFrom (G xa.2) xa.1).flatten = cumsumFrom pre l.flatten
  | [], _, _, _, _ => by simp [cumsumFrom]
  | x :: t, k, pre, G, hG => by
    simp only [List.zipIdx_cons, List.map_cons, List.flatten_cons]
    rw [cumsumFrom_append, flatten_cumsum_aux t (k + 1) (pre + x.sum) G]
    · congr 2
      simpa using hG 0 (by simp)
    · intro j hj
      have := hG (j + 1) (by simpa using hj)
      rw [show k + 1 + j = k + (j + 1) by omega, this]
      simp [add_assoc]

theorem flatten_rcumsum_aux : ∀ (l : List (List K)) (k : Nat) (G : Nat → K),
    (∀ j, j < l.length → G (k + j) = ((l.drop (j + 1)).map List.sum).sum) →
    ((l.zipIdx k).map fun xa => (rcumsum xa.1).map (· + G xa.2)).flatten = rcumsum l.flatten
  | [], _, _, _ => by simp [rcumsum]
  | x :: t, k, G, hG => by
    simp only [List.zipIdx_cons, List.map_cons, List.flatten_cons]
    rw [rcumsum_append, flatten_rcumsum_aux t (k + 1) G]
    · congr 2
      have := hG 0 (by simp)
      simp only [Nat.add_zero, Nat.zero_add, List.drop_one, List.tail_cons] at this
      rw [this, List.sum_flatten]
    · intro j hj
      have := hG (j + 1) (by simpa using hj)
      rw [show k + 1 + j = k + (j + 1) by omega, this]
      simp

/-- **T7.3** forward: concatenating the per-device results gives `cumsum` of the concatenation,
 for any number of shards of any lengths -/
theorem parallelDotCumsumCore_false (shards : List (List K)) :
    (parallelDotCumsumCore false shards).flatten = cumsum shards.flatten := by
  unfold parallelDotCumsumCore
  simp only
  rw [shardTotals_false]
  have : (shards.zipIdx.map fun xa => parallelDotCumsumDev false (shards.map List.sum) xa.2 xa.1)
      = (shards.zipIdx 0).map fun xa => cumsumFrom (((shards.map List.sum).take xa.2).sum) xa.1 := by
    apply List.map_congr_left
    intro xa hxa
    have := List.snd_lt_of_mem_zipIdx hxa
    exact parallelDotCumsumDev_false _ _ _ (by simpa using this)
  rw [this]
  exact flatten_cumsum_aux shards 0 0 (fun a => ((shards.map List.sum).take a).sum)
    (fun j _ => by simp [List.map_take])

/-- **T7.3** reverse -/
theorem parallelDotCumsumCore_true (shards : List (List K)) :
    (parallelDotCumsumCore true shards).flatten = rcumsum shards.flatten := by
  unfold parallelDotCumsumCore
  simp only
  rw [shardTotals_true]
  have : (shards.zipIdx.map fun xa => parallelDotCumsumDev true (shards.map List.sum) xa.2 xa.1)
      = (shards.zipIdx 0).map fun xa =>
          (rcumsum xa.1).map (· + ((shards.map List.sum).drop (xa.2 + 1)).sum) := by
    apply List.map_congr_left
    intro xa _
    exact parallelDotCumsumDev_true _ _ _
  rw [this]
  exact flatten_rcumsum_aux shards 0 (fun a => ((shards.map List.sum).drop (a + 1)).sum)
    (fun j _ => by simp [List.map_drop])

/-- per-device lengths are those of the inputs -/
theorem parallelDotCumsumCore_lengths (rev : Bool) (shards : List (List K)) :
    (parallelDotCumsumCore rev shards).map List.length = shards.map List.length := by
  unfold parallelDotCumsumCore
  simp only [List.map_map]
  conv_rhs => rw [← List.zipIdx_map_fst 0 shards, List.map_map]
  apply List.map_congr_left
  intro xa _
  simp only [Function.comp, parallelDotCumsumDev]
  have hfold : ∀ (l : List (K × Nat)) (g : K × Nat → K) (init : List K),
      (l.foldl (fun total ti => total.map fun v => v + g ti) init).length = init.length := by
    intro l g init
    induction l generalizing init with
    | nil => rfl
    | cons a t ih => simp [ih]
  rw [hfold]
  simp [dotCumsum]

end cumsum

/-! ## consecutive shards of a list -/

theorem splitEvery_flatten {α : Type} (s : Nat) (hs : 0 < s) : ∀ (q : Nat) (x : List α),
    x.length = q * s → (splitEvery s x).flatten = x := by
  intro q x hx
  unfold splitEvery
  rw [if_neg (by omega), hx, Nat.mul_div_cancel _ hs]
  clear hs
  induction q generalizing x with
  | zero => simp at hx; simp [hx]
  | succ q ih =>
    rw [List.range_succ_eq_map, List.map_cons, List.map_map, List.flatten_cons]
    have hlen : (x.drop s).length = q * s := by rw [List.length_drop, hx, Nat.succ_mul]; omega
    have := ih (x.drop s) hlen
    simp only [Nat.zero_mul, List.drop_zero]
    conv_rhs => rw [← List.take_append_drop s x, ← this]
    congr 2
    apply List.map_congr_left
    intro a _
    simp only [Function.comp, List.drop_drop]
    congr 2
    rw [Nat.succ_mul]; omega

theorem splitEvery_lengths {α : Type} (s q : Nat) (hs : 0 < s) (x : List α) (hx : x.length = q * s) :
    ∀ u ∈ splitEvery s x, u.length = s := by
  intro u hu
  unfold splitEvery at hu
  rw [if_neg (by omega), hx, Nat.mul_div_cancel _ hs] at hu
  simp only [List.mem_map, List.mem_range] at hu
  obtain ⟨a, ha, rfl⟩ := hu
  rw [List.length_take, List.length_drop, hx]
  have : a * s + s ≤ q * s := by
    calc a * s + s = (a + 1) * s := by rw [Nat.succ_mul]
      _ ≤ q * s := Nat.mul_le_mul_right _ ha
  omega

/-! ## the validation of `real_basis_derivative_with_zero_imag` on every shard -/

theorem mapM_eq_some_map {α β : Type} (f : α → Option β) (g : α → β) :
    ∀ (l : List α), (∀ x ∈ l, f x = some (g x)) → l.mapM f = some (l.map g)
  | [], _ => rfl
  | a :: t, h => by
    rw [List.mapM_cons, h a (by simp), mapM_eq_some_map f g t (fun x hx => h x (by simp [hx]))]
    rfl

theorem mapM_eq_none {α β : Type} (f : α → Option β) :
    ∀ (l : List α), (∃ x ∈ l, f x = none) → l.mapM f = none
  | [], h => by obtain ⟨x, hx, _⟩ := h; simp at hx
  | a :: t, h => by
    rw [List.mapM_cons]
    cases hfa : f a with
    | none => rfl
    | some b =>
      obtain ⟨x, hx, hfx⟩ := h
      rcases List.mem_cons.1 hx with rfl | hx'
      · rw [hfa] at hfx; cases hfx
      · rw [mapM_eq_none f t ⟨x, hx', hfx⟩]; rfl

section checked
variable {K : Type} [Field K]

theorem shardedDerivativeChecked_even (shards : List (List (List K))) (w : Nat)
    (h : ∀ u ∈ shards, u.length % 2 = 0) :
    shardedDerivativeChecked shards w = some (shardedDerivative shards w) := by
  unfold shardedDerivativeChecked shardedDerivative
  apply mapM_eq_some_map
  intro ua hua
  have := h ua.1 (List.fst_mem_of_mem_zipIdx hua)
  unfold zeroImagDerivativeChecked
  rw [if_neg (by omega)]

theorem shardedDerivativeChecked_odd (shards : List (List (List K))) (w : Nat)
    (h : ∃ u ∈ shards, u.length % 2 = 1) :
    shardedDerivativeChecked shards w = none := by
  unfold shardedDerivativeChecked
  apply mapM_eq_none
  obtain ⟨u, hu, hodd⟩ := h
  obtain ⟨i, hi, rfl⟩ := List.getElem_of_mem hu
  refine ⟨(shards[i], i), ?_, ?_⟩
  · rw [List.mem_zipIdx_iff_getElem?]
    simp [hi]
  · unfold zeroImagDerivativeChecked
    rw [if_pos hodd]

end checked

end Dino.Shard
