import DinoProofs.Lemmas.InvariantsMean
import DinoProofs.Lemmas.InvariantsTM

/-!
# The record predicate and the observables of the primitive-equation classes — lemma layer of C11

`PEQ T n ks s`: every spectral leaf of the `StateWithTime` record `s` lies in the submodule `T`,
the record has `n` levels and carries exactly the tracer keys `ks` with `n` levels each.  It is
closed under the `tree_math` arithmetic of `StateWithTime` (`+` keeps the keys of the left argument
and truncates to the shorter column: with equal shapes nothing is lost).

Observables that are additive and homogeneous on `PEQ`: the clock `sim_time`, and the `(0,0)`
coefficient `ℓ` of level `i` of the vorticity or the divergence.
-/
set_option linter.unusedSectionVars false

namespace Dino.Invariants
open Dino Dino.Dynamics

section
variable {K M : Type} [Field K] [AddCommGroup M] [Module K M]

/-- the records of C11 (primitive equations) -/
structure PEQ (T : Submodule K M) (n : ℕ) (ks : List String) (s : StateWithTime K M) : Prop where
  mem : StateAll (· ∈ T) s.state
  sh : Shaped n ks s.state

variable {T : Submodule K M} {n : ℕ} {ks : List String}

theorem PEQ.add {a b : StateWithTime K M} (ha : PEQ T n ks a) (hb : PEQ T n ks b) :
    PEQ T n ks (a + b) :=
  ⟨stateAll_add T ha.mem hb.mem, ha.sh.add hb.sh⟩

theorem PEQ.smul (c : K) {a : StateWithTime K M} (ha : PEQ T n ks a) : PEQ T n ks (c • a) :=
  ⟨stateAll_smul T c ha.mem, ha.sh.mapLevels _⟩

/-- `PEQ` with an observable that is additive and homogeneous on it -/
def peObs {W : Type} [AddCommGroup W] [Module K W] (T : Submodule K M) (n : ℕ) (ks : List String)
    (ω : StateWithTime K M → W)
    (hadd : ∀ a b, PEQ T n ks a → PEQ T n ks b → ω (a + b) = ω a + ω b)
    (hsmul : ∀ (c : K) a, PEQ T n ks a → ω (c • a) = c • ω a) : QObs K (StateWithTime K M) W where
  Q := PEQ T n ks
  ω := ω
  Q_add := PEQ.add
  Q_smul := PEQ.smul
  ω_add := fun ha hb => hadd _ _ ha hb
  ω_smul := fun c _ ha => hsmul c _ ha

/-- the clock -/
def clockObs (T : Submodule K M) (n : ℕ) (ks : List String) : QObs K (StateWithTime K M) K :=
  peObs T n ks (fun s => s.simTime) (fun _ _ _ _ => rfl) (fun _ _ _ => rfl)

@[simp] theorem clockObs_Q (s : StateWithTime K M) : (clockObs T n ks).Q s ↔ PEQ T n ks s := Iff.rfl
@[simp] theorem clockObs_ω (s : StateWithTime K M) : (clockObs T n ks).ω s = s.simTime := rfl

/-- the two fields whose `(0,0)` coefficient is conserved -/
inductive PEField where
  | vorticity | divergence

def PEField.get : PEField → State M → List M
  | .vorticity, s => s.vorticity
  | .divergence, s => s.divergence

/-- the `(0,0)` coefficient `ℓ` of level `i` of the vorticity / divergence -/
def mean00Obs (T : Submodule K M) (n : ℕ) (ks : List String) (ℓ : M →ₗ[K] K) (f : PEField) (i : ℕ) :
    QObs K (StateWithTime K M) K :=
  peObs T n ks (fun s => ℓ ((f.get s.state).getD i 0))
    (by
      intro a b ha hb
      cases f
      · show ℓ ((Col.add a.state.vorticity b.state.vorticity).getD i 0) = _
        rw [show (Col.add a.state.vorticity b.state.vorticity).getD i 0
            = a.state.vorticity.getD i 0 + b.state.vorticity.getD i 0 from
          lv_add _ _ (by rw [ha.sh.z, hb.sh.z]) i, map_add]
        rfl
      · show ℓ ((Col.add a.state.divergence b.state.divergence).getD i 0) = _
        rw [show (Col.add a.state.divergence b.state.divergence).getD i 0
            = a.state.divergence.getD i 0 + b.state.divergence.getD i 0 from
          lv_add _ _ (by rw [ha.sh.d, hb.sh.d]) i, map_add]
        rfl)
    (by
      intro c a _
      cases f
      · show ℓ ((a.state.vorticity.map fun x => c • x).getD i 0) = _
        rw [show (a.state.vorticity.map fun x => c • x).getD i 0 = c • a.state.vorticity.getD i 0 from
          lv_smul c _ i, map_smul]
        rfl
      · show ℓ ((a.state.divergence.map fun x => c • x).getD i 0) = _
        rw [show (a.state.divergence.map fun x => c • x).getD i 0 = c • a.state.divergence.getD i 0 from
          lv_smul c _ i, map_smul]
        rfl)

@[simp] theorem mean00Obs_Q (ℓ : M →ₗ[K] K) (f : PEField) (i : ℕ) (s : StateWithTime K M) :
    (mean00Obs T n ks ℓ f i).Q s ↔ PEQ T n ks s := Iff.rfl
@[simp] theorem mean00Obs_ω (ℓ : M →ₗ[K] K) (f : PEField) (i : ℕ) (s : StateWithTime K M) :
    (mean00Obs T n ks ℓ f i).ω s = ℓ ((f.get s.state).getD i 0) := rfl

/-- level `i` of a column all of whose levels are in the kernel of `ℓ` -/
theorem getD_kerOf {ℓ : M →ₗ[K] K} {l : List M} (h : AllP (· ∈ kerOf ℓ) l) (i : ℕ) :
    ℓ (l.getD i 0) = 0 := by
  rw [List.getD_eq_getElem?_getD]
  cases h' : l[i]? with
  | none => simp
  | some v => simpa using h v (List.mem_of_getElem? h')

theorem getD_map_eq {ℓ : M →ₗ[K] K} {a b : List M} (h : a.map ℓ = b.map ℓ) (i : ℕ) :
    ℓ (a.getD i 0) = ℓ (b.getD i 0) := by
  have := congrArg (fun l : List K => l.getD i 0) h
  simp only [List.getD_eq_getElem?_getD, List.getElem?_map] at this ⊢
  cases ha : a[i]? <;> cases hb : b[i]? <;> simp_all

end
end Dino.Invariants
