import Dino.SHEquiv
import DinoProofs.Lemmas.SH
import Mathlib.Algebra.BigOperators.Intervals

/-! Entry formulas for the re-indexing `ι` between the two spherical-harmonic layouts, for
`evens` / `odds` / `stackM`, and for the fast transforms of `Dino.SH`. -/
namespace Dino.SHEquiv
open Finset Dino.Lin Dino.SH
variable {K : Type} [CommRing K]

/-! ### extensionality through entries -/

theorem ent_eq_getElem (v : List K) (i : Nat) (h : i < v.length) : ent v i = v[i] := by
  simp [ent, List.getD_eq_getElem?_getD, List.getElem?_eq_getElem h]

theorem ext_ent (a b : List K) (h : a.length = b.length) (he : ∀ i, ent a i = ent b i) : a = b := by
  apply List.ext_getElem h
  intro i h1 h2
  rw [← ent_eq_getElem a i h1, ← ent_eq_getElem b i h2]
  exact he i

theorem getD_eq_getElem_nil {α : Type} (a : List (List α)) (i : Nat) (h : i < a.length) :
    a.getD i [] = a[i] := by
  simp [List.getD_eq_getElem?_getD, List.getElem?_eq_getElem h]

theorem getD_nil_of_le {α : Type} (a : List (List α)) (i : Nat) (h : a.length ≤ i) :
    a.getD i [] = [] := by
  simp [List.getD_eq_getElem?_getD, List.getElem?_eq_none h]

/-- two matrices with the same number of rows, all rows of width `n`, and the same entries are
 equal -/
theorem ext_ent2 (a b : List (List K)) (n : Nat) (h : a.length = b.length)
    (ha : ∀ r ∈ a, r.length = n) (hb : ∀ r ∈ b, r.length = n)
    (he : ∀ i j, ent2 a i j = ent2 b i j) : a = b := by
  apply List.ext_getElem h
  intro i h1 h2
  apply ext_ent
  · rw [ha _ (List.getElem_mem h1), hb _ (List.getElem_mem h2)]
  · intro j
    have := he i j
    rwa [ent2_eq_ent, ent2_eq_ent, getD_eq_getElem_nil a i h1, getD_eq_getElem_nil b i h2] at this

theorem ent2_of_length_le (a : List (List K)) (i j : Nat) (h : a.length ≤ i) : ent2 a i j = 0 := by
  rw [ent2_eq_ent, getD_nil_of_le a i h]; simp

theorem ent2_of_width_le (a : List (List K)) (n i j : Nat) (ha : ∀ r ∈ a, r.length ≤ n) (h : n ≤ j) :
    ent2 a i j = 0 := by
  rw [ent2_eq_ent]
  rcases Nat.lt_or_ge i a.length with hi | hi
  · rw [getD_eq_getElem_nil a i hi]
    exact ent_of_length_le _ _ (le_trans (ha _ (List.getElem_mem hi)) h)
  · rw [getD_nil_of_le a i hi]; simp

/-! ### padding of vectors -/

theorem ent_append (v u : List K) (i : Nat) :
    ent (v ++ u) i = if i < v.length then ent v i else ent u (i - v.length) := by
  unfold ent
  simp only [List.getD_eq_getElem?_getD]
  split
  · rename_i h; rw [List.getElem?_append_left h]
  · rename_i h; rw [List.getElem?_append_right (by omega)]

@[simp] theorem ent_padRight (n : Nat) (v : List K) (i : Nat) : ent (padRight n v) i = ent v i := by
  unfold padRight
  rw [ent_append]
  split
  · rfl
  · rename_i h
    rw [ent_zerosN, ent_of_length_le v i (by omega)]

@[simp] theorem padRight_length (n : Nat) (v : List K) : (padRight n v).length = v.length + n := by
  simp [padRight, zerosN]

@[simp] theorem zerosN_length (n : Nat) : (zerosN n : List K).length = n := by simp [zerosN]

theorem ent2_cons_zero (r : List K) (t : List (List K)) (j : Nat) : ent2 (r :: t) 0 j = ent r j := by
  simp [ent2, ent]

theorem ent2_cons_succ (r : List K) (t : List (List K)) (i j : Nat) :
    ent2 (r :: t) (i + 1) j = ent2 t i j := by
  simp [ent2]

theorem ent2_nil (i j : Nat) : ent2 ([] : List (List K)) i j = 0 := by simp [ent2]

theorem ent2_append (a b : List (List K)) (i j : Nat) :
    ent2 (a ++ b) i j = if i < a.length then ent2 a i j else ent2 b (i - a.length) j := by
  unfold ent2
  simp only [List.getD_eq_getElem?_getD]
  split
  · rename_i h; rw [List.getElem?_append_left h]
  · rename_i h; rw [List.getElem?_append_right (by omega)]

theorem ent2_replicate_zeros (n w i j : Nat) :
    ent2 (List.replicate n (zerosN w : List K)) i j = 0 := by
  unfold ent2
  simp only [List.getD_eq_getElem?_getD, List.getElem?_replicate]
  split
  · exact ent_zerosN w j
  · simp

theorem ent2_map_padRight (n : Nat) (a : List (List K)) (i j : Nat) :
    ent2 (a.map (padRight n)) i j = ent2 a i j := by
  unfold ent2
  simp only [List.getD_eq_getElem?_getD, List.getElem?_map]
  cases a[i]? with
  | none => simp
  | some r => simpa [ent] using ent_padRight n r j

/-! ### `iota`, `unIota`, `padNodal` -/

/-- the row of the fast layout that holds row `r` of the real layout -/
def src (r : Nat) : Nat := if r = 0 then 0 else r + 1

theorem src_injective : Function.Injective src := by
  intro a b h; unfold src at h; split at h <;> split at h <;> omega

theorem src_ne_one (r : Nat) : src r ≠ 1 := by unfold src; split <;> omega

theorem src_lt (r n : Nat) (h : r + 1 < n) : src r < n := by unfold src; split <;> omega

/-- entries of `ι x`: row 0 is row 0, row 1 is zero, row `r + 2` is row `r + 1`; everything
 outside `x` (the padding) is zero -/
theorem ent2_iota (L pr pc : Nat) (x : List (List K)) (r l : Nat) :
    ent2 (iota L pr pc x) r l = if r = 1 then 0 else ent2 x (r - (if r = 0 then 0 else 1)) l := by
  cases x with
  | nil => simp [iota, ent2_nil]
  | cons r0 rest =>
    unfold iota
    match r with
    | 0 => simp [ent2_cons_zero]
    | 1 =>
      simp only [List.cons_append, ent2_cons_succ, ent2_cons_zero, if_true]
      exact ent_zerosN _ _
    | k + 2 =>
      have hR : (if k + 2 = 1 then (0 : K) else
          ent2 (r0 :: rest) (k + 2 - (if k + 2 = 0 then 0 else 1)) l) = ent2 rest k l := by
        simp [ent2_cons_succ]
      rw [hR]
      simp only [List.cons_append, ent2_cons_succ]
      rw [ent2_append, List.length_map]
      split
      · exact ent2_map_padRight pc rest k l
      · rename_i h
        rw [ent2_replicate_zeros, ent2_of_length_le rest k l (by omega)]

theorem ent2_iota_src (L pr pc : Nat) (x : List (List K)) (r l : Nat) :
    ent2 (iota L pr pc x) (src r) l = ent2 x r l := by
  rw [ent2_iota, if_neg (src_ne_one r)]
  unfold src
  split
  · subst_vars; simp
  · rename_i h; simp

theorem ent2_iota_one (L pr pc : Nat) (x : List (List K)) (l : Nat) :
    ent2 (iota L pr pc x) 1 l = 0 := by rw [ent2_iota]; simp

theorem iota_length (L pr pc : Nat) (x : List (List K)) (hx : x ≠ []) :
    (iota L pr pc x).length = x.length + 1 + pr := by
  cases x with
  | nil => exact absurd rfl hx
  | cons r0 rest => simp [iota]; omega

theorem iota_rows (L pr pc : Nat) (x : List (List K)) (hx : ∀ r ∈ x, r.length = L) :
    ∀ r ∈ iota L pr pc x, r.length = L + pc := by
  cases x with
  | nil => simp [iota]
  | cons r0 rest =>
    intro r hr
    simp only [iota, List.cons_append, List.mem_cons, List.mem_append, List.mem_map,
      List.mem_replicate] at hr
    rcases hr with rfl | rfl | ⟨a, ha, rfl⟩ | ⟨_, rfl⟩
    · simp [hx r0 (List.mem_cons_self ..)]
    · simp
    · simp [hx a (List.mem_cons_of_mem _ ha)]
    · simp

theorem ent_take (v : List K) (n i : Nat) : ent (v.take n) i = if i < n then ent v i else 0 := by
  unfold ent
  simp only [List.getD_eq_getElem?_getD, List.getElem?_take]
  split <;> simp

theorem ent2_map_take (a : List (List K)) (n i j : Nat) :
    ent2 (a.map (List.take n)) i j = if j < n then ent2 a i j else 0 := by
  unfold ent2
  simp only [List.getD_eq_getElem?_getD, List.getElem?_map]
  cases a[i]? with
  | none => simp
  | some r => simpa [ent] using ent_take r n j

theorem ent2_take (a : List (List K)) (n i j : Nat) :
    ent2 (a.take n) i j = if i < n then ent2 a i j else 0 := by
  unfold ent2
  simp only [List.getD_eq_getElem?_getD, List.getElem?_take]
  split <;> simp

theorem ent2_dropRow1 (t : List (List K)) (r l : Nat) : ent2 (dropRow1 t) r l = ent2 t (src r) l := by
  match t with
  | [] => simp [dropRow1, ent2_nil]
  | [a] =>
    cases r with
    | zero => simp [dropRow1, src]
    | succ k => simp [dropRow1, src, ent2_cons_succ, ent2_nil]
  | a :: b :: t =>
    cases r with
    | zero => simp [dropRow1, src, ent2_cons_zero]
    | succ k => simp [dropRow1, src, ent2_cons_succ]

theorem dropRow1_length {α : Type} (t : List α) (h : 2 ≤ t.length) :
    (dropRow1 t).length = t.length - 1 := by
  match t, h with
  | a :: b :: t, _ => simp [dropRow1]

theorem mem_dropRow1 {α : Type} (t : List α) (a : α) (h : a ∈ dropRow1 t) : a ∈ t := by
  match t with
  | [] => simp [dropRow1] at h
  | [b] => simpa [dropRow1] using h
  | b :: c :: t =>
    simp only [dropRow1, List.mem_cons] at h ⊢
    rcases h with h | h
    · exact Or.inl h
    · exact Or.inr (Or.inr h)

/-- entries of `unIota`: row `r` is row `src r` of the fast layout, cut to `L` columns and to the
 first `2M` rows -/
theorem ent2_unIota (twoM L : Nat) (y : List (List K)) (r l : Nat) :
    ent2 (unIota twoM L y) r l = if l < L ∧ src r < twoM then ent2 y (src r) l else 0 := by
  unfold unIota
  rw [ent2_map_take, ent2_dropRow1, ent2_take]
  by_cases h1 : l < L <;> by_cases h2 : src r < twoM <;> simp [h1, h2]

omit [CommRing K] in
theorem unIota_length {α : Type} (twoM L : Nat) (y : List (List α)) (h2 : 2 ≤ twoM) (hy : twoM ≤ y.length) :
    (unIota twoM L y).length = twoM - 1 := by
  unfold unIota
  rw [List.length_map, dropRow1_length _ (by rw [List.length_take]; omega), List.length_take]
  omega

omit [CommRing K] in
theorem unIota_rows {α : Type} (twoM L : Nat) (y : List (List α)) (hy : ∀ r ∈ y, L ≤ r.length) :
    ∀ r ∈ unIota twoM L y, r.length = L := by
  intro r hr
  simp only [unIota, List.mem_map] at hr
  obtain ⟨a, ha, rfl⟩ := hr
  have := hy a (List.mem_of_mem_take (mem_dropRow1 _ _ ha))
  simp [this]

/-- `unIota` inverts `iota` on arrays of the real shape -/
theorem unIota_iota (M L pr pc : Nat) (hM : 1 ≤ M) (x : List (List K)) (hxl : x.length = 2 * M - 1)
    (hx : ∀ r ∈ x, r.length = L) : unIota (2 * M) L (iota L pr pc x) = x := by
  have hne : x ≠ [] := by intro h; rw [h] at hxl; simp at hxl; omega
  by_cases hM1 : M = 1
  · -- a single row: `unIota 2 L [pad r0, zeros, …] = [r0]`
    subst hM1
    match x, hxl with
    | [r0], _ =>
      have h0 : r0.length = L := hx r0 (List.mem_cons_self ..)
      simp [iota, unIota, dropRow1, padRight, h0]
  apply ext_ent2 _ _ L
  · rw [unIota_length _ _ _ (by omega) (by rw [iota_length _ _ _ _ hne]; omega), hxl]
  · apply unIota_rows
    intro r hr
    rw [iota_rows L pr pc x hx r hr]; omega
  · exact hx
  intro r l
  rw [ent2_unIota]
  split
  · exact ent2_iota_src L pr pc x r l
  · rename_i h
    by_cases hl : l < L
    · have : ¬ src r < 2 * M := fun h' => h ⟨hl, h'⟩
      rw [ent2_of_length_le x r l (by rw [hxl]; unfold src at this; split at this <;> omega)]
    · rw [ent2_of_width_le x L r l (fun r hr => le_of_eq (hx r hr)) (by omega)]

/-! ### `padNodal` -/

theorem ent2_padNodal (pn pj J : Nat) (z : List (List K)) (i j : Nat) :
    ent2 (padNodal pn pj J z) i j = ent2 z i j := by
  unfold padNodal
  rw [ent2_append, List.length_map]
  split
  · exact ent2_map_padRight pj z i j
  · rename_i h
    rw [ent2_replicate_zeros, ent2_of_length_le z i j (by omega)]

theorem padNodal_length (pn pj J : Nat) (z : List (List K)) :
    (padNodal pn pj J z).length = z.length + pn := by simp [padNodal]

theorem padNodal_rows (pn pj J : Nat) (z : List (List K)) (hz : ∀ r ∈ z, r.length = J) :
    ∀ r ∈ padNodal pn pj J z, r.length = J + pj := by
  intro r hr
  simp only [padNodal, List.mem_append, List.mem_map, List.mem_replicate] at hr
  rcases hr with ⟨a, ha, rfl⟩ | ⟨_, rfl⟩
  · simp [hz a ha]
  · simp

/-! ### `evens`, `odds`, `stackM` -/

theorem getElem?_evens {α : Type} (l : List α) (m : Nat) : (evens l)[m]? = l[2 * m]? := by
  fun_induction evens l generalizing m with
  | case1 => simp
  | case2 a => cases m <;> simp
  | case3 a b t ih =>
    cases m with
    | zero => simp
    | succ m => simp [ih m, Nat.mul_succ]

theorem getElem?_odds {α : Type} (l : List α) (m : Nat) : (odds l)[m]? = l[2 * m + 1]? := by
  fun_induction odds l generalizing m with
  | case1 => simp
  | case2 a => simp
  | case3 a b t ih =>
    cases m with
    | zero => simp
    | succ m => simp [ih m, Nat.mul_succ]

theorem evens_length {α : Type} (l : List α) : (evens l).length = (l.length + 1) / 2 := by
  fun_induction evens l with
  | case1 => simp
  | case2 a => simp
  | case3 a b t ih => simp [ih]; omega

theorem odds_length {α : Type} (l : List α) : (odds l).length = l.length / 2 := by
  fun_induction odds l with
  | case1 => simp
  | case2 a => simp
  | case3 a b t ih => simp [ih]; omega

theorem mem_evens {α : Type} (l : List α) (a : α) (h : a ∈ evens l) : a ∈ l := by
  fun_induction evens l with
  | case1 => simp at h
  | case2 b => simpa using h
  | case3 b c t ih =>
    simp only [List.mem_cons] at h ⊢
    rcases h with h | h
    · exact Or.inl h
    · exact Or.inr (Or.inr (ih h))

theorem mem_odds {α : Type} (l : List α) (a : α) (h : a ∈ odds l) : a ∈ l := by
  fun_induction odds l with
  | case1 => simp at h
  | case2 b => simp at h
  | case3 b c t ih =>
    simp only [List.mem_cons] at h ⊢
    rcases h with h | h
    · exact Or.inr (Or.inl h)
    · exact Or.inr (Or.inr (ih h))

theorem stackM_length {α : Type} (a b : List α) (h : a.length = b.length) :
    (stackM a b).length = 2 * a.length := by
  induction a generalizing b with
  | nil => simp [stackM]
  | cons x t ih =>
    cases b with
    | nil => simp at h
    | cons y u => simp [stackM, ih u (by simpa using h)]; omega

theorem mem_stackM {α : Type} (a b : List α) (c : α) (h : c ∈ stackM a b) : c ∈ a ∨ c ∈ b := by
  induction a generalizing b with
  | nil => simp [stackM] at h
  | cons x t ih =>
    cases b with
    | nil => simp [stackM] at h
    | cons y u =>
      simp only [stackM, List.mem_cons] at h ⊢
      rcases h with h | h | h
      · exact Or.inl (Or.inl h)
      · exact Or.inr (Or.inl h)
      · rcases ih u h with h' | h'
        · exact Or.inl (Or.inr h')
        · exact Or.inr (Or.inr h')

theorem getElem?_stackM {α : Type} (a b : List α) (h : a.length = b.length) (r : Nat) :
    (stackM a b)[r]? = if r % 2 = 0 then a[r / 2]? else b[r / 2]? := by
  induction a generalizing b r with
  | nil =>
    have : b = [] := by simpa using h.symm
    subst this; simp [stackM]
  | cons x t ih =>
    cases b with
    | nil => simp at h
    | cons y u =>
      match r with
      | 0 => simp [stackM]
      | 1 => simp [stackM]
      | k + 2 =>
        have h1 : (k + 2) % 2 = k % 2 := by omega
        have h2 : (k + 2) / 2 = k / 2 + 1 := by omega
        simp only [stackM, List.getElem?_cons_succ, h1, h2]
        exact ih u (by simpa using h) k

theorem ent_evens (v : List K) (m : Nat) : ent (evens v) m = ent v (2 * m) := by
  simp [ent, List.getD_eq_getElem?_getD, getElem?_evens]

theorem ent_odds (v : List K) (m : Nat) : ent (odds v) m = ent v (2 * m + 1) := by
  simp [ent, List.getD_eq_getElem?_getD, getElem?_odds]

theorem ent2_evens (x : List (List K)) (m l : Nat) : ent2 (evens x) m l = ent2 x (2 * m) l := by
  simp [ent2, List.getD_eq_getElem?_getD, getElem?_evens]

theorem ent2_odds (x : List (List K)) (m l : Nat) : ent2 (odds x) m l = ent2 x (2 * m + 1) l := by
  simp [ent2, List.getD_eq_getElem?_getD, getElem?_odds]

theorem ent2_map_evens (f : List (List K)) (i m : Nat) :
    ent2 (f.map evens) i m = ent2 f i (2 * m) := by
  unfold ent2
  simp only [List.getD_eq_getElem?_getD, List.getElem?_map]
  cases f[i]? with
  | none => simp
  | some r => simpa [ent] using ent_evens r m

theorem ent2_map_odds (f : List (List K)) (i m : Nat) :
    ent2 (f.map odds) i m = ent2 f i (2 * m + 1) := by
  unfold ent2
  simp only [List.getD_eq_getElem?_getD, List.getElem?_map]
  cases f[i]? with
  | none => simp
  | some r => simpa [ent] using ent_odds r m

theorem ent2_stackM (a b : List (List K)) (h : a.length = b.length) (r j : Nat) :
    ent2 (stackM a b) r j = if r % 2 = 0 then ent2 a (r / 2) j else ent2 b (r / 2) j := by
  unfold ent2
  simp only [List.getD_eq_getElem?_getD, getElem?_stackM a b h r]
  split <;> rfl

/-! ### finite sums -/

theorem sum_range_tail_zero (g : ℕ → K) (a b : Nat) (hab : a ≤ b) (hz : ∀ r, a ≤ r → g r = 0) :
    ∑ r ∈ range b, g r = ∑ r ∈ range a, g r := by
  symm
  apply Finset.sum_subset (Finset.range_subset_range.2 hab)
  intro r _ hr
  exact hz r (by simpa using hr)

/-- re-indexing of a sum over the rows of the fast layout by the rows of the real layout -/
theorem sum_src (g : ℕ → K) (R R' : Nat) (hR : 1 ≤ R) (hRR' : R + 1 ≤ R') (h1 : g 1 = 0)
    (hz : ∀ r, R + 1 ≤ r → g r = 0) :
    ∑ r ∈ range R', g r = ∑ r ∈ range R, g (src r) := by
  rw [sum_range_tail_zero g (R + 1) R' hRR' hz]
  obtain ⟨k, rfl⟩ : ∃ k, R = k + 1 := ⟨R - 1, by omega⟩
  rw [Finset.sum_range_succ' g (k + 1), Finset.sum_range_succ' (fun i => g (i + 1)) k,
    Finset.sum_range_succ' (fun r => g (src r)) k]
  simp only [src, h1, add_zero, if_true, Nat.add_eq_zero_iff, one_ne_zero, and_false, if_false]

theorem sum_range_two_mul (g : ℕ → K) (H : Nat) :
    ∑ r ∈ range (2 * H), g r = ∑ m ∈ range H, (g (2 * m) + g (2 * m + 1)) := by
  induction H with
  | zero => simp
  | succ H ih =>
    have : 2 * (H + 1) = 2 * H + 1 + 1 := by ring
    rw [this, Finset.sum_range_succ, Finset.sum_range_succ, ih, Finset.sum_range_succ]
    ring

/-! ### the fast transforms, entrywise -/

theorem fast_px_length (b : Basis K) (N H J L : Nat) (hb : Shaped b N H J L) (x : List (List K))
    (hxl : x.length = 2 * H) :
    (invLegendre b.p (evens x)).length = H ∧ (invLegendre b.p (odds x)).length = H := by
  rw [invLegendre_length, invLegendre_length, evens_length, odds_length, hb.pl, hxl]
  constructor <;> omega

/-- fast synthesis: `z[i][j] = Σ_r f[i][r]·Σ_l p[r/2][j][l]·x[r][l]` -/
theorem ent2_fastSynth (b : Basis K) (N H J L : Nat) (hb : Shaped b N H J L) (x : List (List K))
    (hxl : x.length = 2 * H) (hx : ∀ row ∈ x, row.length ≤ L) (i j : Nat) :
    ent2 (fastSynth b J x) i j
      = ∑ r ∈ range (2 * H), ent2 b.f i r * ∑ l ∈ range L, ent3 b.p (r / 2) j l * ent2 x r l := by
  unfold fastSynth invFourier
  obtain ⟨h0, h1⟩ := fast_px_length b N H J L hb x hxl
  have hrows : ∀ r ∈ stackM (invLegendre b.p (evens x)) (invLegendre b.p (odds x)), r.length = J := by
    intro r hr
    rcases mem_stackM _ _ _ hr with h | h
    · exact invLegendre_rows _ _ J hb.pj r h
    · exact invLegendre_rows _ _ J hb.pj r h
  rw [ent2_matMul _ _ J i j (2 * H) hrows (by rw [stackM_length _ _ (h0.trans h1.symm), h0])]
  apply Finset.sum_congr rfl
  intro r _
  congr 1
  rw [ent2_stackM _ _ (h0.trans h1.symm)]
  split
  · rename_i hr
    rw [ent2_invLegendre _ _ _ _ L (fun row hrow => hx row (mem_evens _ _ hrow))]
    apply Finset.sum_congr rfl
    intro l _
    rw [ent2_evens]
    have : 2 * (r / 2) = r := by omega
    rw [this]
  · rename_i hr
    rw [ent2_invLegendre _ _ _ _ L (fun row hrow => hx row (mem_odds _ _ hrow))]
    apply Finset.sum_congr rfl
    intro l _
    rw [ent2_odds]
    have : 2 * (r / 2) + 1 = r := by omega
    rw [this]

theorem fastSynth_length (b : Basis K) (J : Nat) (x : List (List K)) :
    (fastSynth b J x).length = b.f.length := by simp [fastSynth, invFourier, matMul]

theorem fastSynth_rows (b : Basis K) (N H J L : Nat) (hb : Shaped b N H J L) (x : List (List K)) :
    ∀ r ∈ fastSynth b J x, r.length = J := by
  intro r hr
  simp only [fastSynth, invFourier, matMul, List.mem_map] at hr
  obtain ⟨fi, _, rfl⟩ := hr
  apply vecMat_length
  intro r hr
  rcases mem_stackM _ _ _ hr with h | h
  · exact invLegendre_rows _ _ J hb.pj r h
  · exact invLegendre_rows _ _ J hb.pj r h

theorem fwdLegendre_length (p : List (List (List K))) (v : List (List K)) (L : Nat) :
    (fwdLegendre p v L).length = min p.length v.length := by simp [fwdLegendre]

theorem fwdLegendre_rows (p : List (List (List K))) (v : List (List K)) (L : Nat)
    (hp : ∀ pm ∈ p, ∀ pj ∈ pm, pj.length = L) : ∀ r ∈ fwdLegendre p v L, r.length = L := by
  intro r hr
  unfold fwdLegendre at hr
  rw [List.mem_iff_getElem] at hr
  obtain ⟨i, hi, rfl⟩ := hr
  simp only [List.length_zipWith] at hi
  simp only [List.getElem_zipWith]
  exact vecMat_length _ _ _ (hp _ (List.getElem_mem _))

/-- fast analysis: `y[r][l] = Σ_j (Σ_i f[i][r]·w[j]·z[i][j])·p[r/2][j][l]` -/
theorem ent2_fastAnalysis (b : Basis K) (N H J L : Nat) (hb : Shaped b N H J L)
    (z : List (List K)) (hz : ∀ zi ∈ z, zi.length = J) (hzl : z.length ≤ N) (r l : Nat)
    (hr : r < 2 * H) :
    ent2 (fastAnalysis b (2 * H) J L z) r l
      = ∑ j ∈ range J, (∑ i ∈ range N, ent2 b.f i r * (ent b.w j * ent2 z i j)) * ent3 b.p (r / 2) j l := by
  unfold fastAnalysis
  have hF : (fwdFourier b.f (weight b.w z) (2 * H) J).length = 2 * H := fwdFourier_length _ _ _ _
  have hl0 : (fwdLegendre b.p (evens (fwdFourier b.f (weight b.w z) (2 * H) J)) L).length = H := by
    rw [fwdLegendre_length, evens_length, hF, hb.pl]; omega
  have hl1 : (fwdLegendre b.p (odds (fwdFourier b.f (weight b.w z) (2 * H) J)) L).length = H := by
    rw [fwdLegendre_length, odds_length, hF, hb.pl]; omega
  rw [ent2_stackM _ _ (hl0.trans hl1.symm)]
  have hFent : ∀ r' j, r' < 2 * H → ent2 (fwdFourier b.f (weight b.w z) (2 * H) J) r' j
      = ∑ i ∈ range N, ent2 b.f i r' * (ent b.w j * ent2 z i j) := by
    intro r' j hr'
    rw [ent2_fwdFourier _ _ (2 * H) J N r' j hr' (weight_rows _ _ J hb.wl hz)
      (by simp [weight]; omega)]
    apply Finset.sum_congr rfl
    intro i _
    rw [ent2_weight]
  split
  · rename_i hpar
    rw [ent2_fwdLegendre _ _ L J (r / 2) l hb.pll (fun pm hpm => by rw [hb.pj pm hpm])]
    apply Finset.sum_congr rfl
    intro j _
    rw [ent2_evens]
    have : 2 * (r / 2) = r := by omega
    rw [this, hFent r j hr]
  · rename_i hpar
    rw [ent2_fwdLegendre _ _ L J (r / 2) l hb.pll (fun pm hpm => by rw [hb.pj pm hpm])]
    apply Finset.sum_congr rfl
    intro j _
    rw [ent2_odds]
    have : 2 * (r / 2) + 1 = r := by omega
    rw [this, hFent r j hr]

theorem fastAnalysis_length (b : Basis K) (N H J L : Nat) (hb : Shaped b N H J L)
    (z : List (List K)) : (fastAnalysis b (2 * H) J L z).length = 2 * H := by
  unfold fastAnalysis
  have hF : (fwdFourier b.f (weight b.w z) (2 * H) J).length = 2 * H := fwdFourier_length _ _ _ _
  have hl0 : (fwdLegendre b.p (evens (fwdFourier b.f (weight b.w z) (2 * H) J)) L).length = H := by
    rw [fwdLegendre_length, evens_length, hF, hb.pl]; omega
  have hl1 : (fwdLegendre b.p (odds (fwdFourier b.f (weight b.w z) (2 * H) J)) L).length = H := by
    rw [fwdLegendre_length, odds_length, hF, hb.pl]; omega
  rw [stackM_length _ _ (hl0.trans hl1.symm), hl0]

theorem fastAnalysis_rows (b : Basis K) (N H J L : Nat) (hb : Shaped b N H J L) (R : Nat)
    (z : List (List K)) : ∀ r ∈ fastAnalysis b R J L z, r.length = L := by
  intro r hr
  unfold fastAnalysis at hr
  rcases mem_stackM _ _ _ hr with h | h
  · exact fwdLegendre_rows _ _ L hb.pll r h
  · exact fwdLegendre_rows _ _ L hb.pll r h

theorem realAnalysis_length (b : Basis K) (N R J L : Nat) (hb : Shaped b N R J L)
    (z : List (List K)) : (realAnalysis b R J L z).length = R := by
  unfold realAnalysis
  rw [fwdLegendre_length, fwdFourier_length, hb.pl]; simp

theorem realAnalysis_rows (b : Basis K) (N R J L : Nat) (hb : Shaped b N R J L) (R' : Nat)
    (z : List (List K)) : ∀ r ∈ realAnalysis b R' J L z, r.length = L := by
  intro r hr
  exact fwdLegendre_rows _ _ L hb.pll r hr

/-! ### the two `basis` constructions -/

theorem getElem?_dup {α : Type} (l : List α) (k : Nat) : (dup l)[k]? = l[k / 2]? := by
  induction l generalizing k with
  | nil => simp [dup]
  | cons a t ih =>
    match k with
    | 0 => simp [dup]
    | 1 => simp [dup]
    | k + 2 =>
      have : (k + 2) / 2 = k / 2 + 1 := by omega
      simp [dup, ih k, this]

theorem ent3_eq_ent2 (a : List (List (List K))) (i j k : Nat) :
    ent3 a i j k = ent2 (a.getD i []) j k := rfl

/-- `np.repeat(p, 2, axis=0)[1:]`: row `r` is `P[(r+1)/2]` -/
theorem ent3_realBasisOf (f : List (List K)) (P : List (List (List K))) (w : List K) (r j l : Nat) :
    ent3 (realBasisOf f P w).p r j l = ent3 P ((r + 1) / 2) j l := by
  simp [realBasisOf, ent3, List.getD_eq_getElem?_getD, List.getElem?_tail, getElem?_dup]

/-- the three `np.pad` calls leave the entries of `P` in place and add zeros -/
theorem ent3_fastBasisOf (fz : List (List K)) (P : List (List (List K))) (w : List K)
    (pn pr pj pc twoM J L m j l : Nat) :
    ent3 (fastBasisOf fz P w pn pr pj pc twoM J L).p m j l = ent3 P m j l := by
  unfold fastBasisOf
  simp only [ent3_eq_ent2, List.getD_eq_getElem?_getD]
  rcases Nat.lt_or_ge m P.length with hm | hm
  · rw [List.getElem?_append_left (by simpa using hm), List.getElem?_map,
      List.getElem?_eq_getElem hm]
    exact ent2_padNodal pj pc L P[m] j l
  · rw [List.getElem?_append_right (by simpa using hm), List.getElem?_eq_none hm,
      List.getElem?_replicate]
    split
    · simp only [Option.getD_some, Option.getD_none, ent2_nil]
      exact ent2_replicate_zeros _ _ _ _
    · simp [ent2_nil]

theorem ent2_fastBasisOf_f (fz : List (List K)) (P : List (List (List K))) (w : List K)
    (pn pr pj pc twoM J L i c : Nat) :
    ent2 (fastBasisOf fz P w pn pr pj pc twoM J L).f i c = ent2 fz i c :=
  ent2_padNodal pn pr twoM fz i c

theorem ent_fastBasisOf_w (fz : List (List K)) (P : List (List (List K))) (w : List K)
    (pn pr pj pc twoM J L j : Nat) :
    ent (fastBasisOf fz P w pn pr pj pc twoM J L).w j = ent w j := ent_padRight pj w j

theorem ent3_of_shape (P : List (List (List K))) (J L m j l : Nat) (hPj : ∀ pm ∈ P, pm.length = J)
    (hPl : ∀ pm ∈ P, ∀ pj ∈ pm, pj.length = L) (h : J ≤ j ∨ L ≤ l) : ent3 P m j l = 0 := by
  rw [ent3_eq_ent2]
  rcases Nat.lt_or_ge m P.length with hm | hm
  · rw [getD_eq_getElem_nil P m hm]
    rcases h with h | h
    · exact ent2_of_length_le _ _ _ (by rw [hPj _ (List.getElem_mem hm)]; exact h)
    · exact ent2_of_width_le _ L _ _ (fun r hr => le_of_eq (hPl _ (List.getElem_mem hm) r hr)) h
  · rw [getD_nil_of_le P m hm]; exact ent2_nil _ _

omit [CommRing K] in
theorem realBasisOf_shaped (f : List (List K)) (P : List (List (List K))) (w : List K)
    (M N J L : Nat) (hf : f.length = N) (hP : P.length = M)
    (hPj : ∀ pm ∈ P, pm.length = J) (hPl : ∀ pm ∈ P, ∀ pj ∈ pm, pj.length = L) (hw : w.length = J) :
    Shaped (realBasisOf f P w) N (2 * M - 1) J L := by
  have dup_len : ∀ (l : List (List (List K))), (dup l).length = 2 * l.length := by
    intro l; induction l with
    | nil => rfl
    | cons a t ih => simp [dup, ih]; omega
  have mem_dup : ∀ (l : List (List (List K))) a, a ∈ dup l → a ∈ l := by
    intro l; induction l with
    | nil => intro a h; simp [dup] at h
    | cons b t ih =>
      intro a h
      simp only [dup, List.mem_cons] at h ⊢
      rcases h with h | h | h
      · exact Or.inl h
      · exact Or.inl h
      · exact Or.inr (ih a h)
  refine ⟨hf, ?_, ?_, ?_, hw⟩
  · simp [realBasisOf, dup_len, hP]
  · intro pm hpm
    exact hPj pm (mem_dup _ _ (List.mem_of_mem_tail hpm))
  · intro pm hpm
    exact hPl pm (mem_dup _ _ (List.mem_of_mem_tail hpm))

theorem fastBasisOf_shaped (fz : List (List K)) (P : List (List (List K))) (w : List K)
    (M N J L pn pr pj pc : Nat) (hf : fz.length = N) (hP : P.length = M)
    (hPj : ∀ pm ∈ P, pm.length = J) (hPl : ∀ pm ∈ P, ∀ pj ∈ pm, pj.length = L) (hw : w.length = J) :
    Shaped (fastBasisOf fz P w pn pr pj pc (2 * M) J L) (N + pn) (M + pr / 2) (J + pj) (L + pc) := by
  refine ⟨by simp [fastBasisOf, hf], by simp [fastBasisOf, hP], ?_, ?_, by simp [fastBasisOf, hw]⟩
  · intro pm hpm
    simp only [fastBasisOf, List.mem_append, List.mem_map, List.mem_replicate] at hpm
    rcases hpm with ⟨a, ha, rfl⟩ | ⟨_, rfl⟩
    · simp [hPj a ha]
    · simp
  · intro pm hpm pj' hpj'
    simp only [fastBasisOf, List.mem_append, List.mem_map, List.mem_replicate] at hpm
    rcases hpm with ⟨a, ha, rfl⟩ | ⟨_, rfl⟩
    · simp only [List.mem_append, List.mem_map, List.mem_replicate] at hpj'
      rcases hpj' with ⟨b, hb, rfl⟩ | ⟨_, rfl⟩
      · simp [hPl a ha b hb]
      · simp
    · simp only [List.mem_replicate] at hpj'
      rw [hpj'.2]; simp

/-! ### index-wise operations -/

/-- `x * v` along the last axis, entrywise (both sides read `0` outside) -/
theorem ent2_mulLast (x : List (List K)) (v : List K) (i j : Nat) :
    ent2 (mulLast x v) i j = ent2 x i j * ent v j := by
  unfold mulLast ent2
  simp only [List.getD_eq_getElem?_getD, List.getElem?_map]
  cases x[i]? with
  | none => simp [ent]
  | some r => simpa [ent] using ent_zipWith_mul r v j

theorem mulLast_length (x : List (List K)) (v : List K) : (mulLast x v).length = x.length := by
  simp [mulLast]

theorem mulLast_rows (x : List (List K)) (v : List K) (n : Nat) (hx : ∀ r ∈ x, r.length = n)
    (hv : v.length = n) : ∀ r ∈ mulLast x v, r.length = n := by
  intro r hr
  simp only [mulLast, List.mem_map] at hr
  obtain ⟨a, ha, rfl⟩ := hr
  simp [hx a ha, hv]

/-- multiplication along the last axis commutes with `ι` as soon as the two factor vectors agree on
 the unpadded columns -/
theorem mulLast_iota (L pr pc : Nat) (x : List (List K)) (vR vF : List K)
    (hx : ∀ r ∈ x, r.length = L) (hvR : vR.length = L) (hvF : vF.length = L + pc)
    (hv : ∀ j, j < L → ent vF j = ent vR j) :
    mulLast (iota L pr pc x) vF = iota L pr pc (mulLast x vR) := by
  by_cases hne : x = []
  · subst hne; simp [iota, mulLast]
  apply ext_ent2 _ _ (L + pc)
  · rw [mulLast_length, iota_length _ _ _ _ hne,
      iota_length _ _ _ _ (by intro h; apply hne; simpa [mulLast] using h), mulLast_length]
  · exact mulLast_rows _ _ _ (iota_rows L pr pc x hx) hvF
  · exact iota_rows L pr pc _ (mulLast_rows _ _ _ hx hvR)
  intro r l
  rw [ent2_mulLast, ent2_iota, ent2_iota]
  split
  · ring
  · rw [ent2_mulLast]
    by_cases hl : l < L
    · rw [hv l hl]
    · rw [ent2_of_width_le x L _ l (fun r hr => le_of_eq (hx r hr)) (by omega)]; ring

/-! ### longitude derivative, entrywise -/

theorem ent_getD_zeros (x : List (List K)) (k w l : Nat) :
    ent (x.getD k (zerosN w)) l = ent2 x k l := by
  unfold ent2
  simp only [List.getD_eq_getElem?_getD]
  cases x[k]? with
  | none => simp [ent_zerosN]
  | some r => simp [ent]

theorem ent_map_neg (v : List K) (l : Nat) : ent (v.map fun a => -a) l = -ent v l := by
  unfold ent
  simp only [List.getD_eq_getElem?_getD, List.getElem?_map]
  cases v[l]? <;> simp

theorem ent2_range_map (n : Nat) (F : Nat → List K) (i l : Nat) :
    ent2 ((List.range n).map F) i l = if i < n then ent (F i) l else 0 := by
  unfold ent2
  simp only [List.getD_eq_getElem?_getD, List.getElem?_map]
  split
  · rename_i h; simp [List.getElem?_range h, ent]
  · rename_i h; simp [List.getElem?_eq_none (show (List.range n).length ≤ i by simpa using Nat.le_of_not_lt h)]

/-- `real_basis_derivative`, entrywise -/
theorem ent2_realDerivative (x : List (List K)) (w i l : Nat) :
    ent2 (Fourier.realDerivative x w) i l
      = if i < x.length then
          (if i % 2 = 1 then (((i + 1) / 2 : Nat) : K) * ent2 x (i + 1) l
           else if i = 0 then 0 else (((i + 1) / 2 : Nat) : K) * -ent2 x (i - 1) l)
        else 0 := by
  unfold Fourier.realDerivative
  rw [ent2_range_map]
  split
  · split
    · rw [ent_scale, ent_getD_zeros]
    · split
      · rw [ent_scale, ent_zerosN]; ring
      · rw [ent_scale, ent_map_neg, ent_getD_zeros]
  · rfl

/-- `real_basis_derivative_with_zero_imag`, entrywise -/
theorem ent2_zeroImagDerivative (y : List (List K)) (w off i l : Nat) :
    ent2 (Fourier.zeroImagDerivative y w off) i l
      = if i < y.length then
          (if (i + 1) % 2 = 1 then ((off + i / 2 : Nat) : K) * ent2 y (i + 1) l
           else ((off + i / 2 : Nat) : K) * -ent2 y (i - 1) l)
        else 0 := by
  unfold Fourier.zeroImagDerivative
  rw [ent2_range_map]
  split
  · split
    · rw [ent_scale, ent_getD_zeros]
    · rw [ent_scale, ent_map_neg, ent_getD_zeros]
  · rfl

theorem derivative_rows (x : List (List K)) (w : Nat) (hx : ∀ r ∈ x, r.length = w) :
    (∀ r ∈ Fourier.realDerivative x w, r.length = w) ∧
    (∀ off, ∀ r ∈ Fourier.zeroImagDerivative x w off, r.length = w) := by
  have hg : ∀ k : Nat, (x[k]?.getD (zerosN w)).length = w := by
    intro k
    rcases Nat.lt_or_ge k x.length with hk | hk
    · simp [List.getElem?_eq_getElem hk, hx _ (List.getElem_mem hk)]
    · simp [List.getElem?_eq_none hk]
  constructor
  · intro r hr
    simp only [Fourier.realDerivative, List.mem_map, List.mem_range] at hr
    obtain ⟨i, _, rfl⟩ := hr
    split
    · simp [scale, hg]
    · split <;> simp [scale, hg]
  · intro off r hr
    simp only [Fourier.zeroImagDerivative, List.mem_map, List.mem_range] at hr
    obtain ⟨i, _, rfl⟩ := hr
    split <;> simp [scale, hg]

end Dino.SHEquiv

namespace Dino.SHEquiv
open Finset Dino.Lin Dino.SH Dino.Fourier

/-! ### the two Fourier matrices (fields: the code divides by `√π`) -/
section field
variable {F : Type} [Field F]

theorem pairs_length (cs sn : Nat → F) (sp : F) (M N i : Nat) :
    (pairs cs sn sp M N i).length = 2 * (M - 1) := by
  unfold pairs
  have : ∀ l : List Nat, (l.flatMap fun jm =>
      [cs ((i * (jm + 1)) % N) / sp, sn ((i * (jm + 1)) % N) / sp]).length = 2 * l.length := by
    intro l
    induction l with
    | nil => simp
    | cons a t ih => simp only [List.flatMap_cons, List.length_append, ih]; simp; omega
  rw [this]; simp

/-- `real_basis_with_zero_imag` is `real_basis` with a zero column inserted at index 1 -/
theorem zeroImag_src (cs sn : Nat → F) (s2p sp : F) (M N i r : Nat) :
    ent2 (realBasisZeroImag cs sn s2p sp M N) i (src r) = ent2 (realBasis cs sn s2p sp M N) i r := by
  unfold realBasisZeroImag realBasis
  rw [ent2_range_map, ent2_range_map]
  split
  · cases r with
    | zero => simp [src]
    | succ k => simp [src]
  · rfl

theorem zeroImag_one (cs sn : Nat → F) (s2p sp : F) (M N i : Nat) :
    ent2 (realBasisZeroImag cs sn s2p sp M N) i 1 = 0 := by
  unfold realBasisZeroImag
  rw [ent2_range_map]
  split <;> simp

theorem zeroImag_tail (cs sn : Nat → F) (s2p sp : F) (M N i c : Nat) (hM : 1 ≤ M) (hc : 2 * M ≤ c) :
    ent2 (realBasisZeroImag cs sn s2p sp M N) i c = 0 := by
  unfold realBasisZeroImag
  rw [ent2_range_map]
  split
  · apply ent_of_length_le
    simp only [List.length_cons, pairs_length]; omega
  · rfl

theorem realBasis_length (cs sn : Nat → F) (s2p sp : F) (M N : Nat) :
    (realBasis cs sn s2p sp M N).length = N ∧ (realBasisZeroImag cs sn s2p sp M N).length = N := by
  simp [realBasis, realBasisZeroImag]

end field
end Dino.SHEquiv

/-! ### stacked contraction and reversed operand order -/
namespace Dino.SHEquiv
open Finset Dino.Lin Dino.SH
variable {K : Type} [CommRing K]

theorem ent2_zipWith_vadd (A B : List (List K)) (n : Nat) (hl : A.length = B.length)
    (hA : ∀ r ∈ A, r.length = n) (hB : ∀ r ∈ B, r.length = n) (i j : Nat) :
    ent2 (List.zipWith vadd A B) i j = ent2 A i j + ent2 B i j := by
  unfold ent2
  simp only [List.getD_eq_getElem?_getD, List.getElem?_zipWith]
  rcases Nat.lt_or_ge i A.length with hi | hi
  · have hi' : i < B.length := by omega
    rw [List.getElem?_eq_getElem hi, List.getElem?_eq_getElem hi']
    simp only [Option.getD_some]
    have := ent_vadd A[i] B[i] j (by rw [hA _ (List.getElem_mem hi), hB _ (List.getElem_mem hi')])
    simpa [ent] using this
  · have hi' : B.length ≤ i := by omega
    simp [List.getElem?_eq_none hi, List.getElem?_eq_none hi']

theorem zipWith_vadd_rows (A B : List (List K)) (n : Nat)
    (hA : ∀ r ∈ A, r.length = n) (hB : ∀ r ∈ B, r.length = n) :
    ∀ r ∈ List.zipWith vadd A B, r.length = n := by
  intro r hr
  rw [List.mem_iff_getElem] at hr
  obtain ⟨i, hi, rfl⟩ := hr
  simp only [List.length_zipWith] at hi
  simp only [List.getElem_zipWith, vadd, List.length_zipWith]
  rw [hA _ (List.getElem_mem _), hB _ (List.getElem_mem _)]; simp

theorem matMul_rows (f b : List (List K)) (n : Nat) (hb : ∀ r ∈ b, r.length = n) :
    ∀ r ∈ matMul f b n, r.length = n := by
  intro r hr
  simp only [matMul, List.mem_map] at hr
  obtain ⟨fi, _, rfl⟩ := hr
  exact vecMat_length _ _ _ hb

/-- the stacked Fourier contraction `'ism,smj->ij'` against the de-interleaved columns of `f` is the
 plain contraction against the interleaved rows -/
theorem stacked_matMul (f a b : List (List K)) (J : Nat) (hab : a.length = b.length)
    (ha : ∀ r ∈ a, r.length = J) (hb : ∀ r ∈ b, r.length = J) :
    List.zipWith vadd (matMul (f.map evens) a J) (matMul (f.map odds) b J)
      = matMul f (stackM a b) J := by
  have hs : ∀ r ∈ stackM a b, r.length = J := by
    intro r hr
    rcases mem_stackM _ _ _ hr with h | h
    · exact ha r h
    · exact hb r h
  apply ext_ent2 _ _ J
  · simp [matMul]
  · exact zipWith_vadd_rows _ _ J (matMul_rows _ _ J ha) (matMul_rows _ _ J hb)
  · exact matMul_rows _ _ J hs
  intro i j
  rw [ent2_zipWith_vadd _ _ J (by simp [matMul]) (matMul_rows _ _ J ha) (matMul_rows _ _ J hb),
    ent2_matMul _ _ J i j a.length ha (le_refl _),
    ent2_matMul _ _ J i j a.length hb (by omega),
    ent2_matMul _ _ J i j (2 * a.length) hs (by rw [stackM_length _ _ hab]),
    sum_range_two_mul, ← Finset.sum_add_distrib]
  apply Finset.sum_congr rfl
  intro m _
  rw [ent2_map_evens, ent2_map_odds, ent2_stackM _ _ hab, ent2_stackM _ _ hab,
    if_pos (by omega), if_neg (by omega)]
  have h1 : 2 * m / 2 = m := by omega
  have h2 : (2 * m + 1) / 2 = m := by omega
  rw [h1, h2]

omit [CommRing K] in
theorem evens_range_map {α : Type} (g : Nat → α) (h : Nat) :
    evens ((List.range (2 * h)).map g) = (List.range h).map fun m => g (2 * m) := by
  apply List.ext_getElem?
  intro m
  rw [getElem?_evens, List.getElem?_map, List.getElem?_map]
  rcases Nat.lt_or_ge m h with hm | hm
  · rw [List.getElem?_range (by omega), List.getElem?_range hm]; rfl
  · rw [List.getElem?_eq_none (by simp; omega), List.getElem?_eq_none (by simpa using hm)]; rfl

omit [CommRing K] in
theorem odds_range_map {α : Type} (g : Nat → α) (h : Nat) :
    odds ((List.range (2 * h)).map g) = (List.range h).map fun m => g (2 * m + 1) := by
  apply List.ext_getElem?
  intro m
  rw [getElem?_odds, List.getElem?_map, List.getElem?_map]
  rcases Nat.lt_or_ge m h with hm | hm
  · rw [List.getElem?_range (by omega), List.getElem?_range hm]; rfl
  · rw [List.getElem?_eq_none (by simp; omega), List.getElem?_eq_none (by simpa using hm)]; rfl

theorem col_map_evens (f : List (List K)) (m : Nat) : col (f.map evens) m = col f (2 * m) := by
  unfold col
  rw [List.map_map]
  apply List.map_congr_left
  intro row _
  simp [List.getD_eq_getElem?_getD, getElem?_evens]

theorem col_map_odds (f : List (List K)) (m : Nat) : col (f.map odds) m = col f (2 * m + 1) := by
  unfold col
  rw [List.map_map]
  apply List.map_congr_left
  intro row _
  simp [List.getD_eq_getElem?_getD, getElem?_odds]

/-- forward Fourier step: de-interleaving the result = contracting with the de-interleaved `f` -/
theorem fwdFourier_evens_odds (f wx : List (List K)) (h J : Nat) :
    evens (fwdFourier f wx (2 * h) J) = fwdFourier (f.map evens) wx h J ∧
    odds (fwdFourier f wx (2 * h) J) = fwdFourier (f.map odds) wx h J := by
  unfold fwdFourier transposeM
  simp only [List.map_map]
  constructor
  · rw [evens_range_map]
    apply List.map_congr_left
    intro m _
    simp [col_map_evens]
  · rw [odds_range_map]
    apply List.map_congr_left
    intro m _
    simp [col_map_odds]

/-! reversed operand order -/

theorem scaleR_eq (c : K) (v : List K) : scaleR c v = scale c v := by
  simp [scaleR, scale, mul_comm]

theorem vecMatR_eq (c : List K) (rows : List (List K)) (n : Nat) : vecMatR c rows n = vecMat c rows n := by
  induction c generalizing rows with
  | nil => simp [vecMatR, vecMat]
  | cons a t ih =>
    cases rows with
    | nil => simp [vecMatR, vecMat]
    | cons r rs => simp [vecMatR, vecMat, scaleR_eq, ih]

theorem matMulR_eq : @matMulR K _ _ _ = @matMul K _ _ _ := by
  funext a b n
  simp [matMulR, matMul, vecMatR_eq]

theorem dotv_comm (a b : List K) : dotv a b = dotv b a := by
  unfold dotv
  congr 1
  induction a generalizing b with
  | nil => cases b <;> simp
  | cons x t ih =>
    cases b with
    | nil => simp
    | cons y u => simp [ih u, mul_comm]

theorem invLegendreR_eq : @invLegendreR K _ _ _ = @invLegendre K _ _ _ := by
  funext p x
  simp [invLegendreR, invLegendre, dotv_comm]

theorem fwdFourierR_eq : @fwdFourierR K _ _ _ = @fwdFourier K _ _ _ := by
  funext f wx nrows nlat
  simp [fwdFourierR, fwdFourier, vecMatR_eq]

theorem fwdLegendreR_eq : @fwdLegendreR K _ _ _ = @fwdLegendre K _ _ _ := by
  funext p v nl
  simp [fwdLegendreR, fwdLegendre, vecMatR_eq]

end Dino.SHEquiv

/-! ### masks and axes -/
namespace Dino.SHEquiv
open Dino.SH

theorem zipIdx_map_congr {α β : Type} (l : List α) (k : Nat) (f g : α × Nat → β)
    (h : ∀ a i, k ≤ i → i < k + l.length → f (a, i) = g (a, i)) :
    (List.zipIdx l k).map f = (List.zipIdx l k).map g := by
  apply List.map_congr_left
  rintro ⟨a, i⟩ hai
  have := List.mem_zipIdx hai
  exact h a i this.1 this.2.1

theorem zipIdx_map_fst' {α β : Type} (l : List α) (k : Nat) (g : α → β) :
    (List.zipIdx l k).map (fun ai => g ai.1) = l.map g := by
  have : l.map g = ((List.zipIdx l k).map Prod.fst).map g := by rw [List.zipIdx_map_fst]
  rw [this, List.map_map]; rfl

/-- the `m` values of the modal rows -/
def mTail (M : Nat) : List Int :=
  (List.range (M - 1)).flatMap fun j => [((j + 1 : Nat) : Int), -((j + 1 : Nat) : Int)]

theorem mTail_length (M : Nat) : (mTail M).length = 2 * (M - 1) := by
  unfold mTail
  have : ∀ l : List Nat, (l.flatMap fun j => [((j + 1 : Nat) : Int), -((j + 1 : Nat) : Int)]).length
      = 2 * l.length := by
    intro l
    induction l with
    | nil => simp
    | cons a t ih => simp only [List.flatMap_cons, List.length_append, ih]; simp; omega
  rw [this]; simp

theorem realMvals_eq (M : Nat) : realMvals M = 0 :: mTail M := rfl
theorem fastMvals_eq (M pr : Nat) : fastMvals M pr = (0 :: 0 :: mTail M) ++ List.replicate pr 0 := rfl

/-- one row of the fast mask -/
def fastRow (M L pc : Nat) (m : Int) (i : Nat) : List Bool :=
  (List.zipIdx (lvals L pc)).map fun (l, j) =>
    decide (m.natAbs ≤ l) && decide (i ≠ 1) && decide (i < 2 * M) && decide (j < L)

def realRow (L : Nat) (m : Int) : List Bool := (lvals L 0).map fun l => decide (m.natAbs ≤ l)

theorem fastRow_inside (M L pc : Nat) (m : Int) (i : Nat) (h1 : i ≠ 1) (h2 : i < 2 * M) :
    fastRow M L pc m i = realRow L m ++ List.replicate pc false := by
  unfold fastRow realRow lvals
  rw [List.zipIdx_append, List.map_append]
  congr 1
  · rw [zipIdx_map_congr _ 0 _ (fun ai => decide (m.natAbs ≤ ai.1))]
    · rw [zipIdx_map_fst' _ _ (fun l => decide (m.natAbs ≤ l))]; simp
    · intro a j _ hj
      simp at hj
      simp [h1, h2, hj]
  · rw [zipIdx_map_congr _ _ _ (fun _ => false)]
    · simp
    · intro a j hj _
      simp at hj
      simp; omega

theorem fastRow_outside (M L pc : Nat) (m : Int) (i : Nat) (h : i = 1 ∨ 2 * M ≤ i) :
    fastRow M L pc m i = List.replicate (L + pc) false := by
  unfold fastRow
  rw [zipIdx_map_congr _ 0 _ (fun _ => false)]
  · simp [lvals]
  · intro a j _ _
    rcases h with h | h
    · simp [h]
    · have : ¬ i < 2 * M := by omega
      simp [this]

end Dino.SHEquiv
