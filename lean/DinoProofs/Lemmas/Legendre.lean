import Dino.Legendre
import DinoProofs.Lemmas.Lin
import Mathlib.Algebra.Field.Basic
import Mathlib.Algebra.Ring.Parity
import Mathlib.Tactic.Ring
import Mathlib.Tactic.Linarith

/-!
# The triangle-truncated associated Legendre recurrence (`Dino.Legendre`), for all sizes

`sqrt` is an arbitrary function `K → K` throughout: none of the statements below needs any property
of the square root.

* `row_length`, `ent_row_of_lt`: shape and structural zeros (`l < m`) — T1.3;
* `take_row`: prefix stability in the truncation `n_l` — T1.6;
* `ent_row_neg`: parity `P(-x) = (-1)^(l+m) P(x)` — T1.6.
-/
namespace Dino.Legendre
open Dino.Lin
variable {K : Type} [Field K]

theorem recur_length (sqrt : K → K) (x : K) (m count k : Nat) (p1 p2 : K) :
    (recur sqrt x m count k p1 p2).length = count := by
  induction count generalizing k p1 p2 with
  | zero => simp [recur]
  | succ n ih => simp [recur, ih]

theorem row_length (sqrt : K → K) (nl : Nat) (x : K) (m : Nat) : (row sqrt nl x m).length = nl := by
  unfold row
  split
  · simp
  · simp [recur_length]; omega

/-- **T1.3** `p[m, ·, l] = 0` for `l < m`, for every truncation, node and order -/
theorem ent_row_of_lt (sqrt : K → K) (nl : Nat) (x : K) (m l : Nat) (h : l < m) :
    ent (row sqrt nl x m) l = 0 := by
  unfold row ent
  split
  · simp only [List.getD_eq_getElem?_getD, List.getElem?_replicate]
    split <;> rfl
  · rw [List.getD_eq_getElem?_getD, List.getElem?_append_left (by simpa using h)]
    simp [h]

theorem ent_row_of_ge (sqrt : K → K) (nl : Nat) (x : K) (m l : Nat) (h : nl ≤ l) :
    ent (row sqrt nl x m) l = 0 :=
  ent_of_length_le _ _ (by rw [row_length]; exact h)

/-- the sectoral value sits on the diagonal -/
theorem ent_row_diag (sqrt : K → K) (nl : Nat) (x : K) (m : Nat) (h : m < nl) :
    ent (row sqrt nl x m) m = sectoral sqrt x m := by
  unfold row ent
  rw [if_neg (by omega), List.getD_eq_getElem?_getD, List.getElem?_append_right (by simp)]
  simp

/-! ### prefix stability -/

theorem take_recur (sqrt : K → K) (x : K) (m a b k : Nat) (p1 p2 : K) (h : a ≤ b) :
    (recur sqrt x m b k p1 p2).take a = recur sqrt x m a k p1 p2 := by
  induction a generalizing b k p1 p2 with
  | zero => simp [recur]
  | succ a ih =>
    cases b with
    | zero => omega
    | succ b => simp [recur, ih b (k + 1) _ p1 (by omega)]

/-- **T1.6 (prefix stability)** the table for truncation `nl` is the prefix of the table for any
 larger truncation `nl'` -/
theorem take_row (sqrt : K → K) (nl nl' : Nat) (x : K) (m : Nat) (h : nl ≤ nl') :
    (row sqrt nl' x m).take nl = row sqrt nl x m := by
  unfold row
  by_cases h1 : nl' ≤ m
  · rw [if_pos h1, if_pos (by omega), List.take_replicate]; congr 1; omega
  · rw [if_neg h1]
    by_cases h2 : nl ≤ m
    · rw [if_pos h2, List.take_append_of_le_length (by simpa using h2), List.take_replicate]
      congr 1; omega
    · rw [if_neg h2, List.take_append]
      simp only [List.length_replicate, List.take_replicate]
      have e1 : min nl m = m := by omega
      have e2 : nl - m = (nl - m - 1) + 1 := by omega
      rw [e1, e2, List.take_succ_cons, take_recur sqrt x m _ _ _ _ _ (by omega)]
      have e3 : nl - m - 1 + 1 - 1 = nl - m - 1 := by omega
      rw [e3]

theorem take_evaluate_rows (sqrt : K → K) (nm nl nl' : Nat) (xs : List K) (h : nl ≤ nl') :
    (evaluate sqrt nm nl' xs).map (fun pm => pm.map fun pj => pj.take nl) = evaluate sqrt nm nl xs := by
  unfold evaluate
  simp only [List.map_map]
  apply List.map_congr_left
  intro m _
  simp only [Function.comp, List.map_map]
  apply List.map_congr_left
  intro x _
  exact take_row sqrt nl nl' x m h

/-- prefix stability in the number of orders: fewer orders = the first tables -/
theorem take_evaluate_orders (sqrt : K → K) (nm nm' nl : Nat) (xs : List K) (h : nm ≤ nm') :
    (evaluate sqrt nm' nl xs).take nm = evaluate sqrt nm nl xs := by
  unfold evaluate
  rw [← List.map_take, List.take_range, Nat.min_eq_left h]

/-! ### parity -/

theorem sectoral_neg (sqrt : K → K) (x : K) (m : Nat) : sectoral sqrt (-x) m = sectoral sqrt x m := by
  induction m with
  | zero => rfl
  | succ m ih => simp only [sectoral, ih, neg_mul_neg]

theorem ent_recur_neg (sqrt : K → K) (x : K) (m count k : Nat) (p1 p2 s : K) (i : Nat) :
    ent (recur sqrt (-x) m count k (s * p1) (-s * p2)) i
      = -s * (-1) ^ i * ent (recur sqrt x m count k p1 p2) i := by
  induction count generalizing k p1 p2 s i with
  | zero => simp [recur]
  | succ n ih =>
    have hq : coefA sqrt m k * (-x * (s * p1) - coefB sqrt m k * (-s * p2))
        = -s * (coefA sqrt m k * (x * p1 - coefB sqrt m k * p2)) := by ring
    cases i with
    | zero => simp only [recur, ent_cons_zero, hq]; ring
    | succ i =>
      simp only [recur, ent_cons_succ, hq]
      have := ih (k + 1) (coefA sqrt m k * (x * p1 - coefB sqrt m k * p2)) p1 (-s) i
      rw [neg_neg] at this
      rw [this]; ring

/-- **T1.6 (parity)** `P^m_l(-x) = (-1)^(l+m) P^m_l(x)` for the computed tables, all sizes -/
theorem ent_row_neg (sqrt : K → K) (nl : Nat) (x : K) (m l : Nat) :
    ent (row sqrt nl (-x) m) l = (-1) ^ (l + m) * ent (row sqrt nl x m) l := by
  rcases Nat.lt_or_ge l m with h | h
  · rw [ent_row_of_lt _ _ _ _ _ h, ent_row_of_lt _ _ _ _ _ h, mul_zero]
  rcases Nat.lt_or_ge l nl with h2 | h2
  swap
  · rw [ent_row_of_ge _ _ _ _ _ h2, ent_row_of_ge _ _ _ _ _ h2, mul_zero]
  unfold row ent
  rw [if_neg (by omega), if_neg (by omega)]
  simp only [List.getD_eq_getElem?_getD]
  rw [List.getElem?_append_right (by simpa using h), List.getElem?_append_right (by simpa using h)]
  simp only [List.length_replicate]
  obtain ⟨d, rfl⟩ : ∃ d, l = m + d := ⟨l - m, by omega⟩
  have hd : m + d - m = d := by omega
  rw [hd]
  cases d with
  | zero =>
    simp only [List.getElem?_cons_zero, Option.getD_some, sectoral_neg]
    rw [add_zero, ← two_mul, pow_mul]; simp
  | succ d =>
    simp only [List.getElem?_cons_succ, sectoral_neg]
    have := ent_recur_neg sqrt x m (nl - m - 1) 1 (sectoral sqrt x m) 0 1 d
    simp only [one_mul, neg_mul, mul_zero] at this
    unfold ent at this
    simp only [List.getD_eq_getElem?_getD] at this
    rw [this]
    have e : (-1 : K) ^ (m + (d + 1) + m) = -((-1) ^ d) := by
      have : m + (d + 1) + m = 2 * m + (d + 1) := by ring
      rw [this, pow_add, pow_mul]; simp [pow_succ]
    rw [e]; ring

/-! ### the tables of `evaluate` -/

theorem ent3_evaluate (sqrt : K → K) (nm nl : Nat) (xs : List K) (m j l : Nat) (hm : m < nm)
    (hj : j < xs.length) : ent3 (evaluate sqrt nm nl xs) m j l = ent (row sqrt nl xs[j] m) l := by
  unfold evaluate ent3 ent
  simp [List.getD_eq_getElem?_getD, List.getElem?_map, List.getElem?_range hm,
    List.getElem?_eq_getElem hj]

/-- **T1.3** for `evaluate`: every entry with `l < m` is zero (also outside the array) -/
theorem ent3_evaluate_of_lt (sqrt : K → K) (nm nl : Nat) (xs : List K) (m j l : Nat) (h : l < m) :
    ent3 (evaluate sqrt nm nl xs) m j l = 0 := by
  rcases Nat.lt_or_ge m nm with hm | hm
  · rcases Nat.lt_or_ge j xs.length with hj | hj
    · rw [ent3_evaluate sqrt nm nl xs m j l hm hj]; exact ent_row_of_lt sqrt nl _ m l h
    · unfold evaluate ent3
      simp [List.getD_eq_getElem?_getD, List.getElem?_map, List.getElem?_range hm,
        List.getElem?_eq_none hj]
  · unfold evaluate ent3
    have : (List.range nm)[m]? = none := by simp [hm]
    simp [List.getD_eq_getElem?_getD, List.getElem?_map, this]

end Dino.Legendre
