import DinoProofs.Lemmas.ScalingDyn

/-!
# Dimensional homogeneity of every term of the primitive equations (`Dino.Dynamics`)

For `p' = actEq g p` (the same problem under the other scale) and `aux' = actDiag g aux`, every term
function `f` satisfies `f p' aux' = (factor of its dimension) • f p aux`.
-/
namespace Dino.Scaling
open Dino Dino.Dynamics
set_option linter.unusedSectionVars false
set_option linter.unusedSimpArgs false

/-- pointwise homogeneity in the nodal algebra / modal module: pull every factor to the front of
 every monomial, then compare the coefficients -/
macro "pw" hg:term : tactic => `(tactic| (
  simp only [smul_mul_assoc, mul_smul_comm, smul_smul, smul_neg, neg_smul, neg_mul, mul_neg, smul_add,
    smul_sub, add_mul, mul_add, sub_mul, mul_sub, Prod.smul_fst, Prod.smul_snd]
  all_goals (match_scalars <;> scal_eq $hg)))

section terms
variable {K M N : Type} [Field K] [AddCommGroup M] [Module K M] [CommRing N] [Algebra K N]
variable {g : Scale K} (p : PrimitiveEquations K M N)

theorem coriolis_act : (actEq g p).coriolisParameter = g.wF • p.coriolisParameter := by
  simp only [PrimitiveEquations.coriolisParameter, actEq, actPhys, actOps, smul_smul]
  congr 1; ring

theorem tRef_act : (actEq g p).tRef = Col.smul g.θ p.tRef := by
  simp only [PrimitiveEquations.tRef, actEq, Col.smul, List.map_map]
  congr 1; funext c; simp [constN, mul_smul]

theorem verticalTendency_act (a b : K) (w x : List N) :
    (actEq g p).verticalTendency (Col.smul a w) (Col.smul b x)
      = Col.smul (a * b) (p.verticalTendency w x) :=
  centeredAdvection_smul_col _ a b w x

theorem verticalTendency_act_left (a : K) (w x : List N) :
    (actEq g p).verticalTendency (Col.smul a w) x = Col.smul a (p.verticalTendency w x) := by
  have := verticalTendency_act (g := g) p a 1 w x
  rwa [one_smul_col, mul_one] at this

theorem tOmegaOverSigmaSp_act (a b : K) (T gT v : List N) :
    (actEq g p).tOmegaOverSigmaSp (Col.smul a T) (Col.smul b gT) (Col.smul b v)
      = Col.smul (a * b) (p.tOmegaOverSigmaSp T gT v) := by
  unfold PrimitiveEquations.tOmegaOverSigmaSp
  simp only [actEq]
  rw [cumSigmaIntegral_smul_col, wmul_smul_col, cons_zero_smul_col, dropLast_smul_col, add_smul_col,
    zipWith_smul_right_rw (fun (d : K) (x : N) => (1 / d) • x) b b (fun u v => smul_comm _ _ _),
    sub_smul_col, mul_smul_col]

theorem kineticEnergyTendency_act (hg : g.Valid) (hl : OpsLaws p.ops) (aux : Diag N) :
    (actEq g p).kineticEnergyTendency (actDiag g aux)
      = Col.smul (g.wF * g.wF) (p.kineticEnergyTendency aux) := by
  unfold PrimitiveEquations.kineticEnergyTendency
  simp only [actEq, actOps, actDiag]
  rw [zipWith_smul_rw (fun u w : N => ((1 / (1 + 1)) : K) • ((u * u + w * w) * p.ops.sec2Lat))
      g.wV g.wV (g.wV * g.wV)
      (fun u w => by pw hg)]
  exact map_smul_of _ _ _ _
    (fun k => by rw [hl.toModal_smul, hl.laplacian_smul, smul_smul, wL2_mul_wV2 hg, smul_neg]) _

theorem orographyTendency_act (hg : g.Valid) (hl : OpsLaws p.ops) :
    (actEq g p).orographyTendency = (g.wF * g.wF) • p.orographyTendency := by
  simp only [PrimitiveEquations.orographyTendency, actEq, actOps, actPhys, hl.laplacian_smul, smul_smul]
  congr 1
  have := hg.l_ne
  simp only [Scale.wA, Scale.wL2, Scale.wF]
  field_simp

theorem curlAndDivTendenciesWith_act (hg : g.Valid) (hl : OpsLaws p.ops) (aux : Diag N) (rT : List N) :
    (actEq g p).curlAndDivTendenciesWith (actDiag g aux) (Col.smul g.wE rT)
      = (Col.smul (g.wF * g.wF) (p.curlAndDivTendenciesWith aux rT).1,
         Col.smul (g.wF * g.wF) (p.curlAndDivTendenciesWith aux rT).2) := by
  unfold PrimitiveEquations.curlAndDivTendenciesWith
  simp only [actDiag]
  have hva : (actEq g p).includeVerticalAdvection = p.includeVerticalAdvection := rfl
  have hsec : (actEq g p).ops.sec2Lat = p.ops.sec2Lat := rfl
  have htm : (actEq g p).ops.toModal = p.ops.toModal := rfl
  rw [hva, hsec, htm, coriolis_act]
  rw [map_smul_rw (fun z => z + p.coriolisParameter) g.wF g.wF (fun u => (smul_add _ _ _).symm)]
  rw [zipWith_smul_rw (fun vv tv : N => -vv * tv * p.ops.sec2Lat) g.wV g.wF (g.wF * g.wV)
      (fun u v => by pw hg)]
  rw [zipWith_smul_rw (fun uu tv : N => uu * tv * p.ops.sec2Lat) g.wV g.wF (g.wF * g.wV)
      (fun u v => by pw hg)]
  have hsdU : (if p.includeVerticalAdvection = true
        then Col.neg ((actEq g p).verticalTendency (Col.smul g.wF aux.sigmaDotFull) (Col.smul g.wV aux.cosLatU.1))
        else Col.zerosLike (Col.smul g.wV aux.cosLatU.1))
      = Col.smul (g.wF * g.wV) (if p.includeVerticalAdvection = true
        then Col.neg (p.verticalTendency aux.sigmaDotFull aux.cosLatU.1) else Col.zerosLike aux.cosLatU.1) := by
    split
    · rw [verticalTendency_act, neg_smul_col]
    · rw [zerosLike_smul_col, smul_zerosLike]
  have hsdV : (if p.includeVerticalAdvection = true
        then Col.neg ((actEq g p).verticalTendency (Col.smul g.wF aux.sigmaDotFull) (Col.smul g.wV aux.cosLatU.2))
        else Col.zerosLike (Col.smul g.wV aux.cosLatU.2))
      = Col.smul (g.wF * g.wV) (if p.includeVerticalAdvection = true
        then Col.neg (p.verticalTendency aux.sigmaDotFull aux.cosLatU.2) else Col.zerosLike aux.cosLatU.2) := by
    split
    · rw [verticalTendency_act, neg_smul_col]
    · rw [zerosLike_smul_col, smul_zerosLike]
  rw [hsdU, hsdV]
  rw [zipWith_smul_rw (fun sd r : N => (sd + r * aux.cosLatGradLogSp.1) * p.ops.sec2Lat)
      (g.wF * g.wV) g.wE (g.wF * g.wV)
      (fun u v => by pw hg)]
  rw [zipWith_smul_rw (fun sd r : N => (sd + r * aux.cosLatGradLogSp.2) * p.ops.sec2Lat)
      (g.wF * g.wV) g.wE (g.wF * g.wV)
      (fun u v => by pw hg)]
  rw [add_smul_col, add_smul_col]
  rw [map_smul_rw p.ops.toModal (g.wF * g.wV) (g.wF * g.wV) (fun u => hl.toModal_smul _ _),
    map_smul_rw p.ops.toModal (g.wF * g.wV) (g.wF * g.wV) (fun u => hl.toModal_smul _ _)]
  rw [zipWith_smul_rw (fun cu cv : M => -(p.ops.curlCosLat false (cu, cv))) (g.wF * g.wV) (g.wF * g.wV)
      (g.wF * g.wF)
      (fun u v => by
        have := curlCosLat_act (g := g) hl false (g.wF * g.wV) (u, v)
        rw [Prod.smul_mk] at this
        show -((actOps g p.ops).curlCosLat false _) = _
        rw [this, il_mul_wA hg, smul_neg])]
  rw [zipWith_smul_rw (fun cu cv : M => -(p.ops.divCosLat false (cu, cv))) (g.wF * g.wV) (g.wF * g.wV)
      (g.wF * g.wF)
      (fun u v => by
        have := divCosLat_act (g := g) hl false (g.wF * g.wV) (u, v)
        rw [Prod.smul_mk] at this
        show -((actOps g p.ops).divCosLat false _) = _
        rw [this, il_mul_wA hg, smul_neg])]

theorem curlAndDivTendencies_act (hg : g.Valid) (hl : OpsLaws p.ops) (aux : Diag N) :
    (actEq g p).curlAndDivTendencies (actDiag g aux)
      = (Col.smul (g.wF * g.wF) (p.curlAndDivTendencies aux).1,
         Col.smul (g.wF * g.wF) (p.curlAndDivTendencies aux).2) := by
  unfold PrimitiveEquations.curlAndDivTendencies
  have : Col.smul (actEq g p).phys.R (actDiag g aux).temperatureVariation
      = Col.smul g.wE (Col.smul p.phys.R aux.temperatureVariation) := by
    simp only [actEq, actPhys, actDiag, smul_smul_col]
    exact smul_congr (by rw [← wR_mul_θ hg]; ring) _
  rw [this, curlAndDivTendenciesWith_act p hg hl]

theorem tRefVaries_act [BEq K] [LawfulBEq K] (hg : g.Valid) : (actEq g p).tRefVaries = p.tRefVaries := by
  unfold PrimitiveEquations.tRefVaries
  simp only [actEq]
  cases p.referenceTemperature with
  | nil => rfl
  | cons a t =>
    simp only [List.map_cons, List.any_map]
    congr 1
    funext b
    simp only [Function.comp]
    congr 1
    rw [Bool.eq_iff_iff, beq_iff_eq, beq_iff_eq]
    exact ⟨fun h => mul_left_cancel₀ hg.θ_ne h, fun h => by rw [h]⟩

theorem nodalTemperatureVerticalTendency_act [BEq K] [LawfulBEq K] (hg : g.Valid) (aux : Diag N) :
    (actEq g p).nodalTemperatureVerticalTendency (actDiag g aux)
      = Col.smul (g.wF * g.θ) (p.nodalTemperatureVerticalTendency aux) := by
  unfold PrimitiveEquations.nodalTemperatureVerticalTendency
  have hva : (actEq g p).includeVerticalAdvection = p.includeVerticalAdvection := rfl
  simp only [actDiag]
  rw [hva, tRefVaries_act p hg, tRef_act]
  have h1 : (if p.includeVerticalAdvection = true
        then (actEq g p).verticalTendency (Col.smul g.wF aux.sigmaDotFull) (Col.smul g.θ aux.temperatureVariation)
        else Col.zerosLike (Col.smul g.θ aux.temperatureVariation))
      = Col.smul (g.wF * g.θ) (if p.includeVerticalAdvection = true
        then p.verticalTendency aux.sigmaDotFull aux.temperatureVariation
        else Col.zerosLike aux.temperatureVariation) := by
    split
    · rw [verticalTendency_act]
    · rw [zerosLike_smul_col, smul_zerosLike]
  rw [h1]
  split
  · rw [verticalTendency_act, add_smul_col]
  · rfl

theorem horizontalScalarAdvection_act (hg : g.Valid) (hl : OpsLaws p.ops) (a : K) (scalar : List N)
    (aux : Diag N) :
    (actEq g p).horizontalScalarAdvection (Col.smul a scalar) (actDiag g aux)
      = (Col.smul (a * g.wF) (p.horizontalScalarAdvection scalar aux).1,
         Col.smul (a * g.wF) (p.horizontalScalarAdvection scalar aux).2) := by
  unfold PrimitiveEquations.horizontalScalarAdvection
  simp only [actDiag]
  rw [mul_smul_col, mul_smul_col, mul_smul_col]
  rw [zipWith_smul_rw (fun a b : N => -(p.ops.divSecLat a b)) (g.wV * a) (g.wV * a) (a * g.wF)
      (fun u v => by
        show -((actOps g p.ops).divSecLat _ _) = _
        rw [divSecLat_act hl, smul_neg]
        congr 2
        rw [← mul_assoc, il_mul_wV hg, mul_comm])]

theorem nodalTemperatureAdiabaticTendency_act (aux : Diag N) :
    (actEq g p).nodalTemperatureAdiabaticTendency (actDiag g aux)
      = Col.smul (g.θ * g.wF) (p.nodalTemperatureAdiabaticTendency aux) := by
  unfold PrimitiveEquations.nodalTemperatureAdiabaticTendency
  simp only [actDiag]
  rw [tRef_act, add_smul_col, tOmegaOverSigmaSp_act, tOmegaOverSigmaSp_act, add_smul_col]
  have : (actEq g p).phys.kappa = p.phys.kappa := rfl
  rw [this, smul_smul_col, smul_smul_col]
  exact smul_congr (mul_comm _ _) _

theorem nodalLogPressureTendency_act (aux : Diag N) :
    (actEq g p).nodalLogPressureTendency (actDiag g aux) = g.wF • p.nodalLogPressureTendency aux := by
  unfold PrimitiveEquations.nodalLogPressureTendency
  simp only [actDiag]
  have : (actEq g p).vert = p.vert := rfl
  rw [this, sigmaIntegral_smul_col, smul_neg]

theorem tracerTendency_act (hg : g.Valid) (hl : OpsLaws p.ops) (aux : Diag N) (x : List N) :
    (actEq g p).tracerTendency (actDiag g aux) x = Col.smul g.wF (p.tracerTendency aux x) := by
  unfold PrimitiveEquations.tracerTendency
  have hh := horizontalScalarAdvection_act p hg hl 1 x aux
  rw [one_smul_col, one_mul] at hh
  rw [hh]
  have hva : (actEq g p).includeVerticalAdvection = p.includeVerticalAdvection := rfl
  have htm : (actEq g p).ops.toModal = p.ops.toModal := rfl
  rw [hva, htm]
  have h1 : (if p.includeVerticalAdvection = true
        then (actEq g p).verticalTendency (actDiag g aux).sigmaDotFull x else Col.zerosLike x)
      = Col.smul g.wF (if p.includeVerticalAdvection = true
        then p.verticalTendency aux.sigmaDotFull x else Col.zerosLike x) := by
    split
    · simp only [actDiag]; rw [verticalTendency_act_left]
    · rw [smul_zerosLike]
  rw [h1]
  simp only []
  rw [add_smul_col, map_smul_rw p.ops.toModal g.wF g.wF (fun u => hl.toModal_smul _ _), add_smul_col]

theorem clipState_act (hl : OpsLaws p.ops) (s : State M) :
    (actEq g p).clipState (actTend g s) = actTend g (p.clipState s) := by
  unfold PrimitiveEquations.clipState actTend
  have hc : (actEq g p).ops.clip = p.ops.clip := rfl
  simp only [hc]
  have hm : ∀ (k : K) (x : List M), (Col.smul k x).map p.ops.clip = Col.smul k (x.map p.ops.clip) :=
    fun k x => map_smul_of _ _ k k (fun u => hl.clip_smul k u) x
  simp only [hm, hl.clip_smul, State.mk.injEq, true_and]
  simp only [mapTracers, List.map_map]
  congr 1
  funext kv
  simp only [Function.comp, hm]

theorem thermoTendencies_act [BEq K] [LawfulBEq K] (hg : g.Valid) (hl : OpsLaws p.ops) (aux : Diag N)
    (ad : List N) :
    (actEq g p).thermoTendencies (actDiag g aux) (Col.smul (g.θ * g.wF) ad)
      = (Col.smul (g.θ * g.wF) (p.thermoTendencies aux ad).1, g.wF • (p.thermoTendencies aux ad).2.1,
         mapTracers (Col.smul g.wF) (p.thermoTendencies aux ad).2.2) := by
  unfold PrimitiveEquations.thermoTendencies
  have htm : (actEq g p).ops.toModal = p.ops.toModal := rfl
  have hT : (actDiag g aux).temperatureVariation = Col.smul g.θ aux.temperatureVariation := rfl
  have htr : (actDiag g aux).tracers = aux.tracers := rfl
  rw [hT, horizontalScalarAdvection_act p hg hl, nodalTemperatureVerticalTendency_act p hg,
    nodalLogPressureTendency_act, htm, htr]
  simp only []
  rw [smul_congr (mul_comm g.wF g.θ), add_smul_col, add_smul_col,
    map_smul_rw p.ops.toModal (g.θ * g.wF) (g.θ * g.wF) (fun u => hl.toModal_smul _ _), add_smul_col,
    hl.toModal_smul]
  simp only [Prod.mk.injEq, true_and]
  simp only [mapTracers, List.map_map]
  congr 1
  funext kv
  simp only [Function.comp, tracerTendency_act p hg hl]

/-- **dry class**: `explicit_terms` under the other scale is the tendency under the other scale -/
theorem explicitTerms_act [BEq K] [LawfulBEq K] (hg : g.Valid) (hl : OpsLaws p.ops) (c : K) (s : State M) :
    (actEq g p).explicitTerms (actState g c p.ops.oneModal s) = actTend g (p.explicitTerms s) := by
  unfold PrimitiveEquations.explicitTerms
  have h0 : computeDiagnosticState (actEq g p).ops (actEq g p).vert (actState g c p.ops.oneModal s)
      = actDiag g (computeDiagnosticState p.ops p.vert s) := computeDiagnosticState_act hg hl p.vert c s
  simp only [h0]
  rw [curlAndDivTendencies_act p hg hl, kineticEnergyTendency_act p hg hl,
    nodalTemperatureAdiabaticTendency_act, thermoTendencies_act p hg hl, orographyTendency_act p hg hl]
  simp only []
  rw [add_smul_col, addLevel_smul_col, ← clipState_act p hl]
  rfl

end terms
/-! ## implicit terms -/
section implicit
variable {K M N : Type} [Field K] [AddCommGroup M] [Module K M] [CommRing N] [Algebra K N]
variable {g : Scale K} (p : PrimitiveEquations K M N)

theorem geoOffDiag_scaled (k R prev : K) (l : List K) :
    Sigma.geoOffDiag (k * R) prev l = (Sigma.geoOffDiag R prev l).map (k * ·) := by
  induction l generalizing prev with
  | nil => rfl
  | cons c r ih => simp only [Sigma.geoOffDiag, List.map_cons, ih, mul_assoc]

/-- `get_geopotential_weights` is linear in the gas constant -/
theorem geopotentialWeights_scaled (k R : K) (al : List K) :
    Sigma.geopotentialWeights (k * R) al
      = (Sigma.geopotentialWeights R al).map fun row => row.map (k * ·) := by
  induction al with
  | nil => rfl
  | cons a al ih =>
    simp only [Sigma.geopotentialWeights, List.map_cons, ih, geoOffDiag_scaled, List.map_map, mul_assoc]
    refine congrArg _ (List.map_congr_left fun row _ => ?_)
    simp [mul_assoc]

theorem getD_map_mul (k : K) (T : List K) (r : ℕ) : (T.map (k * ·)).getD r 0 = k * T.getD r 0 := by
  simp only [List.getD_eq_getElem?_getD, List.getElem?_map]
  cases T[r]? <;> simp

theorem hEntry_scaled (k : K) (ds T al : List K) (κ : K) (r s : ℕ) :
    Implicit.hEntry ds (T.map (k * ·)) al κ r s = k * Implicit.hEntry ds T al κ r s := by
  simp only [Implicit.hEntry, Implicit.hK, Implicit.hK0, getD_map_mul]
  split_ifs <;> ring

/-- `get_temperature_implicit_weights` is linear in the reference temperature -/
theorem hMatrix_scaled (k : K) (ds T al : List K) (κ : K) :
    Implicit.hMatrix ds (T.map (k * ·)) al κ
      = (Implicit.hMatrix ds T al κ).map fun row => row.map (k * ·) := by
  simp only [Implicit.hMatrix, List.map_map]
  apply List.map_congr_left
  intro r _
  simp only [Function.comp, List.map_map]
  apply List.map_congr_left
  intro s _
  simp only [Function.comp, hEntry_scaled]

theorem negMat_scaled (k : K) (m : List (List K)) :
    Implicit.negMat (m.map fun row => row.map (k * ·)) = (Implicit.negMat m).map fun row => row.map (k * ·) := by
  simp only [Implicit.negMat, List.map_map]
  apply List.map_congr_left
  intro r _
  simp only [Function.comp, List.map_map]
  apply List.map_congr_left
  intro s _
  simp only [Function.comp, mul_neg]

theorem geopotentialDiff_act {V : Type} [AddCommGroup V] [Module K V] (a : K) (x : List V) :
    (actEq g p).geopotentialDiff (Col.smul a x) = Col.smul (g.wR * a) (p.geopotentialDiff x) := by
  unfold PrimitiveEquations.geopotentialDiff
  simp only [actEq, actPhys]
  rw [geopotentialWeights_scaled, matvec_scaled_matrix, matvec_smul_col, smul_smul_col]

theorem temperatureImplicit_act (a : K) (d : List M) :
    (actEq g p).temperatureImplicit (Col.smul a d) = Col.smul (g.θ * a) (p.temperatureImplicit d) := by
  unfold PrimitiveEquations.temperatureImplicit PrimitiveEquations.temperatureImplicitWeights
  simp only [actEq, actPhys]
  rw [hMatrix_scaled, negMat_scaled, matvec_scaled_matrix, matvec_smul_col, smul_smul_col]

theorem implicitTerms_act (hg : g.Valid) (hl : OpsLaws p.ops) (c : K) (s : State M) :
    (actEq g p).implicitTerms (actState g c p.ops.oneModal s) = actTend g (p.implicitTerms s) := by
  unfold PrimitiveEquations.implicitTerms
  simp only [actState, actTend]
  rw [geopotentialDiff_act, temperatureImplicit_act, zerosLike_smul_col]
  have hv : (actEq g p).vert = p.vert := rfl
  rw [hv, sigmaIntegral_smul_col]
  simp only [State.mk.injEq]
  refine ⟨(smul_zerosLike _ _).symm, ?_, trivial, (smul_neg _ _).symm, ?_⟩
  · -- divergence: the laplacian kills the constant added to `ln p_s`
    simp only [Col.add, List.map_zipWith, actEq, actPhys, actOps, List.zipWith_map_right]
    rw [zipWith_smul_left_rw
      (fun (a : M) (t : K) => -(p.ops.laplacian (a + (p.phys.R * t) • s.logSurfacePressure)))
      (g.wR * g.θ) (g.wF * g.wF)]
    intro u t
    simp only [hl.laplacian_add, hl.laplacian_smul, hl.laplacian_one, smul_zero, add_zero, smul_add]
    pw hg
  · simp only [mapTracers, List.map_map]
    apply List.map_congr_left
    intro kv _
    simp only [Function.comp, smul_zerosLike]

end implicit

end Dino.Scaling
