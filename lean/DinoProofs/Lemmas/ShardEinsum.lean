import Dino.ShardEinsum
import Mathlib.Algebra.BigOperators.Group.List.Basic
import Mathlib.Algebra.Ring.Defs
import Mathlib.Data.List.Basic
import Mathlib.Data.List.TakeWhile
import Mathlib.Tactic.Ring

/-! Lemmas about the string / index logic of `sharded_einsum` (`Dino.ShardEinsum`, C07). -/
namespace Dino.ShardEinsum

/-! ## the denotation does not depend on the argument order -/

section denot
variable {K : Type} [CommSemiring K]

theorem einsumAt_swap (dims : Char → Nat) (A B : List Nat → K) (l r : List Char) :
    ∀ (cs : List Char) (env : Char → Nat),
      einsumAt dims A B l r cs env = einsumAt dims B A r l cs env
  | [], env => by simp only [einsumAt]; exact mul_comm _ _
  | c :: cs, env => by
    simp only [einsumAt]
    congr 1
    apply List.map_congr_left
    intro v _
    exact einsumAt_swap dims A B l r cs _

theorem summedLetters_swap (l r o : List Char) : summedLetters l r o = summedLetters r l o := by
  unfold summedLetters
  congr 1
  funext c
  rw [Bool.or_comm]

theorem mem_summedLetters (l r o : List Char) (c : Char) (hc : c.toNat < 128) :
    c ∈ summedLetters l r o ↔ (c ∈ l ∨ c ∈ r) ∧ c ∉ o := by
  unfold summedLetters
  rw [List.mem_filter]
  have : c ∈ (List.range 128).map Char.ofNat :=
    List.mem_map.2 ⟨c.toNat, List.mem_range.2 hc, Char.ofNat_toNat c⟩
  simp [this]

end denot

/-! ## the selection loops -/

/-- the condition of a selection loop as a total boolean (an exception counts as "not selected") -/
def keepB (keep : Char → Res Bool) (c : Char) : Bool :=
  match keep c with
  | .ok b => b
  | .error _ => false

theorem candidates_ok (keep : Char → Res Bool) : ∀ (l cs : List Char),
    candidates keep l = .ok cs → cs = l.filter (keepB keep) ∧ ∀ c ∈ l, ∃ b, keep c = .ok b
  | [], cs, h => by
    simp only [candidates, Except.ok.injEq] at h
    subst h
    simp
  | a :: t, cs, h => by
    simp only [candidates] at h
    cases hk : keep a with
    | error e => rw [hk] at h; cases h
    | ok b =>
      rw [hk] at h
      cases ht : candidates keep t with
      | error e => rw [ht] at h; cases h
      | ok rest =>
        rw [ht] at h
        obtain ⟨h1, h2⟩ := candidates_ok keep t rest ht
        have hcs : cs = if b then a :: rest else rest := by
          cases h; rfl
        constructor
        · rw [hcs, List.filter_cons, h1]
          simp only [keepB, hk]
        · intro c hc
          rcases List.mem_cons.1 hc with rfl | hc
          · exact ⟨b, hk⟩
          · exact h2 c hc

theorem single_ok (cs : List Char) (c : Char) (h : single cs = .ok c) : cs = [c] := by
  unfold single at h
  split at h
  · cases h; rfl
  · cases h

/-- a successful selection returns the unique letter of `l` (occurring once) that satisfies the condition -/
theorem select_ok (keep : Char → Res Bool) (l : List Char) (c : Char)
    (h : (do let cs ← candidates keep l; single cs) = .ok c) :
    c ∈ l ∧ keep c = .ok true ∧ l.count c = 1 ∧ ∀ c' ∈ l, keep c' = .ok true → c' = c := by
  cases hc : candidates keep l with
  | error e => rw [hc] at h; cases h
  | ok cs =>
    rw [hc] at h
    have hs : cs = [c] := single_ok cs c h
    obtain ⟨hf, hall⟩ := candidates_ok keep l cs hc
    rw [hs] at hf
    have hmem : c ∈ l.filter (keepB keep) := by rw [← hf]; simp
    obtain ⟨hcl, hkb⟩ := List.mem_filter.1 hmem
    have hk : keep c = .ok true := by
      obtain ⟨b, hb⟩ := hall c hcl
      simp only [keepB, hb] at hkb
      rw [hb, hkb]
    refine ⟨hcl, hk, ?_, ?_⟩
    · have : (l.filter (keepB keep)).count c = 1 := by rw [← hf]; simp
      rwa [List.count_filter hkb] at this
    · intro c' hc' hk'
      have : c' ∈ l.filter (keepB keep) := List.mem_filter.2 ⟨hc', by simp [keepB, hk']⟩
      rw [← hf] at this
      simpa using this

theorem specAt_ok (spec : List (Option String)) (i : Nat) (v : Option String) :
    specAt spec i = .ok v ↔ spec[i]? = some v := by
  unfold specAt
  cases spec[i]? with
  | none => simp [indexError]
  | some w => simp

theorem keepReduce_true (r o : List Char) (spec : List (Option String)) (c : Char) :
    keepReduce r o spec c = .ok true ↔ c ∉ o ∧ c ∈ r ∧ ∃ name, spec[r.idxOf c]? = some (some name) := by
  unfold keepReduce
  by_cases h : (!o.contains c && r.contains c) = true
  · rw [if_pos h]
    simp only [Bool.and_eq_true, Bool.not_eq_true', decide_eq_false_iff_not,
      List.contains_eq_mem, decide_eq_true_eq] at h
    cases hs : spec[r.idxOf c]? with
    | none => simp [specAt, hs, indexError, bind, Except.bind]
    | some v =>
      cases v with
      | none => simp [specAt, hs, bind, Except.bind, pure, Except.pure]
      | some name => simp [specAt, hs, bind, Except.bind, pure, Except.pure, h]
  · rw [if_neg h]
    simp only [Bool.and_eq_true, Bool.not_eq_true', List.contains_eq_mem, decide_eq_false_iff_not,
      decide_eq_true_eq, not_and] at h
    simp only [pure, Except.pure, Except.ok.injEq, Bool.false_eq_true, false_iff, not_and, not_exists]
    intro h1 h2
    exact absurd h2 (h h1)

theorem keepTransfer_true (r o : List Char) (spec : List (Option String)) (c : Char) :
    keepTransfer r o spec c = .ok true ↔ c ∉ r ∧ c ∈ o ∧ ∃ name, spec[o.idxOf c]? = some (some name) := by
  unfold keepTransfer
  by_cases h : (!r.contains c && o.contains c) = true
  · rw [if_pos h]
    simp only [Bool.and_eq_true, Bool.not_eq_true', decide_eq_false_iff_not,
      List.contains_eq_mem, decide_eq_true_eq] at h
    cases hs : spec[o.idxOf c]? with
    | none => simp [specAt, hs, indexError, bind, Except.bind]
    | some v =>
      cases v with
      | none => simp [specAt, hs, bind, Except.bind, pure, Except.pure]
      | some name => simp [specAt, hs, bind, Except.bind, pure, Except.pure, h]
  · rw [if_neg h]
    simp only [Bool.and_eq_true, Bool.not_eq_true', List.contains_eq_mem, decide_eq_false_iff_not,
      decide_eq_true_eq, not_and] at h
    simp only [pure, Except.pure, Except.ok.injEq, Bool.false_eq_true, false_iff, not_and, not_exists]
    intro h1 h2
    exact absurd h2 (h h1)

/-! ## `str.split` on well-formed subscripts -/

theorem splitArrow_ne_nil : ∀ s, splitArrow s ≠ []
  | [] => by simp [splitArrow]
  | c :: t => by
    unfold splitArrow
    split
    · simp
    · simp
    · split <;> simp

theorem splitArrow_cons_ne (c : Char) (t : List Char) (hc : c ≠ '-') :
    ∃ h rest, splitArrow t = h :: rest ∧ splitArrow (c :: t) = (c :: h) :: rest := by
  cases hs : splitArrow t with
  | nil => exact absurd hs (splitArrow_ne_nil t)
  | cons h rest =>
    refine ⟨h, rest, rfl, ?_⟩
    rw [splitArrow]
    · rw [hs]
    · intro t' heq _
      exact hc heq

theorem splitArrow_word (w : List Char) (hw : ∀ c ∈ w, c ≠ '-') (t : List Char) :
    ∃ h rest, splitArrow t = h :: rest ∧ splitArrow (w ++ t) = (w ++ h) :: rest := by
  induction w with
  | nil =>
    cases hs : splitArrow t with
    | nil => exact absurd hs (splitArrow_ne_nil t)
    | cons h rest => exact ⟨h, rest, rfl, by simpa using hs⟩
  | cons c w ih =>
    obtain ⟨h, rest, h1, h2⟩ := ih (fun c' hc' => hw c' (by simp [hc']))
    obtain ⟨h', rest', h3, h4⟩ := splitArrow_cons_ne c (w ++ t) (hw c (by simp))
    rw [h2] at h3
    cases h3
    exact ⟨h, rest, h1, by simpa using h4⟩

theorem splitComma_ne_nil : ∀ s, splitComma s ≠ []
  | [] => by simp [splitComma]
  | c :: t => by
    unfold splitComma
    split
    · simp
    · simp
    · split <;> simp

theorem splitComma_cons_ne (c : Char) (t : List Char) (hc : c ≠ ',') :
    ∃ h rest, splitComma t = h :: rest ∧ splitComma (c :: t) = (c :: h) :: rest := by
  cases hs : splitComma t with
  | nil => exact absurd hs (splitComma_ne_nil t)
  | cons h rest =>
    refine ⟨h, rest, rfl, ?_⟩
    rw [splitComma]
    · rw [hs]
    · intro heq
      exact hc heq

theorem splitComma_word (w : List Char) (hw : ∀ c ∈ w, c ≠ ',') (t : List Char) :
    ∃ h rest, splitComma t = h :: rest ∧ splitComma (w ++ t) = (w ++ h) :: rest := by
  induction w with
  | nil =>
    cases hs : splitComma t with
    | nil => exact absurd hs (splitComma_ne_nil t)
    | cons h rest => exact ⟨h, rest, rfl, by simpa using hs⟩
  | cons c w ih =>
    obtain ⟨h, rest, h1, h2⟩ := ih (fun c' hc' => hw c' (by simp [hc']))
    obtain ⟨h', rest', h3, h4⟩ := splitComma_cons_ne c (w ++ t) (hw c (by simp))
    rw [h2] at h3
    cases h3
    exact ⟨h, rest, h1, by simpa using h4⟩

/-- a list of word characters -/
def Word (w : List Char) : Prop := ∀ c ∈ w, isWord c = true

theorem isWord_ne (c : Char) (h : isWord c = true) : c ≠ '-' ∧ c ≠ ',' ∧ c ≠ '>' ∧ c ≠ '.' := by
  refine ⟨?_, ?_, ?_, ?_⟩ <;> (rintro rfl; revert h; decide)

theorem splitArrow_wordOnly (w : List Char) (hw : Word w) : splitArrow w = [w] := by
  obtain ⟨h, rest, h1, h2⟩ := splitArrow_word w (fun c hc => (isWord_ne c (hw c hc)).1) []
  simp only [splitArrow, List.cons.injEq] at h1
  obtain ⟨rfl, rfl⟩ := h1
  simpa using h2

theorem splitComma_wordOnly (w : List Char) (hw : Word w) : splitComma w = [w] := by
  obtain ⟨h, rest, h1, h2⟩ := splitComma_word w (fun c hc => (isWord_ne c (hw c hc)).2.1) []
  simp only [splitComma, List.cons.injEq] at h1
  obtain ⟨rfl, rfl⟩ := h1
  simpa using h2

theorem reversedSubscripts_join (l r o : List Char) (hl : Word l) (hr : Word r) (ho : Word o) :
    reversedSubscripts (joinSubscripts l r o) = .ok (joinSubscripts r l o) := by
  have hins : ∀ c ∈ l ++ ',' :: r, c ≠ '-' := by
    intro c hc
    rcases List.mem_append.1 hc with h | h
    · exact (isWord_ne c (hl c h)).1
    · rcases List.mem_cons.1 h with rfl | h
      · decide
      · exact (isWord_ne c (hr c h)).1
  have hA : splitArrow (joinSubscripts l r o) = [l ++ ',' :: r, o] := by
    obtain ⟨h, rest, h1, h2⟩ := splitArrow_word (l ++ ',' :: r) hins ('-' :: '>' :: o)
    rw [splitArrow, splitArrow_wordOnly o ho] at h1
    simp only [List.cons.injEq] at h1
    obtain ⟨rfl, rfl⟩ := h1
    unfold joinSubscripts
    rw [show l ++ ',' :: r ++ '-' :: '>' :: o = (l ++ ',' :: r) ++ '-' :: '>' :: o by simp, h2]
    simp
  have hC : splitComma (l ++ ',' :: r) = [l, r] := by
    obtain ⟨h, rest, h1, h2⟩ := splitComma_word l (fun c hc => (isWord_ne c (hl c hc)).2.1) (',' :: r)
    rw [splitComma, splitComma_wordOnly r hr] at h1
    simp only [List.cons.injEq] at h1
    obtain ⟨rfl, rfl⟩ := h1
    rw [h2]
    simp
  unfold reversedSubscripts
  rw [hA]
  simp only [hC]

/-! ## `_parse_einsum_subscripts` accepts exactly `word,word->word` -/

theorem hasEllipsis_mem : ∀ s, hasEllipsis s = true → '.' ∈ s
  | [] => by simp [hasEllipsis]
  | c :: t => by
    intro h
    unfold hasEllipsis at h
    split at h
    · rename_i heq
      cases heq
      simp
    · rename_i heq
      cases heq
      exact List.mem_cons_of_mem _ (hasEllipsis_mem _ h)
    · cases h

theorem not_mem_join (l r o : List Char) (hl : Word l) (hr : Word r) (ho : Word o) :
    '.' ∉ joinSubscripts l r o := by
  unfold joinSubscripts
  intro h
  simp only [List.append_assoc, List.cons_append, List.mem_append, List.mem_cons] at h
  have e : isWord '.' = false := by decide
  rcases h with h | h | h | h | h | h
  · have := hl _ h; rw [e] at this; cases this
  · revert h; decide
  · have := hr _ h; rw [e] at this; cases this
  · revert h; decide
  · revert h; decide
  · have := ho _ h; rw [e] at this; cases this

theorem parseSubscripts_join (l r o : List Char) (hl : Word l) (hr : Word r) (ho : Word o)
    (hl0 : l ≠ []) (hr0 : r ≠ []) (ho0 : o ≠ []) :
    parseSubscripts (joinSubscripts l r o) = .ok (l, r, o) := by
  have he : hasEllipsis (joinSubscripts l r o) = false := by
    cases h : hasEllipsis (joinSubscripts l r o) with
    | false => rfl
    | true => exact absurd (hasEllipsis_mem _ h) (not_mem_join l r o hl hr ho)
  have hcomma : ¬ isWord ',' = true := by decide
  have hdash : ¬ isWord '-' = true := by decide
  unfold parseSubscripts
  rw [he]
  simp only [Bool.false_eq_true, if_false]
  have e1 : joinSubscripts l r o = l ++ (',' :: (r ++ '-' :: '>' :: o)) := by simp [joinSubscripts]
  rw [e1, List.takeWhile_append_of_pos hl, List.dropWhile_append_of_pos hl,
    List.takeWhile_cons_of_neg hcomma, List.dropWhile_cons_of_neg hcomma]
  simp only [List.append_nil]
  rw [List.takeWhile_append_of_pos hr, List.dropWhile_append_of_pos hr,
    List.takeWhile_cons_of_neg hdash, List.dropWhile_cons_of_neg hdash]
  simp only [List.append_nil]
  have : o.all isWord = true := List.all_eq_true.2 ho
  simp [this, hl0, hr0, ho0]

theorem parseSubscripts_ok (s l r o : List Char) (h : parseSubscripts s = .ok (l, r, o)) :
    s = joinSubscripts l r o ∧ Word l ∧ Word r ∧ Word o ∧ l ≠ [] ∧ r ≠ [] ∧ o ≠ [] := by
  unfold parseSubscripts at h
  split at h
  · cases h
  · have hs := (List.takeWhile_append_dropWhile (p := isWord) (l := s)).symm
    split at h
    · rename_i rest hd
      have hrest := (List.takeWhile_append_dropWhile (p := isWord) (l := rest)).symm
      split at h
      · rename_i o' hd2
        split at h
        · cases h
        · rename_i hcond
          simp only [Except.ok.injEq, Prod.mk.injEq] at h
          obtain ⟨rfl, rfl, rfl⟩ := h
          simp only [Bool.or_eq_true, List.isEmpty_iff, Bool.not_eq_true', not_or, Bool.not_eq_false] at hcond
          obtain ⟨⟨⟨h1, h2⟩, h3⟩, h4⟩ := hcond
          refine ⟨?_, fun c hc => List.mem_takeWhile_imp hc, fun c hc => List.mem_takeWhile_imp hc,
            List.all_eq_true.1 h4, h1, h2, h3⟩
          unfold joinSubscripts
          rw [hd2] at hrest
          rw [hd] at hs
          rw [List.append_assoc, List.cons_append, ← hrest]
          exact hs
      · cases h
    · cases h

end Dino.ShardEinsum
