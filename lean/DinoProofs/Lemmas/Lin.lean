import Dino.Lin
import Mathlib.Algebra.BigOperators.Group.Finset.Basic
import Mathlib.Algebra.BigOperators.Ring.Finset
import Mathlib.Algebra.BigOperators.Group.Finset.Sigma
import Mathlib.Algebra.BigOperators.Group.List.Basic
import Mathlib.Tactic.Ring

/-! Entry formulas (finite sums over indices) for the list-based linear algebra of `Dino.Lin`. -/
namespace Dino.Lin
open Finset
variable {K : Type} [CommRing K]

/-- entry `i` of a vector, `0` outside -/
def ent (v : List K) (i : Nat) : K := v.getD i 0
/-- entry `(i, j)` of a matrix, `0` outside -/
def ent2 (a : List (List K)) (i j : Nat) : K := (a.getD i []).getD j 0
def ent3 (a : List (List (List K))) (i j k : Nat) : K := ((a.getD i []).getD j []).getD k 0

@[simp] theorem ent_nil (i : Nat) : ent ([] : List K) i = 0 := by simp [ent]
@[simp] theorem ent_cons_zero (a : K) (t : List K) : ent (a :: t) 0 = a := by simp [ent]
@[simp] theorem ent_cons_succ (a : K) (t : List K) (i : Nat) : ent (a :: t) (i + 1) = ent t i := by
  simp [ent]

theorem ent_of_length_le (v : List K) (i : Nat) (h : v.length ≤ i) : ent v i = 0 := by
  simp [ent, List.getElem?_eq_none h]

theorem sum_eq_sum_range (v : List K) (n : Nat) (h : v.length ≤ n) :
    v.sum = ∑ i ∈ range n, ent v i := by
  induction v generalizing n with
  | nil => simp
  | cons a t ih =>
    cases n with
    | zero => simp at h
    | succ n =>
      rw [List.sum_cons, Finset.sum_range_succ', ih n (by simpa using h)]
      simp [add_comm]

theorem ent_zipWith_mul (a b : List K) (i : Nat) :
    ent (List.zipWith (· * ·) a b) i = ent a i * ent b i := by
  induction a generalizing b i with
  | nil => simp
  | cons x t ih =>
    cases b with
    | nil => simp
    | cons y u =>
      cases i with
      | zero => simp
      | succ i => simp [ih]

theorem dotv_eq_sum (a b : List K) (n : Nat) (h : min a.length b.length ≤ n) :
    dotv a b = ∑ i ∈ range n, ent a i * ent b i := by
  unfold dotv
  rw [sum_eq_sum_range _ n (by simpa using h)]
  apply Finset.sum_congr rfl
  intro i _
  exact ent_zipWith_mul a b i

theorem ent_zerosN (n i : Nat) : ent (zerosN n : List K) i = 0 := by
  simp [ent, zerosN, List.getD_eq_getElem?_getD, List.getElem?_replicate]
  split <;> rfl

theorem ent_vadd (a b : List K) (i : Nat) (h : a.length = b.length) :
    ent (vadd a b) i = ent a i + ent b i := by
  unfold vadd
  induction a generalizing b i with
  | nil => cases b <;> simp_all
  | cons x t ih =>
    cases b with
    | nil => simp at h
    | cons y u =>
      cases i with
      | zero => simp
      | succ i => simp [ih u i (by simpa using h)]

theorem ent_scale (c : K) (v : List K) (i : Nat) : ent (scale c v) i = c * ent v i := by
  unfold scale
  induction v generalizing i with
  | nil => simp
  | cons x t ih =>
    cases i with
    | zero => simp
    | succ i => simp [ih]

@[simp] theorem vecMat_length (c : List K) (rows : List (List K)) (n : Nat)
    (h : ∀ r ∈ rows, r.length = n) : (vecMat c rows n).length = n := by
  induction c generalizing rows with
  | nil => simp [vecMat, zerosN]
  | cons x t ih =>
    cases rows with
    | nil => simp [vecMat, zerosN]
    | cons r rs =>
      simp only [vecMat, vadd, scale, List.length_zipWith, List.length_map]
      rw [ih rs (fun r' hr' => h r' (List.mem_cons_of_mem _ hr')), h r (List.mem_cons_self ..)]
      simp

/-- `(Σ_m c[m] • rows[m])[j] = Σ_m c[m]·rows[m][j]` -/
theorem ent_vecMat (c : List K) (rows : List (List K)) (n j k : Nat)
    (h : ∀ r ∈ rows, r.length = n) (hk : min c.length rows.length ≤ k) :
    ent (vecMat c rows n) j = ∑ m ∈ range k, ent c m * ent2 rows m j := by
  induction c generalizing rows k with
  | nil => simp [vecMat, ent_zerosN]
  | cons x t ih =>
    cases rows with
    | nil => simp [vecMat, ent_zerosN, ent2]
    | cons r rs =>
      cases k with
      | zero => simp at hk
      | succ k =>
        have hrs : ∀ r' ∈ rs, r'.length = n := fun r' hr' => h r' (List.mem_cons_of_mem _ hr')
        rw [vecMat, ent_vadd _ _ _ (by simp [scale, vecMat_length t rs n hrs, h r (List.mem_cons_self ..)]),
          ent_scale, ih rs k hrs (by simpa using hk), Finset.sum_range_succ']
        simp [ent2, ent, add_comm]


theorem ent2_eq_ent (a : List (List K)) (i j : Nat) : ent2 a i j = ent (a.getD i []) j := rfl

theorem getD_map_nil {α β : Type} (f : α → List β) (a : List α) (i : Nat) (d : α) (hd : f d = []) :
    (a.map f).getD i [] = f (a.getD i d) := by
  simp only [List.getD_eq_getElem?_getD, List.getElem?_map]
  cases a[i]? <;> simp [hd]

theorem ent2_matMul (a b : List (List K)) (n i j k : Nat)
    (h : ∀ r ∈ b, r.length = n) (hk : b.length ≤ k) :
    ent2 (matMul a b n) i j = ∑ m ∈ range k, ent2 a i m * ent2 b m j := by
  unfold matMul
  by_cases hi : i < a.length
  · rw [ent2_eq_ent, List.getD_eq_getElem?_getD, List.getElem?_map, List.getElem?_eq_getElem hi]
    simp only [Option.map_some, Option.getD_some]
    rw [ent_vecMat _ _ _ _ k h (by omega)]
    simp [ent2, ent, List.getD_eq_getElem?_getD, List.getElem?_eq_getElem hi]
  · have hi' : a.length ≤ i := by omega
    simp [ent2, List.getD_eq_getElem?_getD, List.getElem?_eq_none hi', List.getElem?_map]

theorem ent_col (a : List (List K)) (c i : Nat) : ent (col a c) i = ent2 a i c := by
  unfold col ent ent2
  simp only [List.getD_eq_getElem?_getD, List.getElem?_map]
  cases a[i]? <;> simp

theorem col_length (a : List (List K)) (c : Nat) : (col a c).length = a.length := by simp [col]

end Dino.Lin
