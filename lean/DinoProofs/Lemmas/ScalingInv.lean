import DinoProofs.Lemmas.ScalingTerms

/-!
# `implicit_inverse` under a change of the non-dimensionalisation

`PrimitiveEquations.implicit_inverse(state, η)` multiplies the stacked vector `(δ, T', ln p_s)` of every
total wavenumber by the inverse of `1 - η·L`.  Under the other scale `L' = T·L·S⁻¹` with
`S = diag(wF, …, θ, …, 1)` (the state weights) and `T = S / t`, so with `η' = t·η`
`1 - η'L' = S (1 - ηL) S⁻¹` and the inverse is `S · inv · S⁻¹` (`Dino.Scaling.actInverse`).  The additive
constant of `ln p_s` is a fixed point of the inverse (the implicit terms annihilate it).

`numpy.linalg.inv` is external; the relation between the two inverses (`InvScaled`, equivalently
`inv' l = actInverse g n (inv l)`) and the fixed point (`ConstMode`) are named hypotheses, validated on the
matrices that the real code inverts under two scales (harness ops `scl inv`, probe `inverse-const-mode`).
-/
namespace Dino.Scaling
open Dino Dino.Dynamics
set_option linter.unusedSectionVars false
set_option linter.unusedSimpArgs false

section lists
variable {K V : Type} [Field K] [AddCommGroup V] [Module K V]

theorem add4 : ∀ (a b c d : List V),
    Col.add (Col.add a b) (Col.add c d) = Col.add (Col.add a c) (Col.add b d)
  | [], _, _, _ => by simp [Col.add]
  | _ :: _, [], _, _ => by simp [Col.add]
  | _ :: _, _ :: _, [], _ => by simp [Col.add]
  | _ :: _, _ :: _, _ :: _, [] => by simp [Col.add]
  | x :: a, y :: b, z :: c, w :: d => by
    have ih := add4 a b c d
    simp only [Col.add, List.zipWith_cons_cons, List.cons.injEq] at ih ⊢
    exact ⟨add_add_add_comm x y z w, ih⟩

/-- summing two families of columns term by term -/
theorem foldl_add_map {ι : Type} (f g : ι → List V) : ∀ (ls : List ι) (z1 z2 : List V),
    (ls.map fun l => Col.add (f l) (g l)).foldl Col.add (Col.add z1 z2)
      = Col.add ((ls.map f).foldl Col.add z1) ((ls.map g).foldl Col.add z2)
  | [], _, _ => by simp
  | l :: ls, z1, z2 => by
    simp only [List.map_cons, List.foldl_cons]
    rw [add4, foldl_add_map f g ls]

theorem foldl_smul_map {ι : Type} (k : K) (f : ι → List V) : ∀ (ls : List ι) (z : List V),
    (ls.map fun l => Col.smul k (f l)).foldl Col.add (Col.smul k z)
      = Col.smul k ((ls.map f).foldl Col.add z)
  | [], _ => by simp
  | l :: ls, z => by
    simp only [List.map_cons, List.foldl_cons]
    rw [add_smul_col, foldl_smul_map k f ls]

theorem zeros_add_zeros (n : ℕ) : Col.add (Col.zeros n : List V) (Col.zeros n) = Col.zeros n := by
  simp [Col.add, Col.zeros, List.zipWith_replicate]

theorem smul_zeros (k : K) (n : ℕ) : Col.smul k (Col.zeros n : List V) = Col.zeros n := by
  simp [Col.smul, Col.zeros]

/-- a matrix applied to a one-entry column is linear in the entry, without any shape condition -/
theorem matvec_single_add (a : List (List K)) (x y : V) :
    Col.matvec a [x + y] = Col.add (Col.matvec a [x]) (Col.matvec a [y]) := by
  simp only [Col.matvec, Col.add, List.zipWith_map_left, List.zipWith_map_right, List.zipWith_self,
    List.map_map]
  apply List.map_congr_left
  intro row _
  cases row with
  | nil => simp [Col.wmul]
  | cons r t => simp [Col.wmul, smul_add]

theorem matvec_single_smul (a : List (List K)) (c : K) (x : V) :
    Col.matvec a [c • x] = Col.smul c (Col.matvec a [x]) := by
  have := matvec_smul_col a c [x]
  simpa [Col.smul] using this

end lists

theorem add_zeros_of_length {V : Type} [AddCommGroup V] (x : List V) (n : ℕ) (h : x.length = n) :
    Col.add x (Col.zeros n) = x := by
  subst h
  induction x with
  | nil => rfl
  | cons a t ih =>
    simp only [Col.add, Col.zeros, List.length_cons, List.replicate_succ, List.zipWith_cons_cons, add_zero] at ih ⊢
    rw [ih]

section inv
variable {K M N : Type} [Field K] [AddCommGroup M] [Module K M] [CommRing N] [Algebra K N]
variable {g : Scale K} (p : PrimitiveEquations K M N)

/-- linearity of the projection on one total wavenumber -/
structure ProjLaws (h : HOps K M N) : Prop where
  lproj_smul : ∀ l (c : K) x, h.lproj l (c • x) = c • h.lproj l x
  lproj_add : ∀ l x y, h.lproj l (x + y) = h.lproj l x + h.lproj l y

/-- `matvecPerWavenumber` does not see the radius -/
theorem mv_actEq (a : ℕ → List (List K)) (rows : ℕ) (x : List M) :
    (actEq g p).matvecPerWavenumber a rows x = p.matvecPerWavenumber a rows x := rfl

theorem mv_smul (hp : ProjLaws p.ops) (a : ℕ → List (List K)) (rows : ℕ) (k : K) (x : List M) :
    p.matvecPerWavenumber a rows (Col.smul k x) = Col.smul k (p.matvecPerWavenumber a rows x) := by
  unfold PrimitiveEquations.matvecPerWavenumber
  rw [← foldl_smul_map, smul_zeros]
  congr 1
  apply List.map_congr_left
  intro l _
  rw [← matvec_smul_col]
  congr 1
  simp only [Col.smul, List.map_map]
  apply List.map_congr_left
  intro u _
  exact hp.lproj_smul l k u

theorem mv_scaled (a : ℕ → List (List K)) (rows : ℕ) (k : K) (x : List M) :
    p.matvecPerWavenumber (fun l => scaleMat k (a l)) rows x
      = Col.smul k (p.matvecPerWavenumber a rows x) := by
  unfold PrimitiveEquations.matvecPerWavenumber
  rw [← foldl_smul_map, smul_zeros]
  congr 1
  apply List.map_congr_left
  intro l _
  exact matvec_scaled_matrix k (a l) _

/-- the column of `ln p_s` shifted by a constant -/
theorem mv_single_add_const (hp : ProjLaws p.ops) (a : ℕ → List (List K)) (rows : ℕ) (c : K) (x one : M) :
    p.matvecPerWavenumber a rows [x + c • one]
      = Col.add (p.matvecPerWavenumber a rows [x]) (Col.smul c (p.matvecPerWavenumber a rows [one])) := by
  unfold PrimitiveEquations.matvecPerWavenumber
  rw [← foldl_smul_map, smul_zeros]
  conv_lhs => rw [← zeros_add_zeros rows]
  rw [← foldl_add_map]
  congr 1
  apply List.map_congr_left
  intro l _
  simp only [List.map_cons, List.map_nil, hp.lproj_add, hp.lproj_smul]
  rw [matvec_single_add, matvec_single_smul]

/-- the nine blocks of the inverse under the other scale (`η' = t·η`):
 `inv' = S · inv · S⁻¹`, `S = diag(wF … , θ … , 1)` -/
structure InvScaled (g : Scale K) (n : ℕ) (inv inv' : ℕ → List (List K)) : Prop where
  dd : ∀ l, Implicit.block (inv' l) 0 n 0 n = Implicit.block (inv l) 0 n 0 n
  dt : ∀ l, Implicit.block (inv' l) 0 n n n = scaleMat (g.wF / g.θ) (Implicit.block (inv l) 0 n n n)
  dp : ∀ l, Implicit.block (inv' l) 0 n (2 * n) 1 = scaleMat g.wF (Implicit.block (inv l) 0 n (2 * n) 1)
  td : ∀ l, Implicit.block (inv' l) n n 0 n = scaleMat (g.θ / g.wF) (Implicit.block (inv l) n n 0 n)
  tt : ∀ l, Implicit.block (inv' l) n n n n = Implicit.block (inv l) n n n n
  tp : ∀ l, Implicit.block (inv' l) n n (2 * n) 1 = scaleMat g.θ (Implicit.block (inv l) n n (2 * n) 1)
  pd : ∀ l, Implicit.block (inv' l) (2 * n) 1 0 n = scaleMat (1 / g.wF) (Implicit.block (inv l) (2 * n) 1 0 n)
  pt : ∀ l, Implicit.block (inv' l) (2 * n) 1 n n = scaleMat (1 / g.θ) (Implicit.block (inv l) (2 * n) 1 n n)
  pp : ∀ l, Implicit.block (inv' l) (2 * n) 1 (2 * n) 1 = Implicit.block (inv l) (2 * n) 1 (2 * n) 1

/-- a uniform shift of `ln p_s` is a fixed point of the implicit inverse and does not reach `δ`, `T'`
 (the implicit terms annihilate it: `implicitTerms_const`) -/
structure ConstMode (p : PrimitiveEquations K M N) (n : ℕ) (inv : ℕ → List (List K)) : Prop where
  dp : p.matvecPerWavenumber (fun l => Implicit.block (inv l) 0 n (2 * n) 1) n [p.ops.oneModal] = Col.zeros n
  tp : p.matvecPerWavenumber (fun l => Implicit.block (inv l) n n (2 * n) 1) n [p.ops.oneModal] = Col.zeros n
  pp : p.matvecPerWavenumber (fun l => Implicit.block (inv l) (2 * n) 1 (2 * n) 1) 1 [p.ops.oneModal]
        = [p.ops.oneModal]

/-- the results of the three products of one row of blocks have the declared number of rows -/
structure InvShaped (p : PrimitiveEquations K M N) (n : ℕ) (inv : ℕ → List (List K)) (s : State M) : Prop where
  dp : (p.matvecPerWavenumber (fun l => Implicit.block (inv l) 0 n (2 * n) 1) n [s.logSurfacePressure]).length = n
  tp : (p.matvecPerWavenumber (fun l => Implicit.block (inv l) n n (2 * n) 1) n [s.logSurfacePressure]).length = n
  pd : (p.matvecPerWavenumber (fun l => Implicit.block (inv l) (2 * n) 1 0 n) 1 s.divergence).length = 1
  pt : (p.matvecPerWavenumber (fun l => Implicit.block (inv l) (2 * n) 1 n n) 1 s.temperatureVariation).length = 1
  pp : (p.matvecPerWavenumber (fun l => Implicit.block (inv l) (2 * n) 1 (2 * n) 1) 1 [s.logSurfacePressure]).length = 1

theorem headD_add3 (a b c : List M) (one : M) (k : K) (ha : a.length = 1) (hb : b.length = 1) (hc : c.length = 1) :
    (Col.add (Col.add a b) (Col.add c (Col.smul k [one]))).headD 0
      = (Col.add (Col.add a b) c).headD 0 + k • one := by
  match a, b, c, ha, hb, hc with
  | [x], [y], [z], _, _, _ => simp [Col.add, Col.smul, add_assoc]

/-- **`implicit_inverse` commutes with the change of scale** (`inv'` is the inverse that belongs to
 `η' = t·η` under the other scale) -/
theorem implicitInverse_act (hg : g.Valid) (hp : ProjLaws p.ops) (n : ℕ) (hn : p.vert.layers = n)
    (inv inv' : ℕ → List (List K)) (hs : InvScaled g n inv inv') (hc : ConstMode p n inv)
    (c : K) (s : State M) (hsh : InvShaped p n inv s) :
    (actEq g p).implicitInverse inv' (actState g c p.ops.oneModal s)
      = actState g c p.ops.oneModal (p.implicitInverse inv s) := by
  have hlay : (actEq g p).vert.layers = n := hn
  unfold PrimitiveEquations.implicitInverse
  simp only [hlay, hn, mv_actEq, actState]
  have hθ := hg.θ_ne
  have hF := wF_ne hg
  simp only [hs.dd, hs.dt, hs.dp, hs.td, hs.tt, hs.tp, hs.pd, hs.pt, hs.pp, mv_scaled, mv_smul p hp,
    mv_single_add_const p hp, hc.dp, hc.tp, hc.pp, smul_smul_col, smul_zeros]
  have e1 : g.θ * (g.wF / g.θ) = g.wF := by field_simp
  have e2 : g.wF * (g.θ / g.wF) = g.θ := by field_simp
  have e3 : g.wF * (1 / g.wF) = 1 := by field_simp
  have e4 : g.θ * (1 / g.θ) = 1 := by field_simp
  rw [e1, e2, e3, e4, one_smul_col, one_smul_col]
  rw [add_zeros_of_length _ n (by rw [smul_length]; exact hsh.dp),
    add_zeros_of_length _ n (by rw [smul_length]; exact hsh.tp)]
  simp only [add_smul_col]
  refine congrArg₂ (fun a b => State.mk _ _ a b _) rfl ?_
  exact headD_add3 (K := K) _ _ _ _ c hsh.pd hsh.pt hsh.pp

end inv
/-! ## `actInverse` has the nine scaled blocks; shapes -/
section blocks
variable {K : Type} [Field K]

theorem scaleMat_one (m : List (List K)) : scaleMat 1 m = m := by
  simp [scaleMat]

/-- a block of `S · a · S⁻¹` whose rows share the weight `wr` and whose columns share the weight `wc` -/
theorem block_actInverse (g : Scale K) (n : ℕ) (a : List (List K)) (r0 nr c0 nc : ℕ) (wr wc : K)
    (hr : ∀ i, r0 ≤ i → i < r0 + nr → stackWeight g n i = wr)
    (hc : ∀ j, c0 ≤ j → j < c0 + nc → stackWeight g n j = wc) :
    Implicit.block (actInverse g n a) r0 nr c0 nc = scaleMat (wr / wc) (Implicit.block a r0 nr c0 nc) := by
  unfold Implicit.block actInverse scaleMat
  apply List.ext_getElem?
  intro i
  simp only [List.getElem?_map, List.getElem?_take, List.getElem?_drop, List.getElem?_range]
  by_cases hi : i < nr
  · simp only [hi, if_true]
    by_cases hlen : r0 + i < a.length
    · have hrow : a[r0 + i]? = some (a[r0 + i]) := List.getElem?_eq_getElem hlen
      simp only [List.getElem?_range hlen, hrow, Option.map_some, Option.some.injEq]
      have hD : a.getD (r0 + i) [] = a[r0 + i] := by
        simp [List.getD_eq_getElem?_getD, hrow]
      rw [hD]
      apply List.ext_getElem?
      intro j
      simp only [List.getElem?_map, List.getElem?_take, List.getElem?_drop]
      by_cases hj : j < nc
      · simp only [hj, if_true]
        by_cases hl2 : c0 + j < (a[r0 + i]).length
        · have hcol : (a[r0 + i])[c0 + j]? = some ((a[r0 + i])[c0 + j]) := List.getElem?_eq_getElem hl2
          simp only [List.getElem?_range hl2, hcol, Option.map_some, Option.some.injEq]
          rw [hr (r0 + i) (by omega) (by omega), hc (c0 + j) (by omega) (by omega)]
          have : (a[r0 + i]).getD (c0 + j) 1 = (a[r0 + i])[c0 + j] := by
            simp [List.getD_eq_getElem?_getD, hcol]
          rw [this]
          ring
        · have h1 : (List.range (a[r0 + i]).length)[c0 + j]? = none :=
            List.getElem?_eq_none (by simpa using Nat.le_of_not_lt hl2)
          have h2 : (a[r0 + i])[c0 + j]? = none := List.getElem?_eq_none (Nat.le_of_not_lt hl2)
          simp [h1, h2]
      · simp [hj]
    · have h1 : (List.range a.length)[r0 + i]? = none :=
        List.getElem?_eq_none (by simpa using Nat.le_of_not_lt hlen)
      have h2 : a[r0 + i]? = none := List.getElem?_eq_none (Nat.le_of_not_lt hlen)
      simp [h1, h2]
  · simp [hi]

theorem stackWeight_d (g : Scale K) (n i : ℕ) (h : i < n) : stackWeight g n i = g.wF := by
  simp [stackWeight, h]
theorem stackWeight_t (g : Scale K) (n i : ℕ) (h1 : n ≤ i) (h2 : i < 2 * n) : stackWeight g n i = g.θ := by
  simp [stackWeight, Nat.not_lt.mpr h1, h2]
theorem stackWeight_p (g : Scale K) (n i : ℕ) (h : 2 * n ≤ i) : stackWeight g n i = 1 := by
  have h1 : ¬ i < n := by omega
  have h2 : ¬ i < 2 * n := by omega
  simp [stackWeight, h1, h2]

/-- `S · inv · S⁻¹` (what the driver op `scl inv` evaluates) has the nine blocks of `InvScaled` -/
theorem invScaled_actInverse {g : Scale K} (hg : g.Valid) (n : ℕ) (inv : ℕ → List (List K)) :
    InvScaled g n inv (fun l => actInverse g n (inv l)) := by
  have hF := wF_ne hg
  have hθ := hg.θ_ne
  have D : ∀ i, 0 ≤ i → i < 0 + n → stackWeight g n i = g.wF := fun i _ h => stackWeight_d g n i (by omega)
  have T : ∀ i, n ≤ i → i < n + n → stackWeight g n i = g.θ := fun i h1 h2 => stackWeight_t g n i h1 (by omega)
  have P : ∀ i, 2 * n ≤ i → i < 2 * n + 1 → stackWeight g n i = 1 := fun i h _ => stackWeight_p g n i h
  constructor <;> intro l
  · rw [block_actInverse g n (inv l) 0 n 0 n g.wF g.wF D D, div_self hF, scaleMat_one]
  · exact block_actInverse g n (inv l) 0 n n n g.wF g.θ D T
  · rw [block_actInverse g n (inv l) 0 n (2 * n) 1 g.wF 1 D P, div_one]
  · exact block_actInverse g n (inv l) n n 0 n g.θ g.wF T D
  · rw [block_actInverse g n (inv l) n n n n g.θ g.θ T T, div_self hθ, scaleMat_one]
  · rw [block_actInverse g n (inv l) n n (2 * n) 1 g.θ 1 T P, div_one]
  · exact block_actInverse g n (inv l) (2 * n) 1 0 n 1 g.wF P D
  · exact block_actInverse g n (inv l) (2 * n) 1 n n 1 g.θ P T
  · rw [block_actInverse g n (inv l) (2 * n) 1 (2 * n) 1 1 1 P P, div_one, scaleMat_one]

end blocks

section shapes
variable {K M N : Type} [Field K] [AddCommGroup M] [Module K M] [CommRing N] [Algebra K N]
variable (p : PrimitiveEquations K M N)

theorem foldl_add_length {V : Type} [Add V] (rows : ℕ) : ∀ (ls : List (List V)) (z : List V),
    z.length = rows → (∀ t ∈ ls, t.length = rows) → (ls.foldl Col.add z).length = rows
  | [], z, hz, _ => hz
  | t :: ls, z, hz, h => by
    simp only [List.foldl_cons]
    apply foldl_add_length rows ls
    · simp [Col.add, hz, h t (by simp)]
    · intro u hu; exact h u (by simp [hu])

theorem mv_length (a : ℕ → List (List K)) (rows : ℕ) (x : List M) (h : ∀ l, (a l).length = rows) :
    (p.matvecPerWavenumber a rows x).length = rows := by
  unfold PrimitiveEquations.matvecPerWavenumber
  apply foldl_add_length
  · simp [Col.zeros]
  · intro t ht
    simp only [List.mem_map] at ht
    obtain ⟨l, _, rfl⟩ := ht
    simp [Col.matvec, h l]

theorem block_length (m : List (List K)) (r0 nr c0 nc : ℕ) (h : r0 + nr ≤ m.length) :
    (Implicit.block m r0 nr c0 nc).length = nr := by
  simp only [Implicit.block, List.length_map, List.length_take, List.length_drop]
  omega

/-- square `(2n+1) × (2n+1)` inverses give products of the declared shapes -/
theorem invShaped_of_square (n : ℕ) (inv : ℕ → List (List K)) (s : State M)
    (h : ∀ l, (inv l).length = 2 * n + 1) : InvShaped p n inv s := by
  constructor <;> apply mv_length <;> intro l <;> apply block_length <;> rw [h l] <;> omega

end shapes

end Dino.Scaling
