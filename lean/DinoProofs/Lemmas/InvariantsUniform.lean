import DinoProofs.Lemmas.InvariantsPE

/-!
# The frame of a uniform tracer — lemma layer of C11 (review finding 6)

A tracer `name` is *uniform* in a record with `n` levels when every level is the same multiple
`q • u` of the unit mode `u` (a `(0,0)`-only field whose nodal values are one).  `UQ` adds to the
record predicate `PEQ`: zero `(0,0)` coefficient of every divergence level (the domain on which
`div(uv) = δ` holds: the constant mode is not in the range of the Laplacian) and uniformity of the
tracer `name`.  It is closed under the `tree_math` arithmetic (`zipTracers` pairs equal keys because
both operands carry the keys `ks`), and the level-0 value of the tracer is additive on it.
-/
set_option linter.unusedSectionVars false

namespace Dino.Invariants
open Dino Dino.Dynamics

section
variable {K M : Type} [Field K] [AddCommGroup M] [Module K M]

theorem lookup_zipTracers (f : List M → List M → List M) (name : String) :
    ∀ (a b : List (String × List M)) (x y : List M), keysOf a = keysOf b →
      lookup name a = some x → lookup name b = some y →
      lookup name (State.zipTracers f a b) = some (f x y)
  | [], _, x, y, _, ha, _ => by simp [lookup] at ha
  | (k, v) :: a, [], x, y, hk, _, _ => by simp [keysOf] at hk
  | (k, v) :: a, (k', w) :: b, x, y, hk, ha, hb => by
    simp only [keysOf, List.map_cons, List.cons.injEq] at hk
    obtain ⟨hkk, hk⟩ := hk
    subst hkk
    simp only [State.zipTracers, List.zipWith_cons_cons]
    unfold lookup at ha hb ⊢
    by_cases h : k = name
    · simp only [h, if_true, Option.some.injEq] at ha hb ⊢
      rw [ha, hb]
    · simp only [h, if_false] at ha hb ⊢
      exact lookup_zipTracers f name a b x y hk ha hb

theorem getD_replicate_zero (n : ℕ) (x : M) :
    (List.replicate n x).getD 0 0 = if 0 < n then x else 0 := by
  cases n <;> simp [List.replicate_succ]

/-- `PEQ`, zero mean divergence, and the tracer `name` uniform -/
structure UQ (T : Submodule K M) (n : ℕ) (ks : List String) (ℓ : M →ₗ[K] K) (name : String) (u : M)
    (s : StateWithTime K M) : Prop where
  pe : PEQ T n ks s
  d0 : AllP (fun x => ℓ x = 0) s.state.divergence
  unif : ∃ q : K, lookup name s.state.tracers = some (List.replicate n (q • u))

/-- the value of level 0 of the tracer `name` -/
def tracer0 (name : String) (s : StateWithTime K M) : M :=
  ((lookup name s.state.tracers).getD []).getD 0 0

variable {T : Submodule K M} {n : ℕ} {ks : List String} {ℓ : M →ₗ[K] K} {name : String} {u : M}

theorem UQ.add_unif {a b : StateWithTime K M} {qa qb : K} (ha : PEQ T n ks a) (hb : PEQ T n ks b)
    (ua : lookup name a.state.tracers = some (List.replicate n (qa • u)))
    (ub : lookup name b.state.tracers = some (List.replicate n (qb • u))) :
    lookup name (a + b).state.tracers = some (List.replicate n ((qa + qb) • u)) := by
  show lookup name (State.zipTracers Col.add a.state.tracers b.state.tracers) = _
  rw [lookup_zipTracers Col.add name _ _ _ _ (by rw [ha.sh.keys, hb.sh.keys]) ua ub]
  simp [Col.add, add_smul]

theorem UQ.smul_unif (c : K) {a : StateWithTime K M} {qa : K}
    (ua : lookup name a.state.tracers = some (List.replicate n (qa • u))) :
    lookup name (c • a).state.tracers = some (List.replicate n ((c * qa) • u)) := by
  show lookup name (mapTracers (fun x => x.map fun y => c • y) a.state.tracers) = _
  rw [lookup_mapTracers, ua]
  simp [mul_smul]

theorem UQ.add {a b : StateWithTime K M} (ha : UQ T n ks ℓ name u a) (hb : UQ T n ks ℓ name u b) :
    UQ T n ks ℓ name u (a + b) := by
  obtain ⟨qa, ua⟩ := ha.unif
  obtain ⟨qb, ub⟩ := hb.unif
  exact ⟨ha.pe.add hb.pe,
    allP_zipWith _ ha.d0 hb.d0 fun x y hx hy => by rw [map_add, hx, hy, add_zero],
    ⟨qa + qb, UQ.add_unif ha.pe hb.pe ua ub⟩⟩

theorem UQ.smul (c : K) {a : StateWithTime K M} (ha : UQ T n ks ℓ name u a) :
    UQ T n ks ℓ name u (c • a) := by
  obtain ⟨qa, ua⟩ := ha.unif
  exact ⟨ha.pe.smul c, allP_map _ ha.d0 fun x hx => by rw [map_smul, hx, smul_zero],
    ⟨c * qa, UQ.smul_unif c ua⟩⟩

theorem tracer0_of_unif {s : StateWithTime K M} {q : K}
    (h : lookup name s.state.tracers = some (List.replicate n (q • u))) :
    tracer0 name s = if 0 < n then q • u else 0 := by
  unfold tracer0
  rw [h, Option.getD_some, getD_replicate_zero]

/-- the frame data of a uniform tracer -/
def uniformObs (T : Submodule K M) (n : ℕ) (ks : List String) (ℓ : M →ₗ[K] K) (name : String)
    (u : M) : QObs K (StateWithTime K M) M where
  Q := UQ T n ks ℓ name u
  ω := tracer0 name
  Q_add := UQ.add
  Q_smul := UQ.smul
  ω_add := by
    intro a b ha hb
    obtain ⟨qa, ua⟩ := ha.unif
    obtain ⟨qb, ub⟩ := hb.unif
    rw [tracer0_of_unif (UQ.add_unif ha.pe hb.pe ua ub), tracer0_of_unif ua, tracer0_of_unif ub]
    split <;> simp [add_smul]
  ω_smul := by
    intro c a ha
    obtain ⟨qa, ua⟩ := ha.unif
    rw [tracer0_of_unif (UQ.smul_unif c ua), tracer0_of_unif ua]
    split <;> simp [mul_smul]

@[simp] theorem uniformObs_Q (s : StateWithTime K M) :
    (uniformObs T n ks ℓ name u).Q s ↔ UQ T n ks ℓ name u s := Iff.rfl
@[simp] theorem uniformObs_ω (s : StateWithTime K M) :
    (uniformObs T n ks ℓ name u).ω s = tracer0 name s := rfl

theorem foldl_add_zeros (ls : List M) (h : ∀ x ∈ ls, x = 0) (acc : M) :
    ls.foldl (· + ·) acc = acc := by
  induction ls generalizing acc with
  | nil => rfl
  | cons l ls ih =>
    simp only [List.foldl_cons]
    rw [h l List.mem_cons_self, add_zero]
    exact ih (fun x hx => h x (List.mem_cons_of_mem _ hx)) acc

/-- a column all of whose entries are zero -/
theorem eq_replicate_zero {l : List M} (h : AllP (· = 0) l) : l = List.replicate l.length 0 :=
  List.eq_replicate_iff.2 ⟨rfl, h⟩

end
end Dino.Invariants
