import Dino.Filters
import Mathlib.Data.List.Forall2
import Mathlib.Algebra.BigOperators.Group.List.Basic
import Mathlib.Algebra.Order.Field.Basic
import Mathlib.Tactic.Ring
import Mathlib.Tactic.FieldSimp
import Mathlib.Tactic.Linarith

/-! Helper lemmas for the filter model `Dino.Filters` (property C15). -/
namespace Dino.Filters

/-! ## shapes -/

/-- the pairing rule of one dimension of the scaling (`ds`) with the aligned dimension of the
 leaf (`dt`) under which the leaf keeps its shape -/
def DimOK (ds dt : Nat) : Prop := ds = dt ∨ ds = 1

theorem bdim_eq_left_iff (a b : Nat) : bdim a b = some a ↔ DimOK b a := by
  unfold bdim DimOK
  by_cases ha : a = 1
  · subst ha; simp
  · by_cases hb : b = 1
    · subst hb; simp [ha]
    · by_cases hab : a = b
      · subst hab; simp [ha]
      · simp [ha, hb, hab, eq_comm]

/-- on reversed shapes: the broadcast shape is the target's iff the scaling's dimensions pair up
 with a prefix (= trailing dimensions) of the target's -/
theorem broadcastRev_eq_self_iff (t s : List Nat) :
    broadcastRev t s = some t ↔ ∃ suf rest, t = suf ++ rest ∧ List.Forall₂ DimOK s suf := by
  induction t generalizing s with
  | nil =>
    cases s with
    | nil => simp [broadcastRev]
    | cons b bs =>
      simp only [broadcastRev, Option.some.injEq, reduceCtorEq, false_iff, not_exists, not_and]
      intro suf rest h
      have : suf = [] := by
        cases suf with
        | nil => rfl
        | cons x xs => simp at h
      subst this
      simp
  | cons a as ih =>
    cases s with
    | nil =>
      simp only [broadcastRev, true_iff]
      exact ⟨[], a :: as, rfl, List.Forall₂.nil⟩
    | cons b bs =>
      constructor
      · intro h
        simp only [broadcastRev] at h
        cases hd : bdim a b with
        | none => simp [hd] at h
        | some d =>
          cases hr : broadcastRev as bs with
          | none => simp [hd, hr] at h
          | some r =>
            simp only [hd, hr, Option.some.injEq, List.cons.injEq] at h
            obtain ⟨h1, h2⟩ := h
            subst h1 h2
            obtain ⟨suf, rest, e, f⟩ := (ih bs).1 hr
            refine ⟨d :: suf, rest, by simp [e], List.Forall₂.cons ((bdim_eq_left_iff d b).1 hd) f⟩
      · rintro ⟨suf, rest, e, f⟩
        cases f with
        | cons hab f' =>
          rename_i a' suf'
          simp only [List.cons_append, List.cons.injEq] at e
          obtain ⟨e1, e2⟩ := e
          subst e1
          have h1 := (bdim_eq_left_iff a b).2 hab
          have h2 := (ih bs).2 ⟨suf', rest, e2, f'⟩
          simp [broadcastRev, h1, h2]

theorem preservesShape_iff_broadcast (t s : List Nat) :
    preservesShape t s = true ↔ broadcastShapes t s = some t := by
  unfold preservesShape
  cases h : broadcastShapes t s with
  | none => simp
  | some b => simp

theorem broadcastShapes_eq_self_iff (t s : List Nat) :
    broadcastShapes t s = some t ↔ broadcastRev t.reverse s.reverse = some t.reverse := by
  unfold broadcastShapes
  cases h : broadcastRev t.reverse s.reverse with
  | none => simp
  | some b =>
    simp only [Option.map_some, Option.some.injEq]
    constructor
    · intro e; rw [← e, List.reverse_reverse]
    · intro e; rw [e, List.reverse_reverse]

/-- `_preserves_shape` holds iff the scaling's dimensions match the trailing dimensions of the leaf
 (each equal, or 1 on the scaling's side) -/
theorem preservesShape_iff_trailing (t s : List Nat) :
    preservesShape t s = true ↔ ∃ pre suf, t = pre ++ suf ∧ List.Forall₂ DimOK s suf := by
  rw [preservesShape_iff_broadcast, broadcastShapes_eq_self_iff, broadcastRev_eq_self_iff]
  constructor
  · rintro ⟨suf, rest, e, f⟩
    refine ⟨rest.reverse, suf.reverse, ?_, ?_⟩
    · have := congrArg List.reverse e
      simpa using this
    · rw [← List.forall₂_reverse_iff]; simpa using f
  · rintro ⟨pre, suf, e, f⟩
    refine ⟨suf.reverse, pre.reverse, by simp [e], ?_⟩
    rw [List.forall₂_reverse_iff]; exact f

/-! ## flat indices -/

theorem bidxRev_lt (ss ts : List Nat) (i : Nat)
    (h : broadcastRev ts ss = some ts) (hi : i < ts.prod) : bidxRev ss ts i < ss.prod := by
  induction ss generalizing ts i with
  | nil => cases ts <;> simp [bidxRev]
  | cons d ss ih =>
    cases ts with
    | nil => simp [broadcastRev] at h
    | cons t ts =>
      obtain ⟨suf, rest, e, f⟩ := (broadcastRev_eq_self_iff _ _).1 h
      cases f with
      | cons hd f' =>
        rename_i t' suf'
        simp only [List.cons_append, List.cons.injEq] at e
        obtain ⟨e1, e2⟩ := e
        subst e1
        have h' : broadcastRev ts ss = some ts := (broadcastRev_eq_self_iff _ _).2 ⟨suf', rest, e2, f'⟩
        simp only [List.prod_cons] at hi ⊢
        have htpos : 0 < t := by
          rcases Nat.eq_zero_or_pos t with h0 | h0
          · subst h0; simp at hi
          · exact h0
        have hq : i / t < ts.prod := Nat.div_lt_of_lt_mul hi
        have := ih ts (i / t) h' hq
        simp only [bidxRev]
        have hr : (if d = 1 then 0 else i % t) < d := by
          rcases hd with hd | hd
          · subst hd
            split
            · omega
            · exact Nat.mod_lt _ htpos
          · simp [hd]
        calc (if d = 1 then 0 else i % t) + d * bidxRev ss ts (i / t)
            < d + d * bidxRev ss ts (i / t) := by omega
          _ = d * (bidxRev ss ts (i / t) + 1) := by ring
          _ ≤ d * ss.prod := Nat.mul_le_mul_left d this

/-- the index into the scaling never leaves the scaling's data when the shape is preserved -/
theorem bidx_lt (ss ts : List Nat) (i : Nat) (h : preservesShape ts ss = true) (hi : i < ts.prod) :
    bidx ss ts i < ss.prod := by
  rw [preservesShape_iff_broadcast, broadcastShapes_eq_self_iff] at h
  have := bidxRev_lt ss.reverse ts.reverse i h (by simpa [List.prod_reverse] using hi)
  simpa [bidx, List.prod_reverse] using this

/-- leading unit dimensions of the scaling play no role -/
theorem bidxRev_append_ones (ss ts : List Nat) (n i : Nat) :
    bidxRev (ss ++ List.replicate n 1) ts i = bidxRev ss ts i := by
  induction ss generalizing ts i with
  | nil =>
    induction n generalizing ts i with
    | zero => simp
    | succ n ihn =>
      cases ts with
      | nil => simp [bidxRev, List.replicate_succ]
      | cons t ts =>
        have := ihn ts (i / t)
        simp only [List.nil_append] at this
        simp [bidxRev, List.replicate_succ, this]
  | cons d ss ih =>
    cases ts with
    | nil => simp [bidxRev]
    | cons t ts => simp [bidxRev, ih]

theorem bidx_ones_append (ss ts : List Nat) (n i : Nat) :
    bidx (List.replicate n 1 ++ ss) ts i = bidx ss ts i := by
  simp [bidx, bidxRev_append_ones]

/-- equal rank, common leading axis: the leading index of the leaf selects the leading index of
 the scaling (or index 0 when that dimension of the scaling is 1) -/
theorem bidxRev_append_singleton (ss ts : List Nat) (d T t j : Nat) (hlen : ss.length = ts.length)
    (hj : j < ts.prod) (ht : t < T) :
    bidxRev (ss ++ [d]) (ts ++ [T]) (t * ts.prod + j)
      = bidxRev ss ts j + ss.prod * (if d = 1 then 0 else t) := by
  induction ss generalizing ts j with
  | nil =>
    cases ts with
    | nil =>
      simp only [List.prod_nil, Nat.lt_one_iff] at hj
      subst hj
      simp [bidxRev, Nat.mod_eq_of_lt ht]
    | cons _ _ => simp at hlen
  | cons d0 ss ih =>
    cases ts with
    | nil => simp at hlen
    | cons t0 ts =>
      simp only [List.length_cons, Nat.add_right_cancel_iff] at hlen
      simp only [List.prod_cons] at hj ⊢
      have ht0 : 0 < t0 := by
        rcases Nat.eq_zero_or_pos t0 with h0 | h0
        · subst h0; simp at hj
        · exact h0
      have hq : j / t0 < ts.prod := Nat.div_lt_of_lt_mul hj
      have e1 : (t * (t0 * ts.prod) + j) % t0 = j % t0 := by
        rw [show t * (t0 * ts.prod) = t0 * (t * ts.prod) by ring, Nat.mul_add_mod]
      have e2 : (t * (t0 * ts.prod) + j) / t0 = t * ts.prod + j / t0 := by
        rw [show t * (t0 * ts.prod) = t0 * (t * ts.prod) by ring, Nat.mul_add_div ht0]
      simp only [List.cons_append, bidxRev, e1, e2, ih ts (j / t0) hlen hq]
      ring

/-- lower rank: additional leading axes of the leaf do not enter the index -/
theorem bidxRev_append_right (ss ts : List Nat) (T t j : Nat) (hlen : ss.length ≤ ts.length)
    (hj : j < ts.prod) :
    bidxRev ss (ts ++ [T]) (t * ts.prod + j) = bidxRev ss ts j := by
  induction ss generalizing ts j with
  | nil => cases ts <;> simp [bidxRev]
  | cons d0 ss ih =>
    cases ts with
    | nil => simp at hlen
    | cons t0 ts =>
      simp only [List.length_cons, Nat.add_le_add_iff_right] at hlen
      simp only [List.prod_cons] at hj ⊢
      have ht0 : 0 < t0 := by
        rcases Nat.eq_zero_or_pos t0 with h0 | h0
        · subst h0; simp at hj
        · exact h0
      have hq : j / t0 < ts.prod := Nat.div_lt_of_lt_mul hj
      have e1 : (t * (t0 * ts.prod) + j) % t0 = j % t0 := by
        rw [show t * (t0 * ts.prod) = t0 * (t * ts.prod) by ring, Nat.mul_add_mod]
      have e2 : (t * (t0 * ts.prod) + j) / t0 = t * ts.prod + j / t0 := by
        rw [show t * (t0 * ts.prod) = t0 * (t * ts.prod) by ring, Nat.mul_add_div ht0]
      simp only [List.cons_append, bidxRev, e1, e2, ih ts (j / t0) hlen hq]

theorem bidx_cons_cons (ss ts : List Nat) (d T t j : Nat) (hlen : ss.length = ts.length)
    (hj : j < ts.prod) (ht : t < T) :
    bidx (d :: ss) (T :: ts) (t * ts.prod + j) = bidx ss ts j + ss.prod * (if d = 1 then 0 else t) := by
  have := bidxRev_append_singleton ss.reverse ts.reverse d T t j (by simpa using hlen)
    (by simpa [List.prod_reverse] using hj) ht
  simpa [bidx, List.prod_reverse] using this

theorem bidx_cons_right (ss ts : List Nat) (T t j : Nat) (hlen : ss.length ≤ ts.length)
    (hj : j < ts.prod) :
    bidx ss (T :: ts) (t * ts.prod + j) = bidx ss ts j := by
  have := bidxRev_append_right ss.reverse ts.reverse T t j (by simpa using hlen)
    (by simpa [List.prod_reverse] using hj)
  simpa [bidx, List.prod_reverse] using this

/-- a 1-D scaling of length `L` applied along a last axis of length `L`: the index is `i mod L` -/
theorem bidx_last (L : Nat) (init : List Nat) (i : Nat) : bidx [L] (init ++ [L]) i = i % L := by
  simp only [bidx, List.reverse_cons, List.reverse_nil, List.nil_append, List.reverse_append,
    List.cons_append, bidxRev]
  by_cases h : L = 1
  · subst h; simp [Nat.mod_one]
  · simp [h]

/-! ## slices and products of arrays -/

/-- leading-axis slice `a[t]` of row-major data whose slices have `P` entries -/
def slice {α : Type} (P t : Nat) (x : List α) : List α := (x.drop (t * P)).take P

theorem slice_getElem? {α : Type} (P t j : Nat) (x : List α) :
    (slice P t x)[j]? = if j < P then x[t * P + j]? else none := by
  simp only [slice, List.getElem?_take, List.getElem?_drop]

theorem slice_length {α : Type} (P t T : Nat) (x : List α) (hx : x.length = T * P) (ht : t < T) :
    (slice P t x).length = P := by
  simp only [slice, List.length_take, List.length_drop, hx]
  have : (t + 1) * P ≤ T * P := Nat.mul_le_mul_right P ht
  have e : (t + 1) * P = t * P + P := by ring
  omega

theorem slice_flatten {α : Type} (L : Nat) (table : List (List α)) (h : ∀ r ∈ table, r.length = L)
    (t : Nat) (ht : t < table.length) : slice L t table.flatten = table[t] := by
  induction table generalizing t with
  | nil => simp at ht
  | cons r rest ih =>
    have hr : r.length = L := h r (by simp)
    cases t with
    | zero =>
      simp only [slice, Nat.zero_mul, List.drop_zero, List.flatten_cons, List.getElem_cons_zero]
      rw [← hr, List.take_left]
    | succ t =>
      have ht' : t < rest.length := by simpa using ht
      have := ih (fun r hr => h r (by simp [hr])) t ht'
      simp only [List.flatten_cons, List.getElem_cons_succ, ← this, slice]
      rw [show (t + 1) * L = r.length + t * L by rw [hr]; ring, ← List.drop_drop,
        List.drop_left]

variable {K : Type} [Field K]

@[simp] theorem bmul_length (ss ts : List Nat) (s x : List K) : (bmul ss s ts x).length = x.length := by
  simp [bmul]

theorem bmul_getElem? (ss ts : List Nat) (s x : List K) (i : Nat) :
    (bmul ss s ts x)[i]? = x[i]?.map fun v => s.getD (bidx ss ts i) 0 * v := by
  simp [bmul]

theorem slice_getD (P t k : Nat) (s : List K) (hk : k < P) :
    (slice P t s).getD k 0 = s.getD (t * P + k) 0 := by
  simp [List.getD_eq_getElem?_getD, slice_getElem?, hk]

/-- equal rank, common leading axis of length `T`: slice `t` of the product is the product of the
 slices (numpy: `(s * x)[t] = s[t] * x[t]`) -/
theorem bmul_slice (T : Nat) (ss ts : List Nat) (hlen : ss.length = ts.length)
    (hp : preservesShape ts ss = true) (s x : List K) (t : Nat) (ht : t < T) :
    slice ts.prod t (bmul (T :: ss) s (T :: ts) x)
      = bmul ss (slice ss.prod t s) ts (slice ts.prod t x) := by
  apply List.ext_getElem?
  intro j
  rw [slice_getElem?, bmul_getElem?, bmul_getElem?, slice_getElem?]
  by_cases hj : j < ts.prod
  · have hk := bidx_lt ss ts j hp hj
    rw [if_pos hj, if_pos hj, bidx_cons_cons ss ts T T t j hlen hj ht, slice_getD _ _ _ _ hk]
    have : ss.prod * (if T = 1 then 0 else t) = t * ss.prod := by
      split
      · next h => subst h; have : t = 0 := by omega
                  subst this; simp
      · ring
    rw [this, Nat.add_comm]
  · simp [hj]

/-- lower rank: the product with a scaling of lower rank is taken slice by slice with the same
 scaling (numpy: `(s * x)[t] = s * x[t]`) -/
theorem bmul_slice_lower (T : Nat) (ss ts : List Nat) (hlen : ss.length ≤ ts.length)
    (s x : List K) (t : Nat) :
    slice ts.prod t (bmul ss s (T :: ts) x) = bmul ss s ts (slice ts.prod t x) := by
  apply List.ext_getElem?
  intro j
  rw [slice_getElem?, bmul_getElem?, bmul_getElem?, slice_getElem?]
  by_cases hj : j < ts.prod
  · rw [if_pos hj, if_pos hj, bidx_cons_right ss ts T t j hlen hj]
  · simp [hj]

theorem getD_zipWith_mul (s s' : List K) (k : Nat) (h : s.length = s'.length) :
    (List.zipWith (· * ·) s s').getD k 0 = s.getD k 0 * s'.getD k 0 := by
  simp only [List.getD_eq_getElem?_getD, List.getElem?_zipWith]
  by_cases hk : k < s.length
  · have hk' : k < s'.length := h ▸ hk
    simp [List.getElem?_eq_getElem hk, List.getElem?_eq_getElem hk']
  · have hk' : ¬ k < s'.length := h ▸ hk
    simp [List.getElem?_eq_none (Nat.le_of_not_lt hk), List.getElem?_eq_none (Nat.le_of_not_lt hk')]

/-- two rescalings with scalings of one shape = one rescaling with their elementwise product -/
theorem bmul_bmul (ss ts : List Nat) (s s' x : List K) (h : s.length = s'.length) :
    bmul ss s ts (bmul ss s' ts x) = bmul ss (List.zipWith (· * ·) s s') ts x := by
  apply List.ext_getElem?
  intro i
  simp only [bmul_getElem?, Option.map_map, getD_zipWith_mul s s' _ h]
  cases x[i]? with
  | none => rfl
  | some v => simp [mul_assoc]

@[simp] theorem filterLeaf_fst (ss : List Nat) (s : List K) (leaf : List Nat × List K) :
    (filterLeaf ss s leaf).1 = leaf.1 := by
  unfold filterLeaf; split <;> rfl

@[simp] theorem filterLeaf_length (ss : List Nat) (s : List K) (leaf : List Nat × List K) :
    (filterLeaf ss s leaf).2.length = leaf.2.length := by
  unfold filterLeaf; split <;> simp

theorem filterLeaf_filterLeaf (ss : List Nat) (s s' : List K) (leaf : List Nat × List K)
    (h : s.length = s'.length) :
    filterLeaf ss s (filterLeaf ss s' leaf) = filterLeaf ss (List.zipWith (· * ·) s s') leaf := by
  unfold filterLeaf
  by_cases hp : preservesShape leaf.1 ss = true
  · simp [hp, bmul_bmul ss leaf.1 s s' leaf.2 h]
  · simp [hp]

theorem filterTree_filterTree (ss : List Nat) (s s' : List K) (tree : List (List Nat × List K))
    (h : s.length = s'.length) :
    filterTree ss s (filterTree ss s' tree) = filterTree ss (List.zipWith (· * ·) s s') tree := by
  simp [filterTree, List.map_map, Function.comp_def, filterLeaf_filterLeaf ss s s' _ h]

/-! ## powers, maxima -/

theorem powN_eq_pow {M : Type} [Monoid M] (x : M) (n : Nat) : powN x n = x ^ n := by
  induction n with
  | zero => simp [powN]
  | succ n ih => simp [powN, ih, pow_succ]

section order
variable {R : Type} [LinearOrder R] [dlt : DecidableLT R]

theorem foldl_max_spec (t : List R) (a : R) :
    (a ≤ t.foldl (fun m x => if m < x then x else m) a
      ∧ ∀ x ∈ t, x ≤ t.foldl (fun m x => if m < x then x else m) a)
    ∧ (t.foldl (fun m x => if m < x then x else m) a = a
      ∨ t.foldl (fun m x => if m < x then x else m) a ∈ t) := by
  induction t generalizing a with
  | nil => simp
  | cons b t ih =>
    simp only [List.foldl_cons, List.mem_cons, forall_eq_or_imp]
    obtain ⟨⟨h1, h2⟩, h3⟩ := ih (if a < b then b else a)
    have ha : a ≤ (if a < b then b else a) := by split <;> [exact le_of_lt ‹_›; exact le_refl _]
    have hb : b ≤ (if a < b then b else a) := by split <;> [exact le_refl _; exact le_of_not_gt ‹_›]
    refine ⟨⟨le_trans ha h1, le_trans hb h1, h2⟩, ?_⟩
    rcases h3 with h3 | h3
    · rw [h3]
      by_cases hab : a < b
      · simp [hab]
      · simp [hab]
    · exact Or.inr (Or.inr h3)

/-- `np.max`: the result is an entry and bounds every entry -/
theorem maxL_spec (ls : List R) (m : R) (h : maxL ls = some m) : m ∈ ls ∧ ∀ x ∈ ls, x ≤ m := by
  cases ls with
  | nil => simp [maxL] at h
  | cons a t =>
    simp only [maxL, Option.some.injEq] at h
    obtain ⟨⟨h1, h2⟩, h3⟩ := foldl_max_spec t a
    rw [h] at h1 h2 h3
    refine ⟨?_, ?_⟩
    · rcases h3 with h3 | h3
      · simp [h3]
      · simp [h3]
    · intro x hx
      rcases List.mem_cons.1 hx with hx | hx
      · rw [hx]; exact h1
      · exact h2 x hx

theorem foldl_max_sorted (t : List R) (a : R) (h : (a :: t).Pairwise (· ≤ ·)) :
    some (t.foldl (fun m x => if m < x then x else m) a) = (a :: t).getLast? := by
  induction t generalizing a with
  | nil => simp
  | cons b t ih =>
    have hab : a ≤ b := (List.pairwise_cons.1 h).1 b (by simp)
    have hbt : (b :: t).Pairwise (· ≤ ·) := (List.pairwise_cons.1 h).2
    have hf : (if a < b then b else a) = b := by
      split
      · rfl
      · exact le_antisymm hab (not_lt.1 ‹_›)
    rw [List.foldl_cons, hf, ih b hbt, List.getLast?_cons_cons]

/-- on a non-decreasing axis `np.max` is the last entry -/
theorem maxL_sorted (ls : List R) (h : ls.Pairwise (· ≤ ·)) : maxL ls = ls.getLast? := by
  cases ls with
  | nil => rfl
  | cons a t => exact foldl_max_sorted t a h

theorem maxL_isSome (ls : List R) (h : ls ≠ []) : ∃ m, maxL ls = some m := by
  cases ls with
  | nil => exact absurd rfl h
  | cons a t => exact ⟨_, rfl⟩

end order

end Dino.Filters
