import Dino.ShardEinsumMat
import DinoProofs.Lemmas.ShardEinsum
import DinoProofs.Lemmas.ShardBlock
import Mathlib.Data.List.Nodup

/-! The matrix pattern `"ik,kj->ij"` of `sharded_einsum` (C07): what `plan` decides on it, what the `shard_map`
 blocks and `dynamic_slice_in_dim` chunks induced by that plan are, and the denotation `einsum2` of the pattern. -/
namespace Dino.ShardEinsum
open Dino.Shard Dino.Lin Finset

theorem isWord_ascii (c : Char) (h : isWord c = true) : c.toNat < 128 := by
  simp only [isWord, Char.isAlphanum, Char.isAlpha, Char.isUpper, Char.isLower, Char.isDigit, Bool.or_eq_true,
    Bool.and_eq_true, decide_eq_true_eq, beq_iff_eq, UInt32.le_iff_toNat_le] at h
  rcases h with ((⟨_, h⟩ | ⟨_, h⟩) | ⟨_, h⟩) | rfl
  · have : c.val.toNat = c.toNat := rfl
    simp at h; omega
  · have : c.val.toNat = c.toNat := rfl
    simp at h; omega
  · have : c.val.toNat = c.toNat := rfl
    simp at h; omega
  · decide

/-! ## the decisions on the matrix pattern -/

theorem determineReduce_matrix (i k j : Char) (hik : i ≠ k) (hkj : k ≠ j) (hij : i ≠ j) (name : String) :
    determineReduce [i, k] [k, j] [i, j] [some name, none] = .ok k := by
  simp [determineReduce, candidates, keepReduce, specAt, single, bind, Except.bind, pure, Except.pure,
    hik, hkj, hij, hik.symm]

theorem determineTransfer_matrix (i k j : Char) (hik : i ≠ k) (hkj : k ≠ j) (hij : i ≠ j) (name : String) :
    determineTransfer [i, k] [k, j] [i, j] [some name, none] = .ok i := by
  simp [determineTransfer, candidates, keepTransfer, specAt, single, bind, Except.bind, pure, Except.pure,
    hik, hkj, hij, hik.symm]

/-- the plan of `sharded_einsum('ik,kj->ij', lhs, rhs, rhs_spec=P(name, None), out_spec=P(name, None))` -/
def matrixPlan (i k : Char) (name : String) (gather : Bool) : Plan :=
  { gather := gather
    lhsSpec := if gather then [some name, none] else [none, some name]
    axis := if gather then 1 else 0
    axisName := some name
    reduce := k
    transfer := i }

theorem plan_matrix (i k j : Char) (hi : isWord i = true) (hk : isWord k = true) (hj : isWord j = true)
    (hik : i ≠ k) (hkj : k ≠ j) (hij : i ≠ j) (name : String) (lsh rsh : List Nat) (g : Option Bool) :
    plan (joinSubscripts [i, k] [k, j] [i, j]) lsh rsh g [some name, none] [some name, none]
      = .ok (matrixPlan i k name
          (chooseGather g (prodL (outShape [i, k] [k, j] [i, j] lsh rsh)) (prodL rsh))) := by
  have hw : ∀ a b : Char, isWord a = true → isWord b = true → Word [a, b] := by
    intro a b ha hb c hc
    simp only [List.mem_cons, List.not_mem_nil, or_false] at hc
    rcases hc with rfl | rfl <;> assumption
  unfold plan
  rw [parseSubscripts_join _ _ _ (hw i k hi hk) (hw k j hk hj) (hw i j hi hj) (by simp) (by simp) (by simp)]
  simp only [bind, Except.bind, determineReduce_matrix i k j hik hkj hij, determineTransfer_matrix i k j hik hkj hij]
  cases chooseGather g (prodL (outShape [i, k] [k, j] [i, j] lsh rsh)) (prodL rsh) <;>
    simp [matrixPlan, specAt, lhsPartitions, pure, Except.pure, bind, Except.bind, hik, hkj, hij, hik.symm]

/-! ## the blocks and chunks induced by the plan are `rowChunk` / `colChunk` -/

section blocks
variable {α : Type}

/-- gather strategy: device `a` holds rows chunk `a` of `lhs` (`lhs_spec` from `out_spec`), `split_axis = 1`,
 `chunk_size = (n·k) // n = k` -/
theorem chunks_gather (name : String) (n k r : Nat) (hn : 0 < n) (A : List (List α)) (a c : Nat) :
    sliceAxis 1 (shardBlock [some name, none] name n (n * r, n * k) A a) c
        (shapeAt (blockShape [some name, none] name n (n * r, n * k)) 1 / n)
      = colChunk (rowChunk A a r) c k := by
  simp [sliceAxis, shardBlock, blockShape, shardedBy, shapeAt, Nat.mul_div_cancel_left _ hn]

/-- scatter strategy: device `s` holds columns chunk `s` of `lhs` (`lhs_spec` from `rhs_spec`), `scatter_axis = 0`,
 `chunk_size = (n·r) // n = r` -/
theorem chunks_scatter (name : String) (n k r : Nat) (hn : 0 < n) (A : List (List α)) (s a : Nat) :
    sliceAxis 0 (shardBlock [none, some name] name n (n * r, n * k) A s) a
        (shapeAt (blockShape [none, some name] name n (n * r, n * k)) 0 / n)
      = rowChunk (colChunk A s k) a r := by
  simp [sliceAxis, shardBlock, blockShape, shardedBy, shapeAt, Nat.mul_div_cancel_left _ hn]

end blocks

/-! ## the denotation of the matrix pattern -/

theorem toNat_ofNat_ascii : ∀ a < 128, (Char.ofNat a).toNat = a := by decide +kernel

theorem asciiLetters_nodup : ((List.range 128).map Char.ofNat).Nodup := by
  apply List.Nodup.map_on _ List.nodup_range
  intro x hx y hy h
  rw [← toNat_ofNat_ascii x (List.mem_range.1 hx), ← toNat_ofNat_ascii y (List.mem_range.1 hy), h]

theorem summedLetters_matrix (i k j : Char) (hk : k.toNat < 128) (hik : i ≠ k) (hkj : k ≠ j) :
    summedLetters [i, k] [k, j] [i, j] = [k] := by
  have hmem : k ∈ (List.range 128).map Char.ofNat :=
    List.mem_map.2 ⟨k.toNat, List.mem_range.2 hk, Char.ofNat_toNat k⟩
  unfold summedLetters
  rw [show (fun c => ([i, k].contains c || [k, j].contains c) && ![i, j].contains c) = (fun c : Char => c == k) from by
    funext c
    by_cases hck : c = k
    · subst hck
      simp [hkj, hik.symm]
    · have : (c == k) = false := by simpa using hck
      rw [this]
      by_cases hci : c = i
      · subst hci; simp
      · by_cases hcj : c = j
        · subst hcj; simp
        · simp [hck, hci, hcj]]
  rw [List.filter_beq, List.count_eq_one_of_mem asciiLetters_nodup hmem]
  rfl

theorem list_sum_map_range {M : Type} [AddCommMonoid M] (f : Nat → M) (n : Nat) :
    ((List.range n).map f).sum = ∑ v ∈ range n, f v := by
  induction n with
  | zero => simp
  | succ n ih => rw [List.range_succ, List.map_append, List.sum_append, ih, Finset.sum_range_succ]; simp

/-- a 2-D array as an einsum operand (a function of its index list) -/
def matOperand {K : Type} [Zero K] (A : List (List K)) : List Nat → K :=
  fun idx => (A.getD (idx.getD 0 0) []).getD (idx.getD 1 0) 0

/-- `einsum('ik,kj->ij', A, B)` in the denotation `einsum2` is the matrix product of the list model -/
theorem einsum2_matrix {K : Type} [CommRing K] (i k j : Char) (hk : k.toNat < 128) (hik : i ≠ k) (hkj : k ≠ j)
    (dims : Char → Nat) (A B : List (List K)) (w : Nat) (hw : ∀ row ∈ B, row.length = w)
    (hB : B.length ≤ dims k) (env : Char → Nat) :
    einsum2 dims [i, k] [k, j] [i, j] (matOperand A) (matOperand B) env = ent2 (matMul A B w) (env i) (env j) := by
  unfold einsum2
  rw [summedLetters_matrix i k j hk hik hkj]
  simp only [einsumAt, List.map_cons, List.map_nil, if_true]
  rw [list_sum_map_range, ent2_matMul A B w _ _ (dims k) hw hB]
  apply Finset.sum_congr rfl
  intro v _
  simp [matOperand, ent2, hik, hkj.symm]

end Dino.ShardEinsum
