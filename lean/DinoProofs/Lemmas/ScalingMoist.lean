import DinoProofs.Lemmas.ScalingTerms

/-!
# Dimensional homogeneity of the moist classes
(`MoistPrimitiveEquations`, `MoistPrimitiveEquationsWithCloudMoisture`) and of the classes with time.
-/
namespace Dino.Scaling
open Dino Dino.Dynamics
set_option linter.unusedSectionVars false
set_option linter.unusedSimpArgs false

section moist
variable {K M N : Type} [Field K] [AddCommGroup M] [Module K M] [CommRing N] [Algebra K N] [Div N]
variable {g : Scale K} (p : PrimitiveEquations K M N)

theorem constN_scaled (k a b : K) : (constN (k * a - k * b) : N) = k • constN (a - b) := by
  simp only [constN, ← mul_sub, mul_smul]

theorem map_scaled_fun {A W : Type} [SMul K W] (f' f : A → W) (k : K) (h : ∀ u, f' u = k • f u)
    (x : List A) : x.map f' = Col.smul k (x.map f) := by
  simp only [Col.smul, List.map_map]
  exact List.map_congr_left fun u _ => h u

theorem gasConstRatio_act (hg : g.Valid) :
    (actEq g p).phys.Rvapor / (actEq g p).phys.R = p.phys.Rvapor / p.phys.R := by
  simp only [actEq, actPhys]
  exact mul_div_mul_left _ _ (wR_ne hg)

theorem heatCapacityRatio_act (hg : g.Valid) :
    (actEq g p).phys.CpVapor / ((actEq g p).phys.R / (actEq g p).phys.kappa)
      = p.phys.CpVapor / (p.phys.R / p.phys.kappa) := by
  show g.wR * p.phys.CpVapor / (g.wR * p.phys.R / p.phys.kappa) = _
  rw [mul_div_assoc g.wR p.phys.R p.phys.kappa]
  exact mul_div_mul_left _ _ (wR_ne hg)

theorem virtualTemperature_act (hg : g.Valid) (aux : Diag N) (mc : List N) :
    MoistPrimitiveEquations.virtualTemperature (actEq g p) (actDiag g aux) mc
      = (MoistPrimitiveEquations.virtualTemperature p aux mc).map (Col.smul g.wE) := by
  unfold MoistPrimitiveEquations.virtualTemperature
  simp only [actDiag, actEq, actPhys, Option.map_some]
  rw [zipWith_smul_left_rw (fun (t mc : N) => (p.phys.R • t) * ((1 : N) + mc)) g.θ g.wE
    (fun u v => by pw hg)]

theorem virtualTemperatureWithClouds_act (hg : g.Valid) (aux : Diag N) (mc : List N) :
    MoistPrimitiveEquations.virtualTemperatureWithClouds (actEq g p) (actDiag g aux) mc
      = (MoistPrimitiveEquations.virtualTemperatureWithClouds p aux mc).map (Col.smul g.wE) := by
  unfold MoistPrimitiveEquations.virtualTemperatureWithClouds
  have htr : (actDiag g aux).tracers = aux.tracers := rfl
  rw [htr]
  cases lookup cloudWaterKey aux.tracers with
  | none => rfl
  | some ql =>
    cases lookup cloudIceKey aux.tracers with
    | none => rfl
    | some qi =>
      simp only [actDiag, actEq, actPhys, Option.map_some, Option.bind_eq_bind, Option.bind_some,
        Option.pure_def]
      rw [zipWith_smul_left_rw (fun (t f : N) => (p.phys.R • t) * f) g.θ g.wE (fun u v => by pw hg)]

/-- the moist `curl_and_div_tendencies` for any `_virtual_temperature` method that scales like
 `R·T` -/
theorem moistCurlAndDivTendencies_act (hg : g.Valid) (hl : OpsLaws p.ops)
    (vt' vt : Diag N → List N → Option (List N))
    (hvt : ∀ aux mc, vt' (actDiag g aux) mc = (vt aux mc).map (Col.smul g.wE)) (aux : Diag N) :
    MoistPrimitiveEquations.curlAndDivTendencies (actEq g p) vt' (actDiag g aux)
      = (MoistPrimitiveEquations.curlAndDivTendencies p vt aux).map
          fun cd => (Col.smul (g.wF * g.wF) cd.1, Col.smul (g.wF * g.wF) cd.2) := by
  unfold MoistPrimitiveEquations.curlAndDivTendencies MoistPrimitiveEquations.getSpecificHumidity
  have htr : (actDiag g aux).tracers = aux.tracers := rfl
  rw [htr, gasConstRatio_act p hg]
  cases lookup specificHumidityKey aux.tracers with
  | none => rfl
  | some q =>
    simp only [Option.bind_eq_bind, Option.bind_some, hvt]
    cases vt aux (Col.smul (p.phys.Rvapor / p.phys.R - 1) q) with
    | none => rfl
    | some rTv =>
      simp only [Option.map_some, Option.bind_some, Option.pure_def, curlAndDivTendenciesWith_act p hg hl]

theorem moistAdiabatic_act (hg : g.Valid) (aux : Diag N) :
    MoistPrimitiveEquations.nodalTemperatureAdiabaticTendency (actEq g p) (actDiag g aux)
      = (MoistPrimitiveEquations.nodalTemperatureAdiabaticTendency p aux).map (Col.smul (g.θ * g.wF)) := by
  unfold MoistPrimitiveEquations.nodalTemperatureAdiabaticTendency
    MoistPrimitiveEquations.getSpecificHumidity
  have htr : (actDiag g aux).tracers = aux.tracers := rfl
  have hk : (actEq g p).phys.kappa = p.phys.kappa := rfl
  simp only []
  rw [htr, gasConstRatio_act p hg, heatCapacityRatio_act p hg, tRef_act, hk]
  cases lookup specificHumidityKey aux.tracers with
  | none => rfl
  | some q =>
    simp only [Option.bind_eq_bind, Option.bind_some, Option.pure_def, Option.map_some, actDiag]
    rw [zipWith_smul_left_rw (fun (t qq : N) => t * (((1 : N) + (p.phys.Rvapor / p.phys.R - 1) • qq)
          / ((1 : N) + (p.phys.CpVapor / (p.phys.R / p.phys.kappa) - 1) • qq))) g.θ g.θ
        (fun u v => smul_mul_assoc _ _ _),
      zipWith_smul_left_rw (fun (tr qq : N) => tr * (((p.phys.Rvapor / p.phys.R
            - p.phys.CpVapor / (p.phys.R / p.phys.kappa)) • qq)
          / ((1 : N) + (p.phys.CpVapor / (p.phys.R / p.phys.kappa) - 1) • qq))) g.θ g.θ
        (fun u v => smul_mul_assoc _ _ _),
      add_smul_col, add_smul_col, tOmegaOverSigmaSp_act, tOmegaOverSigmaSp_act, add_smul_col,
      smul_smul_col, smul_smul_col]
    exact congrArg some (smul_congr (mul_comm _ _) _)

theorem nodalCosLatGradQ_act (hl : OpsLaws p.ops) (qModal : List M) :
    MoistPrimitiveEquations.nodalCosLatGradQ (actEq g p) qModal
      = Col.smul g.wIL (MoistPrimitiveEquations.nodalCosLatGradQ p qModal) := by
  unfold MoistPrimitiveEquations.nodalCosLatGradQ
  refine map_scaled_fun _ _ g.wIL (fun qm => ?_) qModal
  have := cosLatGrad_act (g := g) hl false 1 qm
  rw [one_smul, mul_one] at this
  show ((actOps g p.ops).toNodal ((actOps g p.ops).cosLatGrad false qm).1,
      (actOps g p.ops).toNodal ((actOps g p.ops).cosLatGrad false qm).2) = _
  rw [this]
  simp only [actOps, Prod.smul_fst, Prod.smul_snd, hl.toNodal_smul, Prod.smul_mk]

theorem divergenceTendencyDueToHumidity_act (hg : g.Valid) (hl : OpsLaws p.ops) (c : K) (s : State M)
    (aux : Diag N) :
    MoistPrimitiveEquations.divergenceTendencyDueToHumidity (actEq g p)
        (actState g c p.ops.oneModal s) (actDiag g aux)
      = (MoistPrimitiveEquations.divergenceTendencyDueToHumidity p s aux).map (Col.smul (g.wF * g.wF)) := by
  unfold MoistPrimitiveEquations.divergenceTendencyDueToHumidity
    MoistPrimitiveEquations.getSpecificHumidity
  have htr : (actDiag g aux).tracers = aux.tracers := rfl
  have hstr : (actState g c p.ops.oneModal s).tracers = s.tracers := rfl
  rw [htr, hstr]
  cases lookup specificHumidityKey aux.tracers with
  | none => rfl
  | some q =>
    cases lookup specificHumidityKey s.tracers with
    | none => rfl
    | some qModal =>
      simp only [Option.bind_eq_bind, Option.bind_some, Option.pure_def, Option.map_some]
      rw [gasConstRatio_act p hg, tRef_act, nodalCosLatGradQ_act p hl]
      have hlap : (actEq g p).ops.toNodal ((actEq g p).ops.laplacian
            (actState g c p.ops.oneModal s).logSurfacePressure)
          = g.wL2 • p.ops.toNodal (p.ops.laplacian s.logSurfacePressure) := by
        show p.ops.toNodal (g.wL2 • p.ops.laplacian (s.logSurfacePressure + c • p.ops.oneModal)) = _
        rw [laplacian_add_const hl, hl.toNodal_smul]
      have hR : (constN ((actEq g p).phys.Rvapor - (actEq g p).phys.R) : N)
          = g.wR • constN (p.phys.Rvapor - p.phys.R) := constN_scaled _ _ _
      have hsec : (actEq g p).ops.sec2Lat = p.ops.sec2Lat := rfl
      have htm : (actEq g p).ops.toModal = p.ops.toModal := rfl
      have hG : (actDiag g aux).cosLatGradLogSp
          = (g.wIL • aux.cosLatGradLogSp.1, g.wIL • aux.cosLatGradLogSp.2) := rfl
      have hT : (actDiag g aux).temperatureVariation = Col.smul g.θ aux.temperatureVariation := rfl
      rw [hlap, hR, hsec, htm, hG, hT]
      rw [zipWith_smul_right_rw (fun (qq tr : N) => qq * p.ops.toNodal (p.ops.laplacian s.logSurfacePressure)
            * tr * constN (p.phys.Rvapor - p.phys.R)) g.θ (g.wF * g.wF) (fun u v => by pw hg)]
      rw [zipWith_smul_rw (fun (tr : N) (gq : N × N) => tr * constN (p.phys.Rvapor - p.phys.R) * p.ops.sec2Lat
            * (gq.1 * aux.cosLatGradLogSp.1 + gq.2 * aux.cosLatGradLogSp.2)) g.θ g.wIL (g.wF * g.wF)
          (fun u v => by pw hg)]
      rw [add_smul_col, add_smul_col]
      rw [zipWith_smul_right_rw (fun (qq t : N) => (p.phys.Rvapor / p.phys.R - 1) • (qq * t)) g.θ g.θ
          (fun u v => by pw hg)]
      rw [geopotentialDiff_act]
      rw [zipWith_smul_rw (fun (gd tm : N) => -(p.ops.laplacian (p.ops.toModal gd)) - p.ops.toModal tm)
          (g.wR * g.θ) (g.wF * g.wF) (g.wF * g.wF)
          (fun u v => by
            show -(g.wL2 • p.ops.laplacian (p.ops.toModal _)) - p.ops.toModal _ = _
            simp only [hl.toModal_smul, hl.laplacian_smul]
            pw hg)]

theorem vorticityTendencyDueToHumidity_act (hg : g.Valid) (hl : OpsLaws p.ops) (c : K) (s : State M)
    (aux : Diag N) :
    MoistPrimitiveEquations.vorticityTendencyDueToHumidity (actEq g p)
        (actState g c p.ops.oneModal s) (actDiag g aux)
      = (MoistPrimitiveEquations.vorticityTendencyDueToHumidity p s aux).map (Col.smul (g.wF * g.wF)) := by
  unfold MoistPrimitiveEquations.vorticityTendencyDueToHumidity
    MoistPrimitiveEquations.getSpecificHumidity
  have hstr : (actState g c p.ops.oneModal s).tracers = s.tracers := rfl
  rw [hstr]
  cases lookup specificHumidityKey s.tracers with
  | none => rfl
  | some qModal =>
    simp only [Option.bind_eq_bind, Option.bind_some, Option.pure_def, Option.map_some]
    rw [tRef_act, nodalCosLatGradQ_act p hl]
    have hR : (constN ((actEq g p).phys.Rvapor - (actEq g p).phys.R) : N)
        = g.wR • constN (p.phys.Rvapor - p.phys.R) := constN_scaled _ _ _
    have hsec : (actEq g p).ops.sec2Lat = p.ops.sec2Lat := rfl
    have htm : (actEq g p).ops.toModal = p.ops.toModal := rfl
    have hG : (actDiag g aux).cosLatGradLogSp
        = (g.wIL • aux.cosLatGradLogSp.1, g.wIL • aux.cosLatGradLogSp.2) := rfl
    rw [hR, hsec, htm, hG]
    rw [zipWith_smul_rw (fun (tr : N) (gq : N × N) => tr * constN (p.phys.Rvapor - p.phys.R) * p.ops.sec2Lat
          * (aux.cosLatGradLogSp.1 * gq.2 - aux.cosLatGradLogSp.2 * gq.1)) g.θ g.wIL (g.wF * g.wF)
        (fun u v => by pw hg)]
    rw [map_smul_rw p.ops.toModal (g.wF * g.wF) (g.wF * g.wF) (fun u => hl.toModal_smul _ _)]

/-- `MoistPrimitiveEquations.explicit_terms` for any `_virtual_temperature` method that scales like
 `R·T` -/
theorem explicitTermsWith_act [BEq K] [LawfulBEq K] (hg : g.Valid) (hl : OpsLaws p.ops)
    (vt' vt : Diag N → List N → Option (List N))
    (hvt : ∀ aux mc, vt' (actDiag g aux) mc = (vt aux mc).map (Col.smul g.wE))
    (c : K) (s : StateWithTime K M) :
    MoistPrimitiveEquations.explicitTermsWith (actEq g p) vt' (actStateT g c p.ops.oneModal s)
      = (MoistPrimitiveEquations.explicitTermsWith p vt s).map (actTendT g) := by
  unfold MoistPrimitiveEquations.explicitTermsWith
  have h0 : computeDiagnosticState (actEq g p).ops (actEq g p).vert (actStateT g c p.ops.oneModal s).state
      = actDiag g (computeDiagnosticState p.ops p.vert s.state) :=
    computeDiagnosticState_act hg hl p.vert c s.state
  have hs : (actStateT g c p.ops.oneModal s).state = actState g c p.ops.oneModal s.state := rfl
  simp only [h0]
  rw [hs, moistCurlAndDivTendencies_act p hg hl vt' vt hvt, vorticityTendencyDueToHumidity_act p hg hl,
    divergenceTendencyDueToHumidity_act p hg hl, moistAdiabatic_act p hg, kineticEnergyTendency_act p hg hl,
    orographyTendency_act p hg hl]
  cases MoistPrimitiveEquations.curlAndDivTendencies p vt (computeDiagnosticState p.ops p.vert s.state) with
  | none => rfl
  | some cd =>
    cases MoistPrimitiveEquations.vorticityTendencyDueToHumidity p s.state
        (computeDiagnosticState p.ops p.vert s.state) with
    | none => rfl
    | some hv =>
      cases MoistPrimitiveEquations.divergenceTendencyDueToHumidity p s.state
          (computeDiagnosticState p.ops p.vert s.state) with
      | none => rfl
      | some hd =>
        cases MoistPrimitiveEquations.nodalTemperatureAdiabaticTendency p
            (computeDiagnosticState p.ops p.vert s.state) with
        | none => rfl
        | some ad =>
          simp only [Option.map_some, Option.bind_eq_bind, Option.bind_some, Option.pure_def]
          rw [thermoTendencies_act p hg hl]
          simp only []
          rw [add_smul_col, add_smul_col, addLevel_smul_col, add_smul_col]
          simp only [actTendT]
          rw [← clipState_act p hl]
          rfl

theorem moistExplicitTerms_act [BEq K] [LawfulBEq K] (hg : g.Valid) (hl : OpsLaws p.ops) (c : K)
    (s : StateWithTime K M) :
    MoistPrimitiveEquations.explicitTerms (actEq g p) (actStateT g c p.ops.oneModal s)
      = (MoistPrimitiveEquations.explicitTerms p s).map (actTendT g) :=
  explicitTermsWith_act p hg hl _ _ (virtualTemperature_act p hg) c s

theorem cloudExplicitTerms_act [BEq K] [LawfulBEq K] (hg : g.Valid) (hl : OpsLaws p.ops) (c : K)
    (s : StateWithTime K M) :
    MoistPrimitiveEquationsWithCloudMoisture.explicitTerms (actEq g p) (actStateT g c p.ops.oneModal s)
      = (MoistPrimitiveEquationsWithCloudMoisture.explicitTerms p s).map (actTendT g) :=
  explicitTermsWith_act p hg hl _ _ (virtualTemperatureWithClouds_act p hg) c s

end moist

/-! ## the classes with time -/
section withTime
variable {K M N : Type} [Field K] [AddCommGroup M] [Module K M] [CommRing N] [Algebra K N]
variable {g : Scale K} (p : PrimitiveEquations K M N)

theorem timeExplicitTerms_act [BEq K] [LawfulBEq K] (hg : g.Valid) (hl : OpsLaws p.ops) (c : K)
    (s : StateWithTime K M) :
    PrimitiveEquationsWithTime.explicitTerms (actEq g p) (actStateT g c p.ops.oneModal s)
      = actTendT g (PrimitiveEquationsWithTime.explicitTerms p s) := by
  unfold PrimitiveEquationsWithTime.explicitTerms actTendT
  have hs : (actStateT g c p.ops.oneModal s).state = actState g c p.ops.oneModal s.state := rfl
  rw [hs, explicitTerms_act p hg hl]

theorem timeImplicitTerms_act (hg : g.Valid) (hl : OpsLaws p.ops) (c : K) (s : StateWithTime K M) :
    PrimitiveEquationsWithTime.implicitTerms (actEq g p) (actStateT g c p.ops.oneModal s)
      = actTendT g (PrimitiveEquationsWithTime.implicitTerms p s) := by
  unfold PrimitiveEquationsWithTime.implicitTerms actTendT
  have hs : (actStateT g c p.ops.oneModal s).state = actState g c p.ops.oneModal s.state := rfl
  rw [hs, implicitTerms_act p hg hl]

end withTime
end Dino.Scaling
