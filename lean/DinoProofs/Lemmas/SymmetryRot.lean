import DinoProofs.Lemmas.SymmetrySH
import Mathlib.Analysis.SpecialFunctions.Trigonometric.Basic

/-!
# Lemmas for C10, part 9: rotation by `k` grid steps, both layouts (T10.2)

`TrigTable cs sn N`: what is used of the tables `cs j = cos(2πj/N)`, `sn j = sin(2πj/N)` (they are
external to the model, as in `Dino.Fourier`): angle addition modulo `N` and `cos² + sin² = 1`.
`trigTable_real` shows that the real cosine and sine satisfy it for every `N > 0`.
-/
namespace Dino.Symmetry
open Finset Dino.Lin Dino.SH Dino.SHEquiv Dino.Fourier

section trig
variable {K : Type} [Field K]

structure TrigTable (cs sn : ℕ → K) (N : ℕ) : Prop where
  cs_zero : cs 0 = 1
  sn_zero : sn 0 = 0
  cs_add : ∀ a b, cs ((a + b) % N) = cs (a % N) * cs (b % N) - sn (a % N) * sn (b % N)
  sn_add : ∀ a b, sn ((a + b) % N) = sn (a % N) * cs (b % N) + cs (a % N) * sn (b % N)
  pyth : ∀ a, cs (a % N) * cs (a % N) + sn (a % N) * sn (a % N) = 1

variable {cs sn : ℕ → K} {N : ℕ}

theorem TrigTable.shift_index (i k m : ℕ) : ((i + k) % N * m) % N = (i * m + m * k) % N := by
  rw [Nat.mod_mul_mod, Nat.add_mul, Nat.mul_comm k m]

theorem TrigTable.cs_shift (tt : TrigTable cs sn N) (i k m : ℕ) :
    cs (((i + k) % N * m) % N)
      = cs ((i * m) % N) * cs ((m * k) % N) - sn ((i * m) % N) * sn ((m * k) % N) := by
  rw [TrigTable.shift_index, tt.cs_add]

theorem TrigTable.sn_shift (tt : TrigTable cs sn N) (i k m : ℕ) :
    sn (((i + k) % N * m) % N)
      = sn ((i * m) % N) * cs ((m * k) % N) + cs ((i * m) % N) * sn ((m * k) % N) := by
  rw [TrigTable.shift_index, tt.sn_add]

end trig

/-- the tables of the real cosine and sine satisfy `TrigTable`, for every number of nodes -/
theorem trigTable_real (N : ℕ) (hN : 0 < N) :
    TrigTable (fun j : ℕ => Real.cos (2 * Real.pi * j / N)) (fun j : ℕ => Real.sin (2 * Real.pi * j / N))
      N := by
  have hN' : (N : ℝ) ≠ 0 := by exact_mod_cast hN.ne'
  have hsplit : ∀ a : ℕ, 2 * Real.pi * (a : ℝ) / N
      = 2 * Real.pi * ((a % N : ℕ) : ℝ) / N + ((a / N : ℕ) : ℝ) * (2 * Real.pi) := by
    intro a
    have h : (a : ℝ) = ((a % N : ℕ) : ℝ) + (N : ℝ) * ((a / N : ℕ) : ℝ) := by
      exact_mod_cast (Nat.mod_add_div a N).symm
    generalize ((a % N : ℕ) : ℝ) = u at h ⊢
    generalize ((a / N : ℕ) : ℝ) = v at h ⊢
    rw [h]
    field_simp
  have hc : ∀ a : ℕ, Real.cos (2 * Real.pi * ((a % N : ℕ) : ℝ) / N) = Real.cos (2 * Real.pi * (a : ℝ) / N) := by
    intro a
    rw [hsplit a, Real.cos_add_nat_mul_two_pi]
  have hs : ∀ a : ℕ, Real.sin (2 * Real.pi * ((a % N : ℕ) : ℝ) / N) = Real.sin (2 * Real.pi * (a : ℝ) / N) := by
    intro a
    rw [hsplit a, Real.sin_add_nat_mul_two_pi]
  have hadd : ∀ a b : ℕ, 2 * Real.pi * ((a + b : ℕ) : ℝ) / N
      = 2 * Real.pi * (a : ℝ) / N + 2 * Real.pi * (b : ℝ) / N := by
    intro a b; push_cast; ring
  refine ⟨by simp, by simp, ?_, ?_, ?_⟩
  · intro a b
    simp only [hc, hs]
    rw [hadd, Real.cos_add]
  · intro a b
    simp only [hc, hs]
    rw [hadd, Real.sin_add]
  · intro a
    have := Real.cos_sq_add_sin_sq (2 * Real.pi * ((a % N : ℕ) : ℝ) / N)
    simp only [sq] at this
    exact this

/-! ## the real layout: rows `0, +1, −1, +2, −2, …` -/
section real
set_option linter.unusedSectionVars false
variable {K : Type} [Field K]

/-- the rotation of `Dino.Symmetry.rotReal` in local form -/
def realRow (cs sn : ℕ → K) (N k : ℕ) : RowMap K where
  α r := if r = 0 then 1 else cs ((((r + 1) / 2) * k) % N)
  β r := if r = 0 then 0 else
    if r % 2 = 1 then -sn ((((r + 1) / 2) * k) % N) else sn ((((r + 1) / 2) * k) % N)
  nb r := if r = 0 then 0 else if r % 2 = 1 then r + 1 else r - 1

variable (cs sn : ℕ → K) (N k : ℕ)

theorem realRow_zero (g : ℕ → K) : (realRow cs sn N k).app g 0 = g 0 := by
  simp [realRow, RowMap.app]

theorem realRow_odd (g : ℕ → K) (m : ℕ) :
    (realRow cs sn N k).app g (2 * m + 1)
      = cs (((m + 1) * k) % N) * g (2 * m + 1) - sn (((m + 1) * k) % N) * g (2 * m + 2) := by
  have h1 : (2 * m + 1 + 1) / 2 = m + 1 := by omega
  have h2 : (2 * m + 1) % 2 = 1 := by omega
  simp only [realRow, RowMap.app, Nat.add_eq_zero_iff, one_ne_zero, and_false, if_false, h1, h2, if_true]
  ring

theorem realRow_even (g : ℕ → K) (m : ℕ) :
    (realRow cs sn N k).app g (2 * m + 2)
      = sn (((m + 1) * k) % N) * g (2 * m + 1) + cs (((m + 1) * k) % N) * g (2 * m + 2) := by
  have h1 : (2 * m + 2 + 1) / 2 = m + 1 := by omega
  have h2 : ¬ (2 * m + 2) % 2 = 1 := by omega
  have h3 : 2 * m + 2 - 1 = 2 * m + 1 := by omega
  have h0 : ¬ (2 * m + 2 = 0) := by omega
  simp only [realRow, RowMap.app, h0, if_false, h1, h2, h3]
  ring

theorem row_cases (r : ℕ) : r = 0 ∨ (∃ m, r = 2 * m + 1) ∨ (∃ m, r = 2 * m + 2) := by
  rcases Nat.eq_zero_or_pos r with h | h
  · exact Or.inl h
  · rcases Nat.mod_two_eq_zero_or_one r with h2 | h2
    · exact Or.inr (Or.inr ⟨r / 2 - 1, by omega⟩)
    · exact Or.inr (Or.inl ⟨r / 2, by omega⟩)

/-- a sum over the rows of the real layout, pair by pair -/
theorem sum_range_odd {A : Type} [AddCommMonoid A] (g : ℕ → A) (H : ℕ) :
    ∑ r ∈ range (2 * H + 1), g r = g 0 + ∑ m ∈ range H, (g (2 * m + 1) + g (2 * m + 2)) := by
  induction H with
  | zero => simp
  | succ H ih =>
    have : 2 * (H + 1) + 1 = 2 * H + 1 + 1 + 1 := by ring
    rw [this, Finset.sum_range_succ, Finset.sum_range_succ, ih, Finset.sum_range_succ]
    have e1 : 2 * H + 1 + 1 = 2 * H + 2 := by ring
    rw [e1, add_assoc, add_assoc]

variable {cs sn N}

/-- the rotation is orthogonal on the rows of the real layout -/
theorem realRow_ortho (tt : TrigTable cs sn N) (H : ℕ) (a c : ℕ → K) :
    ∑ r ∈ range (2 * H + 1), (realRow cs sn N k).app a r * (realRow cs sn N k).app c r
      = ∑ r ∈ range (2 * H + 1), a r * c r := by
  rw [sum_range_odd, sum_range_odd, realRow_zero, realRow_zero]
  congr 1
  apply Finset.sum_congr rfl
  intro m _
  rw [realRow_odd, realRow_odd, realRow_even, realRow_even]
  have hp := tt.pyth ((m + 1) * k)
  linear_combination (a (2 * m + 1) * c (2 * m + 1) + a (2 * m + 2) * c (2 * m + 2)) * hp

/-! ### entries of the Fourier matrix -/

theorem flatMap_pair_length (a b : ℕ → K) (H : ℕ) :
    ((List.range H).flatMap fun j => [a j, b j]).length = 2 * H := by
  induction H with
  | zero => simp
  | succ H ih => rw [List.range_succ, List.flatMap_append, List.length_append, ih]; simp; omega

theorem ent_flatMap_pair (a b : ℕ → K) (H m : ℕ) (hm : m < H) :
    ent ((List.range H).flatMap fun j => [a j, b j]) (2 * m) = a m ∧
    ent ((List.range H).flatMap fun j => [a j, b j]) (2 * m + 1) = b m := by
  induction H with
  | zero => omega
  | succ H ih =>
    rw [List.range_succ, List.flatMap_append, ent_append, ent_append, flatMap_pair_length]
    rcases Nat.lt_or_ge m H with h | h
    · rw [if_pos (by omega), if_pos (by omega)]
      exact ih h
    · have : m = H := by omega
      subst this
      rw [if_neg (by omega), if_neg (by omega)]
      have e1 : 2 * m - 2 * m = 0 := by omega
      have e2 : 2 * m + 1 - 2 * m = 1 := by omega
      rw [e1, e2]
      simp

variable (cs sn) (s2p sp : K) (M : ℕ) (N)

theorem ent2_realBasis_zero (i : ℕ) (hi : i < N) : ent2 (realBasis cs sn s2p sp M N) i 0 = 1 / s2p := by
  unfold realBasis
  rw [ent2_range_map, if_pos hi]
  simp

theorem ent2_realBasis_cos (i m : ℕ) (hi : i < N) (hm : m + 1 < M) :
    ent2 (realBasis cs sn s2p sp M N) i (2 * m + 1) = cs ((i * (m + 1)) % N) / sp := by
  unfold realBasis
  rw [ent2_range_map, if_pos hi, ent_cons_succ]
  exact (ent_flatMap_pair _ _ (M - 1) m (by omega)).1

theorem ent2_realBasis_sin (i m : ℕ) (hi : i < N) (hm : m + 1 < M) :
    ent2 (realBasis cs sn s2p sp M N) i (2 * m + 2) = sn ((i * (m + 1)) % N) / sp := by
  unfold realBasis
  rw [ent2_range_map, if_pos hi, ent_cons_succ]
  exact (ent_flatMap_pair _ _ (M - 1) m (by omega)).2

variable {cs sn N}

/-- **the data of the rotation for `RealSphericalHarmonics.basis`**, every `M ≥ 1`, `N > 0`, `k`,
 every Legendre table set `P` (one table per `|m|`) and every weight vector -/
theorem rotData_real (tt : TrigTable cs sn N) (hN : 0 < N) (hM : 1 ≤ M) (P : List (List (List K)))
    (w : List K) :
    RotData (realBasisOf (realBasis cs sn s2p sp M N) P w) N (2 * M - 1) k (realRow cs sn N k) where
  nb_lt r hr := by
    simp only [realRow]
    split
    · omega
    · split <;> omega
  ortho a c := by
    have : 2 * M - 1 = 2 * (M - 1) + 1 := by omega
    rw [this]
    exact realRow_ortho k tt (M - 1) a c
  basis i hi r hr := by
    have hi2 : (i + k) % N < N := Nat.mod_lt _ hN
    show ent2 (realBasis cs sn s2p sp M N) ((i + k) % N) r
      = (realRow cs sn N k).app (fun r => ent2 (realBasis cs sn s2p sp M N) i r) r
    rcases row_cases r with rfl | ⟨m, rfl⟩ | ⟨m, rfl⟩
    · rw [realRow_zero, ent2_realBasis_zero _ _ _ _ _ _ _ hi2, ent2_realBasis_zero _ _ _ _ _ _ _ hi]
    · have hm : m + 1 < M := by omega
      rw [realRow_odd, ent2_realBasis_cos _ _ _ _ _ _ _ _ hi2 hm, ent2_realBasis_cos _ _ _ _ _ _ _ _ hi hm,
        ent2_realBasis_sin _ _ _ _ _ _ _ _ hi hm, tt.cs_shift]
      ring
    · have hm : m + 1 < M := by omega
      rw [realRow_even, ent2_realBasis_sin _ _ _ _ _ _ _ _ hi2 hm, ent2_realBasis_cos _ _ _ _ _ _ _ _ hi hm,
        ent2_realBasis_sin _ _ _ _ _ _ _ _ hi hm, tt.sn_shift]
      ring
  tables r _ j l := by
    rw [ent3_realBasisOf, ent3_realBasisOf]
    congr 1
    simp only [realRow]
    split
    · omega
    · split <;> omega

/-! ### entries of `rotReal` -/

variable (cs sn N)

theorem rotReal_length (x : List (List K)) : (rotReal cs sn N k x).length = x.length := by
  simp [rotReal]

theorem ent2_rotReal (x : List (List K)) (L : ℕ) (hx : ∀ row ∈ x, row.length = L)
    (hodd : x.length % 2 = 1) (r l : ℕ) (hr : r < x.length) :
    ent2 (rotReal cs sn N k x) r l = (realRow cs sn N k).app (fun r => ent2 x r l) r := by
  have hlen : ∀ q, q < x.length → (x.getD q []).length = L := by
    intro q hq
    rw [getD_eq_getElem_nil x q hq]
    exact hx _ (List.getElem_mem _)
  unfold rotReal
  rw [ent2_range_map, if_pos hr]
  rcases row_cases r with rfl | ⟨m, rfl⟩ | ⟨m, rfl⟩
  · rw [realRow_zero]; rfl
  · have h1 : (2 * m + 1 + 1) / 2 = m + 1 := by omega
    have h2 : (2 * m + 1) % 2 = 1 := by omega
    simp only [Nat.add_eq_zero_iff, one_ne_zero, and_false, if_false, h1, h2, if_true]
    rw [ent_zipWith_of _ (by ring) _ _ (by rw [hlen _ hr, hlen _ (by omega)]), realRow_odd]
    rfl
  · have h1 : (2 * m + 2 + 1) / 2 = m + 1 := by omega
    have h2 : ¬ (2 * m + 2) % 2 = 1 := by omega
    have h3 : 2 * m + 2 - 1 = 2 * m + 1 := by omega
    have h0 : ¬ (2 * m + 2 = 0) := by omega
    simp only [h0, if_false, h1, h2, h3]
    rw [ent_zipWith_of _ (by ring) _ _ (by rw [hlen _ hr, hlen _ (by omega)]), realRow_even]
    rfl

theorem rotReal_rows (x : List (List K)) (L : ℕ) (hx : ∀ row ∈ x, row.length = L)
    (hodd : x.length % 2 = 1) : ∀ row ∈ rotReal cs sn N k x, row.length = L := by
  have hlen : ∀ q, q < x.length → (x.getD q []).length = L := by
    intro q hq
    rw [getD_eq_getElem_nil x q hq]
    exact hx _ (List.getElem_mem _)
  intro row hrow
  simp only [rotReal, List.mem_map, List.mem_range] at hrow
  obtain ⟨r, hr, rfl⟩ := hrow
  split
  · exact hlen 0 (by omega)
  · split
    · rw [List.length_zipWith, hlen _ hr, hlen _ (by omega)]; simp
    · rw [List.length_zipWith, hlen _ hr, hlen _ (by omega)]; simp

end real
end Dino.Symmetry
