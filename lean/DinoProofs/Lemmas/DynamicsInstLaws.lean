import DinoProofs.Lemmas.DynamicsInstMask

/-!
# The ANALYTIC laws of the concrete instance, as hypotheses on the tables only

`AnalyticLaws g` collects what is left of `Dino.Dynamics.Laws` once every structural law is a theorem of
`gridOps g`: statements about the transform pair and the nodal tables of the list model —

* `sec_cos`      `sec²θ_j · cos²θ_j = 1` (the two nodal tables are consistent),
* `toNodal_one`  synthesis of the constant mode is the nodal one,
* `gram`         the Gram identity of C01: `to_modal ∘ to_nodal` is the identity, below the top wavenumber, on
                 masked arrays with the top wavenumber clipped,
* `hypA`, `hypB` Hyp-A / Hyp-B of C02 (`div S grad = ∇²`, `curl S grad = 0` through the nodal `cos⁻²θ`
                 sandwich `S`) in exactly the form `Dino.C02.vor_div_roundtrip` takes them, on `Dom ly 1`.

`laws_of_analytic : g.WF → AnalyticLaws g → LawsOn (gridOps g) (Masked g)`: the six linearities, `∇² 1 = 0`,
the reduction of `div_uv` to `div_grad` / `curl_grad`, the extension of Hyp-A from zero-mean fields to fields
with a `(0,0)` coefficient and the bookkeeping of clip / mask are proved; nothing else is assumed.
-/
set_option linter.unusedSectionVars false
set_option linter.unusedSimpArgs false
set_option linter.unusedVariables false

namespace Dino.DynamicsInst
open Dino Dino.Dynamics Dino.Grid Dino.SH Dino.Lin Dino.Invariants Dino.Balance Dino.Scaling

/-! ## abstract: `div(uv(ζ, δ)) = δ` follows from `div grad = ∇²` and `curl grad = 0` -/
section abstract
variable {K M N : Type} [Field K] [AddCommGroup M] [Module K M] [CommRing N] [Algebra K N]
variable (h : HOps K M N)

/-- the nodal sandwich `to_modal(to_nodal(·)·sec²θ)` -/
def Ssec (u : M) : M := h.toModal (h.toNodal u * h.sec2Lat)

theorem weighted_one (p : M) :
    weightedGradSec2 h 1 (nodalGrad h p) = (Ssec h (h.cosLatGrad false p).1, Ssec h (h.cosLatGrad false p).2) := by
  simp only [weightedGradSec2, nodalGrad, Ssec, one_mul]

theorem divSecLat_toNodal (u v : M) :
    h.divSecLat (h.toNodal u) (h.toNodal v) = h.divCosLat false (Ssec h u, Ssec h v) := rfl

variable {h}

theorem Ssec_add (L : LinLaws h) (u v : M) : Ssec h (u + v) = Ssec h u + Ssec h v := by
  simp only [Ssec, L.toNodal.map_add, add_mul, L.toModal.map_add]

theorem Ssec_neg (L : LinLaws h) (u : M) : Ssec h (-u) = -Ssec h u := by
  simp only [Ssec, L.toNodal.map_neg, neg_mul, L.toModal.map_neg]

/-- **`div_uv` from `div_grad` and `curl_grad`** (restricted form): with `χ = ∇⁻²δ`, `ψ = ∇⁻²ζ`,
 `div(S(∇χ + k×∇ψ)) = div S ∇χ − curl S ∇ψ = ∇²χ − 0 = δ` -/
theorem div_uv_of_grad (L : LinLaws h) (Mk : Submodule K M)
    (hinv : ∀ x ∈ Mk, h.inverseLaplacian x ∈ Mk)
    (hci : ∀ x, h.clip (h.inverseLaplacian x) = h.inverseLaplacian (h.clip x))
    (curl_grad : ∀ p ∈ Mk, h.clip p = p →
      h.clip (h.curlCosLat false (weightedGradSec2 h 1 (nodalGrad h p))) = 0)
    (div_grad : ∀ p ∈ Mk, h.clip p = p →
      h.clip (h.divCosLat false (weightedGradSec2 h 1 (nodalGrad h p))) = h.laplacian p)
    (z : M) (hz : z ∈ Mk) (d : M) (hd : d ∈ Mk) (hcz : h.clip z = z) (hcd : h.clip d = d)
    (hm : h.laplacian (h.inverseLaplacian d) = d) :
    h.clip (h.divSecLat (h.toNodal (h.cosLatVector false z d).1) (h.toNodal (h.cosLatVector false z d).2)) = d := by
  have hχ : h.clip (h.inverseLaplacian d) = h.inverseLaplacian d := by rw [hci, hcd]
  have hψ : h.clip (h.inverseLaplacian z) = h.inverseLaplacian z := by rw [hci, hcz]
  have A := div_grad _ (hinv d hd) hχ
  have B := curl_grad _ (hinv z hz) hψ
  rw [weighted_one] at A B
  rw [divSecLat_toNodal]
  have e : h.cosLatVector false z d
      = ((h.cosLatGrad false (h.inverseLaplacian d)).1 + -(h.cosLatGrad false (h.inverseLaplacian z)).2,
         (h.cosLatGrad false (h.inverseLaplacian d)).2 + (h.cosLatGrad false (h.inverseLaplacian z)).1) := rfl
  rw [e]
  simp only [Ssec_add L, Ssec_neg L]
  generalize Ssec h (h.cosLatGrad false (h.inverseLaplacian d)).1 = c1 at A ⊢
  generalize Ssec h (h.cosLatGrad false (h.inverseLaplacian d)).2 = c2 at A ⊢
  generalize Ssec h (h.cosLatGrad false (h.inverseLaplacian z)).1 = p1 at B ⊢
  generalize Ssec h (h.cosLatGrad false (h.inverseLaplacian z)).2 = p2 at B ⊢
  have split : h.divCosLat false (c1 + -p2, c2 + p1)
      = h.divCosLat false (c1, c2) - h.curlCosLat false (p1, p2) := by
    simp only [HOps.divCosLat, HOps.curlCosLat, Bool.false_eq_true, if_false, L.dDlon.map_add,
      L.dDlon.map_neg, L.secLatDDlatCos2.map_add]
    module
  rw [split, L.clip.map_sub, A, B, sub_zero, hm]

end abstract

/-! ## the analytic hypotheses -/
section analytic
variable {K : Type} [Field K] (g : GridData K)

/-- masked arrays of the grid's shape with the top total wavenumber (and the padding) empty -/
def DomMC (ly : Layout) (x : List (List K)) : Prop :=
  IsMat x ly.rows ly.cols ∧ (∀ i j, ly.L ≤ j + 1 → ent2 x i j = 0) ∧ ∀ i j, ly.maskAt i j = false → ent2 x i j = 0

/-- **what remains to be assumed**: statements about the tables of the list model only -/
structure AnalyticLaws : Prop where
  cos_len : g.cosLat.length = g.nlat
  /-- `sec²θ · cos²θ = 1` at every latitude node (in particular no node at a pole) -/
  sec_cos : ∀ j < g.nlat, ent g.sec2Lat j * (ent g.cosLat j * ent g.cosLat j) = 1
  /-- synthesis of the constant mode is the constant one -/
  toNodal_one : ∀ i < g.nlon, ∀ j < g.nlat, ent2 (g.T.toNodal (toL (gridOps g).oneModal)) i j = 1
  /-- C01: the Gram identity on the masked, clipped block -/
  gram : ∀ x, DomMC g.ly x → ∀ i j, j + 1 < g.ly.L → ent2 (g.T.toModal (g.T.toNodal x)) i j = ent2 x i j
  /-- C02 Hyp-A (`clip = False`) -/
  hypA : ∀ ψ, C02.Dom g.ly 1 ψ → ∀ i j, j + 1 < g.ly.L →
    ent2 (divCosLatW g.ly g.radius g.a g.b
      (C02.sandwich g.T g.cosLat (cosLatGradW g.ly g.radius g.a g.b ψ false).1,
       C02.sandwich g.T g.cosLat (cosLatGradW g.ly g.radius g.a g.b ψ false).2) false) i j
      = ent2 (Grid.laplacian g.ly g.radius ψ) i j
  /-- C02 Hyp-B (`clip = False`) -/
  hypB : ∀ ψ, C02.Dom g.ly 1 ψ → ∀ i j, j + 1 < g.ly.L →
    ent2 (curlCosLatW g.ly g.radius g.a g.b
      (C02.sandwich g.T g.cosLat (cosLatGradW g.ly g.radius g.a g.b ψ false).1,
       C02.sandwich g.T g.cosLat (cosLatGradW g.ly g.radius g.a g.b ψ false).2) false) i j = 0

variable {g}

/-! ### the derived operations of the record are the derived operations of `Dino.Grid` -/

theorem mscale_inv_eq_mdivc (r : K) (l : List (List K)) : mscale (1 / r) l = mdivc l r := by
  simp only [mscale, mdivc, scale]
  apply List.map_congr_left
  intro row _
  apply List.map_congr_left
  intro v _
  rw [one_div, div_eq_mul_inv, mul_comm]

theorem toL_sub {R C : Nat} (x y : Mat R C K) : toL (x - y) = msub (toL x) (toL y) := by
  apply mat_ext _ _ R C (isMat_toL _) (isMat_msub _ _ R C (isMat_toL x) (isMat_toL y))
  intro i _ j _
  rw [ent2_msub _ _ R C i j (isMat_toL x) (isMat_toL y), ent2_toL, ent2_toL, ent2_toL, ext0_sub]

/-- `Grid.cos_lat_grad(·, clip=False)` of the record is `cosLatGradW` of the list model -/
theorem toL_cosLatGrad (W : g.WF) (p : g.Modal) :
    (toL ((gridOps g).cosLatGrad false p).1, toL ((gridOps g).cosLatGrad false p).2)
      = cosLatGradW g.ly g.radius g.a g.b (toL p) false := by
  show (toL ((1 / g.radius) • (gridOps g).dDlon p), toL ((1 / g.radius) • (gridOps g).cosLatDDlat p)) = _
  rw [toL_smul, toL_smul, toL_dDlon, toL_cosLatDDlat W, mscale_inv_eq_mdivc, mscale_inv_eq_mdivc]
  rfl

/-- `Grid.div_cos_lat(·, clip=False)` of the record is `divCosLatW` of the list model -/
theorem toL_divCosLat (W : g.WF) (u v : g.Modal) :
    toL ((gridOps g).divCosLat false (u, v)) = divCosLatW g.ly g.radius g.a g.b (toL u, toL v) false := by
  show toL ((1 / g.radius) • ((gridOps g).dDlon u + (gridOps g).secLatDDlatCos2 v)) = _
  rw [toL_smul, toL_add, toL_dDlon, toL_secLatDDlatCos2 W, mscale_inv_eq_mdivc]
  rfl

/-- `Grid.curl_cos_lat(·, clip=False)` of the record is `curlCosLatW` of the list model -/
theorem toL_curlCosLat (W : g.WF) (u v : g.Modal) :
    toL ((gridOps g).curlCosLat false (u, v)) = curlCosLatW g.ly g.radius g.a g.b (toL u, toL v) false := by
  show toL ((1 / g.radius) • ((gridOps g).dDlon v - (gridOps g).secLatDDlatCos2 u)) = _
  rw [toL_smul, toL_sub, toL_dDlon, toL_secLatDDlatCos2 W, mscale_inv_eq_mdivc]
  rfl

/-- the nodal `sec²θ` weighting of the record is the `cos⁻²θ` sandwich of C02 -/
theorem toL_Ssec (W : g.WF) (A : AnalyticLaws g) (u : g.Modal) :
    toL (Ssec (gridOps g) u) = C02.sandwich g.T g.cosLat (toL u) := by
  show toL ((gridOps g).toModal ((gridOps g).toNodal u * (gridOps g).sec2Lat)) = _
  rw [toL_toModal W]
  unfold C02.sandwich
  congr 1
  have hz := W.hN.shape _ (isMat_toL u)
  apply mat_ext _ _ g.nlon g.nlat (isMat_toL _)
    (isMat_divCols _ _ _ _ (isMat_divCols _ _ _ _ hz A.cos_len) A.cos_len)
  intro i hi j hj
  rw [ent2_toL, ext0_mul, ← ent2_toL, toL_toNodal W, ent2_divCols, ent2_divCols]
  have hs : ext0 (gridOps g).sec2Lat i j = ent g.sec2Lat j := by
    unfold ext0; rw [dif_pos ⟨hi, hj⟩]; rfl
  rw [hs]
  have h1 := A.sec_cos j hj
  have hc : ent g.cosLat j ≠ 0 := by
    intro h0; rw [h0, mul_zero, mul_zero] at h1; exact zero_ne_one h1
  have : ent g.sec2Lat j = 1 / (ent g.cosLat j * ent g.cosLat j) :=
    eq_one_div_of_mul_eq_one_left h1
  rw [this]
  field_simp

/-- the Hyp-A operator of the record is `Dino.C02.divSGrad` of the list model -/
theorem toL_divSGrad (W : g.WF) (A : AnalyticLaws g) (p : g.Modal) :
    toL ((gridOps g).divCosLat false (weightedGradSec2 (gridOps g) 1 (nodalGrad (gridOps g) p)))
      = C02.divSGrad g.ly g.radius g.a g.b g.T g.cosLat false (toL p) := by
  rw [weighted_one, toL_divCosLat W, toL_Ssec W A, toL_Ssec W A]
  have := toL_cosLatGrad W p
  unfold C02.divSGrad
  rw [← this]

theorem toL_curlSGrad (W : g.WF) (A : AnalyticLaws g) (p : g.Modal) :
    toL ((gridOps g).curlCosLat false (weightedGradSec2 (gridOps g) 1 (nodalGrad (gridOps g) p)))
      = C02.curlSGrad g.ly g.radius g.a g.b g.T g.cosLat false (toL p) := by
  rw [weighted_one, toL_curlCosLat W, toL_Ssec W A, toL_Ssec W A]
  have := toL_cosLatGrad W p
  unfold C02.curlSGrad
  rw [← this]

/-! ### clipped / masked function arrays and the domains of C01 / C02 -/

theorem clipped_of_clip_eq {x : g.Modal} (hc : (gridOps g).clip x = x) (a b : Nat) (hb : g.ly.L ≤ b + 1) :
    ext0 x a b = 0 := by
  unfold ext0
  split
  · rename_i h
    have := congrFun (congrFun hc ⟨a, h.1⟩) ⟨b, h.2⟩
    rw [clip_apply, if_neg (by simpa using hb)] at this
    exact this.symm
  · rfl

theorem domMC_toL {x : g.Modal} (hx : x ∈ Masked g) (hc : (gridOps g).clip x = x) : DomMC g.ly (toL x) :=
  ⟨isMat_toL x, fun i j h => by rw [ent2_toL]; exact clipped_of_clip_eq hc i j h,
    fun i j h => by rw [ent2_toL]; exact ext0_of_mem hx i j h⟩

/-- the `(0,0)` part of a field, as a multiple of the unit array -/
def e00 (g : GridData K) (q : K) : g.Modal := fun i j => if i.val = 0 ∧ j.val = 0 then q else 0

theorem e00_eq (q : K) : e00 g q = (gridOps { g with c00 := q }).oneModal := rfl

theorem dDlon_e00 (q : K) : (gridOps g).dDlon (e00 g q) = 0 := dDlon_one (g := { g with c00 := q })
theorem cosLatDDlat_e00 (W : g.WF) (q : K) : (gridOps g).cosLatDDlat (e00 g q) = 0 :=
  cosLatDDlat_one (g := { g with c00 := q }) ⟨W.ha, W.hb, W.hN, W.hM⟩
theorem laplacian_e00 (q : K) : (gridOps g).laplacian (e00 g q) = 0 := laplacian_one (g := { g with c00 := q })

/-- a masked, clipped field minus its `(0,0)` part lies in the domain `Dom ly 1` of Hyp-A / Hyp-B -/
theorem dom_sub_e00 {x : g.Modal} (hx : x ∈ Masked g) (hc : (gridOps g).clip x = x) :
    C02.Dom g.ly 1 (toL (x - e00 g (ext0 x 0 0))) := by
  refine ⟨isMat_toL _, ?_, ?_⟩
  · intro i j hj
    rw [ent2_toL, ext0_sub]
    have he : ∀ a b, ext0 (e00 g (ext0 x 0 0)) a b
        = if (a = 0 ∧ b = 0) ∧ (0 < g.ly.rows ∧ 0 < g.ly.cols) then ext0 x 0 0 else 0 :=
      fun a b => ext0_oneModal (g := { g with c00 := ext0 x 0 0 }) a b
    rw [he]
    rcases hj with hj | hj
    · subst hj
      by_cases hi : i = 0
      · subst hi
        by_cases hrc : 0 < g.ly.rows ∧ 0 < g.ly.cols
        · rw [if_pos ⟨⟨rfl, rfl⟩, hrc⟩, sub_self]
        · rw [if_neg (fun h => hrc h.2), sub_zero]
          exact ext0_of_not x 0 0 (fun h => hrc ⟨by omega, by omega⟩)
      · rw [if_neg (fun h => hi h.1.1), sub_zero]
        apply ext0_of_mem hx
        rw [Layout.maskAt_false_iff]
        rintro ⟨⟨hr, hl⟩, hL⟩
        have h0 := hl hL
        unfold Layout.rowOk at hr
        unfold Layout.mAbs at h0
        cases hf : g.ly.fast
        · simp [hf] at h0; omega
        · have := hr hf
          simp [hf, this.2] at h0; omega
    · rw [clipped_of_clip_eq hc i j hj, zero_sub, neg_eq_zero]
      split
      · rename_i h0
        obtain ⟨⟨rfl, rfl⟩, _⟩ := h0
        exact clipped_of_clip_eq hc 0 0 hj
      · rfl
  · intro i j hm
    rw [ent2_toL, ext0_sub, ext0_of_mem hx i j hm, zero_sub, neg_eq_zero]
    have he := ext0_oneModal (g := { g with c00 := ext0 x 0 0 }) i j
    show ext0 (e00 g (ext0 x 0 0)) i j = 0
    rw [e00_eq, he]
    split
    · rename_i h0
      rw [h0.1.1, h0.1.2] at hm
      exact ext0_of_mem hx 0 0 hm
    · rfl

/-! ### the laws -/

theorem toNodal_one_of (A : AnalyticLaws g) : (gridOps g).toNodal (gridOps g).oneModal = 1 := by
  funext i j
  exact A.toNodal_one i.val i.isLt j.val j.isLt

theorem roundtrip_of (W : g.WF) (A : AnalyticLaws g) (x : g.Modal) (hx : x ∈ Masked g)
    (hc : (gridOps g).clip x = x) : (gridOps g).clip ((gridOps g).toModal ((gridOps g).toNodal x)) = x := by
  funext i j
  rw [clip_apply]
  by_cases hj : j.val + 1 < g.ly.L
  · rw [if_pos hj]
    show ent2 (g.T.toModal (toL ((gridOps g).toNodal x))) i.val j.val = x i j
    rw [toL_toNodal W, A.gram _ (domMC_toL hx hc) _ _ hj, ent2_toL_fin]
  · rw [if_neg hj]
    have := clipped_of_clip_eq hc i.val j.val (by omega)
    rw [ext0_fin] at this
    exact this.symm

/-- Hyp-A transported: `div grad = ∇²` for function arrays whose list form lies in `Dom ly 1` -/
theorem div_grad_dom (W : g.WF) (A : AnalyticLaws g) (p : g.Modal) (hp : C02.Dom g.ly 1 (toL p)) :
    (gridOps g).clip ((gridOps g).divCosLat false (weightedGradSec2 (gridOps g) 1 (nodalGrad (gridOps g) p)))
      = (gridOps g).laplacian p := by
  funext i j
  rw [clip_apply, laplacian_apply]
  by_cases hj : j.val + 1 < g.ly.L
  · rw [if_pos hj, (ent2_toL_fin ((gridOps g).divCosLat false
      (weightedGradSec2 (gridOps g) 1 (nodalGrad (gridOps g) p))) i j).symm, toL_divSGrad W A]
    have := A.hypA (toL p) hp i.val j.val hj
    unfold C02.divSGrad
    rw [this]
    unfold Grid.laplacian
    rw [ent2_mulCols, ent2_toL_fin, lapEig_eq]
  · rw [if_neg hj]
    have := hp.2.1 i.val j.val (Or.inr (by omega))
    rw [ent2_toL_fin] at this
    rw [this, zero_mul]

theorem curl_grad_dom (W : g.WF) (A : AnalyticLaws g) (p : g.Modal) (hp : C02.Dom g.ly 1 (toL p)) :
    (gridOps g).clip ((gridOps g).curlCosLat false (weightedGradSec2 (gridOps g) 1 (nodalGrad (gridOps g) p)))
      = 0 := by
  funext i j
  rw [clip_apply]
  show _ = (0 : K)
  by_cases hj : j.val + 1 < g.ly.L
  · rw [if_pos hj, (ent2_toL_fin ((gridOps g).curlCosLat false
      (weightedGradSec2 (gridOps g) 1 (nodalGrad (gridOps g) p))) i j).symm, toL_curlSGrad W A]
    exact A.hypB (toL p) hp i.val j.val hj
  · rw [if_neg hj]

/-- the gradient does not see the `(0,0)` coefficient -/
theorem weighted_sub_e00 (W : g.WF) (p : g.Modal) (q : K) :
    weightedGradSec2 (gridOps g) 1 (nodalGrad (gridOps g) (p - e00 g q))
      = weightedGradSec2 (gridOps g) 1 (nodalGrad (gridOps g) p) := by
  have h1 : (gridOps g).dDlon (p - e00 g q) = (gridOps g).dDlon p := by
    rw [(dDlon_lin (g := g)).map_sub p (e00 g q), dDlon_e00, sub_zero]
  have h2 : (gridOps g).cosLatDDlat (p - e00 g q) = (gridOps g).cosLatDDlat p := by
    rw [(cosLatDDlat_lin W).map_sub p (e00 g q), cosLatDDlat_e00 W, sub_zero]
  simp only [nodalGrad, HOps.cosLatGrad, h1, h2]

/-- **the analytic laws imply the named laws of C04 on the masked coefficient space** -/
theorem laws_of_analytic (W : g.WF) (A : AnalyticLaws g) : LawsOn (gridOps g) (Masked g) where
  toNodal_lin := toNodal_lin W
  toModal_lin := toModal_lin W
  dDlon_lin := dDlon_lin
  secLatDDlatCos2_lin := secLatDDlatCos2_lin W
  laplacian_lin := laplacian_lin
  clip_lin := clip_lin
  toNodal_one := toNodal_one_of A
  lap_one := laplacian_one
  roundtrip := roundtrip_of W A
  curl_grad p hp hc := by
    rw [← weighted_sub_e00 W p (ext0 p 0 0)]
    exact curl_grad_dom W A _ (dom_sub_e00 hp hc)
  div_grad p hp hc := by
    rw [← weighted_sub_e00 W p (ext0 p 0 0), div_grad_dom W A _ (dom_sub_e00 hp hc),
      (laplacian_lin (g := g)).map_sub p (e00 g (ext0 p 0 0)), laplacian_e00, sub_zero]
  div_uv := by
    apply div_uv_of_grad (linLaws W) (Masked g) (fun x hx => inverseLaplacian_zeroSub _ hx)
      clip_inverseLaplacian
    · intro p hp hc
      rw [← weighted_sub_e00 W p (ext0 p 0 0)]
      exact curl_grad_dom W A _ (dom_sub_e00 hp hc)
    · intro p hp hc
      rw [← weighted_sub_e00 W p (ext0 p 0 0), div_grad_dom W A _ (dom_sub_e00 hp hc),
        (laplacian_lin (g := g)).map_sub p (e00 g (ext0 p 0 0)), laplacian_e00, sub_zero]

/-- the constant-mode laws of C05 that are analytic: from `toNodal_one` and `gram` (`c00 ≠ 0` is not needed:
 `to_modal(1)` is computed by the round trip of the constant mode, which must survive `clip`, i.e. `1 < L`) -/
theorem constLaws_of_analytic (W : g.WF) (Mo : g.MaskOk) (A : AnalyticLaws g) (hL : 1 < g.ly.L) :
    (gridOps g).clip ((gridOps g).toModal 1) = (gridOps g).oneModal := by
  rw [← toNodal_one_of A]
  apply roundtrip_of W A _ (oneModal_masked Mo)
  funext i j
  rw [clip_apply, oneModal_apply]
  split
  · rfl
  · rename_i hj
    rw [if_neg]
    rintro ⟨_, h0⟩
    omega

end analytic

/-! ## a second radius: the concrete grid of radius `l·r` IS the scaled record of C12 -/
section scaled
variable {K : Type} [Field K] (g : GridData K)

theorem eig_scaled (s : Scale K) (hl : s.l ≠ 0) (n : Nat) :
    (gridOps { g with radius := s.l * g.radius }).lapEig n = s.wL2 * (gridOps g).lapEig n := by
  rw [lapEig_eq, lapEig_eq, ent_eigenvalues, ent_eigenvalues]
  show (if n < g.ly.cols then _ / (s.l * g.radius * (s.l * g.radius)) else 0) = _
  unfold Scale.wL2
  split
  · field_simp
  · rw [mul_zero]

/-- **C12 `OpsScaled` is a theorem of the list model**: changing the radius of the grid by the length ratio
 `l` rescales the Laplacian by `l⁻²`, its inverse by `l²`, and changes nothing else -/
theorem opsScaled_radius (s : Scale K) (hl : s.l ≠ 0) :
    OpsScaled s (gridOps g) (gridOps { g with radius := s.l * g.radius }) where
  toNodal := rfl
  toModal := rfl
  dDlon := rfl
  cosLatDDlat := rfl
  secLatDDlatCos2 := rfl
  laplacian x := by
    funext i j
    rw [laplacian_apply, eig_scaled g s hl, Pi.smul_apply, Pi.smul_apply, smul_eq_mul, laplacian_apply]
    ring
  inverseLaplacian x := by
    funext i j
    rw [inverseLaplacian_apply, eig_scaled g s hl, Pi.smul_apply, Pi.smul_apply, smul_eq_mul,
      inverseLaplacian_apply]
    show _ = s.wAr * (x i j * (if 0 < j.val ∧ j.val < g.ly.L then 1 / (gridOps g).lapEig j.val else 0))
    unfold Scale.wL2 Scale.wAr
    split
    · field_simp
    · ring
  clip := rfl
  lproj := rfl
  nL := rfl
  lapEig n := eig_scaled g s hl n
  cosLat := rfl
  sec2Lat := rfl
  sinLat := rfl
  oneModal := rfl
  radius := rfl

end scaled

end Dino.DynamicsInst
