import Dino.SHCheck2
import DinoProofs.Lemmas.SH
import DinoProofs.Lemmas.SHFast
import Mathlib.Algebra.Order.BigOperators.Ring.Finset
import Mathlib.Algebra.Order.BigOperators.Group.Finset
import Mathlib.Algebra.Order.Ring.Abs
import Mathlib.Algebra.BigOperators.Field
import Mathlib.Algebra.Order.Field.Basic
import Mathlib.Algebra.Order.Field.Rat
import Mathlib.Data.Rat.Cast.Order
import Mathlib.Tactic.Linarith
import Mathlib.Tactic.Positivity
import Mathlib.Tactic.FieldSimp
import Mathlib.Tactic.Ring
import Mathlib.Tactic.NormNum

/-!
# Soundness of the integer-scaled certificates of `Dino/SHCheck2.lean`

* `gram_of_separable`: (any ordered field) diagonal Legendre norms `≤ B`, off-diagonal Fourier Gram
  entries `≤ ε/B`, diagonal blocks within `ε` of the identity ⇒ the whole separable Gram tensor is
  within `ε` of the identity — the cross terms are bounded through Cauchy–Schwarz (needs `w ≥ 0`).
* `ICert.ratBasis`: the rational basis `(f, p, w)` denoted by a certificate record.
* `ICert.gramOk_sound`, `ICert.colIntOk_sound`, `ICert.quadOk_sound`, `ICert.b0sqOk_sound`: what the
  kernel-evaluated checks mean over ℚ.
-/
namespace Dino.SH
open Finset Dino.Lin

/-! ## Cauchy–Schwarz for the Legendre cross Gram entries -/

section general
variable {K : Type} [Field K] [LinearOrder K] [IsStrictOrderedRing K]

theorem lGram_self_nonneg (b : Basis K) (J r l : Nat) (hw : ∀ j, 0 ≤ ent b.w j) :
    0 ≤ lGram b J r r l l := by
  unfold lGram
  apply Finset.sum_nonneg
  intro j _
  have : ent b.w j * ent3 b.p r j l * ent3 b.p r j l = ent b.w j * (ent3 b.p r j l) ^ 2 := by ring
  rw [this]
  exact mul_nonneg (hw j) (sq_nonneg _)

theorem lGram_sq_le (b : Basis K) (J r r' l l' : Nat) (hw : ∀ j, 0 ≤ ent b.w j) :
    (lGram b J r r' l l') ^ 2 ≤ lGram b J r r l l * lGram b J r' r' l' l' := by
  unfold lGram
  apply Finset.sum_sq_le_sum_mul_sum_of_sq_le_mul
  · intro j _
    have : ent b.w j * ent3 b.p r j l * ent3 b.p r j l = ent b.w j * (ent3 b.p r j l) ^ 2 := by ring
    rw [this]; exact mul_nonneg (hw j) (sq_nonneg _)
  · intro j _
    have : ent b.w j * ent3 b.p r' j l' * ent3 b.p r' j l' = ent b.w j * (ent3 b.p r' j l') ^ 2 := by
      ring
    rw [this]; exact mul_nonneg (hw j) (sq_nonneg _)
  · intro j _
    apply le_of_eq; ring

theorem abs_lGram_le (b : Basis K) (J r r' l l' : Nat) (B : K) (hB : 0 ≤ B)
    (hw : ∀ j, 0 ≤ ent b.w j) (h1 : lGram b J r r l l ≤ B) (h2 : lGram b J r' r' l' l' ≤ B) :
    |lGram b J r r' l l'| ≤ B := by
  apply abs_le_of_sq_le_sq _ hB
  calc (lGram b J r r' l l') ^ 2 ≤ lGram b J r r l l * lGram b J r' r' l' l' := lGram_sq_le b J r r' l l' hw
    _ ≤ B * B := mul_le_mul h1 h2 (lGram_self_nonneg b J r' l' hw) hB
    _ = B ^ 2 := by ring

/-- **T1.2, separable form.**  No Legendre product with `r ≠ r'` has to be evaluated. -/
theorem gram_of_separable (b : Basis K) (N J R L : Nat) (B eps : K) (hB : 0 ≤ B)
    (hw : ∀ j, 0 ≤ ent b.w j) (mask : Nat → Nat → Prop)
    (hd : ∀ r < R, ∀ l < L, lGram b J r r l l ≤ B)
    (hF : ∀ r' < R, ∀ l' < L, mask r' l' → ∀ r < R, r ≠ r' → |fGram b N r r'| * B ≤ eps)
    (hD : ∀ r' < R, ∀ l' < L, mask r' l' → ∀ l < L,
      |fGram b N r' r' * lGram b J r' r' l l' - (if l = l' then 1 else 0)| ≤ eps) :
    ∀ r' < R, ∀ l' < L, mask r' l' → ∀ r < R, ∀ l < L,
      |fGram b N r r' * lGram b J r r' l l' - (if r = r' ∧ l = l' then 1 else 0)| ≤ eps := by
  intro r' hr' l' hl' hm r hr l hl
  by_cases h : r = r'
  · subst h
    simpa using hD r hr l' hl' hm l hl
  · have h0 : (if r = r' ∧ l = l' then (1 : K) else 0) = 0 := by simp [h]
    rw [h0, sub_zero, abs_mul]
    exact le_trans (mul_le_mul_of_nonneg_left
      (abs_lGram_le b J r r' l l' B hB hw (hd r hr l hl) (hd r' hr' l' hl')) (abs_nonneg _))
      (hF r' hr' l' hl' hm r hr h)

end general

/-! ## entries of lists built with `List.range` -/

section range
variable {K : Type} [CommRing K]

theorem ent_map_range (g : ℕ → K) (n i : ℕ) (h : i < n) : ent ((List.range n).map g) i = g i := by
  simp [ent, List.getD_eq_getElem?_getD, List.getElem?_map, List.getElem?_range h]

theorem ent_map_range_ge (g : ℕ → K) (n i : ℕ) (h : n ≤ i) : ent ((List.range n).map g) i = 0 := by
  apply ent_of_length_le; simpa using h

theorem ent2_map_range (g : ℕ → ℕ → K) (n m i j : ℕ) (hi : i < n) (hj : j < m) :
    ent2 ((List.range n).map fun i => (List.range m).map (g i)) i j = g i j := by
  simp [ent2, List.getD_eq_getElem?_getD, List.getElem?_map, List.getElem?_range hi,
    List.getElem?_range hj]

theorem ent3_map_range (g : ℕ → ℕ → ℕ → K) (n m q i j k : ℕ) (hi : i < n) (hj : j < m) (hk : k < q) :
    ent3 ((List.range n).map fun i => (List.range m).map fun j => (List.range q).map (g i j)) i j k
      = g i j k := by
  simp [ent3, List.getD_eq_getElem?_getD, List.getElem?_map, List.getElem?_range hi,
    List.getElem?_range hj, List.getElem?_range hk]

end range

theorem any_of_getD {l : List Bool} {i : Nat} (h : l.getD i false = true) : l.any id = true := by
  rw [List.getD_eq_getElem?_getD] at h
  cases hh : l[i]? with
  | none => simp [hh] at h
  | some v =>
    simp [hh] at h
    subst h
    exact List.any_eq_true.2 ⟨true, List.mem_of_getElem? hh, rfl⟩

namespace ICert

/-- value of an integer entry with binary exponent `e` -/
def sc (v : Int) (e : Nat) : ℚ := (v : ℚ) / 2 ^ e

theorem sc_mul (a b : Int) (e e' : Nat) : sc a e * sc b e' = sc (a * b) (e + e') := by
  simp only [sc, pow_add]; push_cast; field_simp

theorem sc_nonneg {v : Int} (e : Nat) (h : 0 ≤ v) : 0 ≤ sc v e := by
  unfold sc; have : (0 : ℚ) ≤ v := by exact_mod_cast h
  positivity

/-- the rational basis denoted by a certificate: `f[i][r] = ft[r][i]/2^ef`,
 `p[r][j][l] = pt[r / pdiv][l][j]/2^ep`, `w[j] = w[j]/2^ew` -/
def ratBasis (c : ICert) : Basis ℚ :=
  ⟨(List.range c.N).map fun i => (List.range c.R).map fun r => sc (ent (c.frow r) i) c.ef,
   (List.range c.R).map fun r => (List.range c.J).map fun j => (List.range c.L).map fun l =>
     sc (ent (c.pcol r l) j) c.ep,
   (List.range c.J).map fun j => sc (ent c.w j) c.ew⟩

theorem ratBasis_shaped (c : ICert) : Shaped c.ratBasis c.N c.R c.J c.L := by
  constructor
  · simp [ratBasis]
  · simp [ratBasis]
  · intro pm hpm
    simp only [ratBasis, List.mem_map] at hpm
    obtain ⟨r, _, rfl⟩ := hpm
    simp
  · intro pm hpm pj hpj
    simp only [ratBasis, List.mem_map] at hpm
    obtain ⟨r, _, rfl⟩ := hpm
    simp only [List.mem_map] at hpj
    obtain ⟨j, _, rfl⟩ := hpj
    simp
  · simp [ratBasis]

theorem ent2_f (c : ICert) (i r : Nat) (hi : i < c.N) (hr : r < c.R) :
    ent2 c.ratBasis.f i r = sc (ent (c.frow r) i) c.ef :=
  ent2_map_range (fun i r => sc (ent (c.frow r) i) c.ef) c.N c.R i r hi hr

theorem ent3_p (c : ICert) (r j l : Nat) (hr : r < c.R) (hj : j < c.J) (hl : l < c.L) :
    ent3 c.ratBasis.p r j l = sc (ent (c.pcol r l) j) c.ep :=
  ent3_map_range (fun r j l => sc (ent (c.pcol r l) j) c.ep) c.R c.J c.L r j l hr hj hl

theorem ent_w (c : ICert) (j : Nat) (hj : j < c.J) : ent c.ratBasis.w j = sc (ent c.w j) c.ew :=
  ent_map_range (fun j => sc (ent c.w j) c.ew) c.J j hj

/-! ### the fast layout: `ratBasis` is `fastBasis` of the stored basis -/

theorem dup_append {α : Type} (a b : List α) : dup (a ++ b) = dup a ++ dup b := by
  induction a with
  | nil => rfl
  | cons x t ih => simp [dup, ih]

theorem map_range_half {α : Type} (T : ℕ → α) (n : ℕ) :
    (List.range (2 * n)).map (fun r => T (r / 2)) = dup ((List.range n).map T) := by
  induction n with
  | zero => rfl
  | succ n ih =>
    have : 2 * (n + 1) = 2 * n + 1 + 1 := by ring
    rw [this, List.range_succ, List.range_succ, List.map_append, List.map_append, ih,
      List.range_succ, List.map_append, dup_append]
    have e1 : 2 * n / 2 = n := by omega
    have e2 : (2 * n + 1) / 2 = n := by omega
    simp [dup, e1, e2]

/-- the basis as `FastSphericalHarmonics.basis` stores it: one table per `|m|` (`R/2` tables) -/
def rawBasis (c : ICert) : Basis ℚ :=
  ⟨c.ratBasis.f,
   (List.range (c.R / 2)).map fun t => (List.range c.J).map fun j => (List.range c.L).map fun l =>
     sc (ent ((c.pt.getD t []).getD l []) j) c.ep,
   c.ratBasis.w⟩

theorem ratBasis_eq_fast (c : ICert) (hp : c.pdiv = 2) (hR : c.R % 2 = 0) :
    c.ratBasis = fastBasis c.rawBasis := by
  obtain ⟨n, hn⟩ : ∃ n, c.R = 2 * n := ⟨c.R / 2, by omega⟩
  unfold fastBasis rawBasis
  have : c.ratBasis.p = dup ((List.range (c.R / 2)).map fun t => (List.range c.J).map fun j =>
      (List.range c.L).map fun l => sc (ent ((c.pt.getD t []).getD l []) j) c.ep) := by
    have h2 : c.R / 2 = n := by omega
    rw [h2, ← map_range_half]
    simp only [ratBasis, pcol, hp, hn]
  rw [← this]

/-! ### consequences of `shapeOk` -/

theorem shapeOk_w {c : ICert} (h : c.shapeOk = true) : c.w.length = c.J := by
  simp only [shapeOk, Bool.and_eq_true, decide_eq_true_eq] at h
  exact h.2

theorem shapeOk_frow {c : ICert} (h : c.shapeOk = true) (r : Nat) : (c.frow r).length ≤ c.N := by
  simp only [shapeOk, Bool.and_eq_true, decide_eq_true_eq, List.all_eq_true] at h
  have hrow := h.1.1.1.1.2
  unfold frow
  rw [List.getD_eq_getElem?_getD]
  cases hh : c.ft[r]? with
  | none => simp
  | some v => simpa using le_of_eq (hrow v (List.mem_of_getElem? hh))

theorem shapeOk_pcol {c : ICert} (h : c.shapeOk = true) (r l : Nat) : (c.pcol r l).length ≤ c.J := by
  simp only [shapeOk, Bool.and_eq_true, decide_eq_true_eq, List.all_eq_true] at h
  have hcol := h.1.2
  unfold pcol
  simp only [List.getD_eq_getElem?_getD]
  cases hh : c.pt[r / c.pdiv]? with
  | none => simp
  | some pm =>
    simp only [Option.getD_some]
    cases hh2 : pm[l]? with
    | none => simp
    | some v => simpa using le_of_eq (hcol pm (List.mem_of_getElem? hh) v (List.mem_of_getElem? hh2))

/-! ### Gram entries -/

theorem fGram_ratBasis (c : ICert) (hs : c.shapeOk = true) (r r' : Nat) (hr : r < c.R)
    (hr' : r' < c.R) : fGram c.ratBasis c.N r r' = sc (c.fg r r') (2 * c.ef) := by
  unfold fGram fg
  rw [dotv_eq_sum _ _ c.N (by have := shapeOk_frow hs r; omega)]
  simp only [sc]
  push_cast
  rw [Finset.sum_div]
  apply Finset.sum_congr rfl
  intro i hi
  rw [ent2_f c i r (Finset.mem_range.1 hi) hr, ent2_f c i r' (Finset.mem_range.1 hi) hr']
  simp only [sc, pow_mul']
  field_simp

theorem lGram_ratBasis (c : ICert) (hs : c.shapeOk = true) (r r' l l' : Nat) (hr : r < c.R)
    (hr' : r' < c.R) (hl : l < c.L) (hl' : l' < c.L) :
    lGram c.ratBasis c.J r r' l l' = sc (c.lg r r' l l') (c.ew + 2 * c.ep) := by
  unfold lGram lg
  rw [dotv_eq_sum _ _ c.J (by rw [shapeOk_w hs]; omega)]
  simp only [sc]
  push_cast
  rw [Finset.sum_div]
  apply Finset.sum_congr rfl
  intro j hj
  have hj' := Finset.mem_range.1 hj
  rw [ent_w c j hj', ent3_p c r j l hr hj' hl, ent3_p c r' j l' hr' hj' hl', ent_zipWith_mul]
  simp only [sc, pow_add, pow_mul']
  push_cast
  field_simp

theorem near_sound (v : Int) (e : Nat) (d : Bool) (k : Nat) (h : near v e d k = true) :
    |sc v e - (if d = true then 1 else 0)| ≤ 1 / 2 ^ k := by
  unfold near at h
  rw [decide_eq_true_eq] at h
  have hq : (((v - (if d = true then Int.ofNat (2 ^ e) else 0)).natAbs : ℕ) : ℚ) * 2 ^ k ≤ 2 ^ e := by
    exact_mod_cast h
  rw [Nat.cast_natAbs, Int.cast_abs] at hq
  have he : (0 : ℚ) < 2 ^ e := by positivity
  have hk : (0 : ℚ) < 2 ^ k := by positivity
  have : sc v e - (if d = true then (1 : ℚ) else 0)
      = ((v - (if d = true then Int.ofNat (2 ^ e) else 0) : Int) : ℚ) / 2 ^ e := by
    unfold sc
    cases d
    · simp
    · simp; field_simp
  rw [this, abs_div, abs_of_pos he, div_le_div_iff₀ he hk]
  linarith

/-- **the separable Gram certificate implies the full entrywise Gram bound over ℚ** -/
theorem gramOk_sound (c : ICert) (mask : List (List Bool)) (k : Nat) (hs : c.shapeOk = true)
    (hg : c.gramOk mask k = true) :
    ∀ r' < c.R, ∀ l' < c.L, (mask.getD r' []).getD l' false = true → ∀ r < c.R, ∀ l < c.L,
      |fGram c.ratBasis c.N r r' * lGram c.ratBasis c.J r r' l l'
        - (if r = r' ∧ l = l' then 1 else 0)| ≤ 1 / 2 ^ k := by
  simp only [gramOk, Bool.and_eq_true, List.all_eq_true, List.mem_range, decide_eq_true_eq,
    Bool.or_eq_true, Bool.not_eq_true'] at hg
  obtain ⟨⟨⟨hw, hd⟩, hF⟩, hD⟩ := hg
  have hk : (0 : ℚ) < 2 ^ k := by positivity
  apply gram_of_separable c.ratBasis c.N c.J c.R c.L 8 (1 / 2 ^ k) (by norm_num)
  · intro j
    rcases Nat.lt_or_ge j c.J with hj | hj
    · rw [ent_w c j hj]
      apply sc_nonneg
      unfold ent
      rw [List.getD_eq_getElem?_getD]
      cases hh : c.w[j]? with
      | none => simp
      | some v => simpa using hw v (List.mem_of_getElem? hh)
    · exact le_of_eq (ent_map_range_ge _ _ _ hj).symm
  · intro r hr l hl
    rw [lGram_ratBasis c hs r r l l hr hr hl hl]
    have h := hd r hr l hl
    have hq : ((c.lg r r l l : Int) : ℚ) ≤ 8 * 2 ^ (c.ew + 2 * c.ep) := by
      have : ((c.lg r r l l : Int) : ℚ) ≤ ((Int.ofNat (8 * 2 ^ (c.ew + 2 * c.ep)) : Int) : ℚ) := by
        exact_mod_cast h
      simpa using this
    unfold sc
    rw [div_le_iff₀ (by positivity)]
    exact hq
  · intro r' hr' l' hl' hm r hr hne
    rcases hF r' hr' with h | h
    · rw [any_of_getD hm] at h; exact absurd h (by simp)
    · rcases h r hr with h | h
      · exact absurd h hne
      · rw [fGram_ratBasis c hs r r' hr hr']
        have hq : (((c.fg r r').natAbs : ℕ) : ℚ) * 8 * 2 ^ k ≤ 2 ^ (2 * c.ef) := by exact_mod_cast h
        rw [Nat.cast_natAbs, Int.cast_abs] at hq
        unfold sc
        have he : (0 : ℚ) < 2 ^ (2 * c.ef) := by positivity
        rw [abs_div, abs_of_pos he, div_mul_eq_mul_div, div_le_div_iff₀ he hk]
        linarith
  · intro r' hr' l' hl' hm l hl
    have h := hD r' hr' l' hl'
    rw [if_pos hm, List.all_eq_true] at h
    have h2 := near_sound _ _ _ _ (h l (List.mem_range.2 hl))
    rw [fGram_ratBasis c hs r' r' hr' hr', lGram_ratBasis c hs r' r' l l' hr' hr' hl hl', sc_mul]
    have hE : 2 * c.ef + (c.ew + 2 * c.ep) = c.E := by unfold E; ring
    rw [hE]
    simpa using h2

/-! ### integrals of the basis functions -/

/-- the constant `(0,0)` basis function of the certificate -/
def b0q (c : ICert) : ℚ := sc c.b0 (c.ef + c.ep)

theorem colInt_ratBasis (c : ICert) (hs : c.shapeOk = true) (r l : Nat) (hr : r < c.R) (hl : l < c.L) :
    c.b0q * colInt c.ratBasis c.N c.J r l = sc (c.colIntEntry r l) c.E := by
  unfold colInt colIntEntry b0q
  rw [sum_eq_sum_range _ c.N (shapeOk_frow hs r), dotv_eq_sum _ _ c.J (by rw [shapeOk_w hs]; omega)]
  have h1 : ∑ i ∈ range c.N, ent2 c.ratBasis.f i r = sc (∑ i ∈ range c.N, ent (c.frow r) i) c.ef := by
    simp only [sc]; push_cast; rw [Finset.sum_div]
    apply Finset.sum_congr rfl; intro i hi
    rw [ent2_f c i r (Finset.mem_range.1 hi) hr]; rfl
  have h2 : ∑ j ∈ range c.J, ent c.ratBasis.w j * ent3 c.ratBasis.p r j l
      = sc (∑ j ∈ range c.J, ent c.w j * ent (c.pcol r l) j) (c.ew + c.ep) := by
    simp only [sc]; push_cast; rw [Finset.sum_div]
    apply Finset.sum_congr rfl; intro j hj
    have hj' := Finset.mem_range.1 hj
    rw [ent_w c j hj', ent3_p c r j l hr hj' hl]
    simp only [sc, pow_add]; field_simp
  rw [h1, h2, sc_mul, sc_mul]
  have hE : c.ef + c.ep + (c.ef + (c.ew + c.ep)) = c.E := by unfold E; ring
  rw [hE]

theorem colIntOk_sound (c : ICert) (mask : List (List Bool)) (k : Nat) (hs : c.shapeOk = true)
    (hc : c.colIntOk mask k = true) :
    ∀ r < c.R, ∀ l < c.L, (mask.getD r []).getD l false = true →
      |c.b0q * colInt c.ratBasis c.N c.J r l - (if r = 0 ∧ l = 0 then 1 else 0)| ≤ 1 / 2 ^ k := by
  intro r hr l hl hm
  unfold colIntOk at hc
  rw [List.all_eq_true] at hc
  have h1 := hc r (List.mem_range.2 hr)
  rw [List.all_eq_true] at h1
  have h2 := h1 l (List.mem_range.2 hl)
  rw [if_pos hm] at h2
  have h3 := near_sound _ _ _ _ h2
  rw [colInt_ratBasis c hs r l hr hl]
  simpa using h3

/-- `b₀²` lies in the fixed interval around `1/(4π)` -/
theorem b0sqOk_sound (c : ICert) (h : c.b0sqOk = true) :
    (96203260011544519986650 : ℚ) / 2 ^ 80 ≤ c.b0q ^ 2 ∧ c.b0q ^ 2 ≤ (96203260011544712392863 : ℚ) / 2 ^ 80 := by
  simp only [b0sqOk, Bool.and_eq_true, decide_eq_true_eq] at h
  have hnn : (0 : Int) ≤ c.b0 * c.b0 := mul_self_nonneg _
  have hcast : (((c.b0 * c.b0).toNat : ℕ) : ℚ) = (c.b0 : ℚ) * c.b0 := by
    have : (((c.b0 * c.b0).toNat : ℕ) : Int) = c.b0 * c.b0 := Int.toNat_of_nonneg hnn
    have h2 : ((((c.b0 * c.b0).toNat : ℕ) : Int) : ℚ) = ((c.b0 * c.b0 : Int) : ℚ) := by rw [this]
    push_cast at h2
    exact h2
  obtain ⟨⟨_, h1⟩, h2⟩ := h
  rw [show b0sqLo = 96203260011544519986650 from rfl] at h1
  rw [show b0sqHi = 96203260011544712392863 from rfl] at h2
  have q1 : (96203260011544519986650 : ℚ) * 2 ^ (2 * (c.ef + c.ep)) ≤ (((c.b0 * c.b0).toNat : ℕ) : ℚ) * 2 ^ 80 := by
    exact_mod_cast h1
  have q2 : (((c.b0 * c.b0).toNat : ℕ) : ℚ) * 2 ^ 80 ≤ (96203260011544712392863 : ℚ) * 2 ^ (2 * (c.ef + c.ep)) := by
    exact_mod_cast h2
  rw [hcast] at q1 q2
  have he : (0 : ℚ) < 2 ^ (c.ef + c.ep) := by positivity
  have hsq : c.b0q ^ 2 = (c.b0 : ℚ) * c.b0 / 2 ^ (2 * (c.ef + c.ep)) := by
    unfold b0q sc; rw [pow_mul']; field_simp
  have he2 : (0 : ℚ) < 2 ^ (2 * (c.ef + c.ep)) := by positivity
  rw [hsq]
  constructor
  · rw [div_le_div_iff₀ (by positivity) he2]; linarith
  · rw [div_le_div_iff₀ he2 (by positivity)]; linarith

theorem b0q_pos (c : ICert) (h : c.b0sqOk = true) : 0 < c.b0q := by
  simp only [b0sqOk, Bool.and_eq_true, decide_eq_true_eq] at h
  unfold b0q sc
  have : (0 : ℚ) < c.b0 := by exact_mod_cast h.1.1
  positivity

/-! ### quadrature exactness -/

theorem quadOk_sound (c : ICert) (deg kk : Nat) (h : c.quadOk deg kk = true) (k : Nat) (hk : k ≤ deg) :
    |(∑ j ∈ range c.wl.length, sc (ent c.wl j) c.ewl * (sc (ent c.x j) c.ex) ^ k)
        - (if k % 2 = 0 then 2 / ((k : ℚ) + 1) else 0)| ≤ 1 / 2 ^ kk := by
  simp only [quadOk, Bool.and_eq_true, decide_eq_true_eq, List.all_eq_true, List.mem_range] at h
  obtain ⟨hlen, h⟩ := h
  have hk' := h k (by omega)
  have hq : ((((((k + 1 : Nat) : Int) * c.moment k
      - (if k % 2 = 0 then Int.ofNat (2 * 2 ^ (c.ewl + k * c.ex)) else 0)).natAbs : ℕ) : ℚ)) * 2 ^ kk
      ≤ ((k : ℚ) + 1) * 2 ^ (c.ewl + k * c.ex) := by exact_mod_cast hk'
  rw [Nat.cast_natAbs, Int.cast_abs] at hq
  -- the moment as a finite sum
  have hm : ((c.moment k : Int) : ℚ)
      = (∑ j ∈ range c.wl.length, sc (ent c.wl j) c.ewl * (sc (ent c.x j) c.ex) ^ k)
        * 2 ^ (c.ewl + k * c.ex) := by
    unfold moment
    rw [dotv_eq_sum _ _ c.wl.length (by omega)]
    push_cast
    rw [Finset.sum_mul]
    apply Finset.sum_congr rfl
    intro j hj
    have hj' : j < c.x.length := by rw [hlen]; exact Finset.mem_range.1 hj
    have : ent (c.x.map fun v => v ^ k) j = (ent c.x j) ^ k := by
      simp [ent, List.getD_eq_getElem?_getD, List.getElem?_map, List.getElem?_eq_getElem hj']
    rw [this]
    simp only [sc, pow_add, div_pow, ← pow_mul, mul_comm k c.ex]
    push_cast
    field_simp
  set S := ∑ j ∈ range c.wl.length, sc (ent c.wl j) c.ewl * (sc (ent c.x j) c.ex) ^ k with hS
  set P : ℚ := 2 ^ (c.ewl + k * c.ex) with hP
  have hPpos : 0 < P := by positivity
  have hk1 : (0 : ℚ) < (k : ℚ) + 1 := by positivity
  have hkk : (0 : ℚ) < 2 ^ kk := by positivity
  have key : ((((k + 1 : Nat) : Int) * c.moment k
      - (if k % 2 = 0 then Int.ofNat (2 * 2 ^ (c.ewl + k * c.ex)) else 0) : Int) : ℚ)
      = ((k : ℚ) + 1) * P * (S - (if k % 2 = 0 then 2 / ((k : ℚ) + 1) else 0)) := by
    push_cast
    rw [hm]
    split
    · simp only [Int.ofNat_eq_natCast]; push_cast; field_simp; rw [← hP]; ring
    · simp; ring
  rw [key, abs_mul, abs_of_pos (by positivity : (0 : ℚ) < ((k : ℚ) + 1) * P)] at hq
  rw [le_div_iff₀ hkk]
  have : ((k : ℚ) + 1) * P * (|S - (if k % 2 = 0 then 2 / ((k : ℚ) + 1) else 0)| * 2 ^ kk)
      ≤ ((k : ℚ) + 1) * P * 1 := by linarith
  have := le_of_mul_le_mul_left this (by positivity)
  linarith

/-! ### what the remaining Boolean checkers mean (review2 E, C01-3)

 `ratBasis` is built entry by entry from `sc (ent (c.frow r) i) c.ef`, `sc (ent (c.pcol r l) j) c.ep`,
 `sc (ent c.w j) c.ew` (`ent2_f`, `ent3_p`, `ent_w`); the statements below are about these entries
 (`ent` = entry with default `0`, so "for every index" includes the out-of-range ones). -/

theorem all_take_getD {l : List Int} {n : Nat} {P : Int → Bool} (h : (l.take n).all P = true)
    (i : Nat) (hi : i < n) (hl : i < l.length) : P (l.getD i 0) = true := by
  rw [List.all_eq_true] at h
  apply h
  have : (l.take n)[i]? = some (l.getD i 0) := by
    rw [List.getElem?_take_of_lt hi, List.getD_eq_getElem?_getD, List.getElem?_eq_getElem hl]; rfl
  exact List.mem_of_getElem? this

theorem all_drop_ent {l : List Int} {n : Nat} (h : (l.drop n).all (fun v => decide (v = 0)) = true)
    (i : Nat) (hi : n ≤ i) : ent l i = 0 := by
  unfold ent
  by_cases hl : i < l.length
  · rw [List.all_eq_true] at h
    have hm : l[i] ∈ l.drop n := by
      rw [List.mem_drop_iff_getElem]
      exact ⟨i - n, by omega, by congr 1; omega⟩
    have := h _ hm
    rw [List.getD_eq_getElem?_getD, List.getElem?_eq_getElem hl]
    simpa using this
  · rw [List.getD_eq_getElem?_getD, List.getElem?_eq_none (by omega)]; rfl

theorem all_zero_ent {l : List Int} (h : l.all (fun v => decide (v = 0)) = true) (i : Nat) :
    ent l i = 0 := all_drop_ent (n := 0) (by simpa using h) i (Nat.zero_le _)

/-- `constOk`: on the genuine nodes `i < N₀`, `j < J₀` the factors of the `(0,0)` basis function are
 constant (`f[i][0] = f[0][0]`, `p[0][j][0] = p[0][0][0]`), hence `f[i][0]·p[0][j][0] = b₀` there -/
theorem constOk_sound (c : ICert) (N0 J0 : Nat) (h : c.constOk N0 J0 = true) :
    (∀ i, i < N0 → i < (c.frow 0).length → ent (c.frow 0) i = ent (c.frow 0) 0) ∧
    (∀ j, j < J0 → j < (c.pcol 0 0).length → ent (c.pcol 0 0) j = ent (c.pcol 0 0) 0) ∧
    (∀ i j, i < N0 → i < (c.frow 0).length → j < J0 → j < (c.pcol 0 0).length →
      sc (ent (c.frow 0) i) c.ef * sc (ent (c.pcol 0 0) j) c.ep = c.b0q) := by
  simp only [constOk, Bool.and_eq_true] at h
  have h1 : ∀ i, i < N0 → i < (c.frow 0).length → ent (c.frow 0) i = ent (c.frow 0) 0 := by
    intro i hi hl
    simpa [ent] using all_take_getD h.1 i hi hl
  have h2 : ∀ j, j < J0 → j < (c.pcol 0 0).length → ent (c.pcol 0 0) j = ent (c.pcol 0 0) 0 := by
    intro j hj hl
    simpa [ent] using all_take_getD h.2 j hj hl
  refine ⟨h1, h2, ?_⟩
  intro i j hi hil hj hjl
  rw [h1 i hi hil, h2 j hj hjl, sc_mul]
  rfl

/-- `nonnegOk`: every quadrature weight of the basis and of the latitude rule is `≥ 0` -/
theorem nonnegOk_sound (c : ICert) (h : c.nonnegOk = true) :
    (∀ j, 0 ≤ sc (ent c.w j) c.ew) ∧ (∀ j, 0 ≤ sc (ent c.wl j) c.ewl) := by
  simp only [nonnegOk, Bool.and_eq_true, List.all_eq_true, decide_eq_true_eq] at h
  have key : ∀ (l : List Int), (∀ v ∈ l, 0 ≤ v) → ∀ j, 0 ≤ ent l j := by
    intro l hl j
    unfold ent
    rw [List.getD_eq_getElem?_getD]
    cases hj : l[j]? with
    | none => simp
    | some v => exact hl v (List.mem_of_getElem? hj)
  exact ⟨fun j => sc_nonneg _ (key _ h.1 j), fun j => sc_nonneg _ (key _ h.2 j)⟩

/-- `zerosOk`: the Legendre tables vanish exactly below the diagonal, `p[r][j][l] = 0` for
 `l < |m(r)|`, at every node -/
theorem zerosOk_sound (c : ICert) (mabs : List Nat) (h : c.zerosOk mabs = true)
    (r l j : Nat) (hr : r < c.R) (hl : l < c.L) (hm : l < mabs.getD r 0) :
    ent (c.pcol r l) j = 0 ∧ sc (ent (c.pcol r l) j) c.ep = 0 := by
  simp only [zerosOk, List.all_eq_true, List.mem_range] at h
  have h0 := all_zero_ent (List.all_eq_true.2 (h r hr l (by omega))) j
  exact ⟨h0, by rw [h0]; simp [sc]⟩

/-- `zerosOk` on the rational basis of the certificate -/
theorem zerosOk_ratBasis (c : ICert) (mabs : List Nat) (h : c.zerosOk mabs = true)
    (r j l : Nat) (hr : r < c.R) (hj : j < c.J) (hl : l < c.L) (hm : l < mabs.getD r 0) :
    ent3 c.ratBasis.p r j l = 0 := by
  rw [ent3_p c r j l hr hj hl]
  exact (zerosOk_sound c mabs h r l j hr hl hm).2

/-- `paddingOk`: all padding of a `FastSphericalHarmonics` basis is exactly zero: modal rows `≥ 2M`
 and row `1` of `f`, nodes `≥ N₀` of every row of `f`, Legendre tables `≥ M`, wavenumbers `≥ L₀`,
 nodes `≥ J₀`, and the weights of the nodes `≥ J₀` -/
theorem paddingOk_sound (c : ICert) (M L0 N0 J0 : Nat) (h : c.paddingOk M L0 N0 J0 = true) :
    (∀ r i, 2 * M ≤ r → ent (c.frow r) i = 0) ∧
    (∀ i, ent (c.frow 1) i = 0) ∧
    (∀ r i, N0 ≤ i → ent (c.frow r) i = 0) ∧
    (∀ r l j, M ≤ r / c.pdiv → ent (c.pcol r l) j = 0) ∧
    (∀ r l j, L0 ≤ l → ent (c.pcol r l) j = 0) ∧
    (∀ r l j, J0 ≤ j → ent (c.pcol r l) j = 0) ∧
    (∀ j, J0 ≤ j → ent c.w j = 0) := by
  simp only [paddingOk, Bool.and_eq_true] at h
  obtain ⟨⟨⟨⟨⟨⟨h1, h2⟩, h3⟩, h4⟩, h5⟩, h6⟩, h7⟩ := h
  -- membership of `getD` with default `[]`
  have mem_or {α : Type} (L : List (List α)) (k : Nat) : L.getD k [] = [] ∨ L.getD k [] ∈ L := by
    rw [List.getD_eq_getElem?_getD]
    cases hk : L[k]? with
    | none => left; rfl
    | some v => right; exact List.mem_of_getElem? hk
  have mem_drop {α : Type} (L : List (List α)) (n k : Nat) (hk : n ≤ k) :
      L.getD k [] = [] ∨ L.getD k [] ∈ L.drop n := by
    rw [List.getD_eq_getElem?_getD]
    cases hkk : L[k]? with
    | none => left; rfl
    | some v =>
      right
      obtain ⟨hlt, rfl⟩ := List.getElem?_eq_some_iff.1 hkk
      rw [List.mem_drop_iff_getElem]
      exact ⟨k - n, by omega, by simp only [Option.getD_some]; congr 1; omega⟩
  refine ⟨?_, ?_, ?_, ?_, ?_, ?_, ?_⟩
  · intro r i hr
    unfold frow
    rcases mem_drop c.ft (2 * M) r hr with h0 | hm
    · rw [h0]; simp
    · exact all_zero_ent (List.all_eq_true.1 h1 _ hm) i
  · intro i; exact all_zero_ent h2 i
  · intro r i hi
    unfold frow
    rcases mem_or c.ft r with h0 | hm
    · rw [h0]; simp
    · exact all_drop_ent (List.all_eq_true.1 h3 _ hm) i hi
  · intro r l j hr
    unfold pcol
    rcases mem_drop c.pt M (r / c.pdiv) hr with h0 | hm
    · rw [h0]; simp
    · have hpm := List.all_eq_true.1 h4 _ hm
      rcases mem_or (c.pt.getD (r / c.pdiv) []) l with h0 | hm2
      · rw [h0]; simp
      · exact all_zero_ent (List.all_eq_true.1 hpm _ hm2) j
  · intro r l j hl
    unfold pcol
    rcases mem_or c.pt (r / c.pdiv) with h0 | hm
    · rw [h0]; simp
    · have hpm := List.all_eq_true.1 h5 _ hm
      rcases mem_drop (c.pt.getD (r / c.pdiv) []) L0 l hl with h0 | hm2
      · rw [h0]; simp
      · exact all_zero_ent (List.all_eq_true.1 hpm _ hm2) j
  · intro r l j hj
    unfold pcol
    rcases mem_or c.pt (r / c.pdiv) with h0 | hm
    · rw [h0]; simp
    · have hpm := List.all_eq_true.1 h6 _ hm
      rcases mem_or (c.pt.getD (r / c.pdiv) []) l with h0 | hm2
      · rw [h0]; simp
      · exact all_drop_ent (List.all_eq_true.1 hpm _ hm2) j hj
  · intro j hj; exact all_drop_ent h7 j hj

/-- `wprodOk`: the basis weight is the product of the longitude weight and the latitude weight,
 `|w[j] − wf·wl[j]| ≤ 2^-k` at every latitude node -/
theorem wprodOk_sound (c : ICert) (k : Nat) (h : c.wprodOk k = true) (j : Nat) (hj : j < c.wl.length) :
    |sc (ent c.w j) c.ew - sc c.wf c.ewf * sc (ent c.wl j) c.ewl| ≤ 1 / 2 ^ k := by
  simp only [wprodOk, Bool.and_eq_true, decide_eq_true_eq, List.all_eq_true] at h
  obtain ⟨hlen, h⟩ := h
  have hjw : j < c.w.length := by omega
  have hmem : (c.w[j], c.wl[j]) ∈ List.zip c.w c.wl := by
    have : (List.zip c.w c.wl)[j]? = some (c.w[j], c.wl[j]) := by
      rw [List.getElem?_zip_eq_some]; exact ⟨List.getElem?_eq_getElem hjw, List.getElem?_eq_getElem hj⟩
    exact List.mem_of_getElem? this
  have hk := h _ hmem
  have ew : ent c.w j = c.w[j] := by
    simp [ent, List.getD_eq_getElem?_getD, List.getElem?_eq_getElem hjw]
  have ewl : ent c.wl j = c.wl[j] := by
    simp [ent, List.getD_eq_getElem?_getD, List.getElem?_eq_getElem hj]
  rw [ew, ewl]
  set a := c.w[j]
  set b := c.wl[j]
  have hq : (((a * Int.ofNat (2 ^ (c.ewf + c.ewl)) - c.wf * b * Int.ofNat (2 ^ c.ew)).natAbs : ℕ) : ℚ) * 2 ^ k
      ≤ 2 ^ (c.ew + c.ewf + c.ewl) := by exact_mod_cast hk
  rw [Nat.cast_natAbs, Int.cast_abs] at hq
  have key : ((a * Int.ofNat (2 ^ (c.ewf + c.ewl)) - c.wf * b * Int.ofNat (2 ^ c.ew) : Int) : ℚ)
      = 2 ^ (c.ew + c.ewf + c.ewl) * (sc a c.ew - sc c.wf c.ewf * sc b c.ewl) := by
    simp only [sc, Int.ofNat_eq_natCast, pow_add]
    push_cast
    field_simp
  rw [key, abs_mul, abs_of_pos (by positivity : (0 : ℚ) < 2 ^ (c.ew + c.ewf + c.ewl))] at hq
  rw [le_div_iff₀ (by positivity : (0 : ℚ) < 2 ^ k)]
  have hP : (0 : ℚ) < 2 ^ (c.ew + c.ewf + c.ewl) := by positivity
  have : 2 ^ (c.ew + c.ewf + c.ewl) * (|sc a c.ew - sc c.wf c.ewf * sc b c.ewl| * 2 ^ k)
      ≤ (2 : ℚ) ^ (c.ew + c.ewf + c.ewl) * 1 := by linarith
  exact le_of_mul_le_mul_left this hP

/-- `nodesOk`: the latitude nodes are symmetric about the equator within `2^-k`,
 `|x[j] + x[n−1−j]| ≤ 2^-k`, and lie in `[-1, 1]` -/
theorem nodesOk_sound (c : ICert) (k : Nat) (h : c.nodesOk k = true) (j : Nat) (hj : j < c.x.length) :
    |sc (ent c.x j) c.ex + sc (ent c.x (c.x.length - 1 - j)) c.ex| ≤ 1 / 2 ^ k ∧
    |sc (ent c.x j) c.ex| ≤ 1 := by
  simp only [nodesOk, Bool.and_eq_true, decide_eq_true_eq, List.all_eq_true] at h
  obtain ⟨h1, h2⟩ := h
  have hj' : c.x.length - 1 - j < c.x.length := by omega
  have e1 : ent c.x j = c.x[j] := by
    simp [ent, List.getD_eq_getElem?_getD, List.getElem?_eq_getElem hj]
  have e2 : ent c.x (c.x.length - 1 - j) = c.x[c.x.length - 1 - j] := by
    simp [ent, List.getD_eq_getElem?_getD, List.getElem?_eq_getElem hj']
  rw [e1, e2]
  have hP : (0 : ℚ) < 2 ^ c.ex := by positivity
  constructor
  · have hmem : (c.x[j], c.x[c.x.length - 1 - j]) ∈ List.zip c.x c.x.reverse := by
      have : (List.zip c.x c.x.reverse)[j]? = some (c.x[j], c.x[c.x.length - 1 - j]) := by
        rw [List.getElem?_zip_eq_some]
        refine ⟨List.getElem?_eq_getElem hj, ?_⟩
        rw [List.getElem?_reverse hj, List.getElem?_eq_getElem hj']
      exact List.mem_of_getElem? this
    have hk := h1 _ hmem
    have hq : (((c.x[j] + c.x[c.x.length - 1 - j]).natAbs : ℕ) : ℚ) * 2 ^ k ≤ 2 ^ c.ex := by
      exact_mod_cast hk
    rw [Nat.cast_natAbs, Int.cast_abs] at hq
    push_cast at hq
    rw [le_div_iff₀ (by positivity : (0 : ℚ) < 2 ^ k)]
    have : sc c.x[j] c.ex + sc c.x[c.x.length - 1 - j] c.ex
        = ((c.x[j] : ℚ) + (c.x[c.x.length - 1 - j] : ℚ)) / 2 ^ c.ex := by
      simp only [sc]; ring
    rw [this, abs_div, abs_of_pos hP, div_mul_eq_mul_div, div_le_one hP]
    exact hq
  · have hk := h2 _ (List.getElem_mem hj)
    have hq : (((c.x[j]).natAbs : ℕ) : ℚ) ≤ 2 ^ c.ex := by exact_mod_cast hk
    rw [Nat.cast_natAbs, Int.cast_abs] at hq
    simp only [sc]
    rw [abs_div, abs_of_pos hP, div_le_one hP]
    exact hq

end ICert
end Dino.SH
