import Dino.Tree
import Mathlib.Data.List.Basic
import Mathlib.Data.List.Range
import Mathlib.Tactic.Common

/-!
# Lemmas for the tree model, part 7: arrays in the axis-major view
-/
set_option linter.unusedSectionVars false

namespace Dino.Tree

section Arrays
variable {K : Type}

theorem slice_append_drop (arr : List (List K)) (a b : Nat) (h : a ≤ b) :
    slice arr a b ++ arr.drop b = arr.drop a := by
  unfold slice
  by_cases hb : b ≤ arr.length
  · have : a ≤ (arr.take b).length := by simp [List.length_take]; omega
    rw [← List.drop_append_of_le_length this, List.take_append_drop]
  · have hb' : arr.length ≤ b := by omega
    rw [List.take_of_length_le hb', List.drop_of_length_le hb']
    simp

theorem slice_to_length (arr : List (List K)) (a : Nat) : slice arr a arr.length = arr.drop a := by
  simp [slice]

/-- pieces of `jnp.split` at the running sums of `sizes` concatenate back to `arr[start:]` -/
theorem flatten_splitIdxFrom_cumsum (arr : List (List K)) : ∀ (sizes : List Nat) (start : Nat), sizes ≠ [] →
    (splitIdxFrom arr start (cumsumFrom start sizes).dropLast).flatten = arr.drop start
  | [], _, h => absurd rfl h
  | [s], start, _ => by simp [cumsumFrom, splitIdxFrom, slice_to_length]
  | s :: s' :: ss, start, _ => by
    have ih := flatten_splitIdxFrom_cumsum arr (s' :: ss) (start + s) (by simp)
    simp only [cumsumFrom, List.dropLast_cons_cons, splitIdxFrom, List.flatten_cons] at ih ⊢
    rw [ih, slice_append_drop arr start (start + s) (by omega)]

theorem slice_mid (pre l post : List (List K)) :
    slice (pre ++ (l ++ post)) pre.length (pre.length + l.length) = l := by
  unfold slice
  rw [List.take_append, List.take_of_length_le (by omega)]
  simp

/-- `jnp.split` at the running sums of the leaf sizes gives back the leaves -/
theorem splitIdxFrom_flatten : ∀ (leaves : List (List (List K))) (pre : List (List K)), leaves ≠ [] →
    splitIdxFrom (pre ++ leaves.flatten) pre.length (cumsumFrom pre.length (leaves.map List.length)).dropLast
      = leaves
  | [], _, h => absurd rfl h
  | [l], pre, _ => by
    simp only [List.map_cons, List.map_nil, cumsumFrom, List.dropLast_singleton, splitIdxFrom,
      List.flatten_cons, List.flatten_nil, List.append_nil]
    rw [slice_to_length, List.drop_left]
  | l :: l' :: ls, pre, _ => by
    have ih := splitIdxFrom_flatten (l' :: ls) (pre ++ l) (by simp)
    simp only [List.map_cons, cumsumFrom, List.dropLast_cons_cons, splitIdxFrom, List.flatten_cons,
      List.length_append] at ih ⊢
    simp only [List.append_assoc] at ih ⊢
    rw [ih, slice_mid pre l (l' ++ ls.flatten)]

theorem sections_flatten (arr : List (List K)) : (sections arr).map List.flatten = arr := by
  apply List.ext_getElem
  · simp [sections]
  · intro i h1 h2
    simp only [sections, List.length_map, List.length_range] at h1
    simp only [sections, List.map_map, List.getElem_map, List.getElem_range, Function.comp, slice]
    have : (arr.take (i + 1)).drop i = [arr[i]] := by
      rw [List.drop_take, show i + 1 - i = 1 by omega, List.drop_eq_getElem_cons h1]
      rfl
    rw [this]; simp

theorem zipWith_take_drop (leaves : List (List (List K))) (f : List (List K) → Nat) :
    List.zipWith (· ++ ·) (leaves.map fun l => l.take (f l)) (leaves.map fun l => l.drop (f l)) = leaves := by
  induction leaves with
  | nil => rfl
  | cons l ls ih => simp [ih]

theorem take_append_slice (l : List (List K)) (a : Nat) : l.take a ++ slice l a (a + 1) = l.take (a + 1) := by
  unfold slice
  rw [List.take_add_one]
  cases h : l[a]? with
  | none =>
    have : l.length ≤ a := by simpa using h
    simp [List.take_of_length_le this, this]
  | some x =>
    have hl : a < l.length := by
      rcases Nat.lt_or_ge a l.length with h' | h'
      · exact h'
      · simp [List.getElem?_eq_none h'] at h
    have hlen : (l.take a).length = a := by simp [List.length_take, Nat.min_eq_left (Nat.le_of_lt hl)]
    simp only [Option.toList_some]
    rw [List.drop_append_of_le_length (by omega), List.drop_of_length_le (by omega)]
    simp

theorem zipWith_take_slice (leaves : List (List (List K))) (a : Nat) :
    List.zipWith (· ++ ·) (leaves.map fun l => l.take a) (leaves.map fun l => slice l a (a + 1))
      = leaves.map fun l => l.take (a + 1) := by
  induction leaves with
  | nil => rfl
  | cons l ls ihl => simp [take_append_slice, ihl]

/-- folding `zipWith (++)` over the unit slices `a, a+1, …` extends a prefix -/
theorem foldl_zipWith_slices (leaves : List (List (List K))) : ∀ (m a : Nat),
    ((List.range' a m).map fun i => leaves.map fun l => slice l i (i + 1)).foldl (List.zipWith (· ++ ·))
      (leaves.map fun l => l.take a) = leaves.map fun l => l.take (a + m)
  | 0, a => by simp
  | m + 1, a => by
    have ih := foldl_zipWith_slices leaves m (a + 1)
    simp only [List.range'_succ, List.map_cons, List.foldl_cons]
    rw [zipWith_take_slice, ih]
    congr 1
    funext l
    congr 1
    omega

end Arrays
end Dino.Tree
