import DinoProofs.Lemmas.SymmetryRot
import DinoProofs.Lemmas.SymmetryOps

/-!
# Lemmas for C10, part 12: rotation by `k` grid steps, `FastSphericalHarmonics` layout

Rows `+0, −0, +1, −1, …, ±(M−1)` and then any (even) number of padding rows, which the rotation
leaves alone.  The basis is `fastBasisOf (realBasisZeroImag …) P w 0 padRows padLat padCols …`
(C09's model of `FastSphericalHarmonics.basis`) with **no longitude-node padding** (`roll` acts on
all nodal rows); modal row padding, latitude-node padding and `l`-column padding are allowed.
-/
namespace Dino.Symmetry
open Finset Dino.Lin Dino.SH Dino.SHEquiv Dino.Fourier

set_option linter.unusedSectionVars false

variable {K : Type} [Field K]

/-- the rotation of `Dino.Symmetry.rotFast` in local form -/
def fastRow (cs sn : ℕ → K) (M N k : ℕ) : RowMap K where
  α r := if 2 * M ≤ r then 1 else cs (((r / 2) * k) % N)
  β r := if 2 * M ≤ r then 0 else
    if r % 2 = 0 then -sn (((r / 2) * k) % N) else sn (((r / 2) * k) % N)
  nb r := if 2 * M ≤ r then r else if r % 2 = 0 then r + 1 else r - 1

variable (cs sn : ℕ → K) (M N k : ℕ)

theorem fastRow_pad (g : ℕ → K) (r : ℕ) (hr : 2 * M ≤ r) : (fastRow cs sn M N k).app g r = g r := by
  simp [fastRow, RowMap.app, hr]

theorem fastRow_even (g : ℕ → K) (m : ℕ) (hm : m < M) :
    (fastRow cs sn M N k).app g (2 * m)
      = cs ((m * k) % N) * g (2 * m) - sn ((m * k) % N) * g (2 * m + 1) := by
  have h0 : ¬ 2 * M ≤ 2 * m := by omega
  have h1 : 2 * m / 2 = m := by omega
  have h2 : 2 * m % 2 = 0 := by omega
  simp only [fastRow, RowMap.app, h0, if_false, h1, h2, if_true]
  ring

theorem fastRow_odd (g : ℕ → K) (m : ℕ) (hm : m < M) :
    (fastRow cs sn M N k).app g (2 * m + 1)
      = sn ((m * k) % N) * g (2 * m) + cs ((m * k) % N) * g (2 * m + 1) := by
  have h0 : ¬ 2 * M ≤ 2 * m + 1 := by omega
  have h1 : (2 * m + 1) / 2 = m := by omega
  have h2 : ¬ (2 * m + 1) % 2 = 0 := by omega
  have h3 : 2 * m + 1 - 1 = 2 * m := by omega
  simp only [fastRow, RowMap.app, h0, if_false, h1, h2, h3]
  ring

theorem fastRow_nb_lt (n : ℕ) (hn : n % 2 = 0) (hM : 2 * M ≤ n) (r : ℕ) (hr : r < n) :
    (fastRow cs sn M N k).nb r < n := by
  simp only [fastRow]
  split
  · exact hr
  · split <;> omega

theorem fastRow_nb_half (r : ℕ) : (fastRow cs sn M N k).nb r / 2 = r / 2 := by
  simp only [fastRow]
  split
  · rfl
  · split <;> omega

/-- a row is padding, or the cosine row, or the sine row of some `m < M` -/
theorem fast_row_cases (r : ℕ) :
    2 * M ≤ r ∨ (∃ m, m < M ∧ r = 2 * m) ∨ (∃ m, m < M ∧ r = 2 * m + 1) := by
  rcases Nat.lt_or_ge r (2 * M) with h | h
  · rcases Nat.mod_two_eq_zero_or_one r with h2 | h2
    · exact Or.inr (Or.inl ⟨r / 2, by omega, by omega⟩)
    · exact Or.inr (Or.inr ⟨r / 2, by omega, by omega⟩)
  · exact Or.inl h

variable {cs sn N}

theorem fastRow_ortho (tt : TrigTable cs sn N) (H : ℕ) (a c : ℕ → K) :
    ∑ r ∈ range (2 * H), (fastRow cs sn M N k).app a r * (fastRow cs sn M N k).app c r
      = ∑ r ∈ range (2 * H), a r * c r := by
  rw [sum_range_two_mul, sum_range_two_mul]
  apply Finset.sum_congr rfl
  intro m _
  rcases Nat.lt_or_ge m M with hm | hm
  · rw [fastRow_even _ _ _ _ _ _ _ hm, fastRow_even _ _ _ _ _ _ _ hm, fastRow_odd _ _ _ _ _ _ _ hm,
      fastRow_odd _ _ _ _ _ _ _ hm]
    have hp := tt.pyth (m * k)
    linear_combination (a (2 * m) * c (2 * m) + a (2 * m + 1) * c (2 * m + 1)) * hp
  · rw [fastRow_pad _ _ _ _ _ _ _ (by omega), fastRow_pad _ _ _ _ _ _ _ (by omega),
      fastRow_pad _ _ _ _ _ _ _ (by omega), fastRow_pad _ _ _ _ _ _ _ (by omega)]

/-! ### entries of `real_basis_with_zero_imag` -/

variable (cs sn N) (s2p sp : K)

theorem ent2_zeroImag_zero (i : ℕ) (hi : i < N) :
    ent2 (realBasisZeroImag cs sn s2p sp M N) i 0 = 1 / s2p := by
  have := zeroImag_src cs sn s2p sp M N i 0
  rw [show src 0 = 0 from rfl] at this
  rw [this, ent2_realBasis_zero _ _ _ _ _ _ _ hi]

theorem ent2_zeroImag_cos (i m : ℕ) (hi : i < N) (hm : m + 1 < M) :
    ent2 (realBasisZeroImag cs sn s2p sp M N) i (2 * (m + 1)) = cs ((i * (m + 1)) % N) / sp := by
  have := zeroImag_src cs sn s2p sp M N i (2 * m + 1)
  rw [show src (2 * m + 1) = 2 * (m + 1) by simp [src]; ring] at this
  rw [this, ent2_realBasis_cos _ _ _ _ _ _ _ _ hi hm]

theorem ent2_zeroImag_sin (i m : ℕ) (hi : i < N) (hm : m + 1 < M) :
    ent2 (realBasisZeroImag cs sn s2p sp M N) i (2 * (m + 1) + 1) = sn ((i * (m + 1)) % N) / sp := by
  have := zeroImag_src cs sn s2p sp M N i (2 * m + 2)
  rw [show src (2 * m + 2) = 2 * (m + 1) + 1 by simp [src]; ring] at this
  rw [this, ent2_realBasis_sin _ _ _ _ _ _ _ _ hi hm]

variable {cs sn N}

/-- C09's model of `FastSphericalHarmonics.basis` without longitude-node padding, with the tables
 duplicated (`fastBasis`), so that `fastSynth b = realSynth (fastBasis b)` -/
abbrev fastB (cs sn : ℕ → K) (s2p sp : K) (M N : ℕ) (P : List (List (List K))) (w : List K)
    (pr pj pc J L : ℕ) : Basis K :=
  fastBasis (fastBasisOf (realBasisZeroImag cs sn s2p sp M N) P w 0 pr pj pc (2 * M) J L)

/-- **the data of the rotation for `FastSphericalHarmonics.basis`** -/
theorem rotData_fast (tt : TrigTable cs sn N) (hN : 0 < N) (hM : 1 ≤ M) (P : List (List (List K)))
    (w : List K) (pr pj pc J L : ℕ) :
    RotData (fastB cs sn s2p sp M N P w pr pj pc J L) N (2 * (M + pr / 2)) k (fastRow cs sn M N k) where
  nb_lt r hr := fastRow_nb_lt cs sn M N k _ (by omega) (by omega) r hr
  ortho a c := fastRow_ortho M k tt _ a c
  basis i hi r _ := by
    have hi2 : (i + k) % N < N := Nat.mod_lt _ hN
    show ent2 (fastBasisOf (realBasisZeroImag cs sn s2p sp M N) P w 0 pr pj pc (2 * M) J L).f ((i + k) % N) r
      = (fastRow cs sn M N k).app
          (fun r => ent2 (fastBasisOf (realBasisZeroImag cs sn s2p sp M N) P w 0 pr pj pc (2 * M) J L).f i r) r
    simp only [ent2_fastBasisOf_f]
    rcases fast_row_cases M r with h | ⟨m, hm, rfl⟩ | ⟨m, hm, rfl⟩
    · rw [fastRow_pad _ _ _ _ _ _ _ h, zeroImag_tail _ _ _ _ _ _ _ _ hM h, zeroImag_tail _ _ _ _ _ _ _ _ hM h]
    · rw [fastRow_even _ _ _ _ _ _ _ hm]
      cases m with
      | zero =>
        rw [Nat.mul_zero, ent2_zeroImag_zero _ _ _ _ _ _ _ hi2, ent2_zeroImag_zero _ _ _ _ _ _ _ hi,
          Nat.zero_mul, Nat.zero_mod, tt.cs_zero, tt.sn_zero]
        ring
      | succ m =>
        rw [ent2_zeroImag_cos _ _ _ _ _ _ _ _ hi2 hm, ent2_zeroImag_cos _ _ _ _ _ _ _ _ hi hm,
          ent2_zeroImag_sin _ _ _ _ _ _ _ _ hi hm, tt.cs_shift]
        ring
    · rw [fastRow_odd _ _ _ _ _ _ _ hm]
      cases m with
      | zero =>
        rw [Nat.mul_zero, Nat.zero_add, zeroImag_one, zeroImag_one, Nat.zero_mul, Nat.zero_mod, tt.cs_zero,
          tt.sn_zero]
        ring
      | succ m =>
        rw [ent2_zeroImag_sin _ _ _ _ _ _ _ _ hi2 hm, ent2_zeroImag_cos _ _ _ _ _ _ _ _ hi hm,
          ent2_zeroImag_sin _ _ _ _ _ _ _ _ hi hm, tt.sn_shift]
        ring
  tables r _ j l := by
    show ent3 (dup _) _ j l = ent3 (dup _) r j l
    rw [ent3_dup, ent3_dup, fastRow_nb_half]

theorem fastB_shaped (s2p sp : K) (P : List (List (List K))) (w : List K) (pr pj pc J L : ℕ)
    (hP : P.length = M) (hPj : ∀ pm ∈ P, pm.length = J) (hPl : ∀ pm ∈ P, ∀ pj ∈ pm, pj.length = L)
    (hw : w.length = J) :
    Shaped (fastB cs sn s2p sp M N P w pr pj pc J L) N (2 * (M + pr / 2)) (J + pj) (L + pc) := by
  have h := fastBasisOf_shaped (realBasisZeroImag cs sn s2p sp M N) P w M N J L 0 pr pj pc
    (realBasis_length cs sn s2p sp M N).2 hP hPj hPl hw
  exact shaped_fastBasis _ _ _ _ _ h

/-! ### entries of `rotFast` -/

variable (cs sn N)

theorem rotFast_length (x : List (List K)) : (rotFast cs sn M N k x).length = x.length := by
  simp [rotFast]

theorem ent2_rotFast (x : List (List K)) (L : ℕ) (hx : ∀ row ∈ x, row.length = L)
    (heven : x.length % 2 = 0) (hM : 2 * M ≤ x.length) (r l : ℕ) (hr : r < x.length) :
    ent2 (rotFast cs sn M N k x) r l = (fastRow cs sn M N k).app (fun r => ent2 x r l) r := by
  have hlen : ∀ q, q < x.length → (x.getD q []).length = L := by
    intro q hq
    rw [getD_eq_getElem_nil x q hq]
    exact hx _ (List.getElem_mem _)
  unfold rotFast
  rw [ent2_range_map, if_pos hr]
  rcases fast_row_cases M r with h | ⟨m, hm, rfl⟩ | ⟨m, hm, rfl⟩
  · rw [fastRow_pad _ _ _ _ _ _ _ h, if_pos h]; rfl
  · have h0 : ¬ 2 * M ≤ 2 * m := by omega
    have h1 : 2 * m / 2 = m := by omega
    have h2 : 2 * m % 2 = 0 := by omega
    simp only [h0, if_false, h1, h2, if_true]
    rw [ent_zipWith_of _ (by ring) _ _ (by rw [hlen _ hr, hlen _ (by omega)]), fastRow_even _ _ _ _ _ _ _ hm]
    rfl
  · have h0 : ¬ 2 * M ≤ 2 * m + 1 := by omega
    have h1 : (2 * m + 1) / 2 = m := by omega
    have h2 : ¬ (2 * m + 1) % 2 = 0 := by omega
    have h3 : 2 * m + 1 - 1 = 2 * m := by omega
    simp only [h0, if_false, h1, h2, h3]
    rw [ent_zipWith_of _ (by ring) _ _ (by rw [hlen _ hr, hlen _ (by omega)]), fastRow_odd _ _ _ _ _ _ _ hm]
    rfl

theorem rotFast_rows (x : List (List K)) (L : ℕ) (hx : ∀ row ∈ x, row.length = L)
    (heven : x.length % 2 = 0) (hM : 2 * M ≤ x.length) :
    ∀ row ∈ rotFast cs sn M N k x, row.length = L := by
  have hlen : ∀ q, q < x.length → (x.getD q []).length = L := by
    intro q hq
    rw [getD_eq_getElem_nil x q hq]
    exact hx _ (List.getElem_mem _)
  intro row hrow
  simp only [rotFast, List.mem_map, List.mem_range] at hrow
  obtain ⟨r, hr, rfl⟩ := hrow
  split
  · exact hlen r hr
  · split
    · rw [List.length_zipWith, hlen _ hr, hlen _ (by omega)]; simp
    · rw [List.length_zipWith, hlen _ hr, hlen _ (by omega)]; simp

variable {cs sn N}

/-! ### the theorems in list form -/

/-- **T10.2 (synthesis, fast layout)** -/
theorem synth_rot_fast (tt : TrigTable cs sn N) (hN : 0 < N) (s2p sp : K) (J L pr pj pc : ℕ) (hM : 1 ≤ M)
    (P : List (List (List K))) (w : List K)
    (hP : P.length = M) (hPj : ∀ pm ∈ P, pm.length = J) (hPl : ∀ pm ∈ P, ∀ pj ∈ pm, pj.length = L)
    (hw : w.length = J) (x : List (List K)) (hxl : x.length = 2 * (M + pr / 2))
    (hx : ∀ row ∈ x, row.length = L + pc) :
    fastSynth (fastBasisOf (realBasisZeroImag cs sn s2p sp M N) P w 0 pr pj pc (2 * M) J L) (J + pj)
        (rotFast cs sn M N k x)
      = roll k (fastSynth (fastBasisOf (realBasisZeroImag cs sn s2p sp M N) P w 0 pr pj pc (2 * M) J L)
          (J + pj) x) := by
  have heven : x.length % 2 = 0 := by omega
  have hM2 : 2 * M ≤ x.length := by omega
  rw [fastSynth_eq_real _ _ _ (by rw [rotFast_length]; exact heven), fastSynth_eq_real _ _ _ heven]
  apply synth_rot_eq_roll (fastB_shaped M s2p sp P w pr pj pc J L hP hPj hPl hw)
    (rotData_fast M k s2p sp tt hN hM P w pr pj pc J L) x _ (fun row h => le_of_eq (hx row h))
    (fun row h => le_of_eq (rotFast_rows cs sn M N k x _ hx heven hM2 row h))
  intro r hr l
  exact ent2_rotFast cs sn M N k x _ hx heven hM2 r l (by omega)

/-- **T10.2 (analysis, fast layout)** -/
theorem analysis_rot_fast (tt : TrigTable cs sn N) (hN : 0 < N) (s2p sp : K) (J L pr pj pc : ℕ) (hM : 1 ≤ M)
    (P : List (List (List K))) (w : List K)
    (hP : P.length = M) (hPj : ∀ pm ∈ P, pm.length = J) (hPl : ∀ pm ∈ P, ∀ pj ∈ pm, pj.length = L)
    (hw : w.length = J) (z : List (List K)) (hzl : z.length = N) (hz : ∀ zi ∈ z, zi.length = J + pj) :
    fastAnalysis (fastBasisOf (realBasisZeroImag cs sn s2p sp M N) P w 0 pr pj pc (2 * M) J L)
        (2 * (M + pr / 2)) (J + pj) (L + pc) (roll k z)
      = rotFast cs sn M N k
          (fastAnalysis (fastBasisOf (realBasisZeroImag cs sn s2p sp M N) P w 0 pr pj pc (2 * M) J L)
            (2 * (M + pr / 2)) (J + pj) (L + pc) z) := by
  rw [fastAnalysis_eq_real _ _ _ _ _ (by omega), fastAnalysis_eq_real _ _ _ _ _ (by omega)]
  have hb := fastB_shaped (cs := cs) (sn := sn) (N := N) M s2p sp P w pr pj pc J L hP hPj hPl hw
  have hyl := realAnalysis_length _ N (2 * (M + pr / 2)) (J + pj) (L + pc) hb z
  have hyr := realAnalysis_rows _ N (2 * (M + pr / 2)) (J + pj) (L + pc) hb (2 * (M + pr / 2)) z
  apply analysis_roll_eq_rot hb (rotData_fast M k s2p sp tt hN hM P w pr pj pc J L) z hz hzl
  · rw [rotFast_length]; exact hyl
  · exact rotFast_rows cs sn M N k _ _ hyr (by rw [hyl]; omega) (by rw [hyl]; omega)
  · intro r hr l
    exact ent2_rotFast cs sn M N k _ _ hyr (by rw [hyl]; omega) (by rw [hyl]; omega) r l (by rw [hyl]; exact hr)

/-- **T10.2 (`d_dlon`, fast layout)** `real_basis_derivative_with_zero_imag` (unsharded:
 `frequency_offset = 0`) commutes with the rotation -/
theorem dDlon_rot_fast (L : ℕ) (x : List (List K))
    (heven : x.length % 2 = 0) (hM : 2 * M ≤ x.length) (hx : ∀ row ∈ x, row.length = L) :
    zeroImagDerivative (rotFast cs sn M N k x) L 0 = rotFast cs sn M N k (zeroImagDerivative x L 0) := by
  have hdl : (zeroImagDerivative x L 0).length = x.length := by simp [zeroImagDerivative]
  have hdr := (derivative_rows x L hx).2 0
  have hrr := rotFast_rows cs sn M N k x L hx heven hM
  apply ext_ent2 _ _ L
  · rw [rotFast_length, hdl]; simp [zeroImagDerivative, rotFast_length]
  · exact (derivative_rows _ L hrr).2 0
  · exact rotFast_rows cs sn M N k _ L hdr (by rw [hdl]; exact heven) (by rw [hdl]; exact hM)
  · intro r l
    rcases Nat.lt_or_ge r x.length with hr | hr
    · have eR : ∀ q, q < x.length → ent2 (rotFast cs sn M N k x) q l
          = (fastRow cs sn M N k).app (fun r => ent2 x r l) q :=
        fun q hq => ent2_rotFast cs sn M N k x L hx heven hM q l hq
      have eD : ∀ q, q < x.length → ent2 (zeroImagDerivative x L 0) q l
          = (if (q + 1) % 2 = 1 then ((0 + q / 2 : ℕ) : K) * ent2 x (q + 1) l
             else ((0 + q / 2 : ℕ) : K) * -ent2 x (q - 1) l) := by
        intro q hq
        rw [ent2_zeroImagDerivative, if_pos hq]
      rw [ent2_rotFast cs sn M N k _ L hdr (by rw [hdl]; exact heven) (by rw [hdl]; exact hM) r l
          (by rw [hdl]; exact hr), ent2_zeroImagDerivative, rotFast_length, if_pos hr]
      rcases fast_row_cases M r with h | ⟨m, hm, rfl⟩ | ⟨m, hm, rfl⟩
      · rw [fastRow_pad _ _ _ _ _ _ _ h, eD r hr]
        rcases Nat.mod_two_eq_zero_or_one r with h2 | h2
        · have hr1 : r + 1 < x.length := by omega
          rw [if_pos (by omega), if_pos (by omega), eR _ hr1, fastRow_pad _ _ _ _ _ _ _ (by omega)]
        · have hr1 : r - 1 < x.length := by omega
          rw [if_neg (by omega), if_neg (by omega), eR _ hr1, fastRow_pad _ _ _ _ _ _ _ (by omega)]
      · have hr1 : 2 * m + 1 < x.length := by omega
        have h1 : 2 * m / 2 = m := by omega
        have h1' : (2 * m + 1) / 2 = m := by omega
        have h3 : 2 * m + 1 - 1 = 2 * m := by omega
        rw [if_pos (by omega), eR _ hr1, fastRow_odd _ _ _ _ _ _ _ hm, fastRow_even _ _ _ _ _ _ _ hm,
          eD _ hr, eD _ hr1, if_pos (by omega), if_neg (by omega), h1, h1', h3]
        ring
      · have hr0 : 2 * m < x.length := by omega
        have h1 : 2 * m / 2 = m := by omega
        have h1' : (2 * m + 1) / 2 = m := by omega
        have h3 : 2 * m + 1 - 1 = 2 * m := by omega
        rw [if_neg (by omega), h3, eR _ hr0, fastRow_even _ _ _ _ _ _ _ hm, fastRow_odd _ _ _ _ _ _ _ hm,
          eD _ hr, eD _ hr0, if_pos (by omega), if_neg (by omega), h1, h1', h3]
        ring
    · rw [ent2_of_length_le _ r l (by simp [zeroImagDerivative, rotFast_length]; exact hr),
        ent2_of_length_le _ r l (by rw [rotFast_length, hdl]; exact hr)]

/-- **T10.2 (operators acting on `l` only, fast layout)** -/
theorem lMul_rot_fast (L : ℕ) (c : List K) (hc : c.length = L) (x : List (List K))
    (heven : x.length % 2 = 0) (hM : 2 * M ≤ x.length) (hx : ∀ row ∈ x, row.length = L) :
    lMul c (rotFast cs sn M N k x) = rotFast cs sn M N k (lMul c x) := by
  have hml := lMul_length c x
  have hmr := lMul_rows c x L hx hc
  apply ext_ent2 _ _ L
  · rw [lMul_length, rotFast_length, rotFast_length, hml]
  · exact lMul_rows c _ L (rotFast_rows cs sn M N k x L hx heven hM) hc
  · exact rotFast_rows cs sn M N k _ L hmr (by rw [hml]; exact heven) (by rw [hml]; exact hM)
  · intro r l
    rcases Nat.lt_or_ge r x.length with hr | hr
    · rw [ent2_lMul, ent2_rotFast cs sn M N k x L hx heven hM r l hr,
        ent2_rotFast cs sn M N k _ L hmr (by rw [hml]; exact heven) (by rw [hml]; exact hM) r l
          (by rw [hml]; exact hr)]
      simp only [ent2_lMul]
      rw [RowMap.app_mul_right]
    · rw [ent2_of_length_le _ r l (by rw [lMul_length, rotFast_length]; exact hr),
        ent2_of_length_le _ r l (by rw [rotFast_length, hml]; exact hr)]

/-- **T10.2 (latitude derivatives, fast layout)**: the weights of the two rows of every pair `m ≥ 1`
 agree; the pair `m = 0` (whose `-0` row is masked out, so its weights are zero) is not rotated at all
 (`sin 0 = 0`) -/
theorem twoTerm_rot_fast (hsn : sn 0 = 0) (L : ℕ) (ca cb : ℕ → K) (a b : List (List K))
    (ha : ∀ m, 1 ≤ m → a.getD (2 * m + 1) [] = a.getD (2 * m) [])
    (hb : ∀ m, 1 ≤ m → b.getD (2 * m + 1) [] = b.getD (2 * m) [])
    (x : List (List K)) (heven : x.length % 2 = 0) (hM : 2 * M ≤ x.length)
    (hx : ∀ row ∈ x, row.length = L) :
    twoTerm ca cb a b (rotFast cs sn M N k x) = rotFast cs sn M N k (twoTerm ca cb a b x) := by
  have htl := twoTerm_length ca cb a b x
  have htr := twoTerm_rows ca cb a b x L hx
  have hrr := rotFast_rows cs sn M N k x L hx heven hM
  have hpair : ∀ (w : List (List K)), (∀ m, 1 ≤ m → w.getD (2 * m + 1) [] = w.getD (2 * m) []) →
      ∀ r, 2 ≤ r → ∀ l, ent2 w ((fastRow cs sn M N k).nb r) l = ent2 w r l := by
    intro w hw r hr2 l
    rcases fast_row_cases M r with h | ⟨m, hm, rfl⟩ | ⟨m, hm, rfl⟩
    · simp [fastRow, h]
    · have h0 : ¬ 2 * M ≤ 2 * m := by omega
      have h2 : 2 * m % 2 = 0 := by omega
      simp only [fastRow, h0, if_false, h2, if_true]
      simp only [ent2, hw m (by omega)]
    · have h0 : ¬ 2 * M ≤ 2 * m + 1 := by omega
      have h2 : ¬ (2 * m + 1) % 2 = 0 := by omega
      have h3 : 2 * m + 1 - 1 = 2 * m := by omega
      simp only [fastRow, h0, if_false, h2, h3]
      simp only [ent2, hw m (by omega)]
  have hβ : ∀ r, r < 2 → (fastRow cs sn M N k).β r = 0 := by
    intro r hr
    have h1 : r / 2 = 0 := by omega
    simp only [fastRow, h1, Nat.zero_mul, Nat.zero_mod, hsn, neg_zero]
    split
    · rfl
    · split <;> rfl
  apply ext_ent2 _ _ L
  · rw [twoTerm_length, rotFast_length, rotFast_length, htl]
  · exact twoTerm_rows ca cb a b _ L hrr
  · exact rotFast_rows cs sn M N k _ L htr (by rw [htl]; exact heven) (by rw [htl]; exact hM)
  · intro r l
    rcases Nat.lt_or_ge r x.length with hr | hr
    · rw [ent2_twoTerm ca cb a b _ L hrr r l (by rw [rotFast_length]; exact hr),
        ent2_rotFast cs sn M N k _ L htr (by rw [htl]; exact heven) (by rw [htl]; exact hM) r l
          (by rw [htl]; exact hr)]
      have e1 : ∀ q, q < x.length → ∀ l', ent2 (twoTerm ca cb a b x) q l'
          = twoTermEnt ca cb (ent2 a) (ent2 b) (ent2 x) L q l' :=
        fun q hq l' => ent2_twoTerm ca cb a b x L hx q l' hq
      have hnb : (fastRow cs sn M N k).nb r < x.length := fastRow_nb_lt cs sn M N k _ heven hM r hr
      simp only [RowMap.app]
      rw [e1 r hr l, e1 _ hnb l]
      have := (if h2 : 2 ≤ r then
          twoTermEnt_app (fastRow cs sn M N k) ca cb (ent2 a) (ent2 b) (ent2 x) L r l
            (hpair a ha r h2) (hpair b hb r h2)
        else
          twoTermEnt_app_of_beta (fastRow cs sn M N k) ca cb (ent2 a) (ent2 b) (ent2 x) L r l
            (hβ r (by omega)))
      simp only [RowMap.app] at this
      rw [← this]
      unfold twoTermEnt
      have e2 : ∀ l', ent2 (rotFast cs sn M N k x) r l'
          = (fastRow cs sn M N k).α r * ent2 x r l'
            + (fastRow cs sn M N k).β r * ent2 x ((fastRow cs sn M N k).nb r) l' :=
        fun l' => ent2_rotFast cs sn M N k x L hx heven hM r l' hr
      simp only [e2]
    · rw [ent2_of_length_le _ r l (by rw [twoTerm_length, rotFast_length]; exact hr),
        ent2_of_length_le _ r l (by rw [rotFast_length, htl]; exact hr)]

end Dino.Symmetry
