import DinoProofs.Lemmas.Dynamics
import Mathlib.Algebra.Module.Submodule.Defs
import Mathlib.Algebra.Module.Prod
import Mathlib.Algebra.Module.Submodule.Ker
import Mathlib.LinearAlgebra.Prod

/-!
# C04: the carrier `M` of the abstract theorems is the space of MASKED coefficient arrays

`Laws.roundtrip`, `curl_grad`, `div_grad`, `div_uv` (and `MoistLaws`) quantify over every `x : M` with
`clip x = x`.  On the real `Grid` the modal arrays are rectangular and carry entries outside the triangular
truncation: `clip_wavenumbers` zeroes the last total wavenumber only, so an array with junk outside the mask is
"clipped" but does not survive `to_modal ∘ to_nodal` (measured: defect 2.3 for an unmasked array, 2.7e-15 for a
masked one).  The laws therefore hold on the real `Grid` only when `M` is read as the **masked coefficient
space**.  This file makes that reading formal:

* `MaskClosed h Mk`: the submodule `Mk ⊆ M` (the masked arrays) contains every output of `to_modal` and the
  constant mode and is mapped to itself by every modal operation of `HOps`;
* `LawsOn h Mk` / `MoistLawsOn h Mk`: the laws with every modal quantifier RESTRICTED to `Mk` — exactly what
  `harness/props/C04.py` validates (laws on masked inputs, closure of every operation, and a negative control: an
  unmasked input violates `roundtrip`);
* `HOps.restrict`: the same operations with carrier `↥Mk`;
* `laws_restrict`, `moistLaws_restrict`: the restricted laws ARE `Laws` / `MoistLaws` of the restricted
  operations.  Since T4.2 – T4.4 are generic in the carrier, they apply verbatim with `M := ↥Mk`
  (`Properties/C04.lean`: `total_tendency_indep_of_reference_masked`, `…_moist_…_masked`).
-/
namespace Dino.Dynamics
open Dino
set_option linter.unusedSectionVars false
set_option linter.unusedVariables false

section masked
variable {K M N : Type} [Field K] [AddCommGroup M] [Module K M] [CommRing N] [Algebra K N]

/-- `Mk` (the masked coefficient arrays) is closed under every modal operation of the grid -/
structure MaskClosed (h : HOps K M N) (Mk : Submodule K M) : Prop where
  toModal_mem : ∀ z, h.toModal z ∈ Mk
  dDlon_mem : ∀ x ∈ Mk, h.dDlon x ∈ Mk
  cosLatDDlat_mem : ∀ x ∈ Mk, h.cosLatDDlat x ∈ Mk
  secLat_mem : ∀ x ∈ Mk, h.secLatDDlatCos2 x ∈ Mk
  laplacian_mem : ∀ x ∈ Mk, h.laplacian x ∈ Mk
  inverseLaplacian_mem : ∀ x ∈ Mk, h.inverseLaplacian x ∈ Mk
  clip_mem : ∀ x ∈ Mk, h.clip x ∈ Mk
  lproj_mem : ∀ l, ∀ x ∈ Mk, h.lproj l x ∈ Mk
  one_mem : h.oneModal ∈ Mk

/-- the operations of `h` with the masked arrays as modal carrier -/
def HOps.restrict (h : HOps K M N) (Mk : Submodule K M) (C : MaskClosed h Mk) : HOps K Mk N :=
  { toNodal := fun x => h.toNodal x.1
    toModal := fun z => ⟨h.toModal z, C.toModal_mem z⟩
    dDlon := fun x => ⟨h.dDlon x.1, C.dDlon_mem _ x.2⟩
    cosLatDDlat := fun x => ⟨h.cosLatDDlat x.1, C.cosLatDDlat_mem _ x.2⟩
    secLatDDlatCos2 := fun x => ⟨h.secLatDDlatCos2 x.1, C.secLat_mem _ x.2⟩
    laplacian := fun x => ⟨h.laplacian x.1, C.laplacian_mem _ x.2⟩
    inverseLaplacian := fun x => ⟨h.inverseLaplacian x.1, C.inverseLaplacian_mem _ x.2⟩
    clip := fun x => ⟨h.clip x.1, C.clip_mem _ x.2⟩
    lproj := fun l x => ⟨h.lproj l x.1, C.lproj_mem l _ x.2⟩
    nL := h.nL
    lapEig := h.lapEig
    cosLat := h.cosLat, sec2Lat := h.sec2Lat, sinLat := h.sinLat
    oneModal := ⟨h.oneModal, C.one_mem⟩
    radius := h.radius }

/-- `Laws` with every modal quantifier restricted to the masked arrays `Mk` -/
structure LawsOn (h : HOps K M N) (Mk : Submodule K M) : Prop where
  toNodal_lin : IsLinearMap K h.toNodal
  toModal_lin : IsLinearMap K h.toModal
  dDlon_lin : IsLinearMap K h.dDlon
  secLatDDlatCos2_lin : IsLinearMap K h.secLatDDlatCos2
  laplacian_lin : IsLinearMap K h.laplacian
  clip_lin : IsLinearMap K h.clip
  toNodal_one : h.toNodal h.oneModal = 1
  lap_one : h.laplacian h.oneModal = 0
  roundtrip : ∀ x ∈ Mk, h.clip x = x → h.clip (h.toModal (h.toNodal x)) = x
  curl_grad : ∀ p ∈ Mk, h.clip p = p →
    h.clip (h.curlCosLat false (weightedGradSec2 h 1 (nodalGrad h p))) = 0
  div_grad : ∀ p ∈ Mk, h.clip p = p →
    h.clip (h.divCosLat false (weightedGradSec2 h 1 (nodalGrad h p))) = h.laplacian p
  div_uv : ∀ z ∈ Mk, ∀ d ∈ Mk, h.clip z = z → h.clip d = d → h.laplacian (h.inverseLaplacian d) = d →
    h.clip (h.divSecLat (h.toNodal (h.cosLatVector false z d).1) (h.toNodal (h.cosLatVector false z d).2)) = d

/-- `MoistLaws` with every modal quantifier restricted to `Mk` -/
structure MoistLawsOn (h : HOps K M N) (Mk : Submodule K M) : Prop where
  product_rule_resolved : ∀ p ∈ Mk, ∀ qm ∈ Mk, h.clip p = p → h.clip qm = qm →
    h.clip (h.divCosLat false (weightedGradSec2 h (h.toNodal qm) (nodalGrad h p)))
      = h.clip (h.toModal (h.sec2Lat * ((nodalGrad h qm).1 * (nodalGrad h p).1
          + (nodalGrad h qm).2 * (nodalGrad h p).2) + h.toNodal qm * h.toNodal (h.laplacian p)))
  curl_product_rule_resolved : ∀ p ∈ Mk, ∀ qm ∈ Mk, h.clip p = p → h.clip qm = qm →
    h.clip (h.curlCosLat false (weightedGradSec2 h (h.toNodal qm) (nodalGrad h p)))
      = h.clip (h.toModal (h.sec2Lat * ((nodalGrad h qm).1 * (nodalGrad h p).2
          - (nodalGrad h qm).2 * (nodalGrad h p).1)))

/-- laws that hold for all of `M` hold on `Mk` -/
theorem Laws.on (h : HOps K M N) (L : Laws h) (Mk : Submodule K M) : LawsOn h Mk :=
  { toNodal_lin := L.toNodal_lin, toModal_lin := L.toModal_lin, dDlon_lin := L.dDlon_lin
    secLatDDlatCos2_lin := L.secLatDDlatCos2_lin, laplacian_lin := L.laplacian_lin, clip_lin := L.clip_lin
    toNodal_one := L.toNodal_one, lap_one := L.lap_one
    roundtrip := fun x _ => L.roundtrip x
    curl_grad := fun p _ => L.curl_grad p
    div_grad := fun p _ => L.div_grad p
    div_uv := fun z _ d _ => L.div_uv z d }

variable {h : HOps K M N} {Mk : Submodule K M} (C : MaskClosed h Mk)

/-- **the laws restricted to the masked arrays are the laws of the restricted operations** -/
theorem laws_restrict (L : LawsOn h Mk) : Laws (h.restrict Mk C) where
  toNodal_lin := ⟨fun x y => L.toNodal_lin.map_add x.1 y.1, fun c x => L.toNodal_lin.map_smul c x.1⟩
  toModal_lin := ⟨fun x y => Subtype.ext (L.toModal_lin.map_add x y),
    fun c x => Subtype.ext (L.toModal_lin.map_smul c x)⟩
  dDlon_lin := ⟨fun x y => Subtype.ext (L.dDlon_lin.map_add x.1 y.1),
    fun c x => Subtype.ext (L.dDlon_lin.map_smul c x.1)⟩
  secLatDDlatCos2_lin := ⟨fun x y => Subtype.ext (L.secLatDDlatCos2_lin.map_add x.1 y.1),
    fun c x => Subtype.ext (L.secLatDDlatCos2_lin.map_smul c x.1)⟩
  laplacian_lin := ⟨fun x y => Subtype.ext (L.laplacian_lin.map_add x.1 y.1),
    fun c x => Subtype.ext (L.laplacian_lin.map_smul c x.1)⟩
  clip_lin := ⟨fun x y => Subtype.ext (L.clip_lin.map_add x.1 y.1),
    fun c x => Subtype.ext (L.clip_lin.map_smul c x.1)⟩
  toNodal_one := L.toNodal_one
  lap_one := Subtype.ext L.lap_one
  roundtrip := fun x hx => Subtype.ext (L.roundtrip x.1 x.2 (congrArg Subtype.val hx))
  curl_grad := fun p hp => Subtype.ext (L.curl_grad p.1 p.2 (congrArg Subtype.val hp))
  div_grad := fun p hp => Subtype.ext (L.div_grad p.1 p.2 (congrArg Subtype.val hp))
  div_uv := fun z d hz hd hm => Subtype.ext
    (L.div_uv z.1 z.2 d.1 d.2 (congrArg Subtype.val hz) (congrArg Subtype.val hd) (congrArg Subtype.val hm))

theorem moistLaws_restrict (L : MoistLawsOn h Mk) : MoistLaws (h.restrict Mk C) where
  product_rule_resolved := fun p qm hp hq => Subtype.ext
    (L.product_rule_resolved p.1 p.2 qm.1 qm.2 (congrArg Subtype.val hp) (congrArg Subtype.val hq))
  curl_product_rule_resolved := fun p qm hp hq => Subtype.ext
    (L.curl_product_rule_resolved p.1 p.2 qm.1 qm.2 (congrArg Subtype.val hp) (congrArg Subtype.val hq))

/-- the equations with the masked arrays as modal carrier (the orography is a masked array) -/
def PrimitiveEquations.restrict (eq : PrimitiveEquations K M N) (Mk : Submodule K M)
    (C : MaskClosed eq.ops Mk) (ho : eq.orography ∈ Mk) : PrimitiveEquations K Mk N :=
  { ops := eq.ops.restrict Mk C, vert := eq.vert, phys := eq.phys
    referenceTemperature := eq.referenceTemperature, orography := ⟨eq.orography, ho⟩
    includeVerticalAdvection := eq.includeVerticalAdvection }

end masked

/-! ## a grid on which the distinction matters: any `h` with one coordinate outside the mask -/
section junk
variable {K M N : Type} [Field K] [AddCommGroup M] [Module K M] [CommRing N] [Algebra K N]

/-- `h` with one extra modal coordinate "outside the mask": `to_nodal` ignores it, every operation returns
 zero there, except `clip_wavenumbers`, which keeps it (as on the real `Grid`, where `clip` only zeroes the
 last total wavenumber of the rectangular array) -/
def HOps.withJunk (h : HOps K M N) : HOps K (M × K) N :=
  { toNodal := fun x => h.toNodal x.1
    toModal := fun z => (h.toModal z, 0)
    dDlon := fun x => (h.dDlon x.1, 0)
    cosLatDDlat := fun x => (h.cosLatDDlat x.1, 0)
    secLatDDlatCos2 := fun x => (h.secLatDDlatCos2 x.1, 0)
    laplacian := fun x => (h.laplacian x.1, 0)
    inverseLaplacian := fun x => (h.inverseLaplacian x.1, 0)
    clip := fun x => (h.clip x.1, x.2)
    lproj := fun l x => (h.lproj l x.1, 0)
    nL := h.nL
    lapEig := h.lapEig
    cosLat := h.cosLat, sec2Lat := h.sec2Lat, sinLat := h.sinLat
    oneModal := (h.oneModal, 0)
    radius := h.radius }

/-- the masked arrays: junk coordinate zero -/
def maskedPart (K M : Type) [Field K] [AddCommGroup M] [Module K M] : Submodule K (M × K) :=
  LinearMap.ker (LinearMap.snd K M K)

theorem mem_maskedPart (x : M × K) : x ∈ maskedPart K M ↔ x.2 = 0 := by
  simp [maskedPart]

theorem withJunk_closed (h : HOps K M N) : MaskClosed h.withJunk (maskedPart K M) where
  toModal_mem := fun z => (mem_maskedPart _).2 rfl
  dDlon_mem := fun x _ => (mem_maskedPart _).2 rfl
  cosLatDDlat_mem := fun x _ => (mem_maskedPart _).2 rfl
  secLat_mem := fun x _ => (mem_maskedPart _).2 rfl
  laplacian_mem := fun x _ => (mem_maskedPart _).2 rfl
  inverseLaplacian_mem := fun x _ => (mem_maskedPart _).2 rfl
  clip_mem := fun x hx => (mem_maskedPart _).2 ((mem_maskedPart x).1 hx)
  lproj_mem := fun l x _ => (mem_maskedPart _).2 rfl
  one_mem := (mem_maskedPart _).2 rfl

variable (h : HOps K M N)

theorem withJunk_nodalGrad (p : M × K) : nodalGrad h.withJunk p = nodalGrad h p.1 := by
  simp [nodalGrad, HOps.cosLatGrad, HOps.withJunk]

theorem withJunk_weighted (y : N) (g : N × N) :
    weightedGradSec2 h.withJunk y g = (((weightedGradSec2 h y g).1, 0), ((weightedGradSec2 h y g).2, 0)) := rfl

theorem withJunk_curl (a b : M) :
    h.withJunk.curlCosLat false ((a, 0), (b, 0)) = (h.curlCosLat false (a, b), 0) := by
  simp [HOps.curlCosLat, HOps.withJunk]

theorem withJunk_div (a b : M) :
    h.withJunk.divCosLat false ((a, 0), (b, 0)) = (h.divCosLat false (a, b), 0) := by
  simp [HOps.divCosLat, HOps.withJunk]

theorem withJunk_cosLatVector (z d : M × K) :
    h.withJunk.cosLatVector false z d
      = (((h.cosLatVector false z.1 d.1).1, 0), ((h.cosLatVector false z.1 d.1).2, 0)) := by
  simp [HOps.cosLatVector, HOps.cosLatGrad, HOps.kCross, HOps.withJunk]

theorem withJunk_divSecLat (m n : N) : h.withJunk.divSecLat m n = (h.divSecLat m n, 0) := by
  simp [HOps.divSecLat, HOps.divCosLat, HOps.withJunk]


/-- **laws of `h` give the restricted laws of the junk extension** -/
theorem lawsOn_withJunk (L : Laws h) : LawsOn h.withJunk (maskedPart K M) where
  toNodal_lin := ⟨fun x y => L.toNodal_lin.map_add x.1 y.1, fun c x => L.toNodal_lin.map_smul c x.1⟩
  toModal_lin := ⟨fun x y => Prod.ext (L.toModal_lin.map_add x y) (by simp [HOps.withJunk]),
    fun c x => Prod.ext (L.toModal_lin.map_smul c x) (by simp [HOps.withJunk])⟩
  dDlon_lin := ⟨fun x y => Prod.ext (L.dDlon_lin.map_add x.1 y.1) (by simp [HOps.withJunk]),
    fun c x => Prod.ext (L.dDlon_lin.map_smul c x.1) (by simp [HOps.withJunk])⟩
  secLatDDlatCos2_lin := ⟨fun x y => Prod.ext (L.secLatDDlatCos2_lin.map_add x.1 y.1) (by simp [HOps.withJunk]),
    fun c x => Prod.ext (L.secLatDDlatCos2_lin.map_smul c x.1) (by simp [HOps.withJunk])⟩
  laplacian_lin := ⟨fun x y => Prod.ext (L.laplacian_lin.map_add x.1 y.1) (by simp [HOps.withJunk]),
    fun c x => Prod.ext (L.laplacian_lin.map_smul c x.1) (by simp [HOps.withJunk])⟩
  clip_lin := ⟨fun x y => Prod.ext (L.clip_lin.map_add x.1 y.1) rfl,
    fun c x => Prod.ext (L.clip_lin.map_smul c x.1) rfl⟩
  toNodal_one := L.toNodal_one
  lap_one := Prod.ext L.lap_one rfl
  roundtrip := fun x hx hc => by
    have h2 : x.2 = 0 := (mem_maskedPart x).1 hx
    have h1 : h.clip x.1 = x.1 := congrArg Prod.fst hc
    exact Prod.ext (L.roundtrip x.1 h1) h2.symm
  curl_grad := fun p hp hc => by
    have h1 : h.clip p.1 = p.1 := congrArg Prod.fst hc
    rw [withJunk_nodalGrad, withJunk_weighted, withJunk_curl]
    exact Prod.ext (L.curl_grad p.1 h1) rfl
  div_grad := fun p hp hc => by
    have h1 : h.clip p.1 = p.1 := congrArg Prod.fst hc
    rw [withJunk_nodalGrad, withJunk_weighted, withJunk_div]
    exact Prod.ext (L.div_grad p.1 h1) rfl
  div_uv := fun z hz d hd hcz hcd hm => by
    have hz1 : h.clip z.1 = z.1 := congrArg Prod.fst hcz
    have hd1 : h.clip d.1 = d.1 := congrArg Prod.fst hcd
    have hm1 : h.laplacian (h.inverseLaplacian d.1) = d.1 := congrArg Prod.fst hm
    have hd2 : d.2 = 0 := (mem_maskedPart d).1 hd
    rw [withJunk_cosLatVector, withJunk_divSecLat]
    exact Prod.ext (L.div_uv z.1 d.1 hz1 hd1 hm1) hd2.symm

theorem moistLawsOn_withJunk (L : MoistLaws h) : MoistLawsOn h.withJunk (maskedPart K M) where
  product_rule_resolved := fun p _ qm _ hcp hcq => by
    have h1 : h.clip p.1 = p.1 := congrArg Prod.fst hcp
    have h2 : h.clip qm.1 = qm.1 := congrArg Prod.fst hcq
    rw [withJunk_nodalGrad, withJunk_nodalGrad, withJunk_weighted, withJunk_div]
    exact Prod.ext (L.product_rule_resolved p.1 qm.1 h1 h2) rfl
  curl_product_rule_resolved := fun p _ qm _ hcp hcq => by
    have h1 : h.clip p.1 = p.1 := congrArg Prod.fst hcp
    have h2 : h.clip qm.1 = qm.1 := congrArg Prod.fst hcq
    rw [withJunk_nodalGrad, withJunk_nodalGrad, withJunk_weighted, withJunk_curl]
    exact Prod.ext (L.curl_product_rule_resolved p.1 qm.1 h1 h2) rfl

/-- … while the UNRESTRICTED `roundtrip` law fails on the junk extension, whatever `h` is: the array that is
 zero except outside the mask is "clipped" and does not survive `to_modal ∘ to_nodal` (the situation measured
 on the real `Grid`) -/
theorem not_laws_withJunk (hc : h.clip 0 = 0) : ¬ Laws h.withJunk := by
  intro L
  have := L.roundtrip ((0 : M), (1 : K)) (Prod.ext hc rfl)
  have h2 := congrArg Prod.snd this
  exact zero_ne_one h2

end junk
end Dino.Dynamics
