import Dino.SHDrv
import DinoProofs.Lemmas.SH
import DinoProofs.Lemmas.SHFast
import DinoProofs.Lemmas.SHEquiv
import Mathlib.Analysis.SpecialFunctions.Complex.Log
import Mathlib.Algebra.Field.GeomSum
import Mathlib.Algebra.BigOperators.Field

/-!
# C01 / T1.5 — discrete orthonormality of the real Fourier basis, every number of nodes

Over `ℝ`, with `cos := Real.cos`, `sin := Real.sin`, `sqrt := Real.sqrt`, `pi := Real.pi`, the matrix
`Dino.SH.realBasis? … M N` (the model of `fourier.real_basis(wavenumbers = M, nodes = N)`) and the
trapezoid weight `2π/N` of `fourier.quadrature_nodes` have the *exact* Gram matrix

  G(cos m, cos m') = [N ∣ m − m'] + [N ∣ m + m'],   G(sin m, sin m') = [N ∣ m − m'] − [N ∣ m + m'],
  G(cos m, sin m') = 0,   G(1, cos m) = √2·[N ∣ m],   G(1, sin m) = 0,   G(1, 1) = 1

for every `N ≥ 1` and all `m, m' ≥ 1` (`[·]` is 1 or 0).  Hence column `r'` (wavenumber `m' = (r'+1)/2`)
of the Gram matrix is the unit vector whenever `m' + (M − 1) < N`, the whole matrix is the identity iff
`2 (M − 1) < N`, and on the boundary `N = 2 (M − 1)` the pair of wavenumber `M − 1` has the entries 2 and 0.
The same for `real_basis_with_zero_imag` (a zero column inserted at index 1).  `longitude_offset` never
enters the basis.  Last section: with this, `analysis (synth x) = x` reduces to the orthonormality of the
Legendre tables under the latitude weights alone (`roundtrip_real_of_legendre`, `roundtrip_fast_of_legendre`).

What the code guarantees: `real_basis` only checks `N ≥ M`, `Grid(...)` checks nothing; `with_wavenumbers`
(`N = order·M + 1`) and all `T*` / `TL*` factories (`TL*`: `N = 2M`) satisfy `2 (M − 1) < N` (probed).
-/
namespace Dino.FourierOrtho
open Finset

/-! ## the trigonometric sums -/

/-- `Σ_{i<N} exp(2πI·k·i/N) = N` if `N ∣ k`, else `0` -/
theorem sum_exp (N : ℕ) (hN : 0 < N) (k : ℤ) :
    ∑ i ∈ range N, Complex.exp (((2 * Real.pi * k * i / N : ℝ) : ℂ) * Complex.I)
      = if (N : ℤ) ∣ k then (N : ℂ) else 0 := by
  have hN' : (N : ℂ) ≠ 0 := by exact_mod_cast hN.ne'
  set ζ : ℂ := Complex.exp (2 * Real.pi * k / N * Complex.I) with hζ
  have hterm : ∀ i : ℕ, Complex.exp (((2 * Real.pi * k * i / N : ℝ) : ℂ) * Complex.I) = ζ ^ i := by
    intro i
    rw [hζ, ← Complex.exp_nat_mul]
    congr 1
    push_cast
    ring
  simp only [hterm]
  have hpow : ζ ^ N = 1 := by
    rw [hζ, ← Complex.exp_nat_mul]
    have : (N : ℂ) * (2 * Real.pi * k / N * Complex.I) = k * (2 * Real.pi * Complex.I) := by
      field_simp
    rw [this]
    exact Complex.exp_int_mul_two_pi_mul_I k
  have hone : ζ = 1 ↔ (N : ℤ) ∣ k := by
    rw [hζ, Complex.exp_eq_one_iff]
    constructor
    · rintro ⟨n, hn⟩
      have h2 : (2 * Real.pi * Complex.I : ℂ) ≠ 0 := by
        simp [Real.pi_ne_zero, Complex.I_ne_zero]
      have h3 : (k : ℂ) = n * N := by
        have : (k : ℂ) / N * (2 * Real.pi * Complex.I) = n * (2 * Real.pi * Complex.I) := by
          rw [← hn]; ring
        have h4 := mul_right_cancel₀ h2 this
        field_simp at h4
        rw [h4]; ring
      refine ⟨n, ?_⟩
      have : (k : ℂ) = ((N * n : ℤ) : ℂ) := by rw [h3]; push_cast; ring
      exact_mod_cast this
    · rintro ⟨n, rfl⟩
      refine ⟨n, ?_⟩
      push_cast
      field_simp
  by_cases hd : (N : ℤ) ∣ k
  · rw [if_pos hd]
    have : ζ = 1 := hone.2 hd
    simp [this]
  · rw [if_neg hd]
    have hne : ζ ≠ 1 := fun h => hd (hone.1 h)
    rw [geom_sum_eq hne, hpow]
    simp

/-- `Σ_{i<N} cos(2π·k·i/N) = N` if `N ∣ k`, else `0` (every `N ≥ 1`, every integer `k`) -/
theorem sum_cos (N : ℕ) (hN : 0 < N) (k : ℤ) :
    ∑ i ∈ range N, Real.cos (2 * Real.pi * k * i / N) = if (N : ℤ) ∣ k then (N : ℝ) else 0 := by
  have h := congrArg Complex.re (sum_exp N hN k)
  rw [Complex.re_sum] at h
  simp only [Complex.exp_ofReal_mul_I_re] at h
  rw [h]
  split <;> simp

/-- `Σ_{i<N} sin(2π·k·i/N) = 0` -/
theorem sum_sin (N : ℕ) (hN : 0 < N) (k : ℤ) :
    ∑ i ∈ range N, Real.sin (2 * Real.pi * k * i / N) = 0 := by
  have h := congrArg Complex.im (sum_exp N hN k)
  rw [Complex.im_sum] at h
  simp only [Complex.exp_ofReal_mul_I_im] at h
  rw [h]
  split <;> simp

/-- the indicator `[N ∣ k]` -/
noncomputable def dv (N : ℕ) (k : ℤ) : ℝ := if (N : ℤ) ∣ k then 1 else 0

theorem dv_zero (N : ℕ) : dv N 0 = 1 := by simp [dv]
theorem dv_self (N : ℕ) : dv N N = 1 := by simp [dv]
theorem dv_nonneg (N : ℕ) (k : ℤ) : 0 ≤ dv N k := by unfold dv; split <;> norm_num
theorem dv_eq_zero (N : ℕ) (k : ℤ) (h0 : k ≠ 0) (h1 : -(N : ℤ) < k) (h2 : k < N) : dv N k = 0 := by
  unfold dv
  rw [if_neg]
  intro hd
  exact h0 (Int.eq_zero_of_abs_lt_dvd hd (abs_lt.2 ⟨h1, h2⟩))

theorem sum_cos' (N : ℕ) (hN : 0 < N) (k : ℤ) :
    ∑ i ∈ range N, Real.cos (2 * Real.pi * k * i / N) = N * dv N k := by
  rw [sum_cos N hN k]; unfold dv; split <;> simp

theorem sum_cos_cos (N : ℕ) (hN : 0 < N) (m m' : ℕ) :
    ∑ i ∈ range N, Real.cos (2 * Real.pi * m * i / N) * Real.cos (2 * Real.pi * m' * i / N)
      = (N : ℝ) / 2 * (dv N ((m : ℤ) - m') + dv N ((m : ℤ) + m')) := by
  have h1 := sum_cos' N hN ((m : ℤ) - m')
  have h2 := sum_cos' N hN ((m : ℤ) + m')
  have e : ∀ i : ℕ, Real.cos (2 * Real.pi * m * i / N) * Real.cos (2 * Real.pi * m' * i / N)
      = (Real.cos (2 * Real.pi * (((m : ℤ) - m' : ℤ) : ℝ) * i / N)
          + Real.cos (2 * Real.pi * (((m : ℤ) + m' : ℤ) : ℝ) * i / N)) / 2 := by
    intro i
    push_cast
    have a1 : 2 * Real.pi * ((m : ℝ) - m') * i / N
        = 2 * Real.pi * m * i / N - 2 * Real.pi * m' * i / N := by ring
    have a2 : 2 * Real.pi * ((m : ℝ) + m') * i / N
        = 2 * Real.pi * m * i / N + 2 * Real.pi * m' * i / N := by ring
    rw [a1, a2, Real.cos_sub, Real.cos_add]; ring
  simp only [e]
  rw [← Finset.sum_div, Finset.sum_add_distrib, h1, h2]; ring

theorem sum_sin_sin (N : ℕ) (hN : 0 < N) (m m' : ℕ) :
    ∑ i ∈ range N, Real.sin (2 * Real.pi * m * i / N) * Real.sin (2 * Real.pi * m' * i / N)
      = (N : ℝ) / 2 * (dv N ((m : ℤ) - m') - dv N ((m : ℤ) + m')) := by
  have h1 := sum_cos' N hN ((m : ℤ) - m')
  have h2 := sum_cos' N hN ((m : ℤ) + m')
  have e : ∀ i : ℕ, Real.sin (2 * Real.pi * m * i / N) * Real.sin (2 * Real.pi * m' * i / N)
      = (Real.cos (2 * Real.pi * (((m : ℤ) - m' : ℤ) : ℝ) * i / N)
          - Real.cos (2 * Real.pi * (((m : ℤ) + m' : ℤ) : ℝ) * i / N)) / 2 := by
    intro i
    push_cast
    have a1 : 2 * Real.pi * ((m : ℝ) - m') * i / N
        = 2 * Real.pi * m * i / N - 2 * Real.pi * m' * i / N := by ring
    have a2 : 2 * Real.pi * ((m : ℝ) + m') * i / N
        = 2 * Real.pi * m * i / N + 2 * Real.pi * m' * i / N := by ring
    rw [a1, a2, Real.cos_sub, Real.cos_add]; ring
  simp only [e]
  rw [← Finset.sum_div, Finset.sum_sub_distrib, h1, h2]; ring

theorem sum_cos_sin (N : ℕ) (hN : 0 < N) (m m' : ℕ) :
    ∑ i ∈ range N, Real.cos (2 * Real.pi * m * i / N) * Real.sin (2 * Real.pi * m' * i / N) = 0 := by
  have h1 := sum_sin N hN ((m : ℤ) + m')
  have h2 := sum_sin N hN ((m' : ℤ) - m)
  have e : ∀ i : ℕ, Real.cos (2 * Real.pi * m * i / N) * Real.sin (2 * Real.pi * m' * i / N)
      = (Real.sin (2 * Real.pi * (((m : ℤ) + m' : ℤ) : ℝ) * i / N)
          + Real.sin (2 * Real.pi * (((m' : ℤ) - m : ℤ) : ℝ) * i / N)) / 2 := by
    intro i
    push_cast
    have a1 : 2 * Real.pi * ((m' : ℝ) - m) * i / N
        = 2 * Real.pi * m' * i / N - 2 * Real.pi * m * i / N := by ring
    have a2 : 2 * Real.pi * ((m : ℝ) + m') * i / N
        = 2 * Real.pi * m * i / N + 2 * Real.pi * m' * i / N := by ring
    rw [a1, a2, Real.sin_sub, Real.sin_add]; ring
  simp only [e]
  rw [← Finset.sum_div, Finset.sum_add_distrib, h1, h2]; ring

theorem sum_cos_nat (N : ℕ) (hN : 0 < N) (m : ℕ) :
    ∑ i ∈ range N, Real.cos (2 * Real.pi * m * i / N) = N * dv N m := by
  have := sum_cos' N hN (m : ℤ)
  push_cast at this
  exact this

theorem sum_sin_nat (N : ℕ) (hN : 0 < N) (m : ℕ) :
    ∑ i ∈ range N, Real.sin (2 * Real.pi * m * i / N) = 0 := by
  have := sum_sin N hN (m : ℤ)
  push_cast at this
  exact this

/-! ## the model's Fourier matrices over `ℝ` -/

open Dino.Lin Dino.SH Dino.Fourier Dino.SHEquiv

/-- the cosine table `SH.realBasis?` hands to `Fourier.realBasis` (`twoPi = (1 + 1) * pi`) -/
noncomputable def cs (N : ℕ) (k : ℕ) : ℝ := Real.cos ((1 + 1) * Real.pi * (k : ℝ) / (N : ℝ))
noncomputable def sn (N : ℕ) (k : ℕ) : ℝ := Real.sin ((1 + 1) * Real.pi * (k : ℝ) / (N : ℝ))

/-- `fourier.real_basis(M, N)` over `ℝ` -/
noncomputable def fReal (M N : ℕ) : List (List ℝ) :=
  realBasis (cs N) (sn N) (Real.sqrt ((1 + 1) * Real.pi)) (Real.sqrt Real.pi) M N

/-- `fourier.real_basis_with_zero_imag(M, N)` over `ℝ` -/
noncomputable def fzReal (M N : ℕ) : List (List ℝ) :=
  realBasisZeroImag (cs N) (sn N) (Real.sqrt ((1 + 1) * Real.pi)) (Real.sqrt Real.pi) M N

/-- the model function with the real `cos`, `sin`, `sqrt`, `pi` is `fReal` (guard `N ≥ M`) -/
theorem realBasis?_real (M N : ℕ) :
    SH.realBasis? Real.cos Real.sin Real.sqrt Real.pi M N = if N < M then none else some (fReal M N) := rfl

theorem realBasisZeroImag?_real (M N : ℕ) :
    SH.realBasisZeroImag? Real.cos Real.sin Real.sqrt Real.pi M N
      = if N < M then none else some (fzReal M N) := rfl

theorem nat_mod_cast (N a : ℕ) : ((a % N : ℕ) : ℝ) = (a : ℝ) - ((a / N : ℕ) : ℝ) * N := by
  have h2 : ((a % N : ℕ) : ℝ) + (N : ℝ) * ((a / N : ℕ) : ℝ) = a := by
    exact_mod_cast Nat.mod_add_div a N
  linarith

theorem cs_mod (N : ℕ) (hN : 0 < N) (a : ℕ) : cs N (a % N) = Real.cos (2 * Real.pi * a / N) := by
  unfold cs
  have hN' : (N : ℝ) ≠ 0 := by exact_mod_cast hN.ne'
  rw [nat_mod_cast]
  have : (1 + 1) * Real.pi * ((a : ℝ) - ((a / N : ℕ) : ℝ) * N) / N
      = 2 * Real.pi * a / N - ((a / N : ℕ) : ℝ) * (2 * Real.pi) := by
    field_simp; ring
  rw [this, Real.cos_sub_nat_mul_two_pi]

theorem sn_mod (N : ℕ) (hN : 0 < N) (a : ℕ) : sn N (a % N) = Real.sin (2 * Real.pi * a / N) := by
  unfold sn
  have hN' : (N : ℝ) ≠ 0 := by exact_mod_cast hN.ne'
  rw [nat_mod_cast]
  have : (1 + 1) * Real.pi * ((a : ℝ) - ((a / N : ℕ) : ℝ) * N) / N
      = 2 * Real.pi * a / N - ((a / N : ℕ) : ℝ) * (2 * Real.pi) := by
    field_simp; ring
  rw [this, Real.sin_sub_nat_mul_two_pi]

/-! ### entries -/

theorem flatMap_pair_length {K : Type} (a b : ℕ → K) (H : ℕ) :
    ((List.range H).flatMap fun j => [a j, b j]).length = 2 * H := by
  induction H with
  | zero => simp
  | succ H ih => rw [List.range_succ, List.flatMap_append, List.length_append, ih]; simp; omega

theorem ent_flatMap_pair {K : Type} [CommRing K] (a b : ℕ → K) (H m : ℕ) (hm : m < H) :
    ent ((List.range H).flatMap fun j => [a j, b j]) (2 * m) = a m ∧
    ent ((List.range H).flatMap fun j => [a j, b j]) (2 * m + 1) = b m := by
  induction H with
  | zero => omega
  | succ H ih =>
    rw [List.range_succ, List.flatMap_append, ent_append, ent_append, flatMap_pair_length]
    rcases Nat.lt_or_ge m H with h | h
    · rw [if_pos (by omega), if_pos (by omega)]
      exact ih h
    · have : m = H := by omega
      subst this
      rw [if_neg (by omega), if_neg (by omega)]
      have e1 : 2 * m - 2 * m = 0 := by omega
      have e2 : 2 * m + 1 - 2 * m = 1 := by omega
      rw [e1, e2]
      simp

theorem ent2_fReal_zero (M N i : ℕ) (hi : i < N) :
    ent2 (fReal M N) i 0 = 1 / Real.sqrt (2 * Real.pi) := by
  unfold fReal realBasis
  rw [ent2_range_map, if_pos hi]
  norm_num

theorem ent2_fReal_cos (M N i m : ℕ) (hi : i < N) (hm : m + 1 < M) :
    ent2 (fReal M N) i (2 * m + 1)
      = Real.cos (2 * Real.pi * (m + 1 : ℕ) * i / N) / Real.sqrt Real.pi := by
  unfold fReal realBasis
  rw [ent2_range_map, if_pos hi, ent_cons_succ]
  unfold pairs
  rw [(ent_flatMap_pair _ _ (M - 1) m (by omega)).1, cs_mod N (by omega)]
  push_cast
  congr 2
  ring

theorem ent2_fReal_sin (M N i m : ℕ) (hi : i < N) (hm : m + 1 < M) :
    ent2 (fReal M N) i (2 * m + 2)
      = Real.sin (2 * Real.pi * (m + 1 : ℕ) * i / N) / Real.sqrt Real.pi := by
  unfold fReal realBasis
  rw [ent2_range_map, if_pos hi, ent_cons_succ]
  unfold pairs
  rw [(ent_flatMap_pair _ _ (M - 1) m (by omega)).2, sn_mod N (by omega)]
  push_cast
  congr 2
  ring

/-- columns beyond `2M − 1` do not exist -/
theorem ent2_fReal_tail (M N i r : ℕ) (hM : 1 ≤ M) (hr : 2 * M - 1 ≤ r) : ent2 (fReal M N) i r = 0 := by
  unfold fReal realBasis
  rw [ent2_range_map]
  split
  · apply ent_of_length_le
    simp only [List.length_cons, pairs_length]; omega
  · rfl

/-! ## the exact Gram matrix -/

/-- Gram entry of the columns `r`, `r'` of `f` under the trapezoid weight `2π/N` of
 `fourier.quadrature_nodes(N)` -/
noncomputable def wGram (f : List (List ℝ)) (N r r' : ℕ) : ℝ :=
  (1 + 1) * Real.pi / N * ∑ i ∈ range N, ent2 f i r * ent2 f i r'

theorem wGram_symm (f : List (List ℝ)) (N r r' : ℕ) : wGram f N r r' = wGram f N r' r := by
  unfold wGram; congr 1; apply Finset.sum_congr rfl; intro i _; ring

theorem norm_alg (N X : ℝ) (hN : N ≠ 0) :
    (1 + 1) * Real.pi / N * (N / 2 * X / Real.pi) = X := by
  have := Real.pi_ne_zero
  field_simp
  ring

theorem norm_alg2 (N X : ℝ) (hN : N ≠ 0) :
    (1 + 1) * Real.pi / N * (N * X / (Real.sqrt (2 * Real.pi) * Real.sqrt Real.pi)) = Real.sqrt 2 * X := by
  have hpi := Real.pi_pos
  have h2 : Real.sqrt 2 * Real.sqrt 2 = 2 := Real.mul_self_sqrt (by norm_num)
  have hp : Real.sqrt Real.pi * Real.sqrt Real.pi = Real.pi := Real.mul_self_sqrt hpi.le
  have h20 : Real.sqrt 2 ≠ 0 := (Real.sqrt_pos.2 (by norm_num)).ne'
  have hp0 : Real.sqrt Real.pi ≠ 0 := (Real.sqrt_pos.2 hpi).ne'
  rw [Real.sqrt_mul (by norm_num) Real.pi, mul_assoc (Real.sqrt 2), hp]
  have hpi0 := hpi.ne'
  field_simp
  linear_combination (-X) * h2

section gram
variable (M N : ℕ) (hN : 0 < N)
include hN

theorem gram_const_const : wGram (fReal M N) N 0 0 = 1 := by
  unfold wGram
  have hN' : (N : ℝ) ≠ 0 := by exact_mod_cast hN.ne'
  have hpi := Real.pi_pos
  have e : ∑ i ∈ range N, ent2 (fReal M N) i 0 * ent2 (fReal M N) i 0
      = ∑ _i ∈ range N, 1 / (2 * Real.pi) := by
    apply Finset.sum_congr rfl; intro i hi
    rw [ent2_fReal_zero M N i (mem_range.1 hi), div_mul_div_comm, Real.mul_self_sqrt (by positivity)]
    norm_num
  rw [e, Finset.sum_const, card_range, nsmul_eq_mul]
  field_simp
  norm_num

theorem gram_const_cos (m : ℕ) (hm : m + 1 < M) :
    wGram (fReal M N) N 0 (2 * m + 1) = Real.sqrt 2 * dv N (m + 1) := by
  unfold wGram
  have hN' : (N : ℝ) ≠ 0 := by exact_mod_cast hN.ne'
  have e : ∑ i ∈ range N, ent2 (fReal M N) i 0 * ent2 (fReal M N) i (2 * m + 1)
      = (∑ i ∈ range N, Real.cos (2 * Real.pi * (m + 1 : ℕ) * i / N))
          / (Real.sqrt (2 * Real.pi) * Real.sqrt Real.pi) := by
    rw [Finset.sum_div]
    apply Finset.sum_congr rfl; intro i hi
    rw [ent2_fReal_zero M N i (mem_range.1 hi), ent2_fReal_cos M N i m (mem_range.1 hi) hm,
      div_mul_div_comm, one_mul]
  rw [e, sum_cos_nat N hN (m + 1), norm_alg2 _ _ hN']
  push_cast; rfl

theorem gram_const_sin (m : ℕ) (hm : m + 1 < M) : wGram (fReal M N) N 0 (2 * m + 2) = 0 := by
  unfold wGram
  have e : ∑ i ∈ range N, ent2 (fReal M N) i 0 * ent2 (fReal M N) i (2 * m + 2)
      = (∑ i ∈ range N, Real.sin (2 * Real.pi * (m + 1 : ℕ) * i / N))
          / (Real.sqrt (2 * Real.pi) * Real.sqrt Real.pi) := by
    rw [Finset.sum_div]
    apply Finset.sum_congr rfl; intro i hi
    rw [ent2_fReal_zero M N i (mem_range.1 hi), ent2_fReal_sin M N i m (mem_range.1 hi) hm,
      div_mul_div_comm, one_mul]
  rw [e, sum_sin_nat N hN (m + 1)]; simp

theorem gram_cos_cos (m m' : ℕ) (hm : m + 1 < M) (hm' : m' + 1 < M) :
    wGram (fReal M N) N (2 * m + 1) (2 * m' + 1) = dv N ((m : ℤ) - m') + dv N ((m : ℤ) + m' + 2) := by
  unfold wGram
  have hN' : (N : ℝ) ≠ 0 := by exact_mod_cast hN.ne'
  have hs : Real.sqrt Real.pi * Real.sqrt Real.pi = Real.pi := Real.mul_self_sqrt Real.pi_pos.le
  have e : ∑ i ∈ range N, ent2 (fReal M N) i (2 * m + 1) * ent2 (fReal M N) i (2 * m' + 1)
      = (∑ i ∈ range N, Real.cos (2 * Real.pi * (m + 1 : ℕ) * i / N)
          * Real.cos (2 * Real.pi * (m' + 1 : ℕ) * i / N)) / Real.pi := by
    rw [Finset.sum_div]
    apply Finset.sum_congr rfl; intro i hi
    rw [ent2_fReal_cos M N i m (mem_range.1 hi) hm, ent2_fReal_cos M N i m' (mem_range.1 hi) hm',
      div_mul_div_comm, hs]
  have a1 : ((m + 1 : ℕ) : ℤ) - ((m' + 1 : ℕ) : ℤ) = (m : ℤ) - m' := by push_cast; ring
  have a2 : ((m + 1 : ℕ) : ℤ) + ((m' + 1 : ℕ) : ℤ) = (m : ℤ) + m' + 2 := by push_cast; ring
  rw [e, sum_cos_cos N hN (m + 1) (m' + 1), a1, a2, norm_alg _ _ hN']

theorem gram_sin_sin (m m' : ℕ) (hm : m + 1 < M) (hm' : m' + 1 < M) :
    wGram (fReal M N) N (2 * m + 2) (2 * m' + 2) = dv N ((m : ℤ) - m') - dv N ((m : ℤ) + m' + 2) := by
  unfold wGram
  have hN' : (N : ℝ) ≠ 0 := by exact_mod_cast hN.ne'
  have hs : Real.sqrt Real.pi * Real.sqrt Real.pi = Real.pi := Real.mul_self_sqrt Real.pi_pos.le
  have e : ∑ i ∈ range N, ent2 (fReal M N) i (2 * m + 2) * ent2 (fReal M N) i (2 * m' + 2)
      = (∑ i ∈ range N, Real.sin (2 * Real.pi * (m + 1 : ℕ) * i / N)
          * Real.sin (2 * Real.pi * (m' + 1 : ℕ) * i / N)) / Real.pi := by
    rw [Finset.sum_div]
    apply Finset.sum_congr rfl; intro i hi
    rw [ent2_fReal_sin M N i m (mem_range.1 hi) hm, ent2_fReal_sin M N i m' (mem_range.1 hi) hm',
      div_mul_div_comm, hs]
  have a1 : ((m + 1 : ℕ) : ℤ) - ((m' + 1 : ℕ) : ℤ) = (m : ℤ) - m' := by push_cast; ring
  have a2 : ((m + 1 : ℕ) : ℤ) + ((m' + 1 : ℕ) : ℤ) = (m : ℤ) + m' + 2 := by push_cast; ring
  rw [e, sum_sin_sin N hN (m + 1) (m' + 1), a1, a2, norm_alg _ _ hN']

theorem gram_cos_sin (m m' : ℕ) (hm : m + 1 < M) (hm' : m' + 1 < M) :
    wGram (fReal M N) N (2 * m + 1) (2 * m' + 2) = 0 := by
  unfold wGram
  have hs : Real.sqrt Real.pi * Real.sqrt Real.pi = Real.pi := Real.mul_self_sqrt Real.pi_pos.le
  have e : ∑ i ∈ range N, ent2 (fReal M N) i (2 * m + 1) * ent2 (fReal M N) i (2 * m' + 2)
      = (∑ i ∈ range N, Real.cos (2 * Real.pi * (m + 1 : ℕ) * i / N)
          * Real.sin (2 * Real.pi * (m' + 1 : ℕ) * i / N)) / Real.pi := by
    rw [Finset.sum_div]
    apply Finset.sum_congr rfl; intro i hi
    rw [ent2_fReal_cos M N i m (mem_range.1 hi) hm, ent2_fReal_sin M N i m' (mem_range.1 hi) hm',
      div_mul_div_comm, hs]
  rw [e, sum_cos_sin N hN (m + 1) (m' + 1)]; simp

end gram

/-! ## orthonormality: the resolution condition -/

theorem decode (r : ℕ) : r = 0 ∨ (∃ m, r = 2 * m + 1) ∨ (∃ m, r = 2 * m + 2) := by
  rcases r with _ | q
  · left; rfl
  · obtain ⟨m, h | h⟩ := Nat.even_or_odd' q
    · right; left; exact ⟨m, by omega⟩
    · right; right; exact ⟨m, by omega⟩

theorem wGram_tail (M N r r' : ℕ) (hM : 1 ≤ M) (hr : 2 * M - 1 ≤ r) : wGram (fReal M N) N r r' = 0 := by
  unfold wGram
  simp [ent2_fReal_tail M N _ r hM hr]

/-- **T1.5 (real layout, one column).**  Column `r'` of `fourier.real_basis(M, N)` (wavenumber
 `m' = (r'+1)/2`) is orthogonal to every other column and has unit norm under the weight `2π/N`, as
 soon as `m' + (M − 1) < N`; every `N ≥ 1`. -/
theorem gram_real_col (M N : ℕ) (hN : 0 < N) (hM : 1 ≤ M) (r' : ℕ) (hr' : r' < 2 * M - 1)
    (hres : (r' + 1) / 2 + (M - 1) < N) (r : ℕ) :
    wGram (fReal M N) N r r' = if r = r' then 1 else 0 := by
  rcases Nat.lt_or_ge r (2 * M - 1) with hr | hr
  · rcases decode r with rfl | ⟨m, rfl⟩ | ⟨m, rfl⟩ <;>
      rcases decode r' with rfl | ⟨m', rfl⟩ | ⟨m', rfl⟩
    · rw [gram_const_const M N hN]; simp
    · rw [gram_const_cos M N hN m' (by omega),
        dv_eq_zero N ((m' : ℤ) + 1) (by omega) (by omega) (by omega), if_neg (by omega)]; ring
    · rw [gram_const_sin M N hN m' (by omega), if_neg (by omega)]
    · rw [wGram_symm, gram_const_cos M N hN m (by omega),
        dv_eq_zero N ((m : ℤ) + 1) (by omega) (by omega) (by omega), if_neg (by omega)]; ring
    · rw [gram_cos_cos M N hN m m' (by omega) (by omega),
        dv_eq_zero N ((m : ℤ) + m' + 2) (by omega) (by omega) (by omega)]
      by_cases h : m = m'
      · subst h; rw [sub_self, dv_zero, if_pos rfl]; ring
      · rw [dv_eq_zero N ((m : ℤ) - m') (by omega) (by omega) (by omega), if_neg (by omega)]; ring
    · rw [gram_cos_sin M N hN m m' (by omega) (by omega), if_neg (by omega)]
    · rw [wGram_symm, gram_const_sin M N hN m (by omega), if_neg (by omega)]
    · rw [wGram_symm, gram_cos_sin M N hN m' m (by omega) (by omega), if_neg (by omega)]
    · rw [gram_sin_sin M N hN m m' (by omega) (by omega),
        dv_eq_zero N ((m : ℤ) + m' + 2) (by omega) (by omega) (by omega)]
      by_cases h : m = m'
      · subst h; rw [sub_self, dv_zero, if_pos rfl]; ring
      · rw [dv_eq_zero N ((m : ℤ) - m') (by omega) (by omega) (by omega), if_neg (by omega)]; ring
  · rw [wGram_tail M N r r' hM hr, if_neg (by omega)]

/-- **T1.5 (real layout).**  For every `N ≥ 1` and `M ≥ 1`: the real Fourier basis is orthonormal under
 the trapezoid weights **iff** `2 (M − 1) < N`. -/
theorem gram_real_identity_iff (M N : ℕ) (hN : 0 < N) (hM : 1 ≤ M) :
    (∀ r < 2 * M - 1, ∀ r' < 2 * M - 1, wGram (fReal M N) N r r' = if r = r' then 1 else 0)
      ↔ 2 * (M - 1) < N := by
  constructor
  · intro H
    by_contra hlt
    rcases Nat.lt_or_ge N 2 with h1 | h2
    · have hN1 : N = 1 := by omega
      subst hN1
      have := H 1 (by omega) 1 (by omega)
      rw [show (1 : ℕ) = 2 * 0 + 1 from rfl, gram_cos_cos _ 1 hN 0 0 (by omega) (by omega)] at this
      simp [dv] at this
    · obtain ⟨m, hm⟩ : ∃ m, m + 1 = (N + 1) / 2 := ⟨(N + 1) / 2 - 1, by omega⟩
      obtain ⟨m', hm'⟩ : ∃ m', m' + 1 = N / 2 := ⟨N / 2 - 1, by omega⟩
      have := H (2 * m + 1) (by omega) (2 * m' + 1) (by omega)
      rw [gram_cos_cos M N hN m m' (by omega) (by omega),
        show (m : ℤ) + m' + 2 = (N : ℤ) by omega, dv_self] at this
      by_cases h : m = m'
      · subst h
        rw [sub_self, dv_zero, if_pos rfl] at this
        norm_num at this
      · rw [if_neg (by omega)] at this
        linarith [dv_nonneg N ((m : ℤ) - m')]
  · intro h r hr r' hr'
    exact gram_real_col M N hN hM r' hr' (by omega) r

/-- **the aliasing counterexample on the boundary** `N = 2 (M − 1)` (accepted by the guard
 `nodes ≥ wavenumbers` of `real_basis` when `M ≥ 2`): with `M = m + 2`, the cosine of the top wavenumber
 `m + 1 = N/2` has squared norm 2 and its sine is identically zero -/
theorem gram_boundary (m : ℕ) :
    wGram (fReal (m + 2) (2 * (m + 1))) (2 * (m + 1)) (2 * m + 1) (2 * m + 1) = 2 ∧
    wGram (fReal (m + 2) (2 * (m + 1))) (2 * (m + 1)) (2 * m + 2) (2 * m + 2) = 0 := by
  have e : (m : ℤ) + m + 2 = ((2 * (m + 1) : ℕ) : ℤ) := by push_cast; ring
  constructor
  · rw [gram_cos_cos (m + 2) (2 * (m + 1)) (by omega) m m (by omega) (by omega), sub_self, dv_zero, e,
      dv_self]; norm_num
  · rw [gram_sin_sin (m + 2) (2 * (m + 1)) (by omega) m m (by omega) (by omega), sub_self, dv_zero, e,
      dv_self]; norm_num

/-! ### the layout of `real_basis_with_zero_imag` -/

theorem wGram_zeroImag_src (M N r r' : ℕ) :
    wGram (fzReal M N) N (src r) (src r') = wGram (fReal M N) N r r' := by
  unfold wGram fzReal fReal; simp only [zeroImag_src]

theorem wGram_zeroImag_one (M N c : ℕ) :
    wGram (fzReal M N) N c 1 = 0 ∧ wGram (fzReal M N) N 1 c = 0 := by
  unfold wGram fzReal; simp [zeroImag_one]

theorem exists_src (c : ℕ) (h : c ≠ 1) : ∃ r, c = src r := by
  rcases Nat.eq_zero_or_pos c with rfl | h0
  · exact ⟨0, rfl⟩
  · exact ⟨c - 1, by unfold src; rw [if_neg (by omega)]; omega⟩

theorem src_half (r : ℕ) : src r / 2 = (r + 1) / 2 := by unfold src; split <;> omega
theorem src_lt (r M : ℕ) (hM : 1 ≤ M) : src r < 2 * M ↔ r < 2 * M - 1 := by unfold src; split <;> omega
theorem src_ne_one (r : ℕ) : src r ≠ 1 := by unfold src; split <;> omega

/-- **T1.5 (zero-imag layout, one column).**  Column `c' ≠ 1` of `real_basis_with_zero_imag(M, N)`
 (wavenumber `c'/2`) against every column `c` (also the zero column 1 and columns beyond `2M`) -/
theorem gram_zeroImag_col (M N : ℕ) (hN : 0 < N) (hM : 1 ≤ M) (c' : ℕ) (hc' : c' < 2 * M) (hc1 : c' ≠ 1)
    (hres : c' / 2 + (M - 1) < N) (c : ℕ) :
    wGram (fzReal M N) N c c' = if c = c' then 1 else 0 := by
  obtain ⟨r', rfl⟩ := exists_src c' hc1
  rw [src_half] at hres
  rw [src_lt r' M hM] at hc'
  by_cases h1 : c = 1
  · subst h1
    rw [(wGram_zeroImag_one M N _).2, if_neg (fun h => src_ne_one r' h.symm)]
  · obtain ⟨r, rfl⟩ := exists_src c h1
    rw [wGram_zeroImag_src, gram_real_col M N hN hM r' hc' hres r]
    by_cases h : r = r'
    · rw [if_pos h, if_pos (by rw [h])]
    · rw [if_neg h, if_neg (fun hs => h (src_injective hs))]

/-- **T1.5 (zero-imag layout).**  Under `2 (M − 1) < N` the Gram matrix of
 `real_basis_with_zero_imag(M, N)` is the identity except for the structurally zero row / column 1 -/
theorem gram_zeroImag_identity (M N : ℕ) (hN : 0 < N) (hM : 1 ≤ M) (h : 2 * (M - 1) < N)
    (c c' : ℕ) (hc' : c' < 2 * M) :
    wGram (fzReal M N) N c c' = if c = c' ∧ c' ≠ 1 then 1 else 0 := by
  by_cases h1 : c' = 1
  · subst h1; rw [(wGram_zeroImag_one M N c).1, if_neg (by simp)]
  · rw [gram_zeroImag_col M N hN hM c' hc' h1 (by omega) c]
    by_cases hcc : c = c'
    · rw [if_pos hcc, if_pos ⟨hcc, h1⟩]
    · rw [if_neg hcc, if_neg (fun hh => hcc hh.1)]

/-! ## consequence for the 2-D round trip

With the exact Fourier basis the round trip `analysis (synth x) = x` reduces to the orthonormality of the
Legendre table under the latitude weights alone. -/

/-- exact separable criterion (any commutative ring): if the basis weights are `c · wl`, the Fourier Gram
 matrix scaled by `c` has unit columns on the support, and the Legendre tables are orthonormal under `wl`
 there, then the round trip returns every field supported there, exactly -/
theorem roundtrip_of_exact_gram {K : Type} [CommRing K] (b : Basis K) (N R J L : ℕ)
    (hb : Shaped b N R J L) (c : K) (wl : ℕ → K) (hw : ∀ j < J, ent b.w j = c * wl j)
    (supp : ℕ → ℕ → Prop)
    (hF : ∀ r' < R, ∀ l' < L, supp r' l' → ∀ r < R, c * fGram b N r r' = if r = r' then 1 else 0)
    (hP : ∀ r' < R, ∀ l' < L, supp r' l' → ∀ l < L,
      ∑ j ∈ range J, wl j * ent3 b.p r' j l * ent3 b.p r' j l' = if l = l' then 1 else 0)
    (x : List (List K)) (hx : ∀ row ∈ x, row.length ≤ L)
    (hsupp : ∀ r' l', ¬ supp r' l' → ent2 x r' l' = 0)
    (r l : ℕ) (hr : r < R) (hl : l < L) :
    ent2 (realAnalysis b R J L (realSynth b J x)) r l = ent2 x r l := by
  rw [ent2_roundtrip b N R J L hb x hx r l hr]
  have hterm : ∀ r' ∈ range R, ∀ l' ∈ range L,
      fGram b N r r' * lGram b J r r' l l' * ent2 x r' l'
        = (if r = r' ∧ l = l' then (1 : K) else 0) * ent2 x r' l' := by
    intro r' hr' l' hl'
    by_cases hs : supp r' l'
    · have hlg : lGram b J r r' l l'
          = c * ∑ j ∈ range J, wl j * ent3 b.p r j l * ent3 b.p r' j l' := by
        unfold lGram
        rw [Finset.mul_sum]
        apply Finset.sum_congr rfl; intro j hj
        rw [hw j (mem_range.1 hj)]; ring
      rw [hlg, ← mul_assoc, mul_comm (fGram b N r r') c,
        hF r' (mem_range.1 hr') l' (mem_range.1 hl') hs r hr]
      by_cases hrr : r = r'
      · subst hrr
        rw [if_pos rfl, one_mul, hP r (mem_range.1 hr') l' (mem_range.1 hl') hs l hl]
        by_cases hll : l = l'
        · rw [if_pos hll, if_pos ⟨rfl, hll⟩]
        · rw [if_neg hll, if_neg (fun h => hll h.2)]
      · rw [if_neg hrr, if_neg (fun h => hrr h.1)]; ring
    · rw [hsupp r' l' hs]; ring
  rw [Finset.sum_congr rfl (fun r' hr' => Finset.sum_congr rfl (hterm r' hr'))]
  rw [Finset.sum_eq_single r]
  · rw [Finset.sum_eq_single l]
    · simp
    · intro l' _ hne; simp [Ne.symm hne]
    · intro h; exact absurd (Finset.mem_range.2 hl) h
  · intro r' _ hne
    apply Finset.sum_eq_zero; intro l' _; simp [Ne.symm hne]
  · intro h; exact absurd (Finset.mem_range.2 hr) h

theorem sum_range_add_zero {K : Type} [AddCommMonoid K] (g : ℕ → K) (n k : ℕ)
    (h : ∀ i, n ≤ i → g i = 0) : ∑ i ∈ range (n + k), g i = ∑ i ∈ range n, g i := by
  induction k with
  | zero => rfl
  | succ k ih => rw [← Nat.add_assoc, Finset.sum_range_succ, ih, h _ (by omega), add_zero]

theorem evaluate_shape (M L : ℕ) (xs : List ℝ) :
    (Legendre.evaluate Real.sqrt M L xs).length = M ∧
    (∀ pm ∈ Legendre.evaluate Real.sqrt M L xs, pm.length = xs.length) ∧
    (∀ pm ∈ Legendre.evaluate Real.sqrt M L xs, ∀ pj ∈ pm, pj.length = L) := by
  refine ⟨by simp [Legendre.evaluate], ?_, ?_⟩
  · intro pm hpm
    simp only [Legendre.evaluate, List.mem_map] at hpm
    obtain ⟨m, _, rfl⟩ := hpm; simp
  · intro pm hpm pj hpj
    simp only [Legendre.evaluate, List.mem_map] at hpm
    obtain ⟨m, _, rfl⟩ := hpm
    simp only [List.mem_map] at hpj
    obtain ⟨x, _, rfl⟩ := hpj
    exact Legendre.row_length Real.sqrt L x m

theorem fReal_length (M N : ℕ) : (fReal M N).length = N := (realBasis_length _ _ _ _ M N).1
theorem fzReal_length (M N : ℕ) : (fzReal M N).length = N := (realBasis_length _ _ _ _ M N).2

/-- `RealSphericalHarmonics.basis` of the model over `ℝ` (guards `N ≥ M`, `L ≥ M`) -/
theorem buildReal_real_eq (M L N : ℕ) (xs wlat : List ℝ) (b : Basis ℝ)
    (hb : SH.buildReal Real.cos Real.sin Real.sqrt Real.pi M L N xs wlat = some b) :
    M ≤ N ∧ M ≤ L ∧ b = ⟨fReal M N, realTables (Legendre.evaluate Real.sqrt M L xs),
      wlat.map ((1 + 1) * Real.pi / (N : ℝ) * ·)⟩ := by
  unfold SH.buildReal SH.evaluate? at hb
  rw [realBasis?_real] at hb
  by_cases h1 : N < M
  · rw [if_pos h1] at hb; simp at hb
  · by_cases h2 : L < M
    · rw [if_neg h1, if_pos h2] at hb; simp at hb
    · rw [if_neg h1, if_neg h2] at hb
      have hb' : some (⟨fReal M N, realTables (Legendre.evaluate Real.sqrt M L xs),
          wlat.map ((1 + 1) * Real.pi / (N : ℝ) * ·)⟩ : Basis ℝ) = some b := hb
      exact ⟨by omega, by omega, (Option.some.inj hb').symm⟩

/-- `FastSphericalHarmonics.basis` of the model over `ℝ`, with its four paddings -/
theorem buildFast_real_eq (M L N pn pr pj pc : ℕ) (xs wlat : List ℝ) (b : Basis ℝ)
    (hb : SH.buildFast Real.cos Real.sin Real.sqrt Real.pi M L N xs wlat pn pr pj pc = some b) :
    M ≤ N ∧ M ≤ L ∧ b = fastBasisOf (fzReal M N) (Legendre.evaluate Real.sqrt M L xs)
      (wlat.map ((1 + 1) * Real.pi / (N : ℝ) * ·)) pn pr pj pc (2 * M) xs.length L := by
  unfold SH.buildFast SH.evaluate? at hb
  rw [realBasisZeroImag?_real] at hb
  by_cases h1 : N < M
  · rw [if_pos h1] at hb; simp at hb
  · by_cases h2 : L < M
    · rw [if_neg h1, if_pos h2] at hb; simp at hb
    · rw [if_neg h1, if_neg h2] at hb
      have hb' : some (fastBasisOf (fzReal M N) (Legendre.evaluate Real.sqrt M L xs)
          (wlat.map ((1 + 1) * Real.pi / (N : ℝ) * ·)) pn pr pj pc (2 * M) xs.length L) = some b := hb
      exact ⟨by omega, by omega, (Option.some.inj hb').symm⟩

/-- **T1.5, 2-D consequence (`RealSphericalHarmonics`).**  Over `ℝ`, for the basis the model builds from
 any latitude nodes `xs` and weights `wlat` (`w = 2π/N · wlat`): if the Legendre tables of
 `associated_legendre.evaluate` are orthonormal under `wlat` on a set `supp` of modal entries whose rows are
 resolved in longitude (`|m'| + (M − 1) < N`), then `transform (inverse_transform x) = x` exactly, for
 every field supported in `supp` — every `N`, `M`, `L`, `J`. -/
theorem roundtrip_real_of_legendre (M L N J : ℕ) (xs wlat : List ℝ) (b : Basis ℝ)
    (hb : SH.buildReal Real.cos Real.sin Real.sqrt Real.pi M L N xs wlat = some b)
    (hM : 1 ≤ M) (hxs : xs.length = J) (hwl : wlat.length = J)
    (supp : ℕ → ℕ → Prop)
    (hres : ∀ r' < 2 * M - 1, ∀ l' < L, supp r' l' → (r' + 1) / 2 + (M - 1) < N)
    (hP : ∀ r' < 2 * M - 1, ∀ l' < L, supp r' l' → ∀ l < L,
      ∑ j ∈ range J, ent wlat j * ent3 (Legendre.evaluate Real.sqrt M L xs) ((r' + 1) / 2) j l
          * ent3 (Legendre.evaluate Real.sqrt M L xs) ((r' + 1) / 2) j l' = if l = l' then 1 else 0)
    (x : List (List ℝ)) (hx : ∀ row ∈ x, row.length ≤ L)
    (hsupp : ∀ r' l', ¬ supp r' l' → ent2 x r' l' = 0)
    (r l : ℕ) (hr : r < 2 * M - 1) (hl : l < L) :
    ent2 (realAnalysis b (2 * M - 1) J L (realSynth b J x)) r l = ent2 x r l := by
  obtain ⟨hMN, hML, rfl⟩ := buildReal_real_eq M L N xs wlat b hb
  have hN : 0 < N := by omega
  obtain ⟨hP1, hP2, hP3⟩ := evaluate_shape M L xs
  have hsh : Shaped (⟨fReal M N, realTables (Legendre.evaluate Real.sqrt M L xs),
      wlat.map ((1 + 1) * Real.pi / (N : ℝ) * ·)⟩ : Basis ℝ) N (2 * M - 1) J L := by
    have h := realBasisOf_shaped (fReal M N) (Legendre.evaluate Real.sqrt M L xs)
      (wlat.map ((1 + 1) * Real.pi / (N : ℝ) * ·)) M N J L (fReal_length M N) hP1
      (fun pm h => by rw [hP2 pm h, hxs]) hP3 (by simp [hwl])
    unfold realBasisOf at h
    unfold realTables
    rw [List.drop_one]
    exact h
  refine roundtrip_of_exact_gram _ N (2 * M - 1) J L hsh ((1 + 1) * Real.pi / (N : ℝ))
    (fun j => ent wlat j) (fun j _ => ent_scale _ wlat j) supp ?_ ?_ x hx hsupp r l hr hl
  · intro r' hr' l' hl' hs r _
    exact gram_real_col M N hN hM r' hr' (hres r' hr' l' hl' hs) r
  · intro r' hr' l' hl' hs l hl
    simp only [ent3_realTables]
    exact hP r' hr' l' hl' hs l hl

/-- **T1.5, 2-D consequence (`FastSphericalHarmonics`, any padding).**  Rows `(+0, −0, +1, −1, …)`; row
 `r'` has wavenumber `r'/2`; the structurally zero row 1 and all padding carry no coefficient. -/
theorem roundtrip_fast_of_legendre (M L N J pn pr pj pc : ℕ) (xs wlat : List ℝ) (b : Basis ℝ)
    (hb : SH.buildFast Real.cos Real.sin Real.sqrt Real.pi M L N xs wlat pn pr pj pc = some b)
    (hM : 1 ≤ M) (hpr : pr % 2 = 0) (hxs : xs.length = J) (hwl : wlat.length = J)
    (supp : ℕ → ℕ → Prop)
    (hin : ∀ r' l', supp r' l' → r' ≠ 1 ∧ r' < 2 * M ∧ l' < L ∧ r' / 2 + (M - 1) < N)
    (hP : ∀ r' l', supp r' l' → ∀ l < L,
      ∑ j ∈ range J, ent wlat j * ent3 (Legendre.evaluate Real.sqrt M L xs) (r' / 2) j l
          * ent3 (Legendre.evaluate Real.sqrt M L xs) (r' / 2) j l' = if l = l' then 1 else 0)
    (x : List (List ℝ)) (hxl : x.length % 2 = 0) (hx : ∀ row ∈ x, row.length ≤ L + pc)
    (hsupp : ∀ r' l', ¬ supp r' l' → ent2 x r' l' = 0)
    (r l : ℕ) (hr : r < 2 * M + pr) (hl : l < L + pc) :
    ent2 (fastAnalysis b (2 * M + pr) (J + pj) (L + pc) (fastSynth b (J + pj) x)) r l = ent2 x r l := by
  obtain ⟨hMN, hML, rfl⟩ := buildFast_real_eq M L N pn pr pj pc xs wlat b hb
  subst hxs
  have hN : 0 < N := by omega
  obtain ⟨hP1, hP2, hP3⟩ := evaluate_shape M L xs
  have hR : 2 * M + pr = 2 * (M + pr / 2) := by omega
  rw [hR] at hr ⊢
  have hsb := fastBasisOf_shaped (fzReal M N) (Legendre.evaluate Real.sqrt M L xs)
    (wlat.map ((1 + 1) * Real.pi / (N : ℝ) * ·)) M N xs.length L pn pr pj pc (fzReal_length M N) hP1 hP2
    hP3 (by simp [hwl])
  have hsh := shaped_fastBasis _ _ _ _ _ hsb
  rw [fastSynth_eq_real _ _ _ hxl, fastAnalysis_eq_real _ _ _ _ _ (by omega)]
  refine roundtrip_of_exact_gram _ (N + pn) (2 * (M + pr / 2)) (xs.length + pj) (L + pc) hsh
    ((1 + 1) * Real.pi / (N : ℝ)) (fun j => ent wlat j) ?_ supp ?_ ?_ x hx hsupp r l hr hl
  · intro j _
    simp only [fastBasis]
    rw [ent_fastBasisOf_w]
    exact ent_scale _ wlat j
  · intro r' _ l' _ hs r _
    obtain ⟨h1, h2, _, h4⟩ := hin r' l' hs
    rw [← gram_zeroImag_col M N hN hM r' h2 h1 h4 r]
    unfold fGram wGram
    simp only [fastBasis, ent2_fastBasisOf_f]
    rw [sum_range_add_zero _ N pn (fun i hi => by
      rw [ent2_of_length_le (fzReal M N) i r (by rw [fzReal_length]; exact hi)]; ring)]
  · intro r' _ l' _ hs l hl
    obtain ⟨_, _, h3, _⟩ := hin r' l' hs
    simp only [fastBasis, ent3_dup, ent3_fastBasisOf]
    rw [sum_range_add_zero _ xs.length pj (fun j hj => by
      rw [ent_of_length_le wlat j (by omega)]; ring)]
    by_cases hlL : l < L
    · exact hP r' l' hs l hlL
    · rw [if_neg (by omega)]
      apply Finset.sum_eq_zero; intro j _
      rw [ent3_of_shape (Legendre.evaluate Real.sqrt M L xs) xs.length L (r' / 2) j l hP2 hP3
        (Or.inr (by omega))]; ring

/-- **headline form (real layout):** `2 (M − 1) < N`, fields supported in the triangle `|m| ≤ l` -/
theorem roundtrip_real_triangle (M L N J : ℕ) (xs wlat : List ℝ) (b : Basis ℝ)
    (hb : SH.buildReal Real.cos Real.sin Real.sqrt Real.pi M L N xs wlat = some b)
    (hM : 1 ≤ M) (hres : 2 * (M - 1) < N) (hxs : xs.length = J) (hwl : wlat.length = J)
    (hP : ∀ m < M, ∀ l' < L, m ≤ l' → ∀ l < L,
      ∑ j ∈ range J, ent wlat j * ent3 (Legendre.evaluate Real.sqrt M L xs) m j l
          * ent3 (Legendre.evaluate Real.sqrt M L xs) m j l' = if l = l' then 1 else 0)
    (x : List (List ℝ)) (hx : ∀ row ∈ x, row.length ≤ L)
    (hsupp : ∀ r' l', l' < (r' + 1) / 2 → ent2 x r' l' = 0)
    (r l : ℕ) (hr : r < 2 * M - 1) (hl : l < L) :
    ent2 (realAnalysis b (2 * M - 1) J L (realSynth b J x)) r l = ent2 x r l :=
  roundtrip_real_of_legendre M L N J xs wlat b hb hM hxs hwl (fun r' l' => (r' + 1) / 2 ≤ l')
    (fun r' hr' _ _ _ => by omega)
    (fun r' hr' l' hl' hs l hl => hP ((r' + 1) / 2) (by omega) l' hl' hs l hl)
    x hx (fun r' l' h => hsupp r' l' (Nat.lt_of_not_le h)) r l hr hl

/-- **headline form (fast layout, any padding):** `2 (M − 1) < N`, fields supported on the mask
 (`r ≠ 1`, `r < 2M`, `l < L`, `r/2 ≤ l`) -/
theorem roundtrip_fast_triangle (M L N J pn pr pj pc : ℕ) (xs wlat : List ℝ) (b : Basis ℝ)
    (hb : SH.buildFast Real.cos Real.sin Real.sqrt Real.pi M L N xs wlat pn pr pj pc = some b)
    (hM : 1 ≤ M) (hres : 2 * (M - 1) < N) (hpr : pr % 2 = 0) (hxs : xs.length = J)
    (hwl : wlat.length = J)
    (hP : ∀ m < M, ∀ l' < L, m ≤ l' → ∀ l < L,
      ∑ j ∈ range J, ent wlat j * ent3 (Legendre.evaluate Real.sqrt M L xs) m j l
          * ent3 (Legendre.evaluate Real.sqrt M L xs) m j l' = if l = l' then 1 else 0)
    (x : List (List ℝ)) (hxl : x.length % 2 = 0) (hx : ∀ row ∈ x, row.length ≤ L + pc)
    (hsupp : ∀ r' l', (r' = 1 ∨ 2 * M ≤ r' ∨ L ≤ l' ∨ l' < r' / 2) → ent2 x r' l' = 0)
    (r l : ℕ) (hr : r < 2 * M + pr) (hl : l < L + pc) :
    ent2 (fastAnalysis b (2 * M + pr) (J + pj) (L + pc) (fastSynth b (J + pj) x)) r l = ent2 x r l :=
  roundtrip_fast_of_legendre M L N J pn pr pj pc xs wlat b hb hM hpr hxs hwl
    (fun r' l' => r' ≠ 1 ∧ r' < 2 * M ∧ l' < L ∧ r' / 2 ≤ l')
    (fun r' l' h => ⟨h.1, h.2.1, h.2.2.1, by omega⟩)
    (fun r' l' h l hl => hP (r' / 2) (by omega) l' h.2.2.1 h.2.2.2 l hl)
    x hxl hx (fun r' l' h => hsupp r' l' (by omega)) r l hr hl

end Dino.FourierOrtho
