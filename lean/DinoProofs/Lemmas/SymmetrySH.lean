import Dino.Symmetry
import DinoProofs.Lemmas.SH
import DinoProofs.Lemmas.SHFast
import DinoProofs.Lemmas.SHEquiv
import DinoProofs.Lemmas.Legendre
import Mathlib.Tactic.LinearCombination
import Mathlib.Tactic.FieldSimp

/-!
# Lemmas for C10, part 8: the concrete symmetries of the spherical-harmonic model

**Rotation by `k` longitude grid steps** (T10.2).  A coefficient rotation is written in *local form*
`(T g)(r) = α r · g r + β r · g (nb r)` (`RowMap`): row `r` is combined with its partner row `nb r`
(the other member of the `(cos, sin)` pair).  What the transforms need of it is collected in
`RotData`:
* `ortho` — the rotation is orthogonal (`cos² + sin² = 1`, summed pair by pair);
* `basis` — node `i + k` of the Fourier matrix is the rotated node `i` (angle addition, periodicity);
* `tables` — both rows of a pair use the same Legendre table.
From these, synthesis and analysis intertwine the coefficient rotation with `roll k`
(`ent2_synth_rot`, `ent2_analysis_rot`), for every basis shape.  The two layouts of the code are
instances: `realRow` (`RealSphericalHarmonics`, rows `0, +1, −1, …`) and `fastRow`
(`FastSphericalHarmonics`, rows `+0, −0, +1, −1, …` and padding rows).

**Equatorial mirror** (T10.3): `SymmetryMirror.lean`.
-/
namespace Dino.Symmetry
open Finset Dino.Lin Dino.SH Dino.SHEquiv

/-! ## sums over a cyclic shift -/
section shift
variable {A : Type} [AddCommMonoid A]

theorem sum_shift_one (g : ℕ → A) (N : ℕ) : ∑ i ∈ range N, g ((i + 1) % N) = ∑ i ∈ range N, g i := by
  cases N with
  | zero => simp
  | succ n =>
    rw [Finset.sum_range_succ, Finset.sum_range_succ' g n, Nat.mod_self]
    congr 1
    apply Finset.sum_congr rfl
    intro i hi
    rw [Nat.mod_eq_of_lt (by have := Finset.mem_range.1 hi; omega)]

/-- re-indexing of a sum over the nodes by the cyclic shift `i ↦ (i + k) mod N` -/
theorem sum_shift (g : ℕ → A) (N k : ℕ) : ∑ i ∈ range N, g ((i + k) % N) = ∑ i ∈ range N, g i := by
  induction k generalizing g with
  | zero =>
    apply Finset.sum_congr rfl
    intro i hi
    rw [Nat.add_zero, Nat.mod_eq_of_lt (Finset.mem_range.1 hi)]
  | succ k ih =>
    have := sum_shift_one (fun j => g ((j + k) % N)) N
    simp only [Nat.mod_add_mod] at this
    rw [← ih g, ← this]
    apply Finset.sum_congr rfl
    intro i _
    congr 2
    omega

end shift

/-- the node that `np.roll(·, k)` reads at position `i`, shifted forward again by `k` -/
theorem roll_index (N k i : ℕ) (hi : i < N) : ((i + (N - k % N)) % N + k) % N = i := by
  have hN : 0 < N := by omega
  have hk : k % N < N := Nat.mod_lt _ hN
  rw [Nat.mod_add_mod]
  have : i + (N - k % N) + k = i + N * (1 + k / N) := by
    have := Nat.mod_add_div k N
    rw [Nat.mul_add, Nat.mul_one]
    omega
  rw [this, Nat.add_mul_mod_self_left, Nat.mod_eq_of_lt hi]

/-! ## entries of `roll`, `flipLat`, `zipWith` -/
section lists
set_option linter.unusedSectionVars false
variable {K : Type} [CommRing K]

theorem roll_length {α : Type} (k : ℕ) (z : List (List α)) : (roll k z).length = z.length := by
  simp [roll]

theorem ent2_roll (k : ℕ) (z : List (List K)) (i j : ℕ) (hi : i < z.length) :
    ent2 (roll k z) i j = ent2 z ((i + (z.length - k % z.length)) % z.length) j := by
  unfold roll
  rw [ent2_range_map, if_pos hi]
  rfl

theorem roll_rows (k : ℕ) (z : List (List K)) (J : ℕ) (hz : ∀ r ∈ z, r.length = J) :
    ∀ r ∈ roll k z, r.length = J := by
  intro r hr
  simp only [roll, List.mem_map, List.mem_range] at hr
  obtain ⟨i, hi, rfl⟩ := hr
  have hlt : (i + (z.length - k % z.length)) % z.length < z.length := Nat.mod_lt _ (by omega)
  rw [getD_eq_getElem_nil z _ hlt]
  exact hz _ (List.getElem_mem _)

/-- entry of a `zipWith` of two vectors of the same length -/
theorem ent_zipWith_of (f : K → K → K) (hf : f 0 0 = 0) (a b : List K) (h : a.length = b.length)
    (l : ℕ) : ent (List.zipWith f a b) l = f (ent a l) (ent b l) := by
  induction a generalizing b l with
  | nil =>
    cases b with
    | nil => simp [hf]
    | cons y u => simp at h
  | cons x t ih =>
    cases b with
    | nil => simp at h
    | cons y u =>
      cases l with
      | zero => simp
      | succ l => simpa using ih u (by simpa using h) l

end lists

/-! ## coefficient rotations in local form -/
section rowmap
variable {K : Type} [CommRing K]

/-- `(T g)(r) = α r · g r + β r · g (nb r)` -/
structure RowMap (K : Type) where
  α : ℕ → K
  β : ℕ → K
  nb : ℕ → ℕ

def RowMap.app (T : RowMap K) (g : ℕ → K) (r : ℕ) : K := T.α r * g r + T.β r * g (T.nb r)

theorem RowMap.app_sum (T : RowMap K) (s : Finset ℕ) (g : ℕ → ℕ → K) (r : ℕ) :
    T.app (fun r => ∑ i ∈ s, g i r) r = ∑ i ∈ s, T.app (g i) r := by
  unfold RowMap.app
  rw [Finset.mul_sum, Finset.mul_sum, ← Finset.sum_add_distrib]

theorem RowMap.app_mul_right (T : RowMap K) (g : ℕ → K) (q : K) (r : ℕ) :
    T.app (fun r => g r * q) r = T.app g r * q := by
  unfold RowMap.app; ring

theorem RowMap.app_mul_left (T : RowMap K) (g : ℕ → K) (q : K) (r : ℕ) :
    T.app (fun r => q * g r) r = q * T.app g r := by
  unfold RowMap.app; ring

/-- what the transforms need of a coefficient rotation `T` for the shift by `k` nodes -/
structure RotData (b : Basis K) (N R k : ℕ) (T : RowMap K) : Prop where
  nb_lt : ∀ r < R, T.nb r < R
  ortho : ∀ a c : ℕ → K, ∑ r ∈ range R, T.app a r * T.app c r = ∑ r ∈ range R, a r * c r
  basis : ∀ i < N, ∀ r < R, ent2 b.f ((i + k) % N) r = T.app (fun r => ent2 b.f i r) r
  tables : ∀ r < R, ∀ j l, ent3 b.p (T.nb r) j l = ent3 b.p r j l

variable {b : Basis K} {N R J L k : ℕ} {T : RowMap K}

/-- **synthesis intertwines the coefficient rotation with the shift of the nodes**:
 the field synthesised from the rotated coefficients, read at node `i + k`, is the original field
 at node `i` -/
theorem ent2_synth_rot (hb : Shaped b N R J L) (D : RotData b N R k T) (x x' : List (List K))
    (hx : ∀ row ∈ x, row.length ≤ L) (hx' : ∀ row ∈ x', row.length ≤ L)
    (hrot : ∀ r < R, ∀ l, ent2 x' r l = T.app (fun r => ent2 x r l) r)
    (i : ℕ) (hi : i < N) (j : ℕ) :
    ent2 (realSynth b J x') ((i + k) % N) j = ent2 (realSynth b J x) i j := by
  rw [ent2_realSynth b N R J L hb x' hx', ent2_realSynth b N R J L hb x hx]
  rw [← D.ortho (fun r => ent2 b.f i r) (fun r => ∑ l ∈ range L, ent3 b.p r j l * ent2 x r l)]
  apply Finset.sum_congr rfl
  intro r hr
  have hr' := Finset.mem_range.1 hr
  rw [D.basis i hi r hr']
  congr 1
  unfold RowMap.app
  rw [Finset.mul_sum, Finset.mul_sum, ← Finset.sum_add_distrib]
  apply Finset.sum_congr rfl
  intro l _
  rw [hrot r hr' l, D.tables r hr' j l]
  unfold RowMap.app
  ring

/-- **analysis intertwines the shift of the nodes with the coefficient rotation** -/
theorem ent2_analysis_rot (hb : Shaped b N R J L) (D : RotData b N R k T) (z z' : List (List K))
    (hz : ∀ zi ∈ z, zi.length = J) (hzl : z.length ≤ N)
    (hz' : ∀ zi ∈ z', zi.length = J) (hzl' : z'.length ≤ N)
    (hroll : ∀ i < N, ∀ j, ent2 z' ((i + k) % N) j = ent2 z i j)
    (r : ℕ) (hr : r < R) (l : ℕ) :
    ent2 (realAnalysis b R J L z') r l
      = T.app (fun r => ent2 (realAnalysis b R J L z) r l) r := by
  rw [ent2_realAnalysis b N R J L hb z' hz' hzl' r l hr]
  have hinner : ∀ j, ∑ i ∈ range N, ent2 b.f i r * (ent b.w j * ent2 z' i j)
      = T.app (fun r => ∑ i ∈ range N, ent2 b.f i r * (ent b.w j * ent2 z i j)) r := by
    intro j
    rw [← sum_shift (fun i => ent2 b.f i r * (ent b.w j * ent2 z' i j)) N k, RowMap.app_sum]
    apply Finset.sum_congr rfl
    intro i hi
    have hi' := Finset.mem_range.1 hi
    rw [D.basis i hi' r hr, hroll i hi' j, RowMap.app_mul_right]
  simp only [hinner, RowMap.app]
  rw [ent2_realAnalysis b N R J L hb z hz hzl r l hr,
    ent2_realAnalysis b N R J L hb z hz hzl (T.nb r) l (D.nb_lt r hr), Finset.mul_sum, Finset.mul_sum,
    ← Finset.sum_add_distrib]
  apply Finset.sum_congr rfl
  intro j _
  rw [D.tables r hr j l]
  ring

/-- list form of the synthesis statement: `inverse_transform (rotate x) = roll k (inverse_transform x)` -/
theorem synth_rot_eq_roll (hb : Shaped b N R J L) (D : RotData b N R k T) (x x' : List (List K))
    (hx : ∀ row ∈ x, row.length ≤ L) (hx' : ∀ row ∈ x', row.length ≤ L)
    (hrot : ∀ r < R, ∀ l, ent2 x' r l = T.app (fun r => ent2 x r l) r) :
    realSynth b J x' = roll k (realSynth b J x) := by
  have hlen : (realSynth b J x).length = N := by rw [realSynth_length, hb.fl]
  apply ext_ent2 _ _ J
  · rw [roll_length, realSynth_length, realSynth_length]
  · exact realSynth_rows b N R J L hb x'
  · exact roll_rows k _ J (realSynth_rows b N R J L hb x)
  · intro i j
    rcases Nat.lt_or_ge i N with hi | hi
    · rw [ent2_roll k _ i j (by rw [hlen]; exact hi), hlen]
      have hlt : (i + (N - k % N)) % N < N := Nat.mod_lt _ (by omega)
      rw [← ent2_synth_rot hb D x x' hx hx' hrot _ hlt j, roll_index N k i hi]
    · rw [ent2_of_length_le _ i j (by rw [realSynth_length, hb.fl]; exact hi),
        ent2_of_length_le _ i j (by rw [roll_length, hlen]; exact hi)]

/-- list form of the analysis statement: `transform (roll k z) = rotate (transform z)` -/
theorem analysis_roll_eq_rot (hb : Shaped b N R J L) (D : RotData b N R k T) (z : List (List K))
    (hz : ∀ zi ∈ z, zi.length = J) (hzl : z.length = N) (y' : List (List K))
    (hyl : y'.length = R) (hyr : ∀ row ∈ y', row.length = L)
    (hrot : ∀ r < R, ∀ l, ent2 y' r l = T.app (fun r => ent2 (realAnalysis b R J L z) r l) r) :
    realAnalysis b R J L (roll k z) = y' := by
  apply ext_ent2 _ _ L
  · rw [realAnalysis_length b N R J L hb, hyl]
  · exact realAnalysis_rows b N R J L hb R _
  · exact hyr
  · intro r l
    rcases Nat.lt_or_ge r R with hr | hr
    · rw [hrot r hr l]
      apply ent2_analysis_rot hb D z (roll k z) hz (le_of_eq hzl) (roll_rows k z J hz)
        (by rw [roll_length, hzl]) _ r hr l
      intro i hi j
      have hlt : (i + k) % N < N := Nat.mod_lt _ (by omega)
      rw [ent2_roll k z _ j (by rw [hzl]; exact hlt), hzl]
      congr 1
      -- ((i + k) % N + (N - k % N)) % N = i
      have hN : 0 < N := by omega
      have hk : k % N < N := Nat.mod_lt _ hN
      rw [Nat.mod_add_mod]
      have : i + k + (N - k % N) = i + N * (1 + k / N) := by
        have := Nat.mod_add_div k N
        rw [Nat.mul_add, Nat.mul_one]
        omega
      rw [this, Nat.add_mul_mod_self_left, Nat.mod_eq_of_lt hi]
    · rw [ent2_of_length_le _ r l (by rw [realAnalysis_length b N R J L hb]; exact hr),
        ent2_of_length_le _ r l (by rw [hyl]; exact hr)]

end rowmap
end Dino.Symmetry
