import DinoProofs.Lemmas.InvariantsMean
import DinoProofs.Lemmas.InvariantsTM

/-!
# The shallow-water equations of `Dino.DynamicsSW` in the frames of C11 (finding 3)

`SW.imex eq` is `ShallowWaterEquations` of `Dino.DynamicsSW` — the one shallow-water model of the
framework, shared with C05 / C10 / C12 — as an `ImplicitExplicitODE` on `tree_math` vectors.  For a
state with `n` layers whose leaves lie in the structural submodule `S`:

* the explicit terms, the implicit terms and the implicit inverse (Schur complement) lie in `S` and
  keep the `n` layers;
* the `(0,0)` coefficients of the vorticity, divergence **and potential** explicit tendencies vanish
  (`div`, `curl`, Laplacian annihilate `l = 0`, clipping keeps that), those of the implicit vorticity
  and divergence tendencies as well; the implicit potential tendency is `−Φ_ref·δ`, which has zero
  `(0,0)` coefficient exactly when `δ₀₀ = 0` (mass is conserved for states of zero mean divergence,
  a property that is itself invariant);
* the inverse multiplies the `l = 0` column by `1 / (1 − η²·Φ_ref·λ₀) = 1` (`λ₀ = 0`), so it passes all
  three `(0,0)` coefficients through (the potential one again for `δ₀₀ = 0`).
-/
set_option linter.unusedSectionVars false

namespace Dino.Invariants
open Dino Dino.Dynamics Dino.DynamicsSW Dino.Imex

section
variable {K M N : Type} [Field K] [LT K] [DecidableLT K] [AddCommGroup M] [Module K M]
  [Add N] [Sub N] [Neg N] [Zero N] [Mul N] [One N] [SMul K N]

/-- `n` layers in each of the three fields -/
structure SWShaped (n : ℕ) (s : DynamicsSW.State M) : Prop where
  z : s.vorticity.length = n
  d : s.divergence.length = n
  p : s.potential.length = n

/-- the equation object has `n` layers -/
structure SWEqShaped (eq : ShallowWaterEquations K M N) (n : ℕ) : Prop where
  dens : eq.specs.densities.length = n
  ref : eq.referencePotential.length = n

/-- the records of C11 for shallow water: leaves in `T`, `n` layers, and the `(0,0)` coefficient of
 every divergence level in `D` (`D = ⊤`: no condition; `D = ⊥`: zero mean divergence) -/
structure SWQ (T : Submodule K M) (n : ℕ) (ℓ : M →ₗ[K] K) (D : Submodule K K)
    (s : DynamicsSW.State M) : Prop where
  z : AllP (· ∈ T) s.vorticity
  d : AllP (· ∈ T) s.divergence
  p : AllP (· ∈ T) s.potential
  sh : SWShaped n s
  d0 : AllP (fun x => ℓ x ∈ D) s.divergence

variable {T Mk S : Submodule K M} {n : ℕ} {ℓ : M →ₗ[K] K} {D : Submodule K K}

theorem SWQ.add {a b : DynamicsSW.State M} (ha : SWQ T n ℓ D a) (hb : SWQ T n ℓ D b) :
    SWQ T n ℓ D (a + b) where
  z := col_add_mem T ha.z hb.z
  d := col_add_mem T ha.d hb.d
  p := col_add_mem T ha.p hb.p
  sh := ⟨by show (Col.add _ _).length = n; simp [Col.add, ha.sh.z, hb.sh.z],
    by show (Col.add _ _).length = n; simp [Col.add, ha.sh.d, hb.sh.d],
    by show (Col.add _ _).length = n; simp [Col.add, ha.sh.p, hb.sh.p]⟩
  d0 := allP_zipWith _ ha.d0 hb.d0 fun x y hx hy => by rw [map_add]; exact D.add_mem hx hy

theorem SWQ.smul (c : K) {a : DynamicsSW.State M} (ha : SWQ T n ℓ D a) : SWQ T n ℓ D (c • a) where
  z := allP_map _ ha.z fun _ h => T.smul_mem c h
  d := allP_map _ ha.d fun _ h => T.smul_mem c h
  p := allP_map _ ha.p fun _ h => T.smul_mem c h
  sh := ⟨by show (List.map _ _).length = n; simp [ha.sh.z],
    by show (List.map _ _).length = n; simp [ha.sh.d],
    by show (List.map _ _).length = n; simp [ha.sh.p]⟩
  d0 := allP_map _ ha.d0 fun x hx => by rw [map_smul]; exact D.smul_mem c hx

/-- level `i` of a column, zero outside -/
theorem lv_add_of_len {a b : List M} (h : a.length = b.length) (i : ℕ) :
    (Col.add a b).getD i 0 = a.getD i 0 + b.getD i 0 := lv_add a b h i

theorem lv_smul_col (c : K) (a : List M) (i : ℕ) :
    (a.map fun x => c • x).getD i 0 = c • a.getD i 0 := lv_smul c a i

/-- the observables: the `(0,0)` coefficient of level `i` of the vorticity / divergence / potential -/
inductive SWField where
  | vorticity | divergence | potential

def SWField.get : SWField → DynamicsSW.State M → List M
  | .vorticity, s => s.vorticity
  | .divergence, s => s.divergence
  | .potential, s => s.potential

/-- the record predicate `SWQ` with the observable `ℓ (field level i)` -/
def swObs (T : Submodule K M) (n : ℕ) (ℓ : M →ₗ[K] K) (D : Submodule K K) (f : SWField) (i : ℕ) :
    QObs K (DynamicsSW.State M) K where
  Q := SWQ T n ℓ D
  ω := fun s => ℓ ((f.get s).getD i 0)
  Q_add := SWQ.add
  Q_smul := SWQ.smul
  ω_add := by
    intro a b ha hb
    cases f
    · show ℓ ((Col.add a.vorticity b.vorticity).getD i 0) = _
      rw [lv_add_of_len (by rw [ha.sh.z, hb.sh.z]), map_add]; rfl
    · show ℓ ((Col.add a.divergence b.divergence).getD i 0) = _
      rw [lv_add_of_len (by rw [ha.sh.d, hb.sh.d]), map_add]; rfl
    · show ℓ ((Col.add a.potential b.potential).getD i 0) = _
      rw [lv_add_of_len (by rw [ha.sh.p, hb.sh.p]), map_add]; rfl
  ω_smul := by
    intro c a _
    cases f
    · show ℓ ((a.vorticity.map fun x => c • x).getD i 0) = _
      rw [lv_smul_col, map_smul]; rfl
    · show ℓ ((a.divergence.map fun x => c • x).getD i 0) = _
      rw [lv_smul_col, map_smul]; rfl
    · show ℓ ((a.potential.map fun x => c • x).getD i 0) = _
      rw [lv_smul_col, map_smul]; rfl

/-! ### the terms -/
variable (eq : ShallowWaterEquations K M N)

theorem getDensityRatios_length (ρ : List K) : (getDensityRatios ρ).length = ρ.length := by
  simp [getDensityRatios]

theorem layeredPressure_length (E : SWEqShaped eq n) (φ : List M) :
    (eq.layeredPressure φ).length = n := by
  unfold ShallowWaterEquations.layeredPressure ShallowWaterEquations.densityRatios
  split <;> simp [Col.matvec, Col.addLevel, getDensityRatios_length, E.dens]

theorem layeredPressure_mem (H : OpsClosed eq.ops Mk S)
    (ho : ∀ o, eq.orography = some o → o ∈ Mk) {φ : List M} (hφ : AllP (· ∈ S) φ) :
    AllP (· ∈ Mk) (eq.layeredPressure φ) := by
  have h1 : AllP (· ∈ Mk) (Col.matvec eq.densityRatios φ) :=
    col_matvec_mem Mk _ fun x hx => H.S_le x (hφ x hx)
  unfold ShallowWaterEquations.layeredPressure
  split
  · rename_i o ho'
    exact col_addLevel_mem Mk h1 (ho o ho')
  · exact h1

/-- one layer of the explicit terms: every component lies in `S` and has zero `(0,0)` coefficient,
 for every layer state and any pressure inside the mask -/
theorem explicitLayer_spec (H : OpsClosed eq.ops Mk S) (H0 : Mode0 eq.ops ℓ) (z d φ p : M)
    (hp : p ∈ Mk) :
    ((eq.explicitLayer z d φ p).1 ∈ S ∧ (eq.explicitLayer z d φ p).2.1 ∈ S ∧
      (eq.explicitLayer z d φ p).2.2 ∈ S) ∧
    (ℓ (eq.explicitLayer z d φ p).1 = 0 ∧ ℓ (eq.explicitLayer z d φ p).2.1 = 0 ∧
      ℓ (eq.explicitLayer z d φ p).2.2 = 0) := by
  have Z := H0.mean0
  unfold ShallowWaterEquations.explicitLayer
  simp only []
  refine ⟨⟨?_, ?_, ?_⟩, ?_, ?_, ?_⟩
  · exact H.clip_mem _ (Mk.neg_mem (H.S_le _ (H.divCosLat_clip_mem (H.toModal_mem _) (H.toModal_mem _))))
  · exact H.clip_mem _ (Mk.add_mem (Mk.neg_mem (H.laplacian_mem _ (Mk.add_mem hp (H.toModal_mem _))))
      (H.S_le _ (H.curlCosLat_clip_mem (H.toModal_mem _) (H.toModal_mem _))))
  · exact H.clip_mem _ (Mk.neg_mem (H.S_le _ (H.divCosLat_clip_mem (H.toModal_mem _) (H.toModal_mem _))))
  · exact Z.clip_mem _ ((kerOf ℓ).neg_mem (Z.divCosLat_clip_mem _))
  · exact Z.clip_mem _ ((kerOf ℓ).add_mem ((kerOf ℓ).neg_mem (Z.laplacian_mem _))
      (Z.curlCosLat_clip_mem _))
  · exact Z.clip_mem _ ((kerOf ℓ).neg_mem (Z.divCosLat_clip_mem _))

/-- the rows of `explicit_terms` -/
def explicitRows (s : DynamicsSW.State M) : List (M × M × M) :=
  List.zipWith (fun (zd : M × M) (fp : M × M) => eq.explicitLayer zd.1 zd.2 fp.1 fp.2)
    (List.zip s.vorticity s.divergence) (List.zip s.potential (eq.layeredPressure s.potential))

theorem explicitTerms_eq_rows (s : DynamicsSW.State M) :
    eq.explicitTerms s = { vorticity := (explicitRows eq s).map fun r => r.1
                           divergence := (explicitRows eq s).map fun r => r.2.1
                           potential := (explicitRows eq s).map fun r => r.2.2 } := rfl

theorem explicitRows_spec (H : OpsClosed eq.ops Mk S) (H0 : Mode0 eq.ops ℓ)
    (ho : ∀ o, eq.orography = some o → o ∈ Mk) (E : SWEqShaped eq n) {s : DynamicsSW.State M}
    (hs : SWQ S n ℓ D s) :
    (explicitRows eq s).length = n ∧
    ∀ r ∈ explicitRows eq s, (r.1 ∈ S ∧ r.2.1 ∈ S ∧ r.2.2 ∈ S) ∧
      (ℓ r.1 = 0 ∧ ℓ r.2.1 = 0 ∧ ℓ r.2.2 = 0) := by
  refine ⟨by simp [explicitRows, hs.sh.z, hs.sh.d, hs.sh.p, layeredPressure_length eq E], ?_⟩
  intro r hr
  obtain ⟨zd, _, fp, hfp, rfl⟩ := mem_zipWith_elim hr
  have hp : fp.2 ∈ Mk := layeredPressure_mem eq H ho hs.p _ (List.of_mem_zip hfp).2
  exact explicitLayer_spec eq H H0 _ _ _ _ hp

/-- **explicit terms (shallow water)**: on `SWQ` they lie in `SWQ` with zero `(0,0)` coefficient of
 every level of every field -/
theorem sw_explicit_spec (H : OpsClosed eq.ops Mk S) (H0 : Mode0 eq.ops ℓ)
    (ho : ∀ o, eq.orography = some o → o ∈ Mk) (E : SWEqShaped eq n) {s : DynamicsSW.State M}
    (hs : SWQ S n ℓ D s) (f : SWField) (i : ℕ) :
    SWQ S n ℓ D (eq.explicitTerms s) ∧ ℓ ((f.get (eq.explicitTerms s)).getD i 0) = 0 := by
  obtain ⟨hl, hr⟩ := explicitRows_spec eq H H0 ho E hs
  rw [explicitTerms_eq_rows]
  have hz : ∀ (g : M × M × M → M), (∀ r ∈ explicitRows eq s, ℓ (g r) = 0) → ∀ i,
      ℓ (((explicitRows eq s).map g).getD i 0) = 0 := by
    intro g hg i
    rw [List.getD_eq_getElem?_getD]
    cases h : ((explicitRows eq s).map g)[i]? with
    | none => simp
    | some v =>
      obtain ⟨r, hr', rfl⟩ := List.mem_map.1 (List.mem_of_getElem? h)
      simpa using hg r hr'
  refine ⟨⟨allP_map _ (fun r hr' => hr') fun r hr' => (hr r hr').1.1,
    allP_map _ (fun r hr' => hr') fun r hr' => (hr r hr').1.2.1,
    allP_map _ (fun r hr' => hr') fun r hr' => (hr r hr').1.2.2,
    ⟨by simp [hl], by simp [hl], by simp [hl]⟩,
    allP_map _ (fun r hr' => hr') fun r hr' => by rw [(hr r hr').2.2.1]; exact D.zero_mem⟩, ?_⟩
  cases f
  · exact hz _ (fun r hr' => (hr r hr').2.1) i
  · exact hz _ (fun r hr' => (hr r hr').2.2.1) i
  · exact hz _ (fun r hr' => (hr r hr').2.2.2) i

/-- `(0,0)` coefficient of level `i` of a column all of whose levels have `(0,0)` coefficient zero -/
theorem getD_ker {l : List M} (h : AllP (fun x => ℓ x = 0) l) (i : ℕ) : ℓ (l.getD i 0) = 0 := by
  rw [List.getD_eq_getElem?_getD]
  cases h' : l[i]? with
  | none => simp
  | some v => simpa using h v (List.mem_of_getElem? h')

/-- **implicit terms (shallow water)**: `S → S`; zero `(0,0)` coefficient of vorticity and divergence
 for every state, of the potential when `δ₀₀ = 0` -/
theorem sw_implicit_spec (H : OpsClosed eq.ops Mk S) (H0 : Mode0 eq.ops ℓ) (E : SWEqShaped eq n)
    {s : DynamicsSW.State M} (hs : SWQ S n ℓ D s) :
    SWQ S n ℓ D (eq.implicitTerms s) ∧
    (∀ i, ℓ ((eq.implicitTerms s).vorticity.getD i 0) = 0) ∧
    (∀ i, ℓ ((eq.implicitTerms s).divergence.getD i 0) = 0) ∧
    (D = ⊥ → ∀ i, ℓ ((eq.implicitTerms s).potential.getD i 0) = 0) := by
  unfold ShallowWaterEquations.implicitTerms
  refine ⟨⟨col_zerosLike_mem S _, allP_map _ hs.p fun x hx => S.neg_mem (H.laplacian_S x hx),
    allP_zipWith_right _ _ hs.d fun r y hy => S.smul_mem _ hy,
    ⟨by simp [Col.zerosLike, hs.sh.z], by simp [hs.sh.p], by simp [E.ref, hs.sh.d]⟩,
    allP_map_of _ _ fun x => by rw [map_neg, H0.laplacian, neg_zero]; exact D.zero_mem⟩, ?_, ?_, ?_⟩
  · intro i
    exact getD_ker (allP_map_of _ _ fun _ => map_zero ℓ) i
  · intro i
    exact getD_ker (allP_map_of _ _ fun x => by rw [map_neg, H0.laplacian, neg_zero]) i
  · intro hD i
    apply getD_ker
    refine allP_zipWith_right _ _ hs.d0 fun r y hy => ?_
    rw [hD] at hy
    rw [map_smul, (Submodule.mem_bot K).1 hy, smul_zero]

theorem inverseSchur_zero (H0 : Mode0 eq.ops ℓ) (η r : K) :
    eq.inverseSchurComplement η r 0 = 1 := by
  simp [ShallowWaterEquations.inverseSchurComplement, H0.lapEig_zero]

/-- the rows of `implicit_inverse` -/
def inverseRows (η : K) (s : DynamicsSW.State M) : List (M × M) :=
  List.zipWith
    (fun (r : K) (dp : M × M) =>
      ( lmul eq.ops (eq.inverseSchurComplement η r) (dp.1 - η • eq.ops.laplacian dp.2),
        lmul eq.ops (eq.inverseSchurComplement η r) (((-η) * r) • dp.1 + dp.2) ))
    eq.referencePotential (List.zip s.divergence s.potential)

theorem implicitInverse_eq_rows (η : K) (s : DynamicsSW.State M) :
    eq.implicitInverse η s = { vorticity := s.vorticity
                               divergence := (inverseRows eq η s).map fun r => r.1
                               potential := (inverseRows eq η s).map fun r => r.2 } := rfl

/-- level `i` of a `zipWith` of three columns of the same length -/
theorem getD_inverseRows (E : SWEqShaped eq n) (η : K) {s : DynamicsSW.State M}
    (hs : SWShaped n s) (i : ℕ) (hi : i < n) :
    (inverseRows eq η s)[i]? = some
      ( lmul eq.ops (eq.inverseSchurComplement η (eq.referencePotential.getD i 0))
          (s.divergence.getD i 0 - η • eq.ops.laplacian (s.potential.getD i 0)),
        lmul eq.ops (eq.inverseSchurComplement η (eq.referencePotential.getD i 0))
          (((-η) * eq.referencePotential.getD i 0) • s.divergence.getD i 0 + s.potential.getD i 0) ) := by
  have h1 : i < eq.referencePotential.length := by rw [E.ref]; exact hi
  have h2 : i < s.divergence.length := by rw [hs.d]; exact hi
  have h3 : i < s.potential.length := by rw [hs.p]; exact hi
  have hz : (List.zip s.divergence s.potential)[i]? = some (s.divergence[i], s.potential[i]) :=
    List.getElem?_zip_eq_some.2 ⟨List.getElem?_eq_getElem h2, List.getElem?_eq_getElem h3⟩
  unfold inverseRows
  rw [List.getElem?_zipWith, List.getElem?_eq_getElem h1, hz]
  simp [List.getD_eq_getElem?_getD, List.getElem?_eq_getElem h1, List.getElem?_eq_getElem h2,
    List.getElem?_eq_getElem h3]

/-- **implicit inverse (shallow water)**: `S → S`; passes vorticity through; passes the `(0,0)`
 coefficient of every divergence level through; that of the potential when `δ₀₀ = 0` -/
theorem sw_inverse_spec (H : OpsClosed eq.ops Mk S) (H0 : Mode0 eq.ops ℓ) (E : SWEqShaped eq n)
    (η : K) {s : DynamicsSW.State M} (hs : SWQ S n ℓ D s) :
    SWQ S n ℓ D (eq.implicitInverse η s) ∧
    (eq.implicitInverse η s).vorticity = s.vorticity ∧
    (∀ i, ℓ ((eq.implicitInverse η s).divergence.getD i 0) = ℓ (s.divergence.getD i 0)) ∧
    (D = ⊥ → ∀ i, ℓ ((eq.implicitInverse η s).potential.getD i 0) = ℓ (s.potential.getD i 0)) := by
  rw [implicitInverse_eq_rows]
  have hl : (inverseRows eq η s).length = n := by
    simp [inverseRows, E.ref, hs.sh.d, hs.sh.p]
  have hmem : ∀ r ∈ inverseRows eq η s, r.1 ∈ S ∧ r.2 ∈ S := by
    intro r hr
    obtain ⟨c, _, dp, hdp, rfl⟩ := mem_zipWith_elim hr
    have hd := hs.d _ (List.of_mem_zip hdp).1
    have hp := hs.p _ (List.of_mem_zip hdp).2
    exact ⟨lmul_mem H _ (S.sub_mem hd (S.smul_mem _ (H.laplacian_S _ hp))),
      lmul_mem H _ (S.add_mem (S.smul_mem _ hd) hp)⟩
  have hdiv : ∀ i, ℓ (((inverseRows eq η s).map fun r => r.1).getD i 0) = ℓ (s.divergence.getD i 0) := by
    intro i
    by_cases hi : i < n
    · rw [List.getD_eq_getElem?_getD, List.getElem?_map, getD_inverseRows eq E η hs.sh i hi]
      simp only [Option.map_some, Option.getD_some]
      rw [map_lmul H0, inverseSchur_zero eq H0, one_mul, map_sub, map_smul, H0.laplacian, smul_zero,
        sub_zero]
    · rw [List.getD_eq_getElem?_getD, List.getD_eq_getElem?_getD,
        List.getElem?_eq_none (by simp [hl]; omega), List.getElem?_eq_none (by rw [hs.sh.d]; omega)]
  refine ⟨⟨hs.z, allP_map _ (fun r hr => hr) fun r hr => (hmem r hr).1,
    allP_map _ (fun r hr => hr) fun r hr => (hmem r hr).2, ⟨hs.sh.z, by simp [hl], by simp [hl]⟩, ?_⟩,
    rfl, hdiv, ?_⟩
  · intro x hx
    obtain ⟨i, hi, rfl⟩ := List.mem_iff_getElem.1 hx
    have hi' : i < n := by simpa [hl] using hi
    have h1 := hdiv i
    rw [List.getD_eq_getElem?_getD, List.getElem?_eq_getElem hi, Option.getD_some] at h1
    show ℓ _ ∈ D
    rw [h1]
    rw [List.getD_eq_getElem?_getD, List.getElem?_eq_getElem (by rw [hs.sh.d]; exact hi'),
      Option.getD_some]
    exact hs.d0 _ (List.getElem_mem _)
  · intro hD i
    by_cases hi : i < n
    · rw [List.getD_eq_getElem?_getD, List.getElem?_map, getD_inverseRows eq E η hs.sh i hi]
      simp only [Option.map_some, Option.getD_some]
      have hd0 : ℓ (s.divergence.getD i 0) = 0 := by
        have := hs.d0 (s.divergence.getD i 0) (by
          rw [List.getD_eq_getElem?_getD, List.getElem?_eq_getElem (by rw [hs.sh.d]; exact hi),
            Option.getD_some]
          exact List.getElem_mem _)
        rw [hD] at this
        exact (Submodule.mem_bot K).1 this
      rw [map_lmul H0, inverseSchur_zero eq H0, one_mul, map_add, map_smul, hd0, smul_zero, zero_add]
    · rw [List.getD_eq_getElem?_getD, List.getD_eq_getElem?_getD,
        List.getElem?_eq_none (by simp [hl]; omega), List.getElem?_eq_none (by rw [hs.sh.p]; omega)]

/-- the state filter `filterSW` (exponential / horizontal-diffusion scaling, one factor per total
 wavenumber, factor one at `l = 0`) maps `SWQ → SWQ` and fixes every `(0,0)` coefficient -/
theorem filterSW_spec (H : OpsClosed eq.ops Mk S) (H0 : Mode0 eq.ops ℓ) (scal : List K)
    (h1 : scal.getD 0 0 = 1) {s : DynamicsSW.State M} (hs : SWQ S n ℓ D s) (f : SWField) (i : ℕ) :
    SWQ S n ℓ D (filterSW eq.ops scal s) ∧
    ℓ ((f.get (filterSW eq.ops scal s)).getD i 0) = ℓ ((f.get s).getD i 0) := by
  have hg : ∀ (l : List M) (i : ℕ),
      ℓ ((l.map (filterLevel eq.ops scal)).getD i 0) = ℓ (l.getD i 0) := by
    intro l i
    rw [List.getD_eq_getElem?_getD, List.getD_eq_getElem?_getD, List.getElem?_map]
    cases l[i]? with
    | none => rfl
    | some v => exact map_filterLevel H0 scal h1 v
  refine ⟨⟨allP_map _ hs.z fun _ hx => filterLevel_mem H scal hx,
    allP_map _ hs.d fun _ hx => filterLevel_mem H scal hx,
    allP_map _ hs.p fun _ hx => filterLevel_mem H scal hx,
    ⟨by simp [filterSW, DynamicsSW.State.mapLevels, hs.sh.z], by simp [filterSW, DynamicsSW.State.mapLevels, hs.sh.d],
      by simp [filterSW, DynamicsSW.State.mapLevels, hs.sh.p]⟩,
    allP_map _ hs.d0 fun x hx => by rw [map_filterLevel H0 scal h1]; exact hx⟩, ?_⟩
  cases f <;> exact hg _ i

end
end Dino.Invariants
