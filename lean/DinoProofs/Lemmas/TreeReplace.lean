import DinoProofs.Lemmas.TreeEq

/-!
# Lemmas for the tree model, part 6: `Dict.map`, `replace_with_matching_or_default`
-/
set_option linter.unusedSectionVars false

namespace Dino.Tree

section Replace
variable {α : Type} [DecidableEq α] {β γ : Type}

theorem map_keys (f : β → γ) : ∀ d : Dict α β, (d.map f).keys = d.keys
  | .nil => by simp [Dict.map, Dict.keys]
  | .cons k v r => by simp [Dict.map, Dict.keys, map_keys f r]

theorem map_isNil (f : β → γ) (d : Dict α β) : (d.map f).isNil = d.isNil := by
  cases d <;> simp [Dict.map, Dict.isNil]

theorem map_lookup (f : β → γ) : ∀ (d : Dict α β) (k : List α), (d.map f).lookup k = (d.lookup k).map (Val.map f)
  | .nil, k => by simp [Dict.map]
  | .cons k0 v r, k => by
    simp only [Dict.map, lookup_cons]
    by_cases h : k0 = k
    · simp [h]
    · simp [h, map_lookup f r k]

theorem map_term (f : β → γ) (v : Val α β) : (v.map f).term = v.term.map (Option.map f) := by
  cases v with
  | leaf b => simp [Val.map, Val.term]
  | dict d =>
    simp only [Val.map, Val.term, map_isNil]
    split <;> simp

mutual
theorem Val.map_NoDup (f : β → γ) : ∀ v : Val α β, v.NoDup → (v.map f).NoDup
  | .leaf b, _ => by simp [Val.map, Val.NoDup]
  | .dict d, h => by
    simp only [Val.map, Val.NoDup] at h ⊢
    exact Dict.map_NoDup f d h
theorem Dict.map_NoDup (f : β → γ) : ∀ d : Dict α β, d.NoDup → (d.map f).NoDup
  | .nil, _ => by simp [Dict.map, Dict.NoDup]
  | .cons k v r, h => by
    simp only [Dict.NoDup] at h
    simp only [Dict.map, Dict.NoDup, map_keys]
    exact ⟨h.1, Val.map_NoDup f v h.2.1, Dict.map_NoDup f r h.2.2⟩
end

/-- terminal lookups commute with mapping the leaves -/
theorem look_map (f : β → γ) : ∀ (p : List (List α)) (d : Dict α β),
    look (d.map f) p = (look d p).map (Option.map f)
  | [], d => by simp
  | [k], d => by
    simp only [look, map_lookup]
    cases d.lookup k with
    | none => simp
    | some v => simp [map_term]
  | k :: k' :: ks, d => by
    simp only [look, map_lookup]
    cases h : d.lookup k with
    | none => simp
    | some v =>
      cases v with
      | leaf b => simp [Val.map]
      | dict s => simpa [Val.map] using look_map f (k' :: ks) s

theorem alookup_map_self (g : List α → β) (l : List (List α × β)) (k : List α) (hk : k ∈ l.map Prod.fst) :
    alookup k (l.map fun kv => (kv.1, g kv.1)) = some (g k) := by
  induction l with
  | nil => simp at hk
  | cons a l ih =>
    simp only [List.map_cons, alookup]
    by_cases h : a.1 = k
    · simp [h]
    · simp only [h, if_false]
      simp only [List.map_cons, List.mem_cons] at hk
      exact ih (hk.resolve_left (Ne.symm h))

/-- re-labelling the leaves of a list of terminal paths -/
def relabel (sep : α) (g : List α → β) (T : List (List (List α) × Option β)) : List (List (List α) × Option β) :=
  T.map (fun pt => (pt.1, pt.2.map (fun _ => g (mkKey sep none pt.1))))

theorem relabel_fst (sep : α) (g : List α → β) (T : List (List (List α) × Option β)) :
    (relabel sep g T).map Prod.fst = T.map Prod.fst := by
  simp [relabel, List.map_map, Function.comp_def]

theorem relabel_good {sep : α} (g : List α → β) {T : List (List (List α) × Option β)} (h : GoodTerms sep T) :
    GoodTerms sep (relabel sep g T) := by
  refine ⟨?_, ?_, by rw [relabel_fst]; exact h.prefixFree⟩
  · intro pt hpt
    simp only [relabel, List.mem_map] at hpt
    obtain ⟨a, ha, rfl⟩ := hpt
    exact h.ne a ha
  · intro pt hpt
    simp only [relabel, List.mem_map] at hpt
    obtain ⟨a, ha, rfl⟩ := hpt
    exact h.sepFree a ha

theorem leafItems_relabel (sep : α) (g : List α → β) (T : List (List (List α) × Option β)) :
    leafItems sep none (relabel sep g T) = (leafItems sep none T).map (fun kv => (kv.1, g kv.1)) := by
  induction T with
  | nil => rfl
  | cons a T ih =>
    simp only [relabel, leafItems, List.map_cons, List.filterMap_cons] at ih ⊢
    rcases a with ⟨p, t⟩
    cases t with
    | none => simpa using ih
    | some b => simpa using ih

theorem emptyKeys_relabel (sep : α) (g : List α → β) (T : List (List (List α) × Option β)) :
    emptyKeys sep none (relabel sep g T) = emptyKeys sep none T := by
  induction T with
  | nil => rfl
  | cons a T ih =>
    simp only [relabel, emptyKeys, List.map_cons, List.filterMap_cons] at ih ⊢
    rcases a with ⟨p, t⟩
    cases t with
    | none => simpa using ih
    | some b => simpa using ih

/-- `replace_with_matching_or_default`: when it returns, the result has the terminal paths of `x`,
 every leaf replaced by the matching leaf of `replace` or by the default -/
theorem replace_spec (sep : α) (x repl : Dict α β) (dflt : β) (check : Bool) (r : Dict α β)
    (hx : x.NoDup) (h : replace sep x repl dflt check = .ok r) :
    ∃ fr, flatten sep repl = .ok fr ∧ r.NoDup ∧
      ∀ q, look r q = (look x q).map (Option.map fun _ => (alookup (joinSep sep q) fr.1).getD dflt) := by
  unfold replace at h
  have hsf : x.SepFree sep := by
    cases hfx : flatten sep x with
    | error e => simp [hfx] at h
    | ok fx => exact flatten_sepFree sep x fx hfx
  have hT := x.goodTerms sep hsf hx
  rw [flatten_eq sep x hsf hx] at h
  simp only at h
  cases hfr : flatten sep repl with
  | error e => simp [hfr] at h
  | ok fr =>
    · simp only [hfr] at h
      split at h
      · cases h
      · set g : List α → β := fun k => (alookup k fr.1).getD dflt with hg
        rw [← leafItems_relabel sep g, ← emptyKeys_relabel sep g] at h
        obtain ⟨r', hr', hnd, hlook⟩ := unflatten_terms sep (relabel sep g x.terms) (relabel_good g hT)
        rw [hr'] at h
        cases h
        refine ⟨fr, rfl, hnd, ?_⟩
        intro q
        cases hq : look x q with
        | none =>
          cases hr : look r q with
          | none => rfl
          | some t =>
            have := (hlook q t).1 hr
            simp only [relabel, List.mem_map] at this
            obtain ⟨a, ha, he⟩ := this
            have := (x.mem_terms hx a.1 a.2).1 ha
            rw [(Prod.mk.inj he).1, hq] at this
            cases this
        | some t0 =>
          have hmem := (x.mem_terms hx q t0).2 hq
          have : (q, t0.map fun _ => g (mkKey sep none q)) ∈ relabel sep g x.terms := by
            simp only [relabel, List.mem_map]
            exact ⟨(q, t0), hmem, rfl⟩
          rw [(hlook q _).2 this]
          simp [hg, mkKey, newKey]

end Replace
end Dino.Tree
