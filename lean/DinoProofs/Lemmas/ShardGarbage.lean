import DinoProofs.Lemmas.ShardBasis

/-! Zero-padded spherical-harmonic bases against ARBITRARY content on the padding of the data (C07, T7.4,
 second form): the padded Legendre table and the padded Fourier matrix / quadrature weights are zero on the
 padding, so the first einsum of each transform already forgets whatever the padded input holds there. -/
namespace Dino.Shard
open Dino.Lin Dino.SH

section generic
variable {α β γ δ ε ζ : Type}

theorem zipWith_map_left_of_mem (F : γ → β → ε) (G : α → δ → ζ) (k : ζ → ε) (g : α → γ) (h : β → δ) :
    ∀ (a : List α) (b : List β), (∀ x ∈ a, ∀ y ∈ b, F (g x) y = k (G x (h y))) →
      List.zipWith F (a.map g) b = (List.zipWith G a (b.map h)).map k
  | [], _, _ => by simp
  | _ :: _, [], _ => by simp
  | x :: a, y :: b, H => by
    simp only [List.map_cons, List.zipWith_cons_cons]
    rw [H x (by simp) y (by simp),
      zipWith_map_left_of_mem F G k g h a b (fun x' hx y' hy => H x' (by simp [hx]) y' (by simp [hy]))]

theorem zipWith_replicate_const (F : α → β → γ) (a : α) (c : γ) (hF : ∀ y, F a y = c) :
    ∀ (ys : List β), List.zipWith F (List.replicate ys.length a) ys = List.replicate ys.length c
  | [] => rfl
  | y :: ys => by
    simp only [List.length_cons, List.replicate_succ, List.zipWith_cons_cons, hF y,
      zipWith_replicate_const F a c hF ys]

theorem evens_take : ∀ (k : Nat) (l : List α), evens (l.take (2 * k)) = (evens l).take k
  | 0, _ => by simp [evens]
  | _ + 1, [] => by simp [evens]
  | k + 1, [a] => by
    rw [show 2 * (k + 1) = (2 * k + 1) + 1 by omega]
    simp [evens]
  | k + 1, a :: b :: t => by
    rw [show 2 * (k + 1) = (2 * k + 1) + 1 by omega]
    simp only [List.take_succ_cons, evens, evens_take k t]

theorem odds_take : ∀ (k : Nat) (l : List α), odds (l.take (2 * k)) = (odds l).take k
  | 0, _ => by simp [odds]
  | _ + 1, [] => by simp [odds]
  | k + 1, [a] => by
    rw [show 2 * (k + 1) = (2 * k + 1) + 1 by omega]
    simp [odds]
  | k + 1, a :: b :: t => by
    rw [show 2 * (k + 1) = (2 * k + 1) + 1 by omega]
    simp only [List.take_succ_cons, odds, odds_take k t]

/-- the resolved block of the `+m` plane is the `+m` plane of the resolved block -/
theorem cropMat_evens (x : List (List α)) (H L : Nat) : cropMat (evens x) H L = evens (cropMat x (2 * H) L) := by
  unfold cropMat
  rw [evens_map, evens_take]

theorem cropMat_odds (x : List (List α)) (H L : Nat) : cropMat (odds x) H L = odds (cropMat x (2 * H) L) := by
  unfold cropMat
  rw [odds_map, odds_take]

theorem cropMat_length (x : List (List α)) (r c : Nat) (h : r ≤ x.length) : (cropMat x r c).length = r := by
  simp [cropMat, h]

theorem cropMat_rows (x : List (List α)) (r c : Nat) (h : ∀ row ∈ x, c ≤ row.length) :
    ∀ row ∈ cropMat x r c, row.length = c := by
  intro row hrow
  simp only [cropMat, List.mem_map] at hrow
  obtain ⟨r0, hr0, rfl⟩ := hrow
  have := h r0 (List.mem_of_mem_take hr0)
  simp [this]

end generic

variable {K : Type} [CommRing K]

/-- `inv_legendre` with the zero-padded table on a modal plane of the padded shape holding ANYTHING outside
 the resolved block: the result is the zero-padded result on the resolved block -/
theorem invLegendre_pad_any (p : List (List (List K))) (xe : List (List K)) (J L pm pj pl : Nat)
    (hlen : xe.length = p.length + pm) (hpL : ∀ t ∈ p, ∀ r ∈ t, r.length = L)
    (hx : ∀ r ∈ xe, r.length = L + pl) :
    invLegendre (padTable p J L pm pj pl) xe = padMat (invLegendre p (cropMat xe p.length L)) J pm pj := by
  obtain ⟨x1, x2, rfl, h1, h2⟩ : ∃ x1 x2, xe = x1 ++ x2 ∧ x1.length = p.length ∧ x2.length = pm :=
    ⟨xe.take p.length, xe.drop p.length, (List.take_append_drop _ _).symm, by simp [hlen], by simp [hlen]⟩
  have hcrop : cropMat (x1 ++ x2) p.length L = x1.map (·.take L) := by
    unfold cropMat
    rw [← h1, List.take_left']
    rfl
  rw [hcrop]
  unfold invLegendre padTable
  rw [List.zipWith_append (by simp [h1])]
  conv_rhs => rw [padMat]
  congr 1
  · rw [zipWith_map_left_of_mem _ (fun (t : List (List K)) (xm : List K) => t.map fun r => dotv r xm)
      (· ++ zerosN pj) _ (·.take L)]
    intro t ht xm hxm
    have hxm' : xm.length = L + pl := hx xm (by simp [hxm])
    unfold padMat
    rw [List.map_append, List.map_map, List.map_replicate, dotv_zeros_left]
    congr 1
    apply List.map_congr_left
    intro r hr
    simp only [Function.comp]
    conv_lhs => rw [← List.take_append_drop L xm]
    rw [dotv_pad _ _ _ _ (by rw [hpL t ht r hr]; simp [hxm'])]
  · rw [← h2]
    have := zipWith_replicate_const (fun (pmat : List (List K)) (xm : List K) => pmat.map fun pjr => dotv pjr xm)
      (List.replicate (J + pj) (zerosN (L + pl))) (zerosN (J + pj))
      (fun y => by rw [List.map_replicate, dotv_zeros_left]; rfl) x2
    exact this

/-- `w * x` with the zero-padded weights on a nodal array of the padded shape holding anything outside the
 resolved block: the resolved rows are the zero-padded weighted rows; the `npx` padding rows (weighted garbage) are
 returned separately -/
theorem weight_pad_any (w : List K) (z : List (List K)) (N J npy : Nat) (hw : w.length = J)
    (hz : ∀ r ∈ z, r.length = J + npy) :
    weight (w ++ zerosN npy) z
      = (weight w (cropMat z N J)).map (· ++ zerosN npy) ++ weight (w ++ zerosN npy) (z.drop N) := by
  unfold weight cropMat
  conv_lhs => rw [← List.take_append_drop N z]
  rw [List.map_append, List.map_map, List.map_map]
  congr 1
  apply List.map_congr_left
  intro zi hzi
  have hzi' : zi.length = J + npy := hz zi (List.mem_of_mem_take hzi)
  simp only [Function.comp]
  conv_lhs => rw [← List.take_append_drop J zi]
  rw [List.zipWith_append (by simp [hw, hzi']), zipWith_mul_zeros_left]
  congr 2
  simp [hzi']

theorem weight_rows_any (w : List K) (z : List (List K)) (n : Nat) (hw : w.length = n)
    (hz : ∀ r ∈ z, r.length = n) : ∀ r ∈ weight w z, r.length = n := weight_rows' w z n hw hz

/-- `fwd_fourier` with the zero-padded Fourier matrix: rows of the data beyond the resolved longitudes (`extra`,
 any number of them, any content of the right width) meet zero coefficients -/
theorem fwdFourier_pad_extra (f wx extra : List (List K)) (R J npx mpx npy : Nat)
    (hf : ∀ fi ∈ f, fi.length = R) (hlen : f.length = wx.length) (hwx : ∀ r ∈ wx, r.length = J)
    (hex : ∀ r ∈ extra, r.length = J + npy) :
    fwdFourier (padMat f R npx mpx) (wx.map (· ++ zerosN npy) ++ extra) (R + mpx) (J + npy)
      = padMat (fwdFourier f wx R J) J mpx npy := by
  have hall : ∀ r ∈ wx.map (· ++ zerosN npy) ++ extra, r.length = J + npy := by
    intro r hr
    rcases List.mem_append.1 hr with h | h
    · obtain ⟨r0, hr0, rfl⟩ := List.mem_map.1 h
      simp [zerosN, hwx r0 hr0]
    · exact hex r h
  unfold fwdFourier transposeM
  rw [List.range_add, List.map_append, List.map_append]
  conv_rhs => rw [padMat]
  simp only [List.map_map]
  congr 1
  · apply List.map_congr_left
    intro r hr
    rw [List.mem_range] at hr
    simp only [Function.comp]
    rw [col_padMat_lt f R npx mpx r hf hr,
      vecMat_pad_coeffs _ _ _ _ _ (by simp [col, hlen]) hex, vecMat_pad_cols _ _ _ _ hwx]
  · rw [List.eq_replicate_iff]
    refine ⟨by simp, ?_⟩
    intro b hb
    obtain ⟨i, _, rfl⟩ := List.mem_map.1 hb
    simp only [Function.comp]
    rw [col_padMat_ge f R npx mpx (R + i) hf (by omega)]
    exact vecMat_zero_coeffs _ _ _ hall

/-- the first two einsums of the analysis (`w * x`, then `fwd_fourier`) with the zero-padded basis on a nodal
 array of the padded shape holding anything outside the resolved block -/
theorem fwdFourier_weight_pad_any (f : List (List K)) (w : List K) (z : List (List K))
    (N R J npx mpx npy : Nat) (hf : ∀ fi ∈ f, fi.length = R) (hfl : f.length = N) (hw : w.length = J)
    (hzl : z.length = N + npx) (hz : ∀ r ∈ z, r.length = J + npy) :
    fwdFourier (padMat f R npx mpx) (weight (w ++ zerosN npy) z) (R + mpx) (J + npy)
      = padMat (fwdFourier f (weight w (cropMat z N J)) R J) J mpx npy := by
  have hcr : ∀ r ∈ cropMat z N J, r.length = J := cropMat_rows z N J (fun r hr => by rw [hz r hr]; omega)
  rw [weight_pad_any w z N J npy hw hz,
    fwdFourier_pad_extra f _ _ R J npx mpx npy hf
      (by simp [weight, hfl, cropMat_length z N J (by omega)])
      (weight_rows' w _ J hw hcr)
      (weight_rows_any _ _ (J + npy) (by simp [zerosN, hw])
        (fun r hr => hz r (List.mem_of_mem_drop hr)))]

end Dino.Shard
