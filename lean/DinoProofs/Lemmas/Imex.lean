import Dino.Imex
import Mathlib.Algebra.Module.Defs
import Mathlib.Algebra.Module.Basic
import Mathlib.Algebra.Field.Basic
import Mathlib.Algebra.BigOperators.Group.List.Basic
import Mathlib.Tactic.Ring
import Mathlib.Tactic.FieldSimp
import Mathlib.Tactic.Abel
import Mathlib.Tactic.Module
import Mathlib.Tactic.LinearCombination

/-! Helper lemmas for C06 (IMEX integrators). -/
namespace Dino.Imex

variable {K V : Type} [Field K] [AddCommGroup V] [Module K V]

/-- plain weighted sum `Σ_j row[j] • fs[j]` (over the common prefix) -/
def wsumSpec (row : List K) (fs : List V) : V := (List.zipWith (fun a f => a • f) row fs).sum

theorem wsum_foldl_aux (nz : K → Bool) (hnz : ∀ a, nz a = false → a = 0)
    (l : List (K × V)) (acc : V) :
    l.foldl (fun acc p => if nz p.1 then acc + p.1 • p.2 else acc) acc
      = acc + (l.map (fun p => p.1 • p.2)).sum := by
  induction l generalizing acc with
  | nil => simp
  | cons p t ih =>
    simp only [List.foldl_cons, List.map_cons, List.sum_cons]
    rw [ih]
    cases h : nz p.1 with
    | true => simp [add_assoc]
    | false => simp [hnz _ h]

/-- skipping falsy coefficients does not change the sum, provided only zeros are falsy -/
theorem wsum_eq_spec (nz : K → Bool) (hnz : ∀ a, nz a = false → a = 0) (row : List K) (fs : List V) :
    wsum nz row fs = wsumSpec row fs := by
  unfold wsum wsumSpec
  rw [wsum_foldl_aux nz hnz, zero_add, List.map_zip_eq_zipWith]
  rfl

theorem wsum_true_eq_spec (row : List K) (fs : List V) :
    wsum (fun _ => true) row fs = wsumSpec row fs :=
  wsum_eq_spec _ (by simp) row fs

@[simp] theorem wsumSpec_nil_left (fs : List V) : wsumSpec ([] : List K) fs = 0 := by simp [wsumSpec]
@[simp] theorem wsumSpec_nil_right (row : List K) : wsumSpec row ([] : List V) = 0 := by simp [wsumSpec]

theorem wsumSpec_append (r1 r2 : List K) (f1 f2 : List V) (h : r1.length = f1.length) :
    wsumSpec (r1 ++ r2) (f1 ++ f2) = wsumSpec r1 f1 + wsumSpec r2 f2 := by
  simp [wsumSpec, List.zipWith_append h]

theorem wsumSpec_map_mul (c : K) (r : List K) (fs : List V) :
    wsumSpec (r.map (c * ·)) fs = c • wsumSpec r fs := by
  induction r generalizing fs with
  | nil => simp
  | cons a t ih =>
    cases fs with
    | nil => simp
    | cons f fs =>
      simp only [wsumSpec, List.map_cons, List.zipWith_cons_cons, List.sum_cons] at ih ⊢
      rw [ih, smul_add, mul_smul]

theorem wsumSpec_zipWith_add (r1 r2 : List K) (fs : List V) (h : r1.length = r2.length) :
    wsumSpec (List.zipWith (· + ·) r1 r2) fs = wsumSpec r1 fs + wsumSpec r2 fs := by
  induction r1 generalizing r2 fs with
  | nil => cases r2 <;> simp_all
  | cons a t ih =>
    cases r2 with
    | nil => simp at h
    | cons b t2 =>
      cases fs with
      | nil => simp
      | cons f fs =>
        have := ih t2 fs (by simpa using h)
        simp only [wsumSpec, List.zipWith_cons_cons, List.sum_cons] at this ⊢
        rw [this, add_smul]; abel

theorem wsumSpec_singleton (a : K) (f : V) : wsumSpec [a] [f] = a • f := by simp [wsumSpec]

theorem wsumSpec_all_zero (row : List K) (gs : List V) (h : ∀ g ∈ gs, g = 0) :
    wsumSpec row gs = 0 := by
  induction row generalizing gs with
  | nil => simp
  | cons a t ih =>
    cases gs with
    | nil => simp
    | cons g gs =>
      simp only [wsumSpec, List.zipWith_cons_cons, List.sum_cons] at ih ⊢
      rw [ih gs (fun x hx => h x (List.mem_cons_of_mem _ hx)), h g List.mem_cons_self]; simp

/-! ### explicit / implicit specialisations -/

/-- `e` has no implicit part: `G = 0`, resolvent = identity -/
def IsExplicit (e : ImEx K V) : Prop := (∀ x, e.G x = 0) ∧ (∀ x η, e.Ginv x η = x)

/-- `e` has no explicit part -/
def IsImplicit (e : ImEx K V) : Prop := ∀ x, e.F x = 0

/-- the contract of `implicit_inverse` at the step size `η` at which it is called:
 `Ginv · η` inverts `x ↦ x − η·G x` on both sides.  (It is local in `η`: for a matrix `G` with a
 positive real eigenvalue `1 − ηG` is singular for some `η`.) -/
structure IsResolventAt (e : ImEx K V) (η : K) : Prop where
  left : ∀ x, e.Ginv (x - η • e.G x) η = x
  right : ∀ x, e.Ginv x η - η • e.G (e.Ginv x η) = x

/-- chain of Crank–Nicolson sub-steps with step fractions `α[k+1] − α[k]` -/
def cnChain (e : ImEx K V) (dt : K) : List K → V → V
  | a0 :: a1 :: as, u =>
    cnChain e dt (a1 :: as) (e.Ginv (u + (half * dt * (a1 - a0)) • e.G u) (half * dt * (a1 - a0)))
  | _, u => u

theorem lsrkLoop_explicit_aux (e : ImEx K V) (he : IsExplicit e) (dt : K) (y0 : V) :
    ∀ (βs γs αs : List K) (fs : List V) (uc hc : List K) (u h : V),
      αs.length = βs.length + 1 → γs.length = βs.length →
      uc.length = fs.length → hc.length = fs.length →
      u = y0 + dt • wsumSpec uc fs → h = wsumSpec hc fs →
      lsrkLoop e dt αs βs γs u h
        = erkLoop e.F dt y0 (lsButcherLoop βs γs uc hc).2 (lsButcherLoop βs γs uc hc).1 fs := by
  intro βs
  induction βs with
  | nil =>
    intro γs αs fs uc hc u h hα hγ _ _ hu _
    match αs, γs, hα, hγ with
    | [a], [], _, _ =>
      simp [lsrkLoop, lsButcherLoop, erkLoop, wsum_true_eq_spec, hu]
  | cons b bs ih =>
    intro γs αs fs uc hc u h hα hγ huc hhc hu hh
    match αs, γs, hα, hγ with
    | a0 :: a1 :: as, c :: cs, hα, hγ =>
      simp only [lsrkLoop, lsButcherLoop, erkLoop, he.1, he.2, smul_zero, add_zero]
      have hFu : e.F (y0 + dt • wsum (fun _ => true) uc fs) = e.F u := by
        rw [wsum_true_eq_spec, hu]
      rw [hFu]
      apply ih
      · simpa using hα
      · simpa using hγ
      · simp [huc, hhc]
      · simp [hhc]
      · rw [wsumSpec_zipWith_add _ _ _ (by simp [huc, hhc]), wsumSpec_map_mul,
          wsumSpec_append _ _ _ _ huc, wsumSpec_append _ _ _ _ (by simp [hhc]),
          wsumSpec_map_mul, wsumSpec_singleton, wsumSpec_singleton, hu, hh]
        module
      · rw [wsumSpec_append _ _ _ _ (by simp [hhc]), wsumSpec_map_mul, wsumSpec_singleton, hh]
        module

theorem lsrkLoop_implicit_aux (e : ImEx K V) (he : IsImplicit e) (dt : K) :
    ∀ (βs γs αs : List K) (u : V),
      αs.length = βs.length + 1 → γs.length = βs.length →
      lsrkLoop e dt αs βs γs u 0 = cnChain e dt αs u := by
  intro βs
  induction βs with
  | nil =>
    intro γs αs u hα hγ
    match αs, γs, hα, hγ with
    | [a], [], _, _ => simp [lsrkLoop, cnChain]
  | cons b bs ih =>
    intro γs αs u hα hγ
    match αs, γs, hα, hγ with
    | a0 :: a1 :: as, c :: cs, hα, hγ =>
      simp only [lsrkLoop, cnChain, he u, smul_zero, add_zero]
      exact ih cs (a1 :: as) _ (by simpa using hα) (by simpa using hγ)

/-! ### tableau form -/

theorem stages_explicit_aux (nz : K → Bool) (hnz : ∀ a, nz a = false → a = 0)
    (e : ImEx K V) (he : IsExplicit e) (dt : K) (y0 : V) (b : List K) :
    ∀ (tex tim : List (List K)) (fs gs : List V), tex.length = tim.length → (∀ g ∈ gs, g = 0) →
      (∀ g ∈ (stages nz e dt y0 tex tim fs gs).2, g = 0) ∧
      y0 + dt • wsum nz b (stages nz e dt y0 tex tim fs gs).1 = erkLoop e.F dt y0 b tex fs := by
  intro tex
  induction tex with
  | nil =>
    intro tim fs gs hl hgs
    match tim, hl with
    | [], _ => simp [stages, erkLoop, wsum_eq_spec nz hnz, wsum_true_eq_spec]; exact hgs
  | cons rex tex ih =>
    intro tim fs gs hl hgs
    match tim, hl with
    | rim :: tim, hl =>
      simp only [stages, erkLoop, he.1, he.2]
      rw [wsum_eq_spec nz hnz rim gs, wsumSpec_all_zero rim gs hgs, smul_zero, add_zero,
        wsum_eq_spec nz hnz rex fs, wsum_true_eq_spec]
      apply ih
      · simpa using hl
      · intro g hg
        rcases List.mem_append.1 hg with h | h
        · exact hgs g h
        · simpa using h

/-- specification: diagonally implicit RK of `(aIm, bIm)` for `u' = G u` -/
def dirkStages (nz : K → Bool) (G : V → V) (Ginv : V → K → V) (dt : K) (y0 : V) :
    List (List K) → List V → List V
  | rim :: tim, gs =>
    dirkStages nz G Ginv dt y0 tim
      (gs ++ [G (Ginv (y0 + dt • wsum nz rim gs) (dt * rim.getD gs.length 0))])
  | [], gs => gs

def dirk (nz : K → Bool) (G : V → V) (Ginv : V → K → V) (dt : K) (aIm : List (List K))
    (bIm : List K) (y0 : V) : V :=
  y0 + dt • wsum nz bIm (dirkStages nz G Ginv dt y0 aIm [G y0])

theorem stages_implicit_aux (nz : K → Bool) (hnz : ∀ a, nz a = false → a = 0)
    (e : ImEx K V) (he : IsImplicit e) (dt : K) (y0 : V) :
    ∀ (tim tex : List (List K)) (fs gs : List V), tex.length = tim.length → (∀ f ∈ fs, f = 0) →
      fs.length = gs.length →
      (∀ f ∈ (stages nz e dt y0 tex tim fs gs).1, f = 0) ∧
      (stages nz e dt y0 tex tim fs gs).2 = dirkStages nz e.G e.Ginv dt y0 tim gs := by
  intro tim
  induction tim with
  | nil =>
    intro tex fs gs hl hfs _
    match tex, hl with
    | [], _ => simp [stages, dirkStages]; exact hfs
  | cons rim tim ih =>
    intro tex fs gs hl hfs hlen
    match tex, hl with
    | rex :: tex, hl =>
      simp only [stages, dirkStages]
      rw [wsum_eq_spec nz hnz rex fs, wsumSpec_all_zero rex fs hfs, smul_zero, add_zero, hlen]
      apply ih
      · simpa using hl
      · intro f hf
        rcases List.mem_append.1 hf with h | h
        · exact hfs f h
        · rw [List.mem_singleton.1 h]; exact he _
      · simp [hlen]

/-! ### scalar linear test problem `F = λ·`, `G = μ·`, resolvent `x / (1 − ημ)` -/

def scalarEq (lam mu : K) : ImEx K K := ⟨(lam * ·), (mu * ·), fun x η => x / (1 - η * mu)⟩

/-- the scalar resolvent satisfies the contract wherever it exists -/
theorem scalarEq_isResolventAt (lam mu η : K) (h : 1 - η * mu ≠ 0) :
    IsResolventAt (scalarEq lam mu) η := by
  constructor
  · intro x; simp only [scalarEq, smul_eq_mul]; field_simp
  · intro x; simp only [scalarEq, smul_eq_mul]; field_simp

theorem dot_eq_sum (a b : List K) : dot a b = (List.zipWith (· * ·) a b).sum := by
  unfold dot; rw [List.sum_eq_foldl]

theorem lsum_eq_sum (a : List K) : lsum a = a.sum := by
  unfold lsum; rw [List.sum_eq_foldl]

theorem lsrkLoop_scalar_aux (lam mu dt u0 : K) :
    ∀ (βs αs γs : List K) (u h cu cH : K), u = cu * u0 → dt * h = cH * u0 →
      lsrkLoop (scalarEq lam mu) dt αs βs γs u h
        = lsrkAmplLoop (dt * lam) (dt * mu) αs βs γs cu cH * u0 := by
  intro βs
  induction βs with
  | nil =>
    intro αs γs u h cu cH hu _
    match αs, γs with
    | [], _ => simp [lsrkLoop, lsrkAmplLoop, hu]
    | [_], _ => simp [lsrkLoop, lsrkAmplLoop, hu]
    | _ :: _ :: _, [] => simp [lsrkLoop, lsrkAmplLoop, hu]
    | _ :: _ :: _, _ :: _ => simp [lsrkLoop, lsrkAmplLoop, hu]
  | cons b bs ih =>
    intro αs γs u h cu cH hu hh
    match αs, γs with
    | [], _ => simp [lsrkLoop, lsrkAmplLoop, hu]
    | [_], _ => simp [lsrkLoop, lsrkAmplLoop, hu]
    | _ :: _ :: _, [] => simp [lsrkLoop, lsrkAmplLoop, hu]
    | a0 :: a1 :: as, c :: cs =>
      simp only [lsrkLoop, lsrkAmplLoop, scalarEq, smul_eq_mul]
      apply ih
      · have hw : (half : K) * dt * (a1 - a0) * mu = half * (dt * mu) * (a1 - a0) := by ring
        rw [div_mul_eq_mul_div, hw]
        congr 1
        subst hu
        linear_combination (c * b) * hh
      · linear_combination b * hh + (dt * lam) * hu

theorem wsumSpec_scalar (c u0 : K) (r ys : List K) :
    wsumSpec r (ys.map (fun Y => c * (Y * u0))) = c * dot r ys * u0 := by
  rw [dot_eq_sum]
  induction r generalizing ys with
  | nil => simp
  | cons a t ih =>
    cases ys with
    | nil => simp
    | cons y ys =>
      have := ih ys
      simp only [wsumSpec, List.map_cons, List.zipWith_cons_cons, List.sum_cons, smul_eq_mul] at this ⊢
      rw [this]; ring

theorem stages_scalar_aux (nz : K → Bool) (hnz : ∀ a, nz a = false → a = 0) (lam mu dt u0 : K) :
    ∀ (tex tim : List (List K)) (ys : List K),
      stages nz (scalarEq lam mu) dt u0 tex tim (ys.map fun Y => lam * (Y * u0))
          (ys.map fun Y => mu * (Y * u0))
        = ((tabAmplStages (dt * lam) (dt * mu) tex tim ys).map fun Y => lam * (Y * u0),
           (tabAmplStages (dt * lam) (dt * mu) tex tim ys).map fun Y => mu * (Y * u0)) := by
  intro tex
  induction tex with
  | nil => intro tim ys; simp [stages, tabAmplStages]
  | cons rex tex ih =>
    intro tim ys
    match tim with
    | [] => simp [stages, tabAmplStages]
    | rim :: tim =>
      simp only [stages, tabAmplStages]
      rw [wsum_eq_spec nz hnz, wsum_eq_spec nz hnz, wsumSpec_scalar, wsumSpec_scalar]
      have hY : (scalarEq lam mu).Ginv
            (u0 + dt • (lam * dot rex ys * u0) + dt • (mu * dot rim ys * u0))
            (dt * rim.getD (ys.map fun Y => lam * (Y * u0)).length 0)
          = (1 + dt * lam * dot rex ys + dt * mu * dot rim ys)
              / (1 - dt * mu * rim.getD ys.length 0) * u0 := by
        simp only [scalarEq, smul_eq_mul, List.length_map]
        rw [div_mul_eq_mul_div]
        congr 1 <;> ring
      rw [hY]
      have := ih tim (ys ++ [(1 + dt * lam * dot rex ys + dt * mu * dot rim ys)
              / (1 - dt * mu * rim.getD ys.length 0)])
      simp only [List.map_append, List.map_cons, List.map_nil] at this
      simpa [scalarEq] using this

/-! ### polynomial coefficient lists -/

theorem peval_padd (p q : List K) (x : K) : peval (padd p q) x = peval p x + peval q x := by
  induction p generalizing q with
  | nil => simp [padd, peval]
  | cons a p ih =>
    cases q with
    | nil => simp [padd, peval]
    | cons b q =>
      have := ih q
      simp only [peval, padd, List.foldr_cons] at this ⊢
      rw [this]; ring

theorem peval_pscale (c : K) (p : List K) (x : K) : peval (pscale c p) x = c * peval p x := by
  induction p with
  | nil => simp [pscale, peval]
  | cons a p ih =>
    simp only [peval, pscale, List.map_cons, List.foldr_cons] at ih ⊢
    rw [ih]; ring

theorem peval_pshift (p : List K) (x : K) : peval (pshift p) x = x * peval p x := by
  simp [pshift, peval]

theorem lsrkAmplLoop_poly_aux (x : K) :
    ∀ (βs αs γs : List K) (pu pH : List K), αs.length = βs.length + 1 → γs.length = βs.length →
      lsrkAmplLoop x 0 αs βs γs (peval pu x) (peval pH x) = peval (lsrkPolyLoop βs γs pu pH) x := by
  intro βs
  induction βs with
  | nil =>
    intro αs γs pu pH hα hγ
    match αs, γs, hα, hγ with
    | [_], [], _, _ => simp [lsrkAmplLoop, lsrkPolyLoop]
  | cons b bs ih =>
    intro αs γs pu pH hα hγ
    match αs, γs, hα, hγ with
    | a0 :: a1 :: as, c :: cs, hα, hγ =>
      simp only [lsrkAmplLoop, lsrkPolyLoop]
      have := ih (a1 :: as) cs (padd pu (pscale c (padd (pshift pu) (pscale b pH))))
        (padd (pshift pu) (pscale b pH)) (by simpa using hα) (by simpa using hγ)
      rw [← this]
      congr 1
      · simp only [peval_padd, peval_pscale, peval_pshift]; ring
      · simp only [peval_padd, peval_pscale, peval_pshift]

/-- product of the Crank–Nicolson factors `(1+w_k)/(1−w_k)`, `w_k = ½·y·(α[k+1]−α[k])` -/
def cnProd (y : K) : List K → K
  | a0 :: a1 :: as => (1 + half * y * (a1 - a0)) / (1 - half * y * (a1 - a0)) * cnProd y (a1 :: as)
  | _ => 1

theorem lsrkAmplLoop_implicit_aux (y : K) :
    ∀ (βs αs γs : List K) (cu : K), αs.length = βs.length + 1 → γs.length = βs.length →
      lsrkAmplLoop 0 y αs βs γs cu 0 = cu * cnProd y αs := by
  intro βs
  induction βs with
  | nil =>
    intro αs γs cu hα hγ
    match αs, γs, hα, hγ with
    | [_], [], _, _ => simp [lsrkAmplLoop, cnProd]
  | cons b bs ih =>
    intro αs γs cu hα hγ
    match αs, γs, hα, hγ with
    | a0 :: a1 :: as, c :: cs, hα, hγ =>
      simp only [lsrkAmplLoop, cnProd, zero_mul, mul_zero, add_zero]
      rw [ih (a1 :: as) cs _ (by simpa using hα) (by simpa using hγ)]
      ring

/-! ### division-free numerator / denominator of the amplification functions -/

/-- every Crank–Nicolson sub-step resolvent `1 − ½·y·Δα` is invertible -/
def cnRegular (y : K) : List K → Prop
  | a0 :: a1 :: as => 1 - half * y * (a1 - a0) ≠ 0 ∧ cnRegular y (a1 :: as)
  | _ => True

/-- `(numerator, denominator)` of `lsrkAmplLoop`, computed without division -/
def lsrkND (x y : K) : List K → List K → List K → K → K → K → K × K
  | a0 :: a1 :: as, b :: bs, c :: cs, nu, nh, p =>
    lsrkND x y (a1 :: as) bs cs
      (nu + c * (x * nu + b * nh) + half * y * (a1 - a0) * nu)
      ((x * nu + b * nh) * (1 - half * y * (a1 - a0))) (p * (1 - half * y * (a1 - a0)))
  | _, _, _, nu, _, p => (nu, p)

theorem lsrkAmplLoop_eq_ND (x y : K) :
    ∀ (βs αs γs : List K) (nu nh p : K), p ≠ 0 → cnRegular y αs →
      lsrkAmplLoop x y αs βs γs (nu / p) (nh / p)
          = (lsrkND x y αs βs γs nu nh p).1 / (lsrkND x y αs βs γs nu nh p).2
        ∧ (lsrkND x y αs βs γs nu nh p).2 ≠ 0 := by
  intro βs
  induction βs with
  | nil =>
    intro αs γs nu nh p hp _
    match αs, γs with
    | [], _ => simp [lsrkAmplLoop, lsrkND, hp]
    | [_], _ => simp [lsrkAmplLoop, lsrkND, hp]
    | _ :: _ :: _, [] => simp [lsrkAmplLoop, lsrkND, hp]
    | _ :: _ :: _, _ :: _ => simp [lsrkAmplLoop, lsrkND, hp]
  | cons b bs ih =>
    intro αs γs nu nh p hp hreg
    match αs, γs, hreg with
    | [], _, _ => simp [lsrkAmplLoop, lsrkND, hp]
    | [_], _, _ => simp [lsrkAmplLoop, lsrkND, hp]
    | _ :: _ :: _, [], _ => simp [lsrkAmplLoop, lsrkND, hp]
    | a0 :: a1 :: as, c :: cs, hreg =>
      obtain ⟨hf, hreg'⟩ := hreg
      simp only [lsrkAmplLoop, lsrkND]
      have h1 : (nu / p + c * (x * (nu / p) + b * (nh / p)) + half * y * (a1 - a0) * (nu / p))
            / (1 - half * y * (a1 - a0))
          = (nu + c * (x * nu + b * nh) + half * y * (a1 - a0) * nu)
            / (p * (1 - half * y * (a1 - a0))) := by
        field_simp
      have h2 : x * (nu / p) + b * (nh / p)
          = (x * nu + b * nh) * (1 - half * y * (a1 - a0)) / (p * (1 - half * y * (a1 - a0))) := by
        field_simp
      rw [h1, h2]
      exact ih (a1 :: as) cs _ _ _ (mul_ne_zero hp hf) hreg'

/-- every stage resolvent `1 − y·a_ii` of the tableau is invertible (`i` = index of the diagonal
 entry in the first remaining row) -/
def tabRegular (y : K) : List (List K) → Nat → Prop
  | rim :: tim, i => 1 - y * rim.getD i 0 ≠ 0 ∧ tabRegular y tim (i + 1)
  | [], _ => True

def tabND (x y : K) : List (List K) → List (List K) → List K → K → List K × K
  | rex :: tex, rim :: tim, ns, p =>
    tabND x y tex tim
      (ns.map (· * (1 - y * rim.getD ns.length 0)) ++ [p + x * dot rex ns + y * dot rim ns])
      (p * (1 - y * rim.getD ns.length 0))
  | _, _, ns, p => (ns, p)

theorem dot_map_div (r ns : List K) (p : K) : dot r (ns.map (· / p)) = dot r ns / p := by
  rw [dot_eq_sum, dot_eq_sum]
  induction r generalizing ns with
  | nil => simp
  | cons a t ih =>
    cases ns with
    | nil => simp
    | cons n ns =>
      simp only [List.map_cons, List.zipWith_cons_cons, List.sum_cons]
      rw [ih ns]; ring

theorem tabAmplStages_eq_ND (x y : K) :
    ∀ (tex tim : List (List K)) (ns : List K) (p : K), p ≠ 0 → tabRegular y tim ns.length →
      tabAmplStages x y tex tim (ns.map (· / p))
          = (tabND x y tex tim ns p).1.map (· / (tabND x y tex tim ns p).2)
        ∧ (tabND x y tex tim ns p).2 ≠ 0 := by
  intro tex
  induction tex with
  | nil => intro tim ns p hp _; simp [tabAmplStages, tabND, hp]
  | cons rex tex ih =>
    intro tim ns p hp hreg
    match tim, hreg with
    | [], _ => simp [tabAmplStages, tabND, hp]
    | rim :: tim, hreg =>
      obtain ⟨hf, hreg'⟩ := hreg
      simp only [tabAmplStages, tabND, List.length_map, dot_map_div]
      have hnew : (1 + x * (dot rex ns / p) + y * (dot rim ns / p)) / (1 - y * rim.getD ns.length 0)
          = (p + x * dot rex ns + y * dot rim ns) / (p * (1 - y * rim.getD ns.length 0)) := by
        field_simp
      have hold : ns.map (· / p)
          = (ns.map (· * (1 - y * rim.getD ns.length 0))).map
              (· / (p * (1 - y * rim.getD ns.length 0))) := by
        rw [List.map_map]
        apply List.map_congr_left
        intro a _
        simp only [Function.comp]
        rw [mul_div_mul_right _ _ hf]
      have := ih tim (ns.map (· * (1 - y * rim.getD ns.length 0)) ++ [p + x * dot rex ns + y * dot rim ns])
        (p * (1 - y * rim.getD ns.length 0)) (mul_ne_zero hp hf) (by simpa using hreg')
      rw [List.map_append, ← hold, List.map_cons, List.map_nil, ← hnew] at this
      exact this

/-- closed form of the tableau amplification function as a single quotient -/
theorem tabAmpl_eq_ND (t : Tableau K) (x y : K) (hreg : tabRegular y t.aIm 1) :
    tabAmpl t x y
        = ((tabND x y t.aEx t.aIm [1] 1).2 + x * dot t.bEx (tabND x y t.aEx t.aIm [1] 1).1
            + y * dot t.bIm (tabND x y t.aEx t.aIm [1] 1).1) / (tabND x y t.aEx t.aIm [1] 1).2
      ∧ (tabND x y t.aEx t.aIm [1] 1).2 ≠ 0 := by
  have h := tabAmplStages_eq_ND x y t.aEx t.aIm [1] 1 one_ne_zero (by simpa using hreg)
  simp only [List.map_cons, List.map_nil, div_one] at h
  refine ⟨?_, h.2⟩
  unfold tabAmpl
  simp only
  rw [h.1, dot_map_div, dot_map_div]
  field_simp [h.2]

end Dino.Imex
