import Dino.Dynamics
import Dino.DynamicsSW
import DinoProofs.Lemmas.Sigma
import Mathlib.Algebra.Module.LinearMap.Defs
import Mathlib.Algebra.Algebra.Basic
import Mathlib.Algebra.BigOperators.Group.List.Basic
import Mathlib.Tactic.Module
import Mathlib.Tactic.Ring
import Mathlib.Tactic.FieldSimp
import Mathlib.Tactic.LinearCombination

/-!
# Lemmas for C05 (balanced states)

1. zero columns: every column routine of `Dino.Dynamics` maps columns of zeros to columns of zeros
   (with the right length);
2. the named laws of the horizontal operations used by C05 (`LinLaws`, `ConstLaws`), as `Prop`
   structures — never fields of `HOps`;
3. the resting atmosphere: the diagnostic state and every explicit term of `Dino.Dynamics` at
   `ζ = δ = T′ = 0`.
-/
set_option linter.unusedSectionVars false

namespace Dino.Balance
open Dino Dino.Dynamics

/-! ## columns of zeros -/
section zeros
variable {A V W : Type}

theorem zipWith_zero_right [Zero W] [Zero V] (f : A → W → V) (hf : ∀ a, f a 0 = 0) (l : List A)
    (n : ℕ) (h : l.length = n) : List.zipWith f l (List.replicate n 0) = List.replicate n 0 := by
  subst h
  induction l with
  | nil => rfl
  | cons a t ih => simp [List.replicate_succ, hf, ih]

theorem zipWith_zero_left [Zero W] [Zero V] (f : W → A → V) (hf : ∀ a, f 0 a = 0) (l : List A)
    (n : ℕ) (h : l.length = n) : List.zipWith f (List.replicate n 0) l = List.replicate n 0 := by
  subst h
  induction l with
  | nil => rfl
  | cons a t ih => simp [List.replicate_succ, hf, ih]

theorem getLastD_replicate_zero [Zero V] (n : ℕ) : (List.replicate n (0 : V)).getLastD 0 = 0 := by
  cases n with
  | zero => rfl
  | succ n => simp [List.getLastD_eq_getLast?, List.getLast?_replicate]

theorem cons_zeros [Zero V] (n : ℕ) : (0 : V) :: List.replicate n 0 = List.replicate (n + 1) 0 := rfl

theorem zeros_append [Zero V] (n : ℕ) : List.replicate n (0 : V) ++ [0] = List.replicate (n + 1) 0 := by
  rw [List.replicate_succ']

theorem cumsumFrom_zeros [AddMonoid V] (n : ℕ) :
    Col.cumsumFrom (0 : V) (List.replicate n 0) = List.replicate n 0 := by
  induction n with
  | zero => rfl
  | succ n ih => simp [List.replicate_succ, Col.cumsumFrom, ih]

theorem sum_zeros [AddMonoid V] (n : ℕ) : (List.replicate n (0 : V)).sum = 0 := by
  induction n with
  | zero => rfl
  | succ n ih => simp [List.replicate_succ, ih]

theorem col_diffs_length [Sub V] (x : List V) : (Col.diffs x).length = x.length - 1 := by
  induction x with
  | nil => rfl
  | cons a t ih =>
    cases t with
    | nil => rfl
    | cons b r => simp [Col.diffs] at ih ⊢; omega

end zeros

/-! ## the named laws -/
section laws
variable {K M N : Type} [Field K] [AddCommGroup M] [Module K M] [CommRing N] [Algebra K N]

/-- every horizontal operation of the record is `K`-linear -/
structure LinLaws (h : HOps K M N) : Prop where
  toNodal : IsLinearMap K h.toNodal
  toModal : IsLinearMap K h.toModal
  dDlon : IsLinearMap K h.dDlon
  cosLatDDlat : IsLinearMap K h.cosLatDDlat
  secLatDDlatCos2 : IsLinearMap K h.secLatDDlatCos2
  laplacian : IsLinearMap K h.laplacian
  inverseLaplacian : IsLinearMap K h.inverseLaplacian
  clip : IsLinearMap K h.clip

/-- what the operations do to the constant field (`oneModal` = spectral coefficients of `1`) -/
structure ConstLaws (h : HOps K M N) : Prop where
  lap_one : h.laplacian h.oneModal = 0
  dDlon_one : h.dDlon h.oneModal = 0
  cosLatDDlat_one : h.cosLatDDlat h.oneModal = 0
  toNodal_one : h.toNodal h.oneModal = 1
  toModal_one : h.toModal 1 = h.oneModal

end laws

/-! ## column routines on zero columns -/
section columns
variable {K V : Type} [Field K] [AddCommGroup V] [Module K V]

theorem wmul_zeros (w : List K) (n : ℕ) (h : w.length = n) :
    Col.wmul w (List.replicate n (0 : V)) = List.replicate n 0 :=
  zipWith_zero_right _ (fun a => smul_zero a) w n h

theorem cumSigmaIntegral_zeros (ds : List K) (n : ℕ) (h : ds.length = n) :
    Col.cumSigmaIntegral ds (List.replicate n (0 : V)) = List.replicate n 0 := by
  unfold Col.cumSigmaIntegral Col.cumsum
  rw [wmul_zeros ds n h, cumsumFrom_zeros]

theorem sigmaIntegral_zeros (ds : List K) (n : ℕ) (h : ds.length = n) :
    Col.sigmaIntegral ds (List.replicate n (0 : V)) = 0 := by
  unfold Col.sigmaIntegral
  rw [wmul_zeros ds n h, sum_zeros]

theorem add_zeros (n : ℕ) :
    Col.add (List.replicate n (0 : V)) (List.replicate n 0) = List.replicate n 0 := by
  simp [Col.add]

theorem matvec_zeros (a : List (List K)) (n : ℕ) :
    Col.matvec a (List.replicate n (0 : V)) = List.replicate a.length 0 := by
  unfold Col.matvec
  rw [List.eq_replicate_iff]
  refine ⟨by simp, ?_⟩
  intro b hb
  obtain ⟨row, -, rfl⟩ := List.mem_map.mp hb
  apply List.sum_eq_zero
  intro x hx
  unfold Col.wmul at hx
  obtain ⟨i, hi, rfl⟩ := List.getElem_of_mem hx
  simp

end columns

section rest
variable {K M N : Type} [Field K] [AddCommGroup M] [Module K M] [CommRing N] [Algebra K N]

/-- the resting state with `n` layers: `ζ = δ = T′ = 0`, any `ln p_s`, any tracers -/
def restState (n : ℕ) (lnp : M) (tr : List (String × List M)) : State M :=
  { vorticity := List.replicate n 0, divergence := List.replicate n 0
    temperatureVariation := List.replicate n 0, logSurfacePressure := lnp, tracers := tr }

/-- the diagnostic state of a resting atmosphere -/
def restDiag (n : ℕ) (G : N × N) (tr : List (String × List N)) : Diag N :=
  { vorticity := List.replicate n 0, divergence := List.replicate n 0
    temperatureVariation := List.replicate n 0
    cosLatU := (List.replicate n 0, List.replicate n 0)
    sigmaDotExplicit := List.replicate (n - 1) 0, sigmaDotFull := List.replicate (n - 1) 0
    cosLatGradLogSp := G
    uDotGradLogSp := List.replicate n 0
    tracers := tr }

theorem cosLatGrad_zero (h : HOps K M N) (L : LinLaws h) (c : Bool) : h.cosLatGrad c 0 = (0, 0) := by
  unfold HOps.cosLatGrad
  cases c <;> simp [L.dDlon.map_zero, L.cosLatDDlat.map_zero, L.clip.map_zero]

theorem cosLatVector_zero (h : HOps K M N) (L : LinLaws h) (c : Bool) :
    h.cosLatVector c 0 0 = (0, 0) := by
  unfold HOps.cosLatVector
  simp [L.inverseLaplacian.map_zero, cosLatGrad_zero h L, HOps.kCross]

theorem sigmaDotOf_zeros (ds : List K) (n : ℕ) (h : ds.length = n) :
    sigmaDotOf ds (List.replicate n (0 : N)) = List.replicate (n - 1) 0 := by
  unfold sigmaDotOf
  simp only [getLastD_replicate_zero]
  rw [zipWith_zero_right _ (by intro a; simp) _ n (by simp [Sigma.cumsum, h])]
  simp

theorem computeDiagnosticState_rest (h : HOps K M N) (L : LinLaws h) (v : Vert K) (n : ℕ)
    (hds : v.ds.length = n) (lnp : M) (tr : List (String × List M)) :
    computeDiagnosticState h v (restState n lnp tr) =
      restDiag n (h.toNodal (h.cosLatGrad false lnp).1, h.toNodal (h.cosLatGrad false lnp).2)
        (mapTracers (fun x => x.map h.toNodal) tr) := by
  unfold restDiag
  unfold computeDiagnosticState restState
  simp only [List.map_replicate, L.toNodal.map_zero, List.zipWith_replicate, Nat.min_self,
    cosLatVector_zero h L, zero_mul, add_zero, cumSigmaIntegral_zeros v.ds n hds, add_zeros,
    sigmaDotOf_zeros v.ds n hds]

end rest

section rest
variable {K M N : Type} [Field K] [AddCommGroup M] [Module K M] [CommRing N] [Algebra K N]

theorem centeredAdvection_zero_w (ctc : List K) (x : List N) (n : ℕ) (hn : 0 < n)
    (hx : x.length = n) (hc : ctc.length = n - 1) :
    Col.centeredAdvection ctc (List.replicate (n - 1) (0 : N)) x = List.replicate n 0 := by
  unfold Col.centeredAdvection
  have hxd : ((0 : N) :: (Col.centeredDifference ctc x ++ [0])).length = n + 1 := by
    simp [Col.centeredDifference, col_diffs_length, hx, hc]; omega
  simp only [zeros_append, cons_zeros]
  have h1 : n - 1 + 1 + 1 = n + 1 := by omega
  rw [h1]
  unfold Col.mul
  rw [zipWith_zero_left _ (by intro a; simp) _ (n + 1) hxd]
  simp

variable (eq : PrimitiveEquations K M N)

theorem verticalTendency_zero_w (x : List N) (n : ℕ) (hn : 0 < n) (hx : x.length = n)
    (hb : eq.vert.boundaries.length = n + 1) :
    eq.verticalTendency (List.replicate (n - 1) 0) x = List.replicate n 0 := by
  unfold PrimitiveEquations.verticalTendency
  apply centeredAdvection_zero_w _ _ n hn hx
  simp [Vert.ctc, Sigma.centerToCenter, hb]

theorem neg_zeros (n : ℕ) : Col.neg (List.replicate n (0 : N)) = List.replicate n 0 := by
  simp [Col.neg]

theorem curlAndDivTendenciesWith_rest (L : LinLaws eq.ops) (n : ℕ) (hn : 0 < n)
    (hb : eq.vert.boundaries.length = n + 1) (G : N × N) (tr : List (String × List N)) :
    eq.curlAndDivTendenciesWith (restDiag n G tr) (List.replicate n 0)
      = (List.replicate n 0, List.replicate n 0) := by
  unfold PrimitiveEquations.curlAndDivTendenciesWith restDiag
  have hv := verticalTendency_zero_w eq (List.replicate n (0 : N)) n hn (by simp) hb
  have hcurl : eq.ops.curlCosLat false ((0 : M), (0 : M)) = 0 := by
    simp [HOps.curlCosLat, L.dDlon.map_zero, L.secLatDDlatCos2.map_zero]
  have hdiv : eq.ops.divCosLat false ((0 : M), (0 : M)) = 0 := by
    simp [HOps.divCosLat, L.dDlon.map_zero, L.secLatDDlatCos2.map_zero]
  cases hva : eq.includeVerticalAdvection <;>
  simp only [hv, neg_zeros, Col.zerosLike, List.map_replicate, List.zipWith_replicate, Nat.min_self,
    neg_zero, zero_mul, add_zero, add_zeros, L.toModal.map_zero, hcurl, hdiv, if_true, if_false,
    Bool.false_eq_true]

theorem kineticEnergyTendency_rest (L : LinLaws eq.ops) (n : ℕ) (G : N × N)
    (tr : List (String × List N)) :
    eq.kineticEnergyTendency (restDiag n G tr) = List.replicate n 0 := by
  unfold PrimitiveEquations.kineticEnergyTendency restDiag
  simp [L.toModal.map_zero, L.laplacian.map_zero]

theorem divSecLat_zero (L : LinLaws eq.ops) : eq.ops.divSecLat 0 0 = 0 := by
  simp [HOps.divSecLat, HOps.divCosLat, L.toModal.map_zero, L.dDlon.map_zero,
    L.secLatDDlatCos2.map_zero]

theorem horizontalScalarAdvection_rest (L : LinLaws eq.ops) (n : ℕ) (G : N × N)
    (tr : List (String × List N)) (x : List N) (hx : x.length = n) :
    eq.horizontalScalarAdvection x (restDiag n G tr) = (List.replicate n 0, List.replicate n 0) := by
  unfold PrimitiveEquations.horizontalScalarAdvection restDiag Col.mul
  simp only
  rw [zipWith_zero_right _ (by intro a; simp) x n hx, zipWith_zero_left _ (by intro a; simp) x n hx]
  simp [divSecLat_zero eq L]

theorem tRef_length : eq.tRef.length = eq.referenceTemperature.length := by
  simp [PrimitiveEquations.tRef]

theorem nodalTemperatureVerticalTendency_rest [BEq K] (n : ℕ) (hn : 0 < n)
    (hb : eq.vert.boundaries.length = n + 1) (hT : eq.referenceTemperature.length = n)
    (G : N × N) (tr : List (String × List N)) :
    eq.nodalTemperatureVerticalTendency (restDiag n G tr) = List.replicate n 0 := by
  unfold PrimitiveEquations.nodalTemperatureVerticalTendency restDiag
  have hv := verticalTendency_zero_w eq (List.replicate n (0 : N)) n hn (by simp) hb
  have hr := verticalTendency_zero_w eq eq.tRef n hn (by rw [tRef_length, hT]) hb
  cases eq.includeVerticalAdvection <;> cases eq.tRefVaries <;>
    simp [hv, hr, Col.zerosLike, add_zeros]

end rest

section rest
variable {K M N : Type} [Field K] [AddCommGroup M] [Module K M] [CommRing N] [Algebra K N]
variable (eq : PrimitiveEquations K M N)

theorem sigmaRatios_length (lc : List K) : (Sigma.sigmaRatios lc).length = lc.length := by
  induction lc with
  | nil => rfl
  | cons a t ih =>
    cases t with
    | nil => rfl
    | cons b r => simp [Sigma.sigmaRatios] at ih ⊢; exact ih

/-- `T·ω/p` helper: with `g = 0` and `v·∇ln p = 0` the result is zero whatever the temperature -/
theorem tOmegaOverSigmaSp_rest (n : ℕ) (hb : eq.vert.boundaries.length = n + 1)
    (hlc : eq.vert.logCenters.length = n) (t : List N) (ht : t.length = n) :
    eq.tOmegaOverSigmaSp t (List.replicate n 0) (List.replicate n 0) = List.replicate n 0 := by
  unfold PrimitiveEquations.tOmegaOverSigmaSp
  have hds : eq.vert.ds.length = n := by simp [Vert.ds, Sigma.thickness, hb]
  have hal : eq.vert.alpha.length = n := by simp [Vert.alpha, sigmaRatios_length, hlc]
  simp only [cumSigmaIntegral_zeros eq.vert.ds n hds, wmul_zeros eq.vert.alpha n hal, cons_zeros,
    List.dropLast_replicate, Nat.add_sub_cancel, add_zeros]
  rw [zipWith_zero_right _ (by intro a; simp) _ n hds]
  unfold Col.sub Col.mul
  simp only [List.zipWith_replicate, Nat.min_self, sub_zero]
  exact zipWith_zero_right _ (by intro a; simp) t n ht

theorem nodalTemperatureAdiabaticTendency_rest (n : ℕ) (hb : eq.vert.boundaries.length = n + 1)
    (hlc : eq.vert.logCenters.length = n) (hT : eq.referenceTemperature.length = n)
    (G : N × N) (tr : List (String × List N)) :
    eq.nodalTemperatureAdiabaticTendency (restDiag n G tr) = List.replicate n 0 := by
  unfold PrimitiveEquations.nodalTemperatureAdiabaticTendency restDiag
  simp only [add_zeros]
  rw [tOmegaOverSigmaSp_rest eq n hb hlc eq.tRef (by rw [tRef_length, hT]),
    tOmegaOverSigmaSp_rest eq n hb hlc _ (by simp)]
  simp [add_zeros, Col.smul]

theorem nodalLogPressureTendency_rest (n : ℕ) (hb : eq.vert.boundaries.length = n + 1)
    (G : N × N) (tr : List (String × List N)) :
    eq.nodalLogPressureTendency (restDiag n G tr) = 0 := by
  unfold PrimitiveEquations.nodalLogPressureTendency restDiag
  have hds : eq.vert.ds.length = n := by simp [Vert.ds, Sigma.thickness, hb]
  simp [sigmaIntegral_zeros eq.vert.ds n hds]

theorem tracerTendency_rest (L : LinLaws eq.ops) (n : ℕ) (hn : 0 < n)
    (hb : eq.vert.boundaries.length = n + 1) (G : N × N) (tr : List (String × List N))
    (x : List N) (hx : x.length = n) :
    eq.tracerTendency (restDiag n G tr) x = List.replicate n 0 := by
  unfold PrimitiveEquations.tracerTendency
  rw [horizontalScalarAdvection_rest eq L n G tr x hx]
  have hv := verticalTendency_zero_w eq x n hn hx hb
  have hz : Col.zerosLike x = List.replicate n (0 : N) := by
    rw [← hx]; simp [Col.zerosLike]
  cases eq.includeVerticalAdvection <;>
    simp [restDiag, hv, hz, add_zeros, L.toModal.map_zero]

theorem mapTracers_congr {α β : Type} (f g : α → β) (t : List (String × α))
    (h : ∀ kv ∈ t, f kv.2 = g kv.2) : mapTracers f t = mapTracers g t := by
  unfold mapTracers
  apply List.map_congr_left
  intro kv hkv
  rw [h kv hkv]

theorem thermoTendencies_rest [BEq K] (L : LinLaws eq.ops) (n : ℕ) (hn : 0 < n)
    (hb : eq.vert.boundaries.length = n + 1) (hT : eq.referenceTemperature.length = n)
    (G : N × N) (tr : List (String × List N)) (htr : ∀ kv ∈ tr, kv.2.length = n) :
    eq.thermoTendencies (restDiag n G tr) (List.replicate n 0)
      = (List.replicate n 0, 0, mapTracers (fun _ => List.replicate n 0) tr) := by
  unfold PrimitiveEquations.thermoTendencies
  rw [nodalTemperatureVerticalTendency_rest eq n hn hb hT, nodalLogPressureTendency_rest eq n hb]
  have h1 : (restDiag n G tr).temperatureVariation = List.replicate n 0 := rfl
  have h2 : (restDiag n G tr).tracers = tr := rfl
  rw [h1, h2, horizontalScalarAdvection_rest eq L n G tr _ (by simp)]
  rw [mapTracers_congr _ (fun _ => List.replicate n (0 : M)) tr
    (fun kv hkv => tracerTendency_rest eq L n hn hb G tr kv.2 (htr kv hkv))]
  simp [add_zeros, L.toModal.map_zero]

end rest

section rest
variable {K M N : Type} [Field K] [AddCommGroup M] [Module K M] [CommRing N] [Algebra K N]
variable (eq : PrimitiveEquations K M N)

theorem geopotentialWeights_length (R : K) (al : List K) :
    (Sigma.geopotentialWeights R al).length = al.length := by
  induction al with
  | nil => rfl
  | cons a t ih => simp [Sigma.geopotentialWeights, ih]

theorem mapTracers_const_mapTracers {α β γ : Type} (f : α → β) (c : γ) (t : List (String × α)) :
    mapTracers (fun _ => c) (mapTracers f t) = mapTracers (fun _ => c) t := by
  simp [mapTracers]

theorem mapTracers_mapTracers {α β γ : Type} (f : α → β) (g : β → γ) (t : List (String × α)) :
    mapTracers g (mapTracers f t) = mapTracers (fun x => g (f x)) t := by
  simp [mapTracers]

theorem zipTracers_const (n : ℕ) (t : List (String × List M)) :
    State.zipTracers Col.add (mapTracers (fun _ => List.replicate n (0 : M)) t)
      (mapTracers (fun _ => List.replicate n (0 : M)) t)
      = mapTracers (fun _ => List.replicate n (0 : M)) t := by
  induction t with
  | nil => rfl
  | cons a t ih =>
    simp only [mapTracers, State.zipTracers, List.map_cons, List.zipWith_cons_cons] at ih ⊢
    rw [ih]; simp [add_zeros]

/-- the zero tendency: zero fields, zero surface-pressure tendency, zero tendency of every tracer -/
def zeroTendency (n : ℕ) (tr : List (String × List M)) : State M :=
  { vorticity := List.replicate n 0, divergence := List.replicate n 0
    temperatureVariation := List.replicate n 0, logSurfacePressure := 0
    tracers := mapTracers (fun _ => List.replicate n 0) tr }

/-- `explicit_terms` of the dry classes on a resting state: only the orography term survives -/
theorem explicitTerms_rest [BEq K] (L : LinLaws eq.ops) (n : ℕ) (hn : 0 < n)
    (hb : eq.vert.boundaries.length = n + 1) (hlc : eq.vert.logCenters.length = n)
    (hT : eq.referenceTemperature.length = n) (lnp : M) (tr : List (String × List M))
    (htr : ∀ kv ∈ tr, kv.2.length = n) :
    eq.explicitTerms (restState n lnp tr) =
      { vorticity := List.replicate n 0
        divergence := List.replicate n (eq.ops.clip ((-eq.phys.g) • eq.ops.laplacian eq.orography))
        temperatureVariation := List.replicate n 0
        logSurfacePressure := 0
        tracers := mapTracers (fun _ => List.replicate n 0) tr } := by
  unfold PrimitiveEquations.explicitTerms
  have hds : eq.vert.ds.length = n := by simp [Vert.ds, Sigma.thickness, hb]
  rw [computeDiagnosticState_rest eq.ops L eq.vert n hds]
  have htr' : ∀ kv ∈ mapTracers (fun x => x.map eq.ops.toNodal) tr, kv.2.length = n := by
    intro kv hkv
    obtain ⟨kv0, h0, rfl⟩ := List.mem_map.mp hkv
    simpa using htr kv0 h0
  dsimp only
  rw [nodalTemperatureAdiabaticTendency_rest eq n hb hlc hT,
    thermoTendencies_rest eq L n hn hb hT _ _ htr', kineticEnergyTendency_rest eq L]
  unfold PrimitiveEquations.curlAndDivTendencies
  have h1 : ∀ G tr', (restDiag (N := N) n G tr').temperatureVariation = List.replicate n 0 :=
    fun _ _ => rfl
  rw [h1]
  have h2 : Col.smul eq.phys.R (List.replicate n (0 : N)) = List.replicate n 0 := by simp [Col.smul]
  rw [h2, curlAndDivTendenciesWith_rest eq L n hn hb]
  simp [PrimitiveEquations.clipState, add_zeros, Col.addLevel, L.clip.map_zero,
    mapTracers_mapTracers, PrimitiveEquations.orographyTendency]

/-- `implicit_terms` on a resting state with a layer-independent reference temperature -/
theorem implicitTerms_rest (n : ℕ)
    (hb : eq.vert.boundaries.length = n + 1) (hlc : eq.vert.logCenters.length = n)
    (T0 : K) (hT : eq.referenceTemperature = List.replicate n T0) (lnp : M)
    (tr : List (String × List M)) (htr : ∀ kv ∈ tr, kv.2.length = n) :
    eq.implicitTerms (restState n lnp tr) =
      { vorticity := List.replicate n 0
        divergence := List.replicate n (-(eq.ops.laplacian ((eq.phys.R * T0) • lnp)))
        temperatureVariation := List.replicate n 0
        logSurfacePressure := 0
        tracers := mapTracers (fun _ => List.replicate n 0) tr } := by
  unfold PrimitiveEquations.implicitTerms restState
  have hds : eq.vert.ds.length = n := by simp [Vert.ds, Sigma.thickness, hb]
  have hal : eq.vert.alpha.length = n := by simp [Vert.alpha, sigmaRatios_length, hlc]
  have hz : mapTracers Col.zerosLike tr = mapTracers (fun _ => List.replicate n (0 : M)) tr := by
    apply mapTracers_congr
    intro kv hkv
    rw [← htr kv hkv]; simp [Col.zerosLike]
  simp only [PrimitiveEquations.geopotentialDiff, PrimitiveEquations.temperatureImplicit,
    PrimitiveEquations.temperatureImplicitWeights, matvec_zeros, geopotentialWeights_length, hal,
    hT, List.map_replicate, Col.add, List.zipWith_replicate, Nat.min_self, zero_add,
    sigmaIntegral_zeros eq.vert.ds n hds, neg_zero, Col.zerosLike, hz]
  simp [Implicit.negMat, Implicit.hMatrix, hds]

end rest

section zeros2
variable {A B V : Type}
theorem zipWith_replicate_right' (f : A → B → V) (b : B) (c : V) (l : List A)
    (hf : ∀ a ∈ l, f a b = c) (n : ℕ) (h : l.length = n) :
    List.zipWith f l (List.replicate n b) = List.replicate n c := by
  subst h
  induction l with
  | nil => rfl
  | cons a t ih =>
    simp only [List.length_cons, List.replicate_succ, List.zipWith_cons_cons]
    rw [hf a (by simp), ih (fun a ha => hf a (by simp [ha]))]

theorem zipWith_replicate_left' (f : B → A → V) (b : B) (c : V) (l : List A)
    (hf : ∀ a ∈ l, f b a = c) (n : ℕ) (h : l.length = n) :
    List.zipWith f (List.replicate n b) l = List.replicate n c := by
  subst h
  induction l with
  | nil => rfl
  | cons a t ih =>
    simp only [List.length_cons, List.replicate_succ, List.zipWith_cons_cons]
    rw [hf a (by simp), ih (fun a ha => hf a (by simp [ha]))]
end zeros2

section moist
variable {K M N : Type} [Field K] [AddCommGroup M] [Module K M] [CommRing N] [Algebra K N] [Div N]
variable (eq : PrimitiveEquations K M N)

theorem lookup_mapTracers {α β : Type} (f : α → β) (name : String) (t : List (String × α)) :
    lookup name (mapTracers f t) = (lookup name t).map f := by
  induction t with
  | nil => rfl
  | cons a t ih =>
    simp only [mapTracers, List.map_cons, lookup] at ih ⊢
    split <;> simp_all

/-- the sum of a per-level weighted constant column is a multiple of the constant -/
theorem wmul_const_sum (row : List K) (n : ℕ) (v : N) :
    ∃ s : K, (Col.wmul row (List.replicate n v)).sum = s • v := by
  induction row generalizing n with
  | nil => exact ⟨0, by simp [Col.wmul]⟩
  | cons a t ih =>
    cases n with
    | zero => exact ⟨0, by simp [Col.wmul]⟩
    | succ n =>
      obtain ⟨s, hs⟩ := ih n
      refine ⟨a + s, ?_⟩
      simp only [Col.wmul, List.replicate_succ, List.zipWith_cons_cons, List.sum_cons] at hs ⊢
      rw [hs, add_smul]

theorem cosLatGrad_const (L : LinLaws eq.ops) (C : ConstLaws eq.ops) (q0 : K) :
    eq.ops.cosLatGrad false (q0 • eq.ops.oneModal) = (0, 0) := by
  simp [HOps.cosLatGrad, L.dDlon.map_smul, L.cosLatDDlat.map_smul, C.dDlon_one, C.cosLatDDlat_one]

theorem constN_eq (c : K) : (constN c : N) = c • 1 := rfl

/-- `vorticity_tendency_due_to_humidity` vanishes for uniform humidity -/
theorem vorticityTendencyDueToHumidity_rest (L : LinLaws eq.ops) (C : ConstLaws eq.ops) (n : ℕ)
    (hT : eq.referenceTemperature.length = n) (lnp : M) (tr : List (String × List M)) (q0 : K)
    (hq : lookup specificHumidityKey tr = some (List.replicate n (q0 • eq.ops.oneModal)))
    (G : N × N) (tr' : List (String × List N)) :
    MoistPrimitiveEquations.vorticityTendencyDueToHumidity eq (restState n lnp tr) (restDiag n G tr')
      = some (List.replicate n 0) := by
  unfold MoistPrimitiveEquations.vorticityTendencyDueToHumidity
    MoistPrimitiveEquations.getSpecificHumidity MoistPrimitiveEquations.nodalCosLatGradQ
  have h0 : (restState n lnp tr).tracers = tr := rfl
  rw [h0, hq]
  simp only [Option.bind_eq_bind, Option.bind_some, List.map_replicate, cosLatGrad_const eq L C,
    L.toNodal.map_zero, Option.pure_def, Option.some.injEq]
  rw [zipWith_replicate_right' _ _ (0 : N) eq.tRef (by intro a _; simp [restDiag]) n
    (by rw [tRef_length, hT])]
  simp [L.toModal.map_zero]

end moist

section moist
variable {K M N : Type} [Field K] [AddCommGroup M] [Module K M] [CommRing N] [Algebra K N] [Div N]
variable (eq : PrimitiveEquations K M N)

/-- `divergence_tendency_due_to_humidity` for uniform humidity `q₀` over a resting atmosphere with a
 layer-independent `T_ref = T₀`: only the laplacian-correction term survives,
 `−q₀ T₀ (R_v − R) ∇² ln p_s` in every layer. -/
theorem divergenceTendencyDueToHumidity_rest (L : LinLaws eq.ops) (C : ConstLaws eq.ops) (n : ℕ)
    (hlc : eq.vert.logCenters.length = n)
    (T0 : K) (hT : eq.referenceTemperature = List.replicate n T0) (lnp : M)
    (hrt : eq.ops.toModal (eq.ops.toNodal (eq.ops.laplacian lnp)) = eq.ops.laplacian lnp)
    (tr : List (String × List M)) (q0 : K)
    (hq : lookup specificHumidityKey tr = some (List.replicate n (q0 • eq.ops.oneModal)))
    (G : N × N) :
    MoistPrimitiveEquations.divergenceTendencyDueToHumidity eq (restState n lnp tr)
        (restDiag n G (mapTracers (fun x => x.map eq.ops.toNodal) tr))
      = some (List.replicate n
          (-((q0 * T0 * (eq.phys.Rvapor - eq.phys.R)) • eq.ops.laplacian lnp))) := by
  unfold MoistPrimitiveEquations.divergenceTendencyDueToHumidity
    MoistPrimitiveEquations.getSpecificHumidity MoistPrimitiveEquations.nodalCosLatGradQ
  have h0 : (restState n lnp tr).tracers = tr := rfl
  have h1 : (restDiag n G (mapTracers (fun x => x.map eq.ops.toNodal) tr)).tracers
      = mapTracers (fun x => x.map eq.ops.toNodal) tr := rfl
  have h2 : (restState n lnp tr).logSurfacePressure = lnp := rfl
  have h3 : (restDiag n G (mapTracers (fun x => x.map eq.ops.toNodal) tr)).temperatureVariation
      = List.replicate n 0 := rfl
  have hal : eq.vert.alpha.length = n := by simp [Vert.alpha, sigmaRatios_length, hlc]
  rw [h0, h1, h2, h3, lookup_mapTracers, hq]
  simp only [Option.map_some, Option.bind_eq_bind, Option.bind_some, List.map_replicate,
    cosLatGrad_const eq L C, L.toNodal.map_zero, Option.pure_def, Option.some.injEq,
    PrimitiveEquations.tRef, hT, List.zipWith_replicate, Nat.min_self, Col.add, zero_mul, mul_zero,
    add_zero, zero_add, L.toNodal.map_smul, C.toNodal_one, constN_eq]
  apply zipWith_replicate_right' _ _ _ _ _ n
    (by simp [PrimitiveEquations.geopotentialDiff, Col.matvec, geopotentialWeights_length, hal])
  intro gd hgd
  have hgd0 : eq.ops.laplacian (eq.ops.toModal gd) = 0 := by
    unfold PrimitiveEquations.geopotentialDiff Col.matvec at hgd
    obtain ⟨row, -, rfl⟩ := List.mem_map.mp hgd
    obtain ⟨s, hs⟩ := wmul_const_sum row n
      ((eq.phys.Rvapor / eq.phys.R - 1) • (q0 • (1 : N) * T0 • (1 : N)))
    rw [hs]
    simp only [smul_mul_assoc, one_mul, L.toModal.map_smul, L.laplacian.map_smul, C.toModal_one,
      C.lap_one, smul_zero]
  rw [hgd0]
  have hx : q0 • (1 : N) * eq.ops.toNodal (eq.ops.laplacian lnp) * T0 • (1 : N)
        * (eq.phys.Rvapor - eq.phys.R) • (1 : N)
      = (q0 * T0 * (eq.phys.Rvapor - eq.phys.R)) • eq.ops.toNodal (eq.ops.laplacian lnp) := by
    simp only [smul_mul_assoc, mul_smul_comm, one_mul, mul_one, smul_smul]
    congr 1; ring
  rw [hx, L.toModal.map_smul, hrt]
  simp

/-- the moist adiabatic temperature tendency of a resting atmosphere vanishes -/
theorem moist_nodalTemperatureAdiabaticTendency_rest (n : ℕ)
    (hb : eq.vert.boundaries.length = n + 1) (hlc : eq.vert.logCenters.length = n)
    (hT : eq.referenceTemperature.length = n) (G : N × N) (tr' : List (String × List N))
    (q : List N) (hq : lookup specificHumidityKey tr' = some q) (hql : q.length = n) :
    MoistPrimitiveEquations.nodalTemperatureAdiabaticTendency eq (restDiag n G tr')
      = some (List.replicate n 0) := by
  unfold MoistPrimitiveEquations.nodalTemperatureAdiabaticTendency
    MoistPrimitiveEquations.getSpecificHumidity
  have h1 : (restDiag n G tr').tracers = tr' := rfl
  have h2 : (restDiag n G tr').uDotGradLogSp = List.replicate n 0 := rfl
  have h3 : (restDiag n G tr').divergence = List.replicate n 0 := rfl
  have h4 : (restDiag n G tr').temperatureVariation = List.replicate n 0 := rfl
  rw [h1, hq]
  simp only [Option.bind_eq_bind, Option.bind_some, Option.pure_def, Option.some.injEq, h2, h3, h4,
    add_zeros]
  rw [tOmegaOverSigmaSp_rest eq n hb hlc eq.tRef (by rw [tRef_length, hT]),
    tOmegaOverSigmaSp_rest eq n hb hlc _ (by simp [Col.add, hql, tRef_length, hT])]
  simp [add_zeros, Col.smul]

/-- the moist `curl_and_div_tendencies` of a resting atmosphere vanish for any
 `_virtual_temperature` method that returns zero for `T′ = 0` -/
theorem moist_curlAndDivTendencies_rest (L : LinLaws eq.ops) (n : ℕ) (hn : 0 < n)
    (hb : eq.vert.boundaries.length = n + 1) (G : N × N) (tr' : List (String × List N))
    (q : List N) (hq : lookup specificHumidityKey tr' = some q)
    (vt : Diag N → List N → Option (List N))
    (hvt : ∀ mc : List N, mc.length = q.length → vt (restDiag n G tr') mc = some (List.replicate n 0)) :
    MoistPrimitiveEquations.curlAndDivTendencies eq vt (restDiag n G tr')
      = some (List.replicate n 0, List.replicate n 0) := by
  unfold MoistPrimitiveEquations.curlAndDivTendencies MoistPrimitiveEquations.getSpecificHumidity
  have h1 : (restDiag n G tr').tracers = tr' := rfl
  rw [h1, hq]
  simp only [Option.bind_eq_bind, Option.bind_some]
  rw [hvt _ (by simp [Col.smul])]
  simp [curlAndDivTendenciesWith_rest eq L n hn hb]

theorem virtualTemperature_rest (n : ℕ) (G : N × N) (tr' : List (String × List N))
    (mc : List N) (hmc : mc.length = n) :
    MoistPrimitiveEquations.virtualTemperature eq (restDiag n G tr') mc
      = some (List.replicate n 0) := by
  unfold MoistPrimitiveEquations.virtualTemperature
  have h4 : (restDiag n G tr').temperatureVariation = List.replicate n 0 := rfl
  rw [h4, zipWith_zero_left _ (by intro a; simp) mc n hmc]

theorem virtualTemperatureWithClouds_rest (n : ℕ) (G : N × N) (tr' : List (String × List N))
    (ql qi : List N) (hql : lookup cloudWaterKey tr' = some ql) (hqi : lookup cloudIceKey tr' = some qi)
    (hl : ql.length = n) (hi : qi.length = n) (mc : List N) (hmc : mc.length = n) :
    MoistPrimitiveEquations.virtualTemperatureWithClouds eq (restDiag n G tr') mc
      = some (List.replicate n 0) := by
  unfold MoistPrimitiveEquations.virtualTemperatureWithClouds
  have h1 : (restDiag n G tr').tracers = tr' := rfl
  have h4 : (restDiag n G tr').temperatureVariation = List.replicate n 0 := rfl
  rw [h1, hql, hqi, h4]
  simp only [Option.bind_eq_bind, Option.bind_some, Option.pure_def, Option.some.injEq]
  exact zipWith_zero_left _ (by intro a; simp) _ n (by simp [Col.sub, hmc, hl, hi])

end moist

section moist
variable {K M N : Type} [Field K] [AddCommGroup M] [Module K M] [CommRing N] [Algebra K N] [Div N]
variable (eq : PrimitiveEquations K M N)

/-- `MoistPrimitiveEquations.explicit_terms` (either `_virtual_temperature` method) on a resting
 atmosphere with uniform humidity `q₀` and layer-independent `T_ref = T₀` -/
theorem moist_explicitTermsWith_rest [BEq K] (L : LinLaws eq.ops) (C : ConstLaws eq.ops) (n : ℕ)
    (hn : 0 < n) (hb : eq.vert.boundaries.length = n + 1) (hlc : eq.vert.logCenters.length = n)
    (T0 : K) (hT : eq.referenceTemperature = List.replicate n T0) (lnp : M)
    (hrt : eq.ops.toModal (eq.ops.toNodal (eq.ops.laplacian lnp)) = eq.ops.laplacian lnp)
    (tr : List (String × List M)) (htr : ∀ kv ∈ tr, kv.2.length = n) (q0 : K)
    (hq : lookup specificHumidityKey tr = some (List.replicate n (q0 • eq.ops.oneModal)))
    (vt : Diag N → List N → Option (List N))
    (hvt : ∀ (G : N × N) (mc : List N), mc.length = n →
      vt (restDiag n G (mapTracers (fun x => x.map eq.ops.toNodal) tr)) mc = some (List.replicate n 0))
    (t : K) :
    MoistPrimitiveEquations.explicitTermsWith eq vt { state := restState n lnp tr, simTime := t } =
      some { state :=
              { vorticity := List.replicate n 0
                divergence := List.replicate n (eq.ops.clip ((-eq.phys.g) • eq.ops.laplacian eq.orography
                  + -((q0 * T0 * (eq.phys.Rvapor - eq.phys.R)) • eq.ops.laplacian lnp)))
                temperatureVariation := List.replicate n 0
                logSurfacePressure := 0
                tracers := mapTracers (fun _ => List.replicate n 0) tr }
             simTime := 1 } := by
  unfold MoistPrimitiveEquations.explicitTermsWith
  have hds : eq.vert.ds.length = n := by simp [Vert.ds, Sigma.thickness, hb]
  have hTl : eq.referenceTemperature.length = n := by simp [hT]
  dsimp only
  rw [computeDiagnosticState_rest eq.ops L eq.vert n hds]
  have htr' : ∀ kv ∈ mapTracers (fun x => x.map eq.ops.toNodal) tr, kv.2.length = n := by
    intro kv hkv
    obtain ⟨kv0, h0, rfl⟩ := List.mem_map.mp hkv
    simpa using htr kv0 h0
  have hq' : lookup specificHumidityKey (mapTracers (fun x => x.map eq.ops.toNodal) tr)
      = some ((List.replicate n (q0 • eq.ops.oneModal)).map eq.ops.toNodal) := by
    rw [lookup_mapTracers, hq]; rfl
  rw [moist_curlAndDivTendencies_rest eq L n hn hb _ _ _ hq' vt (fun mc hmc => hvt _ mc (by simpa using hmc)),
    vorticityTendencyDueToHumidity_rest eq L C n hTl lnp tr q0 hq,
    divergenceTendencyDueToHumidity_rest eq L C n hlc T0 hT lnp hrt tr q0 hq,
    moist_nodalTemperatureAdiabaticTendency_rest eq n hb hlc hTl _ _ _ hq' (by simp)]
  simp only [Option.bind_eq_bind, Option.bind_some, Option.pure_def, Option.some.injEq]
  rw [thermoTendencies_rest eq L n hn hb hTl _ _ htr', kineticEnergyTendency_rest eq L]
  simp [PrimitiveEquations.clipState, Col.addLevel, Col.add, L.clip.map_zero,
    mapTracers_mapTracers, PrimitiveEquations.orographyTendency]

end moist

end Dino.Balance
