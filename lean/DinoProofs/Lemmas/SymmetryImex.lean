import Dino.Imex
import Dino.Invariants
import Mathlib.Algebra.Module.Basic
import Mathlib.Algebra.Module.LinearMap.Defs
import Mathlib.Algebra.Module.LinearMap.Basic
import Mathlib.Logic.Function.Iterate

/-!
# Lemmas for C10, part 6: every integrator of `Dino.Imex` commutes with a linear symmetry

`ρ : V → V` *intertwines* the IMEX problems `e` (original data) and `e'` (transformed data:
same equations over the transformed orography) when it commutes with `F`, `G` and the resolvent.
Every step function of `time_integration.py` is built from these three by `+`, scalar `•` and the
start value `0`, so it commutes with every `ρ` that respects these three operations (`OpHom`) — **no
algebraic law of the state space is used**, which is why the statement applies verbatim to the
`tree_math` vectors `TM (StateWithTime K M)` of `Dino.Invariants` (pytrees of lists, with the Python
scalar `0` and a raised exception as extra points), not only to modules.  By induction whole
histories (any sequence of schemes, step sizes and commuting filters) commute with `ρ`.
-/
namespace Dino.Symmetry
open Dino Dino.Imex

set_option linter.unusedSectionVars false

variable {K V : Type} [Field K] [Add V] [Zero V] [SMul K V]

/-- `ρ` respects the three operations the integrators use on states -/
structure OpHom (K : Type) {V : Type} [Add V] [Zero V] [SMul K V] (ρ : V → V) : Prop where
  map_add : ∀ a b, ρ (a + b) = ρ a + ρ b
  map_smul : ∀ (c : K) a, ρ (c • a) = c • ρ a
  map_zero : ρ 0 = 0

/-- a linear map of a module is an `OpHom` -/
theorem OpHom.of_linear {W : Type} [AddCommGroup W] [Module K W] (φ : W →ₗ[K] W) : OpHom K φ :=
  ⟨_root_.map_add φ, _root_.map_smul φ, _root_.map_zero φ⟩

/-- `ρ` maps solutions of `e` to solutions of `e'` -/
structure Intertwines (ρ : V → V) (e e' : ImEx K V) : Prop where
  hom : OpHom K ρ
  F : ∀ x, e'.F (ρ x) = ρ (e.F x)
  G : ∀ x, e'.G (ρ x) = ρ (e.G x)
  Ginv : ∀ x η, e'.Ginv (ρ x) η = ρ (e.Ginv x η)

section
variable {ρ : V → V} {e e' : ImEx K V} (I : Intertwines ρ e e')
include I

theorem timeReversed_intertwines [Neg V] (hneg : ∀ a, ρ (-a) = -ρ a) :
    Intertwines ρ (timeReversed e) (timeReversed e') where
  hom := I.hom
  F x := by simp only [timeReversed, I.F, hneg]
  G x := by simp only [timeReversed, I.G, hneg]
  Ginv x η := by simp only [timeReversed, I.Ginv]

theorem bfe_equiv (dt : K) (u : V) : bfe e' dt (ρ u) = ρ (bfe e dt u) := by
  simp only [bfe, I.F, I.Ginv, ← I.hom.map_smul, ← I.hom.map_add]

theorem cnrk2_equiv (dt : K) (u : V) : cnrk2 e' dt (ρ u) = ρ (cnrk2 e dt u) := by
  simp only [cnrk2, I.F, I.G, I.Ginv, ← I.hom.map_smul, ← I.hom.map_add]

theorem leapfrog_equiv (dt α : K) (u : V × V) :
    leapfrog e' dt α (ρ u.1, ρ u.2) = (ρ (leapfrog e dt α u).1, ρ (leapfrog e dt α u).2) := by
  simp only [leapfrog, I.F, I.G, I.Ginv, ← I.hom.map_smul, ← I.hom.map_add]

theorem lsrkLoop_equiv (dt : K) (as bs cs : List K) (u h : V) :
    lsrkLoop e' dt as bs cs (ρ u) (ρ h) = ρ (lsrkLoop e dt as bs cs u h) := by
  induction bs generalizing as cs u h with
  | nil => cases as with
    | nil => rfl
    | cons a0 t => cases t <;> rfl
  | cons b bs ih =>
    cases as with
    | nil => rfl
    | cons a0 t =>
      cases t with
      | nil => rfl
      | cons a1 as =>
        cases cs with
        | nil => rfl
        | cons c cs =>
          simp only [lsrkLoop, I.F, I.G, ← I.hom.map_smul, ← I.hom.map_add, I.Ginv]
          exact ih _ _ _ _

theorem lsrk_equiv (dt : K) (αs βs γs : List K) :
    (lsrk e' dt αs βs γs).isSome = (lsrk e dt αs βs γs).isSome ∧
    ∀ s' s, lsrk e' dt αs βs γs = some s' → lsrk e dt αs βs γs = some s → ∀ u, s' (ρ u) = ρ (s u) := by
  unfold lsrk
  split
  · refine ⟨rfl, ?_⟩
    intro s' s h' h u
    simp only [Option.some.injEq] at h' h
    subst h' h
    have := lsrkLoop_equiv I dt αs βs γs u 0
    rwa [I.hom.map_zero] at this
  · exact ⟨rfl, fun s' s h' => by simp at h'⟩

omit I in
theorem wsum_equiv (hρ : OpHom K ρ) (nz : K → Bool) (row : List K) (fs : List V) :
    wsum nz row (fs.map ρ) = ρ (wsum nz row fs) := by
  unfold wsum
  have : ∀ (l : List (K × V)) (acc : V),
      (l.map fun p => (p.1, ρ p.2)).foldl (fun acc p => if nz p.1 then acc + p.1 • p.2 else acc) (ρ acc)
        = ρ (l.foldl (fun acc p => if nz p.1 then acc + p.1 • p.2 else acc) acc) := by
    intro l
    induction l with
    | nil => intro acc; rfl
    | cons p t ih =>
      intro acc
      simp only [List.map_cons, List.foldl_cons]
      split
      · rw [← hρ.map_smul, ← hρ.map_add, ih]
      · rw [ih]
  have hz : row.zip (fs.map ρ) = (row.zip fs).map fun p => (p.1, ρ p.2) := by
    rw [List.zip_map_right]; rfl
  rw [hz]
  have h0 := this (row.zip fs) 0
  rwa [hρ.map_zero] at h0

theorem stages_equiv (nz : K → Bool) (dt : K) (y0 : V) (aEx aIm : List (List K)) (fs gs : List V) :
    stages nz e' dt (ρ y0) aEx aIm (fs.map ρ) (gs.map ρ)
      = (((stages nz e dt y0 aEx aIm fs gs).1).map ρ, ((stages nz e dt y0 aEx aIm fs gs).2).map ρ) := by
  induction aEx generalizing aIm fs gs with
  | nil => cases aIm <;> rfl
  | cons rex tex ih =>
    cases aIm with
    | nil => rfl
    | cons rim tim =>
      simp only [stages, wsum_equiv I.hom, ← I.hom.map_smul, ← I.hom.map_add, I.Ginv, I.F, I.G, List.length_map]
      have h1 : fs.map ρ ++ [ρ (e.F (e.Ginv (y0 + dt • wsum nz rex fs + dt • wsum nz rim gs)
          (dt * rim.getD fs.length 0)))]
          = (fs ++ [e.F (e.Ginv (y0 + dt • wsum nz rex fs + dt • wsum nz rim gs)
          (dt * rim.getD fs.length 0))]).map ρ := by simp
      have h2 : gs.map ρ ++ [ρ (e.G (e.Ginv (y0 + dt • wsum nz rex fs + dt • wsum nz rim gs)
          (dt * rim.getD fs.length 0)))]
          = (gs ++ [e.G (e.Ginv (y0 + dt • wsum nz rex fs + dt • wsum nz rim gs)
          (dt * rim.getD fs.length 0))]).map ρ := by simp
      rw [h1, h2, ih]

theorem imexRKStep_equiv (nz : K → Bool) (dt : K) (t : Tableau K) (y0 : V) :
    imexRKStep nz e' dt t (ρ y0) = ρ (imexRKStep nz e dt t y0) := by
  unfold imexRKStep
  have h := stages_equiv I nz dt y0 t.aEx t.aIm [e.F y0] [e.G y0]
  simp only [List.map_cons, List.map_nil, ← I.F, ← I.G] at h
  simp only [h, wsum_equiv I.hom, ← I.hom.map_smul, ← I.hom.map_add]

theorem imexRK_equiv (nz : K → Bool) (dt : K) (t : Tableau K) :
    (imexRK nz e' dt t).isSome = (imexRK nz e dt t).isSome ∧
    ∀ s' s, imexRK nz e' dt t = some s' → imexRK nz e dt t = some s → ∀ u, s' (ρ u) = ρ (s u) := by
  unfold imexRK
  split
  · refine ⟨rfl, ?_⟩
    intro s' s h' h u
    simp only [Option.some.injEq] at h' h
    subst h' h
    exact imexRKStep_equiv I nz dt t u
  · exact ⟨rfl, fun s' s h' => by simp at h'⟩

end

/-! ### trajectories -/

/-- a whole run: any sequence of step functions and filters, each commuting with `ρ` -/
theorem run_equiv {X : Type} (ρ : X → X) (ops : List ((X → X) × (X → X)))
    (h : ∀ p ∈ ops, ∀ u, p.2 (ρ u) = ρ (p.1 u)) (u : X) :
    (ops.map Prod.snd).foldl (fun x f => f x) (ρ u) = ρ ((ops.map Prod.fst).foldl (fun x f => f x) u) := by
  induction ops generalizing u with
  | nil => rfl
  | cons p t ih =>
    simp only [List.map_cons, List.foldl_cons]
    rw [h p (List.mem_cons_self ..), ih (fun q hq => h q (List.mem_cons_of_mem _ hq))]

/-- `repeated(step, n)` / `trajectory_from_step`: `n` applications of the same (filtered) step -/
theorem iterate_equiv {X : Type} (ρ step step' : X → X) (h : ∀ u, step' (ρ u) = ρ (step u)) (n : ℕ)
    (u : X) : step'^[n] (ρ u) = ρ (step^[n] u) := by
  induction n generalizing u with
  | zero => rfl
  | succ n ih => rw [Function.iterate_succ_apply, Function.iterate_succ_apply, h, ih]

/-- `step_with_filters(step, filters)`: `u ↦ filter_k(u, … filter_1(u, step u))` -/
theorem stepWithFilters_equiv {X : Type} (ρ step step' : X → X) (filters : List ((X → X → X) × (X → X → X)))
    (h : ∀ u, step' (ρ u) = ρ (step u))
    (hf : ∀ p ∈ filters, ∀ u v, p.2 (ρ u) (ρ v) = ρ (p.1 u v)) (u : X) :
    (filters.map Prod.snd).foldl (fun x f => f (ρ u) x) (step' (ρ u))
      = ρ ((filters.map Prod.fst).foldl (fun x f => f u x) (step u)) := by
  rw [h]
  generalize step u = x
  induction filters generalizing x with
  | nil => rfl
  | cons p t ih =>
    simp only [List.map_cons, List.foldl_cons]
    rw [hf p (List.mem_cons_self ..), ih (fun q hq => hf q (List.mem_cons_of_mem _ hq))]

end Dino.Symmetry
