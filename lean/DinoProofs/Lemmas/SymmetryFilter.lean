import DinoProofs.Lemmas.SymmetryTraj

/-!
# Lemmas for C10, part 8: spectral filters along trajectories are conjugated

`HistRel` / `lfRel` ask that the filters of the two runs be conjugated by the symmetry.  The filters of
`filtering.py` (`exponential_filter`, `horizontal_diffusion_filter`) multiply every modal leaf of the state
by the same array (a function of the total wavenumber `l`) and leave the clock alone: on the abstract carrier
they are `leafFilter φ` for a linear map `φ : M → M`.  Such a filter is conjugated to ITSELF as soon as `φ`
commutes with the modal action `ρM` of the symmetry — a hypothesis of the same form as
`Equivariant.laplacian` (proved for the list model by `C10.rot_lMul_commutes` and
`C10.mirror_dDlon_lMul_commute`: every `l`-multiplier commutes with the rotation and with the mirror; validated
on the real filters by `harness/props/C10.py`, section (b), key `hyp:filter-commutes`).
-/
namespace Dino.Symmetry
open Dino Dino.Dynamics Dino.Imex Dino.Invariants

section leafFilter
variable {K M N : Type} [Field K] [AddCommGroup M] [Module K M] [CommRing N] [Algebra K N]

/-- a tree filter of `filtering.py` on a state with a clock: the same linear multiplier on every modal leaf;
 `sim_time` (a scalar: `_preserves_shape` fails) is returned unchanged -/
def leafFilter (φ : M →ₗ[K] M) (s : StateWithTime K M) : StateWithTime K M :=
  { state :=
      { vorticity := s.state.vorticity.map φ
        divergence := s.state.divergence.map φ
        temperatureVariation := s.state.temperatureVariation.map φ
        logSurfacePressure := φ s.state.logSurfacePressure
        tracers := mapTracers (fun x => x.map φ) s.state.tracers }
    simTime := s.simTime }

variable (S : Sym K M N)

/-- a leaf-wise linear filter whose multiplier commutes with `ρM` commutes with the lifted symmetry
 (vorticity transforms with the sign `ε`: linearity of `φ` takes it through) -/
theorem leafFilter_stateWithTime (φ : M →ₗ[K] M) (hφ : ∀ x, φ (S.ρM x) = S.ρM (φ x))
    (s : StateWithTime K M) :
    leafFilter φ (S.stateWithTime s) = S.stateWithTime (leafFilter φ s) := by
  have hO : ∀ x, φ (S.mO x) = S.mO (φ x) := fun x => by
    simp only [Sym.mO_apply, map_smul, hφ]
  have hE : ∀ x, φ (S.mE x) = S.mE (φ x) := fun x => by simp only [Sym.mE_apply, hφ]
  simp only [leafFilter, Sym.stateWithTime, Sym.state, List.map_map, mapTracers, hE]
  refine congrArg₂ StateWithTime.mk ?_ rfl
  refine State.mk.injEq .. |>.mpr ⟨?_, ?_, ?_, rfl, ?_⟩
  · exact List.map_congr_left fun x _ => hO x
  · exact List.map_congr_left fun x _ => hE x
  · exact List.map_congr_left fun x _ => hE x
  · refine List.map_congr_left fun kv _ => ?_
    simp only [Function.comp, List.map_map]
    exact congrArg (Prod.mk kv.1) (List.map_congr_left fun x _ => hE x)

/-- … hence on `tree_math` vectors: the filter is conjugated to itself, which is what `HistRel` asks -/
theorem leafFilter_conjugated (φ : M →ₗ[K] M) (hφ : ∀ x, φ (S.ρM x) = S.ρM (φ x))
    (u : TM (StateWithTime K M)) :
    tmMap (leafFilter φ) (tmState S u) = tmState S (tmMap (leafFilter φ) u) := by
  cases u with
  | zero => rfl
  | err => rfl
  | val s => simp only [tmState, tmMap_val, leafFilter_stateWithTime S φ hφ s]

theorem filters_conjugated (fs : List (M →ₗ[K] M)) (h : ∀ φ ∈ fs, ∀ x, φ (S.ρM x) = S.ρM (φ x)) :
    List.Forall₂ (fun f' f : TM (StateWithTime K M) → TM (StateWithTime K M) =>
        ∀ u, f' (tmState S u) = tmState S (f u))
      (fs.map fun φ => tmMap (leafFilter φ)) (fs.map fun φ => tmMap (leafFilter φ)) := by
  induction fs with
  | nil => exact List.Forall₂.nil
  | cons φ fs ihf =>
    exact List.Forall₂.cons (fun u => leafFilter_conjugated S φ (h φ List.mem_cons_self) u)
      (ihf fun ψ hψ => h ψ (List.mem_cons_of_mem _ hψ))

/-- a history whose filters are leaf-wise multipliers commuting with `ρM` is `HistRel`-related to itself -/
theorem histRel_leafFilters (hist : List (Scheme K × K × List (M →ₗ[K] M)))
    (hφ : ∀ en ∈ hist, ∀ φ ∈ en.2.2, ∀ x, φ (S.ρM x) = S.ρM (φ x)) :
    HistRel (tmState S)
      (hist.map fun en => ⟨en.1, en.2.1, en.2.2.map fun φ => tmMap (leafFilter φ)⟩)
      (hist.map fun en => ⟨en.1, en.2.1, en.2.2.map fun φ => tmMap (leafFilter φ)⟩) := by
  unfold HistRel
  induction hist with
  | nil => exact List.Forall₂.nil
  | cons en rest ih =>
    exact List.Forall₂.cons ⟨rfl, rfl, filters_conjugated S en.2.2 (hφ en List.mem_cons_self)⟩
      (ih fun e he => hφ e (List.mem_cons_of_mem _ he))

/-- the same for the state filters of a leapfrog run and any Robert–Asselin strengths -/
theorem lfRel_leafFilters (fs : List (Sum (M →ₗ[K] M) K))
    (hφ : ∀ f ∈ fs, ∀ φ, f = Sum.inl φ → ∀ x, φ (S.ρM x) = S.ρM (φ x)) :
    List.Forall₂ (lfRel (tmState S))
      (fs.map fun f => match f with
        | .inl φ => LfFilter.state (tmMap (leafFilter φ))
        | .inr r => LfFilter.ra r)
      (fs.map fun f => match f with
        | .inl φ => LfFilter.state (tmMap (leafFilter φ))
        | .inr r => LfFilter.ra r) := by
  induction fs with
  | nil => exact List.Forall₂.nil
  | cons f fs ih =>
    refine List.Forall₂.cons ?_ (ih fun g hg => hφ g (List.mem_cons_of_mem _ hg))
    cases f with
    | inl φ => exact fun u => leafFilter_conjugated S φ (hφ _ List.mem_cons_self φ rfl) u
    | inr r => exact rfl

end leafFilter
end Dino.Symmetry
