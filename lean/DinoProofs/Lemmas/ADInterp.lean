import DinoProofs.Lemmas.AD

/-!
# `linear_interp_with_linear_extrap` and `_linear_interp_with_safe_extrap` at dual numbers
(second-round additions for C08, T8.4)

With constant nodes:
* both routines are linear in the data with weights that depend on the nodes and the query only
  (`IsProj.linearExtrap_data`, `IsProj.safeInterp_data`);
* with respect to the query the value is the primal result and the tangent is the slope of the
  active cell — `cellSlope`: the cell `searchsorted` + `clip` selects, the two end cells being used
  for every query beyond the end nodes (extrapolation) — times the tangent of the query
  (`linearExtrap_dual_query`, `safeInterp_dual_query`); for the safe variant the cells are those of
  the padded node set, and `cellSlope_padN` shows that padding does not change the slope.
-/
set_option linter.unusedSectionVars false
set_option linter.unusedSimpArgs false
set_option linter.unusedVariables false

namespace Dino.AD
open Dino Dual Interp

section defs
variable {K : Type} [Field K] [LinearOrder K] [IsStrictOrderedRing K]

/-- slope of cell `j` (nodes `j`, `j + 1`) -/
def slopeAt (xp fp : List K) (j : Nat) : K :=
  (fp.getD (j + 1) 0 - fp.getD j 0) / (xp.getD (j + 1) 0 - xp.getD j 0)

/-- slope of the cell that `searchsorted(side='right')` + `clip(·, 1, n-1)` selects for `x`; beyond
 the end nodes this is the first / last cell (linear extrapolation) -/
def cellSlope (xp fp : List K) (x : K) : K := slopeAt xp fp (cellIdx xp x - 1)

/-- the derivative of `interpCore` (the body of `jnp.interp`) with respect to the query as the dual
 evaluation computes it: zero on the guarded branch -/
def coreSlope (eps : K) (xp fp : List K) (x : K) : K :=
  if ¬ eps < Interp.absK (xp.getD (cellIdx xp x) 0 - xp.getD (cellIdx xp x - 1) 0) then 0
  else (fp.getD (cellIdx xp x) 0 - fp.getD (cellIdx xp x - 1) 0)
        / (xp.getD (cellIdx xp x) 0 - xp.getD (cellIdx xp x - 1) 0)

/-- the weight vector of `linWeights` with the two per-side lists made explicit -/
def twoPoint (wl wr : List K) (u : Nat) (n : Nat) : List K :=
  (List.range n).map fun (i : Nat) =>
    wl.getD i 0 * ind (decide ((i : Int) = (u : Int) - 1)) + wr.getD i 0 * ind (decide ((i : Int) = (u : Int)))

theorem linWeights_eq_twoPoint (xp : List K) (x : K) :
    linWeights xp x = twoPoint ((cellWeights xp x).map (fun t => 1 - t) ++ [0]) (0 :: cellWeights xp x)
      (cellIdx xp x) xp.length := rfl

/-- a two-point weight vector picks the two entries -/
theorem dot_twoPoint (wl wr fp : List K) (u n : Nat) (hl : fp.length = n) (hu1 : 1 ≤ u) (hu2 : u < n) :
    dot (twoPoint wl wr u n) fp = wl.getD (u - 1) 0 * fp.getD (u - 1) 0 + wr.getD u 0 * fp.getD u 0 := by
  unfold twoPoint
  rw [dot_map_range _ _ fp hl]
  have key : ∀ i : Nat,
      (wl.getD i 0 * ind (decide ((i : Int) = (u : Int) - 1))
        + wr.getD i 0 * ind (decide ((i : Int) = (u : Int)))) * fp.getD i 0
      = (if i = u - 1 then wl.getD (u - 1) 0 * fp.getD (u - 1) 0 else 0)
        + (if i = u then wr.getD u 0 * fp.getD u 0 else 0) := by
    intro i
    have e1 : (ind (decide ((i : Int) = (u : Int) - 1)) : K) = if i = u - 1 then 1 else 0 := by
      by_cases h : i = u - 1
      · have h' : (i : Int) = (u : Int) - 1 := by omega
        rw [if_pos h]; simp [ind, h']
      · have h' : ¬ (i : Int) = (u : Int) - 1 := by omega
        rw [if_neg h]; simp [ind, h']
    have e2 : (ind (decide ((i : Int) = (u : Int))) : K) = if i = u then 1 else 0 := by
      by_cases h : i = u
      · simp [ind, h]
      · have h' : ¬ (i : Int) = (u : Int) := by omega
        simp [ind, h, h']
    rw [e1, e2]
    by_cases h1 : i = u - 1
    · have h2 : i ≠ u := by omega
      rw [if_pos h1, if_neg h2, if_pos h1, if_neg h2, h1]
      ring
    · by_cases h2 : i = u
      · rw [if_neg h1, if_pos h2, if_neg h1, if_pos h2, h2]
        ring
      · rw [if_neg h1, if_neg h2, if_neg h1, if_neg h2]
        ring
  rw [List.map_congr_left (fun i _ => key i), List.sum_map_add,
    sum_range_ite _ (u - 1) (fun _ => wl.getD (u - 1) 0 * fp.getD (u - 1) 0) (by omega),
    sum_range_ite _ u (fun _ => wr.getD u 0 * fp.getD u 0) (by omega)]

end defs

/-! ## the weights at dual numbers -/
section weights
variable {K : Type} [Field K] [LinearOrder K] [IsStrictOrderedRing K]

theorem ind_const (b : Bool) : (ind b : Dual K) = const (ind b) := by
  cases b <;> rfl

theorem constL_getD' (s : List K) (i : Nat) (d : K) :
    (constL s).getD i (const d) = const (s.getD i d) := by
  simp only [constL, List.getD_eq_getElem?_getD, List.getElem?_map]
  cases s[i]? <;> rfl

@[simp] theorem constL_length' (x : List K) : (constL x).length = x.length := by simp [constL]

/-- the cell weights `(x − x_j)/(x_{j+1} − x_j)` with constant nodes and a dual query -/
theorem cellWeights_dual (xp : List K) (X : Dual K) :
    cellWeights (constL xp) X
      = List.zipWith (fun a b => (⟨(X.v - a) / (b - a), X.d * (b - a) / ((b - a) * (b - a))⟩ : Dual K))
          xp xp.tail := by
  unfold cellWeights constL
  rw [← List.map_tail, List.zipWith_map]
  congr 1
  funext a b
  apply Dual.ext <;> simp

theorem cellWeights_dual_v (xp : List K) (X : Dual K) :
    (cellWeights (constL xp) X).map Dual.v = cellWeights xp X.v := by
  rw [cellWeights_dual, List.map_zipWith]; rfl

theorem cellWeights_dual_getD (xp : List K) (X : Dual K) (j : Nat) (hj : j + 1 < xp.length) :
    (cellWeights (constL xp) X).getD j 0
      = ⟨(X.v - xp.getD j 0) / (xp.getD (j + 1) 0 - xp.getD j 0),
         X.d * (xp.getD (j + 1) 0 - xp.getD j 0)
           / ((xp.getD (j + 1) 0 - xp.getD j 0) * (xp.getD (j + 1) 0 - xp.getD j 0))⟩ := by
  rw [cellWeights_dual]
  have h1 : j < (List.zipWith (fun a b => (⟨(X.v - a) / (b - a), X.d * (b - a) / ((b - a) * (b - a))⟩ : Dual K))
      xp xp.tail).length := by simp; omega
  rw [List.getD_eq_getElem _ _ h1]
  simp only [List.getElem_zipWith, List.getElem_tail]
  rw [List.getD_eq_getElem _ _ hj, List.getD_eq_getElem _ _ (by omega : j < xp.length)]

theorem cellWeights_dual_length (xp : List K) (X : Dual K) :
    (cellWeights (constL xp) X).length = xp.length - 1 := by
  simp [cellWeights, constL]

variable {φ : Dual K → K} (hφ : IsProj φ)
include hφ

/-- the weight vector of `linear_interp_with_linear_extrap` with constant nodes under a projection -/
theorem IsProj.linWeights_dual (xp : List K) (X : Dual K) :
    (linWeights (constL xp) X).map φ
      = twoPoint (((cellWeights (constL xp) X).map (fun t => 1 - t) ++ [0]).map φ)
          (((0 : Dual K) :: cellWeights (constL xp) X).map φ) (cellIdx xp X.v) xp.length := by
  unfold linWeights twoPoint
  simp only [cellIdx_constL, constL_length', List.map_map, Function.comp_def]
  apply List.map_congr_left
  intro i _
  rw [hφ.add, ind_const, ind_const, hφ.mul_const, hφ.mul_const, hφ.getD, hφ.getD]

/-- `jnp.dot(weights, fp)` with constant data -/
theorem IsProj.dot_constR (W : List (Dual K)) (fp : List K) :
    φ (dot W (constL fp)) = dot (W.map φ) fp := by
  unfold dot
  rw [hφ.sum, hφ.zipMul_constR]

/-- `jnp.dot(weights, fp)` with constant weights -/
theorem IsProj.dot_constL (w : List K) (FP : List (Dual K)) :
    φ (dot (constL w) FP) = dot w (FP.map φ) := by
  unfold dot
  rw [hφ.sum, hφ.zipMul_constL]

end weights

/-! ## `linear_interp_with_linear_extrap` -/
section linext
variable {K : Type} [Field K] [LinearOrder K] [IsStrictOrderedRing K]

/-- with a constant query the weights are constants -/
theorem linWeights_constL (xp : List K) (x : K) :
    linWeights (constL xp) (const x) = constL (linWeights xp x) := by
  have hw : cellWeights (constL xp) (const x) = constL (cellWeights xp x) := by
    rw [cellWeights_dual]
    unfold cellWeights constL
    rw [List.map_zipWith]
    congr 1
    funext a b
    apply Dual.ext <;> simp
  have hwl : (constL (cellWeights xp x)).map (fun t => 1 - t) ++ [(0 : Dual K)]
      = constL ((cellWeights xp x).map (fun t => 1 - t) ++ [0]) := by
    simp only [constL, List.map_append, List.map_map, Function.comp_def, List.map_cons, List.map_nil,
      ← const_one, const_sub]
    rfl
  have hwr : (0 : Dual K) :: constL (cellWeights xp x) = constL (0 :: cellWeights xp x) := rfl
  unfold linWeights
  simp only [hw, cellIdx_constL, constL_length', const_v, hwl, hwr]
  show _ = List.map const _
  rw [List.map_map]
  apply List.map_congr_left
  intro i _
  simp only [Function.comp, constL_getD, ind_const, Dual.const_mul, const_add]

variable {φ : Dual K → K} (hφ : IsProj φ)

include hφ in
/-- **derivative of `linear_interp_with_linear_extrap` with respect to the data**: under every
 `K`-module projection (value, tangent) the dual evaluation is the same interpolation — same nodes,
 same query, hence the same weights — of the projected data -/
theorem IsProj.linearExtrap_data (xp : List K) (FP : List (Dual K)) (x : K) :
    φ (linearExtrap (constL xp) FP (const x)) = linearExtrap xp (FP.map φ) x := by
  unfold linearExtrap
  rw [linWeights_constL, hφ.dot_constL]

/-- value of `linear_interp_with_linear_extrap` at a dual query = the primal result -/
theorem linearExtrap_dual_query_v (xp fp : List K) (X : Dual K) :
    (linearExtrap (constL xp) (constL fp) X).v = linearExtrap xp fp X.v := by
  unfold linearExtrap
  rw [isProj_v.dot_constR, isProj_v.linWeights_dual, linWeights_eq_twoPoint, ← cellWeights_dual_v xp X]
  congr 1
  simp [List.map_map, Function.comp_def]

/-- **derivative of `linear_interp_with_linear_extrap` with respect to the query**: the tangent is
 the slope of the active cell (the first / last cell for a query beyond the end nodes: this routine
 extrapolates) times the tangent of the query; `hne`: the two nodes of that cell are distinct -/
theorem linearExtrap_dual_query_d (xp fp : List K) (X : Dual K) (hl : xp.length = fp.length)
    (hn : 2 ≤ xp.length)
    (hne : xp.getD (cellIdx xp X.v) 0 - xp.getD (cellIdx xp X.v - 1) 0 ≠ 0) :
    (linearExtrap (constL xp) (constL fp) X).d = cellSlope xp fp X.v * X.d := by
  obtain ⟨hu1, hu2⟩ := cellIdx_bounds xp X.v hn
  unfold linearExtrap cellSlope slopeAt
  rw [isProj_d.dot_constR, isProj_d.linWeights_dual, dot_twoPoint _ _ fp _ _ hl.symm hu1 (by omega)]
  generalize cellIdx xp X.v = u at hu1 hu2 hne ⊢
  have hW := cellWeights_dual_getD xp X (u - 1) (by omega)
  have hWl := cellWeights_dual_length xp X
  have e1 : (((cellWeights (constL xp) X).map (fun t => 1 - t) ++ [0]).map Dual.d).getD (u - 1) 0
      = - ((cellWeights (constL xp) X).getD (u - 1) 0).d := by
    rw [← isProj_d.getD, List.getD_append _ _ _ _ (by simp [hWl]; omega),
      List.getD_eq_getElem _ _ (by simp [hWl]; omega)]
    simp only [List.getElem_map]
    rw [List.getD_eq_getElem _ _ (by rw [hWl]; omega)]
    simp
  have e2 : (((0 : Dual K) :: cellWeights (constL xp) X).map Dual.d).getD u 0
      = ((cellWeights (constL xp) X).getD (u - 1) 0).d := by
    rw [← isProj_d.getD]
    obtain ⟨w, rfl⟩ : ∃ w, u = w + 1 := ⟨u - 1, by omega⟩
    rw [List.getD_cons_succ]
    simp
  have e3 : u - 1 + 1 = u := by omega
  rw [e1, e2, hW, e3]
  simp only [mk_d]
  field_simp
  ring

end linext

/-! ## `_linear_interp_with_safe_extrap`: padding, `jnp.interp(left=nan, right=nan)` -/
section safe
variable {K : Type} [Field K] [LinearOrder K] [IsStrictOrderedRing K]

/-- the body of `jnp.interp` with constant nodes and guard: the branch depends on the value of the
 query only -/
theorem interpCore_dual_normal (eps : K) (xp : List K) (FP : List (Dual K)) (X : Dual K) :
    interpCore (const eps) (constL xp) FP X
      = if ¬ eps < Interp.absK (xp.getD (cellIdx xp X.v) 0 - xp.getD (cellIdx xp X.v - 1) 0)
        then FP.getD (cellIdx xp X.v - 1) 0
        else FP.getD (cellIdx xp X.v - 1) 0
          + ((X - const (xp.getD (cellIdx xp X.v - 1) 0))
              / const (xp.getD (cellIdx xp X.v) 0 - xp.getD (cellIdx xp X.v - 1) 0))
            * (FP.getD (cellIdx xp X.v) 0 - FP.getD (cellIdx xp X.v - 1) 0) := by
  unfold interpCore
  simp only [cellIdx_constL, constL_getD, const_sub, absK_const]
  have e3 : ∀ a b : K, ((const a : Dual K) < const b) = (a < b) := fun _ _ => rfl
  simp only [e3, decide_not, Bool.not_eq_eq_eq_not, Bool.not_true, decide_eq_false_iff_not, ite_not]
  split_ifs <;> rfl

theorem interpCore_normal (eps : K) (xp fp : List K) (x : K) :
    interpCore eps xp fp x
      = if ¬ eps < Interp.absK (xp.getD (cellIdx xp x) 0 - xp.getD (cellIdx xp x - 1) 0)
        then fp.getD (cellIdx xp x - 1) 0
        else fp.getD (cellIdx xp x - 1) 0
          + ((x - xp.getD (cellIdx xp x - 1) 0)
              / (xp.getD (cellIdx xp x) 0 - xp.getD (cellIdx xp x - 1) 0))
            * (fp.getD (cellIdx xp x) 0 - fp.getD (cellIdx xp x - 1) 0) := by
  unfold interpCore
  simp only [decide_not, Bool.not_eq_eq_eq_not, Bool.not_true, decide_eq_false_iff_not, ite_not]
  split_ifs <;> rfl

theorem interpNan_dual_normal (eps : K) (xp : List K) (FP : List (Dual K)) (X : Dual K) :
    interpNan (const eps) (constL xp) FP X
      = if xp.getLastD 0 < X.v then none
        else if X.v < xp.headD 0 then none
        else some (interpCore (const eps) (constL xp) FP X) := by
  unfold interpNan
  simp only [constL_headD, constL_getLastD]
  have e1 : ∀ a : K, (const a < X) = (a < X.v) := fun _ => rfl
  have e2 : ∀ a : K, (X < const a) = (X.v < a) := fun _ => rfl
  simp only [e1, e2]

theorem interpNan_dual_const (eps : K) (xp : List K) (FP : List (Dual K)) (x : K) :
    interpNan (const eps) (constL xp) FP (const x)
      = if xp.getLastD 0 < x then none
        else if x < xp.headD 0 then none
        else some (interpCore (const eps) (constL xp) FP (const x)) :=
  interpNan_dual_normal eps xp FP (const x)

theorem interpNan_normal (eps : K) (xp fp : List K) (x : K) :
    interpNan eps xp fp x
      = if xp.getLastD 0 < x then none
        else if x < xp.headD 0 then none
        else some (interpCore eps xp fp x) := by
  unfold interpNan
  split_ifs <;> rfl

theorem extrapLeft_constL (y : List K) : extrapLeft (constL y) = constL (extrapLeft y) := by
  unfold extrapLeft
  rw [constL_headD, constL_getD', const_sub, const_sub]
  rfl

theorem extrapRight_constL (y : List K) : extrapRight (constL y) = constL (extrapRight y) := by
  unfold extrapRight
  rw [constL_getLastD, constL_length', constL_getD, const_sub, const_add, constL]
  simp [constL]

theorem padN_constL (k : Nat) (y : List K) : padN k (constL y) = constL (padN k y) := by
  induction k generalizing y with
  | zero => rfl
  | succ k ih =>
    show padN k (extrapBoth (constL y)) = constL (padN k (extrapBoth y))
    unfold extrapBoth
    rw [extrapRight_constL, extrapLeft_constL, ih]

/-- dual evaluation of the body of `jnp.interp` at a dual query, constant nodes and data -/
theorem interpCore_dual_query {eps : K} (h0 : 0 ≤ eps) (xp fp : List K) (X : Dual K) :
    (interpCore (const eps) (constL xp) (constL fp) X).v = interpCore eps xp fp X.v ∧
    (interpCore (const eps) (constL xp) (constL fp) X).d = coreSlope eps xp fp X.v * X.d := by
  rw [interpCore_dual_normal, interpCore_normal]
  unfold coreSlope
  simp only [constL_getD]
  by_cases h3 : eps < Interp.absK (xp.getD (cellIdx xp X.v) 0 - xp.getD (cellIdx xp X.v - 1) 0)
  · have hb : xp.getD (cellIdx xp X.v) 0 - xp.getD (cellIdx xp X.v - 1) 0 ≠ 0 := by
      intro hz
      rw [hz] at h3
      unfold Interp.absK at h3
      simp at h3
      exact absurd h3 (not_lt.mpr h0)
    simp only [h3, not_true_eq_false, ↓reduceIte]
    constructor
    · simp
    · simp only [add_d, const_d, mul_d, div_d, sub_d, sub_v, const_v, div_v, mul_zero, sub_zero,
        zero_add, add_zero]
      field_simp
  · simp only [h3, not_false_eq_true, ↓reduceIte, const_v, const_d, zero_mul, and_self]

/-- **derivative of `_linear_interp_with_safe_extrap(n = k)` with respect to the query**: the result
 is NaN (`none`) exactly where the primal result is; elsewhere the value is the primal result and
 the tangent is the slope (`coreSlope`) of the active cell of the padded node set — which includes
 the `k` extrapolating cells added at each end — times the tangent of the query -/
theorem safeInterp_dual_query {eps : K} (h0 : 0 ≤ eps) (k : Nat) (xp fp : List K) (X : Dual K) :
    (safeInterp (const eps) k (constL xp) (constL fp) X).map Dual.v = safeInterp eps k xp fp X.v ∧
    (safeInterp (const eps) k (constL xp) (constL fp) X).map Dual.d
      = (safeInterp eps k xp fp X.v).map
          (fun _ => coreSlope eps (padN k xp) (padN k fp) X.v * X.d) := by
  unfold safeInterp
  rw [padN_constL, padN_constL, interpNan_dual_normal, interpNan_normal]
  obtain ⟨hv, hd⟩ := interpCore_dual_query h0 (padN k xp) (padN k fp) X
  split_ifs <;> simp [hv, hd]

variable {φ : Dual K → K} (hφ : IsProj φ)
include hφ

theorem IsProj.getD' (L : List (Dual K)) (i : Nat) (d : Dual K) :
    φ (L.getD i d) = (L.map φ).getD i (φ d) := by
  simp only [List.getD_eq_getElem?_getD, List.getElem?_map]
  cases L[i]? <;> rfl

theorem IsProj.extrapLeft (Y : List (Dual K)) : (extrapLeft Y).map φ = extrapLeft (Y.map φ) := by
  unfold Interp.extrapLeft
  rw [List.map_cons, hφ.sub, hφ.sub, hφ.headD, hφ.getD', hφ.headD]

theorem IsProj.extrapRight (Y : List (Dual K)) : (extrapRight Y).map φ = extrapRight (Y.map φ) := by
  unfold Interp.extrapRight
  rw [List.map_append, List.map_cons, List.map_nil, hφ.add, hφ.sub, hφ.getLastD, hφ.getD,
    List.length_map]

theorem IsProj.padN (k : Nat) (Y : List (Dual K)) : (padN k Y).map φ = padN k (Y.map φ) := by
  induction k generalizing Y with
  | zero => rfl
  | succ k ih =>
    show (Interp.padN k (extrapBoth Y)).map φ = Interp.padN k (extrapBoth (Y.map φ))
    rw [ih]
    unfold extrapBoth
    rw [hφ.extrapLeft, hφ.extrapRight]

/-- the body of `jnp.interp` is linear in the data -/
theorem IsProj.interpCore_data (eps : K) (xp : List K) (FP : List (Dual K)) (x : K) :
    φ (interpCore (const eps) (constL xp) FP (const x)) = interpCore eps xp (FP.map φ) x := by
  rw [interpCore_dual_normal, interpCore_normal]
  simp only [const_v]
  by_cases h3 : eps < Interp.absK (xp.getD (cellIdx xp x) 0 - xp.getD (cellIdx xp x - 1) 0)
  · simp only [h3, not_true_eq_false, ↓reduceIte]
    rw [hφ.add, const_sub, const_div, hφ.const_mul, hφ.sub, hφ.getD, hφ.getD]
  · simp only [h3, not_false_eq_true, ↓reduceIte]; exact hφ.getD FP _

/-- **derivative of `_linear_interp_with_safe_extrap(n = k)` with respect to the data**: NaN where
 the primal result is NaN, elsewhere the same interpolation (same padded nodes, same query, hence
 the same weights) of the projected data -/
theorem IsProj.safeInterp_data (eps : K) (k : Nat) (xp : List K) (FP : List (Dual K)) (x : K) :
    (safeInterp (const eps) k (constL xp) FP (const x)).map φ
      = safeInterp eps k xp (FP.map φ) x := by
  unfold safeInterp
  rw [padN_constL, interpNan_dual_const, interpNan_normal, ← hφ.padN]
  by_cases h1 : (Interp.padN k xp).getLastD 0 < x
  · rw [if_pos h1, if_pos h1]; rfl
  · rw [if_neg h1, if_neg h1]
    by_cases h2 : x < (Interp.padN k xp).headD 0
    · rw [if_pos h2, if_pos h2]; rfl
    · rw [if_neg h2, if_neg h2, Option.map_some, hφ.interpCore_data]

end safe

/-! ## padding does not change the slope of the active cell -/
section slopes
variable {K : Type} [Field K] [LinearOrder K] [IsStrictOrderedRing K]

/-- on separated nodes the guard of `jnp.interp` never triggers: the tangent slope of `interpCore`
 is the slope of the selected cell -/
theorem coreSlope_eq_cellSlope {eps : K} {xp : List K} (h0 : 0 ≤ eps) (hs : Sep eps xp)
    (hn : 2 ≤ xp.length) (fp : List K) (x : K) : coreSlope eps xp fp x = cellSlope xp fp x := by
  obtain ⟨hu1, hu2⟩ := cellIdx_bounds xp x hn
  unfold coreSlope cellSlope slopeAt
  generalize cellIdx xp x = u at hu1 hu2 ⊢
  have hgap := hs (u - 1) (by omega)
  have hpos := hs.gap_pos h0 (j := u - 1) (by omega)
  have e1 : u - 1 + 1 = u := by omega
  rw [e1] at hgap hpos ⊢
  have habs : Interp.absK (xp.getD u 0 - xp.getD (u - 1) 0) = xp.getD u 0 - xp.getD (u - 1) 0 := by
    unfold Interp.absK; rw [if_neg (not_lt.mpr hpos.le)]
  rw [habs, if_neg (not_not.mpr hgap)]

theorem ssr_append_singleton (xp : List K) (r x : K) :
    ssr (xp ++ [r]) x = ssr xp x + (if r ≤ x then 1 else 0) := by
  simp [ssr, List.countP_append, List.countP_cons]

/-- one more cell on the left, continuing the line of the first cell: same slope everywhere -/
theorem cellSlope_extrapLeft {xp fp : List K} (hi : Inc xp) (hl : xp.length = fp.length)
    (hn : 2 ≤ xp.length) (x : K) :
    cellSlope (extrapLeft xp) (extrapLeft fp) x = cellSlope xp fp x := by
  match xp, fp, hl, hn with
  | a :: b :: t, f0 :: f1 :: ft, hl, _ =>
    rw [extrapLeft_cons2, extrapLeft_cons2]
    have hab : a < b := hi.head_lt
    have hk := ssr_le_length (a :: b :: t) x
    have hlen : (a :: b :: t).length = t.length + 2 := by simp
    unfold cellSlope
    by_cases h0 : ssr (a :: b :: t) x = 0
    · -- the query is to the left of the first node: both pick their first cell
      have hc : cellIdx (a :: b :: t) x = 1 := by unfold cellIdx clipIdx; omega
      have hc' : cellIdx ((a - (b - a)) :: a :: b :: t) x = 1 := by
        unfold cellIdx clipIdx
        rw [ssr_cons]
        simp only [List.length_cons] at hlen ⊢
        split <;> omega
      rw [hc, hc']
      simp only [slopeAt, Nat.sub_self, Nat.zero_add, List.getD_cons_zero, List.getD_cons_succ]
      rw [sub_sub_cancel, sub_sub_cancel]
    · have hax : a ≤ x := by
        have := (ssr_spec hi x (j := 0) (by simp)).mp (by omega)
        simpa using this
      have hle : a - (b - a) ≤ x := by linarith
      have hc' : cellIdx ((a - (b - a)) :: a :: b :: t) x = cellIdx (a :: b :: t) x + 1 := by
        unfold cellIdx clipIdx
        rw [ssr_cons, if_pos hle]
        simp only [List.length_cons] at hlen hk ⊢
        omega
      have hb := cellIdx_bounds (a :: b :: t) x (by simp)
      rw [hc']
      obtain ⟨w, hw⟩ : ∃ w, cellIdx (a :: b :: t) x = w + 1 := ⟨cellIdx (a :: b :: t) x - 1, by omega⟩
      rw [hw]
      simp only [slopeAt, Nat.add_sub_cancel, List.getD_cons_succ]

/-- one more cell on the right, continuing the line of the last cell: same slope everywhere -/
theorem cellSlope_extrapRight {xp fp : List K} (hi : Inc xp) (hl : xp.length = fp.length)
    (hn : 2 ≤ xp.length) (x : K) :
    cellSlope (extrapRight xp) (extrapRight fp) x = cellSlope xp fp x := by
  rw [extrapRight_eq, extrapRight_eq, ← hl]
  set n := xp.length with hnn
  have hgap : xp.getD (n - 2) 0 < xp.getD (n - 1) 0 := hi.getD_lt (by omega) (by omega)
  set r := xp.getD (n - 1) 0 + (xp.getD (n - 1) 0 - xp.getD (n - 2) 0) with hr
  set s := fp.getD (n - 1) 0 + (fp.getD (n - 1) 0 - fp.getD (n - 2) 0) with hs
  have hk := ssr_le_length xp x
  have g1 : ∀ i, i < n → (xp ++ [r]).getD i 0 = xp.getD i 0 := fun i h => List.getD_append _ _ _ _ h
  have g2 : ∀ i, i < n → (fp ++ [s]).getD i 0 = fp.getD i 0 :=
    fun i h => List.getD_append _ _ _ _ (by omega)
  have g3 : (xp ++ [r]).getD n 0 = r := by
    rw [List.getD_append_right _ _ _ _ (le_refl _)]; simp
  have g4 : (fp ++ [s]).getD n 0 = s := by
    rw [List.getD_append_right _ _ _ _ (by omega)]
    have : n - fp.length = 0 := by omega
    rw [this]; simp
  have hlen' : (xp ++ [r]).length = n + 1 := by
    simp only [List.length_append, List.length_singleton]; rfl
  unfold cellSlope
  by_cases hcase : ssr xp x = n
  · -- at or beyond the last node: the new last cell, whose slope is that of the old last cell
    have hc : cellIdx xp x = n - 1 := by unfold cellIdx clipIdx; omega
    have hc' : cellIdx (xp ++ [r]) x = n := by
      unfold cellIdx clipIdx
      rw [ssr_append_singleton, hlen']
      split <;> omega
    rw [hc, hc']
    unfold slopeAt
    rw [show n - 1 + 1 = n by omega, show n - 1 - 1 + 1 = n - 1 by omega, show n - 1 - 1 = n - 2 by omega,
      g3, g4, g1 _ (by omega), g2 _ (by omega), hr, hs]
    congr 1 <;> ring
  · have hlt : ssr xp x < n := by omega
    have hxl : x < xp.getD (n - 1) 0 := by
      have := (ssr_spec hi x (j := n - 1) (by omega)).not
      exact not_le.mp (this.mp (by omega))
    have hrx : ¬ r ≤ x := by rw [hr]; intro h; linarith
    have hc' : cellIdx (xp ++ [r]) x = cellIdx xp x := by
      unfold cellIdx clipIdx
      rw [ssr_append_singleton, hlen', if_neg hrx]
      omega
    have hb := cellIdx_bounds xp x hn
    rw [hc']
    unfold slopeAt
    rw [g1 _ (by omega), g1 _ (by omega), g2 _ (by omega), g2 _ (by omega)]

theorem cellSlope_extrapBoth {eps : K} {xp fp : List K} (h0 : 0 ≤ eps) (hs : Sep eps xp)
    (hl : xp.length = fp.length) (hn : 2 ≤ xp.length) (x : K) :
    cellSlope (extrapBoth xp) (extrapBoth fp) x = cellSlope xp fp x := by
  have hsr : Sep eps (Interp.extrapRight xp) := hs.extrapRight hn
  have hnr : 2 ≤ (Interp.extrapRight xp).length := by rw [extrapRight_length]; omega
  have hlr : (Interp.extrapRight xp).length = (Interp.extrapRight fp).length := by
    rw [extrapRight_length, extrapRight_length, hl]
  unfold extrapBoth
  rw [cellSlope_extrapLeft (hsr.inc h0) hlr hnr, cellSlope_extrapRight (hs.inc h0) hl hn]

/-- `k` paddings at both ends do not change the slope of the active cell: at every query the cell
 of the padded node set has the slope of the cell of the original node set (the end cells of the
 original set being continued outwards) -/
theorem cellSlope_padN {eps : K} (h0 : 0 ≤ eps) : ∀ (k : Nat) (xp fp : List K), Sep eps xp →
    xp.length = fp.length → 2 ≤ xp.length → ∀ x,
    cellSlope (padN k xp) (padN k fp) x = cellSlope xp fp x := by
  intro k
  induction k with
  | zero => intro xp fp _ _ _ x; rfl
  | succ k ih =>
    intro xp fp hs hl hn x
    have S1 := extrapBoth_spec h0 hs hl hn
    show cellSlope (padN k (extrapBoth xp)) (padN k (extrapBoth fp)) x = _
    rw [ih (extrapBoth xp) (extrapBoth fp) S1.sep S1.len S1.two, cellSlope_extrapBoth h0 hs hl hn]

/-- the tangent slope of `_linear_interp_with_safe_extrap(n = k)` is the slope of the active cell
 of the ORIGINAL node set, the end cells extrapolating -/
theorem coreSlope_padN {eps : K} (h0 : 0 ≤ eps) {xp fp : List K} (hs : Sep eps xp)
    (hl : xp.length = fp.length) (hn : 2 ≤ xp.length) (k : Nat) (x : K) :
    coreSlope eps (padN k xp) (padN k fp) x = cellSlope xp fp x := by
  have S := padN_spec h0 k xp fp hs hl hn
  rw [coreSlope_eq_cellSlope h0 S.sep S.two, cellSlope_padN h0 k xp fp hs hl hn]

end slopes

end Dino.AD
