import DinoProofs.Lemmas.ShardBlock

/-!
# The collectives on ARRAYS of a fixed shape (C07, T7.1 / T7.2 — shapes are part of the conclusion)

`allgatherMatmul_unsharded` / `matmulReducescatter_unsharded` read the chunk products entrywise (`ent2`, functions
`ℕ → ℕ → K` with default `0`), because the generic schedule theorems need the accumulator to be a commutative monoid
and lists of lists under `zipWith` are not one (no neutral element for all shapes).  Lists of lists of ONE FIXED
shape `r × w` are: `ShapedMat K r w`.  Every chunk product the two collectives form has that shape
(`r` = rows of an output shard, `w` = width of the inputs), so the schedules can be run with the accumulator
`ShapedMat K r w`, whose `+` is the `zipWith`-addition of the executable model (`accum += …`), and the conclusion
becomes an equality of arrays (lists of rows), shapes included.
-/
namespace Dino.Shard
open Finset Dino.Lin

variable {K : Type} [CommRing K]

/-- two arrays of the same shape with the same entries are equal -/
theorem mat_ext_of_ent2 (a b : List (List K)) (r w : Nat) (ha : a.length = r) (hb : b.length = r)
    (haw : ∀ row ∈ a, row.length = w) (hbw : ∀ row ∈ b, row.length = w) (h : ent2 a = ent2 b) : a = b := by
  apply List.ext_getElem (by omega)
  intro i h1 h2
  apply List.ext_getElem (by rw [haw _ (List.getElem_mem _), hbw _ (List.getElem_mem _)])
  intro j h3 h4
  have := congrFun (congrFun h i) j
  simpa [ent2, List.getD_eq_getElem?_getD, List.getElem?_eq_getElem, h1, h2, h3, h4] using this

/-- entries outside the shape read as `0` -/
theorem ent2_outside (a : List (List K)) (r w : Nat) (ha : a.length = r) (haw : ∀ row ∈ a, row.length = w)
    (i j : Nat) (h : r ≤ i ∨ w ≤ j) : ent2 a i j = 0 := by
  by_cases hi : i < r
  · have hj : w ≤ j := by omega
    have h1 : i < a.length := by omega
    simp only [ent2, List.getD_eq_getElem?_getD]
    rw [List.getElem?_eq_getElem h1]
    simp only [Option.getD_some]
    rw [List.getElem?_eq_none (by rw [haw _ (List.getElem_mem _)]; exact hj)]
    rfl
  · simp only [ent2, List.getD_eq_getElem?_getD]
    rw [List.getElem?_eq_none (l := a) (by omega)]
    simp

theorem ent2_zipWith_vadd (a b : List (List K)) (r w : Nat) (ha : a.length = r) (hb : b.length = r)
    (haw : ∀ row ∈ a, row.length = w) (hbw : ∀ row ∈ b, row.length = w) (i j : Nat) :
    ent2 (List.zipWith vadd a b) i j = ent2 a i j + ent2 b i j := by
  by_cases hi : i < r
  · have h1 : i < a.length := by omega
    have h2 : i < b.length := by omega
    simp only [ent2_eq_ent, List.getD_eq_getElem?_getD]
    rw [List.getElem?_eq_getElem (by simp; omega), List.getElem?_eq_getElem h1, List.getElem?_eq_getElem h2]
    simp only [Option.getD_some, List.getElem_zipWith]
    exact ent_vadd _ _ j (by rw [haw _ (List.getElem_mem _), hbw _ (List.getElem_mem _)])
  · simp only [ent2, List.getD_eq_getElem?_getD]
    rw [List.getElem?_eq_none (l := List.zipWith vadd a b) (by simp; omega), List.getElem?_eq_none (l := a) (by omega),
      List.getElem?_eq_none (l := b) (by omega)]
    simp

/-- arrays (lists of rows) with exactly `r` rows of width `w` -/
structure ShapedMat (K : Type) (r w : Nat) where
  /-- the underlying list of rows -/
  val : List (List K)
  length_val : val.length = r
  rows_val : ∀ row ∈ val, row.length = w

namespace ShapedMat
variable {r w : Nat}

omit [CommRing K] in
theorem ext_val : ∀ (a b : ShapedMat K r w), a.val = b.val → a = b
  | ⟨_, _, _⟩, ⟨_, _, _⟩, rfl => rfl

/-- `accum + chunk_product` of the executable model: rowwise `zipWith (· + ·)` -/
instance : Add (ShapedMat K r w) :=
  ⟨fun a b => ⟨List.zipWith vadd a.val b.val, by simp [a.length_val, b.length_val], by
    intro row hrow
    rw [List.mem_iff_getElem] at hrow
    obtain ⟨i, hi, rfl⟩ := hrow
    simp only [List.length_zipWith] at hi
    simp only [List.getElem_zipWith, vadd, List.length_zipWith]
    rw [a.rows_val _ (List.getElem_mem _), b.rows_val _ (List.getElem_mem _)]
    simp⟩⟩

instance : Zero (ShapedMat K r w) :=
  ⟨⟨List.replicate r (zerosN w), by simp, by
    intro row hrow
    rw [(List.mem_replicate.1 hrow).2]
    simp [zerosN]⟩⟩

theorem val_add (a b : ShapedMat K r w) : (a + b).val = List.zipWith vadd a.val b.val := rfl

theorem val_zero : (0 : ShapedMat K r w).val = List.replicate r (zerosN w) := rfl

theorem ext_ent (a b : ShapedMat K r w) (h : ent2 a.val = ent2 b.val) : a = b :=
  ext_val a b (mat_ext_of_ent2 a.val b.val r w a.length_val b.length_val a.rows_val b.rows_val h)

theorem ent2_add (a b : ShapedMat K r w) : ent2 (a + b).val = ent2 a.val + ent2 b.val := by
  funext i j
  exact ent2_zipWith_vadd a.val b.val r w a.length_val b.length_val a.rows_val b.rows_val i j

theorem ent2_zero : ent2 (0 : ShapedMat K r w).val = 0 := by
  funext i j
  rw [val_zero]
  simp only [ent2, List.getD_eq_getElem?_getD, List.getElem?_replicate]
  split
  · exact ent_zerosN w j
  · rfl

instance : AddCommMonoid (ShapedMat K r w) where
  add_assoc a b c := ext_ent _ _ (by simp only [ent2_add, add_assoc])
  zero_add a := ext_ent _ _ (by simp only [ent2_add, ent2_zero, zero_add])
  add_zero a := ext_ent _ _ (by simp only [ent2_add, ent2_zero, add_zero])
  add_comm a b := ext_ent _ _ (by simp only [ent2_add]; exact add_comm _ _)
  nsmul := nsmulRec

/-- reading the entries is additive -/
def entHom : ShapedMat K r w →+ (Nat → Nat → K) where
  toFun m := ent2 m.val
  map_zero' := ent2_zero
  map_add' := ent2_add

theorem ent2_sum {ι : Type} (s : Finset ι) (f : ι → ShapedMat K r w) :
    ent2 (∑ c ∈ s, f c).val = ∑ c ∈ s, ent2 (f c).val :=
  map_sum (entHom (K := K) (r := r) (w := w)) f s

end ShapedMat

/-- the chunk product `matmul(lhs_chunk, rhs)` as an `r × w` array.  The guard — an `lhs` chunk of `r` rows and an
 input of rows of width `w` — holds for every product the collectives form on the blocks of `A : (n·r) × _` and
 `B : _ × w` (the theorems below take the first branch, by hypothesis on the shapes of `A` and `B`). -/
def mmShaped (r w : Nat) (l x : List (List K)) : ShapedMat K r w :=
  if h : l.length = r ∧ ∀ row ∈ x, row.length = w then
    { val := matMul l x w
      length_val := by simp [matMul, h.1]
      rows_val := fun row hrow => by
        simp only [matMul, List.mem_map] at hrow
        obtain ⟨c, _, rfl⟩ := hrow
        exact vecMat_length _ _ _ h.2 }
  else 0

theorem mmShaped_val (r w : Nat) (l x : List (List K)) (hl : l.length = r) (hx : ∀ row ∈ x, row.length = w) :
    (mmShaped r w l x).val = matMul l x w := by
  unfold mmShaped
  rw [dif_pos ⟨hl, hx⟩]

/-! ### shapes of the operands -/

theorem rowChunk_length_eq {α : Type} (A : List α) (n r a : Nat) (hA : A.length = n * r) (ha : a < n) :
    (rowChunk A a r).length = r := by
  unfold rowChunk
  have h1 : (a + 1) * r ≤ n * r := Nat.mul_le_mul_right r ha
  rw [Nat.succ_mul] at h1
  simp only [List.length_take, List.length_drop, hA]
  omega

theorem colChunk_length {α : Type} (A : List (List α)) (c k : Nat) : (colChunk A c k).length = A.length := by
  simp [colChunk]

theorem matMul_length (A B : List (List K)) (w : Nat) : (matMul A B w).length = A.length := by simp [matMul]

theorem matMul_rows (A B : List (List K)) (w : Nat) (hw : ∀ row ∈ B, row.length = w) :
    ∀ row ∈ matMul A B w, row.length = w := by
  intro row hrow
  simp only [matMul, List.mem_map] at hrow
  obtain ⟨c, _, rfl⟩ := hrow
  exact vecMat_length _ _ _ hw

/-- the per-device output shards `rowChunk (A·B) a r`, `a < n`, are `splitEvery r (A·B)` -/
theorem map_rowChunk_eq_splitEvery {α : Type} (M : List α) (n r : Nat) (hr : 0 < r) (hM : M.length = n * r) :
    ((List.range n).map fun a => rowChunk M a r) = splitEvery r M := by
  unfold splitEvery
  rw [if_neg (by omega), hM, Nat.mul_div_cancel _ hr]
  rfl

end Dino.Shard
