import DinoProofs.Lemmas.SymmetryDyn

/-!
# Lemmas for C10, part 3: the primitive-equation classes are equivariant
-/
namespace Dino.Symmetry
open Dino Dino.Dynamics

variable {K M N : Type} [Field K] [AddCommGroup M] [Module K M] [CommRing N] [Algebra K N]

set_option linter.unusedSectionVars false

section eqn
variable (S : Sym K M N) (eq : PrimitiveEquations K M N)
@[simp] theorem eqn_ops : (S.eqn eq).ops = eq.ops := rfl
@[simp] theorem eqn_vert : (S.eqn eq).vert = eq.vert := rfl
@[simp] theorem eqn_phys : (S.eqn eq).phys = eq.phys := rfl
@[simp] theorem eqn_tref : (S.eqn eq).referenceTemperature = eq.referenceTemperature := rfl
@[simp] theorem eqn_iva : (S.eqn eq).includeVerticalAdvection = eq.includeVerticalAdvection := rfl
@[simp] theorem eqn_orography : (S.eqn eq).orography = S.ρM eq.orography := rfl
end eqn

section pe
variable {S : Sym K M N} (eq : PrimitiveEquations K M N) (H : Equivariant eq.ops S)
include H

/-! ### nodal products of columns -/
omit eq H in
theorem col_mul_of (φ ψ χ : N → N) (hm : ∀ a b, φ a * ψ b = χ (a * b)) (x y : List N) :
    Col.mul (x.map φ) (y.map ψ) = (Col.mul x y).map χ :=
  zipWith_map_comm _ _ _ _ _ hm x y

theorem col_mul_EE (x y : List N) : Col.mul (x.map S.nE) (y.map S.nE) = (Col.mul x y).map S.nE :=
  col_mul_of _ _ _ (nE_mul_nE H) x y
theorem col_mul_OE (x y : List N) : Col.mul (x.map S.nO) (y.map S.nE) = (Col.mul x y).map S.nO :=
  col_mul_of _ _ _ (nO_mul_nE H) x y
theorem col_mul_EO (x y : List N) : Col.mul (x.map S.nE) (y.map S.nO) = (Col.mul x y).map S.nO :=
  col_mul_of _ _ _ (nE_mul_nO H) x y

/-- the Coriolis parameter is odd: it is fixed by the odd action -/
theorem coriolis_O : S.nO eq.coriolisParameter = eq.coriolisParameter := by
  simp only [PrimitiveEquations.coriolisParameter, Sym.nO_apply, map_smul, H.sinLat]
  rw [eps_smul_smul H]

theorem tRef_E : eq.tRef.map S.nE = eq.tRef := by
  simp only [PrimitiveEquations.tRef, List.map_map]
  congr 1
  funext c
  exact nE_constN H c

/-- centred vertical advection: the velocity is even, the advected field has any parity -/
theorem centeredAdvection_of (ψ : N →ₗ[K] N) (hm : ∀ a b, S.nE a * ψ b = ψ (a * b))
    (ctc : List K) (w x : List N) :
    Col.centeredAdvection ctc (w.map S.nE) (x.map ψ) = (Col.centeredAdvection ctc w x).map ψ := by
  unfold Col.centeredAdvection
  have hwp : (0 : N) :: (w.map S.nE ++ [0]) = ((0 : N) :: (w ++ [0])).map S.nE := by simp
  have hxd : (0 : N) :: (Col.centeredDifference ctc (x.map ψ) ++ [0])
      = ((0 : N) :: (Col.centeredDifference ctc x ++ [0])).map ψ := by
    rw [col_centeredDifference]; simp
  simp only [hwp, hxd]
  rw [col_mul_of _ _ _ hm, ← List.map_tail]
  exact zipWith_map_comm _ _ _ _ _ (fun a b => by simp) _ _

theorem verticalTendency_E (w x : List N) :
    (S.eqn eq).verticalTendency (w.map S.nE) (x.map S.nE) = (eq.verticalTendency w x).map S.nE :=
  centeredAdvection_of eq H S.nE (nE_mul_nE H) _ w x

theorem verticalTendency_O (w x : List N) :
    (S.eqn eq).verticalTendency (w.map S.nE) (x.map S.nO) = (eq.verticalTendency w x).map S.nO :=
  centeredAdvection_of eq H S.nO (nE_mul_nO H) _ w x

theorem tOmegaOverSigmaSp_E (t g vd : List N) :
    (S.eqn eq).tOmegaOverSigmaSp (t.map S.nE) (g.map S.nE) (vd.map S.nE)
      = (eq.tOmegaOverSigmaSp t g vd).map S.nE := by
  unfold PrimitiveEquations.tOmegaOverSigmaSp
  simp only [eqn_vert, col_cumSigmaIntegral, col_wmul]
  have hp : ((0 : N) :: (Col.wmul eq.vert.alpha (Col.cumSigmaIntegral eq.vert.ds g)).map S.nE).dropLast
      = (((0 : N) :: Col.wmul eq.vert.alpha (Col.cumSigmaIntegral eq.vert.ds g)).dropLast).map S.nE := by
    rw [List.map_dropLast]; simp
  rw [hp, col_add]
  rw [zipWith_map_right_comm (fun (d : K) (x : N) => (1 / d) • x) (fun (d : K) (x : N) => (1 / d) • x)
    S.nE S.nE (fun d x => by simp)]
  rw [col_sub, col_mul_EE eq H]

theorem kineticEnergyTendency_equiv (aux : Diag N) :
    (S.eqn eq).kineticEnergyTendency (S.diag aux) = (eq.kineticEnergyTendency aux).map S.mE := by
  unfold PrimitiveEquations.kineticEnergyTendency
  simp only [eqn_ops, Sym.diag]
  rw [zipWith_map_comm (fun (u w : N) => ((1 / (1 + 1)) : K) • ((u * u + w * w) * eq.ops.sec2Lat))
    (fun (u w : N) => ((1 / (1 + 1)) : K) • ((u * u + w * w) * eq.ops.sec2Lat)) S.nE S.nO S.nE
    (fun u w => by rw [nE_mul_nE H, nO_mul_nO H, ← map_add, nE_mul_sec2 H, ← map_smul])]
  exact map_map_comm _ _ _ _ (fun k => by rw [toModal_E H, lap_E H, ← map_neg]) _

theorem orographyTendency_equiv :
    (S.eqn eq).orographyTendency = S.mE eq.orographyTendency := by
  simp only [PrimitiveEquations.orographyTendency, eqn_ops, eqn_phys, eqn_orography, Sym.mE_apply,
    H.laplacian, map_smul]

theorem curlAndDivTendenciesWith_equiv (aux : Diag N) (rT : List N) :
    (S.eqn eq).curlAndDivTendenciesWith (S.diag aux) (rT.map S.nE)
      = (((eq.curlAndDivTendenciesWith aux rT).1).map S.mO,
         ((eq.curlAndDivTendenciesWith aux rT).2).map S.mE) := by
  unfold PrimitiveEquations.curlAndDivTendenciesWith
  simp only [eqn_ops, eqn_iva, Sym.diag]
  -- total vorticity: odd
  have htv : (aux.vorticity.map S.nO).map (fun z => z + (S.eqn eq).coriolisParameter)
      = (aux.vorticity.map fun z => z + eq.coriolisParameter).map S.nO :=
    map_map_comm _ _ _ _ (fun z => by
      show S.nO z + eq.coriolisParameter = S.nO (z + eq.coriolisParameter)
      rw [map_add, coriolis_O eq H]) _
  have hvu : ∀ (v tv : List N),
      List.zipWith (fun vv tv => -vv * tv * eq.ops.sec2Lat) (v.map S.nO) (tv.map S.nO)
        = (List.zipWith (fun vv tv => -vv * tv * eq.ops.sec2Lat) v tv).map S.nE :=
    fun v tv => zipWith_map_comm _ _ _ _ _ (fun a b => by
      rw [← map_neg, nO_mul_nO H, nE_mul_sec2 H]) _ _
  have hvv : ∀ (u tv : List N),
      List.zipWith (fun uu tv => uu * tv * eq.ops.sec2Lat) (u.map S.nE) (tv.map S.nO)
        = (List.zipWith (fun uu tv => uu * tv * eq.ops.sec2Lat) u tv).map S.nO :=
    fun u tv => zipWith_map_comm _ _ _ _ _ (fun a b => by
      rw [nE_mul_nO H, nO_mul_sec2 H]) _ _
  have hzu := col_zerosLike (V := N) (W := N) S.nE aux.cosLatU.1 S.nE
  have hzv := col_zerosLike (V := N) (W := N) S.nO aux.cosLatU.2 S.nO
  have hvtu : ∀ (sd r : List N) (g : N),
      List.zipWith (fun sd r => (sd + r * S.nE g) * eq.ops.sec2Lat) (sd.map S.nE) (r.map S.nE)
        = (List.zipWith (fun sd r => (sd + r * g) * eq.ops.sec2Lat) sd r).map S.nE :=
    fun sd r g => zipWith_map_comm _ _ _ _ _ (fun a b => by
      rw [nE_mul_nE H, ← map_add, nE_mul_sec2 H]) _ _
  have hvtv : ∀ (sd r : List N) (g : N),
      List.zipWith (fun sd r => (sd + r * S.nO g) * eq.ops.sec2Lat) (sd.map S.nO) (r.map S.nE)
        = (List.zipWith (fun sd r => (sd + r * g) * eq.ops.sec2Lat) sd r).map S.nO :=
    fun sd r g => zipWith_map_comm _ _ _ _ _ (fun a b => by
      rw [nE_mul_nO H, ← map_add, nO_mul_sec2 H]) _ _
  rw [htv, hvu, hvv]
  by_cases hb : eq.includeVerticalAdvection = true <;>
  simp only [hb, Bool.false_eq_true, if_false, if_true, verticalTendency_E eq H, verticalTendency_O eq H,
    col_neg, hzu, hzv] <;>
  rw [hvtu, hvtv, col_add, col_add,
    map_map_comm _ _ _ _ (toModal_E H), map_map_comm _ _ _ _ (toModal_O H)] <;>
  congr 1
  · exact zipWith_map_comm _ _ _ _ _ (fun cu cv => by
      rw [curlCosLat_EO H false (cu, cv), ← map_neg]) _ _
  · exact zipWith_map_comm _ _ _ _ _ (fun cu cv => by
      rw [divCosLat_EO H false (cu, cv), ← map_neg]) _ _
  · exact zipWith_map_comm _ _ _ _ _ (fun cu cv => by
      rw [curlCosLat_EO H false (cu, cv), ← map_neg]) _ _
  · exact zipWith_map_comm _ _ _ _ _ (fun cu cv => by
      rw [divCosLat_EO H false (cu, cv), ← map_neg]) _ _

theorem curlAndDivTendencies_equiv (aux : Diag N) :
    (S.eqn eq).curlAndDivTendencies (S.diag aux)
      = (((eq.curlAndDivTendencies aux).1).map S.mO, ((eq.curlAndDivTendencies aux).2).map S.mE) := by
  unfold PrimitiveEquations.curlAndDivTendencies
  have : Col.smul (S.eqn eq).phys.R (S.diag aux).temperatureVariation
      = (Col.smul eq.phys.R aux.temperatureVariation).map S.nE := by
    simp only [eqn_phys, Sym.diag, col_smul]
  rw [this, curlAndDivTendenciesWith_equiv eq H]

theorem verticalTendency_tRef (w : List N) :
    (S.eqn eq).verticalTendency (w.map S.nE) (S.eqn eq).tRef = (eq.verticalTendency w eq.tRef).map S.nE := by
  have h1 : (S.eqn eq).tRef = eq.tRef.map S.nE := (tRef_E eq H).symm
  rw [h1, verticalTendency_E eq H]

theorem nodalTemperatureVerticalTendency_equiv [BEq K] (aux : Diag N) :
    (S.eqn eq).nodalTemperatureVerticalTendency (S.diag aux)
      = (eq.nodalTemperatureVerticalTendency aux).map S.nE := by
  unfold PrimitiveEquations.nodalTemperatureVerticalTendency
  have hv : (S.eqn eq).tRefVaries = eq.tRefVaries := rfl
  have hz := col_zerosLike (V := N) (W := N) S.nE aux.temperatureVariation S.nE
  simp only [hv, eqn_iva, Sym.diag]
  by_cases hb : eq.includeVerticalAdvection = true <;> by_cases hc : eq.tRefVaries = true <;>
  simp only [hb, hc, Bool.false_eq_true, if_false, if_true, verticalTendency_E eq H,
    verticalTendency_tRef eq H, col_add, hz]

theorem horizontalScalarAdvection_equiv (scalar : List N) (aux : Diag N) :
    (S.eqn eq).horizontalScalarAdvection (scalar.map S.nE) (S.diag aux)
      = (((eq.horizontalScalarAdvection scalar aux).1).map S.nE,
         ((eq.horizontalScalarAdvection scalar aux).2).map S.mE) := by
  unfold PrimitiveEquations.horizontalScalarAdvection
  simp only [eqn_ops, Sym.diag, col_mul_EE eq H, col_mul_OE eq H]
  congr 1
  exact zipWith_map_comm _ _ _ _ _ (fun a b => by rw [divSecLat_EO H, ← map_neg]) _ _

theorem nodalTemperatureAdiabaticTendency_equiv (aux : Diag N) :
    (S.eqn eq).nodalTemperatureAdiabaticTendency (S.diag aux)
      = (eq.nodalTemperatureAdiabaticTendency aux).map S.nE := by
  unfold PrimitiveEquations.nodalTemperatureAdiabaticTendency
  have h1 : (S.eqn eq).tRef = eq.tRef.map S.nE := (tRef_E eq H).symm
  simp only [h1, eqn_phys, Sym.diag, col_add, tOmegaOverSigmaSp_E eq H, col_smul]

theorem nodalLogPressureTendency_equiv (aux : Diag N) :
    (S.eqn eq).nodalLogPressureTendency (S.diag aux) = S.nE (eq.nodalLogPressureTendency aux) := by
  unfold PrimitiveEquations.nodalLogPressureTendency
  simp only [eqn_vert, Sym.diag, col_sigmaIntegral, map_neg]

theorem tracerTendency_equiv (aux : Diag N) (x : List N) :
    (S.eqn eq).tracerTendency (S.diag aux) (x.map S.nE) = (eq.tracerTendency aux x).map S.mE := by
  unfold PrimitiveEquations.tracerTendency
  have hz := col_zerosLike (V := N) (W := N) S.nE x S.nE
  rw [horizontalScalarAdvection_equiv eq H]
  simp only [eqn_iva, eqn_ops]
  have hsd : (S.diag aux).sigmaDotFull = aux.sigmaDotFull.map S.nE := rfl
  rw [hsd]
  by_cases hb : eq.includeVerticalAdvection = true <;>
  simp only [hb, Bool.false_eq_true, if_false, if_true, verticalTendency_E eq H, hz, col_add,
    map_map_comm _ _ _ _ (toModal_E H)]

theorem clipState_equiv (s : State M) : (S.eqn eq).clipState (S.state s) = S.state (eq.clipState s) := by
  unfold PrimitiveEquations.clipState Sym.state
  simp only [eqn_ops, map_map_comm _ _ _ _ (clip_E H), map_map_comm _ _ _ _ (clip_O H), clip_E H]
  congr 1
  simp only [mapTracers, List.map_map]
  congr 1
  funext kv
  simp only [Function.comp]
  congr 1
  exact map_map_comm _ _ _ _ (clip_E H) _

theorem thermoTendencies_equiv [BEq K] (aux : Diag N) (ad : List N) :
    (S.eqn eq).thermoTendencies (S.diag aux) (ad.map S.nE)
      = (((eq.thermoTendencies aux ad).1).map S.mE, S.mE (eq.thermoTendencies aux ad).2.1,
         mapTracers (fun x => x.map S.mE) (eq.thermoTendencies aux ad).2.2) := by
  unfold PrimitiveEquations.thermoTendencies
  have hT : (S.diag aux).temperatureVariation = aux.temperatureVariation.map S.nE := rfl
  have htr : (S.diag aux).tracers = mapTracers (fun x => x.map S.nE) aux.tracers := rfl
  simp only [hT, htr, horizontalScalarAdvection_equiv eq H, nodalTemperatureVerticalTendency_equiv eq H,
    nodalLogPressureTendency_equiv eq H, eqn_ops, col_add, map_map_comm _ _ _ _ (toModal_E H),
    toModal_E H]
  congr 2
  simp only [mapTracers, List.map_map]
  congr 1
  funext kv
  simp only [Function.comp, tracerTendency_equiv eq H]

theorem explicitTerms_equiv [BEq K] (s : State M) :
    (S.eqn eq).explicitTerms (S.state s) = S.state (eq.explicitTerms s) := by
  unfold PrimitiveEquations.explicitTerms
  simp only [eqn_ops, eqn_vert]
  rw [computeDiagnosticState_equiv H, curlAndDivTendencies_equiv eq H, kineticEnergyTendency_equiv eq H,
    nodalTemperatureAdiabaticTendency_equiv eq H, thermoTendencies_equiv eq H,
    orographyTendency_equiv eq H, col_add, col_addLevel, ← clipState_equiv eq H]
  rfl

end pe
end Dino.Symmetry
