import DinoProofs.Lemmas.DynamicsInst
import DinoProofs.Lemmas.SymmetryDyn
import DinoProofs.Lemmas.SymmetryMirror

/-!
# The equatorial mirror as a symmetry `Sym` of the concrete instance `gridOps`

`mirrorSym g`: on modal arrays the sign `(−1)^(m+l)` (`m` = the zonal wavenumber the code attaches to the row,
`Layout.freq`; `l` = the column), on nodal arrays the flip of the latitude axis (an algebra homomorphism of the
pointwise ring), `ε = −1`.

`equivariant_mirror`: every field of `Dino.Symmetry.Equivariant` that is **purely algebraic** is proved for all
sizes, both layouts and any padding — `d_dlon`, the Laplacian, its inverse, `clip`, `lproj` commute with the
sign, the two latitude derivatives anticommute with it (they shift `l` by one), the constant mode is fixed,
and the seven `*_eps` laws are linearity at `c = −1`.  What remains as hypotheses are the two transform laws
(T10.3 of C10: parity of the Legendre tables and symmetry of the quadrature weights, `MirrorData`) and the
symmetry of the three nodal tables.  `mirror_toNodal_real` / `mirror_toModal_real` discharge the transform
laws for the real layout from `MirrorData`, by the list-model theorems of C10.
-/
set_option linter.unusedSectionVars false
set_option linter.unusedSimpArgs false
set_option linter.unusedVariables false

namespace Dino.DynamicsInst
open Dino Dino.Dynamics Dino.Grid Dino.SH Dino.Lin Dino.Symmetry

section mirror
variable {K : Type} [Field K] (g : GridData K)

/-- the sign `(−1)^(m+l)` on modal arrays -/
def mirrorM : g.Modal →ₗ[K] g.Modal where
  toFun x := fun i j => sgn (g.ly.freq i.val + j.val) * x i j
  map_add' x y := by funext i j; simp only [Pi.add_apply]; ring
  map_smul' c x := by funext i j; simp only [Pi.smul_apply, smul_eq_mul, RingHom.id_apply]; ring

/-- the flip of the latitude axis on nodal arrays: an algebra homomorphism of the pointwise ring -/
def flipN : g.Nodal →ₐ[K] g.Nodal where
  toFun z := fun i j => z i j.rev
  map_one' := rfl
  map_mul' _ _ := rfl
  map_zero' := rfl
  map_add' _ _ := rfl
  commutes' _ := rfl

/-- the equatorial mirror -/
def mirrorSym : Sym K g.Modal g.Nodal := { ρM := mirrorM g, ρN := flipN g, ε := -1 }

variable {g}

theorem mirrorM_apply (x : g.Modal) (i : Fin g.ly.rows) (j : Fin g.ly.cols) :
    mirrorM g x i j = sgn (g.ly.freq i.val + j.val) * x i j := rfl

theorem flipN_apply (z : g.Nodal) (i : Fin g.nlon) (j : Fin g.nlat) : flipN g z i j = z i j.rev := rfl

theorem ext0_mirrorM (x : g.Modal) (a b : Nat) :
    ext0 (mirrorM g x) a b = sgn (g.ly.freq a + b) * ext0 x a b := by
  unfold ext0
  split
  · rfl
  · rw [mul_zero]

/-- the partner row carries the same zonal wavenumber, unless the derivative vanishes on the row anyway -/
theorem freq_partner (ly : Layout) (i : Nat) :
    ly.freq i = 0 ∨ ly.freq (if (if ly.fast then i % 2 = 0 else i % 2 = 1) then i + 1 else i - 1) = ly.freq i := by
  unfold Layout.freq
  cases hf : ly.fast
  · simp only [Bool.false_eq_true, if_false]
    by_cases hp : i % 2 = 1
    · rw [if_pos hp]; right; omega
    · rw [if_neg hp]; omega
  · simp only [if_true]
    by_cases hp : i % 2 = 0
    · rw [if_pos hp]; right; omega
    · rw [if_neg hp]; right; omega

theorem mirror_dDlon (x : g.Modal) : (gridOps g).dDlon (mirrorM g x) = mirrorM g ((gridOps g).dDlon x) := by
  funext i j
  rw [mirrorM_apply, dDlon_apply, dDlon_apply, ext0_mirrorM, ext0_mirrorM]
  rcases freq_partner g.ly i.val with h0 | h1
  · rw [h0]; simp
  · by_cases hp : (if g.ly.fast then i.val % 2 = 0 else i.val % 2 = 1)
    · rw [if_pos hp] at h1
      simp only [if_pos hp]
      rw [h1]; ring
    · rw [if_neg hp] at h1
      simp only [if_neg hp]
      rw [h1]; ring

/-- the latitude stencil shifts `l` by one, hence anticommutes with the sign -/
theorem mirror_stencil (x : g.Modal) (c1 c2 : K) (A B : K) (i j : Nat) :
    c1 * A * ext0 (mirrorM g x) i (j + 1) + (if j = 0 then 0 else c2 * B * ext0 (mirrorM g x) i (j - 1))
      = -(sgn (g.ly.freq i + j) * (c1 * A * ext0 x i (j + 1) + (if j = 0 then 0 else c2 * B * ext0 x i (j - 1)))) := by
  rw [ext0_mirrorM, ext0_mirrorM]
  have h1 : (sgn (g.ly.freq i + (j + 1)) : K) = -sgn (g.ly.freq i + j) := by rw [← Nat.add_assoc, sgn_succ]
  rw [h1]
  split
  · ring
  · rename_i h0
    have h2 : (sgn (g.ly.freq i + (j - 1)) : K) = -sgn (g.ly.freq i + j) := by
      have : g.ly.freq i + (j - 1) = g.ly.freq i + j - 1 := by omega
      rw [this, sgn_pred _ (by omega)]
    rw [h2]; ring

theorem mirror_cosLatDDlat (W : g.WF) (x : g.Modal) :
    (gridOps g).cosLatDDlat (mirrorM g x) = (-1 : K) • mirrorM g ((gridOps g).cosLatDDlat x) := by
  funext i j
  rw [Pi.smul_apply, Pi.smul_apply, smul_eq_mul, mirrorM_apply, cosLatDDlat_apply W, cosLatDDlat_apply W,
    mirror_stencil]
  ring

theorem mirror_secLat (W : g.WF) (x : g.Modal) :
    (gridOps g).secLatDDlatCos2 (mirrorM g x) = (-1 : K) • mirrorM g ((gridOps g).secLatDDlatCos2 x) := by
  funext i j
  rw [Pi.smul_apply, Pi.smul_apply, smul_eq_mul, mirrorM_apply, secLatDDlatCos2_apply W,
    secLatDDlatCos2_apply W, mirror_stencil]
  ring

theorem mirror_laplacian (x : g.Modal) :
    (gridOps g).laplacian (mirrorM g x) = mirrorM g ((gridOps g).laplacian x) := by
  funext i j
  rw [mirrorM_apply, laplacian_apply, laplacian_apply, mirrorM_apply]; ring

theorem mirror_inverseLaplacian (x : g.Modal) :
    (gridOps g).inverseLaplacian (mirrorM g x) = mirrorM g ((gridOps g).inverseLaplacian x) := by
  funext i j
  rw [mirrorM_apply, inverseLaplacian_apply, inverseLaplacian_apply, mirrorM_apply]; ring

theorem mirror_clip (x : g.Modal) : (gridOps g).clip (mirrorM g x) = mirrorM g ((gridOps g).clip x) := by
  funext i j
  rw [mirrorM_apply, clip_apply, clip_apply, mirrorM_apply]
  split <;> simp

theorem mirror_lproj (l : Nat) (x : g.Modal) :
    (gridOps g).lproj l (mirrorM g x) = mirrorM g ((gridOps g).lproj l x) := by
  funext i j
  rw [mirrorM_apply, lproj_apply, lproj_apply, mirrorM_apply]
  split <;> simp

theorem mirror_oneModal : mirrorM g (gridOps g).oneModal = (gridOps g).oneModal := by
  funext i j
  rw [mirrorM_apply, oneModal_apply]
  split
  · rename_i h
    rw [h.1, h.2]
    have : g.ly.freq 0 = 0 := by unfold Layout.freq; split <;> rfl
    rw [this]; simp [sgn]
  · rw [mul_zero]

/-- **the mirror is a symmetry of the concrete grid**: all algebraic fields of `Equivariant` proved; the
 transform laws (T10.3) and the symmetry of the nodal tables are the hypotheses -/
theorem equivariant_mirror (W : g.WF)
    (hN : ∀ x, (gridOps g).toNodal (mirrorM g x) = flipN g ((gridOps g).toNodal x))
    (hM : ∀ z, (gridOps g).toModal (flipN g z) = mirrorM g ((gridOps g).toModal z))
    (hcos : ∀ j : Fin g.nlat, g.cosLat.getD j.rev.val 0 = g.cosLat.getD j.val 0)
    (hsec : ∀ j : Fin g.nlat, g.sec2Lat.getD j.rev.val 0 = g.sec2Lat.getD j.val 0)
    (hsin : ∀ j : Fin g.nlat, g.sinLat.getD j.rev.val 0 = -g.sinLat.getD j.val 0) :
    Equivariant (gridOps g) (mirrorSym g) where
  eps_sq := by show (-1 : K) * (-1) = 1; ring
  toNodal := hN
  toModal := hM
  dDlon := mirror_dDlon
  cosLatDDlat := mirror_cosLatDDlat W
  secLatDDlatCos2 := mirror_secLat W
  laplacian := mirror_laplacian
  inverseLaplacian := mirror_inverseLaplacian
  clip := mirror_clip
  lproj := mirror_lproj
  cosLat := by funext i j; exact hcos j
  sec2Lat := by funext i j; exact hsec j
  sinLat := by
    funext i j
    show g.sinLat.getD j.rev.val 0 = (-1 : K) • g.sinLat.getD j.val 0
    rw [hsin j, smul_eq_mul]; ring
  oneModal := mirror_oneModal
  toNodal_eps := (toNodal_lin W).map_smul _
  toModal_eps := (toModal_lin W).map_smul _
  dDlon_eps := dDlon_lin.map_smul _
  cosLatDDlat_eps := (cosLatDDlat_lin W).map_smul _
  secLatDDlatCos2_eps := (secLatDDlatCos2_lin W).map_smul _
  inverseLaplacian_eps := inverseLaplacian_lin.map_smul _
  clip_eps := clip_lin.map_smul _

/-! ### the two transform laws for the real layout, from `MirrorData` (C10, T10.3) -/

theorem toL_mirrorM (x : g.Modal) : toL (mirrorM g x) = mirrorModal g.ly.freq (fun l => l) (toL x) := by
  apply mat_ext _ _ g.ly.rows g.ly.cols (isMat_toL _)
    ⟨by rw [mirrorModal_length, (isMat_toL x).1], mirrorModal_rows _ _ _ _ (isMat_toL x).2⟩
  intro i _ j _
  rw [ent2_toL, ext0_mirrorM, ent2_mirrorModal, ent2_toL]

theorem toL_flipN (z : g.Nodal) : toL (flipN g z) = flipLat (toL z) := by
  apply mat_ext _ _ g.nlon g.nlat (isMat_toL _)
    ⟨by rw [flipLat_length, (isMat_toL z).1], flipLat_rows _ _ (isMat_toL z).2⟩
  intro i hi j hj
  rw [ent2_flipLat _ g.nlat (isMat_toL z).2 i j hj, ent2_toL, ent2_toL]
  unfold ext0
  rw [dif_pos ⟨hi, hj⟩, dif_pos ⟨hi, by omega⟩, flipN_apply]
  congr 1
  apply Fin.ext
  simp only [Fin.val_rev]
  omega

/-- real layout, `T = (realSynth b, realAnalysis b)`: synthesis intertwines the sign with the flip -/
theorem mirror_toNodal_real (b : Basis K) (hT : g.T = ⟨realSynth b g.nlat, realAnalysis b g.ly.rows g.nlat g.ly.cols⟩)
    (W : g.WF) (hb : Shaped b g.nlon g.ly.rows g.nlat g.ly.cols) (D : MirrorData b g.ly.rows g.nlat g.ly.freq)
    (x : g.Modal) : (gridOps g).toNodal (mirrorM g x) = flipN g ((gridOps g).toNodal x) := by
  apply toL_injective
  rw [toL_flipN, toL_toNodal W, toL_toNodal W, toL_mirrorM, hT]
  exact synth_mirror_eq_flip hb D (toL x) _ (fun row h => le_of_eq ((isMat_toL x).2 row h))
    (fun row h => le_of_eq (mirrorModal_rows _ _ _ _ (isMat_toL x).2 row h))
    (fun r _ l => ent2_mirrorModal _ _ _ r l)

/-- real layout: analysis intertwines the flip with the sign -/
theorem mirror_toModal_real (b : Basis K) (hT : g.T = ⟨realSynth b g.nlat, realAnalysis b g.ly.rows g.nlat g.ly.cols⟩)
    (W : g.WF) (hb : Shaped b g.nlon g.ly.rows g.nlat g.ly.cols) (D : MirrorData b g.ly.rows g.nlat g.ly.freq)
    (z : g.Nodal) : (gridOps g).toModal (flipN g z) = mirrorM g ((gridOps g).toModal z) := by
  apply toL_injective
  rw [toL_mirrorM, toL_toModal W, toL_toModal W, toL_flipN, hT]
  exact analysis_flip_eq_mirror hb D (toL z) (isMat_toL z).2 (le_of_eq (isMat_toL z).1)

end mirror
end Dino.DynamicsInst
