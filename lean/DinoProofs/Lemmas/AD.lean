import Dino.AD
import Dino.SH
import Dino.Filters
import Dino.Implicit
import DinoProofs.Lemmas.Interp
import DinoProofs.Lemmas.Lin
import Dino.Dynamics
import Dino.Grid
import Mathlib.Algebra.Ring.Basic
import Mathlib.Algebra.Module.Basic
import Mathlib.Algebra.Field.Basic
import Mathlib.Algebra.BigOperators.Group.List.Basic
import Mathlib.Tactic.Ring
import Mathlib.Tactic.FieldSimp

/-!
# Lemmas about the dual-number model `Dino.AD`

* component equations of the arithmetic of `Dual K` (all `rfl`);
* `IsProj φ`: the two projections `Dual.v`, `Dual.d : Dual K → K` are `K`-module maps
  (`φ (const c * x) = c * φ x`, additive).  Every lemma of the form
  `(L (constant coefficients) X).map φ = L coefficients (X.map φ)` is proved once for an arbitrary
  such `φ`; at `φ = Dual.v` it says that the value component is the primal result, at `φ = Dual.d`
  that the tangent component is `L` applied to the tangent ("a linear operator is its own
  derivative").
-/
set_option linter.unusedSectionVars false
set_option linter.unusedSimpArgs false

namespace Dino.AD
open Dino

namespace Dual
variable {K : Type}

@[ext] theorem ext {a b : Dual K} (hv : a.v = b.v) (hd : a.d = b.d) : a = b := by
  cases a; cases b; simp_all

section ops
variable [CommRing K]
@[simp] theorem add_v (a b : Dual K) : (a + b).v = a.v + b.v := rfl
@[simp] theorem add_d (a b : Dual K) : (a + b).d = a.d + b.d := rfl
@[simp] theorem sub_v (a b : Dual K) : (a - b).v = a.v - b.v := rfl
@[simp] theorem sub_d (a b : Dual K) : (a - b).d = a.d - b.d := rfl
@[simp] theorem neg_v (a : Dual K) : (-a).v = -a.v := rfl
@[simp] theorem neg_d (a : Dual K) : (-a).d = -a.d := rfl
@[simp] theorem mul_v (a b : Dual K) : (a * b).v = a.v * b.v := rfl
@[simp] theorem mul_d (a b : Dual K) : (a * b).d = a.d * b.v + a.v * b.d := rfl
@[simp] theorem zero_v : (0 : Dual K).v = 0 := rfl
@[simp] theorem zero_d : (0 : Dual K).d = 0 := rfl
@[simp] theorem one_v : (1 : Dual K).v = 1 := rfl
@[simp] theorem one_d : (1 : Dual K).d = 0 := rfl
@[simp] theorem const_v (a : K) : (const a).v = a := rfl
@[simp] theorem const_d (a : K) : (const a).d = 0 := rfl
@[simp] theorem smul_v (c : K) (a : Dual K) : (c • a).v = c * a.v := rfl
@[simp] theorem smul_d (c : K) (a : Dual K) : (c • a).d = c * a.d := rfl
@[simp] theorem mk_v (a b : K) : (Dual.mk a b).v = a := rfl
@[simp] theorem mk_d (a b : K) : (Dual.mk a b).d = b := rfl

theorem const_zero : const (0 : K) = 0 := rfl
theorem const_one : const (1 : K) = 1 := rfl
theorem const_add (a b : K) : const a + const b = const (a + b) := by ext <;> simp
theorem const_sub (a b : K) : const a - const b = const (a - b) := by ext <;> simp
theorem const_mul (a b : K) : const a * const b = const (a * b) := by ext <;> simp
theorem const_neg (a : K) : -const a = const (-a) := by ext <;> simp
end ops

section div
variable [Field K]
@[simp] theorem div_v (a b : Dual K) : (a / b).v = a.v / b.v := rfl
@[simp] theorem div_d (a b : Dual K) : (a / b).d = (a.d * b.v - a.v * b.d) / (b.v * b.v) := rfl
theorem const_div (a b : K) : const a / const b = const (a / b) := by ext <;> simp
end div

section order
variable [LT K]
theorem lt_def (a b : Dual K) : a < b ↔ a.v < b.v := Iff.rfl
end order

end Dual

open Dual

/-! ## the two projections as `K`-module maps -/

/-- `φ : Dual K → K` is additive and commutes with multiplication by constants -/
structure IsProj {K : Type} [CommRing K] (φ : Dual K → K) : Prop where
  add : ∀ a b, φ (a + b) = φ a + φ b
  sub : ∀ a b, φ (a - b) = φ a - φ b
  neg : ∀ a, φ (-a) = -φ a
  zero : φ 0 = 0
  const_mul : ∀ c x, φ (const c * x) = c * φ x
  mul_const : ∀ x c, φ (x * const c) = φ x * c
  smul : ∀ (c : K) x, φ (c • x) = c * φ x

section proj
variable {K : Type} [CommRing K]

theorem isProj_v : IsProj (Dual.v : Dual K → K) :=
  ⟨fun _ _ => rfl, fun _ _ => rfl, fun _ => rfl, rfl, fun _ _ => rfl, fun _ _ => rfl, fun _ _ => rfl⟩

theorem isProj_d : IsProj (Dual.d : Dual K → K) :=
  ⟨fun _ _ => rfl, fun _ _ => rfl, fun _ => rfl, rfl, fun c x => by simp, fun x c => by simp,
   fun _ _ => rfl⟩

variable {φ : Dual K → K} (hφ : IsProj φ)
include hφ

theorem IsProj.sum (l : List (Dual K)) : φ l.sum = (l.map φ).sum := by
  induction l with
  | nil => simpa using hφ.zero
  | cons a t ih => simp [hφ.add, ih]

theorem IsProj.zipMul_constL (c : List K) (X : List (Dual K)) :
    (List.zipWith (· * ·) (constL c) X).map φ = List.zipWith (· * ·) c (X.map φ) := by
  induction c generalizing X with
  | nil => simp [constL]
  | cons a t ih =>
    cases X with
    | nil => simp [constL]
    | cons x u =>
      have := ih u
      simp only [constL] at this ⊢
      simp [hφ.const_mul, this]

/-! ### `Dino.Lin` -/
open Lin

theorem IsProj.dotv_constL (c : List K) (X : List (Dual K)) :
    φ (dotv (constL c) X) = dotv c (X.map φ) := by
  unfold dotv
  rw [hφ.sum]
  congr 1
  induction c generalizing X with
  | nil => simp [constL]
  | cons a t ih =>
    cases X with
    | nil => simp [constL]
    | cons x u =>
      have := ih u
      simp only [constL] at this ⊢
      simp [hφ.const_mul, this]

theorem IsProj.dotv_constR (X : List (Dual K)) (c : List K) :
    φ (dotv X (constL c)) = dotv (X.map φ) c := by
  unfold dotv
  rw [hφ.sum]
  congr 1
  induction X generalizing c with
  | nil => simp [constL]
  | cons x u ih =>
    cases c with
    | nil => simp [constL]
    | cons a t =>
      have := ih t
      simp only [constL] at this ⊢
      simp [hφ.mul_const, this]

theorem IsProj.scale_const (c : K) (X : List (Dual K)) :
    (scale (const c) X).map φ = scale c (X.map φ) := by
  simp [scale, List.map_map, Function.comp_def, hφ.const_mul]

theorem IsProj.vadd (A B : List (Dual K)) : (vadd A B).map φ = vadd (A.map φ) (B.map φ) := by
  unfold Lin.vadd
  induction A generalizing B with
  | nil => simp
  | cons a t ih => cases B with
    | nil => simp
    | cons b u => simp [hφ.add, ih]

theorem IsProj.zerosN (n : Nat) : (zerosN n : List (Dual K)).map φ = zerosN n := by
  simp [Lin.zerosN, hφ.zero]

/-- `Σ_m c[m] • rows[m]` with constant coefficients -/
theorem IsProj.vecMat_constL (c : List K) (R : List (List (Dual K))) (n : Nat) :
    (vecMat (constL c) R n).map φ = vecMat c (R.map (List.map φ)) n := by
  induction c generalizing R with
  | nil => simpa [constL, vecMat] using hφ.zerosN n
  | cons a t ih =>
    cases R with
    | nil => simpa [constL, vecMat] using hφ.zerosN n
    | cons r rs =>
      have := ih rs
      simp only [constL] at this
      simp only [constL, List.map_cons, vecMat]
      rw [hφ.vadd, hφ.scale_const, this]

/-- `Σ_m x[m] • rows[m]` with constant rows -/
theorem IsProj.vecMat_constR (X : List (Dual K)) (R : List (List K)) (n : Nat) :
    (vecMat X (constM R) n).map φ = vecMat (X.map φ) R n := by
  induction X generalizing R with
  | nil => simpa [constM, vecMat] using hφ.zerosN n
  | cons x u ih =>
    cases R with
    | nil => simpa [constM, vecMat] using hφ.zerosN n
    | cons r rs =>
      have := ih rs
      simp only [constM] at this
      simp only [constM, List.map_cons, vecMat]
      rw [hφ.vadd, this]
      congr 1
      simp [scale, constL, List.map_map, Function.comp_def, hφ.mul_const]

omit hφ in
theorem constL_getD (s : List K) (i : Nat) : (constL s).getD i 0 = const (s.getD i 0) := by
  simp only [constL, List.getD_eq_getElem?_getD, List.getElem?_map]
  cases s[i]? <;> rfl

omit hφ in
theorem col_constM (a : List (List K)) (c : Nat) : col (constM a) c = constL (col a c) := by
  simp only [col, constM, constL, List.map_map, Function.comp_def]
  apply List.map_congr_left
  intro row _
  simpa [constL] using constL_getD row c

omit hφ in
theorem transposeM_constM (a : List (List K)) (n : Nat) :
    transposeM (constM a) n = constM (transposeM a n) := by
  unfold transposeM
  simp only [constM, List.map_map]
  apply List.map_congr_left
  intro i _
  exact col_constM a i

theorem IsProj.matMul_constL (a : List (List K)) (B : List (List (Dual K))) (n : Nat) :
    (matMul (constM a) B n).map (List.map φ) = matMul a (B.map (List.map φ)) n := by
  simp [matMul, constM, List.map_map, Function.comp_def, hφ.vecMat_constL]

/-! ### `Dino.SH`: the transforms with a constant basis -/
open SH

/-- the basis as constants of `Dual K` -/
def constB (b : Basis K) : Basis (Dual K) := ⟨constM b.f, b.p.map constM, constL b.w⟩

theorem IsProj.invLegendre_const (p : List (List (List K))) (X : List (List (Dual K))) :
    (invLegendre (p.map constM) X).map (List.map φ) = invLegendre p (X.map (List.map φ)) := by
  unfold invLegendre
  induction p generalizing X with
  | nil => simp
  | cons pm t ih =>
    cases X with
    | nil => simp
    | cons xm u =>
      simp only [List.map_cons, List.zipWith_cons_cons, ih u]
      congr 1
      simp [constM, List.map_map, Function.comp_def, hφ.dotv_constL]

theorem IsProj.realSynth_const (b : Basis K) (n : Nat) (X : List (List (Dual K))) :
    (realSynth (constB b) n X).map (List.map φ) = realSynth b n (X.map (List.map φ)) := by
  simp [realSynth, invFourier, constB, hφ.matMul_constL, hφ.invLegendre_const]

theorem IsProj.weight_const (w : List K) (Z : List (List (Dual K))) :
    (weight (constL w) Z).map (List.map φ) = weight w (Z.map (List.map φ)) := by
  unfold weight
  simp only [List.map_map, Function.comp_def]
  apply List.map_congr_left
  intro zi _
  exact hφ.zipMul_constL w zi

theorem IsProj.fwdFourier_const (f : List (List K)) (WX : List (List (Dual K))) (R J : Nat) :
    (fwdFourier (constM f) WX R J).map (List.map φ) = fwdFourier f (WX.map (List.map φ)) R J := by
  unfold fwdFourier
  rw [transposeM_constM]
  simp [constM, List.map_map, Function.comp_def, hφ.vecMat_constL]

theorem IsProj.fwdLegendre_const (p : List (List (List K))) (V : List (List (Dual K))) (nl : Nat) :
    (fwdLegendre (p.map constM) V nl).map (List.map φ) = fwdLegendre p (V.map (List.map φ)) nl := by
  unfold fwdLegendre
  induction p generalizing V with
  | nil => simp
  | cons pm t ih =>
    cases V with
    | nil => simp
    | cons vm u => simp [ih u, hφ.vecMat_constR]

theorem IsProj.realAnalysis_const (b : Basis K) (R J L : Nat) (Z : List (List (Dual K))) :
    (realAnalysis (constB b) R J L Z).map (List.map φ) = realAnalysis b R J L (Z.map (List.map φ)) := by
  simp [realAnalysis, constB, hφ.fwdLegendre_const, hφ.fwdFourier_const, hφ.weight_const]

/-! ### `Dino.Sigma` / `Dino.Implicit`: vertical matrices, cumulative sums, implicit terms -/
open _root_.Dino.Sigma

theorem IsProj.mulv_constL (c : List K) (X : List (Dual K)) :
    (mulv (constL c) X).map φ = mulv c (X.map φ) := hφ.zipMul_constL c X

theorem IsProj.addv (A B : List (Dual K)) : (addv A B).map φ = addv (A.map φ) (B.map φ) := by
  unfold Sigma.addv
  induction A generalizing B with
  | nil => simp
  | cons a t ih => cases B with
    | nil => simp
    | cons b u => simp [hφ.add, ih]

theorem IsProj.subv (A B : List (Dual K)) : (subv A B).map φ = subv (A.map φ) (B.map φ) := by
  unfold Sigma.subv
  induction A generalizing B with
  | nil => simp
  | cons a t ih => cases B with
    | nil => simp
    | cons b u => simp [hφ.sub, ih]

theorem IsProj.smul_const (c : K) (X : List (Dual K)) :
    (Sigma.smul (const c) X).map φ = Sigma.smul c (X.map φ) := by
  simp [Sigma.smul, List.map_map, Function.comp_def, hφ.const_mul]

theorem IsProj.cumsumFrom (acc : Dual K) (X : List (Dual K)) :
    (cumsumFrom acc X).map φ = cumsumFrom (φ acc) (X.map φ) := by
  induction X generalizing acc with
  | nil => rfl
  | cons a t ih => simp [Sigma.cumsumFrom, ih, hφ.add]

theorem IsProj.cumsum (X : List (Dual K)) : (cumsum X).map φ = cumsum (X.map φ) := by
  unfold Sigma.cumsum
  rw [hφ.cumsumFrom, hφ.zero]

theorem IsProj.rcumsum (X : List (Dual K)) : (rcumsum X).map φ = rcumsum (X.map φ) := by
  induction X with
  | nil => rfl
  | cons a t ih =>
    simp only [Sigma.rcumsum, List.map_cons, hφ.add, ih]
    congr 2
    rw [← ih]
    cases Sigma.rcumsum t with
    | nil => simp [hφ.zero]
    | cons r rs => simp

theorem IsProj.matvec_constM (a : List (List K)) (X : List (Dual K)) :
    (matvec (constM a) X).map φ = matvec a (X.map φ) := by
  simp only [matvec, constM, List.map_map, Function.comp_def]
  apply List.map_congr_left
  intro row _
  rw [hφ.sum, hφ.mulv_constL]

end proj

end Dino.AD

/-! ## `Dino.Implicit`, `Dino.Filters` with constant coefficients -/
namespace Dino.AD
open Dino Dual

section proj2
variable {K : Type} [CommRing K] {φ : Dual K → K} (hφ : IsProj φ)
include hφ
open _root_.Dino.Sigma Implicit

theorem IsProj.getD (L : List (Dual K)) (i : Nat) : φ (L.getD i 0) = (L.map φ).getD i 0 := by
  simp only [List.getD_eq_getElem?_getD, List.getElem?_map]
  cases L[i]? <;> simp [hφ.zero]

theorem IsProj.headD (L : List (Dual K)) : φ (L.headD 0) = (L.map φ).headD 0 := by
  cases L <;> simp [hφ.zero]

theorem IsProj.getLastD (L : List (Dual K)) : φ (L.getLastD 0) = (L.map φ).getLastD 0 := by
  rcases List.eq_nil_or_concat L with rfl | ⟨l, a, rfl⟩
  · simp [hφ.zero]
  · simp

omit hφ in
theorem geoOffDiag_const (R prev : K) (al : List K) :
    geoOffDiag (const R) (const prev) (constL al) = constL (geoOffDiag R prev al) := by
  induction al generalizing prev with
  | nil => rfl
  | cons c r ih =>
    have := ih c
    simp only [constL] at this ⊢
    simp [geoOffDiag, this, const_add, Dual.const_mul]

omit hφ in
theorem geopotentialWeights_const (R : K) (al : List K) :
    geopotentialWeights (const R) (constL al) = constM (geopotentialWeights R al) := by
  induction al with
  | nil => rfl
  | cons a t ih =>
    have h2 := geoOffDiag_const R a t
    simp only [constL, constM] at ih h2 ⊢
    simp only [List.map_cons, geopotentialWeights, ih, h2, Dual.const_mul, List.map_map]
    congr 1
    apply List.map_congr_left
    intro row _
    simp [← const_zero, Dual.const_mul, constL]

/-- `get_geopotential_diff(method='dense')` with constant `R`, `α` -/
theorem IsProj.geopotentialDiffDense_const (R : K) (al : List K) (T : List (Dual K)) :
    (geopotentialDiffDense (const R) (constL al) T).map φ = geopotentialDiffDense R al (T.map φ) := by
  unfold geopotentialDiffDense
  rw [geopotentialWeights_const, hφ.matvec_constM]

omit hφ in
theorem negMat_constM (h : List (List K)) : negMat (constM h) = constM (negMat h) := by
  simp [negMat, constM, constL, List.map_map, Function.comp_def, const_neg]

/-- `get_temperature_implicit(method='dense')` with a constant matrix `H` -/
theorem IsProj.tempImplicitDense_const (h : List (List K)) (D : List (Dual K)) :
    (tempImplicitDense (constM h) D).map φ = tempImplicitDense h (D.map φ) := by
  unfold tempImplicitDense
  rw [negMat_constM, hφ.matvec_constM]

/-- projection of a column state -/
def mapCol (φ : Dual K → K) (x : Col (Dual K)) : Col K := ⟨x.d.map φ, x.t.map φ, φ x.p⟩

omit hφ in
@[simp] theorem mapCol_d (φ : Dual K → K) (x : Col (Dual K)) : (mapCol φ x).d = x.d.map φ := rfl
omit hφ in
@[simp] theorem mapCol_t (φ : Dual K → K) (x : Col (Dual K)) : (mapCol φ x).t = x.t.map φ := rfl
omit hφ in
@[simp] theorem mapCol_p (φ : Dual K → K) (x : Col (Dual K)) : (mapCol φ x).p = φ x.p := rfl

/-- `PrimitiveEquations.implicit_terms` on one column and mode, constant coefficients -/
theorem IsProj.implicitTerms_const (lam R : K) (ds T : List K) (gop hop : List K → List K)
    (gopD hopD : List (Dual K) → List (Dual K))
    (hg : ∀ X, (gopD X).map φ = gop (X.map φ)) (hh : ∀ X, (hopD X).map φ = hop (X.map φ))
    (X : Col (Dual K)) :
    mapCol φ (implicitTerms (const lam) (const R) (constL ds) (constL T) gopD hopD X)
      = implicitTerms lam R ds T gop hop (mapCol φ X) := by
  unfold implicitTerms mapCol
  simp only [Col.mk.injEq]
  refine ⟨?_, hh _, ?_⟩
  · simp only [List.map_map, Function.comp_def, hφ.neg, hφ.mul_const]
    have hm : ∀ L : List (Dual K), L.map (fun x => -(φ x * lam)) = (L.map φ).map (fun v => -(v * lam)) := by
      intro L; simp [List.map_map, Function.comp_def]
    rw [hm, hφ.addv, hg]
    congr 2
    simp [constL, List.map_map, Function.comp_def, Dual.const_mul, hφ.const_mul]
  · rw [hφ.neg, hφ.sum, hφ.mulv_constL]

theorem IsProj.stack (X : Col (Dual K)) : (stack X).map φ = stack (mapCol φ X) := by
  simp [Implicit.stack, mapCol]

theorem IsProj.unstack (n : Nat) (V : List (Dual K)) :
    mapCol φ (unstack n V) = unstack n (V.map φ) := by
  simp only [Implicit.unstack, mapCol, List.map_take, List.map_drop, hφ.headD]

/-- `implicit_inverse(method='stacked')`: one product with the (static) inverse matrix -/
theorem IsProj.inverseStacked_const (minv : List (List K)) (X : Col (Dual K)) :
    mapCol φ (inverseStacked (constM minv) X) = inverseStacked minv (mapCol φ X) := by
  unfold inverseStacked
  rw [hφ.unstack, hφ.matvec_constM, hφ.stack]
  simp

/-! ### filters -/
open Filters

theorem IsProj.bmul_const (ss : List Nat) (s : List K) (ts : List Nat) (X : List (Dual K)) :
    (bmul ss (constL s) ts X).map φ = bmul ss s ts (X.map φ) := by
  apply List.ext_getElem?
  intro i
  simp only [bmul, List.getElem?_map, List.getElem?_mapIdx, constL_getD]
  cases X[i]? <;> simp [hφ.const_mul]

/-- projection of a pytree leaf (shape, data) -/
def mapLeaf (φ : Dual K → K) (leaf : List Nat × List (Dual K)) : List Nat × List K :=
  (leaf.1, leaf.2.map φ)

theorem IsProj.filterLeaf_const (ss : List Nat) (s : List K) (leaf : List Nat × List (Dual K)) :
    mapLeaf φ (filterLeaf ss (constL s) leaf) = filterLeaf ss s (mapLeaf φ leaf) := by
  unfold filterLeaf mapLeaf
  by_cases h : preservesShape leaf.1 ss = true
  · simp [h, hφ.bmul_const]
  · simp [h]

/-- `_make_filter_fn(scaling)` with a constant (static numpy) scaling -/
theorem IsProj.filterTree_const (ss : List Nat) (s : List K) (tree : List (List Nat × List (Dual K))) :
    (filterTree ss (constL s) tree).map (mapLeaf φ) = filterTree ss s (tree.map (mapLeaf φ)) := by
  simp [filterTree, List.map_map, Function.comp_def, hφ.filterLeaf_const]

theorem IsProj.raPoint_const (r : K) (p c f : Dual K) :
    φ (raPoint (const r) p c f) = raPoint r (φ p) (φ c) (φ f) := by
  unfold raPoint
  rw [hφ.add, ← const_one, const_add, Dual.const_mul, const_sub, hφ.const_mul, hφ.const_mul, hφ.add]

theorem IsProj.map3_raPoint (r : K) (P C F : List (Dual K)) :
    (map3 (raPoint (const r)) P C F).map φ = map3 (raPoint r) (P.map φ) (C.map φ) (F.map φ) := by
  induction P generalizing C F with
  | nil => simp [map3]
  | cons p ps ih =>
    cases C with
    | nil => simp [map3]
    | cons c cs =>
      cases F with
      | nil => simp [map3]
      | cons f fs => simp [map3, hφ.raPoint_const, ih]

end proj2

/-! ### shallow-water implicit terms and their Schur-complement inverse (scalars) -/
section sw
variable {K : Type} [Field K] {φ : Dual K → K} (hφ : IsProj φ)
include hφ
open Implicit

theorem IsProj.swImplicit_const (lam phi : K) (D P : Dual K) :
    (φ (swImplicit (const lam) (const phi) D P).1, φ (swImplicit (const lam) (const phi) D P).2)
      = swImplicit lam phi (φ D) (φ P) := by
  simp [swImplicit, hφ.neg, hφ.const_mul]

theorem IsProj.swInverse_const (eta lam phi : K) (D P : Dual K) :
    (φ (swInverse (const eta) (const lam) (const phi) D P).1,
     φ (swInverse (const eta) (const lam) (const phi) D P).2)
      = swInverse eta lam phi (φ D) (φ P) := by
  unfold swInverse
  simp only [← const_one, Dual.const_mul, const_sub, const_div, const_neg, hφ.const_mul, hφ.sub, hφ.add]

end sw

end Dino.AD

/-! ## `Dino.Interp.interp` at dual numbers (constant nodes) -/
namespace Dino.AD
open Dino Dual Interp

section interp
variable {K : Type} [Field K] [LinearOrder K] [IsStrictOrderedRing K]

theorem ssr_constL (xp : List K) (X : Dual K) : ssr (constL xp) X = ssr xp X.v := by
  unfold ssr constL
  rw [List.countP_map]
  apply List.countP_congr
  intro a _
  show decide (¬ X < const a) = true ↔ decide (¬ X.v < a) = true
  simp only [decide_eq_true_eq]
  exact Iff.rfl

theorem cellIdx_constL (xp : List K) (X : Dual K) : cellIdx (constL xp) X = cellIdx xp X.v := by
  unfold cellIdx
  rw [ssr_constL]
  simp [constL]

theorem constL_headD (xp : List K) : (constL xp).headD 0 = const (xp.headD 0) := by
  cases xp <;> rfl

theorem constL_getLastD (xp : List K) : (constL xp).getLastD 0 = const (xp.getLastD 0) := by
  rcases List.eq_nil_or_concat xp with rfl | ⟨l, a, rfl⟩
  · rfl
  · simp [constL]

theorem absK_const (a : K) : Interp.absK (const a) = const (Interp.absK a) := by
  unfold Interp.absK
  by_cases h : a < 0
  · have h' : (const a : Dual K) < 0 := h
    rw [if_pos h, if_pos h', const_neg]
  · have h' : ¬ (const a : Dual K) < 0 := h
    rw [if_neg h, if_neg h']

/-- the branch structure of `interp` with constant nodes and guard depends on the value of the
 query only; on the interior branch the result is the cell formula evaluated in `Dual K` -/
theorem interp_dual_normal (eps : K) (xp : List K) (FP : List (Dual K)) (X : Dual K) :
    interp (const eps) (constL xp) FP X
      = if xp.getLastD 0 < X.v then FP.getLastD 0
        else if X.v < xp.headD 0 then FP.headD 0
        else
          if ¬ eps < Interp.absK (xp.getD (cellIdx xp X.v) 0 - xp.getD (cellIdx xp X.v - 1) 0)
          then FP.getD (cellIdx xp X.v - 1) 0
          else FP.getD (cellIdx xp X.v - 1) 0
            + ((X - const (xp.getD (cellIdx xp X.v - 1) 0))
                / const (xp.getD (cellIdx xp X.v) 0 - xp.getD (cellIdx xp X.v - 1) 0))
              * (FP.getD (cellIdx xp X.v) 0 - FP.getD (cellIdx xp X.v - 1) 0) := by
  unfold interp interpCore
  simp only [cellIdx_constL, constL_headD, constL_getLastD, constL_getD, const_sub, absK_const]
  have e1 : ∀ a : K, (const a < X) = (a < X.v) := fun _ => rfl
  have e2 : ∀ a : K, (X < const a) = (X.v < a) := fun _ => rfl
  have e3 : ∀ a b : K, ((const a : Dual K) < const b) = (a < b) := fun _ _ => rfl
  simp only [e1, e2, e3, decide_not, Bool.not_eq_eq_eq_not, Bool.not_true, decide_eq_false_iff_not,
    ite_not]
  split_ifs <;> rfl

end interp

end Dino.AD

/-! ## Jacobians as matrices: JVP, VJP, pairing, chains -/
namespace Dino.AD
open Dino Dino.Lin Finset

section pairing
variable {K : Type} [CommRing K]

theorem ext_ent {a b : List K} (hl : a.length = b.length) (h : ∀ i, ent a i = ent b i) : a = b := by
  apply List.ext_getElem hl
  intro i h1 h2
  have := h i
  simpa [ent, List.getD_eq_getElem?_getD, List.getElem?_eq_getElem h1, List.getElem?_eq_getElem h2]
    using this

@[simp] theorem jvp_length (J : List (List K)) (v : List K) : (jvp J v).length = J.length := by
  simp [jvp]

/-- `(J v)_i = Σ_k J_ik v_k` -/
theorem ent_jvp (J : List (List K)) (v : List K) (n i : Nat) (hJ : ∀ row ∈ J, row.length = n) :
    ent (jvp J v) i = ∑ k ∈ range n, ent2 J i k * ent v k := by
  unfold jvp
  by_cases hi : i < J.length
  · have : ent (J.map fun row => dotv row v) i = dotv J[i] v := by
      simp [ent, List.getD_eq_getElem?_getD, List.getElem?_map, List.getElem?_eq_getElem hi]
    rw [this, dotv_eq_sum _ _ n (by rw [hJ _ (List.getElem_mem hi)]; omega)]
    simp [ent2, ent, List.getD_eq_getElem?_getD, List.getElem?_eq_getElem hi]
  · have hi' : J.length ≤ i := by omega
    rw [ent_of_length_le _ _ (by simpa using hi')]
    symm
    apply Finset.sum_eq_zero
    intro k _
    simp [ent2, List.getD_eq_getElem?_getD, List.getElem?_eq_none hi']

theorem transposeM_rows (J : List (List K)) (n : Nat) : ∀ row ∈ transposeM J n, row.length = J.length := by
  intro row hr
  simp only [transposeM, List.mem_map] at hr
  obtain ⟨c, _, rfl⟩ := hr
  exact col_length J c

@[simp] theorem transposeM_length (J : List (List K)) (n : Nat) : (transposeM J n).length = n := by
  simp [transposeM]

theorem ent2_transposeM (J : List (List K)) (n k i : Nat) (hk : k < n) :
    ent2 (transposeM J n) k i = ent2 J i k := by
  rw [ent2_eq_ent]
  simp only [transposeM, List.getD_eq_getElem?_getD, List.getElem?_map, List.getElem?_range hk,
    Option.map_some, Option.getD_some]
  exact ent_col J k i

@[simp] theorem vjp_length (J : List (List K)) (n : Nat) (w : List K) : (vjp J n w).length = n := by
  simp [vjp]

/-- `(Jᵀ w)_k = Σ_i J_ik w_i` for `k < n` -/
theorem ent_vjp (J : List (List K)) (n : Nat) (w : List K) (k : Nat) (hk : k < n) :
    ent (vjp J n w) k = ∑ i ∈ range J.length, ent2 J i k * ent w i := by
  unfold vjp
  rw [ent_jvp _ _ J.length k (transposeM_rows J n)]
  apply Finset.sum_congr rfl
  intro i _
  rw [ent2_transposeM J n k i hk]

/-- **the JVP / VJP pairing** `⟨J v, w⟩ = ⟨v, Jᵀ w⟩` for a Jacobian with `n` inputs -/
theorem pairing (J : List (List K)) (n : Nat) (hJ : ∀ row ∈ J, row.length = n) (v w : List K) :
    dotv (jvp J v) w = dotv v (vjp J n w) := by
  rw [dotv_eq_sum _ _ J.length (by simp), dotv_eq_sum _ _ n (by simp)]
  have e1 : ∀ i ∈ range J.length, ent (jvp J v) i * ent w i
      = ∑ k ∈ range n, ent2 J i k * ent v k * ent w i := by
    intro i _; rw [ent_jvp J v n i hJ, Finset.sum_mul]
  have e2 : ∀ k ∈ range n, ent v k * ent (vjp J n w) k
      = ∑ i ∈ range J.length, ent2 J i k * ent v k * ent w i := by
    intro k hk
    rw [ent_vjp J n w k (Finset.mem_range.mp hk), Finset.mul_sum]
    apply Finset.sum_congr rfl; intro i _; ring
  rw [Finset.sum_congr rfl e1, Finset.sum_congr rfl e2, Finset.sum_comm]

/-- the dimensions of a chain of Jacobians match: the first has `n` inputs, every next one as many
 inputs as the previous one has outputs -/
def ChainOK : Nat → List (List (List K)) → Prop
  | _, [] => True
  | n, J :: Js => (∀ row ∈ J, row.length = n) ∧ ChainOK J.length Js

/-- the pairing is preserved through any number of composed steps -/
theorem chain_pairing (Js : List (List (List K))) (n : Nat) (h : ChainOK n Js) (v w : List K) :
    dotv (jvpChain Js v) w = dotv v (vjpChain Js n w) := by
  induction Js generalizing n v with
  | nil => rfl
  | cons J Js ih =>
    obtain ⟨hJ, hrest⟩ := h
    rw [jvpChain, vjpChain, ih J.length hrest, pairing J n hJ]

/-- the JVP of a product is the composition of the JVPs: `(B A) v = B (A v)` -/
theorem jvp_matMul (A B : List (List K)) (n : Nat) (hA : ∀ row ∈ A, row.length = n)
    (hB : ∀ row ∈ B, row.length = A.length) (v : List K) :
    jvp (matMul B A n) v = jvp B (jvp A v) := by
  apply ext_ent (by simp [matMul])
  intro i
  have hrows : ∀ row ∈ matMul B A n, row.length = n := by
    intro row hr
    simp only [matMul, List.mem_map] at hr
    obtain ⟨r, _, rfl⟩ := hr
    exact vecMat_length _ _ _ hA
  rw [ent_jvp _ _ n i hrows, ent_jvp _ _ A.length i hB]
  have e1 : ∀ k ∈ range n, ent2 (matMul B A n) i k * ent v k
      = ∑ m ∈ range A.length, ent2 B i m * ent2 A m k * ent v k := by
    intro k _
    rw [ent2_matMul B A n i k A.length hA le_rfl, Finset.sum_mul]
  have e2 : ∀ m ∈ range A.length, ent2 B i m * ent (jvp A v) m
      = ∑ k ∈ range n, ent2 B i m * ent2 A m k * ent v k := by
    intro m _
    rw [ent_jvp A v n m hA, Finset.mul_sum]
    apply Finset.sum_congr rfl; intro k _; ring
  rw [Finset.sum_congr rfl e1, Finset.sum_congr rfl e2, Finset.sum_comm]

/-- the chain rule for adjoints `(B A)ᵀ w = Aᵀ (Bᵀ w)`: the VJP of a product is the composition
 of the VJPs in reverse order -/
theorem vjp_matMul (A B : List (List K)) (n : Nat) (hA : ∀ row ∈ A, row.length = n) (w : List K) :
    vjp (matMul B A n) n w = vjp A n (vjp B A.length w) := by
  apply ext_ent (by simp)
  intro k
  by_cases hk : k < n
  · rw [ent_vjp _ n w k hk, ent_vjp A n _ k hk]
    have hlen : (matMul B A n).length = B.length := by simp [matMul]
    rw [hlen]
    have e1 : ∀ i ∈ range B.length, ent2 (matMul B A n) i k * ent w i
        = ∑ m ∈ range A.length, ent2 B i m * ent2 A m k * ent w i := by
      intro i _
      rw [ent2_matMul B A n i k A.length hA le_rfl, Finset.sum_mul]
    have e2 : ∀ m ∈ range A.length, ent2 A m k * ent (vjp B A.length w) m
        = ∑ i ∈ range B.length, ent2 B i m * ent2 A m k * ent w i := by
      intro m hm
      rw [ent_vjp B A.length w m (Finset.mem_range.mp hm), Finset.mul_sum]
      apply Finset.sum_congr rfl; intro i _; ring
    rw [Finset.sum_congr rfl e1, Finset.sum_congr rfl e2, Finset.sum_comm]
  · rw [ent_of_length_le _ _ (by simp; omega), ent_of_length_le _ _ (by simp; omega)]

end pairing
end Dino.AD

/-! ## `interp` is linear in the data -/
namespace Dino.AD
open Dino Dual Interp
section interpData
variable {K : Type} [Field K] [LinearOrder K] [IsStrictOrderedRing K]

/-- the branches of `interp` at `K` (same shape as `interp_dual_normal`) -/
theorem interp_normal (eps : K) (xp fp : List K) (x : K) :
    interp eps xp fp x
      = if xp.getLastD 0 < x then fp.getLastD 0
        else if x < xp.headD 0 then fp.headD 0
        else
          if ¬ eps < Interp.absK (xp.getD (cellIdx xp x) 0 - xp.getD (cellIdx xp x - 1) 0)
          then fp.getD (cellIdx xp x - 1) 0
          else fp.getD (cellIdx xp x - 1) 0
            + ((x - xp.getD (cellIdx xp x - 1) 0)
                / (xp.getD (cellIdx xp x) 0 - xp.getD (cellIdx xp x - 1) 0))
              * (fp.getD (cellIdx xp x) 0 - fp.getD (cellIdx xp x - 1) 0) := by
  unfold interp interpCore
  simp only [decide_not, Bool.not_eq_eq_eq_not, Bool.not_true, decide_eq_false_iff_not, ite_not]
  split_ifs <;> rfl

/-- `interp` is linear in the data with weights that depend on the nodes and the query only:
 under any `K`-module projection of `Dual K` the dual evaluation is the interpolation of the
 projected data -/
theorem IsProj.interp_data {φ : Dual K → K} (hφ : IsProj φ) (eps : K) (xp : List K)
    (FP : List (Dual K)) (x : K) :
    φ (interp (const eps) (constL xp) FP (const x)) = interp eps xp (FP.map φ) x := by
  rw [interp_dual_normal, interp_normal]
  simp only [const_v]
  by_cases h1 : xp.getLastD 0 < x
  · simp only [h1, ↓reduceIte]; exact hφ.getLastD FP
  · simp only [h1, ↓reduceIte]
    by_cases h2 : x < xp.headD 0
    · simp only [h2, ↓reduceIte]; exact hφ.headD FP
    · simp only [h2, ↓reduceIte]
      by_cases h3 : eps < Interp.absK (xp.getD (cellIdx xp x) 0 - xp.getD (cellIdx xp x - 1) 0)
      · simp only [h3, not_true_eq_false, ↓reduceIte]
        rw [hφ.add, const_sub, const_div, hφ.const_mul, hφ.sub, hφ.getD, hφ.getD]
      · simp only [h3, not_false_eq_true, ↓reduceIte]; exact hφ.getD FP _

end interpData
end Dino.AD

/-! ## column routines of `Dino.Dynamics` on columns of dual numbers -/
namespace Dino.AD
open Dino Dual
section column
open Dynamics
variable {K : Type} [Field K] {φ : Dual K → K} (hφ : IsProj φ)
include hφ

theorem IsProj.col_wmul (w : List K) (X : List (Dual K)) :
    (Col.wmul w X).map φ = Col.wmul w (X.map φ) := by
  unfold Col.wmul
  induction w generalizing X with
  | nil => simp
  | cons a t ih => cases X with
    | nil => simp
    | cons x u => simp [hφ.smul, ih, smul_eq_mul]

theorem IsProj.col_cumsumFrom (acc : Dual K) (X : List (Dual K)) :
    (Col.cumsumFrom acc X).map φ = Col.cumsumFrom (φ acc) (X.map φ) := by
  induction X generalizing acc with
  | nil => rfl
  | cons a t ih => simp [Col.cumsumFrom, ih, hφ.add]

theorem IsProj.col_add (A B : List (Dual K)) : (Col.add A B).map φ = Col.add (A.map φ) (B.map φ) := by
  unfold Col.add
  induction A generalizing B with
  | nil => simp
  | cons a t ih => cases B with
    | nil => simp
    | cons b u => simp [hφ.add, ih]

theorem IsProj.col_sub (A B : List (Dual K)) : (Col.sub A B).map φ = Col.sub (A.map φ) (B.map φ) := by
  unfold Col.sub
  induction A generalizing B with
  | nil => simp
  | cons a t ih => cases B with
    | nil => simp
    | cons b u => simp [hφ.sub, ih]

/-- the linear part `G ↦ (α f + shift(α f))/Δσ`, `f = cumsum(Δσ G)` of `_t_omega_over_sigma_sp` -/
def gPart {N : Type} [Add N] [Zero N] [SMul K N] (ds al : List K) (G : List N) : List N :=
  let alphaF := Col.wmul al (Col.cumSigmaIntegral ds G)
  List.zipWith (fun (d : K) (x : N) => (1 / d) • x) ds (Col.add alphaF (((0 : N) :: alphaF).dropLast))

theorem IsProj.gPart (ds al : List K) (G : List (Dual K)) :
    (gPart ds al G).map φ = gPart ds al (G.map φ) := by
  unfold AD.gPart
  simp only
  have h1 : (Col.wmul al (Col.cumSigmaIntegral ds G)).map φ
      = Col.wmul al (Col.cumSigmaIntegral ds (G.map φ)) := by
    rw [hφ.col_wmul]
    unfold Col.cumSigmaIntegral Col.cumsum
    rw [hφ.col_cumsumFrom, hφ.col_wmul, hφ.zero]
  rw [← h1]
  generalize Col.wmul al (Col.cumSigmaIntegral ds G) = A
  have h2 : (Col.add A (((0 : Dual K) :: A).dropLast)).map φ
      = Col.add (A.map φ) (((0 : K) :: A.map φ).dropLast) := by
    rw [hφ.col_add, List.map_dropLast, List.map_cons, hφ.zero]
  rw [← h2]
  generalize Col.add A (((0 : Dual K) :: A).dropLast) = B
  clear h1 h2
  induction ds generalizing B with
  | nil => simp
  | cons d t ih => cases B with
    | nil => simp
    | cons b u => simp only [List.zipWith_cons_cons, List.map_cons, hφ.smul, ih, smul_eq_mul]

end column
end Dino.AD

/-! ## spectral operators that multiply by a static table (`Dino.Grid`) -/
namespace Dino.AD
open Dino Dual Dino.Grid

section grid
variable {K : Type} [Field K] {φ : Dual K → K} (hφ : IsProj φ)
include hφ

theorem IsProj.zipMul_constR (X : List (Dual K)) (c : List K) :
    (List.zipWith (· * ·) X (constL c)).map φ = List.zipWith (· * ·) (X.map φ) c := by
  induction X generalizing c with
  | nil => simp
  | cons x u ih =>
    cases c with
    | nil => simp [constL]
    | cons a t =>
      have := ih t
      simp only [constL] at this ⊢
      simp [hφ.mul_const, this]

/-- multiplication by a static table along the total-wavenumber axis (`laplacian`,
 `inverse_laplacian`, `clip_wavenumbers` are of this form) -/
theorem IsProj.mulCols_const (X : List (List (Dual K))) (v : List K) :
    (mulCols X (constL v)).map (List.map φ) = mulCols (X.map (List.map φ)) v := by
  unfold mulCols
  simp only [List.map_map, Function.comp_def]
  apply List.map_congr_left
  intro row _
  exact hφ.zipMul_constR row v

omit hφ in
theorem eigenvalues_const (ly : Layout) (r : K) :
    eigenvalues ly (Dual.const r) = constL (eigenvalues ly r) := by
  unfold eigenvalues constL
  simp only [List.map_map, Function.comp_def]
  apply List.map_congr_left
  intro l _
  have h1 : ((l : ℕ) : Dual K) = Dual.const (l : K) := rfl
  have h2 : (((l + 1 : ℕ)) : Dual K) = Dual.const ((l + 1 : ℕ) : K) := rfl
  rw [h1, h2, Dual.const_mul, Dual.const_mul, const_neg, const_div]

omit hφ in
theorem inverseEigenvalues_const (ly : Layout) (r : K) :
    inverseEigenvalues ly (Dual.const r) = constL (inverseEigenvalues ly r) := by
  unfold inverseEigenvalues constL
  simp only [List.map_map, Function.comp_def]
  apply List.map_congr_left
  intro j _
  by_cases h : j = 0 ∨ ly.L ≤ j
  · simp only [h, if_true]; rfl
  · simp only [h, if_false]
    rw [eigenvalues_const, constL_getD, ← const_one, const_div]

omit hφ in
theorem clipMask_const (ly : Layout) (n : Nat) :
    (clipMask ly n : List (Dual K)) = constL (clipMask ly n) := by
  unfold clipMask constL
  simp only [List.map_map, Function.comp_def]
  apply List.map_congr_left
  intro j _
  split <;> rfl

theorem IsProj.laplacian_const (ly : Layout) (r : K) (X : List (List (Dual K))) :
    (laplacian ly (Dual.const r) X).map (List.map φ) = laplacian ly r (X.map (List.map φ)) := by
  unfold laplacian
  rw [eigenvalues_const, hφ.mulCols_const]

theorem IsProj.inverseLaplacian_const (ly : Layout) (r : K) (X : List (List (Dual K))) :
    (inverseLaplacian ly (Dual.const r) X).map (List.map φ)
      = inverseLaplacian ly r (X.map (List.map φ)) := by
  unfold inverseLaplacian
  rw [inverseEigenvalues_const, hφ.mulCols_const]

theorem IsProj.clip_const (ly : Layout) (n : Nat) (X : List (List (Dual K))) :
    (clip ly n X).map (List.map φ) = clip ly n (X.map (List.map φ)) := by
  unfold clip
  rw [clipMask_const, hφ.mulCols_const]

end grid
end Dino.AD
