import DinoProofs.Lemmas.GridLinear
import Mathlib.Algebra.Order.BigOperators.Group.Finset
import Mathlib.Algebra.Order.Field.Basic
import Mathlib.Tactic.Linarith

/-!
# ε-extension from unit fields (ordered fields)

`linMap_ext_eps`: two linear maps `Φ`, `Ψ` on `R × C` arrays whose output entry `(a, b)` differs on every unit
array `E_{ij}` of a support set `P` by at most `δ·|λ_{ij}|` differ, in that entry, by at most `(R·C)·δ·B` on every
array `x` supported in `P` with `|x_{ij}·λ_{ij}| ≤ B`.  With `Ψ = ∇²` (`λ_{ij}` = its eigenvalue, so that
`x_{ij}·λ_{ij} = (∇²x)_{ij}`) this is the ε-version of `linMap_ext` that `Dino.C02.hypA_eps_of_units` /
`hypB_eps_of_units` need: residuals of Hyp-A / Hyp-B on the finitely many unit fields of the domain bound the
residuals on the whole domain, relative to `max|∇²ψ|`.
-/
set_option linter.unusedSectionVars false
set_option linter.unusedVariables false

namespace Dino.Grid
open Finset Dino.Lin

section eps
variable {K : Type} [Field K] [LinearOrder K] [IsStrictOrderedRing K]

/-- **ε-extension from unit fields**, per-unit bounds `d i j` (weighted by `|λ_{ij}|`): the residual of a general
 array is at most `(Σ_{(i,j) ∈ P} d i j)·B` -/
theorem linMap_ext_eps_sum (R C R' C' : Nat) (Φ Ψ : List (List K) → List (List K))
    (hΦ : LinMap R C R' C' Φ) (hΨ : LinMap R C R' C' Ψ) (P : Nat → Nat → Prop) [DecidablePred fun k : Nat => P (k / C) (k % C)]
    (lam d : Nat → Nat → K) (a b : Nat)
    (hd : ∀ i < R, ∀ j < C, P i j → 0 ≤ d i j)
    (hunit : ∀ i < R, ∀ j < C, P i j →
      |ent2 (Φ (unitM R C i j)) a b - ent2 (Ψ (unitM R C i j)) a b| ≤ d i j * |lam i j|)
    (x : List (List K)) (hx : IsMat x R C) (hsupp : ∀ i j, ¬ P i j → ent2 x i j = 0)
    (B : K) (hB : ∀ i < R, ∀ j < C, |ent2 x i j * lam i j| ≤ B) :
    |ent2 (Φ x) a b - ent2 (Ψ x) a b|
      ≤ (∑ k ∈ range (R * C), if P (k / C) (k % C) then d (k / C) (k % C) else 0) * B := by
  rw [linMap_repr R C R' C' Φ hΦ x hx, linMap_repr R C R' C' Ψ hΨ x hx, ← Finset.sum_sub_distrib,
    Finset.sum_mul]
  refine le_trans (Finset.abs_sum_le_sum_abs _ _) (Finset.sum_le_sum ?_)
  intro k hk
  have hkRC := Finset.mem_range.mp hk
  have hC : 0 < C := by
    rcases Nat.eq_zero_or_pos C with h | h
    · subst h; simp at hkRC
    · exact h
  have hi : k / C < R := by rw [Nat.div_lt_iff_lt_mul hC]; exact hkRC
  have hj : k % C < C := Nat.mod_lt k hC
  have hB0 : 0 ≤ B := le_trans (abs_nonneg _) (hB _ hi _ hj)
  by_cases hP : P (k / C) (k % C)
  · rw [if_pos hP, ← mul_sub, abs_mul]
    have h1 := hunit _ hi _ hj hP
    have h2 := hB _ hi _ hj
    rw [abs_mul] at h2
    have hd0 := hd _ hi _ hj hP
    calc |ent2 x (k / C) (k % C)| * |ent2 (Φ (unitM R C (k / C) (k % C))) a b
            - ent2 (Ψ (unitM R C (k / C) (k % C))) a b|
        ≤ |ent2 x (k / C) (k % C)| * (d (k / C) (k % C) * |lam (k / C) (k % C)|) :=
          mul_le_mul_of_nonneg_left h1 (abs_nonneg _)
      _ = d (k / C) (k % C) * (|ent2 x (k / C) (k % C)| * |lam (k / C) (k % C)|) := by ring
      _ ≤ d (k / C) (k % C) * B := mul_le_mul_of_nonneg_left h2 hd0
  · rw [if_neg hP, hsupp _ _ hP, zero_mul, zero_mul, sub_zero, abs_zero, zero_mul]

/-- **ε-extension from unit fields**, uniform bound: factor = number `R·C` of unit arrays -/
theorem linMap_ext_eps (R C R' C' : Nat) (Φ Ψ : List (List K) → List (List K))
    (hΦ : LinMap R C R' C' Φ) (hΨ : LinMap R C R' C' Ψ) (P : Nat → Nat → Prop)
    (lam : Nat → Nat → K) (a b : Nat) (δ : K) (hδ : 0 ≤ δ)
    (hunit : ∀ i < R, ∀ j < C, P i j →
      |ent2 (Φ (unitM R C i j)) a b - ent2 (Ψ (unitM R C i j)) a b| ≤ δ * |lam i j|)
    (x : List (List K)) (hx : IsMat x R C) (hsupp : ∀ i j, ¬ P i j → ent2 x i j = 0)
    (B : K) (hB : ∀ i < R, ∀ j < C, |ent2 x i j * lam i j| ≤ B) :
    |ent2 (Φ x) a b - ent2 (Ψ x) a b| ≤ ((R * C : ℕ) : K) * δ * B := by
  classical
  have h := linMap_ext_eps_sum R C R' C' Φ Ψ hΦ hΨ P lam (fun _ _ => δ) a b (fun _ _ _ _ _ => hδ) hunit x hx
    hsupp B hB
  refine le_trans h ?_
  rcases Nat.eq_zero_or_pos (R * C) with h0 | hpos
  · rw [h0]; simp
  · have hB0 : 0 ≤ B := by
      have hC : 0 < C := Nat.pos_of_mul_pos_left hpos
      have hR : 0 < R := Nat.pos_of_mul_pos_right hpos
      exact le_trans (abs_nonneg _) (hB 0 hR 0 hC)
    apply mul_le_mul_of_nonneg_right _ hB0
    calc (∑ k ∈ range (R * C), if P (k / C) (k % C) then δ else 0)
        ≤ ∑ k ∈ range (R * C), δ := Finset.sum_le_sum (fun k _ => by split <;> [exact le_refl _; exact hδ])
      _ = ((R * C : ℕ) : K) * δ := by rw [Finset.sum_const, Finset.card_range, nsmul_eq_mul]

end eps
end Dino.Grid
