import Dino.Sigma
import Mathlib.Algebra.Field.Basic
import Mathlib.Algebra.BigOperators.Group.List.Basic
import Mathlib.Tactic.Ring
import Mathlib.Tactic.FieldSimp
import Mathlib.Tactic.Linarith

namespace Dino.Sigma
variable {K : Type} [Field K]

@[simp] theorem cumsumFrom_length (acc : K) (x : List K) : (cumsumFrom acc x).length = x.length := by
  induction x generalizing acc with
  | nil => rfl
  | cons a t ih => simp [cumsumFrom, ih]

@[simp] theorem rcumsum_length (x : List K) : (rcumsum x).length = x.length := by
  induction x with
  | nil => rfl
  | cons a t ih => simp [rcumsum, ih]

theorem cumsumFrom_eq_map (acc : K) (x : List K) :
    cumsumFrom acc x = (cumsumFrom 0 x).map (acc + ·) := by
  induction x generalizing acc with
  | nil => rfl
  | cons a t ih =>
    simp only [cumsumFrom, List.map_cons, zero_add]
    rw [ih (acc + a), ih a]
    simp [List.map_map, Function.comp_def, add_assoc]

theorem rcumsum_headD (x : List K) : (rcumsum x).headD 0 = x.sum := by
  induction x with
  | nil => rfl
  | cons a t ih => rw [rcumsum, List.headD_cons, ih, List.sum_cons]

theorem cumsumFrom_getLast (acc : K) (x : List K) (h : x ≠ []) :
    (cumsumFrom acc x).getLast? = some (acc + x.sum) := by
  induction x generalizing acc with
  | nil => exact absurd rfl h
  | cons a t ih =>
    cases t with
    | nil => simp [cumsumFrom]
    | cons c u =>
      rw [cumsumFrom, List.getLast?_cons, ih (acc + a) (by simp)]
      simp [add_assoc]

/-- down + up = total + local, for the running sums starting at `acc` -/
theorem cumsumFrom_add_rcumsum (acc : K) (x : List K) :
    List.zipWith (· + ·) (cumsumFrom acc x) (rcumsum x) = x.map (fun a => acc + x.sum + a) := by
  induction x generalizing acc with
  | nil => rfl
  | cons a t ih =>
    rw [cumsumFrom, rcumsum, List.zipWith_cons_cons, ih (acc + a), rcumsum_headD]
    simp only [List.map_cons, List.sum_cons]
    congr 1
    · ring
    · apply List.map_congr_left; intro c _; ring


theorem cumsumFrom_getElem? (acc : K) (x : List K) (j : Nat) :
    (cumsumFrom acc x)[j]? = if j < x.length then some (acc + (x.take (j + 1)).sum) else none := by
  induction x generalizing acc j with
  | nil => simp [cumsumFrom]
  | cons a t ih =>
    cases j with
    | zero => simp [cumsumFrom]
    | succ j =>
      rw [cumsumFrom, List.getElem?_cons_succ, ih]
      simp [add_assoc]

theorem rcumsum_getElem? (x : List K) (j : Nat) :
    (rcumsum x)[j]? = if j < x.length then some ((x.drop j).sum) else none := by
  induction x generalizing j with
  | nil => simp [rcumsum]
  | cons a t ih =>
    cases j with
    | zero =>
      have := rcumsum_headD t
      rw [List.headD_eq_head?_getD] at this
      simp [rcumsum, this]
    | succ j => rw [rcumsum, List.getElem?_cons_succ, ih]; simp

/-- the 0/1 lower-triangular contraction is a prefix sum -/
theorem dot_le_sum (x : List K) (j : Nat) :
    ((List.range x.length).map fun i => (if i ≤ j then (1 : K) else 0) * x.getD i 0).sum
      = (x.take (j + 1)).sum := by
  induction x generalizing j with
  | nil => simp
  | cons a t ih =>
    rw [List.length_cons, List.range_succ_eq_map, List.map_cons, List.map_map, List.sum_cons]
    cases j with
    | zero =>
      have : (List.map ((fun i => (if i ≤ 0 then (1 : K) else 0) * (a :: t).getD i 0) ∘ Nat.succ)
          (List.range t.length)) = (List.range t.length).map (fun _ => (0 : K)) := by
        apply List.map_congr_left; intro i _; simp
      rw [this]; simp
    | succ j =>
      have : (List.map ((fun i => (if i ≤ j + 1 then (1 : K) else 0) * (a :: t).getD i 0) ∘ Nat.succ)
          (List.range t.length))
          = (List.range t.length).map (fun i => (if i ≤ j then (1 : K) else 0) * t.getD i 0) := by
        apply List.map_congr_left; intro i _; simp
      rw [this, ih]; simp

theorem dot_ge_sum (x : List K) (j : Nat) :
    ((List.range x.length).map fun i => (if i ≥ j then (1 : K) else 0) * x.getD i 0).sum
      = (x.drop j).sum := by
  induction x generalizing j with
  | nil => simp
  | cons a t ih =>
    rw [List.length_cons, List.range_succ_eq_map, List.map_cons, List.map_map, List.sum_cons]
    cases j with
    | zero =>
      have : (List.map ((fun i => (if i ≥ 0 then (1 : K) else 0) * (a :: t).getD i 0) ∘ Nat.succ)
          (List.range t.length))
          = (List.range t.length).map (fun i => (if i ≥ 0 then (1 : K) else 0) * t.getD i 0) := by
        apply List.map_congr_left; intro i _; simp
      rw [this, ih]; simp
    | succ j =>
      have : (List.map ((fun i => (if i ≥ j + 1 then (1 : K) else 0) * (a :: t).getD i 0) ∘ Nat.succ)
          (List.range t.length))
          = (List.range t.length).map (fun i => (if i ≥ j then (1 : K) else 0) * t.getD i 0) := by
        apply List.map_congr_left; intro i _; simp
      rw [this, ih]; simp

theorem dotCumsum_false (x : List K) : dotCumsum false x = cumsum x := by
  apply List.ext_getElem?
  intro j
  unfold dotCumsum cumsum
  rw [cumsumFrom_getElem?]
  by_cases h : j < x.length
  · simp only [h, if_true, List.getElem?_map, List.getElem?_range h, Option.map_some, zero_add]
    congr 1
    simpa using dot_le_sum x j
  · simp [h]

theorem dotCumsum_true (x : List K) : dotCumsum true x = rcumsum x := by
  apply List.ext_getElem?
  intro j
  unfold dotCumsum
  rw [rcumsum_getElem?]
  by_cases h : j < x.length
  · simp only [h, if_true, List.getElem?_map, List.getElem?_range h, Option.map_some]
    congr 1
    simpa using dot_ge_sum x j
  · simp [h]

theorem rcumsumFlip_eq (x : List K) : rcumsumFlip x = rcumsum x := by
  apply List.ext_getElem?
  intro j
  unfold rcumsumFlip cumsum
  rw [rcumsum_getElem?]
  by_cases h : j < x.length
  · rw [List.getElem?_reverse (by simpa using h), cumsumFrom_getElem?]
    have h2 : x.length - 1 - j < x.length := by omega
    simp only [cumsumFrom_length, List.length_reverse, h2, h, if_true, zero_add]
    congr 1
    rw [List.take_reverse, List.sum_reverse]
    congr 2
    omega
  · rw [List.getElem?_eq_none (by simpa using h)]; simp [h]


/-! ### differences, centers, centred difference -/

@[simp] theorem diffs_length (x : List K) : (diffs x).length = x.length - 1 := by
  induction x with
  | nil => rfl
  | cons a t ih =>
    cases t with
    | nil => rfl
    | cons c u => simp [diffs, ih]

@[simp] theorem centers_length (x : List K) : (centers x).length = x.length - 1 := by
  induction x with
  | nil => rfl
  | cons a t ih =>
    cases t with
    | nil => rfl
    | cons c u => simp [centers, ih]

theorem diffs_map_affine (a s : K) (x : List K) :
    diffs (x.map fun c => a + s * c) = (diffs x).map (s * ·) := by
  induction x with
  | nil => rfl
  | cons p t ih =>
    cases t with
    | nil => rfl
    | cons q u =>
      simp only [List.map_cons, diffs] at ih ⊢
      rw [ih]; congr 1; ring

/-- centre-to-centre distance = mean of the two adjacent thicknesses -/
theorem centerToCenter_eq (b : List K) [NeZero ((1 : K) + 1)] :
    centerToCenter b =
      List.zipWith (fun hi lo => (hi + lo) / (1 + 1)) (thickness b).tail (thickness b) := by
  unfold centerToCenter thickness
  induction b with
  | nil => rfl
  | cons p t ih =>
    cases t with
    | nil => rfl
    | cons q u =>
      cases u with
      | nil => rfl
      | cons r v =>
        simp only [centers, diffs, List.tail_cons, List.zipWith_cons_cons] at ih ⊢
        rw [ih]
        congr 1
        have h2 : ((1 : K) + 1) ≠ 0 := NeZero.ne _
        field_simp
        ring

/-! ### summation by parts -/

theorem sbp_aux (c p : K) (g d : List K) (h : g.length + 1 = d.length) :
    (mulv d (List.zipWith (fun hi lo => c * (hi + lo)) (g ++ [0]) (p :: (g ++ [0])))).sum
      = c * (p * d.headD 0 + (mulv g (addv d.tail d)).sum) := by
  induction g generalizing d p with
  | nil =>
    match d, h with
    | [d0], _ => simp [mulv, addv]; ring
  | cons g0 g' ih =>
    match d, h with
    | d0 :: d1 :: d', h =>
      have h' : g'.length + 1 = (d1 :: d').length := by simpa using h
      have := ih g0 (d1 :: d') h'
      simp only [mulv, addv, List.cons_append, List.zipWith_cons_cons, List.sum_cons,
        List.headD_cons, List.tail_cons] at this ⊢
      rw [this]; ring

theorem abel_aux (p : K) (w x : List K) (h : w.length + 1 = x.length) :
    (mulv x (diffs (p :: (w ++ [0])))).sum = -(p * x.headD 0 + (mulv w (diffs x)).sum) := by
  induction w generalizing x p with
  | nil =>
    match x, h with
    | [x0], _ => simp [mulv, diffs]; ring
  | cons w0 w' ih =>
    match x, h with
    | x0 :: x1 :: x', h =>
      have h' : w'.length + 1 = (x1 :: x').length := by simpa using h
      have := ih w0 (x1 :: x') h'
      simp only [mulv, List.cons_append, diffs, List.zipWith_cons_cons, List.sum_cons,
        List.headD_cons] at this ⊢
      rw [this]; ring


theorem sum_smul (c : K) (x : List K) : (smul c x).sum = c * x.sum := by
  induction x with
  | nil => simp [smul]
  | cons a t ih => simp only [smul, List.map_cons, List.sum_cons] at ih ⊢; rw [ih]; ring

theorem sigmaRatios_cons_exists (l : K) (lc : List K) :
    ∃ a al, sigmaRatios (l :: lc) = a :: al := by
  cases lc with
  | nil => exact ⟨_, _, rfl⟩
  | cons l1 r => exact ⟨_, _, rfl⟩

end Dino.Sigma
