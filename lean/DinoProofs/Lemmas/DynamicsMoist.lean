import DinoProofs.Lemmas.Dynamics

/-!
# The moist classes under a shift of the reference temperature (C04, T4.3 / T4.4)

`DinoProofs/Lemmas/Dynamics.lean` ends with the temperature equation of the moist classes
(`moist_thermo_level`).  This file adds the momentum equations and the assembly:

* `rTvOf` — the value of `_virtual_temperature` for a column of factors `F`
  (`F = 1 + ε q` for `MoistPrimitiveEquations`, `F = 1 + ε q − q_l − q_i` for the cloud class);
* `lv_humVortOf`, `lv_humDivOf` — the two humidity corrections level by level: they are
  `T_ref·(R_v − R)` times the *product-rule form* `∇q×∇p` resp. `∇q·∇p + q∇²p`;
* `clip_curl_Y`, `clip_div_Y` — the `T_ref`-share of the bulk pressure-gradient term is the
  *flux form* `curl/div(F ∇p)`; `MoistLaws` identifies the two forms;
* `moist_total_shift` — `explicit + implicit` after the shift `T_ref → T_ref − dT`,
  `T' → T' + dT·1` equals the unshifted one **plus** `R·dT·clip((curl|div)(c ∇ln p_s))`, where
  `c = 1 + ε q − F` is whatever the class subtracts from the moist factor (the condensate).
-/
namespace Dino.Dynamics
open Dino Dino.Sigma

section moist2
set_option linter.unusedSectionVars false
variable {K M N : Type} [Field K] [DecidableEq K] [AddCommGroup M] [Module K M] [CommRing N] [Algebra K N]
  [Div N]

/-- `R · T' · F` level by level: the value of `_virtual_temperature` when the class multiplies
 `T'` with the factor column `F` -/
def rTvOf (R : K) (t F : List N) : List N := List.zipWith (fun t f => (R • t) * f) t F

theorem rTvOf_shift (R : K) (t F : List N) (dT : List K) :
    rTvOf R (shiftN t dT) F
      = Col.add (rTvOf R t F) (List.zipWith (fun (d : K) (f : N) => (R * d) • f) dT F) := by
  apply List.ext_getElem
  · simp [rTvOf, shiftN, Col.add]
  · intro i h1 h2
    simp only [rTvOf, shiftN, Col.add, List.getElem_zipWith]
    simp only [smul_add, add_mul, smul_smul, smul_mul_assoc, one_mul]

theorem lv_zerosLike {V W : Type} [Zero V] (x : List W) (i : ℕ) :
    lv (Col.zerosLike x : List V) i = 0 := by
  unfold Col.zerosLike
  by_cases h : i < x.length
  · rw [lv_def, List.getElem?_map, List.getElem?_eq_getElem h]; rfl
  · exact lv_of_ge (by simpa using h)

/-- the product-rule form of `curl(q ∇p)` -/
def curlProd (h : HOps K M N) (qm p : M) : M :=
  h.toModal (h.sec2Lat * ((nodalGrad h qm).1 * (nodalGrad h p).2 - (nodalGrad h qm).2 * (nodalGrad h p).1))

/-- the product-rule form of `div(q ∇p)` -/
def divProd (h : HOps K M N) (qm p : M) : M :=
  h.toModal (h.sec2Lat * ((nodalGrad h qm).1 * (nodalGrad h p).1 + (nodalGrad h qm).2 * (nodalGrad h p).2)
    + h.toNodal qm * h.toNodal (h.laplacian p))

theorem nodalCosLatGradQ_length (eq : PrimitiveEquations K M N) (qm : List M) :
    (MoistPrimitiveEquations.nodalCosLatGradQ eq qm).length = qm.length := by
  simp [MoistPrimitiveEquations.nodalCosLatGradQ]

theorem lv_nodalCosLatGradQ (eq : PrimitiveEquations K M N) (qm : List M) (i : ℕ) (hi : i < qm.length) :
    lv (MoistPrimitiveEquations.nodalCosLatGradQ eq qm) i = nodalGrad eq.ops (lv qm i) := by
  unfold MoistPrimitiveEquations.nodalCosLatGradQ
  rw [lv_map _ _ hi]
  rfl

/-- `vorticity_tendency_due_to_humidity`, level by level: `−T_ref·(R_v − R)·to_modal(sec²θ ∇q×∇p)` -/
theorem lv_humVortOf (eq : PrimitiveEquations K M N) (L : Laws eq.ops) (qm : List M) (aux : Diag N) (p : M)
    (n : ℕ) (hg : aux.cosLatGradLogSp = nodalGrad eq.ops p) (htr : eq.referenceTemperature.length = n)
    (hqn : qm.length = n) (i : ℕ) (hi : i < n) :
    lv (humVortOf eq qm aux) i
      = -((lv eq.referenceTemperature i * (eq.phys.Rvapor - eq.phys.R)) • curlProd eq.ops (lv qm i) p) := by
  unfold humVortOf
  rw [lv_map _ _ (by simp [PrimitiveEquations.tRef, htr, nodalCosLatGradQ_length, hqn]; exact hi),
    lv_zipWith _ _ _ (by simp [PrimitiveEquations.tRef, htr]; exact hi)
      (by rw [nodalCosLatGradQ_length, hqn]; exact hi),
    lv_nodalCosLatGradQ eq qm i (by rw [hqn]; exact hi), PrimitiveEquations.tRef,
    lv_map _ _ (by rw [htr]; exact hi), hg, curlProd, ← L.toModal_lin.map_smul, ← L.toModal_lin.map_neg]
  congr 1
  simp only [constN_eq, Algebra.smul_def, map_mul]
  ring

theorem humVortOf_length (eq : PrimitiveEquations K M N) (qm : List M) (aux : Diag N) (n : ℕ)
    (htr : eq.referenceTemperature.length = n) (hqn : qm.length = n) :
    (humVortOf eq qm aux).length = n := by
  simp [humVortOf, PrimitiveEquations.tRef, nodalCosLatGradQ_length, htr, hqn]

/-- the column `(R_v/R − 1)·q·(T' + T_ref)` whose geopotential `divergence_tendency_due_to_humidity` takes -/
def tdiffOf (eq : PrimitiveEquations K M N) (q : List N) (aux : Diag N) : List N :=
  List.zipWith (fun qq t => (eq.phys.Rvapor / eq.phys.R - 1) • (qq * t)) q
    (Col.add aux.temperatureVariation eq.tRef)

/-- the absolute temperature is not changed by the shift -/
theorem absT_shift (eq : PrimitiveEquations K M N) (t : List N) (dT : List K) (n : ℕ)
    (htr : eq.referenceTemperature.length = n) (ht : t.length = n) (hd : dT.length = n) :
    Col.add (shiftN t dT) (withTRef eq (Col.sub eq.referenceTemperature dT)).tRef = Col.add t eq.tRef := by
  apply ext_lv (n := n)
  · simp [Col.add, shiftN, PrimitiveEquations.tRef, withTRef, Col.sub, htr, ht, hd]
  · simp [Col.add, PrimitiveEquations.tRef, htr, ht]
  intro i hi
  rw [lv_add _ _ (by simp [shiftN, PrimitiveEquations.tRef, withTRef, Col.sub, htr, ht, hd]),
    lv_add _ _ (by simp [PrimitiveEquations.tRef, htr, ht]), shiftN,
    lv_zipWith _ _ _ (by rw [ht]; exact hi) (by rw [hd]; exact hi), PrimitiveEquations.tRef,
    PrimitiveEquations.tRef, lv_map_zero _ constN_zero, lv_map_zero _ constN_zero]
  show _ + constN (lv (Col.sub eq.referenceTemperature dT) i) = _
  rw [lv_sub _ _ (by rw [htr, hd])]
  simp only [constN]
  module

theorem tdiffOf_shift (eq : PrimitiveEquations K M N) (q : List N) (aux : Diag N) (dT : List K) (n : ℕ)
    (htr : eq.referenceTemperature.length = n) (ht : aux.temperatureVariation.length = n)
    (hd : dT.length = n) :
    tdiffOf (withTRef eq (Col.sub eq.referenceTemperature dT)) q (aux.withT (shiftN aux.temperatureVariation dT))
      = tdiffOf eq q aux := by
  unfold tdiffOf
  show List.zipWith _ q (Col.add (shiftN aux.temperatureVariation dT) _) = _
  rw [absT_shift eq _ dT n htr ht hd]
  rfl

theorem geopotentialDiff_length {V : Type} [AddCommGroup V] [Module K V] (eq : PrimitiveEquations K M N)
    (x : List V) (n : ℕ) (hal : eq.vert.alpha.length = n) : (eq.geopotentialDiff x).length = n := by
  simp [PrimitiveEquations.geopotentialDiff, Col.matvec, hal]

/-- `divergence_tendency_due_to_humidity`, level by level:
 `−∇²(geopotential of (R_v/R−1)·q·T) − T_ref·(R_v − R)·to_modal(sec²θ ∇q·∇p + q ∇²p)` -/
theorem lv_humDivOf (eq : PrimitiveEquations K M N) (L : Laws eq.ops) (qm : List M) (aux : Diag N) (p : M)
    (n : ℕ) (hg : aux.cosLatGradLogSp = nodalGrad eq.ops p) (htr : eq.referenceTemperature.length = n)
    (hal : eq.vert.alpha.length = n) (hqn : qm.length = n) (i : ℕ) (hi : i < n) :
    lv (humDivOf eq p (qm.map eq.ops.toNodal) qm aux) i
      = -(eq.ops.laplacian (eq.ops.toModal
            (lv (eq.geopotentialDiff (tdiffOf eq (qm.map eq.ops.toNodal) aux)) i)))
        - (lv eq.referenceTemperature i * (eq.phys.Rvapor - eq.phys.R)) • divProd eq.ops (lv qm i) p := by
  unfold humDivOf
  simp only []
  have hgd := geopotentialDiff_length eq (tdiffOf eq (qm.map eq.ops.toNodal) aux) n hal
  change lv (List.zipWith _ (eq.geopotentialDiff (tdiffOf eq (qm.map eq.ops.toNodal) aux)) _) i = _
  rw [lv_zipWith _ _ _ (lt_of_lt_of_eq hi hgd.symm)
      (by simp [Col.add, PrimitiveEquations.tRef, htr, nodalCosLatGradQ_length, hqn]; exact hi),
    lv_add _ _ (by simp [PrimitiveEquations.tRef, htr, nodalCosLatGradQ_length, hqn]),
    lv_zipWith _ _ _ (by simp [PrimitiveEquations.tRef, htr]; exact hi)
      (by rw [nodalCosLatGradQ_length, hqn]; exact hi),
    lv_zipWith _ _ _ (by simp [hqn]; exact hi) (by simp [PrimitiveEquations.tRef, htr]; exact hi),
    lv_nodalCosLatGradQ eq qm i (by rw [hqn]; exact hi), PrimitiveEquations.tRef,
    lv_map _ _ (by rw [htr]; exact hi), lv_map _ _ (by rw [hqn]; exact hi), hg, divProd,
    ← L.toModal_lin.map_smul]
  congr 2
  simp only [constN_eq, Algebra.smul_def, map_mul]
  ring

theorem humDivOf_length (eq : PrimitiveEquations K M N) (p : M) (q : List N) (qm : List M) (aux : Diag N)
    (n : ℕ) (htr : eq.referenceTemperature.length = n) (hal : eq.vert.alpha.length = n) (hq : q.length = n)
    (hqn : qm.length = n) : (humDivOf eq p q qm aux).length = n := by
  unfold humDivOf
  simp only []
  rw [List.length_zipWith, geopotentialDiff_length eq _ n hal]
  simp [Col.add, PrimitiveEquations.tRef, htr, nodalCosLatGradQ_length, hqn, hq]

end moist2

/-! ## flux form versus product-rule form of the `T_ref` share of the pressure-gradient term -/
section moist3
set_option linter.unusedSectionVars false
variable {K M N : Type} [Field K] [AddCommGroup M] [Module K M] [CommRing N] [Algebra K N]
variable {h : HOps K M N}

theorem Laws.curl_wgs_lin3 (L : Laws h) (a b e : K) (q c : N) (g : N × N) :
    h.curlCosLat false (weightedGradSec2 h (a • (1 : N) + b • q + e • c) g)
      = a • h.curlCosLat false (weightedGradSec2 h 1 g) + b • h.curlCosLat false (weightedGradSec2 h q g)
        + e • h.curlCosLat false (weightedGradSec2 h c g) := by
  rw [L.weighted_add, L.curlCosLat_add, L.weighted_add, L.curlCosLat_add, L.weighted_smul, L.curlCosLat_smul,
    L.weighted_smul, L.curlCosLat_smul, L.weighted_smul, L.curlCosLat_smul]

theorem Laws.div_wgs_lin3 (L : Laws h) (a b e : K) (q c : N) (g : N × N) :
    h.divCosLat false (weightedGradSec2 h (a • (1 : N) + b • q + e • c) g)
      = a • h.divCosLat false (weightedGradSec2 h 1 g) + b • h.divCosLat false (weightedGradSec2 h q g)
        + e • h.divCosLat false (weightedGradSec2 h c g) := by
  rw [L.weighted_add, L.divCosLat_add, L.weighted_add, L.divCosLat_add, L.weighted_smul, L.divCosLat_smul,
    L.weighted_smul, L.divCosLat_smul, L.weighted_smul, L.divCosLat_smul]

/-- curl of the `rd·F`-weighted pressure gradient, `F = 1 + ε q − c`: the `1` has no curl, the `q`
 part is the product-rule form (`MoistLaws.curl_product_rule_resolved`), the `c` part stays -/
theorem clip_curl_Y (L : Laws h) (ML : MoistLaws h) (p qm : M) (hp : h.clip p = p) (hq : h.clip qm = qm)
    (rd ε : K) (f c : N) (hf : f = 1 + ε • h.toNodal qm - c) :
    h.clip (h.curlCosLat false (weightedGradSec2 h (rd • f) (nodalGrad h p)))
      = (rd * ε) • h.clip (curlProd h qm p)
        - rd • h.clip (h.curlCosLat false (weightedGradSec2 h c (nodalGrad h p))) := by
  have e : rd • f = rd • (1 : N) + (rd * ε) • h.toNodal qm + (-rd) • c := by rw [hf]; module
  rw [e, L.curl_wgs_lin3, L.clip_lin.map_add, L.clip_lin.map_add, L.clip_lin.map_smul, L.clip_lin.map_smul,
    L.clip_lin.map_smul, L.curl_grad p hp, ML.curl_product_rule_resolved p qm hp hq]
  unfold curlProd
  module

/-- divergence of the `rd·F`-weighted pressure gradient: `rd·∇²p` from the `1`, the product-rule form
 from `q` (`MoistLaws.product_rule_resolved`), the `c` part stays -/
theorem clip_div_Y (L : Laws h) (ML : MoistLaws h) (p qm : M) (hp : h.clip p = p) (hq : h.clip qm = qm)
    (rd ε : K) (f c : N) (hf : f = 1 + ε • h.toNodal qm - c) :
    h.clip (h.divCosLat false (weightedGradSec2 h (rd • f) (nodalGrad h p)))
      = rd • h.laplacian p + (rd * ε) • h.clip (divProd h qm p)
        - rd • h.clip (h.divCosLat false (weightedGradSec2 h c (nodalGrad h p))) := by
  have e : rd • f = rd • (1 : N) + (rd * ε) • h.toNodal qm + (-rd) • c := by rw [hf]; module
  rw [e, L.div_wgs_lin3, L.clip_lin.map_add, L.clip_lin.map_add, L.clip_lin.map_smul, L.clip_lin.map_smul,
    L.clip_lin.map_smul, L.div_grad p hp, ML.product_rule_resolved p qm hp hq]
  unfold divProd
  module

/-- what the cloud class loses: `R·dT·clip(curl(c ∇p))` and `R·dT·clip(div(c ∇p))`, level by level,
 for a condensate column `c` (nodal) -/
def condResidual (h : HOps K M N) (R : K) (p : M) (dT : List K) (c : List N) : List M × List M :=
  (List.zipWith (fun (d : K) (ci : N) =>
      (R * d) • h.clip (h.curlCosLat false (weightedGradSec2 h ci (nodalGrad h p)))) dT c,
   List.zipWith (fun (d : K) (ci : N) =>
      (R * d) • h.clip (h.divCosLat false (weightedGradSec2 h ci (nodalGrad h p)))) dT c)

/-- **vorticity equation of the moist-type classes** under the shift -/
theorem moist_vorticity_field (L : Laws h) (ML : MoistLaws h) (p : M) (hp : h.clip p = p) (R Rv : K)
    (hR : R ≠ 0) (Z HV HV' ZV qm : List M) (dT Tr : List K) (F c : List N) (n : ℕ)
    (hZ : Z.length = n) (hHVl : HV.length = n) (hHVl' : HV'.length = n) (hZV : ZV.length = n)
    (hd : dT.length = n) (hF : F.length = n) (hc : c.length = n)
    (hqc : ∀ i, i < n → h.clip (lv qm i) = lv qm i)
    (hFc : ∀ i, i < n → lv F i = 1 + (Rv / R - 1) • h.toNodal (lv qm i) - lv c i)
    (hHV : ∀ i, i < n → lv HV i = -((lv Tr i * (Rv - R)) • curlProd h (lv qm i) p))
    (hHV' : ∀ i, i < n → lv HV' i = -(((lv Tr i - lv dT i) * (Rv - R)) • curlProd h (lv qm i) p)) :
    Col.add (List.map h.clip (Col.add
        (List.zipWith (fun z y => z - h.curlCosLat false (weightedGradSec2 h y (nodalGrad h p))) Z
          (List.zipWith (fun (d : K) (f : N) => (R * d) • f) dT F)) HV')) ZV
      = Col.add (Col.add (List.map h.clip (Col.add Z HV)) ZV) (condResidual h R p dT c).1 := by
  have hY : (List.zipWith (fun (d : K) (f : N) => (R * d) • f) dT F).length = n := by simp [hd, hF]
  have hZY : (List.zipWith (fun z y => z - h.curlCosLat false (weightedGradSec2 h y (nodalGrad h p))) Z
          (List.zipWith (fun (d : K) (f : N) => (R * d) • f) dT F)).length = n := by simp [hZ, hd, hF]
  have hres : (condResidual h R p dT c).1.length = n := by simp [condResidual, hd, hc]
  apply ext_lv (n := n)
  · simp [Col.add, hZ, hd, hF, hHVl', hZV]
  · simp [Col.add, condResidual, hZ, hd, hc, hHVl, hZV]
  intro i hi
  have e1 : R * lv dT i * (Rv / R - 1) = lv dT i * (Rv - R) := by field_simp
  rw [lv_add _ _ (by simp [Col.add, hZY, hHVl', hZV]), lv_map _ _ (by simp [Col.add, hZY, hHVl']; exact hi),
    lv_add _ _ (by rw [hZY, hHVl']), lv_zipWith _ _ _ (by rw [hZ]; exact hi) (by rw [hY]; exact hi),
    lv_zipWith _ _ _ (by rw [hd]; exact hi) (by rw [hF]; exact hi),
    lv_add _ _ (by simp [Col.add, hZ, hHVl, hZV, hres]),
    lv_add _ _ (by simp [Col.add, hZ, hHVl, hZV]), lv_map _ _ (by simp [Col.add, hZ, hHVl]; exact hi),
    lv_add _ _ (by rw [hZ, hHVl]), hHV i hi, hHV' i hi]
  unfold condResidual
  rw [lv_zipWith _ _ _ (by rw [hd]; exact hi) (by rw [hc]; exact hi)]
  simp only [L.clip_lin.map_add, L.clip_lin.map_sub, L.clip_lin.map_neg, L.clip_lin.map_smul]
  rw [clip_curl_Y L ML p (lv qm i) hp (hqc i hi) (R * lv dT i) (Rv / R - 1) (lv F i) (lv c i) (hFc i hi), e1]
  module

/-- **divergence equation of the moist-type classes** under the shift; `I` is the unshifted implicit
 divergence tendency, `G` the (unchanged) geopotential part of the humidity correction -/
theorem moist_divergence_field (L : Laws h) (ML : MoistLaws h) (p : M) (hp : h.clip p = p) (R Rv : K)
    (hR : R ≠ 0) (D ke HD HD' I qm : List M) (oro : M) (G : ℕ → M) (dT Tr : List K) (F c : List N) (n : ℕ)
    (hD : D.length = n) (hke : ke.length = n) (hHDl : HD.length = n) (hHDl' : HD'.length = n)
    (hI : I.length = n) (hd : dT.length = n) (hF : F.length = n) (hc : c.length = n)
    (hqc : ∀ i, i < n → h.clip (lv qm i) = lv qm i)
    (hFc : ∀ i, i < n → lv F i = 1 + (Rv / R - 1) • h.toNodal (lv qm i) - lv c i)
    (hHD : ∀ i, i < n → lv HD i = G i - (lv Tr i * (Rv - R)) • divProd h (lv qm i) p)
    (hHD' : ∀ i, i < n → lv HD' i = G i - ((lv Tr i - lv dT i) * (Rv - R)) • divProd h (lv qm i) p) :
    Col.add (List.map h.clip (Col.add (Col.addLevel (Col.add
        (List.zipWith (fun d y => d - h.divCosLat false (weightedGradSec2 h y (nodalGrad h p))) D
          (List.zipWith (fun (d : K) (f : N) => (R * d) • f) dT F)) ke) oro) HD'))
        (List.zipWith (fun y (d : K) => y + (R * d) • h.laplacian p) I dT)
      = Col.add (Col.add (List.map h.clip (Col.add (Col.addLevel (Col.add D ke) oro) HD)) I)
          (condResidual h R p dT c).2 := by
  have hY : (List.zipWith (fun (d : K) (f : N) => (R * d) • f) dT F).length = n := by simp [hd, hF]
  have hDY : (List.zipWith (fun d y => d - h.divCosLat false (weightedGradSec2 h y (nodalGrad h p))) D
          (List.zipWith (fun (d : K) (f : N) => (R * d) • f) dT F)).length = n := by simp [hD, hd, hF]
  have hres : (condResidual h R p dT c).2.length = n := by simp [condResidual, hd, hc]
  apply ext_lv (n := n)
  · simp [Col.add, Col.addLevel, hD, hd, hF, hke, hHDl', hI]
  · simp [Col.add, Col.addLevel, condResidual, hD, hd, hc, hke, hHDl, hI]
  intro i hi
  have e1 : R * lv dT i * (Rv / R - 1) = lv dT i * (Rv - R) := by field_simp
  have hal : ∀ (X : List M), X.length = n → lv (Col.addLevel (Col.add X ke) oro) i = lv X i + lv ke i + oro := by
    intro X hX
    unfold Col.addLevel
    rw [lv_map _ _ (by simp [Col.add, hX, hke]; exact hi), lv_add _ _ (by rw [hX, hke])]
  rw [lv_add _ _ (by simp [Col.add, Col.addLevel, hDY, hke, hHDl', hI, hd]),
    lv_map _ _ (by simp [Col.add, Col.addLevel, hDY, hke, hHDl']; exact hi),
    lv_add _ _ (by simp [Col.add, Col.addLevel, hDY, hke, hHDl']), hal _ hDY,
    lv_zipWith _ _ _ (by rw [hD]; exact hi) (by rw [hY]; exact hi),
    lv_zipWith _ _ _ (by rw [hd]; exact hi) (by rw [hF]; exact hi),
    lv_zipWith _ _ _ (by rw [hI]; exact hi) (by rw [hd]; exact hi),
    lv_add _ _ (by simp [Col.add, Col.addLevel, hD, hke, hHDl, hI, hres]),
    lv_add _ _ (by simp [Col.add, Col.addLevel, hD, hke, hHDl, hI]),
    lv_map _ _ (by simp [Col.add, Col.addLevel, hD, hke, hHDl]; exact hi),
    lv_add _ _ (by simp [Col.add, Col.addLevel, hD, hke, hHDl]), hal _ hD, hHD i hi, hHD' i hi]
  unfold condResidual
  rw [lv_zipWith _ _ _ (by rw [hd]; exact hi) (by rw [hc]; exact hi)]
  simp only [L.clip_lin.map_add, L.clip_lin.map_sub, L.clip_lin.map_smul]
  rw [clip_div_Y L ML p (lv qm i) hp (hqc i hi) (R * lv dT i) (Rv / R - 1) (lv F i) (lv c i) (hFc i hi), e1]
  module

end moist3

/-! ## assembling the total tendency of the moist-type classes -/
section moist4
set_option linter.unusedSectionVars false
variable {K M N : Type} [Field K] [DecidableEq K] [AddCommGroup M] [Module K M] [CommRing N] [Algebra K N]
  [Div N]

/-- `explicit + implicit` of a moist-type class whose `_virtual_temperature` returned `rTv` -/
def moistTotalOf (eq : PrimitiveEquations K M N) (s : State M) (rTv : List N) (qm : List M) : State M :=
  State.add (moistExplicitOf eq s (computeDiagnosticState eq.ops eq.vert s) rTv (qm.map eq.ops.toNodal) qm)
    (eq.implicitTerms s)

/-- add a pair of columns to the vorticity and divergence tendencies -/
def State.addMomentum (s : State M) (r : List M × List M) : State M :=
  { s with vorticity := Col.add s.vorticity r.1, divergence := Col.add s.divergence r.2 }

theorem rTvOf_length (R : K) (t F : List N) (n : ℕ) (ht : t.length = n) (hF : F.length = n) :
    (rTvOf R t F).length = n := by simp [rTvOf, ht, hF]

/-- **the total tendency of the moist-type classes under the shift** `T_ref → T_ref − dT`,
 `T' → T' + dT·1`, for any factor column `F = 1 + ε q − c` of the virtual temperature:
 temperature, surface pressure and tracers are unchanged, the momentum equations change by
 `R·dT·clip((curl|div)(c ∇ln p_s))`. -/
theorem moist_total_shift (eq : PrimitiveEquations K M N) (s : State M) (dT : List K) (n : ℕ)
    (L : Laws eq.ops) (ML : MoistLaws eq.ops) (A : Admissible eq.ops s) (S : Shaped eq s n)
    (hd : dT.length = n) (hinc : eq.includeVerticalAdvection = true) (h2 : (1 + 1 : K) ≠ 0)
    (hR : eq.phys.R ≠ 0) (qm : List M) (hqn : qm.length = n) (hqc : ∀ x ∈ qm, eq.ops.clip x = x)
    (F c : List N) (hF : F.length = n) (hc : c.length = n)
    (hFc : ∀ i, i < n →
      lv F i = 1 + (eq.phys.Rvapor / eq.phys.R - 1) • eq.ops.toNodal (lv qm i) - lv c i)
    (hdiv : ∀ i, i < n → ∀ x : N,
      ((1 : N) + (eq.phys.CpVapor / (eq.phys.R / eq.phys.kappa) - 1) • eq.ops.toNodal (lv qm i))
        * (x / ((1 : N) + (eq.phys.CpVapor / (eq.phys.R / eq.phys.kappa) - 1) • eq.ops.toNodal (lv qm i))) = x) :
    moistTotalOf (withTRef eq (Col.sub eq.referenceTemperature dT))
        (s.withT (shiftM eq.ops s.temperatureVariation dT))
        (rTvOf eq.phys.R (shiftN (computeDiagnosticState eq.ops eq.vert s).temperatureVariation dT) F) qm
      = (moistTotalOf eq s (rTvOf eq.phys.R (computeDiagnosticState eq.ops eq.vert s).temperatureVariation F)
            qm).addMomentum (condResidual eq.ops eq.phys.R s.logSurfacePressure dT c) := by
  have Sd := diag_shaped eq s n S
  have Sd2 := Sd.shift dT hd
  have hdg : computeDiagnosticState (withTRef eq (Col.sub eq.referenceTemperature dT)).ops
      (withTRef eq (Col.sub eq.referenceTemperature dT)).vert
      (s.withT (shiftM eq.ops s.temperatureVariation dT))
      = (computeDiagnosticState eq.ops eq.vert s).withT
          (shiftN (computeDiagnosticState eq.ops eq.vert s).temperatureVariation dT) :=
    diag_shift eq.ops eq.vert s dT L
  have hrl := rTvOf_length eq.phys.R (computeDiagnosticState eq.ops eq.vert s).temperatureVariation F n Sd.t hF
  have hcl := cdt_length eq (computeDiagnosticState eq.ops eq.vert s)
    (rTvOf eq.phys.R (computeDiagnosticState eq.ops eq.vert s).temperatureVariation F) n S.pos Sd.z Sd.u Sd.v
    hrl Sd.sdf_len Sd.ctc
  have hcd : (withTRef eq (Col.sub eq.referenceTemperature dT)).curlAndDivTendenciesWith
      ((computeDiagnosticState eq.ops eq.vert s).withT
          (shiftN (computeDiagnosticState eq.ops eq.vert s).temperatureVariation dT))
      (rTvOf eq.phys.R (shiftN (computeDiagnosticState eq.ops eq.vert s).temperatureVariation dT) F)
      = _ :=
    (congrArg (eq.curlAndDivTendenciesWith (computeDiagnosticState eq.ops eq.vert s))
      (rTvOf_shift eq.phys.R (computeDiagnosticState eq.ops eq.vert s).temperatureVariation F dT)).trans
    (cdt_add eq (computeDiagnosticState eq.ops eq.vert s) _ _ n L S.pos Sd.z Sd.u Sd.v
      hrl (by simp [hd, hF]) Sd.sdf_len Sd.ctc)
  have hqcl : ∀ i, i < n → eq.ops.clip (lv qm i) = lv qm i :=
    fun i hi => hqc _ (lv_mem qm i (by rw [hqn]; exact hi))
  have hqnl : (qm.map eq.ops.toNodal).length = n := by simp [hqn]
  have hg : (computeDiagnosticState eq.ops eq.vert s).cosLatGradLogSp
      = nodalGrad eq.ops s.logSurfacePressure := rfl
  have hg2 : ((computeDiagnosticState eq.ops eq.vert s).withT
          (shiftN (computeDiagnosticState eq.ops eq.vert s).temperatureVariation dT)).cosLatGradLogSp
      = nodalGrad eq.ops s.logSurfacePressure := rfl
  unfold moistTotalOf moistExplicitOf PrimitiveEquations.implicitTerms State.addMomentum
  rw [hdg]
  apply State.ext'
  · -- vorticity
    show Col.add (List.map eq.ops.clip (Col.add _ _)) _
      = Col.add (Col.add (List.map eq.ops.clip (Col.add _ _)) _) _
    rw [hcd]
    exact moist_vorticity_field L ML s.logSurfacePressure A.lsp_clip eq.phys.R eq.phys.Rvapor hR _ _ _ _ qm dT
      eq.referenceTemperature F c n hcl.1 (humVortOf_length eq qm _ n S.tr hqn)
      (humVortOf_length _ qm _ n Sd2.tr hqn) (by simp [Col.zerosLike, State.withT, S.z]) hd hF hc hqcl hFc
      (fun i hi => lv_humVortOf eq L qm _ s.logSurfacePressure n hg S.tr hqn i hi)
      (fun i hi => by
        refine (lv_humVortOf (withTRef eq (Col.sub eq.referenceTemperature dT)) L qm _ s.logSurfacePressure n hg2
          Sd2.tr hqn i hi).trans ?_
        show -((lv (Col.sub eq.referenceTemperature dT) i * _) • _) = _
        rw [lv_sub _ _ (by rw [S.tr, hd])]
        rfl)
  · -- divergence
    show Col.add (List.map eq.ops.clip (Col.add (Col.addLevel (Col.add _ _) _) _)) _
      = Col.add (Col.add (List.map eq.ops.clip (Col.add (Col.addLevel (Col.add _ _) _) _)) _) _
    rw [hcd]
    show Col.add _ ((Col.add ((withTRef eq (Col.sub eq.referenceTemperature dT)).geopotentialDiff
            (shiftM eq.ops s.temperatureVariation dT))
          ((Col.sub eq.referenceTemperature dT).map fun t => (eq.phys.R * t) • s.logSurfacePressure)).map
            (fun x => -(eq.ops.laplacian x))) = _
    rw [implicit_div_shift eq L s.temperatureVariation s.logSurfacePressure dT n Sd.al S.tr S.t hd]
    exact moist_divergence_field L ML s.logSurfacePressure A.lsp_clip eq.phys.R eq.phys.Rvapor hR _ _ _ _ _ qm _
      (fun i => -(eq.ops.laplacian (eq.ops.toModal (lv (eq.geopotentialDiff
        (tdiffOf eq (qm.map eq.ops.toNodal) (computeDiagnosticState eq.ops eq.vert s))) i))))
      dT eq.referenceTemperature F c n hcl.2
      (by simp [PrimitiveEquations.kineticEnergyTendency, Sd2.u, Sd2.v])
      (humDivOf_length eq _ _ qm _ n S.tr Sd.al hqnl hqn)
      (humDivOf_length _ _ _ qm _ n Sd2.tr Sd2.al hqnl hqn)
      (by simp [Col.add, geopotentialDiff_length eq s.temperatureVariation n Sd.al, S.tr])
      hd hF hc hqcl hFc
      (fun i hi => lv_humDivOf eq L qm _ s.logSurfacePressure n hg S.tr Sd.al hqn i hi)
      (fun i hi => by
        refine (lv_humDivOf (withTRef eq (Col.sub eq.referenceTemperature dT)) L qm _ s.logSurfacePressure n hg2
          Sd2.tr Sd2.al hqn i hi).trans ?_
        rw [tdiffOf_shift eq _ _ dT n S.tr Sd.t hd]
        show _ - (lv (Col.sub eq.referenceTemperature dT) i * _) • _ = _
        rw [lv_sub _ _ (by rw [S.tr, hd])]
        rfl)
  · -- temperature
    exact temperature_field eq s dT n L A S hd hinc h2 _ _ (moistAdiab_length eq _ _ n Sd hqnl)
      (moistAdiab_length _ _ _ n Sd2 hqnl)
      (fun i hi => moist_thermo_level eq _ _ n Sd hqnl dT hd hinc i hi (by
        rw [lv_map _ _ (by rw [hqn]; exact hi)]
        exact hdiv i hi))
  · rfl
  · rfl

/-- `explicit + implicit` of a moist-type class with `_virtual_temperature` method `vt`
 (`none` = the `ValueError` of a missing tracer); `sim_time` tendencies are `1` and `0` -/
def totalMoistWith (eq : PrimitiveEquations K M N) (vt : Diag N → List N → Option (List N))
    (s : StateWithTime K M) : Option (StateWithTime K M) :=
  (MoistPrimitiveEquations.explicitTermsWith eq vt s).map fun e =>
    { state := State.add e.state (MoistPrimitiveEquations.implicitTerms eq s).state
      simTime := e.simTime + (MoistPrimitiveEquations.implicitTerms eq s).simTime }

theorem totalMoistWith_eval (eq : PrimitiveEquations K M N) (vt : Diag N → List N → Option (List N))
    (s : StateWithTime K M) (qm : List M) (rTv : List N)
    (hq : lookup specificHumidityKey s.state.tracers = some qm)
    (hvt : vt (computeDiagnosticState eq.ops eq.vert s.state)
        (Col.smul (eq.phys.Rvapor / eq.phys.R - 1) (qm.map eq.ops.toNodal)) = some rTv) :
    totalMoistWith eq vt s = some { state := moistTotalOf eq s.state rTv qm, simTime := 1 + 0 } := by
  unfold totalMoistWith
  rw [explicitTermsWith_eval eq vt s qm rTv hq hvt]
  rfl

/-- `MoistPrimitiveEquations._virtual_temperature` multiplies `R·T'` with `1 + moisture_contribution` -/
theorem virtualTemperature_eq (eq : PrimitiveEquations K M N) (aux : Diag N) (mc : List N) :
    MoistPrimitiveEquations.virtualTemperature eq aux mc
      = some (rTvOf eq.phys.R aux.temperatureVariation (mc.map fun m => (1 : N) + m)) := by
  unfold MoistPrimitiveEquations.virtualTemperature rTvOf
  rw [List.zipWith_map_right]

/-- `MoistPrimitiveEquationsWithCloudMoisture._virtual_temperature` multiplies `R·T'` with
 `1 + moisture_contribution − q_l − q_i` -/
theorem virtualTemperatureWithClouds_eq (eq : PrimitiveEquations K M N) (aux : Diag N) (mc ql qi : List N)
    (hl : lookup cloudWaterKey aux.tracers = some ql) (hi : lookup cloudIceKey aux.tracers = some qi) :
    MoistPrimitiveEquations.virtualTemperatureWithClouds eq aux mc
      = some (rTvOf eq.phys.R aux.temperatureVariation
          (Col.sub (Col.sub (mc.map fun m => (1 : N) + m) ql) qi)) := by
  simp only [MoistPrimitiveEquations.virtualTemperatureWithClouds, hl, hi, Option.bind_eq_bind,
    Option.bind_some, Option.pure_def]
  rfl

theorem col_add_zero {V : Type} [AddCommGroup V] (x r : List V) (hl : x.length ≤ r.length)
    (hr : ∀ i, lv r i = 0) : Col.add x r = x := by
  apply ext_lv (n := x.length)
  · simp [Col.add, hl]
  · rfl
  intro i hi
  unfold Col.add
  rw [lv_zipWith _ _ _ hi (by omega), hr, add_zero]

theorem State.addMomentum_zero (st : State M) (r : List M × List M)
    (h1 : st.vorticity.length ≤ r.1.length) (h2 : st.divergence.length ≤ r.2.length)
    (z1 : ∀ i, lv r.1 i = 0) (z2 : ∀ i, lv r.2 i = 0) : st.addMomentum r = st := by
  unfold State.addMomentum
  rw [col_add_zero _ _ h1 z1, col_add_zero _ _ h2 z2]

theorem moistTotalOf_vorticity_length (eq : PrimitiveEquations K M N) (s : State M) (rTv : List N)
    (qm : List M) : (moistTotalOf eq s rTv qm).vorticity.length ≤ s.vorticity.length := by
  show (Col.add _ (Col.zerosLike s.vorticity : List M)).length ≤ _
  simp only [Col.add, Col.zerosLike, List.length_zipWith, List.length_map]
  omega

theorem moistTotalOf_divergence_length (eq : PrimitiveEquations K M N) (s : State M) (rTv : List N)
    (qm : List M) : (moistTotalOf eq s rTv qm).divergence.length ≤ eq.referenceTemperature.length := by
  show (Col.add _ ((Col.add (eq.geopotentialDiff s.temperatureVariation)
    (eq.referenceTemperature.map fun t => (eq.phys.R * t) • s.logSurfacePressure)).map
      fun x => -(eq.ops.laplacian x))).length ≤ _
  simp only [Col.add, List.length_zipWith, List.length_map]
  omega

/-- a condensate column that vanishes gives no residual -/
theorem lv_condResidual_zero {h : HOps K M N} (L : Laws h) (R : K) (p : M) (dT : List K) (c : List N)
    (hc0 : ∀ i, lv c i = 0) (i : ℕ) :
    lv (condResidual h R p dT c).1 i = 0 ∧ lv (condResidual h R p dT c).2 i = 0 := by
  have hw : weightedGradSec2 h (0 : N) (nodalGrad h p) = (0, 0) := by
    simp [weightedGradSec2, L.toModal_lin.map_zero]
  have hcurl : h.clip (h.curlCosLat false (weightedGradSec2 h (0 : N) (nodalGrad h p))) = 0 := by
    rw [hw]
    simp [HOps.curlCosLat, L.dDlon_lin.map_zero, L.secLatDDlatCos2_lin.map_zero, L.clip_lin.map_zero]
  have hdv : h.clip (h.divCosLat false (weightedGradSec2 h (0 : N) (nodalGrad h p))) = 0 := by
    rw [hw]
    simp [HOps.divCosLat, L.dDlon_lin.map_zero, L.secLatDDlatCos2_lin.map_zero, L.clip_lin.map_zero]
  unfold condResidual
  constructor
  · rw [lv_zipWith_zero _ (fun b => by simp) (fun a => by rw [hcurl, smul_zero]), hc0, hcurl, smul_zero]
  · rw [lv_zipWith_zero _ (fun b => by simp) (fun a => by rw [hdv, smul_zero]), hc0, hdv, smul_zero]

/-- two descriptions of one atmosphere: `T₂ = T_ref − dT`, `t₂ = T' + dT·1` with `dT = T_ref − T₂` -/
theorem shift_of_abs (eq : PrimitiveEquations K M N) (T₂ : List K) (t₁ t₂ : List M) (n : ℕ)
    (htr : eq.referenceTemperature.length = n) (ht₁ : t₁.length = n) (hT₂ : T₂.length = n)
    (ht₂ : t₂.length = n)
    (habs : ∀ i, i < n →
      lv t₂ i + lv T₂ i • eq.ops.oneModal = lv t₁ i + lv eq.referenceTemperature i • eq.ops.oneModal) :
    T₂ = Col.sub eq.referenceTemperature (Col.sub eq.referenceTemperature T₂)
      ∧ t₂ = shiftM eq.ops t₁ (Col.sub eq.referenceTemperature T₂) := by
  have hdl : (Col.sub eq.referenceTemperature T₂).length = n := by simp [Col.sub, htr, hT₂]
  have hlv : ∀ i, lv (Col.sub eq.referenceTemperature T₂) i = lv eq.referenceTemperature i - lv T₂ i := by
    intro i; rw [lv_sub _ _ (by rw [htr, hT₂])]
  constructor
  · apply ext_lv (n := n) hT₂ (by simp [Col.sub, htr, hT₂])
    intro i _
    rw [lv_sub _ _ (by rw [htr, hdl]), hlv]
    ring
  · apply ext_lv (n := n) ht₂ (by simp [shiftM, ht₁, hdl])
    intro i hi
    rw [shiftM, lv_zipWith _ _ _ (by rw [ht₁]; exact hi) (by rw [hdl]; exact hi), hlv, sub_smul,
      ← add_sub_assoc, ← habs i hi]
    module

/-- **both totals of a moist-type class, and their difference**, for the shift by `dT`: the class is
 given by its `_virtual_temperature` methods `vt`, `vt'` (for the two reference profiles), which
 multiply `R·T'` with a factor column `F = 1 + ε q − c`. -/
theorem totalMoistWith_shift (eq : PrimitiveEquations K M N) (s : StateWithTime K M) (dT : List K) (n : ℕ)
    (L : Laws eq.ops) (ML : MoistLaws eq.ops) (A : Admissible eq.ops s.state) (S : Shaped eq s.state n)
    (hd : dT.length = n) (hinc : eq.includeVerticalAdvection = true) (h2 : (1 + 1 : K) ≠ 0)
    (hR : eq.phys.R ≠ 0) (qm : List M) (hq : lookup specificHumidityKey s.state.tracers = some qm)
    (hqn : qm.length = n) (hqc : ∀ x ∈ qm, eq.ops.clip x = x)
    (F c : List N) (hF : F.length = n) (hc : c.length = n)
    (hFc : ∀ i, i < n →
      lv F i = 1 + (eq.phys.Rvapor / eq.phys.R - 1) • eq.ops.toNodal (lv qm i) - lv c i)
    (hdiv : ∀ i, i < n → ∀ x : N,
      ((1 : N) + (eq.phys.CpVapor / (eq.phys.R / eq.phys.kappa) - 1) • eq.ops.toNodal (lv qm i))
        * (x / ((1 : N) + (eq.phys.CpVapor / (eq.phys.R / eq.phys.kappa) - 1) • eq.ops.toNodal (lv qm i))) = x)
    (vt vt' : Diag N → List N → Option (List N))
    (hvt : ∀ aux : Diag N, aux.tracers = (computeDiagnosticState eq.ops eq.vert s.state).tracers →
      vt aux (Col.smul (eq.phys.Rvapor / eq.phys.R - 1) (qm.map eq.ops.toNodal))
        = some (rTvOf eq.phys.R aux.temperatureVariation F))
    (hvt' : ∀ aux : Diag N, aux.tracers = (computeDiagnosticState eq.ops eq.vert s.state).tracers →
      vt' aux (Col.smul (eq.phys.Rvapor / eq.phys.R - 1) (qm.map eq.ops.toNodal))
        = some (rTvOf eq.phys.R aux.temperatureVariation F)) :
    totalMoistWith eq vt s
        = some { state := moistTotalOf eq s.state
                    (rTvOf eq.phys.R (computeDiagnosticState eq.ops eq.vert s.state).temperatureVariation F) qm
                 simTime := 1 + 0 }
      ∧ totalMoistWith (withTRef eq (Col.sub eq.referenceTemperature dT)) vt'
          { state := s.state.withT (shiftM eq.ops s.state.temperatureVariation dT), simTime := s.simTime }
        = some { state := (moistTotalOf eq s.state
                    (rTvOf eq.phys.R (computeDiagnosticState eq.ops eq.vert s.state).temperatureVariation F)
                    qm).addMomentum (condResidual eq.ops eq.phys.R s.state.logSurfacePressure dT c)
                 simTime := 1 + 0 } := by
  have hT' : (computeDiagnosticState eq.ops eq.vert
        (s.state.withT (shiftM eq.ops s.state.temperatureVariation dT))).temperatureVariation
      = shiftN (computeDiagnosticState eq.ops eq.vert s.state).temperatureVariation dT :=
    congrArg Diag.temperatureVariation (diag_shift eq.ops eq.vert s.state dT L)
  have e1 := totalMoistWith_eval eq vt s qm _ hq (hvt _ rfl)
  have hv2 : vt' (computeDiagnosticState (withTRef eq (Col.sub eq.referenceTemperature dT)).ops
        (withTRef eq (Col.sub eq.referenceTemperature dT)).vert
        (s.state.withT (shiftM eq.ops s.state.temperatureVariation dT)))
      (Col.smul (eq.phys.Rvapor / eq.phys.R - 1) (qm.map eq.ops.toNodal))
      = some (rTvOf eq.phys.R
          (shiftN (computeDiagnosticState eq.ops eq.vert s.state).temperatureVariation dT) F) := by
    rw [← hT']
    exact hvt' _ rfl
  have e2 := totalMoistWith_eval (withTRef eq (Col.sub eq.referenceTemperature dT)) vt'
    { state := s.state.withT (shiftM eq.ops s.state.temperatureVariation dT), simTime := s.simTime } qm _ hq hv2
  refine ⟨e1, ?_⟩
  rw [e2]
  exact congrArg (fun st => some ({ state := st, simTime := 1 + 0 } : StateWithTime K M))
    (moist_total_shift eq s.state dT n L ML A S hd hinc h2 hR qm hqn hqc F c hF hc hFc hdiv)

/-- a residual that is non-zero at one level changes the state -/
theorem State.addMomentum_ne (st : State M) (r : List M × List M) (i : ℕ)
    (hl : st.divergence.length = r.2.length) (hr : lv r.2 i ≠ 0) : st.addMomentum r ≠ st := by
  intro h
  have h1 : Col.add st.divergence r.2 = st.divergence := congrArg State.divergence h
  have h2 := congrArg (fun x => lv x i) h1
  simp only [lv_add _ _ hl] at h2
  exact hr (by simpa using h2)

/-- the exact lengths of the momentum tendencies of a moist-type total -/
theorem moistTotalOf_lengths (eq : PrimitiveEquations K M N) (s : State M) (n : ℕ) (S : Shaped eq s n)
    (rTv : List N) (qm : List M) (hr : rTv.length = n) (hqn : qm.length = n) :
    (moistTotalOf eq s rTv qm).vorticity.length = n ∧ (moistTotalOf eq s rTv qm).divergence.length = n := by
  have Sd := diag_shaped eq s n S
  have hcl := cdt_length eq (computeDiagnosticState eq.ops eq.vert s) rTv n S.pos Sd.z Sd.u Sd.v hr
    Sd.sdf_len Sd.ctc
  have hv := humVortOf_length eq qm (computeDiagnosticState eq.ops eq.vert s) n S.tr hqn
  have hdv := humDivOf_length eq s.logSurfacePressure (qm.map eq.ops.toNodal) qm
    (computeDiagnosticState eq.ops eq.vert s) n S.tr Sd.al (by simp [hqn]) hqn
  have hke : (eq.kineticEnergyTendency (computeDiagnosticState eq.ops eq.vert s)).length = n := by
    simp [PrimitiveEquations.kineticEnergyTendency, Sd.u, Sd.v]
  have hgd := geopotentialDiff_length eq s.temperatureVariation n Sd.al
  constructor
  · show (Col.add (List.map eq.ops.clip (Col.add _ _)) (Col.zerosLike s.vorticity : List M)).length = n
    simp only [Col.add, Col.zerosLike, List.length_zipWith, List.length_map, hcl.1, hv, S.z]
    omega
  · show (Col.add (List.map eq.ops.clip (Col.add (Col.addLevel (Col.add _ _) _) _))
      ((Col.add (eq.geopotentialDiff s.temperatureVariation)
        (eq.referenceTemperature.map fun t => (eq.phys.R * t) • s.logSurfacePressure)).map
          fun x => -(eq.ops.laplacian x))).length = n
    simp only [Col.add, Col.addLevel, List.length_zipWith, List.length_map, hcl.2, hdv, hke, hgd, S.tr]
    omega

end moist4
end Dino.Dynamics
