import DinoProofs.Lemmas.DynamicsMasked
import DinoProofs.Lemmas.Symmetry

/-!
# C04: naturality — the restricted operations ARE the unrestricted ones on arrays that lie in the mask

`DynamicsMasked.lean` states T4.2 – T4.4 for the operations `eq.restrict Mk C ho` (modal carrier `↥Mk`), while the
object diffed against `/repo` by `harness/props/C04.py` is `eq` itself (modal carrier `M`, rectangular arrays).
This file proves the structural identity that connects the two (review2 F, C04 N2):

* `HOps.Hom h' h φ`: a `K`-linear map `φ : M' → M` intertwines two records of horizontal operations that share the
  nodal side (`to_nodal ∘ φ = to_nodal'`, `to_modal = φ ∘ to_modal'`, every modal operation commutes with `φ`,
  same nodal tables and radius);
* `explicitTerms_hom`, `implicitTerms_hom`, `total_hom`, `moistExplicitTermsWith_hom`: every equation class of
  `Dino/Dynamics.lean` commutes with `φ` applied leaf by leaf (`State.mapLevels φ`) — by unfolding, no law of the
  operations is used;
* `restrict_hom`: `Subtype.val : ↥Mk → M` is such a map from `h.restrict Mk C` to `h` (every field by `rfl`), hence
  `total_restrict`: `(total (eq.restrict Mk C ho) s).mapLevels Subtype.val = total eq (s.mapLevels Subtype.val)`;
* `State.InMask`, `State.exists_lift`: a state all of whose leaves lie in `Mk` is `s'.mapLevels Subtype.val`.

`Properties/C04.lean` uses them to restate the masked theorems for the UNRESTRICTED operations `eq` applied to
states whose entries lie in the mask.
-/
namespace Dino.Dynamics
open Dino Dino.Symmetry
set_option linter.unusedSectionVars false
set_option linter.unusedVariables false

section hom
variable {K M' M N : Type} [Field K] [DecidableEq K] [AddCommGroup M'] [Module K M'] [AddCommGroup M] [Module K M]
  [CommRing N] [Algebra K N]

/-- `φ : M' → M` intertwines the horizontal operations `h'` (modal carrier `M'`) and `h` (modal carrier `M`);
 the nodal side is shared -/
structure HOps.Hom (h' : HOps K M' N) (h : HOps K M N) (φ : M' →ₗ[K] M) : Prop where
  toNodal : ∀ x, h.toNodal (φ x) = h'.toNodal x
  toModal : ∀ z, h.toModal z = φ (h'.toModal z)
  dDlon : ∀ x, h.dDlon (φ x) = φ (h'.dDlon x)
  cosLatDDlat : ∀ x, h.cosLatDDlat (φ x) = φ (h'.cosLatDDlat x)
  secLatDDlatCos2 : ∀ x, h.secLatDDlatCos2 (φ x) = φ (h'.secLatDDlatCos2 x)
  laplacian : ∀ x, h.laplacian (φ x) = φ (h'.laplacian x)
  inverseLaplacian : ∀ x, h.inverseLaplacian (φ x) = φ (h'.inverseLaplacian x)
  clip : ∀ x, h.clip (φ x) = φ (h'.clip x)
  lproj : ∀ l x, h.lproj l (φ x) = φ (h'.lproj l x)
  nL : h.nL = h'.nL
  lapEig : h.lapEig = h'.lapEig
  cosLat : h.cosLat = h'.cosLat
  sec2Lat : h.sec2Lat = h'.sec2Lat
  sinLat : h.sinLat = h'.sinLat
  oneModal : h.oneModal = φ h'.oneModal
  radius : h.radius = h'.radius

/-- the equations `eq` with another record of horizontal operations (and the orography in its carrier);
 the vertical grid, the constants, the reference profile and the flag are shared -/
def PrimitiveEquations.pull (eq : PrimitiveEquations K M N) (h' : HOps K M' N) (o' : M') :
    PrimitiveEquations K M' N :=
  { ops := h', vert := eq.vert, phys := eq.phys, referenceTemperature := eq.referenceTemperature
    orography := o', includeVerticalAdvection := eq.includeVerticalAdvection }

section proj
variable (eq : PrimitiveEquations K M N) (h' : HOps K M' N) (o' : M')
@[simp] theorem pull_ops : (eq.pull h' o').ops = h' := rfl
@[simp] theorem pull_vert : (eq.pull h' o').vert = eq.vert := rfl
@[simp] theorem pull_phys : (eq.pull h' o').phys = eq.phys := rfl
@[simp] theorem pull_tref : (eq.pull h' o').referenceTemperature = eq.referenceTemperature := rfl
@[simp] theorem pull_orography : (eq.pull h' o').orography = o' := rfl
@[simp] theorem pull_iva : (eq.pull h' o').includeVerticalAdvection = eq.includeVerticalAdvection := rfl
theorem pull_tRef : ((eq.pull h' o').tRef : List N) = eq.tRef := rfl
theorem pull_verticalTendency (w x : List N) : (eq.pull h' o').verticalTendency w x = eq.verticalTendency w x := rfl
theorem pull_tOmega (t g v : List N) : (eq.pull h' o').tOmegaOverSigmaSp t g v = eq.tOmegaOverSigmaSp t g v := rfl
theorem pull_tRefVaries : (eq.pull h' o').tRefVaries = eq.tRefVaries := rfl
theorem pull_withTRef (T : List K) : withTRef (eq.pull h' o') T = (withTRef eq T).pull h' o' := rfl
end proj

variable {h' : HOps K M' N} {h : HOps K M N} {φ : M' →ₗ[K] M} (H : HOps.Hom h' h φ)
include H

/-! ### the derived grid operations -/

theorem cosLatGrad_hom (c : Bool) (x : M') :
    h.cosLatGrad c (φ x) = (φ (h'.cosLatGrad c x).1, φ (h'.cosLatGrad c x).2) := by
  unfold HOps.cosLatGrad
  simp only [H.dDlon, H.cosLatDDlat, H.radius, ← map_smul, H.clip]
  cases c <;> rfl

theorem divCosLat_hom (c : Bool) (a b : M') :
    h.divCosLat c (φ a, φ b) = φ (h'.divCosLat c (a, b)) := by
  unfold HOps.divCosLat
  simp only [H.dDlon, H.secLatDDlatCos2, H.radius, ← map_add, ← map_smul, H.clip]
  cases c <;> rfl

theorem curlCosLat_hom (c : Bool) (a b : M') :
    h.curlCosLat c (φ a, φ b) = φ (h'.curlCosLat c (a, b)) := by
  unfold HOps.curlCosLat
  simp only [H.dDlon, H.secLatDDlatCos2, H.radius, ← map_sub, ← map_smul, H.clip]
  cases c <;> rfl

theorem cosLatVector_hom (c : Bool) (z d : M') :
    h.cosLatVector c (φ z) (φ d) = (φ (h'.cosLatVector c z d).1, φ (h'.cosLatVector c z d).2) := by
  simp only [HOps.cosLatVector, HOps.kCross, H.inverseLaplacian, cosLatGrad_hom H, map_add, map_neg]

theorem divSecLat_hom (m n : N) : h.divSecLat m n = φ (h'.divSecLat m n) := by
  unfold HOps.divSecLat
  rw [H.toModal, H.toModal, divCosLat_hom H, H.sec2Lat]

theorem map_toNodal_hom (x : List M') : (x.map φ).map h.toNodal = x.map h'.toNodal := by
  rw [List.map_map]
  exact List.map_congr_left fun a _ => H.toNodal a

theorem map_toModal_hom (x : List N) : x.map h.toModal = (x.map h'.toModal).map φ := by
  rw [List.map_map]
  exact List.map_congr_left fun a _ => H.toModal a

/-- **the nodal diagnostics of a state and of its image are the same** -/
theorem computeDiagnosticState_hom (v : Vert K) (s : State M') :
    computeDiagnosticState h v (s.mapLevels φ) = computeDiagnosticState h' v s := by
  unfold computeDiagnosticState State.mapLevels
  have hclv1 : (List.zipWith (fun z d => h.cosLatVector false z d) (s.vorticity.map φ) (s.divergence.map φ)).map
        (fun p => h.toNodal p.1)
      = (List.zipWith (fun z d => h'.cosLatVector false z d) s.vorticity s.divergence).map
        (fun p => h'.toNodal p.1) := by
    rw [List.zipWith_map, List.map_zipWith, List.map_zipWith]
    congr 1
    funext z d
    rw [cosLatVector_hom H, H.toNodal]
  have hclv2 : (List.zipWith (fun z d => h.cosLatVector false z d) (s.vorticity.map φ) (s.divergence.map φ)).map
        (fun p => h.toNodal p.2)
      = (List.zipWith (fun z d => h'.cosLatVector false z d) s.vorticity s.divergence).map
        (fun p => h'.toNodal p.2) := by
    rw [List.zipWith_map, List.map_zipWith, List.map_zipWith]
    congr 1
    funext z d
    rw [cosLatVector_hom H, H.toNodal]
  have htr : mapTracers (fun x => x.map h.toNodal) (mapTracers (fun x => x.map φ) s.tracers)
      = mapTracers (fun x => x.map h'.toNodal) s.tracers := by
    simp only [mapTracers, List.map_map]
    apply List.map_congr_left
    intro kv _
    simp only [Function.comp, map_toNodal_hom H]
  simp only [hclv1, hclv2, htr, map_toNodal_hom H, cosLatGrad_hom H, H.toNodal, H.sec2Lat]

end hom

/-! ### the dry class -/
section dry
variable {K M' M N : Type} [Field K] [DecidableEq K] [AddCommGroup M'] [Module K M'] [AddCommGroup M] [Module K M]
  [CommRing N] [Algebra K N]

theorem mapTracers_comp {α β γ : Type} (f : α → β) (g : β → γ) (t : List (String × α)) :
    mapTracers g (mapTracers f t) = mapTracers (fun x => g (f x)) t := by
  simp [mapTracers, List.map_map, Function.comp_def]

/-- `tree_math` addition commutes with a linear map applied leaf by leaf -/
theorem State.add_mapLevels (φ : M' →ₗ[K] M) (a b : State M') :
    State.add (a.mapLevels φ) (b.mapLevels φ) = (State.add a b).mapLevels φ := by
  unfold State.add State.mapLevels
  simp only [col_add, map_add]
  congr 1
  unfold State.zipTracers mapTracers
  exact zipWith_map_comm _ _ _ _ _ (fun x y => by simp only [col_add]) _ _

variable (eq : PrimitiveEquations K M N) {h' : HOps K M' N} {φ : M' →ₗ[K] M} {o' : M'}
  (H : HOps.Hom h' eq.ops φ)
include H

theorem pull_coriolis : ((eq.pull h' o').coriolisParameter : N) = eq.coriolisParameter := by
  simp only [PrimitiveEquations.coriolisParameter, pull_phys, pull_ops, H.sinLat]

theorem kineticEnergyTendency_hom (aux : Diag N) :
    eq.kineticEnergyTendency aux = ((eq.pull h' o').kineticEnergyTendency aux).map φ := by
  unfold PrimitiveEquations.kineticEnergyTendency
  simp only [pull_ops, H.sec2Lat, List.map_map]
  apply List.map_congr_left
  intro k _
  simp only [Function.comp, H.toModal, H.laplacian, map_neg]

theorem orographyTendency_hom (ho : eq.orography = φ o') :
    eq.orographyTendency = φ (eq.pull h' o').orographyTendency := by
  simp only [PrimitiveEquations.orographyTendency, pull_ops, pull_phys, pull_orography, ho, H.laplacian, map_smul]

theorem curlAndDivTendenciesWith_hom (aux : Diag N) (rT : List N) :
    eq.curlAndDivTendenciesWith aux rT
      = (((eq.pull h' o').curlAndDivTendenciesWith aux rT).1.map φ,
         ((eq.pull h' o').curlAndDivTendenciesWith aux rT).2.map φ) := by
  unfold PrimitiveEquations.curlAndDivTendenciesWith
  simp only [pull_ops, pull_iva, pull_verticalTendency, pull_coriolis eq H, H.sec2Lat, map_toModal_hom H]
  congr 1
  · exact zipWith_map_comm _ _ _ _ _ (fun cu cv => by rw [curlCosLat_hom H, map_neg]) _ _
  · exact zipWith_map_comm _ _ _ _ _ (fun cu cv => by rw [divCosLat_hom H, map_neg]) _ _

theorem curlAndDivTendencies_hom (aux : Diag N) :
    eq.curlAndDivTendencies aux
      = (((eq.pull h' o').curlAndDivTendencies aux).1.map φ, ((eq.pull h' o').curlAndDivTendencies aux).2.map φ) := by
  unfold PrimitiveEquations.curlAndDivTendencies
  rw [curlAndDivTendenciesWith_hom eq H (o' := o')]
  rfl

theorem horizontalScalarAdvection_hom (scalar : List N) (aux : Diag N) :
    eq.horizontalScalarAdvection scalar aux
      = (((eq.pull h' o').horizontalScalarAdvection scalar aux).1,
         ((eq.pull h' o').horizontalScalarAdvection scalar aux).2.map φ) := by
  unfold PrimitiveEquations.horizontalScalarAdvection
  simp only [pull_ops, List.map_zipWith]
  congr 2
  funext a b
  rw [divSecLat_hom H, map_neg]

theorem tracerTendency_hom (aux : Diag N) (x : List N) :
    eq.tracerTendency aux x = ((eq.pull h' o').tracerTendency aux x).map φ := by
  unfold PrimitiveEquations.tracerTendency
  rw [horizontalScalarAdvection_hom eq H (o' := o')]
  simp only [pull_ops, pull_iva, pull_verticalTendency, map_toModal_hom H, col_add]
  rfl

theorem thermoTendencies_hom (aux : Diag N) (ad : List N) :
    eq.thermoTendencies aux ad
      = (((eq.pull h' o').thermoTendencies aux ad).1.map φ, φ ((eq.pull h' o').thermoTendencies aux ad).2.1,
         mapTracers (fun x => x.map φ) ((eq.pull h' o').thermoTendencies aux ad).2.2) := by
  unfold PrimitiveEquations.thermoTendencies
  have h1 : (eq.pull h' o').nodalTemperatureVerticalTendency aux = eq.nodalTemperatureVerticalTendency aux := rfl
  have h2 : (eq.pull h' o').nodalLogPressureTendency aux = eq.nodalLogPressureTendency aux := rfl
  simp only [h1, h2, horizontalScalarAdvection_hom eq H (o' := o'), pull_ops, map_toModal_hom H, col_add,
    H.toModal, mapTracers_comp, ← tracerTendency_hom eq H (o' := o')]

theorem clipState_hom (s : State M') :
    eq.clipState (s.mapLevels φ) = ((eq.pull h' o').clipState s).mapLevels φ := by
  unfold PrimitiveEquations.clipState State.mapLevels
  simp only [pull_ops, map_map_comm _ _ _ _ H.clip, H.clip, mapTracers_comp]

/-- **`explicit_terms` commutes with `φ`** -/
theorem explicitTerms_hom (ho : eq.orography = φ o') (s : State M') :
    eq.explicitTerms (s.mapLevels φ) = ((eq.pull h' o').explicitTerms s).mapLevels φ := by
  unfold PrimitiveEquations.explicitTerms
  simp only [pull_ops, pull_vert]
  have ha : (eq.pull h' o').nodalTemperatureAdiabaticTendency (computeDiagnosticState h' eq.vert s)
      = eq.nodalTemperatureAdiabaticTendency (computeDiagnosticState h' eq.vert s) := rfl
  rw [computeDiagnosticState_hom H, curlAndDivTendencies_hom eq H (o' := o'),
    kineticEnergyTendency_hom eq H (o' := o'), thermoTendencies_hom eq H (o' := o'),
    orographyTendency_hom eq H ho, col_add, col_addLevel, ← clipState_hom eq H, ha]
  rfl

/-- **`implicit_terms` commutes with `φ`** -/
theorem implicitTerms_hom (s : State M') :
    eq.implicitTerms (s.mapLevels φ) = ((eq.pull h' o').implicitTerms s).mapLevels φ := by
  have hW : (eq.pull h' o').temperatureImplicitWeights = eq.temperatureImplicitWeights := rfl
  have hrt : (eq.referenceTemperature.map fun t => (eq.phys.R * t) • φ s.logSurfacePressure)
      = (eq.referenceTemperature.map fun t => (eq.phys.R * t) • s.logSurfacePressure).map φ := by
    rw [List.map_map]
    exact List.map_congr_left fun t _ => (map_smul φ _ _).symm
  unfold PrimitiveEquations.implicitTerms State.mapLevels PrimitiveEquations.geopotentialDiff
    PrimitiveEquations.temperatureImplicit
  simp only [pull_ops, pull_vert, pull_phys, pull_tref, hW, hrt, col_matvec, col_add, col_sigmaIntegral, map_neg,
    mapTracers_comp]
  apply State.ext' <;> simp [Col.zerosLike, mapTracers, Function.comp_def, H.laplacian]

/-- **`explicit + implicit` commutes with `φ`** -/
theorem total_hom (ho : eq.orography = φ o') (s : State M') :
    total eq (s.mapLevels φ) = (total (eq.pull h' o') s).mapLevels φ := by
  unfold total
  rw [explicitTerms_hom eq H ho, implicitTerms_hom eq H (o' := o'), State.add_mapLevels]

end dry

/-! ### the moist classes -/
section moist
variable {K M' M N : Type} [Field K] [DecidableEq K] [AddCommGroup M'] [Module K M'] [AddCommGroup M] [Module K M]
  [CommRing N] [Algebra K N] [Div N]

/-- a map of modal level-fields applied to every leaf of a `StateWithTime` (`sim_time` is kept) -/
def StateWithTime.mapLevels {M₁ M₂ : Type} (f : M₁ → M₂) (s : StateWithTime K M₁) : StateWithTime K M₂ :=
  { state := s.state.mapLevels f, simTime := s.simTime }

variable (eq : PrimitiveEquations K M N) {h' : HOps K M' N} {φ : M' →ₗ[K] M} {o' : M'}
  (H : HOps.Hom h' eq.ops φ)
include H

theorem nodalCosLatGradQ_hom (qm : List M') :
    MoistPrimitiveEquations.nodalCosLatGradQ eq (qm.map φ)
      = MoistPrimitiveEquations.nodalCosLatGradQ (eq.pull h' o') qm := by
  unfold MoistPrimitiveEquations.nodalCosLatGradQ
  rw [List.map_map]
  apply List.map_congr_left
  intro q _
  simp only [Function.comp, pull_ops, cosLatGrad_hom H, H.toNodal]

theorem moist_curlAndDivTendencies_hom (vt : Diag N → List N → Option (List N)) (aux : Diag N) :
    MoistPrimitiveEquations.curlAndDivTendencies eq vt aux
      = (MoistPrimitiveEquations.curlAndDivTendencies (eq.pull h' o') vt aux).map
          fun p => (p.1.map φ, p.2.map φ) := by
  unfold MoistPrimitiveEquations.curlAndDivTendencies
  simp only [pull_phys, Option.bind_eq_bind, Option.pure_def]
  cases MoistPrimitiveEquations.getSpecificHumidity aux.tracers with
  | none => rfl
  | some q =>
    simp only [Option.bind_some]
    cases vt aux (Col.smul (eq.phys.Rvapor / eq.phys.R - 1) q) with
    | none => rfl
    | some rTv =>
      simp only [Option.bind_some, Option.map_some]
      rw [curlAndDivTendenciesWith_hom eq H (o' := o')]

theorem vorticityTendencyDueToHumidity_hom (s : State M') (aux : Diag N) :
    MoistPrimitiveEquations.vorticityTendencyDueToHumidity eq (s.mapLevels φ) aux
      = (MoistPrimitiveEquations.vorticityTendencyDueToHumidity (eq.pull h' o') s aux).map (List.map φ) := by
  unfold MoistPrimitiveEquations.vorticityTendencyDueToHumidity MoistPrimitiveEquations.getSpecificHumidity
  have ht : (s.mapLevels φ).tracers = mapTracers (fun x => x.map φ) s.tracers := rfl
  simp only [ht, lookup_mapTracers, pull_phys, pull_ops, pull_tRef, Option.bind_eq_bind, Option.pure_def]
  cases lookup specificHumidityKey s.tracers with
  | none => rfl
  | some qm =>
    simp only [Option.map_some, Option.bind_some, nodalCosLatGradQ_hom eq H (o' := o'), H.sec2Lat,
      map_toModal_hom H]

theorem divergenceTendencyDueToHumidity_hom (s : State M') (aux : Diag N) :
    MoistPrimitiveEquations.divergenceTendencyDueToHumidity eq (s.mapLevels φ) aux
      = (MoistPrimitiveEquations.divergenceTendencyDueToHumidity (eq.pull h' o') s aux).map (List.map φ) := by
  unfold MoistPrimitiveEquations.divergenceTendencyDueToHumidity MoistPrimitiveEquations.getSpecificHumidity
  have ht : (s.mapLevels φ).tracers = mapTracers (fun x => x.map φ) s.tracers := rfl
  have hp : (s.mapLevels φ).logSurfacePressure = φ s.logSurfacePressure := rfl
  have hg : ∀ x : List N, (eq.pull h' o').geopotentialDiff x = eq.geopotentialDiff x := fun _ => rfl
  simp only [ht, hp, hg, lookup_mapTracers, pull_phys, pull_ops, pull_tRef, Option.bind_eq_bind, Option.pure_def]
  cases lookup specificHumidityKey aux.tracers with
  | none => rfl
  | some q =>
    simp only [Option.bind_some]
    cases lookup specificHumidityKey s.tracers with
    | none => rfl
    | some qm =>
      simp only [Option.map_some, Option.bind_some, nodalCosLatGradQ_hom eq H (o' := o'), H.sec2Lat,
        H.laplacian, H.toNodal, List.map_zipWith]
      congr 2
      funext gd tm
      rw [H.toModal, H.toModal, H.laplacian, map_sub, map_neg]

/-- **`MoistPrimitiveEquations.explicit_terms` (any `_virtual_temperature` method) commutes with `φ`** -/
theorem moistExplicitTermsWith_hom (ho : eq.orography = φ o') (vt : Diag N → List N → Option (List N))
    (s : StateWithTime K M') :
    MoistPrimitiveEquations.explicitTermsWith eq vt (s.mapLevels φ)
      = (MoistPrimitiveEquations.explicitTermsWith (eq.pull h' o') vt s).map (StateWithTime.mapLevels φ) := by
  unfold MoistPrimitiveEquations.explicitTermsWith
  have hs : (StateWithTime.mapLevels φ s).state = s.state.mapLevels φ := rfl
  have ha : MoistPrimitiveEquations.nodalTemperatureAdiabaticTendency (eq.pull h' o')
        (computeDiagnosticState h' eq.vert s.state)
      = MoistPrimitiveEquations.nodalTemperatureAdiabaticTendency eq (computeDiagnosticState h' eq.vert s.state) := rfl
  simp only [hs, pull_ops, pull_vert, computeDiagnosticState_hom H, moist_curlAndDivTendencies_hom eq H (o' := o'),
    vorticityTendencyDueToHumidity_hom eq H (o' := o'), divergenceTendencyDueToHumidity_hom eq H (o' := o'), ha,
    Option.bind_eq_bind, Option.pure_def]
  cases MoistPrimitiveEquations.curlAndDivTendencies (eq.pull h' o') vt (computeDiagnosticState h' eq.vert s.state) with
  | none => rfl
  | some cd =>
    cases MoistPrimitiveEquations.vorticityTendencyDueToHumidity (eq.pull h' o') s.state
        (computeDiagnosticState h' eq.vert s.state) with
    | none => rfl
    | some hv =>
      cases MoistPrimitiveEquations.divergenceTendencyDueToHumidity (eq.pull h' o') s.state
          (computeDiagnosticState h' eq.vert s.state) with
      | none => rfl
      | some hd =>
        cases MoistPrimitiveEquations.nodalTemperatureAdiabaticTendency eq
            (computeDiagnosticState h' eq.vert s.state) with
        | none => rfl
        | some ad =>
          simp only [Option.map_some, Option.bind_some]
          rw [kineticEnergyTendency_hom eq H (o' := o'), thermoTendencies_hom eq H (o' := o'),
            orographyTendency_hom eq H ho]
          simp only [col_add, col_addLevel, StateWithTime.mapLevels]
          rw [← clipState_hom eq H]
          rfl

end moist

/-! ### the restriction to a closed mask is such a map -/
section restrict
variable {K M N : Type} [Field K] [DecidableEq K] [AddCommGroup M] [Module K M] [CommRing N] [Algebra K N]

/-- `Subtype.val : ↥Mk → M` intertwines `h.restrict Mk C` and `h` (every field by `rfl`) -/
theorem restrict_hom {h : HOps K M N} {Mk : Submodule K M} (C : MaskClosed h Mk) :
    HOps.Hom (h.restrict Mk C) h Mk.subtype where
  toNodal := fun _ => rfl
  toModal := fun _ => rfl
  dDlon := fun _ => rfl
  cosLatDDlat := fun _ => rfl
  secLatDDlatCos2 := fun _ => rfl
  laplacian := fun _ => rfl
  inverseLaplacian := fun _ => rfl
  clip := fun _ => rfl
  lproj := fun _ _ => rfl
  nL := rfl
  lapEig := rfl
  cosLat := rfl
  sec2Lat := rfl
  sinLat := rfl
  oneModal := rfl
  radius := rfl

variable (eq : PrimitiveEquations K M N) (Mk : Submodule K M) (C : MaskClosed eq.ops Mk) (ho : eq.orography ∈ Mk)

theorem restrict_eq_pull : eq.restrict Mk C ho = eq.pull (eq.ops.restrict Mk C) ⟨eq.orography, ho⟩ := rfl

theorem withTRef_restrict (T : List K) :
    withTRef (eq.restrict Mk C ho) T = (withTRef eq T).restrict Mk C ho := rfl

/-- **naturality of `explicit_terms`**: the restricted operations on a state with masked leaves, read in `M`,
 are the unrestricted operations on the same arrays -/
theorem explicitTerms_restrict (s : State Mk) :
    ((eq.restrict Mk C ho).explicitTerms s).mapLevels Subtype.val = eq.explicitTerms (s.mapLevels Subtype.val) := by
  have h := explicitTerms_hom eq (restrict_hom C) (o' := ⟨eq.orography, ho⟩) rfl s
  rw [Submodule.coe_subtype] at h
  rw [restrict_eq_pull]
  exact h.symm

theorem implicitTerms_restrict (s : State Mk) :
    ((eq.restrict Mk C ho).implicitTerms s).mapLevels Subtype.val = eq.implicitTerms (s.mapLevels Subtype.val) := by
  have h := implicitTerms_hom eq (restrict_hom C) (o' := ⟨eq.orography, ho⟩) s
  rw [Submodule.coe_subtype] at h
  rw [restrict_eq_pull]
  exact h.symm

/-- **naturality of the full tendency** (`explicit + implicit`, dry class) -/
theorem total_restrict (s : State Mk) :
    (total (eq.restrict Mk C ho) s).mapLevels Subtype.val = total eq (s.mapLevels Subtype.val) := by
  have h := total_hom eq (restrict_hom C) (o' := ⟨eq.orography, ho⟩) rfl s
  rw [Submodule.coe_subtype] at h
  rw [restrict_eq_pull]
  exact h.symm

/-- **naturality of the moist `explicit_terms`** (any `_virtual_temperature` method) -/
theorem moistExplicitTermsWith_restrict [Div N] (vt : Diag N → List N → Option (List N))
    (s : StateWithTime K Mk) :
    (MoistPrimitiveEquations.explicitTermsWith (eq.restrict Mk C ho) vt s).map
        (StateWithTime.mapLevels Subtype.val)
      = MoistPrimitiveEquations.explicitTermsWith eq vt (s.mapLevels Subtype.val) := by
  have h := moistExplicitTermsWith_hom eq (restrict_hom C) (o' := ⟨eq.orography, ho⟩) rfl vt s
  rw [Submodule.coe_subtype] at h
  rw [restrict_eq_pull]
  exact h.symm

/-! ### states whose leaves lie in the mask are images of states over `↥Mk` -/

/-- every leaf of `s` (every level of every field and tracer) lies in `Mk` -/
structure State.InMask (Mk : Submodule K M) (s : State M) : Prop where
  vorticity : ∀ x ∈ s.vorticity, x ∈ Mk
  divergence : ∀ x ∈ s.divergence, x ∈ Mk
  temperatureVariation : ∀ x ∈ s.temperatureVariation, x ∈ Mk
  logSurfacePressure : s.logSurfacePressure ∈ Mk
  tracers : ∀ kv ∈ s.tracers, ∀ x ∈ kv.2, x ∈ Mk

omit [DecidableEq K] in
theorem exists_lift_list {Mk : Submodule K M} (l : List M) (hl : ∀ x ∈ l, x ∈ Mk) :
    ∃ l' : List Mk, l'.map Subtype.val = l := by
  induction l with
  | nil => exact ⟨[], rfl⟩
  | cons a t ih =>
    obtain ⟨t', ht'⟩ := ih fun x hx => hl x (List.mem_cons_of_mem _ hx)
    exact ⟨⟨a, hl a List.mem_cons_self⟩ :: t', by rw [List.map_cons, ht']⟩

omit [DecidableEq K] in
theorem exists_lift_tracers {Mk : Submodule K M} (t : List (String × List M))
    (ht : ∀ kv ∈ t, ∀ x ∈ kv.2, x ∈ Mk) :
    ∃ t' : List (String × List Mk), mapTracers (fun x => x.map Subtype.val) t' = t := by
  induction t with
  | nil => exact ⟨[], rfl⟩
  | cons kv t ih =>
    obtain ⟨t', ht'⟩ := ih fun kv' hkv => ht kv' (List.mem_cons_of_mem _ hkv)
    obtain ⟨c', hc'⟩ := exists_lift_list kv.2 (ht kv List.mem_cons_self)
    refine ⟨(kv.1, c') :: t', ?_⟩
    simp only [mapTracers, List.map_cons] at ht' ⊢
    rw [ht', hc']

omit [DecidableEq K] in
theorem State.exists_lift {Mk : Submodule K M} (s : State M) (hs : s.InMask Mk) :
    ∃ s' : State Mk, s'.mapLevels Subtype.val = s := by
  obtain ⟨z, hz⟩ := exists_lift_list s.vorticity hs.vorticity
  obtain ⟨d, hd⟩ := exists_lift_list s.divergence hs.divergence
  obtain ⟨t, ht⟩ := exists_lift_list s.temperatureVariation hs.temperatureVariation
  obtain ⟨tr, htr⟩ := exists_lift_tracers s.tracers hs.tracers
  refine ⟨{ vorticity := z, divergence := d, temperatureVariation := t
            logSurfacePressure := ⟨s.logSurfacePressure, hs.logSurfacePressure⟩, tracers := tr }, ?_⟩
  cases s
  simp only [State.mapLevels] at *
  simp only [hz, hd, ht, htr]

omit [DecidableEq K] in
/-- the image of a state over `↥Mk` has its leaves in `Mk` -/
theorem State.inMask_mapLevels {Mk : Submodule K M} (s' : State Mk) : (s'.mapLevels Subtype.val).InMask Mk where
  vorticity := fun x hx => by obtain ⟨y, _, rfl⟩ := List.mem_map.1 hx; exact y.2
  divergence := fun x hx => by obtain ⟨y, _, rfl⟩ := List.mem_map.1 hx; exact y.2
  temperatureVariation := fun x hx => by obtain ⟨y, _, rfl⟩ := List.mem_map.1 hx; exact y.2
  logSurfacePressure := s'.logSurfacePressure.2
  tracers := fun kv hkv x hx => by
    obtain ⟨kv', _, rfl⟩ := List.mem_map.1 hkv
    obtain ⟨y, _, rfl⟩ := List.mem_map.1 hx
    exact y.2

end restrict
end Dino.Dynamics
